From Coq Require Import ZArith List Bool Lia ZifyBool Arith Permutation.
From S3V Require Import gen.Tables model.Plan proofs.PlanProofs model.Legacy.
Import ListNotations.
Open Scope Z_scope.
Ltac Zify.zify_post_hook ::= Z.to_euclidean_division_equations.

(** * Part 1: upload (C05) *)

Definition is_part (e : uev) : bool := match e with UPart _ _ => true | _ => false end.
Definition is_complete (e : uev) : bool := match e with UComplete _ => true | _ => false end.
Definition is_abort (e : uev) : bool := match e with UAbort _ => true | _ => false end.
Definition part_no (e : uev) : Z := match e with UPart n _ => n | _ => 0 end.
Definition part_ok (e : uev) : bool := match e with UPart _ ok => ok | _ => false end.
Definition raising (o : uout) : Prop := o <> USuccess.

Lemma first_fail_none l : first_fail l = None -> Forall (fun b => b = true) l.
Proof.
  induction l as [|b l IH]; intros H; [constructor|].
  destruct b; cbn in H; [|discriminate].
  destruct (first_fail l); [discriminate|]. constructor; auto.
Qed.

Lemma first_fail_some l f : first_fail l = Some f ->
  (f < length l)%nat /\ nth f l true = false /\ forall j, (j < f)%nat -> nth j l true = true.
Proof.
  revert f; induction l as [|b l IH]; intros f H; [discriminate|].
  destruct b; cbn in H.
  - destruct (first_fail l) as [k|] eqn:E; [|discriminate]. injection H as <-.
    destruct (IH k eq_refl) as (A & B & C). cbn [length nth]. split; [lia|]. split; [exact B|].
    intros j Hj. destruct j; [reflexivity|]. apply C. lia.
  - injection H as <-. cbn. split; [lia|]. split; [reflexivity|]. intros j Hj; lia.
Qed.

Lemma parts_run_le parts_ok started : (parts_run parts_ok started <= length parts_ok)%nat.
Proof.
  unfold parts_run. destruct (first_fail parts_ok) as [f|] eqn:E; [|lia].
  apply first_fail_some in E. lia.
Qed.

(** every part up to and including the first failing one has run *)
Lemma parts_run_covers_first_fail parts_ok started f :
  first_fail parts_ok = Some f -> (f < parts_run parts_ok started)%nat.
Proof. intros E. unfold parts_run. rewrite E. lia. Qed.

Lemma parts_run_all_ok parts_ok started :
  first_fail parts_ok = None -> parts_run parts_ok started = length parts_ok.
Proof. intros E. unfold parts_run. now rewrite E. Qed.

Lemma part_events_length k oks : length (part_events k oks) = length oks.
Proof. revert k; induction oks as [|b r IH]; intros k; cbn; [reflexivity|now rewrite IH]. Qed.

Lemma part_events_parts k oks : forallb is_part (part_events k oks) = true.
Proof. revert k; induction oks as [|b r IH]; intros k; cbn; [reflexivity|apply IH]. Qed.

Lemma part_events_numbers k oks :
  map part_no (part_events k oks) = map (fun i => Z.of_nat (S i)) (seq k (length oks)).
Proof. revert k; induction oks as [|b r IH]; intros k; cbn [part_events map length seq part_no]; [reflexivity|now rewrite IH]. Qed.

Lemma part_events_oks k oks : map part_ok (part_events k oks) = oks.
Proof. revert k; induction oks as [|b r IH]; intros k; cbn [part_events map part_ok]; [reflexivity|now rewrite IH]. Qed.

Lemma canonical_length parts_ok started :
  length (canonical_parts parts_ok started) = parts_run parts_ok started.
Proof.
  unfold canonical_parts. rewrite part_events_length, firstn_length.
  pose proof (parts_run_le parts_ok started). lia.
Qed.

(** the parts issued are numbered 1..m, each once, in the canonical order *)
Lemma canonical_numbers parts_ok started :
  map part_no (canonical_parts parts_ok started) =
  map (fun i => Z.of_nat (S i)) (seq 0 (parts_run parts_ok started)).
Proof.
  unfold canonical_parts. rewrite part_events_numbers, firstn_length.
  pose proof (parts_run_le parts_ok started).
  now replace (Nat.min (parts_run parts_ok started) (length parts_ok)) with (parts_run parts_ok started) by lia.
Qed.

Lemma map_nth_seq {A} (d : A) (l : list A) : map (fun i => nth i l d) (seq 0 (length l)) = l.
Proof.
  induction l as [|x l IH]; [reflexivity|].
  cbn [length seq map nth]. f_equal. rewrite <- seq_shift, map_map. exact IH.
Qed.

Lemma permute_perm {A} (d : A) order (l : list A) :
  Permutation order (seq 0 (length l)) -> Permutation (permute d order l) l.
Proof.
  intros H. unfold permute.
  eapply Permutation_trans; [apply Permutation_map; exact H|].
  rewrite map_nth_seq. apply Permutation_refl.
Qed.

Lemma permute_parts order l :
  forallb is_part l = true -> forallb is_part (permute (UPart 0 true) order l) = true.
Proof.
  intros H. unfold permute. apply forallb_forall. intros x Hx.
  apply in_map_iff in Hx. destruct Hx as (i & <- & _).
  destruct (nth_in_or_default i l (UPart 0 true)) as [Hin| ->]; [|reflexivity].
  rewrite forallb_forall in H. now apply H.
Qed.

(** The shape of a legacy multipart upload's request log. *)
Inductive c05_shape (n : nat) : list uev -> uout -> Prop :=
| shape_ok ps :
    forallb is_part ps = true -> length ps = n -> forallb part_ok ps = true ->
    c05_shape n (UCreate true :: ps ++ [UComplete true]) USuccess
| shape_fail ps mid b :
    forallb is_part ps = true -> (length ps <= n)%nat ->
    mid = [] \/ mid = [UComplete false] ->
    c05_shape n (UCreate true :: ps ++ mid ++ [UAbort b]) (if b then UFailed else UAbortErr)
| shape_nocreate : c05_shape n [UCreate false] UCreateErr.

Lemma In_firstn_incl {A} (x : A) n l : In x (firstn n l) -> In x l.
Proof.
  revert l; induction n as [|n IH]; intros l H; [destruct H|].
  destruct l as [|y l]; [destruct H|]. destruct H as [->|H]; [now left|right; now apply IH].
Qed.

Lemma forallb_perm {A} (f : A -> bool) l l' : Permutation l l' -> forallb f l = true -> forallb f l' = true.
Proof.
  intros P H. apply forallb_forall. intros x Hx. rewrite forallb_forall in H.
  apply H. eapply Permutation_in; [apply Permutation_sym; exact P|exact Hx].
Qed.

Lemma upload_shape create_ok parts_ok started order complete_ok abort_ok :
  Permutation order (seq 0 (length (canonical_parts parts_ok started))) ->
  let (log, out) := legacy_multipart_upload create_ok parts_ok started order complete_ok abort_ok in
  c05_shape (length parts_ok) log out /\
  (create_ok = true ->
   exists ps, Permutation ps (canonical_parts parts_ok started) /\
              exists tl, log = UCreate true :: ps ++ tl /\
                (tl = [UComplete true] \/ tl = [UAbort abort_ok] \/
                 tl = [UComplete false; UAbort abort_ok])).
Proof.
  intros P. unfold legacy_multipart_upload.
  set (canon := canonical_parts parts_ok started) in *.
  pose proof (permute_perm (UPart 0 true) order canon P) as PP.
  assert (Hparts : forallb is_part (permute (UPart 0 true) order canon) = true).
  { apply permute_parts. apply part_events_parts. }
  assert (Hlen : length (permute (UPart 0 true) order canon) = parts_run parts_ok started).
  { rewrite (Permutation_length PP). apply canonical_length. }
  destruct create_ok; cbn [negb].
  2:{ split; [constructor|discriminate]. }
  unfold parts_all_ok. destruct (first_fail parts_ok) as [f|] eqn:E.
  - split.
    + change (UCreate true :: permute (UPart 0 true) order canon ++ [UAbort abort_ok])
        with (UCreate true :: permute (UPart 0 true) order canon ++ [] ++ [UAbort abort_ok]).
      apply shape_fail; [exact Hparts| |now left].
      rewrite Hlen. apply parts_run_le.
    + intros _. exists (permute (UPart 0 true) order canon). split; [exact PP|].
      exists [UAbort abort_ok]. split; [reflexivity|]. right; left; reflexivity.
  - assert (Hall : forallb part_ok (permute (UPart 0 true) order canon) = true).
    { apply (forallb_perm part_ok canon); [now apply Permutation_sym|].
      apply forallb_forall. intros x Hx.
      assert (In (part_ok x) (map part_ok canon)) as Hin by now apply in_map.
      unfold canon, canonical_parts in Hin. rewrite part_events_oks in Hin.
      apply first_fail_none in E. rewrite Forall_forall in E.
      apply E. eapply In_firstn_incl; exact Hin. }
    destruct complete_ok.
    + split.
      * apply shape_ok; [exact Hparts| |exact Hall].
        rewrite Hlen. now apply parts_run_all_ok.
      * intros _. exists (permute (UPart 0 true) order canon). split; [exact PP|].
        exists [UComplete true]. split; [reflexivity|]. left; reflexivity.
    + split.
      * change (UCreate true :: permute (UPart 0 true) order canon ++ UComplete false :: [UAbort abort_ok])
          with (UCreate true :: permute (UPart 0 true) order canon ++ [UComplete false] ++ [UAbort abort_ok]).
        apply shape_fail; [exact Hparts| |now right].
        rewrite Hlen. apply parts_run_le.
      * intros _. exists (permute (UPart 0 true) order canon). split; [exact PP|].
        exists [UComplete false; UAbort abort_ok]. split; [reflexivity|]. right; right; reflexivity.
Qed.

Lemma parts_not_other ps e : forallb is_part ps = true -> In e ps -> is_part e = true.
Proof. intros H Hin. rewrite forallb_forall in H. now apply H. Qed.

Lemma shape_success_iff n log out : c05_shape n log out ->
  (out = USuccess <-> In (UComplete true) log).
Proof.
  intros S. destruct S as [ps Hp _ _|ps mid b Hp _ Hmid|].
  - split; [intros _|reflexivity]. right. apply in_or_app. right. now left.
  - split; [destruct b; discriminate|]. intros [H|H]; [discriminate|].
    apply in_app_or in H. destruct H as [H|H].
    + apply (parts_not_other ps _ Hp) in H. discriminate.
    + apply in_app_or in H. destruct H as [H|[H|[]]]; [|discriminate].
      destruct Hmid as [-> | ->]; [destruct H|]. destruct H as [H|[]]; discriminate.
  - split; [discriminate|]. intros [H|[]]; discriminate.
Qed.

(** never both a successful complete and an abort *)
Lemma shape_not_both n log out : c05_shape n log out ->
  ~ (In (UComplete true) log /\ exists b, In (UAbort b) log).
Proof.
  intros S [Hc [b Ha]]. pose proof (proj2 (shape_success_iff n log out S) Hc) as ->.
  inversion S as [ps Hp _ _ E|ps mid b' _ _ _ E Eo|]; subst.
  - destruct Ha as [H|H]; [discriminate|]. apply in_app_or in H. destruct H as [H|[H|[]]]; [|discriminate].
    apply (parts_not_other ps _ Hp) in H. discriminate.
  - destruct b'; discriminate.
Qed.

(** at most one complete, at most one abort *)
Lemma filter_parts_nil f ps : forallb is_part ps = true ->
  (forall e, is_part e = true -> f e = false) -> filter f ps = [].
Proof.
  intros H Hf. induction ps as [|e ps IH]; [reflexivity|].
  cbn in H. apply andb_prop in H. destruct H as [He Hps]. cbn. rewrite (Hf e He). now apply IH.
Qed.

Lemma shape_counts n log out : c05_shape n log out ->
  (length (filter is_complete log) <= 1)%nat /\ (length (filter is_abort log) <= 1)%nat.
Proof.
  intros S. destruct S as [ps Hp _ _|ps mid b Hp _ Hmid|]; cbn [filter is_complete is_abort].
  - rewrite !filter_app, !(filter_parts_nil _ ps Hp) by (intros [] ?; try discriminate; reflexivity).
    cbn. lia.
  - rewrite !filter_app, !(filter_parts_nil _ ps Hp) by (intros [] ?; try discriminate; reflexivity).
    destruct Hmid as [-> | ->]; cbn; lia.
  - cbn. lia.
Qed.

(** the abort is the last request: after every part and after the complete *)
Lemma shape_abort_last n log out : c05_shape n log out ->
  forall b, In (UAbort b) log ->
  exists pre, log = pre ++ [UAbort b] /\ forallb (fun e => negb (is_abort e)) pre = true.
Proof.
  intros S b Hin. destruct S as [ps Hp _ _|ps mid b' Hp _ Hmid|].
  - exfalso. destruct Hin as [H|H]; [discriminate|]. apply in_app_or in H.
    destruct H as [H|[H|[]]]; [|discriminate]. apply (parts_not_other ps _ Hp) in H. discriminate.
  - assert (Hpre : forallb (fun e => negb (is_abort e)) (UCreate true :: ps ++ mid) = true).
    { cbn [forallb is_abort negb andb]. rewrite forallb_app. apply andb_true_intro. split.
      - apply forallb_forall. intros e He. apply (parts_not_other ps _ Hp) in He. now destruct e.
      - destruct Hmid as [-> | ->]; reflexivity. }
    assert (b = b').
    { destruct Hin as [H|H]; [discriminate|]. apply in_app_or in H. destruct H as [H|H].
      - apply (parts_not_other ps _ Hp) in H. discriminate.
      - apply in_app_or in H. destruct H as [H|[H|[]]]; [|now injection H].
        destruct Hmid as [-> | ->]; [destruct H|]. destruct H as [H|[]]; discriminate. }
    subst b'. exists (UCreate true :: ps ++ mid). split; [|exact Hpre].
    cbn [app]. now rewrite app_assoc.
  - destruct Hin as [H|[]]; discriminate.
Qed.

(** the id was received and the call raised: an abort was issued *)
Lemma shape_failure_aborts n log out : c05_shape n log out ->
  In (UCreate true) log -> out <> USuccess -> exists b, In (UAbort b) log.
Proof.
  intros S Hc Ho. destruct S as [ps _ _ _|ps mid b _ _ _|].
  - now elim Ho.
  - exists b. right. apply in_or_app. right. apply in_or_app. right. now left.
  - destruct Hc as [H|[]]; discriminate.
Qed.

(** no request at all after a failed create, and the create is first *)
Lemma shape_create_first n log out : c05_shape n log out ->
  exists ok rest, log = UCreate ok :: rest /\ (ok = false -> rest = [] /\ out = UCreateErr).
Proof.
  intros S. destruct S; eexists; eexists; (split; [reflexivity|]); try discriminate. auto.
Qed.

(** The variant with the complete after the try/except does not abort when
    the complete fails: the upload stays open. *)
Lemma unrepaired_leaks :
  let (log, out) := legacy_multipart_upload_unrepaired true [true; true] 2 [1%nat; 0%nat] false true in
  In (UCreate true) log /\ out <> USuccess /\ forall b, ~ In (UAbort b) log.
Proof.
  vm_compute. split; [now left|]. split; [discriminate|].
  intros b H. repeat (destruct H as [H|H]; [discriminate|]). exact H.
Qed.

(** upload_file picks the path by the threshold and the part count from Plan *)
Lemma legacy_upload_multipart size thr chunk c p s o co ao po :
  thr <= size ->
  legacy_upload size thr chunk c p s o co ao po =
  legacy_multipart_upload c (firstn (Z.to_nat (num_parts size chunk))
                               (p ++ repeat true (Z.to_nat (num_parts size chunk)))) s o co ao.
Proof. intros H. unfold legacy_upload, is_multipart. destruct (thr <=? size) eqn:E; [reflexivity|lia]. Qed.

Lemma legacy_upload_single size thr chunk c p s o co ao po :
  size < thr ->
  legacy_upload size thr chunk c p s o co ao po = ([UPut po], if po then USuccess else UPutErr).
Proof. intros H. unfold legacy_upload, is_multipart. destruct (thr <=? size) eqn:E; [lia|reflexivity]. Qed.

(** * Part 2: download (C02, C06) *)

(** ** seek + write on a byte list *)

Lemma write_at_length off d f :
  length (write_at off d f) = Nat.max (length f) (off + length d).
Proof. unfold write_at. now rewrite map_length, seq_length. Qed.

Lemma write_at_nth off d f p : (p < Nat.max (length f) (off + length d))%nat ->
  nth p (write_at off d f) 0 =
  if (p <? off)%nat then nth p f 0
  else if (p <? off + length d)%nat then nth (p - off)%nat d 0 else nth p f 0.
Proof.
  intros Hp. unfold write_at.
  set (g := fun q : nat => if (q <? off)%nat then nth q f 0
                           else if (q <? off + length d)%nat then nth (q - off) d 0 else nth q f 0).
  rewrite (nth_indep _ 0 (g 0%nat)) by (now rewrite map_length, seq_length).
  rewrite map_nth. rewrite seq_nth by exact Hp. reflexivity.
Qed.

(** ** what the streaming loop yields *)

Definition read_limit (delivered : Z) (reads : list Z) (buf : Z) (fa : option Z) : option Z :=
  let n0 := match reads with [] => buf | r :: _ => Z.min buf (Z.max 1 r) end in
  match fa with
  | Some k => if k <=? delivered then None else Some (Z.min n0 (k - delivered))
  | None => Some n0
  end.

Lemma stream_chunks_step f rest delivered reads buf fa :
  stream_chunks (S f) rest delivered reads buf fa =
  match read_limit delivered reads buf fa with
  | None => ([], true)
  | Some n =>
      match firstn (Z.to_nat n) rest with
      | [] => ([], false)
      | _ :: _ =>
          let (cs, flt) := stream_chunks f (skipn (Z.to_nat n) rest)
                             (delivered + Z.of_nat (length (firstn (Z.to_nat n) rest)))
                             (tl reads) buf fa in
          (firstn (Z.to_nat n) rest :: cs, flt)
      end
  end.
Proof. reflexivity. Qed.

Lemma read_limit_pos delivered reads buf fa n :
  1 <= buf -> read_limit delivered reads buf fa = Some n -> 1 <= n.
Proof.
  intros Hb. unfold read_limit. destruct fa as [k|].
  - destruct (k <=? delivered) eqn:E; [discriminate|]. intros [= <-].
    destruct reads as [|r rs]; lia.
  - intros [= <-]. destruct reads as [|r rs]; lia.
Qed.

Lemma stream_chunks_prefix fuel : forall rest delivered reads buf fa cs flt,
  stream_chunks fuel rest delivered reads buf fa = (cs, flt) ->
  exists tail, rest = concat cs ++ tail.
Proof.
  induction fuel as [|f IH]; intros rest delivered reads buf fa cs flt H.
  - cbn in H. injection H as <- <-. now exists rest.
  - rewrite stream_chunks_step in H.
    destruct (read_limit delivered reads buf fa) as [n|]; [|injection H as <- <-; now exists rest].
    destruct (firstn (Z.to_nat n) rest) as [|x d'] eqn:Ed; [injection H as <- <-; now exists rest|].
    destruct (stream_chunks f _ _ _ _ _) as [cs' flt'] eqn:Er. injection H as <- <-.
    apply IH in Er. destruct Er as [tail Ht]. exists tail.
    cbn [concat]. rewrite <- app_assoc, <- Ht, <- Ed. symmetry. apply firstn_skipn.
Qed.

Lemma stream_chunks_nonempty fuel : forall rest delivered reads buf fa cs flt,
  stream_chunks fuel rest delivered reads buf fa = (cs, flt) -> Forall (fun c => c <> []) cs.
Proof.
  induction fuel as [|f IH]; intros rest delivered reads buf fa cs flt H.
  - cbn in H. injection H as <- <-. constructor.
  - rewrite stream_chunks_step in H.
    destruct (read_limit delivered reads buf fa) as [n|]; [|injection H as <- <-; constructor].
    destruct (firstn (Z.to_nat n) rest) as [|x d'] eqn:Ed; [injection H as <- <-; constructor|].
    destruct (stream_chunks f _ _ _ _ _) as [cs' flt'] eqn:Er. injection H as <- <-.
    constructor; [discriminate|]. eapply IH; exact Er.
Qed.

(** no stream fault: the chunks are the whole body, whatever the read sizes *)
Lemma stream_chunks_complete fuel : forall rest delivered reads buf fa cs,
  1 <= buf -> (length rest < fuel)%nat ->
  stream_chunks fuel rest delivered reads buf fa = (cs, false) -> concat cs = rest.
Proof.
  induction fuel as [|f IH]; intros rest delivered reads buf fa cs Hb Hf H; [lia|].
  rewrite stream_chunks_step in H.
  destruct (read_limit delivered reads buf fa) as [n|] eqn:En; [|discriminate].
  pose proof (read_limit_pos _ _ _ _ _ Hb En) as Hn.
  destruct (firstn (Z.to_nat n) rest) as [|x d'] eqn:Ed.
  - injection H as <-. destruct rest as [|y rest]; [reflexivity|].
    destruct (Z.to_nat n) eqn:Ez; [lia|]. discriminate Ed.
  - destruct (stream_chunks f _ _ _ _ _) as [cs' flt'] eqn:Er. injection H as <- ->.
    apply IH in Er; [|exact Hb|].
    + cbn [concat]. rewrite Er, <- Ed. apply firstn_skipn.
    + rewrite skipn_length. destruct rest as [|y rest]; [now rewrite firstn_nil in Ed|].
      cbn [length] in *. lia.
Qed.

(** ** every write carries the object's own bytes to the object's own offset *)

Definition consistent (obj : bytes) (w : Z * bytes) : Prop :=
  0 <= fst w /\ fst w + Z.of_nat (length (snd w)) <= Z.of_nat (length obj) /\
  forall j, (j < length (snd w))%nat -> nth j (snd w) 0 = nth (Z.to_nat (fst w) + j) obj 0.

Definition covers (w : Z * bytes) (p : nat) : Prop :=
  (Z.to_nat (fst w) <= p < Z.to_nat (fst w) + length (snd w))%nat.

Lemma nth_skipn_add {A} (d : A) n : forall l j, nth j (skipn n l) d = nth (n + j) l d.
Proof.
  induction n as [|n IH]; intros l j; [reflexivity|].
  destruct l as [|x l]; [now destruct j|]. cbn [skipn Nat.add nth]. apply IH.
Qed.

Lemma writes_from_consistent obj : forall cs off tail,
  0 <= off -> (Z.to_nat off <= length obj)%nat ->
  skipn (Z.to_nat off) obj = concat cs ++ tail ->
  Forall (consistent obj) (writes_from off cs).
Proof.
  induction cs as [|c r IH]; intros off tail H0 Hle Hsk; cbn [writes_from]; [constructor|].
  cbn [concat] in Hsk. rewrite <- app_assoc in Hsk.
  assert (Hlen : (length c <= length obj - Z.to_nat off)%nat).
  { rewrite <- skipn_length, Hsk, app_length. lia. }
  constructor.
  - unfold consistent; cbn [fst snd]. split; [exact H0|]. split; [lia|].
    intros j Hj. rewrite <- nth_skipn_add, Hsk. now rewrite app_nth1.
  - apply (IH _ tail); [lia|lia|].
    replace (Z.to_nat (off + Z.of_nat (length c))) with (Z.to_nat off + length c)%nat by lia.
    rewrite <- skipn_add, Hsk. rewrite skipn_app, skipn_all, Nat.sub_diag. reflexivity.
Qed.

Lemma writes_from_covers : forall cs off p, 0 <= off ->
  (Z.to_nat off <= p < Z.to_nat off + length (concat cs))%nat ->
  exists w, In w (writes_from off cs) /\ covers w p.
Proof.
  induction cs as [|c r IH]; intros off p H0 Hp; cbn [concat length] in Hp; [lia|].
  rewrite app_length in Hp. cbn [writes_from].
  destruct (Nat.lt_ge_cases p (Z.to_nat off + length c)) as [Hlt|Hge].
  - exists (off, c). split; [now left|]. unfold covers; cbn [fst snd]. lia.
  - destruct (IH (off + Z.of_nat (length c)) p ltac:(lia) ltac:(lia)) as (w & Hin & Hc).
    exists w. split; [now right|exact Hc].
Qed.

Definition apply_writes (ws : list (Z * bytes)) (f : bytes) : bytes :=
  fold_left (fun f w => write_at (Z.to_nat (fst w)) (snd w) f) ws f.

(** Applying consistent writes in ANY order keeps every position some write
    has covered equal to the object's byte there. *)
Lemma apply_writes_inv obj : forall ws f (P : nat -> Prop),
  Forall (consistent obj) ws -> (length f <= length obj)%nat ->
  (forall p, P p -> (p < length f)%nat /\ nth p f 0 = nth p obj 0) ->
  (length (apply_writes ws f) <= length obj)%nat /\
  forall p, (P p \/ exists w, In w ws /\ covers w p) ->
            (p < length (apply_writes ws f))%nat /\ nth p (apply_writes ws f) 0 = nth p obj 0.
Proof.
  induction ws as [|w ws IH]; intros f P Hc Hlen HP; cbn [apply_writes fold_left].
  - split; [exact Hlen|]. intros p [Hp|(w & [] & _)]. now apply HP.
  - inversion Hc as [|? ? Hw Hws]; subst.
    destruct Hw as (Hw0 & Hw1 & Hw2).
    set (f1 := write_at (Z.to_nat (fst w)) (snd w) f).
    assert (Hl1 : length f1 = Nat.max (length f) (Z.to_nat (fst w) + length (snd w))) by apply write_at_length.
    specialize (IH f1 (fun p => P p \/ covers w p) Hws ltac:(lia)).
    destruct IH as [IHa IHb].
    { intros p Hp. assert (Hlt : (p < length f1)%nat).
      { destruct Hp as [Hp|Hp]; [apply HP in Hp; lia|unfold covers in Hp; lia]. }
      split; [exact Hlt|]. unfold f1. rewrite write_at_nth by lia.
      destruct (p <? Z.to_nat (fst w))%nat eqn:E1.
      - destruct Hp as [Hp|Hp]; [now apply HP|unfold covers in Hp; lia].
      - destruct (p <? Z.to_nat (fst w) + length (snd w))%nat eqn:E2.
        + rewrite Hw2 by lia. f_equal. lia.
        + destruct Hp as [Hp|Hp]; [now apply HP|unfold covers in Hp; lia]. }
    split; [exact IHa|]. intros p Hp. apply IHb.
    destruct Hp as [Hp|(w' & [<-|Hin] & Hcv)]; [now left; left|now left; right|].
    right. now exists w'.
Qed.

(** all positions covered: the file IS the object *)
Lemma apply_writes_all obj ws :
  Forall (consistent obj) ws ->
  (forall p, (p < length obj)%nat -> exists w, In w ws /\ covers w p) ->
  apply_writes ws [] = obj.
Proof.
  intros Hc Hcov.
  destruct (apply_writes_inv obj ws [] (fun _ => False) Hc (Nat.le_0_l _)) as [Ha Hb]; [intros p []|].
  assert (Hlen : length (apply_writes ws []) = length obj).
  { destruct (length obj) as [|n] eqn:E; [lia|].
    destruct (Hb n) as [Hlt _]; [right; apply Hcov; lia|]. lia. }
  apply (nth_ext _ _ 0 0); [exact Hlen|].
  intros p Hp. apply Hb. right. apply Hcov. lia.
Qed.

(** ** events and the file system *)

Definition is_body (e : dev) : bool :=
  match e with EGet _ _ _ | EOpen _ | EWrite _ _ _ => true | _ => false end.
Definition is_get (e : dev) : bool := match e with EGet _ _ _ => true | _ => false end.
Definition wev (w : Z * bytes) : dev := EWrite (fst w) (snd w) true.

Lemma run_from_app s a b : run_from s (a ++ b) = run_from (run_from s a) b.
Proof. apply fold_left_app. Qed.

Lemma body_keeps_dest : forall l s, forallb is_body l = true -> dest (run_from s l) = dest s.
Proof.
  induction l as [|e l IH]; intros s H; [reflexivity|].
  cbn in H. apply andb_prop in H. destruct H as [He Hl].
  cbn [run_from fold_left]. change (fold_left apply_ev l (apply_ev s e)) with (run_from (apply_ev s e) l).
  rewrite IH by exact Hl.
  destruct e as [ok|r a ok|ok|off d ok| |ok]; try discriminate; try reflexivity.
  - now destruct ok.
  - now destruct ok.
Qed.

Lemma gets_keep_fs : forall l s, forallb is_get l = true -> run_from s l = s.
Proof.
  induction l as [|e l IH]; intros s H; [reflexivity|].
  cbn in H. apply andb_prop in H. destruct H as [He Hl].
  cbn [run_from fold_left]. change (fold_left apply_ev l (apply_ev s e)) with (run_from (apply_ev s e) l).
  rewrite IH by exact Hl. destruct e; try discriminate. reflexivity.
Qed.

Lemma run_writes : forall ws t d0,
  run_from {| temp := Some t; dest := d0 |} (map wev ws) =
  {| temp := Some (apply_writes ws t); dest := d0 |}.
Proof.
  induction ws as [|w ws IH]; intros t d0; [reflexivity|].
  cbn [map run_from fold_left apply_writes]. unfold wev at 1. cbn [apply_ev temp dest].
  apply IH.
Qed.

Lemma single_writes_ok : forall ws j wf es,
  single_writes ws j wf = (es, None) -> es = map wev ws.
Proof.
  induction ws as [|[off d] ws IH]; intros j wf es H; cbn [single_writes] in H.
  - now injection H as <-.
  - destruct wf as [[k c]|].
    + destruct (Nat.eqb k j); [discriminate|].
      destruct (single_writes ws (S j) (Some (k, c))) as [es' x] eqn:E. injection H as <- ->.
      cbn [map]. unfold wev at 1. cbn [fst snd]. f_equal. eapply IH; exact E.
    + destruct (single_writes ws (S j) None) as [es' x] eqn:E. injection H as <- ->.
      cbn [map]. unfold wev at 1. cbn [fst snd]. f_equal. eapply IH; exact E.
Qed.

Lemma single_writes_body : forall ws j wf es x,
  single_writes ws j wf = (es, x) -> forallb is_body es = true.
Proof.
  induction ws as [|[off d] ws IH]; intros j wf es x H; cbn [single_writes] in H.
  - now injection H as <- <-.
  - destruct wf as [[k c]|].
    + destruct (Nat.eqb k j); [now injection H as <- <-|].
      destruct (single_writes ws (S j) (Some (k, c))) as [es' x'] eqn:E. injection H as <- <-.
      cbn. eapply IH; exact E.
    + destruct (single_writes ws (S j) None) as [es' x'] eqn:E. injection H as <- <-.
      cbn. eapply IH; exact E.
Qed.

Lemma single_writes_noget : forall ws j wf es x,
  single_writes ws j wf = (es, x) -> filter is_get es = [].
Proof.
  induction ws as [|[off d] ws IH]; intros j wf es x H; cbn [single_writes] in H.
  - now injection H as <- <-.
  - destruct wf as [[k c]|].
    + destruct (Nat.eqb k j); [now injection H as <- <-|].
      destruct (single_writes ws (S j) (Some (k, c))) as [es' x'] eqn:E. injection H as <- <-.
      cbn. eapply IH; exact E.
    + destruct (single_writes ws (S j) None) as [es' x'] eqn:E. injection H as <- <-.
      cbn. eapply IH; exact E.
Qed.

Lemma io_writes_ok : forall ws j iof es,
  io_writes ws j iof = (es, false) -> es = map wev ws.
Proof.
  induction ws as [|[off d] ws IH]; intros j iof es H; cbn [io_writes] in H.
  - now injection H as <-.
  - destruct iof as [k|].
    + destruct (Nat.eqb k j); [discriminate|].
      destruct (io_writes ws (S j) (Some k)) as [es' x] eqn:E. injection H as <- ->.
      cbn [map]. unfold wev at 1. cbn [fst snd]. f_equal. eapply IH; exact E.
    + destruct (io_writes ws (S j) None) as [es' x] eqn:E. injection H as <- ->.
      cbn [map]. unfold wev at 1. cbn [fst snd]. f_equal. eapply IH; exact E.
Qed.

Lemma io_writes_body : forall ws j iof es x,
  io_writes ws j iof = (es, x) -> forallb is_body es = true.
Proof.
  induction ws as [|[off d] ws IH]; intros j iof es x H; cbn [io_writes] in H.
  - now injection H as <- <-.
  - destruct iof as [k|].
    + destruct (Nat.eqb k j); [now injection H as <- <-|].
      destruct (io_writes ws (S j) (Some k)) as [es' x'] eqn:E. injection H as <- <-.
      cbn. eapply IH; exact E.
    + destruct (io_writes ws (S j) None) as [es' x'] eqn:E. injection H as <- <-.
      cbn. eapply IH; exact E.
Qed.

(** ** the retry loop *)

(** attempts made <= fuel; attempt j ran script j with number i+j; every
    attempt but the last asked for a retry; the last one decides. *)
Lemma retry_loop_spec {A} (run : nat -> attempt -> A * ares) : forall fuel i scripts es r,
  retry_loop run fuel i scripts = (es, r) ->
  (length es <= fuel)%nat /\
  (forall j, (j < length es)%nat ->
     forall dflt, nth j es dflt = fst (run (i + j)%nat (nth j scripts ok_attempt))) /\
  (forall j, (S j < length es)%nat -> snd (run (i + j)%nat (nth j scripts ok_attempt)) = ARetry) /\
  match r with
  | RDone => exists k, length es = S k /\ snd (run (i + k)%nat (nth k scripts ok_attempt)) = AOk
  | RFatal => exists k, length es = S k /\ snd (run (i + k)%nat (nth k scripts ok_attempt)) = AFatal
  | RExceeded => length es = fuel /\
      forall j, (j < fuel)%nat -> snd (run (i + j)%nat (nth j scripts ok_attempt)) = ARetry
  end.
Proof.
  induction fuel as [|f IH]; intros i scripts es r H; cbn [retry_loop] in H.
  - injection H as <- <-. cbn. repeat split; try lia; intros; lia.
  - assert (Hhd : hd ok_attempt scripts = nth 0 scripts ok_attempt) by now destruct scripts.
    assert (Htl : forall j, nth j (tl scripts) ok_attempt = nth (S j) scripts ok_attempt).
    { intros j. destruct scripts; [now destruct j|reflexivity]. }
    rewrite Hhd in H. destruct (run i (nth 0 scripts ok_attempt)) as [e x] eqn:Er.
    destruct x.
    + injection H as <- <-. cbn [length]. split; [lia|]. split.
      { intros j Hj dflt. assert (j = 0%nat) as -> by lia. rewrite Nat.add_0_r, Er. reflexivity. }
      split; [intros; lia|]. exists 0%nat. rewrite Nat.add_0_r, Er. auto.
    + destruct (retry_loop run f (S i) (tl scripts)) as [es' rr] eqn:El. injection H as <- <-.
      apply IH in El. destruct El as (L1 & L2 & L3 & L4). cbn [length]. split; [lia|]. split.
      { intros j Hj dflt. destruct j as [|j]; [rewrite Nat.add_0_r, Er; reflexivity|].
        cbn [nth]. rewrite L2 by lia. rewrite Htl. do 2 f_equal. lia. }
      split.
      { intros j Hj. destruct j as [|j]; [rewrite Nat.add_0_r, Er; reflexivity|].
        specialize (L3 j ltac:(lia)). rewrite Htl in L3.
        replace (i + S j)%nat with (S i + j)%nat by lia. exact L3. }
      destruct rr.
      * destruct L4 as (k & Lk & Lr). exists (S k). split; [lia|].
        rewrite Htl in Lr. replace (i + S k)%nat with (S i + k)%nat by lia. exact Lr.
      * destruct L4 as (k & Lk & Lr). exists (S k). split; [lia|].
        rewrite Htl in Lr. replace (i + S k)%nat with (S i + k)%nat by lia. exact Lr.
      * destruct L4 as (Lk & Lr). split; [lia|]. intros j Hj.
        destruct j as [|j]; [rewrite Nat.add_0_r, Er; reflexivity|].
        specialize (Lr j ltac:(lia)). rewrite Htl in Lr.
        replace (i + S j)%nat with (S i + j)%nat by lia. exact Lr.
    + injection H as <- <-. cbn [length]. split; [lia|]. split.
      { intros j Hj dflt. assert (j = 0%nat) as -> by lia. rewrite Nat.add_0_r, Er. reflexivity. }
      split; [intros; lia|]. exists 0%nat. rewrite Nat.add_0_r, Er. auto.
Qed.

(** ** single GET path *)

Lemma split_last {A} (d : A) (l : list A) k : length l = S k -> l = firstn k l ++ [nth k l d].
Proof.
  intros H. rewrite <- (firstn_skipn k l) at 1. f_equal.
  assert (Hl : length (skipn k l) = 1%nat) by (rewrite skipn_length; lia).
  destruct (skipn k l) as [|x [|y r]] eqn:E; try discriminate Hl.
  f_equal. rewrite <- (Nat.add_0_r k) at 1. rewrite <- nth_skipn_add, E. reflexivity.
Qed.

Lemma forallb_concat {A} (f : A -> bool) (ls : list (list A)) :
  (forall x, In x ls -> forallb f x = true) -> forallb f (concat ls) = true.
Proof.
  induction ls as [|l ls IH]; intros H; [reflexivity|].
  cbn [concat]. rewrite forallb_app. apply andb_true_intro. split.
  - apply H. now left.
  - apply IH. intros x Hx. apply H. now right.
Qed.

Lemma chunks_of_complete data buf a cs : 1 <= buf ->
  chunks_of data buf a = (cs, false) -> concat cs = data.
Proof.
  intros Hb H. unfold chunks_of in H. eapply stream_chunks_complete; [exact Hb| |exact H]. lia.
Qed.

Lemma chunks_of_prefix data buf a cs flt :
  chunks_of data buf a = (cs, flt) -> exists tail, data = concat cs ++ tail.
Proof. intros H. unfold chunks_of in H. eapply stream_chunks_prefix; exact H. Qed.

Lemma single_attempt_body obj i a : forallb is_body (fst (single_attempt obj i a)) = true.
Proof.
  unfold single_attempt. destruct (a_get a); [reflexivity|]. destruct (a_open a); [reflexivity|].
  destruct (chunks_of obj SINGLE_BUF a) as [cs flt].
  destruct (single_writes _ _ _) as [wes werr] eqn:Ew.
  apply single_writes_body in Ew.
  destruct werr; [exact Ew|]. destruct flt; exact Ew.
Qed.

(** a successful attempt leaves exactly the object in the temp file, whatever
    earlier attempts left there: open(...,'wb') truncates *)
Lemma single_attempt_ok obj i a : snd (single_attempt obj i a) = AOk ->
  forall s, run_from s (fst (single_attempt obj i a)) = {| temp := Some obj; dest := dest s |}.
Proof.
  unfold single_attempt.
  destruct (a_get a) as [c|]; [destruct c; discriminate|].
  destruct (a_open a) as [c|]; [destruct c; discriminate|].
  destruct (chunks_of obj SINGLE_BUF a) as [cs flt] eqn:Ec.
  destruct (single_writes _ _ _) as [wes werr] eqn:Ew.
  destruct werr as [c|]; [destruct c; discriminate|].
  destruct flt; [destruct (fault_cls a); discriminate|].
  intros _ s. cbn [fst]. apply single_writes_ok in Ew. subst wes.
  apply chunks_of_complete in Ec; [|unfold SINGLE_BUF; lia].
  cbn [run_from fold_left apply_ev].
  change (fold_left apply_ev (map wev (writes_from 0 cs)) {| temp := Some []; dest := dest s |})
    with (run_from {| temp := Some []; dest := dest s |} (map wev (writes_from 0 cs))).
  rewrite run_writes. f_equal. f_equal.
  apply apply_writes_all.
  - apply (writes_from_consistent obj cs 0 []); [lia|cbn; lia|]. cbn [Z.to_nat skipn]. now rewrite app_nil_r.
  - intros p Hp. apply writes_from_covers; [lia|]. rewrite Ec. cbn. lia.
Qed.

Lemma single_get_body obj max scripts : forallb is_body (fst (single_get obj max scripts)) = true.
Proof.
  unfold single_get. destruct (retry_loop _ _ _ _) as [es r] eqn:E. cbn [fst].
  apply retry_loop_spec in E. destruct E as (_ & L2 & _).
  apply forallb_concat. intros x Hx. apply (In_nth _ _ []) in Hx. destruct Hx as (j & Hj & <-).
  rewrite L2 by exact Hj. apply single_attempt_body.
Qed.

Lemma single_get_done obj max scripts es : single_get obj max scripts = (es, RDone) ->
  forall s, run_from s es = {| temp := Some obj; dest := dest s |}.
Proof.
  unfold single_get. destruct (retry_loop _ _ _ _) as [ess r] eqn:E. intros [= <- ->] s.
  pose proof (retry_loop_spec _ _ _ _ _ _ E) as (_ & L2 & _ & (k & Lk & Lr)).
  rewrite (split_last [] ess k Lk), concat_app, run_from_app. cbn [concat]. rewrite app_nil_r.
  rewrite L2 by lia. cbn [Nat.add] in *. rewrite single_attempt_ok by exact Lr.
  f_equal. apply body_keeps_dest.
  apply forallb_concat. intros x Hx. apply In_firstn_incl in Hx.
  apply (In_nth _ _ []) in Hx. destruct Hx as (j & Hj & <-). rewrite L2 by exact Hj. apply single_attempt_body.
Qed.

(** at most max_attempts get_object calls, numbered 0,1,..; a non-retryable
    error or a success ends the loop *)
Lemma single_get_attempts obj max scripts :
  let (es, r) := single_get obj max scripts in
  (length (filter is_get es) <= max)%nat.
Proof.
  unfold single_get. destruct (retry_loop _ _ _ _) as [ess r] eqn:E.
  apply retry_loop_spec in E. destruct E as (L1 & L2 & _).
  assert (H : forall l : list (list dev), (forall x, In x l -> length (filter is_get x) = 1%nat) ->
              length (filter is_get (concat l)) = length l).
  { induction l as [|x l IH]; intros Hx; [reflexivity|].
    cbn [concat]. rewrite filter_app, app_length, Hx by (now left). cbn [length Nat.add]. f_equal.
    apply IH. intros y Hy. apply Hx. now right. }
  rewrite H; [exact L1|].
  intros x Hx. apply (In_nth _ _ []) in Hx. destruct Hx as (j & Hj & <-). rewrite L2 by exact Hj.
  unfold single_attempt. destruct (a_get _); [reflexivity|]. destruct (a_open _); [reflexivity|].
  destruct (chunks_of _ _ _) as [cs flt]. destruct (single_writes _ _ _) as [wes werr] eqn:Ew.
  pose proof (single_writes_noget _ _ _ _ _ Ew) as Hw.
  destruct werr; [|destruct flt]; cbn [fst filter is_get]; rewrite Hw; reflexivity.
Qed.

(** ** ranged path *)

Lemma range_interval_fst size r : fst (range_interval size r) = fst r.
Proof. destruct r as [s [e|]]; reflexivity. Qed.

Lemma range_data_eq obj r :
  range_data obj r =
  firstn (Z.to_nat (snd (range_interval (Z.of_nat (length obj)) r) - fst r))
         (skipn (Z.to_nat (fst r)) obj).
Proof.
  unfold range_data. rewrite <- (range_interval_fst (Z.of_nat (length obj)) r).
  now destruct (range_interval (Z.of_nat (length obj)) r).
Qed.

Section OneRange.
  Variable obj : bytes.
  Variable r : Z * option Z.
  Hypothesis Hlo : 0 <= fst r.
  Hypothesis Hle : (Z.to_nat (fst r) <= length obj)%nat.

  Lemma range_attempt_consistent i a :
    Forall (consistent obj) (snd (fst (range_attempt obj r i a))).
  Proof using Hlo Hle.
    unfold range_attempt. destruct (a_get a); [constructor|].
    destruct (chunks_of _ _ _) as [cs flt] eqn:Ec. cbn [fst snd].
    apply chunks_of_prefix in Ec. destruct Ec as [tail Ht].
    apply (writes_from_consistent obj cs (fst r)
             (tail ++ skipn (Z.to_nat (snd (range_interval (Z.of_nat (length obj)) r) - fst r))
                            (skipn (Z.to_nat (fst r)) obj))); [exact Hlo|exact Hle|].
    rewrite app_assoc, <- Ht, range_data_eq. symmetry. apply firstn_skipn.
  Qed.

  Lemma range_attempt_gets i a : forallb is_get (fst (fst (range_attempt obj r i a))) = true /\
    length (fst (fst (range_attempt obj r i a))) = 1%nat.
  Proof using.
    clear Hlo Hle. unfold range_attempt. destruct (a_get a); [now split|].
    destruct (chunks_of _ _ _) as [cs flt]. now split.
  Qed.

  (** a successful attempt's writes cover the whole interval of the range *)
  Lemma range_attempt_covers i a p :
    snd (range_attempt obj r i a) = AOk ->
    snd (range_interval (Z.of_nat (length obj)) r) <= Z.of_nat (length obj) ->
    (Z.to_nat (fst r) <= p)%nat -> Z.of_nat p < snd (range_interval (Z.of_nat (length obj)) r) ->
    exists w, In w (snd (fst (range_attempt obj r i a))) /\ covers w p.
  Proof using Hlo Hle.
    unfold range_attempt. destruct (a_get a) as [c|]; [destruct c; discriminate|].
    destruct (chunks_of _ _ _) as [cs flt] eqn:Ec. cbn [fst snd].
    destruct flt; [destruct (fault_cls a); discriminate|]. intros _ Hhi Hp1 Hp2.
    apply chunks_of_complete in Ec; [|unfold RANGED_BUF; lia].
    apply writes_from_covers; [exact Hlo|]. rewrite Ec, range_data_eq.
    rewrite firstn_length, skipn_length. lia.
  Qed.

  Lemma range_loop_consistent max scripts :
    Forall (consistent obj) (snd (fst (range_loop obj r max scripts))).
  Proof using Hlo Hle.
    unfold range_loop. destruct (retry_loop _ _ _ _) as [xs rr] eqn:E. cbn [fst snd].
    apply retry_loop_spec in E. destruct E as (_ & L2 & _).
    apply Forall_forall. intros w Hw. apply in_concat in Hw. destruct Hw as (l & Hl & Hw).
    apply in_map_iff in Hl. destruct Hl as (x & <- & Hx).
    apply (In_nth _ _ (([], []) : list dev * list (Z * bytes))) in Hx. destruct Hx as (j & Hj & <-).
    rewrite L2 in Hw by exact Hj.
    pose proof (range_attempt_consistent (0 + j) (nth j scripts ok_attempt)) as Hc.
    rewrite Forall_forall in Hc. now apply Hc.
  Qed.

  Lemma range_loop_gets max scripts :
    forallb is_get (fst (fst (range_loop obj r max scripts))) = true /\
    (length (fst (fst (range_loop obj r max scripts))) <= max)%nat.
  Proof using.
    clear Hlo Hle.
    unfold range_loop. destruct (retry_loop _ _ _ _) as [xs rr] eqn:E. cbn [fst snd].
    apply retry_loop_spec in E. destruct E as (L1 & L2 & _).
    assert (Hx : forall x, In x xs -> forallb is_get (fst x) = true /\ length (fst x) = 1%nat).
    { intros x Hx. apply (In_nth _ _ (([], []) : list dev * list (Z * bytes))) in Hx.
      destruct Hx as (j & Hj & <-). rewrite L2 by exact Hj. apply range_attempt_gets. }
    split.
    - apply forallb_concat. intros l Hl. apply in_map_iff in Hl. destruct Hl as (x & <- & Hin).
      now apply Hx.
    - clear L2. revert L1 Hx. generalize max. induction xs as [|x xs IH]; intros mx L1 Hx; [cbn; lia|].
      cbn [map concat length] in *. rewrite app_length.
      destruct (Hx x (or_introl eq_refl)) as [_ ->].
      destruct mx; [lia|]. specialize (IH mx ltac:(lia) (fun y Hy => Hx y (or_intror Hy))). lia.
  Qed.

  Lemma range_loop_covers max scripts p :
    snd (range_loop obj r max scripts) = RDone ->
    snd (range_interval (Z.of_nat (length obj)) r) <= Z.of_nat (length obj) ->
    (Z.to_nat (fst r) <= p)%nat -> Z.of_nat p < snd (range_interval (Z.of_nat (length obj)) r) ->
    exists w, In w (snd (fst (range_loop obj r max scripts))) /\ covers w p.
  Proof using Hlo Hle.
    unfold range_loop. destruct (retry_loop _ _ _ _) as [xs rr] eqn:E. cbn [fst snd].
    intros -> Hhi Hp1 Hp2.
    apply retry_loop_spec in E. destruct E as (_ & L2 & _ & (k & Lk & Lr)).
    destruct (range_attempt_covers _ _ p Lr Hhi Hp1 Hp2) as (w & Hw & Hc).
    exists w. split; [|exact Hc]. apply in_concat.
    exists (snd (nth k xs ([], []))). split.
    - apply in_map. apply nth_In. lia.
    - rewrite L2 by lia. exact Hw.
  Qed.
End OneRange.

(** ** the IO thread's interleaving *)

Lemma replace_nth_concat {A} (w : A) : forall ls i x rest,
  nth i ls [] = x :: rest ->
  (In w (concat ls) <-> w = x \/ In w (concat (replace_nth i rest ls))).
Proof.
  induction ls as [|l ls IH]; intros i x rest H.
  - destruct i; discriminate.
  - destruct i as [|i]; cbn [nth replace_nth concat] in *.
    + subst l. cbn [app]. rewrite !in_app_iff. cbn [In]. rewrite in_app_iff. intuition congruence.
    + rewrite !in_app_iff. rewrite (IH i x rest H). tauto.
Qed.

Lemma merge_In {A} (w : A) : forall sched ls, In w (merge sched ls) <-> In w (concat ls).
Proof.
  induction sched as [|i s IH]; intros ls; cbn [merge]; [tauto|].
  destruct (nth i ls []) as [|x rest] eqn:E; [apply IH|].
  cbn [In]. rewrite IH. rewrite (replace_nth_concat w ls i x rest E). intuition congruence.
Qed.

(** ** all ranges together *)

Definition the_range (size chunk : Z) (i : nat) : Z * option Z :=
  range_param chunk (Z.of_nat i) (num_parts size chunk) None.

Lemma download_ranges_length size chunk :
  length (download_ranges size chunk) = Z.to_nat (num_parts size chunk).
Proof. unfold download_ranges. now rewrite map_length, zseq_length. Qed.

Lemma download_ranges_nth size chunk i d : (i < Z.to_nat (num_parts size chunk))%nat ->
  nth i (download_ranges size chunk) d = the_range size chunk i.
Proof.
  intros Hi. unfold download_ranges, the_range.
  rewrite (nth_indep _ d (range_param chunk 0 (num_parts size chunk) None))
    by now rewrite map_length, zseq_length.
  rewrite (map_nth (fun i0 => range_param chunk i0 (num_parts size chunk) None)).
  rewrite zseq_nth by exact Hi. reflexivity.
Qed.

Lemma range_runs_length obj chunk max scripts :
  length (range_runs obj chunk max scripts) = Z.to_nat (num_parts (Z.of_nat (length obj)) chunk).
Proof.
  unfold range_runs. rewrite map_length, combine_length, seq_length, Nat.min_id.
  apply download_ranges_length.
Qed.

Lemma range_runs_nth obj chunk max scripts i d :
  (i < Z.to_nat (num_parts (Z.of_nat (length obj)) chunk))%nat ->
  nth i (range_runs obj chunk max scripts) d =
  range_loop obj (the_range (Z.of_nat (length obj)) chunk i) max (nth i scripts []).
Proof.
  intros Hi. pose proof (range_runs_length obj chunk max scripts) as Hl.
  unfold range_runs in *.
  set (rs := download_ranges (Z.of_nat (length obj)) chunk) in *.
  set (F := fun ir : nat * (Z * option Z) => range_loop obj (snd ir) max (nth (fst ir) scripts [])) in *.
  rewrite (nth_indep _ d (F (0%nat, (0, None)))) by lia.
  rewrite (map_nth F). rewrite combine_nth by now rewrite seq_length.
  assert (Hr : length rs = Z.to_nat (num_parts (Z.of_nat (length obj)) chunk)) by apply download_ranges_length.
  rewrite seq_nth by lia. unfold F. cbn [fst snd Nat.add].
  unfold rs. now rewrite download_ranges_nth by exact Hi.
Qed.

Lemma the_range_facts size chunk i :
  0 <= size -> 0 < chunk -> (i < Z.to_nat (num_parts size chunk))%nat ->
  fst (the_range size chunk i) = Z.of_nat i * chunk /\
  snd (range_interval size (the_range size chunk i)) = Z.min ((Z.of_nat i + 1) * chunk) size /\
  Z.of_nat i * chunk < size.
Proof.
  intros Hs Hc Hi.
  assert (Hi' : 0 <= Z.of_nat i < num_parts size chunk) by lia.
  pose proof (part_interval_eq size chunk (Z.of_nat i) Hs Hc Hi') as He.
  pose proof (part_interval_nonempty size chunk (Z.of_nat i) Hs Hc Hi') as Hn.
  unfold part_interval in He. fold (the_range size chunk i) in He.
  split; [|split].
  - rewrite <- range_interval_fst with (size := size). now rewrite He.
  - now rewrite He.
  - lia.
Qed.

Lemma first_bad_done l : first_bad l = RDone -> Forall (fun x => x = RDone) l.
Proof.
  induction l as [|x l IH]; intros H; [constructor|].
  destruct x; cbn in H; try discriminate. constructor; auto.
Qed.

(** if no run among the first [ranges_run] is bad then nothing was cancelled *)
Lemma ranges_run_all res started :
  first_bad (firstn (ranges_run res started) res) = RDone ->
  ranges_run res started = length res /\ Forall (fun x => x = RDone) res.
Proof.
  intros H. apply first_bad_done in H. unfold ranges_run in *.
  destruct (first_fail (map rres_ok res)) as [f|] eqn:E.
  - exfalso. pose proof (parts_run_covers_first_fail _ started _ E) as Hf.
    apply first_fail_some in E. destruct E as (E1 & E2 & _). rewrite map_length in E1.
    rewrite Forall_forall in H.
    assert (Hin : In (nth f res RDone) (firstn (parts_run (map rres_ok res) started) res)).
    { rewrite <- (firstn_skipn (parts_run (map rres_ok res) started) res) at 1.
      rewrite app_nth1 by (rewrite firstn_length; lia). apply nth_In. rewrite firstn_length. lia. }
    apply H in Hin.
    rewrite (nth_indep _ true (rres_ok RDone)) in E2 by now rewrite map_length.
    rewrite (map_nth rres_ok), Hin in E2. discriminate.
  - rewrite (parts_run_all_ok _ _ E), map_length in *. split; [reflexivity|].
    now rewrite firstn_all in H.
Qed.

(** C02 for the ranged path: success => the temp file holds the object, for
    every schedule of the IO queue, every completion order, every oracle. *)
Lemma ranged_get_done obj chunk max scripts started sched ioo iof evs :
  0 < chunk ->
  ranged_get obj chunk max scripts started sched ioo iof = (evs, DSuccess) ->
  forall s, run_from s evs = {| temp := Some obj; dest := dest s |}.
Proof.
  intros Hc H s. unfold ranged_get in H.
  set (runs := range_runs obj chunk max scripts) in *.
  set (m := ranges_run (map snd runs) started) in *.
  destruct ioo; cbn [negb] in H; [|discriminate].
  destruct (io_writes _ 0 iof) as [wes flt] eqn:Ew.
  destruct flt; [discriminate|].
  destruct (first_bad (map snd (firstn m runs))) eqn:Eb; try discriminate.
  injection H as <-.
  rewrite <- firstn_map in Eb. apply ranges_run_all in Eb. destruct Eb as [Em Hall].
  fold m in Em. rewrite map_length in Em.
  rewrite Em, firstn_all in Ew. rewrite Em, firstn_all. clear m Em.
  apply io_writes_ok in Ew. subst wes.
  set (size := Z.of_nat (length obj)) in *.
  assert (Hs : 0 <= size) by (unfold size; lia).
  pose proof (range_runs_length obj chunk max scripts) as Hlen. fold runs size in Hlen.
  cbn [run_from fold_left apply_ev].
  change (fold_left apply_ev ?l ?s0) with (run_from s0 l).
  rewrite run_from_app.
  rewrite (gets_keep_fs (concat _)).
  2:{ apply forallb_concat. intros l Hl. apply in_map_iff in Hl. destruct Hl as (x & <- & Hx).
      apply (In_nth _ _ (([], []), RDone)) in Hx. destruct Hx as (i & Hi & <-).
      rewrite Hlen in Hi. unfold runs. rewrite range_runs_nth by exact Hi.
      exact (proj1 (range_loop_gets obj _ max _)). }
  rewrite run_writes. f_equal. f_equal.
  apply apply_writes_all.
  - apply Forall_forall. intros w Hw. apply merge_In in Hw.
    apply in_concat in Hw. destruct Hw as (l & Hl & Hw).
    apply in_map_iff in Hl. destruct Hl as (x & <- & Hx).
    apply (In_nth _ _ (([], []), RDone)) in Hx. destruct Hx as (i & Hi & <-).
    rewrite Hlen in Hi. unfold runs in Hw. rewrite range_runs_nth in Hw by exact Hi.
    destruct (the_range_facts size chunk i Hs Hc Hi) as (F1 & F2 & F3).
    pose proof (range_loop_consistent obj (the_range size chunk i)) as Hcons.
    specialize (Hcons ltac:(rewrite F1; lia) ltac:(rewrite F1; unfold size in *; nia) max (nth i scripts [])).
    rewrite Forall_forall in Hcons. now apply Hcons.
  - intros p Hp.
    set (i := Z.to_nat (Z.of_nat p / chunk)).
    assert (Hi : (i < Z.to_nat (num_parts size chunk))%nat).
    { unfold i, num_parts. pose proof (ceil_div_spec size chunk Hs Hc). unfold size in *. nia. }
    destruct (the_range_facts size chunk i Hs Hc Hi) as (F1 & F2 & F3).
    assert (Hrun : snd (nth i runs (([], []), RDone)) = RDone).
    { rewrite Forall_forall in Hall. apply Hall.
      rewrite <- (map_nth snd). apply nth_In. rewrite map_length. lia. }
    unfold runs in Hrun. rewrite range_runs_nth in Hrun by exact Hi. fold size in Hrun.
    destruct (range_loop_covers obj (the_range size chunk i)
                ltac:(rewrite F1; lia) ltac:(rewrite F1; unfold size in *; nia)
                max (nth i scripts []) p Hrun) as (w & Hw & Hcv).
    + fold size. rewrite F2. lia.
    + rewrite F1. unfold i. nia.
    + fold size. rewrite F2. unfold i, size in *. nia.
    + exists w. split; [|exact Hcv]. apply merge_In. apply in_concat.
      exists (snd (fst (nth i runs (([], []), RDone)))). split.
      * apply (in_map (fun x => snd (fst x))). apply nth_In. lia.
      * unfold runs. rewrite range_runs_nth by exact Hi. exact Hw.
Qed.

(** ** the whole download *)

Lemma gets_are_body l : forallb is_get l = true -> forallb is_body l = true.
Proof.
  intros H. apply forallb_forall. intros e He. rewrite forallb_forall in H.
  specialize (H e He). now destruct e.
Qed.

Lemma ranged_get_body obj chunk max scripts started sched ioo iof :
  forallb is_body (fst (ranged_get obj chunk max scripts started sched ioo iof)) = true.
Proof.
  unfold ranged_get.
  set (runs := range_runs obj chunk max scripts).
  set (m := ranges_run (map snd runs) started).
  assert (Hg : forallb is_body (concat (map (fun x => fst (fst x)) (firstn m runs))) = true).
  { apply gets_are_body. apply forallb_concat. intros l Hl. apply in_map_iff in Hl.
    destruct Hl as (x & <- & Hx). apply In_firstn_incl in Hx.
    unfold runs, range_runs in Hx. apply in_map_iff in Hx. destruct Hx as (ir & <- & _).
    exact (proj1 (range_loop_gets obj _ max _)). }
  destruct ioo; cbn [negb].
  2:{ cbn [fst forallb is_body]. exact Hg. }
  destruct (io_writes _ 0 iof) as [wes flt] eqn:Ew. apply io_writes_body in Ew.
  assert (He : forallb is_body (EOpen true :: concat (map (fun x => fst (fst x)) (firstn m runs)) ++ wes) = true).
  { cbn [forallb is_body]. rewrite forallb_app, Hg, Ew. reflexivity. }
  destruct flt; [exact He|]. destruct (first_bad _); exact He.
Qed.

Lemma download_body_body thr chunk max obj o :
  forallb is_body (fst (download_body thr chunk max obj o)) = true.
Proof.
  unfold download_body. destruct (is_multipart _ _); [apply ranged_get_body|].
  pose proof (single_get_body obj max (o_single o)) as H.
  destruct (single_get obj max (o_single o)) as [es r]. exact H.
Qed.

Lemma download_body_done thr chunk max obj o es : 0 < chunk ->
  download_body thr chunk max obj o = (es, DSuccess) ->
  forall s, run_from s es = {| temp := Some obj; dest := dest s |}.
Proof.
  intros Hc. unfold download_body. destruct (is_multipart _ _).
  - now apply ranged_get_done.
  - destruct (single_get obj max (o_single o)) as [es' r] eqn:E.
    destruct r; try discriminate. intros [= <-] s. exact (single_get_done _ _ _ _ E s).
Qed.

(** events that leave the destination alone: everything but a successful rename *)
Definition safe (e : dev) : bool := match e with ERename true => false | _ => true end.

Lemma safe_keeps_dest : forall l s, forallb safe l = true -> dest (run_from s l) = dest s.
Proof.
  induction l as [|e l IH]; intros s H; [reflexivity|].
  cbn in H. apply andb_prop in H. destruct H as [He Hl].
  cbn [run_from fold_left]. change (fold_left apply_ev l (apply_ev s e)) with (run_from (apply_ev s e) l).
  rewrite IH by exact Hl.
  destruct e as [ok|r a ok|ok|off d ok| |ok]; try reflexivity; destruct ok; try reflexivity; discriminate.
Qed.

Lemma body_safe l : forallb is_body l = true -> forallb safe l = true.
Proof.
  intros H. apply forallb_forall. intros e He. rewrite forallb_forall in H.
  specialize (H e He). now destruct e.
Qed.

Lemma forallb_firstn {A} (f : A -> bool) k l : forallb f l = true -> forallb f (firstn k l) = true.
Proof.
  intros H. apply forallb_forall. intros x Hx. rewrite forallb_forall in H.
  apply H. eapply In_firstn_incl; exact Hx.
Qed.

Lemma firstn_snoc {A} k (l : list A) x :
  firstn k (l ++ [x]) = firstn k l \/ firstn k (l ++ [x]) = l ++ [x].
Proof.
  destruct (Nat.le_gt_cases k (length l)) as [H|H].
  - left. rewrite firstn_app. replace (k - length l)%nat with 0%nat by lia. cbn. apply app_nil_r.
  - right. apply firstn_all2. rewrite app_length. cbn. lia.
Qed.

Definition old_or_complete (old : option bytes) (obj : bytes) (s : fs) : Prop :=
  dest s = old \/ dest s = Some obj.

(** C06 + C02 for the legacy download: at every prefix of the event sequence
    the destination is the old content or the whole object; success leaves
    the object under the destination name and no temp file; every failure
    (head, request, stream, write, open, rename) leaves the old destination
    and no temp file. *)
Lemma legacy_download_atomic thr chunk max obj o old : 0 < chunk ->
  let (evs, out) := legacy_download thr chunk max obj o in
  (forall k, old_or_complete old obj (final_fs old (firstn k evs))) /\
  (out = DSuccess -> final_fs old evs = {| temp := None; dest := Some obj |}) /\
  (out <> DSuccess -> final_fs old evs = {| temp := None; dest := old |}).
Proof.
  intros Hc. unfold legacy_download. destruct (o_head_ok o); cbn [negb].
  2:{ split; [|split]; [|discriminate|reflexivity].
      intros k. left. unfold final_fs. apply (safe_keeps_dest _ (init_fs old)). now apply forallb_firstn. }
  pose proof (download_body_body thr chunk max obj o) as Hb.
  pose proof (download_body_done thr chunk max obj o) as Hd.
  destruct (download_body thr chunk max obj o) as [es r]. cbn [fst] in Hb.
  apply body_safe in Hb.
  assert (Hfail : forall tl, forallb safe tl = true ->
            (forall k, old_or_complete old obj (final_fs old (firstn k (EHead true :: es ++ tl)))) /\
            dest (final_fs old (EHead true :: es ++ tl)) = old).
  { intros tl Ht.
    assert (Hs : forallb safe (EHead true :: es ++ tl) = true).
    { cbn [forallb safe]. rewrite forallb_app, Hb, Ht. reflexivity. }
    split; [intros k; left|]; unfold final_fs; rewrite safe_keeps_dest; auto using forallb_firstn. }
  assert (Hrm : forall pre, final_fs old (EHead true :: es ++ pre ++ [ERemove]) =
                  {| temp := None; dest := dest (final_fs old (EHead true :: es ++ pre ++ [ERemove])) |}).
  { intros pre. unfold final_fs.
    replace (EHead true :: es ++ pre ++ [ERemove]) with ((EHead true :: es ++ pre) ++ [ERemove])
      by (cbn [app]; now rewrite <- app_assoc).
    rewrite run_from_app. reflexivity. }
  destruct r.
  - specialize (Hd es Hc eq_refl). destruct (o_rename_ok o).
    + assert (Hfin : final_fs old (EHead true :: es ++ [ERename true]) = {| temp := None; dest := Some obj |}).
      { unfold final_fs. change (EHead true :: es ++ [ERename true]) with ((EHead true :: es) ++ [ERename true]).
        rewrite run_from_app. cbn [run_from fold_left apply_ev].
        change (fold_left apply_ev es (init_fs old)) with (run_from (init_fs old) es).
        rewrite Hd. reflexivity. }
      split; [|split]; [|intros _; exact Hfin|intros H; now elim H].
      intros k. change (EHead true :: es ++ [ERename true]) with ((EHead true :: es) ++ [ERename true]).
      destruct (firstn_snoc k (EHead true :: es) (ERename true)) as [-> | ->].
      * left. unfold final_fs. apply (safe_keeps_dest _ (init_fs old)). apply forallb_firstn. cbn [forallb safe]. exact Hb.
      * right. change ((EHead true :: es) ++ [ERename true]) with (EHead true :: es ++ [ERename true]).
        now rewrite Hfin.
    + destruct (Hfail [ERename false; ERemove] eq_refl) as [H1 H2].
      split; [exact H1|]. split; [discriminate|]. intros _.
      pose proof (Hrm [ERename false]) as Hr. cbn [app] in Hr. rewrite Hr. now rewrite H2.
  - destruct (Hfail [ERemove] eq_refl) as [H1 H2].
    split; [exact H1|]. split; [discriminate|]. intros _.
    pose proof (Hrm []) as Hr. cbn [app] in Hr. rewrite Hr. now rewrite H2.
  - destruct (Hfail [ERemove] eq_refl) as [H1 H2].
    split; [exact H1|]. split; [discriminate|]. intros _.
    pose proof (Hrm []) as Hr. cbn [app] in Hr. rewrite Hr. now rewrite H2.
  - destruct (Hfail [ERemove] eq_refl) as [H1 H2].
    split; [exact H1|]. split; [discriminate|]. intros _.
    pose proof (Hrm []) as Hr. cbn [app] in Hr. rewrite Hr. now rewrite H2.
  - destruct (Hfail [ERemove] eq_refl) as [H1 H2].
    split; [exact H1|]. split; [discriminate|]. intros _.
    pose proof (Hrm []) as Hr. cbn [app] in Hr. rewrite Hr. now rewrite H2.
  - destruct (Hfail [ERemove] eq_refl) as [H1 H2].
    split; [exact H1|]. split; [discriminate|]. intros _.
    pose proof (Hrm []) as Hr. cbn [app] in Hr. rewrite Hr. now rewrite H2.
Qed.

(** The shape before the repair (rename in the else branch): a failing rename
    leaves the temporary file behind. *)
Definition rename_fault_oracle : doracle :=
  {| o_head_ok := true; o_single := []; o_ranged := []; o_started := 0; o_sched := [];
     o_io_open_ok := true; o_io_fail := None; o_rename_ok := false |}.

Lemma unrepaired_rename_leaves_temp :
  let (evs, out) := legacy_download_unrepaired 100 4 3 [1; 2; 3] rename_fault_oracle in
  out = DRenameErr /\ final_fs (Some [9]) evs = {| temp := Some [1; 2; 3]; dest := Some [9] |}.
Proof. vm_compute. split; reflexivity. Qed.

(** a non-retryable error (or a success) ends the loop: no attempt follows it *)
Lemma retry_loop_stops {A} (run : nat -> attempt -> A * ares) fuel scripts es r j :
  retry_loop run fuel 0 scripts = (es, r) -> (j < length es)%nat ->
  snd (run j (nth j scripts ok_attempt)) <> ARetry -> S j = length es.
Proof.
  intros H Hj Hn. apply retry_loop_spec in H. destruct H as (_ & _ & L3 & _).
  destruct (Nat.lt_ge_cases (S j) (length es)) as [Hlt|Hge]; [|lia].
  elim Hn. exact (L3 j Hlt).
Qed.

Lemma fatal_is_fatal obj i a :
  (a_get a = Some Fatal -> snd (single_attempt obj i a) = AFatal) /\
  (forall r, a_get a = Some Fatal -> snd (range_attempt obj r i a) = AFatal).
Proof.
  split; [|intros r]; intros H; unfold single_attempt, range_attempt; now rewrite H.
Qed.

(** ** fewer than max_attempts retryable faults per request: the download succeeds *)

Definition clean (a : attempt) : Prop :=
  a_get a = None /\ a_open a = None /\ a_fail_after a = None /\ a_write_fail a = None.

Definition retryable_only (a : attempt) : Prop :=
  a_get a <> Some Fatal /\ a_open a <> Some Fatal /\
  (forall k, a_fail_after a <> Some (k, Fatal)) /\ (forall j, a_write_fail a <> Some (j, Fatal)).

(** some attempt among the first [max] is fault free and only retryable
    faults (at any byte position, with any read sizes) come before it *)
Definition good (max : nat) (scripts : list attempt) : Prop :=
  exists k, (k < max)%nat /\ clean (nth k scripts ok_attempt) /\
            forall j, (j < k)%nat -> retryable_only (nth j scripts ok_attempt).

Lemma stream_chunks_nofault fuel : forall rest delivered reads buf,
  snd (stream_chunks fuel rest delivered reads buf None) = false.
Proof.
  induction fuel as [|f IH]; intros rest delivered reads buf; [reflexivity|].
  rewrite stream_chunks_step. unfold read_limit.
  destruct (firstn _ rest) as [|x d']; [reflexivity|].
  specialize (IH (skipn (Z.to_nat match reads with [] => buf | r :: _ => Z.min buf (Z.max 1 r) end) rest)
                 (delivered + Z.of_nat (length (x :: d'))) (tl reads) buf).
  destruct (stream_chunks f _ _ _ _ None) as [cs flt]. exact IH.
Qed.

Lemma single_writes_none : forall ws j, snd (single_writes ws j None) = None.
Proof.
  induction ws as [|[off d] ws IH]; intros j; [reflexivity|]. cbn [single_writes].
  specialize (IH (S j)). destruct (single_writes ws (S j) None) as [es x]. exact IH.
Qed.

Lemma single_writes_cls : forall ws j k c c',
  snd (single_writes ws j (Some (k, c))) = Some c' -> c' = c.
Proof.
  induction ws as [|[off d] ws IH]; intros j k c c' H; [discriminate|]. cbn [single_writes] in H.
  destruct (Nat.eqb k j); [now injection H|].
  specialize (IH (S j) k c c'). destruct (single_writes ws (S j) (Some (k, c))) as [es x]. now apply IH.
Qed.

Lemma single_attempt_clean obj i a : clean a -> snd (single_attempt obj i a) = AOk.
Proof.
  intros (H1 & H2 & H3 & H4). unfold single_attempt. rewrite H1, H2.
  pose proof (stream_chunks_nofault (S (length obj)) obj 0 (a_reads a) SINGLE_BUF) as Hf.
  unfold chunks_of. rewrite H3. destruct (stream_chunks _ _ _ _ _ None) as [cs flt]. cbn [snd] in Hf. subst flt.
  rewrite H4. pose proof (single_writes_none (writes_from 0 cs) 0) as Hw.
  destruct (single_writes _ 0 None) as [wes werr]. cbn [snd] in Hw. now subst werr.
Qed.

Lemma single_attempt_retryable obj i a : retryable_only a -> snd (single_attempt obj i a) <> AFatal.
Proof.
  intros (H1 & H2 & H3 & H4). unfold single_attempt.
  destruct (a_get a) as [[]|]; [discriminate|congruence|].
  destruct (a_open a) as [[]|]; [discriminate|congruence|].
  destruct (chunks_of obj SINGLE_BUF a) as [cs flt].
  destruct (a_write_fail a) as [[k c]|] eqn:Ew.
  - pose proof (single_writes_cls (writes_from 0 cs) 0 k c) as Hc.
    destruct (single_writes _ 0 (Some (k, c))) as [wes werr]. cbn [snd] in *.
    destruct werr as [c'|].
    + rewrite (Hc c' eq_refl). destruct c; [discriminate|]. now elim (H4 k).
    + destruct flt; [|discriminate]. unfold fault_cls.
      destruct (a_fail_after a) as [[k' []]|]; try discriminate. now elim (H3 k').
  - pose proof (single_writes_none (writes_from 0 cs) 0) as Hw.
    destruct (single_writes _ 0 None) as [wes werr]. cbn [snd] in *. subst werr.
    destruct flt; [|discriminate]. unfold fault_cls.
    destruct (a_fail_after a) as [[k' []]|]; try discriminate. now elim (H3 k').
Qed.

Lemma range_attempt_clean obj r i a : clean a -> snd (range_attempt obj r i a) = AOk.
Proof.
  intros (H1 & _ & H3 & _). unfold range_attempt. rewrite H1.
  pose proof (stream_chunks_nofault (S (length (range_data obj r))) (range_data obj r) 0 (a_reads a) RANGED_BUF) as Hf.
  unfold chunks_of. rewrite H3. destruct (stream_chunks _ _ _ _ _ None) as [cs flt]. cbn [snd] in *. now subst flt.
Qed.

Lemma range_attempt_retryable obj r i a : retryable_only a -> snd (range_attempt obj r i a) <> AFatal.
Proof.
  intros (H1 & _ & H3 & _). unfold range_attempt.
  destruct (a_get a) as [[]|]; [discriminate|congruence|].
  destruct (chunks_of _ RANGED_BUF a) as [cs flt]. cbn [snd].
  destruct flt; [|discriminate]. unfold fault_cls.
  destruct (a_fail_after a) as [[k' []]|]; try discriminate. now elim (H3 k').
Qed.

Lemma retry_loop_progress {A} (run : nat -> attempt -> A * ares) : forall fuel i scripts k,
  (k < fuel)%nat -> snd (run (i + k)%nat (nth k scripts ok_attempt)) = AOk ->
  (forall j, (j < k)%nat -> snd (run (i + j)%nat (nth j scripts ok_attempt)) <> AFatal) ->
  snd (retry_loop run fuel i scripts) = RDone.
Proof.
  induction fuel as [|f IH]; intros i scripts k Hk Hok Hpre; [lia|].
  cbn [retry_loop].
  assert (Hhd : hd ok_attempt scripts = nth 0 scripts ok_attempt) by now destruct scripts.
  assert (Htl : forall j, nth j (tl scripts) ok_attempt = nth (S j) scripts ok_attempt).
  { intros j. destruct scripts; [now destruct j|reflexivity]. }
  rewrite Hhd. destruct (run i (nth 0 scripts ok_attempt)) as [e x] eqn:Er.
  destruct x; [reflexivity| |].
  - destruct k as [|k]; [rewrite Nat.add_0_r, Er in Hok; discriminate|].
    specialize (IH (S i) (tl scripts) k ltac:(lia)).
    destruct (retry_loop run f (S i) (tl scripts)) as [es rr]. cbn [snd] in *. apply IH.
    + rewrite Htl. replace (S i + k)%nat with (i + S k)%nat by lia. exact Hok.
    + intros j Hj. rewrite Htl. replace (S i + j)%nat with (i + S j)%nat by lia. apply Hpre. lia.
  - exfalso. destruct k as [|k]; [rewrite Nat.add_0_r, Er in Hok; discriminate|].
    apply (Hpre 0%nat ltac:(lia)). now rewrite Nat.add_0_r, Er.
Qed.

Lemma single_get_good obj max scripts : good max scripts -> snd (single_get obj max scripts) = RDone.
Proof.
  intros (k & Hk & Hc & Hpre). unfold single_get.
  pose proof (retry_loop_progress (single_attempt obj) max 0 scripts k Hk) as H.
  destruct (retry_loop _ _ _ _) as [es r]. cbn [snd] in *. apply H.
  - now apply single_attempt_clean.
  - intros j Hj. apply single_attempt_retryable. now apply Hpre.
Qed.

Lemma range_loop_good obj r max scripts : good max scripts -> snd (range_loop obj r max scripts) = RDone.
Proof.
  intros (k & Hk & Hc & Hpre). unfold range_loop.
  pose proof (retry_loop_progress (range_attempt obj r) max 0 scripts k Hk) as H.
  destruct (retry_loop _ _ _ _) as [es rr]. cbn [snd] in *. apply H.
  - now apply range_attempt_clean.
  - intros j Hj. apply range_attempt_retryable. now apply Hpre.
Qed.

Lemma first_bad_all l : Forall (fun x => x = RDone) l -> first_bad l = RDone.
Proof. induction 1 as [|x l -> _ IH]; [reflexivity|exact IH]. Qed.

Lemma io_writes_none : forall ws j, snd (io_writes ws j None) = false.
Proof.
  induction ws as [|[off d] ws IH]; intros j; [reflexivity|]. cbn [io_writes].
  specialize (IH (S j)). destruct (io_writes ws (S j) None) as [es x]. exact IH.
Qed.

Lemma ranged_get_good obj chunk max scripts started sched :
  (forall i, good max (nth i scripts [])) ->
  snd (ranged_get obj chunk max scripts started sched true None) = DSuccess.
Proof.
  intros Hg. unfold ranged_get. cbn [negb].
  set (runs := range_runs obj chunk max scripts).
  assert (Hall : Forall (fun x => x = RDone) (map snd runs)).
  { apply Forall_forall. intros x Hx. apply in_map_iff in Hx. destruct Hx as (y & <- & Hy).
    unfold runs, range_runs in Hy. apply in_map_iff in Hy. destruct Hy as (ir & <- & _).
    apply range_loop_good. apply Hg. }
  pose proof (io_writes_none (merge sched (map (fun x => snd (fst x))
                (firstn (ranges_run (map snd runs) started) runs))) 0) as Hw.
  destruct (io_writes _ 0 None) as [wes flt]. cbn [snd] in Hw. subst flt.
  rewrite <- firstn_map, first_bad_all; [reflexivity|].
  apply Forall_forall. intros x Hx. apply In_firstn_incl in Hx.
  rewrite Forall_forall in Hall. now apply Hall.
Qed.

Definition good_oracle (max : nat) (o : doracle) : Prop :=
  o_head_ok o = true /\ o_rename_ok o = true /\ o_io_open_ok o = true /\ o_io_fail o = None /\
  good max (o_single o) /\ forall i, good max (nth i (o_ranged o) []).

Lemma legacy_download_good thr chunk max obj o :
  good_oracle max o -> snd (legacy_download thr chunk max obj o) = DSuccess.
Proof.
  intros (H1 & H2 & H3 & H4 & H5 & H6). unfold legacy_download. rewrite H1. cbn [negb].
  assert (Hb : snd (download_body thr chunk max obj o) = DSuccess).
  { unfold download_body. destruct (is_multipart _ _).
    - rewrite H3, H4. now apply ranged_get_good.
    - pose proof (single_get_good obj max (o_single o) H5) as Hs.
      destruct (single_get obj max (o_single o)) as [es r]. cbn [snd] in *. now subst r. }
  destruct (download_body thr chunk max obj o) as [es r]. cbn [snd] in Hb. subst r.
  now rewrite H2.
Qed.
