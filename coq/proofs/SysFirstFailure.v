(** C17 at system level: the first failure or cancellation recorded for a
    transfer is the one reported.  Over the protocol model [Sys.step] we
    characterise, event by event, what can change the pair
    ([c_status], [c_exc]) of a coordinator, and derive that once a transfer is
    done its outcome is frozen until a *replacing* event occurs: the final
    task's [ESetResult], or an [ESetException] with [override = true].

    New file; uses only SysBase / SysCoord / SysCoordInv / SysTask. *)
From Coq Require Import ZArith List Bool Lia.
From S3V Require Import model.Sys proofs.SysBase proofs.SysCoord proofs.SysCoordInv proofs.SysTask.
Import ListNotations.
Open Scope Z_scope.

(** * Status and stored exception unchanged *)
Definition se_same (c c' : coord) : Prop :=
  c_status c' = c_status c /\ c_exc c' = c_exc c.

Definition coords_se (l l' : list coord) : Prop :=
  forall t c c', find_coord t l = Some c -> find_coord t l' = Some c' -> se_same c c'.

Lemma se_same_refl c : se_same c c.
Proof. split; reflexivity. Qed.

Lemma se_same_trans c1 c2 c3 : se_same c1 c2 -> se_same c2 c3 -> se_same c1 c3.
Proof. intros [A1 A2] [B1 B2]. split; congruence. Qed.

Lemma coords_se_refl l : coords_se l l.
Proof. intros t c c' H1 H2. rewrite H1 in H2. injection H2 as <-. apply se_same_refl. Qed.

(** lookup after the constant update performed by [on_coord] *)
Lemma find_upd_const l t c y t0 :
  find_coord t l = Some c -> c_id y = c_id c ->
  find_coord t0 (upd_coord t (fun _ => y) l) = if t0 =? t then Some y else find_coord t0 l.
Proof.
  intros Hf Hid. pose proof (find_coord_some_id _ _ _ Hf) as Hcid.
  revert Hf. induction l as [|x r IH]; intros Hf; cbn [upd_coord map find_coord] in *.
  - discriminate Hf.
  - change (map _ r) with (upd_coord t (fun _ => y) r).
    destruct (c_id x =? t) eqn:E1.
    + injection Hf as ->. destruct (c_id y =? t0) eqn:E2.
      * assert (Ht : t0 =? t = true) by lia. now rewrite Ht.
      * assert (Ht : t0 =? t = false) by lia. rewrite Ht.
        assert (Hc0 : c_id c =? t0 = false) by lia. rewrite Hc0.
        clear IH. induction r as [|z r' IHr]; cbn [upd_coord map find_coord]; [reflexivity|].
        change (map _ r') with (upd_coord t (fun _ => y) r').
        destruct (c_id z =? t) eqn:E3.
        -- rewrite E2. destruct (c_id z =? t0) eqn:E5; [lia|]. exact IHr.
        -- destruct (c_id z =? t0) eqn:E5; [reflexivity|]. exact IHr.
    + destruct (c_id x =? t0) eqn:E2.
      * assert (Ht : t0 =? t = false) by lia. now rewrite Ht.
      * apply IH. exact Hf.
Qed.

Lemma coords_se_upd l t0 c0 y :
  find_coord t0 l = Some c0 -> c_id y = c_id c0 -> se_same c0 y ->
  coords_se l (upd_coord t0 (fun _ => y) l).
Proof.
  intros Hf Hid Hse t c c' Hc Hc'. rewrite (find_upd_const _ _ _ _ t Hf Hid) in Hc'.
  destruct (t =? t0) eqn:E.
  - assert (t = t0) by lia. subst. rewrite Hf in Hc. injection Hc as <-. injection Hc' as <-. exact Hse.
  - rewrite Hc in Hc'. injection Hc' as <-. apply se_same_refl.
Qed.

Lemma coords_se_upd_f l t0 f :
  (forall x, c_id (f x) = c_id x) -> (forall x, se_same x (f x)) ->
  coords_se l (upd_coord t0 f l).
Proof.
  intros Hid Hse t c c' Hc Hc'. rewrite (find_coord_upd t t0 f l Hid), Hc in Hc'.
  destruct (t =? t0); cbn [option_map] in Hc'; injection Hc' as <-; [apply Hse|apply se_same_refl].
Qed.

Tactic Notation "sub_oc" hyp(H) ident(c) ident(y) ident(Hfc) ident(Hf) :=
  apply on_coord_inv in H; destruct H as (c & y & Hfc & Hf & ->).

Ltac fin_se Hfc Hf :=
  rewrite ?bump_coords in Hfc; cbv beta in Hf;
  repeat match type of Hf with
         | context [match ?x with _ => _ end] => destruct x eqn:?
         end;
  try discriminate Hf;
  (injection Hf as <-;
   cbn [coords set_coords]; rewrite ?bump_coords;
   (eapply coords_se_upd; [exact Hfc|reflexivity|split; reflexivity])).

Ltac se_coords_same :=
  match goal with
  | |- coords_se (coords ?s) (coords ?s') =>
      let H := fresh in
      assert (H : coords s' = coords s)
        by (repeat first [ rewrite set_stage_coords | rewrite bump_coords | reflexivity
                         | progress cbn [coords set_tasks set_sems set_reqs set_uploads set_shutdown set_coords set_files] ]);
      rewrite H; apply coords_se_refl
  end.

(** The four kinds of event that can write the status / stored exception. *)
Definition is_writer (e : event) : bool :=
  match e with
  | ESetResult _ | ESetException _ _ _ _ | ECancel _ _ _ | EStatus _ _ _ => true
  | _ => false
  end.

(** Every other event leaves status and stored exception of every
    coordinator alone. *)
Lemma step_nonwriter s e s' :
  is_writer e = false -> step s e = Some s' -> coords_se (coords s) (coords s').
Proof.
  intros Hw H. destruct e; try discriminate Hw; clear Hw; cbn [step] in H.
  - (* ENewTransfer *)
    inv H. injection H as <-. cbn [coords set_coords].
    intros t0 c0 c0' H0 H1. rewrite find_coord_app, H0 in H1. injection H1 as <-. apply se_same_refl.
  - (* EAddCallback *) inv H. sub_oc H cc yy Hfc Hf. fin_se Hfc Hf.
  - (* EAddCleanup *) inv H. sub_oc H cc yy Hfc Hf. fin_se Hfc Hf.
  - (* ESubmit *) inv H. injection H as <-. se_coords_same.
  - (* EAcquire *)
    destruct (find_task k (tasks s)); [|discriminate]. destruct (find_sem sem (sems s)); [|discriminate].
    inv H. injection H as <-. se_coords_same.
  - (* EEnqueue *)
    destruct (find_task k (tasks s)); [|discriminate]. inv H. injection H as <-. se_coords_same.
  - (* EAssoc *) inv H. sub_on_task H. se_coords_same.
  - (* ETaskStart *)
    destruct (find_task k (tasks s)); [|discriminate].
    destruct (stage_eqb (k_stage t) SInline).
    + inv H. injection H as <-. se_coords_same.
    + destruct (g_queue (get_stage s (k_stage t))); [discriminate|].
      inv H. injection H as <-. se_coords_same.
  - (* EDepsDone *) sub_on_task H. se_coords_same.
  - (* EDoneCheck *)
    destruct (find_task k (tasks s)); [|discriminate].
    destruct (find_coord (k_t t) (coords s)); [|discriminate].
    inv H. injection H as <-. se_coords_same.
  - (* EMainBegin *) sub_on_task H. se_coords_same.
  - (* EMainEnd *)
    inv H. destruct (find_task k (tasks s)); [|discriminate].
    destruct (find_coord (k_t t) (coords s)); [|discriminate].
    inv H. injection H as <-. se_coords_same.
  - (* EOnQueued *)
    inv H. destruct (find_task k (tasks s)); [|discriminate]. inv H.
    sub_oc H cc yy Hfc Hf. fin_se Hfc Hf.
  - (* EOnProgress *) inv H. sub_oc H cc yy Hfc Hf. fin_se Hfc Hf.
  - (* EWaitAll *)
    inv H. destruct (find_task k (tasks s)); [|discriminate]. inv H.
    sub_on_task H. se_coords_same.
  - (* EAnnBegin *)
    inv H. destruct (find_coord t (coords s)) eqn:Efc; [|discriminate]. clean_but H.
    destruct (ann_phase a (c_announcers c)) eqn:Eap; [discriminate|]. clean_but H.
    destruct (mem_z a (c_owing c)) eqn:Eow.
    + sub_oc H cc yy Hfc Hf. fin_se Hfc Hf.
    + destruct (find_task a (tasks s)); [|discriminate].
      destruct (negb (k_t t0 =? t)); [discriminate|].
      destruct (k_kind t0 =? KSubmission).
      * inv H. sub_oc H cc yy Hfc Hf. fin_se Hfc Hf.
      * inv H. unfold bind in H. destruct (on_coord s t _) as [s1|] eqn:E1; [|discriminate].
        pose proof (on_task_coords _ _ _ _ H) as Hc. rewrite Hc.
        sub_oc E1 cc yy Hfc Hf. fin_se Hfc Hf.
  - (* ECleanupsBegin *) inv H. sub_oc H cc yy Hfc Hf. fin_se Hfc Hf.
  - (* ECleanup *) inv H. sub_oc H cc yy Hfc Hf. fin_se Hfc Hf.
  - (* ECleanupsEnd *) inv H. sub_oc H cc yy Hfc Hf. fin_se Hfc Hf.
  - (* EEventSet *) inv H. sub_oc H cc yy Hfc Hf. fin_se Hfc Hf.
  - (* ECallbacksBegin *) inv H. sub_oc H cc yy Hfc Hf. fin_se Hfc Hf.
  - (* ECallback *) inv H. sub_oc H cc yy Hfc Hf. fin_se Hfc Hf.
  - (* ECallbacksEnd *) inv H. sub_oc H cc yy Hfc Hf. fin_se Hfc Hf.
  - (* EAnnEnd *)
    destruct (busy s a); [discriminate|].
    destruct (find_coord t (coords s)) eqn:Efc; [|discriminate]. clean_but H.
    destruct (ann_phase a (c_announcers c)) as [p|] eqn:Eap; [|discriminate]. clean_but H.
    destruct p as [|p|p]; try discriminate. destruct p as [p|p|]; try discriminate.
    destruct p as [p|p|]; try discriminate. destruct p; try discriminate.
    assert (G : coords_se (coords s)
                  (coords (set_coords s (upd_coord t (fun c0 => c_with_ann c0 (c_owing c0) (ann_del a (c_announcers c0))) (coords s))))).
    { cbn [coords set_coords]. apply coords_se_upd_f; [reflexivity|intros x; split; reflexivity]. }
    destruct (find_task a (tasks s)).
    + destruct (is_user a); [injection H as <-; exact G|].
      destruct (tst_eqb (k_st t0) TAnn).
      { pose proof (on_task_coords _ _ _ _ H) as Hc. now rewrite Hc. }
      destruct ((k_kind t0 =? KSubmission) && (k_phase t0 =? 4)).
      { pose proof (on_task_coords _ _ _ _ H) as Hc. now rewrite Hc. }
      injection H as <-; exact G.
    + injection H as <-; exact G.
  - (* ETaskEnd *)
    inv H. destruct (find_task k (tasks s)); [|discriminate]. inv H.
    destruct (stage_eqb (k_stage t) SInline); injection H as <-; se_coords_same.
  - (* ERelease *)
    destruct (find_task k (tasks s)); [|discriminate]. inv H. injection H as <-. se_coords_same.
  - (* EDissoc *) sub_on_task H. se_coords_same.
  - (* ECount *) inv H. sub_oc H cc yy Hfc Hf. fin_se Hfc Hf.
  - (* ES3Begin *)
    inv H.
    destruct op; try (injection H as <-; cbn [coords set_reqs]; rewrite bump_coords; apply coords_se_refl).
    + destruct (find_upload uid _); [|discriminate]. inv H. injection H as <-.
      cbn [coords set_uploads set_reqs]. rewrite bump_coords. apply coords_se_refl.
    + destruct (find_upload uid _); [|discriminate]. inv H. injection H as <-.
      cbn [coords set_uploads set_reqs]. rewrite bump_coords. apply coords_se_refl.
    + destruct (find_upload uid _); [|discriminate]. inv H. injection H as <-.
      cbn [coords set_uploads set_reqs]. rewrite bump_coords. apply coords_se_refl.
  - (* ES3Effect *)
    destruct (find_req r (reqs s)); [|discriminate]. inv H.
    destruct (s3op_eqb (r_op r0) OpCreate).
    + destruct (find_upload uid _); [discriminate|]. injection H as <-. se_coords_same.
    + injection H as <-. se_coords_same.
  - (* ES3End *)
    destruct (find_req r (reqs s)); [|discriminate]. inv H.
    destruct (r_op r0); injection H as <-; se_coords_same.
  - (* EResult *)
    destruct (find_coord t (coords s)); [|discriminate]. inv H. injection H as <-. apply coords_se_refl.
  - (* EFs *)
    inv H. destruct op; destruct (find_file t (files s)); try discriminate;
      inv H; injection H as <-; se_coords_same.
  - (* EShutdownBegin *) inv H. injection H as <-. se_coords_same.
  - (* EStageShutdown *) inv H. injection H as <-. se_coords_same.
  - (* EStageJoined *) inv H. injection H as <-. se_coords_same.
  - (* EShutdownReturn *) inv H. injection H as <-. se_coords_same.
Qed.

(** * The four writers, exactly *)

(** [ESetResult k]: [k] is a final task inside its main and not busy (the
    guard does NOT look at the coordinator's status); the coordinator of
    [k]'s transfer becomes (Success, no exception), every other coordinator
    is untouched. *)
Lemma step_set_result s k s' :
  step s (ESetResult k) = Some s' ->
  exists x, find_task k (tasks s) = Some x /\ k_final x = true /\ k_st x = TMain /\ busy s k = false /\
    forall t c c', find_coord t (coords s) = Some c -> find_coord t (coords s') = Some c' ->
      (t = k_t x /\ c' = c_with c Success None) \/ (t <> k_t x /\ c' = c).
Proof.
  intros H. cbn [step] in H. destruct (busy s k) eqn:Eb; [discriminate|].
  destruct (find_task k (tasks s)) as [x|] eqn:Eft; [|discriminate].
  match type of H with (if ?g then _ else _) = _ => destruct g eqn:Eg; [|discriminate] end.
  apply andb_prop in Eg as [Eg _]. apply andb_prop in Eg as [E1 E2]. apply tst_eqb_eq in E1.
  sub_oc H cc yy Hfc Hf. injection Hf as <-.
  exists x. split; [reflexivity|]. split; [exact E2|]. split; [exact E1|]. split; [reflexivity|].
  intros t c c' Hc Hc'. cbn [coords set_coords] in Hc'.
  rewrite (find_upd_const _ _ _ _ t Hfc) in Hc' by reflexivity.
  destruct (t =? k_t x) eqn:E.
  - left. assert (t = k_t x) by lia. subst t. rewrite Hfc in Hc. injection Hc as <-.
    injection Hc' as <-. split; reflexivity.
  - right. rewrite Hc in Hc'. injection Hc' as <-. split; [lia|reflexivity].
Qed.

Lemma apply_exc s1 t0 x ov s2 :
  on_coord s1 t0 (fun c => if negb (is_done (c_status c)) || ov
                           then Some (c_with c Failed (Some x)) else Some c) = Some s2 ->
  forall t c c', find_coord t (coords s1) = Some c -> find_coord t (coords s2) = Some c' ->
    (t = t0 /\ (is_done (c_status c) = false \/ ov = true) /\ c' = c_with c Failed (Some x)) \/
    ((t <> t0 \/ (is_done (c_status c) = true /\ ov = false)) /\ c' = c).
Proof.
  intros H t c c' Hc Hc'. sub_oc H cc yy Hfc Hf. cbv beta in Hf. cbn [coords set_coords] in Hc'.
  destruct (negb (is_done (c_status cc)) || ov) eqn:Eg; injection Hf as <-.
  - rewrite (find_upd_const _ _ _ _ t Hfc) in Hc' by reflexivity.
    destruct (t =? t0) eqn:E.
    + left. assert (t = t0) by lia. subst t. rewrite Hfc in Hc. injection Hc as <-. injection Hc' as <-.
      split; [reflexivity|]. split; [|reflexivity].
      apply orb_prop in Eg as [Eg|Eg]; [left|right; exact Eg]. now destruct (is_done (c_status cc)).
    + right. rewrite Hc in Hc'. injection Hc' as <-. split; [left; lia|reflexivity].
  - rewrite (find_upd_const _ _ _ _ t Hfc) in Hc' by reflexivity.
    apply orb_false_elim in Eg as [Eg1 Eg2].
    destruct (t =? t0) eqn:E.
    + right. assert (t = t0) by lia. subst t. rewrite Hfc in Hc. injection Hc as <-. injection Hc' as <-.
      split; [right|reflexivity]. split; [now destruct (is_done (c_status cc))|exact Eg2].
    + right. rewrite Hc in Hc'. injection Hc' as <-. split; [left; lia|reflexivity].
Qed.

(** [ESetException a t0 x ov]: the coordinator of [t0] becomes (Failed, x) iff
    it was not done or [ov = true]; otherwise (done and [ov = false]) it is
    left exactly as it was.  Other coordinators are untouched. *)
Lemma step_set_exception s a t0 x ov s' :
  step s (ESetException a t0 x ov) = Some s' ->
  forall t c c', find_coord t (coords s) = Some c -> find_coord t (coords s') = Some c' ->
    (t = t0 /\ (is_done (c_status c) = false \/ ov = true) /\ c' = c_with c Failed (Some x)) \/
    ((t <> t0 \/ (is_done (c_status c) = true /\ ov = false)) /\ c' = c).
Proof.
  intros H. cbn [step] in H. inv H.
  destruct (is_user a).
  - destruct (find_coord t0 (coords s)) eqn:Efc; [|discriminate]. clean_but H. inv H.
    exact (apply_exc _ _ _ _ _ H).
  - destruct (find_task a (tasks s)) eqn:Eft; [|discriminate].
    destruct (negb (k_t t =? t0)); [discriminate|].
    destruct ov.
    + destruct (find_coord t0 (coords s)) eqn:Efc; [|discriminate]. clean_but H. inv H.
      exact (apply_exc _ _ _ _ _ H).
    + destruct (tst_eqb (k_st t) TFailed).
      { unfold bind in H. destruct (on_coord s t0 _) as [s1|] eqn:E1; [|discriminate].
        pose proof (on_task_coords _ _ _ _ H) as Hc. rewrite Hc. exact (apply_exc _ _ _ _ _ E1). }
      destruct (tst_eqb (k_st t) TMain && (k_kind t =? KSubmission) && (k_phase t <? 3)); [|discriminate].
      unfold bind in H. destruct (on_coord s t0 _) as [s1|] eqn:E1; [|discriminate].
      pose proof (on_task_coords _ _ _ _ H) as Hc. rewrite Hc. exact (apply_exc _ _ _ _ _ E1).
Qed.

(** [ECancel a t0 x]: applied iff the coordinator of [t0] is not done. *)
Lemma step_cancel s a t0 x s' :
  step s (ECancel a t0 x) = Some s' ->
  forall t c c', find_coord t (coords s) = Some c -> find_coord t (coords s') = Some c' ->
    (t = t0 /\ is_done (c_status c) = false /\ c_status c' = Cancelled /\ c_exc c' = Some x) \/
    ((t <> t0 \/ is_done (c_status c) = true) /\ c' = c).
Proof.
  intros H t c c' Hc Hc'. cbn [step] in H. inv H. sub_oc H cc yy Hfc Hf. cbv beta in Hf.
  cbn [coords set_coords] in Hc'.
  destruct (t =? t0) eqn:E.
  - assert (t = t0) by lia. subst t. rewrite Hfc in Hc. injection Hc as <-.
    destruct (is_done (c_status cc)) eqn:Ed.
    + injection Hf as <-. rewrite (find_upd_const _ _ _ _ t0 Hfc) in Hc' by reflexivity.
      rewrite Z.eqb_refl in Hc'. injection Hc' as <-. right. split; [right; reflexivity|reflexivity].
    + left. destruct (status_eqb (c_status cc) NotStarted); injection Hf as <-;
        rewrite (find_upd_const _ _ _ _ t0 Hfc) in Hc' by reflexivity;
        rewrite Z.eqb_refl in Hc'; injection Hc' as <-; repeat split; reflexivity.
  - right. split; [left; lia|].
    assert (Hid : c_id yy = c_id cc).
    { destruct (is_done (c_status cc)); [injection Hf as <-; reflexivity|].
      destruct (status_eqb (c_status cc) NotStarted); injection Hf as <-; reflexivity. }
    rewrite (find_upd_const _ _ _ _ t Hfc Hid), E, Hc in Hc'. now injection Hc' as <-.
Qed.

(** [EStatus]: queued / running, only on a coordinator that is not done; the
    stored exception is kept. *)
Lemma step_status s k b ok s' :
  step s (EStatus k b ok) = Some s' ->
  forall t c c', find_coord t (coords s) = Some c -> find_coord t (coords s') = Some c' ->
    (is_done (c_status c) = false /\ c_exc c' = c_exc c /\ (c_status c' = Queued \/ c_status c' = Running)) \/
    c' = c.
Proof.
  intros H t c c' Hc Hc'. cbn [step] in H. inv H.
  destruct (find_task k (tasks s)); [|discriminate].
  destruct (find_coord (k_t t0) (coords s)) eqn:Efc; [|discriminate]. clean_but H. inv H.
  clean_somes. destruct ok.
  - unfold bind in H. destruct (on_coord s (k_t t0) _) as [s1|] eqn:E1; [|discriminate].
    pose proof (on_task_coords _ _ _ _ H) as Hcs. rewrite Hcs in Hc'.
    sub_oc E1 cc yy Hfc Hf. injection Hf as <-. cbn [coords set_coords] in Hc'.
    rewrite (find_upd_const _ _ _ _ t Hfc) in Hc' by reflexivity.
    destruct (t =? k_t t0) eqn:E.
    + left. assert (t = k_t t0) by lia. subst t. rewrite Hfc in Hc. injection Hc as <-.
      injection Hc' as <-. rewrite Efc in Hfc. injection Hfc as <-.
      repeat (match goal with Hg : _ && _ = true |- _ => apply andb_prop in Hg as [Hg ?] end).
      split.
      * match goal with Hx : eqb true (negb (is_done (c_status ?c1))) = true |- _ =>
          apply eqb_prop in Hx; now destruct (is_done (c_status c1)) end.
      * split; [reflexivity|]. cbn. destruct b; auto.
    + right. rewrite Hc in Hc'. now injection Hc' as <-.
  - injection H as <-. right. rewrite Hc in Hc'. now injection Hc' as <-.
Qed.

(** * Replacing events *)

(** The events that legitimately replace a recorded outcome of transfer [t]:
    [ESetResult k] for a task [k] of [t]; [ESetException _ t _ true]. *)
Definition replacer (s : state) (t : Z) (e : event) : bool :=
  match e with
  | ESetResult k => match find_task k (tasks s) with Some x => k_t x =? t | None => false end
  | ESetException _ t' _ ov => ov && (t' =? t)
  | _ => false
  end.

Definition replaces (s : state) (t : Z) (e : event) : Prop :=
  (exists k x, e = ESetResult k /\ find_task k (tasks s) = Some x /\ k_t x = t) \/
  (exists a y, e = ESetException a t y true).

Lemma replacer_spec s t e : replacer s t e = true <-> replaces s t e.
Proof.
  split.
  - intros H. destruct e; try discriminate H; cbn [replacer] in H.
    + left. destruct (find_task k (tasks s)) as [x|] eqn:E; [|discriminate].
      exists k, x. repeat split; [exact E|lia].
    + right. apply andb_prop in H as [-> H]. assert (t0 = t) by lia. subst. eauto.
  - intros [(k & x & -> & Hk & Ht)|(a & y & ->)]; cbn [replacer].
    + rewrite Hk. lia.
    + rewrite Z.eqb_refl. reflexivity.
Qed.

Lemma not_replaces_false s t e : ~ replaces s t e -> replacer s t e = false.
Proof.
  intros H. destruct (replacer s t e) eqn:E; [|reflexivity]. exfalso. apply H. now apply replacer_spec.
Qed.

(** ** One step: a done coordinator is frozen by every non-replacing event *)
Lemma step_frozen s e s' t c c' :
  step s e = Some s' -> find_coord t (coords s) = Some c -> find_coord t (coords s') = Some c' ->
  is_done (c_status c) = true -> replacer s t e = false -> se_same c c'.
Proof.
  intros H Hc Hc' Hd Hr. destruct (is_writer e) eqn:Ew.
  - destruct e; try discriminate Ew; clear Ew.
    + (* ESetResult *)
      destruct (step_set_result _ _ _ H) as (x & Hk & _ & _ & _ & Hall).
      cbn [replacer] in Hr. rewrite Hk in Hr.
      destruct (Hall t c c' Hc Hc') as [[Ht _]|[_ ->]]; [lia|apply se_same_refl].
    + (* ESetException *)
      cbn [replacer] in Hr.
      destruct (step_set_exception _ _ _ _ _ _ H t c c' Hc Hc') as [(Ht & [Hnd|Hov] & _)|[_ ->]].
      * congruence.
      * subst. rewrite Z.eqb_refl in Hr. discriminate.
      * apply se_same_refl.
    + (* ECancel *)
      destruct (step_cancel _ _ _ _ _ H t c c' Hc Hc') as [(_ & Hnd & _)|[_ ->]];
        [congruence|apply se_same_refl].
    + (* EStatus *)
      destruct (step_status _ _ _ _ _ H t c c' Hc Hc') as [(Hnd & _)| ->];
        [congruence|apply se_same_refl].
  - exact (step_nonwriter _ _ _ Ew H t c c' Hc Hc').
Qed.

(** ** One step, complete case analysis (no reachability needed): what can
    change the stored exception of transfer [t]. *)
Lemma step_exc_change_cases s e s' t c c' :
  step s e = Some s' -> find_coord t (coords s) = Some c -> find_coord t (coords s') = Some c' ->
  c_exc c' <> c_exc c ->
  (exists k x, e = ESetResult k /\ find_task k (tasks s) = Some x /\ k_t x = t /\
               k_final x = true /\ k_st x = TMain /\ c_status c' = Success /\ c_exc c' = None) \/
  (exists a y, e = ESetException a t y true /\ c_status c' = Failed /\ c_exc c' = Some y) \/
  (is_done (c_status c) = false /\
   exists a y, (e = ESetException a t y false /\ c_status c' = Failed \/
                e = ECancel a t y /\ c_status c' = Cancelled) /\ c_exc c' = Some y).
Proof.
  intros H Hc Hc' Hne. destruct (is_writer e) eqn:Ew.
  - destruct e; try discriminate Ew; clear Ew.
    + destruct (step_set_result _ _ _ H) as (x & Hk & Hfin & Hst & _ & Hall).
      destruct (Hall t c c' Hc Hc') as [[Ht ->]|[_ ->]]; [|congruence].
      left. exists k, x. repeat split; auto.
    + destruct (step_set_exception _ _ _ _ _ _ H t c c' Hc Hc') as [(Ht & Hcase & ->)|[_ ->]];
        [|congruence].
      subst t0. destruct override.
      * right. left. exists a, e. repeat split.
      * right. right. destruct Hcase as [Hnd|Hov]; [|discriminate].
        split; [exact Hnd|]. exists a, e. split; [left; split; reflexivity|reflexivity].
    + destruct (step_cancel _ _ _ _ _ H t c c' Hc Hc') as [(Ht & Hnd & Hs & Hx)|[_ ->]]; [|congruence].
      subst t0. right. right. split; [exact Hnd|]. exists a, e. split; [right; split; [reflexivity|exact Hs]|exact Hx].
    + destruct (step_status _ _ _ _ _ H t c c' Hc Hc') as [(_ & Hx & _)| ->]; congruence.
  - destruct (step_nonwriter _ _ _ Ew H t c c' Hc Hc') as [_ Hx]. congruence.
Qed.

(** * Reachable states *)
Lemma failedish_done st : failedish st = true -> is_done st = true.
Proof. destruct st; cbn; congruence. Qed.

Lemma cinv_exc_done c x : cinv c -> c_exc c = Some x -> failedish (c_status c) = true.
Proof. intros I Hx. apply (ci_exc c I). eauto. Qed.

Section Reach.
Variables w_sub w_req w_io q_sub q_req q_io up down : Z.
Let s0 := init w_sub w_req w_io q_sub q_req q_io up down.

Lemma reach_cinv s t c : reachable s0 s -> find_coord t (coords s) = Some c -> cinv c.
Proof. intros Hr Hc. exact (coords_inv_reachable _ _ _ _ _ _ _ _ _ Hr t c Hc). Qed.

(** (1) One step in a reachable state: a stored exception changes only by a
    replacing event. *)
Lemma first_failure_step s e s' t c c' x :
  reachable s0 s -> step s e = Some s' ->
  find_coord t (coords s) = Some c -> find_coord t (coords s') = Some c' ->
  c_exc c = Some x -> c_exc c' <> Some x ->
  (exists k y, e = ESetResult k /\ find_task k (tasks s) = Some y /\ k_t y = t /\
               k_final y = true /\ k_st y = TMain /\ c_status c' = Success /\ c_exc c' = None) \/
  (exists a x', e = ESetException a t x' true /\ c_status c' = Failed /\ c_exc c' = Some x').
Proof.
  intros Hr H Hc Hc' Hx Hne.
  pose proof (failedish_done _ (cinv_exc_done _ _ (reach_cinv _ _ _ Hr Hc) Hx)) as Hd.
  assert (Hne' : c_exc c' <> c_exc c) by (rewrite Hx; exact Hne).
  destruct (step_exc_change_cases _ _ _ _ _ _ H Hc Hc' Hne') as [A|[B|[Hnd _]]].
  - left. exact A.
  - right. exact B.
  - congruence.
Qed.

(** (1') A later failure ([override = false]) or a cancellation of a transfer
    that already stores an exception leaves its coordinator *entirely*
    unchanged. *)
Lemma later_failure_ignored s e s' t c c' x :
  reachable s0 s -> step s e = Some s' ->
  find_coord t (coords s) = Some c -> find_coord t (coords s') = Some c' ->
  c_exc c = Some x ->
  (exists a y, e = ESetException a t y false) \/ (exists a y, e = ECancel a t y) ->
  c' = c.
Proof.
  intros Hr H Hc Hc' Hx He.
  pose proof (failedish_done _ (cinv_exc_done _ _ (reach_cinv _ _ _ Hr Hc) Hx)) as Hd.
  destruct He as [(a & y & ->)|(a & y & ->)].
  - destruct (step_set_exception _ _ _ _ _ _ H t c c' Hc Hc') as [(_ & [Hnd|Hov] & _)|[_ ->]];
      [congruence|discriminate|reflexivity].
  - destruct (step_cancel _ _ _ _ _ H t c c' Hc Hc') as [(_ & Hnd & _)|[_ ->]];
      [congruence|reflexivity].
Qed.
End Reach.

(** * Runs *)

(** some event of [tr], read in the state where it is performed, is a
    replacing event for [t] *)
Definition replaced_in (t : Z) (s : state) (tr : list event) : Prop :=
  exists tra e trb sa, tr = tra ++ e :: trb /\ run s tra = Some sa /\ replacer sa t e = true.

Lemma replaced_in_cons t s e s1 r :
  step s e = Some s1 -> replaced_in t s1 r -> replaced_in t s (e :: r).
Proof.
  intros E (tra & e0 & trb & sa & -> & Hra & Hrep).
  exists (e :: tra), e0, trb, sa. split; [reflexivity|]. split; [|exact Hrep].
  cbn [run]. now rewrite E.
Qed.

Lemma frozen_run_or tr : forall s s' t c,
  run s tr = Some s' -> find_coord t (coords s) = Some c -> is_done (c_status c) = true ->
  (exists c', find_coord t (coords s') = Some c' /\ se_same c c') \/ replaced_in t s tr.
Proof.
  induction tr as [|e r IH]; intros s s' t c Hr Hc Hd; cbn [run] in Hr.
  - injection Hr as <-. left. exists c. split; [exact Hc|apply se_same_refl].
  - destruct (step s e) as [s1|] eqn:E; [|discriminate].
    destruct (replacer s t e) eqn:Erep.
    + right. exists [], e, r, s. repeat split. exact Erep.
    + destruct (coord_persists_step _ _ _ _ _ E Hc) as (c1 & Hc1 & _).
      pose proof (step_frozen _ _ _ _ _ _ E Hc Hc1 Hd Erep) as Hse.
      assert (Hd1 : is_done (c_status c1) = true) by (destruct Hse as [-> _]; exact Hd).
      destruct (IH s1 s' t c1 Hr Hc1 Hd1) as [(c' & Hc' & Hse')|Hrep].
      * left. exists c'. split; [exact Hc'|]. eapply se_same_trans; eauto.
      * right. eapply replaced_in_cons; eauto.
Qed.

(** tasks persist, with their transfer *)
Lemma tstep_kt s x x' : tstep s x x' -> k_t x' = k_t x.
Proof. intros H. destruct H; reflexivity. Qed.

Lemma task_kt_step s e s' k x :
  step s e = Some s' -> find_task k (tasks s) = Some x ->
  exists x', find_task k (tasks s') = Some x' /\ k_t x' = k_t x.
Proof.
  intros H Hk. apply step_tasks_step in H as [Hold _].
  destruct (Hold k x Hk) as (x' & Hk' & Hts). exists x'. split; [exact Hk'|]. eapply tstep_kt; eauto.
Qed.

Lemma task_kt_run tr : forall s s' k x,
  run s tr = Some s' -> find_task k (tasks s) = Some x ->
  exists x', find_task k (tasks s') = Some x' /\ k_t x' = k_t x.
Proof.
  induction tr as [|e r IH]; intros s s' k x Hr Hk; cbn [run] in Hr.
  - injection Hr as <-. eauto.
  - destruct (step s e) as [s1|] eqn:E; [|discriminate].
    destruct (task_kt_step _ _ _ _ _ E Hk) as (x1 & Hk1 & Ht1).
    destruct (IH _ _ _ _ Hr Hk1) as (x' & Hk' & Ht'). exists x'. split; [exact Hk'|congruence].
Qed.

(** whether an event that is performed replaces [t]'s outcome can be read in
    any later state of the run *)
Lemma replacer_later s e s1 tr s' t :
  step s e = Some s1 -> run s1 tr = Some s' -> replacer s' t e = replacer s t e.
Proof.
  intros E Hr. destruct e; try reflexivity. cbn [replacer].
  destruct (step_set_result _ _ _ E) as (x & Hk & _).
  assert (Hr' : run s (ESetResult k :: tr) = Some s') by (cbn [run]; now rewrite E).
  destruct (task_kt_run _ _ _ _ _ Hr' Hk) as (x' & Hk' & Ht). now rewrite Hk, Hk', Ht.
Qed.

Lemma replaced_in_final t s tr s' :
  run s tr = Some s' -> replaced_in t s tr -> exists e, In e tr /\ replaces s' t e.
Proof.
  intros Hr (tra & e & trb & sa & -> & Hra & Hrep).
  exists e. split; [apply in_or_app; right; left; reflexivity|].
  apply replacer_spec. rewrite run_app, Hra in Hr. cbn [run] in Hr.
  destruct (step sa e) as [sb|] eqn:E; [|discriminate].
  now rewrite (replacer_later _ _ _ _ _ t E Hr).
Qed.

(** (2)/(3) core: from a done coordinator, either status and stored exception
    are the same at the end of the run, or the run contains a replacing
    event. *)
Lemma outcome_stable_or_replaced s tr s' t c :
  run s tr = Some s' -> find_coord t (coords s) = Some c -> is_done (c_status c) = true ->
  (exists c', find_coord t (coords s') = Some c' /\ c_status c' = c_status c /\ c_exc c' = c_exc c) \/
  (exists e, In e tr /\ replaces s' t e).
Proof.
  intros Hr Hc Hd. destruct (frozen_run_or _ _ _ _ _ Hr Hc Hd) as [A|B].
  - left. exact A.
  - right. eapply replaced_in_final; eauto.
Qed.

(** (3) general form (any done outcome, no reachability needed) *)
Lemma outcome_stable_run s tr s' t c :
  run s tr = Some s' -> find_coord t (coords s) = Some c -> is_done (c_status c) = true ->
  (forall e, In e tr -> ~ replaces s' t e) ->
  exists c', find_coord t (coords s') = Some c' /\ c_status c' = c_status c /\ c_exc c' = c_exc c.
Proof.
  intros Hr Hc Hd Hno. destruct (outcome_stable_or_replaced _ _ _ _ _ Hr Hc Hd) as [A|(e & Hin & Hrep)].
  - exact A.
  - exfalso. exact (Hno e Hin Hrep).
Qed.

(** the same with the events read in the states where they are performed *)
Lemma outcome_stable_run_local s tr s' t c :
  run s tr = Some s' -> find_coord t (coords s) = Some c -> is_done (c_status c) = true ->
  (forall tra e trb sa, tr = tra ++ e :: trb -> run s tra = Some sa -> ~ replaces sa t e) ->
  exists c', find_coord t (coords s') = Some c' /\ c_status c' = c_status c /\ c_exc c' = c_exc c.
Proof.
  intros Hr Hc Hd Hno. destruct (frozen_run_or _ _ _ _ _ Hr Hc Hd) as [A|(tra & e & trb & sa & Heq & Hra & Hrep)].
  - exact A.
  - exfalso. apply (Hno tra e trb sa Heq Hra). now apply replacer_spec.
Qed.

Section ReachRuns.
Variables w_sub w_req w_io q_sub q_req q_io up down : Z.
Let s0 := init w_sub w_req w_io q_sub q_req q_io up down.

(** (2) In every run, if transfer [t] stores exception [x] after [tr1] and
    something else (or nothing) at the end, then [tr2] contains a replacing
    event of [t]. *)
Lemma first_failure_run tr1 tr2 s1 s t c1 c x :
  run s0 tr1 = Some s1 -> run s0 (tr1 ++ tr2) = Some s ->
  find_coord t (coords s1) = Some c1 -> c_exc c1 = Some x ->
  find_coord t (coords s) = Some c -> c_exc c <> Some x ->
  exists e, In e tr2 /\ replaces s t e.
Proof.
  intros H1 H Hc1 Hx Hc Hne. rewrite run_app, H1 in H.
  assert (Hre : reachable s0 s1) by (exists tr1; exact H1).
  pose proof (failedish_done _ (cinv_exc_done _ _ (reach_cinv _ _ _ _ _ _ _ _ _ _ _ Hre Hc1) Hx)) as Hd.
  destruct (outcome_stable_or_replaced _ _ _ _ _ H Hc1 Hd) as [(c' & Hc' & _ & Hx')|B]; [|exact B].
  exfalso. rewrite Hc in Hc'. injection Hc' as <-. apply Hne. congruence.
Qed.

(** (2') equivalently: along a suffix without replacing events the stored
    exception (and the status) never changes once set; (3) for a failed or
    cancelled transfer. *)
Lemma first_failure_reported tr1 tr2 s1 s t c1 x :
  run s0 tr1 = Some s1 -> run s0 (tr1 ++ tr2) = Some s ->
  find_coord t (coords s1) = Some c1 -> c_exc c1 = Some x ->
  (forall e, In e tr2 -> ~ replaces s t e) ->
  failedish (c_status c1) = true /\
  exists c, find_coord t (coords s) = Some c /\ c_status c = c_status c1 /\ c_exc c = Some x.
Proof.
  intros H1 H Hc1 Hx Hno. rewrite run_app, H1 in H.
  assert (Hre : reachable s0 s1) by (exists tr1; exact H1).
  pose proof (cinv_exc_done _ _ (reach_cinv _ _ _ _ _ _ _ _ _ _ _ Hre Hc1) Hx) as Hf.
  split; [exact Hf|].
  destruct (outcome_stable_run _ _ _ _ _ H Hc1 (failedish_done _ Hf) Hno) as (c & Hc & Hs & Hx').
  exists c. split; [exact Hc|]. split; [exact Hs|congruence].
Qed.
End ReachRuns.

(** * (4) Who can perform the replacing events *)

(** [ESetException a t x true] is enabled exactly when: [a] is not busy, the
    coordinator of [t] exists and is done, and [a] is either ANY user thread
    (actor id < 0; no further condition) or a task of [t] that is inside its
    main / its done-callback phase or is running a cleanup / done callback of
    [t]. *)
Lemma override_enabled_iff s a t x :
  (exists s', step s (ESetException a t x true) = Some s') <->
  busy s a = false /\
  exists c, find_coord t (coords s) = Some c /\ is_done (c_status c) = true /\
    (is_user a = true \/
     exists k, find_task a (tasks s) = Some k /\ k_t k = t /\
               (in_callback s a t || acting_task s a t) = true).
Proof.
  split.
  - intros [s' H]. cbn [step] in H. destruct (busy s a) eqn:Eb; [discriminate|]. split; [reflexivity|].
    destruct (is_user a) eqn:Eu.
    + destruct (find_coord t (coords s)) as [c|] eqn:Efc; [|discriminate].
      destruct (true && is_done (c_status c)) eqn:Eg; [|discriminate]. cbn in Eg.
      exists c. repeat split; auto.
    + destruct (find_task a (tasks s)) as [k|] eqn:Eft; [|discriminate].
      destruct (negb (k_t k =? t)) eqn:Et; [discriminate|].
      destruct (find_coord t (coords s)) as [c|] eqn:Efc; [|discriminate].
      match type of H with (if ?g then _ else _) = _ => destruct g eqn:Eg; [|discriminate] end.
      apply andb_prop in Eg as [Eg1 Eg2].
      exists c. split; [reflexivity|]. split; [exact Eg1|]. right. exists k.
      split; [reflexivity|]. split; [|exact Eg2]. destruct (k_t k =? t) eqn:E; [lia|discriminate].
  - intros (Hb & c & Hc & Hd & Hwho). cbn [step]. rewrite Hb.
    assert (Happ : exists s', on_coord s t (fun c0 => if negb (is_done (c_status c0)) || true
                     then Some (c_with c0 Failed (Some x)) else Some c0) = Some s').
    { unfold on_coord. rewrite Hc. rewrite orb_true_r. eauto. }
    destruct (is_user a) eqn:Eu.
    + rewrite Hc, Hd. exact Happ.
    + destruct Hwho as [Hu|(k & Hk & Ht & Hact)]; [discriminate|].
      rewrite Hk. assert (Ekt : k_t k =? t = true) by lia. rewrite Ekt. cbn [negb].
      rewrite Hc, Hd, Hact. exact Happ.
Qed.

(** [ESetException a t x false] (a failure being recorded) is performed only
    by a task of [t]: one whose main raised ([TFailed]) or the submission
    task in its except-branch. *)
Lemma nonoverride_guard s a t x s' :
  step s (ESetException a t x false) = Some s' ->
  busy s a = false /\ is_user a = false /\
  exists k, find_task a (tasks s) = Some k /\ k_t k = t /\
    (k_st k = TFailed \/ (k_st k = TMain /\ k_kind k = KSubmission /\ k_phase k < 3)).
Proof.
  intros H. cbn [step] in H. destruct (busy s a) eqn:Eb; [discriminate|]. split; [reflexivity|].
  destruct (is_user a) eqn:Eu.
  - destruct (find_coord t (coords s)); discriminate.
  - split; [reflexivity|].
    destruct (find_task a (tasks s)) as [k|] eqn:Eft; [|discriminate].
    destruct (k_t k =? t) eqn:Et; cbn [negb] in H; [|discriminate].
    exists k. split; [reflexivity|]. split; [lia|].
    destruct (tst_eqb (k_st k) TFailed) eqn:E1.
    + left. now apply tst_eqb_eq.
    + right. match type of H with (if ?g then _ else _) = _ => destruct g eqn:Eg; [|discriminate] end.
      apply andb_prop in Eg as [Eg E4]. apply andb_prop in Eg as [E2 E3].
      apply tst_eqb_eq in E2. unfold KSubmission in *. repeat split; [exact E2|lia|lia].
Qed.

(** * (5) Non-vacuity *)

(** An upload with two part tasks running concurrently: task 1 fails with
    exception 7 (recorded), then task 2 fails with exception 8. *)
Definition ff_prefix : list event :=
  [ ENewTransfer (-1) 0;
    ESubmit (-1) 0 0 SSub false [] KSubmission; EAcquire (-1) 0 SEM_SUB; EEnqueue (-1) 0;
    ETaskStart 0; EDepsDone 0; EDoneCheck 0 false; EMainBegin 0;
    EStatus 0 false true; EStatus 0 true true;
    ESubmit 0 1 0 SReq false [] KPart; EAcquire 0 1 SEM_REQ; EEnqueue 0 1; EAssoc 0 1;
    ESubmit 0 2 0 SReq false [] KPart; EAcquire 0 2 SEM_REQ; EEnqueue 0 2; EAssoc 0 2;
    ETaskStart 1; EDepsDone 1; EDoneCheck 1 false; EMainBegin 1;
    ETaskStart 2; EDepsDone 2; EDoneCheck 2 false; EMainBegin 2;
    EMainEnd 1 false; ESetException 1 0 7 false;
    EMainEnd 2 false ].

Definition ff_init : state := init 1 2 1 10 10 10 2 2.

(** after the prefix the transfer is failed with 7; the second failure
    (exception 8, override = false) and then a user cancel (exception 9) are
    both enabled and leave the coordinator exactly as it was *)
Lemma ff_later_ignored :
  exists s1 s2 s3 c,
    run ff_init ff_prefix = Some s1 /\
    find_coord 0 (coords s1) = Some c /\ c_status c = Failed /\ c_exc c = Some 7 /\
    step s1 (ESetException 2 0 8 false) = Some s2 /\
    step s2 (ECancel (-1) 0 9) = Some s3 /\
    find_coord 0 (coords s2) = Some c /\ find_coord 0 (coords s3) = Some c.
Proof.
  do 4 eexists.
  split; [vm_compute; reflexivity|].
  split; [vm_compute; reflexivity|].
  split; [reflexivity|]. split; [reflexivity|].
  split; [vm_compute; reflexivity|].
  split; [vm_compute; reflexivity|].
  split; vm_compute; reflexivity.
Qed.

(** the user's explicit set_exception (override = true) on the finished
    transfer replaces 7 by 8 *)
Lemma ff_override_replaces :
  exists s c,
    run ff_init (ff_prefix ++ [ESetException 2 0 8 false; ECancel (-1) 0 9;
                               ESetException (-1) 0 8 true]) = Some s /\
    find_coord 0 (coords s) = Some c /\ c_status c = Failed /\ c_exc c = Some 8.
Proof.
  do 2 eexists. split; [vm_compute; reflexivity|]. split; [vm_compute; reflexivity|].
  split; reflexivity.
Qed.

(** successful completion of the final step replaces a cancellation recorded
    while the final task was inside its main *)
Definition ff_result_trace : list event :=
  [ ENewTransfer (-1) 0;
    ESubmit (-1) 0 0 SSub false [] KSubmission; EAcquire (-1) 0 SEM_SUB; EEnqueue (-1) 0;
    ETaskStart 0; EDepsDone 0; EDoneCheck 0 false; EMainBegin 0;
    EStatus 0 false true; EStatus 0 true true;
    ESubmit 0 1 0 SReq true [] KData; EAcquire 0 1 SEM_REQ; EEnqueue 0 1; EAssoc 0 1;
    ETaskStart 1; EDepsDone 1; EDoneCheck 1 false; EMainBegin 1;
    ECancel (-1) 0 7 ].

Lemma ff_result_replaces :
  exists s1 c1 s c,
    run ff_init ff_result_trace = Some s1 /\
    find_coord 0 (coords s1) = Some c1 /\ c_status c1 = Cancelled /\ c_exc c1 = Some 7 /\
    step s1 (ESetResult 1) = Some s /\
    find_coord 0 (coords s) = Some c /\ c_status c = Success /\ c_exc c = None.
Proof.
  do 4 eexists.
  split; [vm_compute; reflexivity|].
  split; [vm_compute; reflexivity|].
  split; [reflexivity|]. split; [reflexivity|].
  split; [vm_compute; reflexivity|].
  split; [vm_compute; reflexivity|].
  split; reflexivity.
Qed.
