(** Lemmas and invariants of the bandwidth model (model/Bandwidth.v). *)
From Coq Require Import ZArith QArith Qabs List Bool Lia Lqa.
From S3V Require Import gen.Tables model.Bandwidth.
Import ListNotations.
Open Scope Q_scope.

(** * Basic facts *)

Lemma Qle_bool_true x y : Qle_bool x y = true -> x <= y.
Proof. apply Qle_bool_iff. Qed.

Lemma Qle_bool_false x y : Qle_bool x y = false -> y < x.
Proof.
  intros H. apply Qnot_le_lt. intros Hle. apply Qle_bool_iff in Hle. congruence.
Qed.

Lemma alpha_range : 0 < BW_ALPHA /\ BW_ALPHA < 1.
Proof. split; reflexivity. Qed.

(* injection/inversion would otherwise unfold the normalisation *)
Local Opaque Qred.

(** * Association list of scheduled tokens *)

Definition keys (l : list (Z * entry)) : list Z := map fst l.

Fixpoint sum_ttc (l : list (Z * entry)) : Q :=
  match l with [] => 0 | (_, e) :: r => time_to_consume e + sum_ttc r end.

Fixpoint sum_amt (l : list (Z * entry)) : Z :=
  match l with [] => 0%Z | (_, e) :: r => (sched_amt e + sum_amt r)%Z end.

Lemma lookup_none_notin tok l : lookup tok l = None <-> ~ In tok (keys l).
Proof.
  induction l as [|[k e] l IH]; cbn [lookup keys map fst In]; [tauto|].
  destruct (Z.eqb_spec k tok) as [->|Hne].
  - split; [discriminate|tauto].
  - fold (keys l). rewrite IH. tauto.
Qed.

Lemma lookup_some_in tok l e : lookup tok l = Some e -> In tok (keys l).
Proof.
  intros H. destruct (in_dec Z.eq_dec tok (keys l)) as [Hin|Hn]; [exact Hin|].
  apply lookup_none_notin in Hn. congruence.
Qed.

Lemma lookup_remove_same tok l : lookup tok (remove_tok tok l) = None.
Proof.
  induction l as [|[k e] l IH]; cbn [remove_tok lookup]; [reflexivity|].
  destruct (Z.eqb k tok) eqn:E; [exact IH|]. cbn [lookup]. now rewrite E.
Qed.

Lemma lookup_remove_other k tok l : k <> tok -> lookup k (remove_tok tok l) = lookup k l.
Proof.
  intros Hne. induction l as [|[k0 e] l IH]; cbn [remove_tok lookup]; [reflexivity|].
  destruct (Z.eqb_spec k0 tok) as [->|Hn0].
  - rewrite IH. destruct (Z.eqb_spec tok k); [congruence|reflexivity].
  - cbn [lookup]. now rewrite IH.
Qed.

Lemma remove_notin tok l : lookup tok l = None -> remove_tok tok l = l.
Proof.
  induction l as [|[k e] l IH]; cbn [remove_tok lookup]; [reflexivity|].
  destruct (Z.eqb k tok); [discriminate|]. intros H. now rewrite IH.
Qed.

Lemma keys_remove_in k tok l : In k (keys (remove_tok tok l)) -> In k (keys l) /\ k <> tok.
Proof.
  induction l as [|[k0 e] l IH]; cbn [remove_tok keys map fst In]; [tauto|].
  destruct (Z.eqb_spec k0 tok) as [->|Hn0]; fold (keys l) in *.
  - intros H. apply IH in H. tauto.
  - cbn [keys map fst In]. fold (keys (remove_tok tok l)). intros [->|H]; [tauto|].
    apply IH in H. tauto.
Qed.

Lemma nodup_remove tok l : NoDup (keys l) -> NoDup (keys (remove_tok tok l)).
Proof.
  induction l as [|[k e] l IH]; cbn [remove_tok keys map fst]; [trivial|].
  fold (keys l). intros H. inversion H as [|? ? Hnin Hnd]; subst.
  destruct (Z.eqb k tok); [now apply IH|].
  cbn [keys map fst]. fold (keys (remove_tok tok l)). constructor; [|now apply IH].
  intros Hin. apply keys_remove_in in Hin. tauto.
Qed.

Lemma sum_ttc_remove tok l e : NoDup (keys l) -> lookup tok l = Some e ->
  sum_ttc l == time_to_consume e + sum_ttc (remove_tok tok l).
Proof.
  induction l as [|[k e0] l IH]; cbn [lookup remove_tok sum_ttc keys map fst]; [discriminate|].
  fold (keys l). intros Hnd Hl. inversion Hnd as [|? ? Hnin Hnd']; subst.
  destruct (Z.eqb_spec k tok) as [->|Hne].
  - injection Hl as ->. apply lookup_none_notin in Hnin. rewrite (remove_notin _ _ Hnin). reflexivity.
  - cbn [sum_ttc]. rewrite (IH Hnd' Hl). ring.
Qed.

Lemma sum_amt_remove tok l e : NoDup (keys l) -> lookup tok l = Some e ->
  sum_amt l = (sched_amt e + sum_amt (remove_tok tok l))%Z.
Proof.
  induction l as [|[k e0] l IH]; cbn [lookup remove_tok sum_amt keys map fst]; [discriminate|].
  fold (keys l). intros Hnd Hl. inversion Hnd as [|? ? Hnin Hnd']; subst.
  destruct (Z.eqb_spec k tok) as [->|Hne].
  - injection Hl as ->. apply lookup_none_notin in Hnin. now rewrite (remove_notin _ _ Hnin).
  - cbn [sum_amt]. rewrite (IH Hnd' Hl). lia.
Qed.

(** every scheduled entry: time_to_consume = amount / max, amount >= 0 *)
Definition entry_ok (mx : Q) (p : Z * entry) : Prop :=
  time_to_consume (snd p) == inject_Z (sched_amt (snd p)) / mx /\ (0 <= sched_amt (snd p))%Z.

Lemma forall_remove (P : Z * entry -> Prop) tok l : Forall P l -> Forall P (remove_tok tok l).
Proof.
  induction 1 as [|[k e] l HP HF IH]; cbn [remove_tok]; [constructor|].
  destruct (Z.eqb k tok); [exact IH|now constructor].
Qed.

Lemma forall_lookup (P : Z * entry -> Prop) tok l e :
  Forall P l -> lookup tok l = Some e -> exists k, P (k, e).
Proof.
  induction 1 as [|[k e0] l HP HF IH]; cbn [lookup]; [discriminate|].
  destruct (Z.eqb k tok); [intros [= <-]; now exists k|exact IH].
Qed.

Lemma div_nonneg (a : Z) (mx : Q) : 0 < mx -> (0 <= a)%Z -> 0 <= inject_Z a / mx.
Proof.
  intros Hm Ha. apply Qle_shift_div_l; [exact Hm|]. rewrite Qmult_0_l.
  change 0 with (inject_Z 0). now rewrite <- Zle_Qle.
Qed.

Lemma sum_ttc_nonneg mx l : 0 < mx -> Forall (entry_ok mx) l -> 0 <= sum_ttc l.
Proof.
  intros Hm. induction 1 as [|[k e] l [He Ha] HF IH]; cbn [sum_ttc]; [apply Qle_refl|].
  cbn [snd] in *. pose proof (div_nonneg _ _ Hm Ha). rewrite <- He in H. lra.
Qed.

Lemma sum_ttc_bytes mx l : 0 < mx -> Forall (entry_ok mx) l ->
  sum_ttc l == inject_Z (sum_amt l) / mx.
Proof.
  intros Hm. induction 1 as [|[k e] l [He Ha] HF IH]; cbn [sum_ttc sum_amt].
  - unfold Qdiv. now rewrite Qmult_0_l.
  - cbn [snd] in *. rewrite He, IH, inject_Z_plus. field. lra.
Qed.

(** * The scheduler invariant ([wait_formula]) *)

Record sched_inv (mx : Q) (s : sched) : Prop := {
  si_nodup : NoDup (keys (tokens s));
  si_wait : total_wait s == sum_ttc (tokens s);
  si_ok : Forall (entry_ok mx) (tokens s)
}.

Lemma sched0_inv mx : sched_inv mx sched0.
Proof. split; cbn; [constructor|reflexivity|constructor]. Qed.

Lemma process_inv mx s tok : 0 < mx -> sched_inv mx s ->
  sched_inv mx (process_scheduled_consumption tok s).
Proof.
  intros Hm [Hnd Hw Hok]. unfold process_scheduled_consumption.
  destruct (lookup tok (tokens s)) as [e|] eqn:El; [|now split].
  pose proof (sum_ttc_remove _ _ _ Hnd El) as Hs.
  pose proof (sum_ttc_nonneg mx _ Hm (forall_remove _ tok _ Hok)) as Hr.
  split; cbn [tokens total_wait].
  - now apply nodup_remove.
  - destruct (Qle_bool 0 (Qred (total_wait s - time_to_consume e))) eqn:E.
    + rewrite Qred_correct. lra.
    + apply Qle_bool_false in E. rewrite Qred_correct in E. lra.
  - now apply forall_remove.
Qed.

(** what [process] does to a scheduled token, exactly *)
Lemma process_spec mx s tok e : 0 < mx -> sched_inv mx s -> lookup tok (tokens s) = Some e ->
  let s' := process_scheduled_consumption tok s in
  total_wait s' == total_wait s - time_to_consume e /\
  tokens s' = remove_tok tok (tokens s) /\
  is_scheduled tok s' = false.
Proof.
  intros Hm [Hnd Hw Hok] El. unfold process_scheduled_consumption, is_scheduled. rewrite El.
  cbn [tokens total_wait]. rewrite lookup_remove_same.
  pose proof (sum_ttc_remove _ _ _ Hnd El) as Hs.
  pose proof (sum_ttc_nonneg mx _ Hm (forall_remove _ tok _ Hok)) as Hr.
  split; [|split; reflexivity].
  destruct (Qle_bool 0 (Qred (total_wait s - time_to_consume e))) eqn:E.
  - apply Qred_correct.
  - apply Qle_bool_false in E. rewrite Qred_correct in E. lra.
Qed.

Lemma schedule_inv mx s amt tok : 0 < mx -> (0 <= amt)%Z -> sched_inv mx s ->
  lookup tok (tokens s) = None ->
  sched_inv mx (fst (schedule_consumption amt tok (Qred (inject_Z amt / mx)) s)).
Proof.
  intros Hm Ha [Hnd Hw Hok] El. unfold schedule_consumption. cbn [fst tokens total_wait].
  rewrite (remove_notin _ _ El). split; cbn [tokens total_wait keys map fst sum_ttc time_to_consume].
  - constructor; [now apply lookup_none_notin|exact Hnd].
  - rewrite !Qred_correct, Hw. ring.
  - constructor; [|exact Hok]. split; cbn [snd time_to_consume sched_amt]; [apply Qred_correct|exact Ha].
Qed.

(** * Tracker *)

Definition rate_nonneg (tr : tracker) : Prop := forall r, cur_rate tr = Some r -> 0 <= r.

Lemma calc_rate_some amt now lt r : calc_rate amt now lt = Some r ->
  lt < now /\ r == inject_Z amt / (now - lt).
Proof.
  unfold calc_rate; cbv zeta. destruct (Qle_bool (Qred (now - lt)) 0) eqn:E; [discriminate|].
  intros [= <-]. apply Qle_bool_false in E. rewrite Qred_correct in E.
  split; [lra|]. rewrite Qred_correct, Qred_correct; reflexivity.
Qed.

Lemma calc_rate_pos amt now lt : lt < now ->
  exists r, calc_rate amt now lt = Some r /\ r == inject_Z amt / (now - lt).
Proof.
  intros H. unfold calc_rate; cbv zeta. destruct (Qle_bool (Qred (now - lt)) 0) eqn:E.
  - apply Qle_bool_true in E. rewrite Qred_correct in E. lra.
  - eexists; split; [reflexivity|]. rewrite Qred_correct, Qred_correct; reflexivity.
Qed.

Lemma calc_rate_none amt now lt : now <= lt -> calc_rate amt now lt = None.
Proof.
  intros H. unfold calc_rate; cbv zeta. destruct (Qle_bool (Qred (now - lt)) 0) eqn:E; [reflexivity|].
  apply Qle_bool_false in E. rewrite Qred_correct in E. lra.
Qed.

Lemma ema_some alpha nr cr p : ema alpha nr cr = Some p ->
  exists n c, nr = Some n /\ cr = Some c /\ p == alpha * n + (1 - alpha) * c.
Proof.
  destruct nr as [n|], cr as [c|]; cbn [ema]; try discriminate.
  intros [= <-]. exists n, c. repeat split. apply Qred_correct.
Qed.

Lemma ema_inf_r alpha nr : ema alpha nr None = None.
Proof. now destruct nr. Qed.

Lemma rate_div_nonneg amt now lt : (0 <= amt)%Z -> lt < now -> 0 <= inject_Z amt / (now - lt).
Proof. intros Ha Hl. apply div_nonneg; [lra|exact Ha]. Qed.

Lemma mix_nonneg alpha n c : 0 <= alpha -> alpha <= 1 -> 0 <= n -> 0 <= c ->
  0 <= alpha * n + (1 - alpha) * c.
Proof. intros. nra. Qed.

Lemma mix_le alpha n c m : 0 <= alpha -> alpha <= 1 -> n <= m -> c <= m ->
  alpha * n + (1 - alpha) * c <= m.
Proof. intros. nra. Qed.

Lemma record_nonneg alpha tr amt now : 0 <= alpha -> alpha <= 1 -> (0 <= amt)%Z ->
  rate_nonneg tr -> rate_nonneg (record_consumption alpha tr amt now).
Proof.
  intros H0 H1 Ha Hr r. unfold record_consumption.
  destruct (last_time tr) as [lt|]; cbn [cur_rate].
  - intros He. apply ema_some in He as (n & c & Hn & Hc & ->).
    apply calc_rate_some in Hn as [Hlt ->]. apply mix_nonneg; try assumption.
    + now apply rate_div_nonneg.
    + now apply Hr.
  - intros [= <-]. apply Qle_refl.
Qed.

Lemma record_last_time alpha tr amt now :
  last_time (record_consumption alpha tr amt now) = Some now.
Proof. unfold record_consumption. now destruct (last_time tr). Qed.

(** * Bucket invariant *)

Definition Inv (mx : Q) (b : bucket) : Prop := sched_inv mx (sch b) /\ rate_nonneg (trk b).

Definition op_ok (op : bop) : Prop :=
  match op with Consume amt _ _ => (0 <= amt)%Z | Cancel _ => True end.

Lemma bucket0_inv mx : Inv mx bucket0.
Proof. split; [apply sched0_inv|]. intros r [= <-]. apply Qle_refl. Qed.

Lemma is_scheduled_lookup tok s :
  (is_scheduled tok s = true -> exists e, lookup tok (tokens s) = Some e) /\
  (is_scheduled tok s = false -> lookup tok (tokens s) = None).
Proof. unfold is_scheduled. destruct (lookup tok (tokens s)); split; try discriminate; eauto. Qed.

Lemma consume_inv alpha mx amt tok now b : 0 <= alpha -> alpha <= 1 -> 0 < mx -> (0 <= amt)%Z ->
  Inv mx b -> Inv mx (fst (consume_with alpha mx amt tok now b)).
Proof.
  intros H0 H1 Hm Ha [Hs Hr]. unfold consume_with.
  destruct (is_scheduled tok (sch b)) eqn:Es; cbn [fst].
  - split; cbn [sch trk]; [now apply process_inv|now apply record_nonneg].
  - destruct (exceeds mx _).
    + pose proof (schedule_inv mx (sch b) amt tok Hm Ha Hs (proj2 (is_scheduled_lookup _ _) Es)) as Hi.
      destruct (schedule_consumption _ _ _ _) as [s' w]. cbn [fst] in *. now split.
    + cbn [fst]. split; cbn [sch trk]; [exact Hs|now apply record_nonneg].
Qed.

Lemma cancel_inv mx tok b : 0 < mx -> Inv mx b -> Inv mx (cancel tok b).
Proof.
  intros Hm [Hs Hr]. unfold cancel. destruct (is_scheduled tok (sch b)); [|now split].
  split; cbn [sch trk]; [now apply process_inv|exact Hr].
Qed.

Lemma bstep_inv alpha mx b op : 0 <= alpha -> alpha <= 1 -> 0 < mx -> op_ok op ->
  Inv mx b -> Inv mx (fst (bstep alpha mx b op)).
Proof.
  intros H0 H1 Hm Ho Hi. destruct op as [amt tok now|tok]; cbn [bstep].
  - pose proof (consume_inv alpha mx amt tok now b H0 H1 Hm Ho Hi) as H.
    destruct (consume_with _ _ _ _ _ _). exact H.
  - cbn [fst]. now apply cancel_inv.
Qed.

Lemma run_inv alpha mx ops : 0 <= alpha -> alpha <= 1 -> 0 < mx -> forall b, Forall op_ok ops ->
  Inv mx b -> Inv mx (run_state alpha mx b ops).
Proof.
  intros H0 H1 Hm. induction ops as [|op ops IH]; intros b Hok Hi; cbn [run_state]; [exact Hi|].
  inversion Hok; subst. apply IH; [assumption|]. now apply bstep_inv.
Qed.

(** States reachable by any history of non-negative requests (any clock
    readings whatsoever), with the source's alpha. *)
Definition reachable (mx : Q) (b : bucket) : Prop :=
  exists ops, Forall op_ok ops /\ b = run_state BW_ALPHA mx bucket0 ops.

Lemma reachable_inv mx b : 0 < mx -> reachable mx b -> Inv mx b.
Proof.
  intros Hm (ops & Hok & ->). destruct alpha_range.
  apply run_inv; try assumption; try lra. apply bucket0_inv.
Qed.

Lemma reachable_step mx b op : reachable mx b -> op_ok op ->
  reachable mx (fst (bstep BW_ALPHA mx b op)).
Proof.
  intros (ops & Hok & ->) Ho. exists (ops ++ [op]). split.
  - apply Forall_app; split; [exact Hok|now constructor].
  - generalize bucket0. induction ops as [|o ops IH]; intros b0; cbn [run_state app]; [reflexivity|].
    inversion Hok; subst. now apply IH.
Qed.

(** * What a single consume does *)

Lemma consume_tracker alpha mx amt tok now b :
  match snd (consume_with alpha mx amt tok now b) with
  | Granted => trk (fst (consume_with alpha mx amt tok now b)) =
               record_consumption alpha (trk b) amt now
  | Refused _ => trk (fst (consume_with alpha mx amt tok now b)) = trk b
  end.
Proof.
  unfold consume_with. destruct (is_scheduled tok (sch b)); [reflexivity|].
  destruct (exceeds mx _); [|reflexivity].
  destruct (schedule_consumption _ _ _ _). reflexivity.
Qed.

Lemma cancel_tracker tok b : trk (cancel tok b) = trk b.
Proof. unfold cancel. now destruct (is_scheduled tok (sch b)). Qed.

(** ** [wait_formula] *)

Lemma wait_formula_state mx b : 0 < mx -> Inv mx b ->
  total_wait (sch b) == inject_Z (sum_amt (tokens (sch b))) / mx.
Proof. intros Hm [[Hnd Hw Hok] _]. rewrite Hw. now apply sum_ttc_bytes. Qed.

Lemma refused_wait alpha mx b amt tok now b' w : 0 < mx -> Inv mx b ->
  consume_with alpha mx amt tok now b = (b', Refused w) ->
  is_scheduled tok (sch b) = false /\
  w == inject_Z (sum_amt (tokens (sch b)) + amt) / mx /\
  w == total_wait (sch b) + inject_Z amt / mx /\
  total_wait (sch b') = w /\
  tokens (sch b') = (tok, mkEntry w (Qred (inject_Z amt / mx)) amt) :: tokens (sch b) /\
  trk b' = trk b.
Proof.
  intros Hm Hi. pose proof (wait_formula_state mx b Hm Hi) as Hw. unfold consume_with.
  destruct (is_scheduled tok (sch b)) eqn:Es; [discriminate|].
  destruct (exceeds mx _); [|discriminate].
  unfold schedule_consumption. intros [= <- <-]. cbn [sch tokens total_wait trk].
  rewrite (remove_notin _ _ (proj2 (is_scheduled_lookup _ _) Es)).
  split; [reflexivity|]. split; [|split; [|repeat split]].
  - rewrite !Qred_correct, Hw, inject_Z_plus. field. lra.
  - now rewrite !Qred_correct.
Qed.

(** ** [one_wait] *)

Definition op_tok (op : bop) : Z := match op with Consume _ t _ => t | Cancel t => t end.

Lemma process_lookup_other k tok s : k <> tok ->
  lookup k (tokens (process_scheduled_consumption tok s)) = lookup k (tokens s).
Proof.
  intros Hne. unfold process_scheduled_consumption.
  destruct (lookup tok (tokens s)); cbn [tokens]; [now apply lookup_remove_other|reflexivity].
Qed.

Lemma bstep_lookup_other alpha mx b op k : op_tok op <> k ->
  lookup k (tokens (sch (fst (bstep alpha mx b op)))) = lookup k (tokens (sch b)).
Proof.
  intros Hne. destruct op as [amt tok now|tok]; cbn [bstep op_tok] in *.
  - unfold consume_with. destruct (is_scheduled tok (sch b)); cbn [fst sch].
    + apply process_lookup_other. congruence.
    + destruct (exceeds mx _); cbn [fst sch]; [|reflexivity].
      unfold schedule_consumption. cbn [fst sch tokens lookup].
      destruct (Z.eqb_spec tok k); [congruence|]. apply lookup_remove_other. congruence.
  - cbn [fst]. unfold cancel. destruct (is_scheduled tok (sch b)); cbn [sch]; [|reflexivity].
    apply process_lookup_other. congruence.
Qed.

Lemma run_lookup_other alpha mx ops k : Forall (fun op => op_tok op <> k) ops -> forall b,
  lookup k (tokens (sch (run_state alpha mx b ops))) = lookup k (tokens (sch b)).
Proof.
  induction 1 as [|op ops Ho HF IH]; intros b; cbn [run_state]; [reflexivity|].
  rewrite IH. now apply bstep_lookup_other.
Qed.

Lemma refused_is_scheduled alpha mx b amt tok now b' w :
  consume_with alpha mx amt tok now b = (b', Refused w) -> is_scheduled tok (sch b') = true.
Proof.
  unfold consume_with. destruct (is_scheduled tok (sch b)); [discriminate|].
  destruct (exceeds mx _); [|discriminate]. unfold schedule_consumption.
  intros [= <- _]. unfold is_scheduled. cbn [sch tokens lookup]. now rewrite Z.eqb_refl.
Qed.

Lemma scheduled_granted alpha mx b amt tok now :
  is_scheduled tok (sch b) = true -> snd (consume_with alpha mx amt tok now b) = Granted.
Proof. intros H. unfold consume_with. now rewrite H. Qed.

(** A refused request is granted by its next consume, whatever the amount,
    the time, and whatever the other tokens did in between. *)
Lemma one_wait_gen alpha mx b amt tok now b1 w ops amt' now' :
  consume_with alpha mx amt tok now b = (b1, Refused w) ->
  Forall (fun op => op_tok op <> tok) ops ->
  snd (consume_with alpha mx amt' tok now' (run_state alpha mx b1 ops)) = Granted.
Proof.
  intros Hc Hops. apply scheduled_granted. apply refused_is_scheduled in Hc.
  unfold is_scheduled in *. now rewrite (run_lookup_other alpha mx ops tok Hops b1).
Qed.

(** ** [immediate_grant_bound] *)

Lemma immediate_grant_bound_gen alpha mx b amt tok now lt b' :
  0 < alpha -> alpha <= 1 -> 0 < mx -> rate_nonneg (trk b) ->
  is_scheduled tok (sch b) = false -> last_time (trk b) = Some lt ->
  consume_with alpha mx amt tok now b = (b', Granted) ->
  lt < now /\ inject_Z amt <= / alpha * mx * (now - lt).
Proof.
  intros Ha0 Ha1 Hm Hr Hs Hl. unfold consume_with. rewrite Hs.
  destruct (exceeds mx (projected_rate alpha (trk b) amt now)) eqn:Ex.
  { destruct (schedule_consumption _ _ _ _); discriminate. }
  intros _. unfold exceeds in Ex.
  destruct (projected_rate alpha (trk b) amt now) as [p|] eqn:Ep; [|discriminate].
  apply negb_false_iff in Ex. apply Qle_bool_true in Ex.
  unfold projected_rate in Ep. rewrite Hl in Ep.
  apply ema_some in Ep as (n & c & Hn & Hc & Hp).
  apply calc_rate_some in Hn as [Hlt Hn]. split; [exact Hlt|].
  pose proof (Hr c Hc) as Hc0.
  assert (Han : alpha * n <= mx) by nra.
  assert (Hamt : inject_Z amt == n * (now - lt)) by (rewrite Hn; field; lra).
  assert (Hia : 0 < / alpha) by now apply Qinv_lt_0_compat.
  assert (Hn' : n <= / alpha * mx).
  { setoid_replace n with (/ alpha * (alpha * n)) by (field; lra).
    apply Qmult_le_l; assumption. }
  rewrite Hamt. apply Qmult_le_compat_r; [exact Hn'|lra].
Qed.

(** with the source's alpha the factor is the 1.25 of the statement *)
Lemma inv_alpha_is_5_4 : / BW_ALPHA == 5 # 4.
Proof. reflexivity. Qed.

(** ** The tracker's last time is the time of the last grant *)

Fixpoint last_grant (acc : option Q) (ops : list bop) (ds : list (option decision)) : option Q :=
  match ops, ds with
  | Consume _ _ now :: r, Some Granted :: dr => last_grant (Some now) r dr
  | _ :: r, _ :: dr => last_grant acc r dr
  | _, _ => acc
  end.

Lemma last_time_is_last_grant alpha mx ops : forall b,
  last_time (trk (run_state alpha mx b ops)) =
  last_grant (last_time (trk b)) ops (run_decs alpha mx b ops).
Proof.
  induction ops as [|op ops IH]; intros b; cbn [run_state run_decs last_grant]; [reflexivity|].
  rewrite IH. destruct op as [amt tok now|tok]; cbn [bstep].
  - pose proof (consume_tracker alpha mx amt tok now b) as Ht.
    destruct (consume_with alpha mx amt tok now b) as [b' d]. cbn [fst snd] in *.
    destruct d; rewrite Ht; [now rewrite record_last_time|reflexivity].
  - cbn [fst snd]. now rewrite cancel_tracker.
Qed.

(** ** Segments of a history without scheduled releases *)

Fixpoint only_immediate (alpha mx : Q) (b : bucket) (ops : list bop) : Prop :=
  match ops with
  | [] => True
  | op :: r =>
      match op with
      | Consume _ tok _ => is_scheduled tok (sch b) = false
      | Cancel _ => True
      end /\ only_immediate alpha mx (fst (bstep alpha mx b op)) r
  end.

Fixpoint granted_bytes (ops : list bop) (ds : list (option decision)) : Z :=
  match ops, ds with
  | Consume amt _ _ :: r, Some Granted :: dr => (amt + granted_bytes r dr)%Z
  | _ :: r, _ :: dr => granted_bytes r dr
  | _, _ => 0%Z
  end.

Lemma immediate_segment alpha mx : 0 < alpha -> alpha <= 1 -> 0 < mx ->
  forall seg b t0, Forall op_ok seg -> Inv mx b -> last_time (trk b) = Some t0 ->
  only_immediate alpha mx b seg ->
  exists t1, last_time (trk (run_state alpha mx b seg)) = Some t1 /\ t0 <= t1 /\
    inject_Z (granted_bytes seg (run_decs alpha mx b seg)) <= / alpha * mx * (t1 - t0).
Proof.
  intros Ha0 Ha1 Hm. set (K := / alpha * mx).
  induction seg as [|op seg IH]; intros b t0 Hok Hi Hl Him;
    cbn [run_state run_decs granted_bytes only_immediate] in *.
  - exists t0. repeat split; [exact Hl|apply Qle_refl|].
    setoid_replace (K * (t0 - t0)) with 0 by ring. apply Qle_refl.
  - inversion Hok as [|? ? Hop Hok']; subst. destruct Him as [Hns Him].
    pose proof (bstep_inv alpha mx b op ltac:(lra) Ha1 Hm Hop Hi) as Hi'.
    destruct op as [amt tok now|tok]; cbn [bstep] in *.
    + pose proof (consume_tracker alpha mx amt tok now b) as Ht.
      pose proof (immediate_grant_bound_gen alpha mx b amt tok now t0) as Hb.
      destruct (consume_with alpha mx amt tok now b) as [b' d]. cbn [fst snd] in *.
      destruct d as [|w].
      * destruct (Hb b' Ha0 Ha1 Hm (proj2 Hi) Hns Hl eq_refl) as [Hlt Hamt]. fold K in Hamt.
        assert (Hl' : last_time (trk b') = Some now) by (rewrite Ht; apply record_last_time).
        destruct (IH b' now Hok' Hi' Hl' Him) as (t1 & H1 & H2 & H3).
        exists t1. split; [exact H1|]. split; [lra|]. rewrite inject_Z_plus. lra.
      * assert (Hl' : last_time (trk b') = Some t0) by now rewrite Ht.
        destruct (IH b' t0 Hok' Hi' Hl' Him) as (t1 & H1 & H2 & H3).
        exists t1. now repeat split.
    + cbn [fst snd] in *.
      assert (Hl' : last_time (trk (cancel tok b)) = Some t0) by now rewrite cancel_tracker.
      destruct (IH _ t0 Hok' Hi' Hl' Him) as (t1 & H1 & H2 & H3).
      exists t1. now repeat split.
Qed.

(** ** [under_limit_never_refused] *)

Definition rate_le (mx : Q) (tr : tracker) : Prop :=
  match last_time tr with
  | None => True
  | Some _ => exists r, cur_rate tr = Some r /\ r <= mx
  end.

(** every request asks for at most what the limit allows since the previous
    grant, and comes strictly after it *)
Fixpoint under_limit (alpha mx : Q) (b : bucket) (ops : list bop) : Prop :=
  match ops with
  | [] => True
  | op :: r =>
      match op with
      | Consume amt _ now =>
          (0 <= amt)%Z /\
          forall lt, last_time (trk b) = Some lt -> lt < now /\ inject_Z amt <= mx * (now - lt)
      | Cancel _ => True
      end /\ under_limit alpha mx (fst (bstep alpha mx b op)) r
  end.

Lemma under_limit_rate alpha mx tr amt now : 0 <= alpha -> alpha <= 1 -> 0 < mx ->
  rate_le mx tr ->
  (forall lt, last_time tr = Some lt -> lt < now /\ inject_Z amt <= mx * (now - lt)) ->
  exists p, projected_rate alpha tr amt now = Some p /\ p <= mx.
Proof.
  intros H0 H1 Hm Hr Hu. unfold projected_rate, rate_le in *.
  destruct (last_time tr) as [lt|]; [|exists 0; split; [reflexivity|lra]].
  destruct (Hu lt eq_refl) as [Hlt Hamt]. destruct Hr as (c & Hc & Hcm).
  destruct (calc_rate_pos amt now lt Hlt) as (n & -> & Hn). rewrite Hc. cbn [ema].
  eexists; split; [reflexivity|]. rewrite Qred_correct. apply mix_le; try assumption.
  rewrite Hn. apply Qle_shift_div_r; [lra|exact Hamt].
Qed.

Lemma under_limit_never_refused_gen alpha mx : 0 <= alpha -> alpha <= 1 -> 0 < mx ->
  forall ops b, rate_le mx (trk b) -> under_limit alpha mx b ops ->
  Forall (fun d => forall w, d <> Some (Refused w)) (run_decs alpha mx b ops) /\
  rate_le mx (trk (run_state alpha mx b ops)).
Proof.
  intros H0 H1 Hm. induction ops as [|op ops IH]; intros b Hr Hu;
    cbn [run_state run_decs under_limit] in *; [split; [constructor|exact Hr]|].
  destruct Hu as [Hop Hu]. destruct op as [amt tok now|tok]; cbn [bstep] in *.
  - destruct Hop as [Ha Hlim].
    destruct (under_limit_rate alpha mx (trk b) amt now H0 H1 Hm Hr Hlim) as (p & Hp & Hpm).
    assert (Hrec : rate_le mx (record_consumption alpha (trk b) amt now)).
    { unfold rate_le. rewrite record_last_time. unfold record_consumption.
      unfold projected_rate in Hp. destruct (last_time (trk b)); cbn [cur_rate].
      - exists p. now split.
      - exists 0. split; [reflexivity|lra]. }
    assert (Hex : exceeds mx (projected_rate alpha (trk b) amt now) = false).
    { rewrite Hp. cbn [exceeds]. apply negb_false_iff. now apply Qle_bool_iff. }
    unfold consume_with in *. rewrite Hex in *.
    destruct (is_scheduled tok (sch b)); cbn [fst snd] in *;
      (eapply IH in Hu; [|exact Hrec]; destruct Hu as [IH1 IH2];
       split; [constructor; [discriminate|exact IH1]|exact IH2]).
  - cbn [fst snd] in *. assert (Hr' : rate_le mx (trk (cancel tok b))) by now rewrite cancel_tracker.
    destruct (IH _ Hr' Hu) as [IH1 IH2]. split; [constructor; [discriminate|exact IH1]|exact IH2].
Qed.

(** ** [abandoned_token_removed] *)

Lemma cancel_spec mx b tok e : 0 < mx -> Inv mx b -> lookup tok (tokens (sch b)) = Some e ->
  is_scheduled tok (sch (cancel tok b)) = false /\
  total_wait (sch (cancel tok b)) == total_wait (sch b) - time_to_consume e /\
  tokens (sch (cancel tok b)) = remove_tok tok (tokens (sch b)) /\
  (forall k, k <> tok -> lookup k (tokens (sch (cancel tok b))) = lookup k (tokens (sch b))) /\
  trk (cancel tok b) = trk b /\ Inv mx (cancel tok b).
Proof.
  intros Hm Hi El. pose proof (cancel_inv mx tok b Hm Hi) as Hi'.
  assert (Es : is_scheduled tok (sch b) = true) by (unfold is_scheduled; now rewrite El).
  assert (Ec : cancel tok b = mkBucket (trk b) (process_scheduled_consumption tok (sch b)))
    by (unfold cancel; now rewrite Es).
  rewrite Ec in *. cbn [sch trk].
  destruct (process_spec mx (sch b) tok e Hm (proj1 Hi) El) as (H1 & H2 & H3).
  split; [exact H3|]. split; [exact H1|]. split; [exact H2|].
  split; [intros k Hk; now apply process_lookup_other|]. split; [reflexivity|exact Hi'].
Qed.

Lemma cancel_unscheduled tok b : is_scheduled tok (sch b) = false -> cancel tok b = b.
Proof. intros H. unfold cancel. now rewrite H. Qed.

(** ** Infinity is absorbing ([C13_inf_poisoning]) *)

Definition rate_inf (b : bucket) : Prop :=
  cur_rate (trk b) = None /\ exists lt, last_time (trk b) = Some lt.

Lemma rate_inf_step alpha mx b op : rate_inf b -> rate_inf (fst (bstep alpha mx b op)).
Proof.
  intros [Hr [lt Hl]]. destruct op as [amt tok now|tok]; cbn [bstep].
  - pose proof (consume_tracker alpha mx amt tok now b) as Ht.
    destruct (consume_with alpha mx amt tok now b) as [b' d]. cbn [fst snd] in *.
    destruct d; unfold rate_inf; rewrite Ht.
    + unfold record_consumption. rewrite Hl, Hr, ema_inf_r. cbn. eauto.
    + eauto.
  - cbn [fst]. unfold rate_inf. rewrite cancel_tracker. eauto.
Qed.

Lemma rate_inf_run alpha mx ops : forall b, rate_inf b -> rate_inf (run_state alpha mx b ops).
Proof.
  induction ops as [|op ops IH]; intros b H; cbn [run_state]; [exact H|].
  apply IH. now apply rate_inf_step.
Qed.

Lemma rate_inf_refuses alpha mx b amt tok now : rate_inf b -> is_scheduled tok (sch b) = false ->
  exists w, snd (consume_with alpha mx amt tok now b) = Refused w.
Proof.
  intros [Hr [lt Hl]] Hs. unfold consume_with, projected_rate. rewrite Hs, Hl, Hr, ema_inf_r.
  cbn [exceeds]. destruct (schedule_consumption _ _ _ _) as [s' w]. now exists w.
Qed.

(** ** The stream loop ([failed_transfer_raises]) *)

Lemma loop_iter_exc alpha mx now st b :
  loop_iter alpha mx true now st b = (st, cancel (s_tok st) b, IRaise).
Proof. reflexivity. Qed.

Lemma cancel_not_scheduled mx tok b : 0 < mx -> Inv mx b -> is_scheduled tok (sch (cancel tok b)) = false.
Proof.
  intros Hm Hi. destruct (is_scheduled tok (sch b)) eqn:Es.
  - destruct (proj1 (is_scheduled_lookup _ _) Es) as [e El].
    now destruct (cancel_spec mx b tok e Hm Hi El).
  - now rewrite (cancel_unscheduled _ _ Es).
Qed.

(** a stream running alone is through its loop after at most two passes *)
Lemma stream_loop_two alpha mx exc_at wake now st b : 0 < mx ->
  exists r, stream_loop 2 alpha mx exc_at wake now st b = Some r.
Proof.
  intros Hm. cbn [stream_loop]. unfold loop_iter at 1.
  destruct (exc_at now); [eauto|].
  destruct (consume_with alpha mx (s_seen st) (s_tok st) now b) as [b1 [|w]] eqn:Ec; [eauto|].
  unfold loop_iter. destruct (exc_at (wake now w)); [eauto|].
  pose proof (scheduled_granted alpha mx b1 (s_seen st) (s_tok st) (wake now w)
                (refused_is_scheduled _ _ _ _ _ _ _ _ Ec)) as Hg.
  destruct (consume_with alpha mx (s_seen st) (s_tok st) (wake now w) b1) as [b2 d].
  cbn [snd] in Hg. subst d. eauto.
Qed.

(** * Disciplined histories

    What the streams of the source do with the bucket: clock readings do not
    decrease, amounts are non-negative, and a token that was refused with wait
    [w] at time [s] comes back with the same amount, not before [s + w]
    ("sleeps are not shorter than requested"; they may be longer), or is
    cancelled.  [g] is a ghost map: scheduled token -> earliest retry time. *)

Fixpoint glookup (tok : Z) (g : list (Z * Q)) : option Q :=
  match g with
  | [] => None
  | (k, t) :: r => if Z.eqb k tok then Some t else glookup tok r
  end.

Fixpoint gremove (tok : Z) (g : list (Z * Q)) : list (Z * Q) :=
  match g with
  | [] => []
  | (k, t) :: r => if Z.eqb k tok then gremove tok r else (k, t) :: gremove tok r
  end.

Definition gstep (g : list (Z * Q)) (op : bop) (d : option decision) : list (Z * Q) :=
  match op, d with
  | Consume _ tok now, Some (Refused w) => (tok, now + w) :: g
  | Consume _ tok _, Some Granted => gremove tok g
  | Cancel tok, _ => gremove tok g
  | _, _ => g
  end.

Definition op_disciplined (b : bucket) (g : list (Z * Q)) (t : Q) (op : bop) : bool :=
  match op with
  | Consume amt tok now =>
      Qle_bool t now && (0 <=? amt)%Z &&
      match lookup tok (tokens (sch b)) with
      | Some e => match glookup tok g with
                  | Some er => Qle_bool er now && (amt =? sched_amt e)%Z
                  | None => false
                  end
      | None => true
      end
  | Cancel _ => true
  end.

Definition op_clock (t : Q) (op : bop) : Q :=
  match op with Consume _ _ now => now | Cancel _ => t end.

Fixpoint disciplined (alpha mx : Q) (b : bucket) (g : list (Z * Q)) (t : Q) (ops : list bop) : bool :=
  match ops with
  | [] => true
  | op :: r =>
      op_disciplined b g t op &&
      disciplined alpha mx (fst (bstep alpha mx b op)) (gstep g op (snd (bstep alpha mx b op)))
                  (op_clock t op) r
  end.

(** bytes granted at clock readings in [u, v] *)
Fixpoint window_bytes (u v : Q) (ops : list bop) (ds : list (option decision)) : Z :=
  match ops, ds with
  | Consume amt _ now :: r, Some Granted :: dr =>
      ((if Qle_bool u now && Qle_bool now v then amt else 0) + window_bytes u v r dr)%Z
  | _ :: r, _ :: dr => window_bytes u v r dr
  | _, _ => 0%Z
  end.

Fixpoint max_amt (ops : list bop) : Z :=
  match ops with
  | [] => 0%Z
  | Consume amt _ _ :: r => Z.max amt (max_amt r)
  | Cancel _ :: r => max_amt r
  end.

(** every request of token [tok] was granted at once *)
Fixpoint never_refused (tok : Z) (ops : list bop) (ds : list (option decision)) : bool :=
  match ops, ds with
  | Consume _ k _ :: r, Some (Refused _) :: dr => negb (Z.eqb k tok) && never_refused tok r dr
  | _ :: r, _ :: dr => never_refused tok r dr
  | _, _ => true
  end.

(** * Witness of F10: two streams sustain 1.39 x max

    max = 1000.  Stream S (token 1) asks for 1000 bytes and asks again the
    moment it is granted; stream I (token 2) asks for 390 bytes in the middle
    of each of S's waits.  Cycle k (k = 0, 1, ...):
      S consume 1000 @ k        refused, wait 1
      I consume  390 @ k + 1/2  granted by the rate test
      S consume 1000 @ k + 1    scheduled release (no rate test) *)
Fixpoint f10_cycles (n : nat) (k : Z) : list bop :=
  match n with
  | O => []
  | S n' => Consume 1000 1 (inject_Z k) :: Consume 390 2 ((2 * k + 1) # 2)
            :: Consume 1000 1 (inject_Z (k + 1)) :: f10_cycles n' (k + 1)
  end.

Definition f10_history (n : nat) : list bop := Consume 1000 1 0 :: f10_cycles n 0.

Definition f10_mx : Q := 1000.

Lemma f10_witness_100 :
  let ops := f10_history 100 in
  let ds := run_decs BW_ALPHA f10_mx bucket0 ops in
  disciplined BW_ALPHA f10_mx bucket0 [] 0 ops = true /\
  never_refused 2 ops ds = true /\
  max_amt ops = 1000%Z /\
  window_bytes 0 100 ops ds = 140000%Z /\
  (5 # 4) * f10_mx * (100 - 0) + inject_Z (4 * 1000 * 2) < inject_Z (window_bytes 0 100 ops ds).
Proof. vm_compute. repeat split. Qed.

(** the F10 witness in the form props/C13.v states *)
Lemma rate_125_witness : exists mx ops u v,
  0 < mx /\ u <= v /\
  disciplined BW_ALPHA mx bucket0 [] 0 ops = true /\
  never_refused 2 ops (run_decs BW_ALPHA mx bucket0 ops) = true /\
  (5 # 4) * mx * (v - u) + inject_Z (4 * max_amt ops * 2) <
    inject_Z (window_bytes u v ops (run_decs BW_ALPHA mx bucket0 ops)).
Proof.
  exists f10_mx, (f10_history 100), 0, 100.
  destruct f10_witness_100 as (H1 & H2 & H3 & _ & H5).
  split; [reflexivity|]. split; [discriminate|]. split; [exact H1|]. split; [exact H2|].
  replace (max_amt (f10_history 100)) with 1000%Z by (symmetry; exact H3). exact H5.
Qed.

(** * Witness of F11: one scheduled release with time_delta = 0 poisons the rate *)
Definition f11_mx : Q := 1000.
Definition f11_prefix : list bop :=
  [Consume 100 1 0; Consume 100 1 (1 # 1000); Consume 10 2 (1001 # 1000);
   Consume 100 1 (1001 # 1000)].

Lemma f11_prefix_facts :
  disciplined BW_ALPHA f11_mx bucket0 [] 0 f11_prefix = true /\
  run_decs BW_ALPHA f11_mx bucket0 f11_prefix =
    [Some Granted; Some (Refused (1 # 10)); Some Granted; Some Granted] /\
  rate_inf (run_state BW_ALPHA f11_mx bucket0 f11_prefix) /\
  tokens (sch (run_state BW_ALPHA f11_mx bucket0 f11_prefix)) = [].
Proof. vm_compute. repeat split. now exists (1001 # 1000). Qed.

(** * Witness of F9 on the loop as it was before the repair (no cancel)

    max = 1000.  Token 9 is granted 1000 @0; stream A (token 1, 1000 bytes
    pending) is refused @0 with wait 1; A's transfer fails, its loop raises @1/2;
    at 100 the link has long been idle: stream B (token 2) is granted 1000 and
    asks again at the same clock reading: it is the only waiter, but is told
    to wait 2 s, and so is every later refused request. *)
Definition leak_run (iter : Q -> Q -> bool -> Q -> stream -> bucket -> stream * bucket * iter_result)
  : iter_result * decision * list Z :=
  let mx : Q := 1000 in
  let b1 := fst (consume_with BW_ALPHA mx 1000 9 0 bucket0) in
  let a := mkStream true 1000 1 in
  let '(a2, b2, r2) := iter BW_ALPHA mx false 0 a b1 in
  let '(a3, b3, r3) := iter BW_ALPHA mx true (1 # 2) a2 b2 in
  let b4 := fst (consume_with BW_ALPHA mx 1000 2 100 b3) in
  let '(b5, d5) := consume_with BW_ALPHA mx 1000 2 100 b4 in
  (r3, d5, map fst (tokens (sch b5))).

Lemma leak_witness :
  leak_run loop_iter_nocancel = (IRaise, Refused 2, [2; 1]%Z) /\
  leak_run loop_iter = (IRaise, Refused 1, [2]%Z).
Proof. vm_compute. split; reflexivity. Qed.

Lemma run_state_app alpha mx ops1 ops2 : forall b,
  run_state alpha mx b (ops1 ++ ops2) = run_state alpha mx (run_state alpha mx b ops1) ops2.
Proof. induction ops1 as [|o ops1 IH]; intros b; cbn [run_state app]; [reflexivity|apply IH]. Qed.

(** * The source's alpha: 1/alpha is the 1.25 of the statement *)

Lemma immediate_grant_bound_src mx b amt tok now lt b' :
  0 < mx -> Inv mx b ->
  is_scheduled tok (sch b) = false -> last_time (trk b) = Some lt ->
  consume mx amt tok now b = (b', Granted) ->
  lt < now /\ inject_Z amt <= (5 # 4) * mx * (now - lt).
Proof.
  intros Hm Hi Hs Hl Hc. destruct alpha_range as [A0 A1].
  destruct (immediate_grant_bound_gen BW_ALPHA mx b amt tok now lt b' A0 (Qlt_le_weak _ _ A1) Hm
              (proj2 Hi) Hs Hl Hc) as [H1 H2].
  split; [exact H1|]. eapply Qle_trans; [exact H2|].
  rewrite inv_alpha_is_5_4. apply Qle_refl.
Qed.

Lemma immediate_segment_src mx b seg t0 :
  0 < mx -> Inv mx b -> Forall op_ok seg -> last_time (trk b) = Some t0 ->
  only_immediate BW_ALPHA mx b seg ->
  exists t1, last_time (trk (run_state BW_ALPHA mx b seg)) = Some t1 /\ t0 <= t1 /\
    inject_Z (granted_bytes seg (run_decs BW_ALPHA mx b seg)) <= (5 # 4) * mx * (t1 - t0).
Proof.
  intros Hm Hi Hok Hl Him. destruct alpha_range as [A0 A1].
  destruct (immediate_segment BW_ALPHA mx A0 (Qlt_le_weak _ _ A1) Hm seg b t0 Hok Hi Hl Him)
    as (t1 & H1 & H2 & H3).
  exists t1. split; [exact H1|]. split; [exact H2|]. eapply Qle_trans; [exact H3|].
  rewrite inv_alpha_is_5_4. apply Qle_refl.
Qed.

(** executable form of [under_limit], for examples *)
Fixpoint under_limit_b (alpha mx : Q) (b : bucket) (ops : list bop) : bool :=
  match ops with
  | [] => true
  | op :: r =>
      match op with
      | Consume amt _ now =>
          (0 <=? amt)%Z &&
          match last_time (trk b) with
          | None => true
          | Some lt => negb (Qle_bool now lt) && Qle_bool (inject_Z amt) (mx * (now - lt))
          end
      | Cancel _ => true
      end && under_limit_b alpha mx (fst (bstep alpha mx b op)) r
  end.

Lemma under_limit_b_sound alpha mx ops : forall b,
  under_limit_b alpha mx b ops = true -> under_limit alpha mx b ops.
Proof.
  induction ops as [|op ops IH]; intros b H; cbn [under_limit_b under_limit] in *; [exact I|].
  apply andb_prop in H as [H1 H2]. split; [|now apply IH].
  destruct op as [amt tok now|tok]; [|exact I].
  apply andb_prop in H1 as [Ha Hl]. split; [now apply Z.leb_le|].
  intros lt El. rewrite El in Hl. apply andb_prop in Hl as [Hl1 Hl2].
  apply negb_true_iff in Hl1. split; [now apply Qle_bool_false|now apply Qle_bool_true].
Qed.

(** * [scheduled_window]: scheduled releases in a window [u, v] *)

(** seconds' worth (amount / max) of the scheduled release performed by [op],
    if it is one and its clock reading lies in [u, v] *)
Definition rel_secs (mx u v : Q) (b : bucket) (op : bop) : Q :=
  match op with
  | Consume amt tok now =>
      if is_scheduled tok (sch b) && Qle_bool u now && Qle_bool now v
      then inject_Z amt / mx else 0
  | Cancel _ => 0
  end.

Fixpoint released_secs (alpha mx u v : Q) (b : bucket) (ops : list bop) : Q :=
  match ops with
  | [] => 0
  | op :: r => rel_secs mx u v b op + released_secs alpha mx u v (fst (bstep alpha mx b op)) r
  end.

Definition rel_bytes (u v : Q) (b : bucket) (op : bop) : Z :=
  match op with
  | Consume amt tok now =>
      if is_scheduled tok (sch b) && Qle_bool u now && Qle_bool now v then amt else 0%Z
  | Cancel _ => 0%Z
  end.

(** bytes of scheduled releases at clock readings in [u, v] *)
Fixpoint released_bytes (alpha mx u v : Q) (b : bucket) (ops : list bop) : Z :=
  match ops with
  | [] => 0%Z
  | op :: r => (rel_bytes u v b op + released_bytes alpha mx u v (fst (bstep alpha mx b op)) r)%Z
  end.

(** at every point of the history the amounts scheduled sum to at most [B] *)
Fixpoint outstanding_le (alpha mx : Q) (B : Z) (b : bucket) (ops : list bop) : Prop :=
  (sum_amt (tokens (sch b)) <= B)%Z /\
  match ops with
  | [] => True
  | op :: r => outstanding_le alpha mx B (fst (bstep alpha mx b op)) r
  end.

Lemma released_secs_bytes alpha mx u v ops : 0 < mx -> forall b,
  released_secs alpha mx u v b ops == inject_Z (released_bytes alpha mx u v b ops) / mx.
Proof.
  intros Hm. induction ops as [|op ops IH]; intros b; cbn [released_secs released_bytes].
  - unfold Qdiv. now rewrite Qmult_0_l.
  - rewrite IH, inject_Z_plus. unfold rel_secs, rel_bytes. destruct op as [amt tok now|tok].
    + destruct (is_scheduled tok (sch b) && Qle_bool u now && Qle_bool now v); field; lra.
    + field; lra.
Qed.

(** the ghost list runs parallel to the scheduled tokens (newest first); for
    every scheduled token: the seconds released so far plus the seconds of
    the token and of everything scheduled before it fit between [u] and any
    time from which the token may come back *)
Fixpoint suffix_inv (R t u Bt : Q) (l : list (Z * entry)) (g : list (Z * Q)) : Prop :=
  match l, g with
  | [], [] => True
  | (k, e) :: l', (k', er) :: g' =>
      k = k' /\
      (forall tau, t <= tau -> u <= tau -> er <= tau ->
                   R + (time_to_consume e + sum_ttc l') <= (tau - u) + Bt) /\
      suffix_inv R t u Bt l' g'
  | _, _ => False
  end.

Definition ttc_nonneg (l : list (Z * entry)) : Prop :=
  Forall (fun p => 0 <= time_to_consume (snd p)) l.

Lemma entry_ok_ttc_nonneg mx l : 0 < mx -> Forall (entry_ok mx) l -> ttc_nonneg l.
Proof.
  intros Hm H. unfold ttc_nonneg. eapply Forall_impl; [|exact H].
  intros [k e] [He Ha]. cbn [snd] in *. rewrite He. now apply div_nonneg.
Qed.

Lemma ttc_nonneg_sum l : ttc_nonneg l -> 0 <= sum_ttc l.
Proof.
  induction 1 as [|[k e] l H HF IH]; cbn [sum_ttc]; [apply Qle_refl|]. cbn [snd] in H. lra.
Qed.

Lemma suffix_keys R t u Bt l : forall g, suffix_inv R t u Bt l g -> map fst g = keys l.
Proof.
  induction l as [|[k e] l IH]; intros [|[k' er] g]; cbn [suffix_inv keys map fst]; try tauto.
  intros (-> & _ & H). f_equal. now apply IH.
Qed.

Lemma glookup_none_notin tok g : ~ In tok (map fst g) -> glookup tok g = None /\ gremove tok g = g.
Proof.
  induction g as [|[k t] g IH]; cbn [glookup gremove map fst In]; [tauto|].
  intros H. destruct (Z.eqb_spec k tok); [tauto|]. destruct IH as [-> ->]; tauto.
Qed.

Lemma suffix_weaken R R' t t' u Bt l : ttc_nonneg l -> t <= t' ->
  (R' == R \/ forall tau, t' <= tau -> u <= tau -> R' + sum_ttc l <= (tau - u) + Bt) ->
  forall g, suffix_inv R t u Bt l g -> suffix_inv R' t' u Bt l g.
Proof.
  intros Hnn Ht. induction Hnn as [|[k e] l Hk Hnn IH]; intros Hor [|[k' er] g];
    cbn [suffix_inv sum_ttc] in *; try tauto.
  intros (-> & Hc & Hs). split; [reflexivity|]. cbn [snd] in Hk.
  pose proof (ttc_nonneg_sum l Hnn) as Hl. split.
  - intros tau H1 H2 H3. destruct Hor as [E|Hb].
    + rewrite E. apply Hc; lra.
    + apply Hb; assumption.
  - apply IH; [|exact Hs]. destruct Hor as [E|Hb]; [now left|right].
    intros tau H1 H2. specialize (Hb tau H1 H2). lra.
Qed.

Lemma suffix_lookup R t u Bt tok l : ttc_nonneg l -> forall g e,
  suffix_inv R t u Bt l g -> lookup tok l = Some e ->
  exists er, glookup tok g = Some er /\
    forall tau, t <= tau -> u <= tau -> er <= tau -> R + time_to_consume e <= (tau - u) + Bt.
Proof.
  induction 1 as [|[k e0] l Hk Hnn IH]; intros [|[k' er] g] e; cbn [suffix_inv lookup glookup];
    try tauto; try discriminate.
  intros (<- & Hc & Hs). cbn [snd] in Hk. destruct (Z.eqb_spec k tok) as [->|Hne].
  - intros [= <-]. exists er. split; [reflexivity|]. intros tau H1 H2 H3.
    specialize (Hc tau H1 H2 H3). pose proof (ttc_nonneg_sum l Hnn). lra.
  - intros El. now apply IH.
Qed.

Lemma ttc_nonneg_remove tok l : ttc_nonneg l -> ttc_nonneg (remove_tok tok l).
Proof. apply forall_remove. Qed.

Lemma suffix_remove R R' t t' u Bt tok l : NoDup (keys l) -> ttc_nonneg l -> t <= t' -> R <= R' ->
  forall g, suffix_inv R t u Bt l g ->
  match lookup tok l with
  | Some e => R' <= R + time_to_consume e /\
              (R' == R \/ exists er, glookup tok g = Some er /\ er <= t')
  | None => R' == R
  end ->
  suffix_inv R' t' u Bt (remove_tok tok l) (gremove tok g).
Proof.
  intros Hnd Hnn Ht HR. induction l as [|[k e0] l IH]; intros [|[k' er0] g];
    cbn [suffix_inv lookup remove_tok gremove glookup]; try tauto.
  intros (<- & Hc & Hs). cbn [keys map fst] in Hnd. fold (keys l) in Hnd.
  inversion Hnd as [|? ? Hnin Hnd']; subst. inversion Hnn as [|? ? Hk Hnn']; subst. cbn [snd] in Hk.
  pose proof (suffix_keys _ _ _ _ _ _ Hs) as Hkeys.
  destruct (Z.eqb_spec k tok) as [->|Hne].
  - intros [Hle Hor].
    rewrite (remove_notin tok l) by now apply lookup_none_notin.
    assert (Hg : ~ In tok (map fst g)) by now rewrite Hkeys.
    rewrite (proj2 (glookup_none_notin tok g Hg)).
    apply (suffix_weaken R R' t t' u Bt l Hnn' Ht); [|exact Hs].
    destruct Hor as [E|(er & [= <-] & Her)]; [now left|right].
    intros tau H1 H2. specialize (Hc tau ltac:(lra) H2 ltac:(lra)). lra.
  - intros Hm. cbn [suffix_inv]. split; [reflexivity|]. split.
    + intros tau H1 H2 H3. specialize (Hc tau ltac:(lra) H2 H3).
      destruct (lookup tok l) as [e|] eqn:El.
      * rewrite (sum_ttc_remove tok l e Hnd' El) in Hc. destruct Hm as [Hle _]. lra.
      * rewrite (remove_notin tok l El). lra.
    + apply IH; assumption.
Qed.

Record win_inv (mx u v Bt R t : Q) (b : bucket) (g : list (Z * Q)) : Prop := {
  wi_inv : Inv mx b;
  wi_main : forall tau, t <= tau -> u <= tau -> R <= (tau - u) + Bt;
  wi_zero : t < u -> R == 0;
  wi_v : R <= (v - u) + Bt;
  wi_suf : suffix_inv R t u Bt (tokens (sch b)) g
}.

Lemma rel_secs_unscheduled mx u v b amt tok now :
  is_scheduled tok (sch b) = false -> rel_secs mx u v b (Consume amt tok now) = 0.
Proof. intros H. unfold rel_secs. now rewrite H. Qed.

Lemma win_step alpha mx u v B R t b g op :
  0 <= alpha -> alpha <= 1 -> 0 < mx -> u <= v ->
  win_inv mx u v (inject_Z B / mx) R t b g ->
  op_disciplined b g t op = true ->
  (sum_amt (tokens (sch (fst (bstep alpha mx b op)))) <= B)%Z ->
  win_inv mx u v (inject_Z B / mx) (R + rel_secs mx u v b op) (op_clock t op)
          (fst (bstep alpha mx b op)) (gstep g op (snd (bstep alpha mx b op))).
Proof.
  intros A0 A1 Hm Huv [Hi Hmain Hzero Hv Hsuf] Hd HB. set (Bt := inject_Z B / mx) in *.
  assert (Hok : op_ok op).
  { destruct op as [amt tok now|tok]; cbn [op_ok]; [|exact I].
    cbn [op_disciplined] in Hd. apply andb_prop in Hd as [Hd _]. apply andb_prop in Hd as [_ Hd].
    now apply Z.leb_le. }
  pose proof (bstep_inv alpha mx b op A0 A1 Hm Hok Hi) as Hi'.
  pose proof (wait_formula_state mx _ Hm Hi') as Hw'.
  assert (HBt : total_wait (sch (fst (bstep alpha mx b op))) <= Bt).
  { rewrite Hw'. unfold Bt. apply Qmult_le_compat_r; [now rewrite <- Zle_Qle|].
    apply Qlt_le_weak, Qinv_lt_0_compat, Hm. }
  destruct Hi as [[Hnd Hwait Hoks] Hrate].
  pose proof (entry_ok_ttc_nonneg mx _ Hm Hoks) as Hnn.
  pose proof (suffix_keys _ _ _ _ _ _ Hsuf) as Hkeys.
  destruct op as [amt tok now|tok]; cbn [op_clock op_disciplined] in *.
  - apply andb_prop in Hd as [Hd Hd3]. apply andb_prop in Hd as [Hd1 Hd2].
    apply Qle_bool_true in Hd1. apply Z.leb_le in Hd2.
    cbn [bstep] in *. unfold consume_with in *.
    destruct (is_scheduled tok (sch b)) eqn:Es.
    + (* scheduled release *)
      destruct (proj1 (is_scheduled_lookup _ _) Es) as [e El]. rewrite El in Hd3.
      destruct (suffix_lookup R t u Bt tok _ Hnn g e Hsuf El) as (er & Eg & Hown).
      rewrite Eg in Hd3. apply andb_prop in Hd3 as [Her Hamt].
      apply Qle_bool_true in Her. apply Z.eqb_eq in Hamt. subst amt.
      destruct (forall_lookup _ _ _ _ Hoks El) as [k0 [Hte _]]. cbn [snd] in Hte.
      destruct (process_spec mx (sch b) tok e Hm (Build_sched_inv _ _ Hnd Hwait Hoks) El)
        as (_ & Htok & _).
      cbn [fst snd sch gstep] in *.
      set (d := rel_secs mx u v b (Consume (sched_amt e) tok now)).
      assert (Hd0 : 0 <= d /\ d <= time_to_consume e /\
                    (now < u -> d == 0) /\ (~ d == 0 -> u <= now /\ now <= v)).
      { unfold d, rel_secs. rewrite Es. cbn [andb].
        pose proof (div_nonneg (sched_amt e) mx Hm Hd2) as Hdn.
        destruct (Qle_bool u now) eqn:E1; cbn [andb].
        - apply Qle_bool_true in E1. destruct (Qle_bool now v) eqn:E2.
          + apply Qle_bool_true in E2. rewrite Hte. repeat split; try lra; try (intros; lra).
          + rewrite Hte. repeat split; try lra; try (intros H; now elim H).
        - apply Qle_bool_false in E1. rewrite Hte. repeat split; try lra; try (intros H; now elim H). }
      destruct Hd0 as (D0 & D1 & D2 & D3).
      assert (Hmain' : forall tau, now <= tau -> u <= tau -> R + d <= tau - u + Bt).
      { intros tau H1 H2. specialize (Hown tau ltac:(lra) H2 ltac:(lra)). lra. }
      split; [exact Hi'|exact Hmain'| | |].
      * intros Hlt. rewrite (D2 Hlt), (Hzero ltac:(lra)). ring.
      * destruct (Qeq_dec d 0) as [E|E]; [rewrite E; lra|].
        destruct (D3 E) as [H1 H2]. specialize (Hmain' now ltac:(lra) H1). lra.
      * cbn [sch]. rewrite Htok.
        apply (suffix_remove R (R + d) t now u Bt tok _ Hnd Hnn Hd1 ltac:(lra) g Hsuf).
        rewrite El. split; [lra|]. right. exists er. now split.
    + (* decided by the rate test *)
      pose proof (proj2 (is_scheduled_lookup _ _) Es) as El. clear Hd3.
      assert (Hg : ~ In tok (map fst g)) by (rewrite Hkeys; now apply lookup_none_notin).
      rewrite (rel_secs_unscheduled mx u v b amt tok now Es).
      assert (HR : R + 0 == R) by ring.
      destruct (exceeds mx (projected_rate alpha (trk b) amt now)).
      * (* refused: scheduled now *)
        unfold schedule_consumption in *. cbn [fst snd sch tokens total_wait gstep] in *.
        rewrite (remove_notin _ _ El) in *.
        set (w := Qred (total_wait (sch b) + Qred (inject_Z amt / mx))) in *.
        assert (Ew : w == sum_ttc (tokens (sch b)) + Qred (inject_Z amt / mx)).
        { unfold w. rewrite Qred_correct, Hwait. reflexivity. }
        split; [exact Hi'| | | |].
        -- intros tau H1 H2. rewrite HR. apply Hmain; lra.
        -- intros Hlt. rewrite HR. apply Hzero. lra.
        -- now rewrite HR.
        -- cbn [suffix_inv time_to_consume]. split; [reflexivity|]. split.
           ++ intros tau H1 H2 H3. rewrite HR. unfold time_to_consume at 1.
              destruct (Qlt_le_dec now u) as [Hlt|Hge].
              ** rewrite (Hzero ltac:(lra)). lra.
              ** specialize (Hmain now Hd1 Hge). lra.
           ++ apply (suffix_weaken R (R + 0) t now u Bt _ Hnn Hd1); [now left|exact Hsuf].
      * (* granted at once *)
        cbn [fst snd sch gstep] in *. rewrite (proj2 (glookup_none_notin tok g Hg)).
        split; [exact Hi'| | | |].
        -- intros tau H1 H2. rewrite HR. apply Hmain; lra.
        -- intros Hlt. rewrite HR. apply Hzero. lra.
        -- now rewrite HR.
        -- apply (suffix_weaken R (R + 0) t now u Bt _ Hnn Hd1); [now left|exact Hsuf].
  - (* cancel *)
    cbn [bstep fst snd rel_secs gstep] in *. assert (HR : R + 0 == R) by ring.
    split; [exact Hi'| | | |].
    + intros tau H1 H2. rewrite HR. now apply Hmain.
    + intros Hlt. rewrite HR. now apply Hzero.
    + now rewrite HR.
    + unfold cancel. destruct (is_scheduled tok (sch b)) eqn:Es.
      * destruct (proj1 (is_scheduled_lookup _ _) Es) as [e El].
        destruct (process_spec mx (sch b) tok e Hm (Build_sched_inv _ _ Hnd Hwait Hoks) El)
          as (_ & Htok & _).
        cbn [sch]. rewrite Htok.
        apply (suffix_remove R (R + 0) t t u Bt tok _ Hnd Hnn (Qle_refl t) ltac:(lra) g Hsuf).
        rewrite El. pose proof (forall_lookup _ _ _ _ Hnn El) as [k0 Hk0]. cbn [snd] in Hk0.
        split; [lra|now left].
      * pose proof (proj2 (is_scheduled_lookup _ _) Es) as El.
        assert (Hg : ~ In tok (map fst g)) by (rewrite Hkeys; now apply lookup_none_notin).
        rewrite (proj2 (glookup_none_notin tok g Hg)).
        apply (suffix_weaken R (R + 0) t t u Bt _ Hnn (Qle_refl t)); [now left|exact Hsuf].
Qed.

Lemma win_run alpha mx u v B : 0 <= alpha -> alpha <= 1 -> 0 < mx -> u <= v ->
  forall ops R t b g, win_inv mx u v (inject_Z B / mx) R t b g ->
  disciplined alpha mx b g t ops = true -> outstanding_le alpha mx B b ops ->
  R + released_secs alpha mx u v b ops <= (v - u) + inject_Z B / mx.
Proof.
  intros A0 A1 Hm Huv. induction ops as [|op ops IH]; intros R t b g Hw Hd Ho;
    cbn [disciplined released_secs outstanding_le] in *.
  - rewrite Qplus_0_r. now destruct Hw.
  - apply andb_prop in Hd as [Hd1 Hd2]. destruct Ho as [_ Ho].
    rewrite Qplus_assoc. apply (IH _ _ _ _ (win_step alpha mx u v B R t b g op A0 A1 Hm Huv Hw Hd1
                                    ltac:(destruct ops; apply Ho)) Hd2 Ho).
Qed.

(** In any window [u, v] the scheduled releases of a disciplined history move
    at most max (v - u) bytes plus [B], a bound on the bytes scheduled at any
    one time. *)
Lemma scheduled_window_gen alpha mx B ops u v t0 :
  0 <= alpha -> alpha <= 1 -> 0 < mx -> u <= v ->
  disciplined alpha mx bucket0 [] t0 ops = true -> outstanding_le alpha mx B bucket0 ops ->
  inject_Z (released_bytes alpha mx u v bucket0 ops) <= mx * (v - u) + inject_Z B.
Proof.
  intros A0 A1 Hm Huv Hd Ho.
  assert (HB : (0 <= B)%Z) by (destruct ops; apply Ho).
  assert (HBt : 0 <= inject_Z B / mx) by now apply div_nonneg.
  assert (Hw : win_inv mx u v (inject_Z B / mx) 0 t0 bucket0 []).
  { split; [apply bucket0_inv| | | |exact I].
    - intros tau _ H. lra.
    - intros _. reflexivity.
    - lra. }
  pose proof (win_run alpha mx u v B A0 A1 Hm Huv ops 0 t0 bucket0 [] Hw Hd Ho) as H.
  rewrite Qplus_0_l, (released_secs_bytes alpha mx u v ops Hm) in H.
  set (x := inject_Z (released_bytes alpha mx u v bucket0 ops)) in *.
  setoid_replace x with (mx * (x / mx)) by (field; lra).
  setoid_replace (mx * (v - u) + inject_Z B) with (mx * (v - u + inject_Z B / mx)) by (field; lra).
  apply Qmult_le_l; assumption.
Qed.

(** [B] in terms of streams: if the history uses at most the tokens [toks]
    and no request exceeds [amax], at most [length toks * amax] bytes are
    ever scheduled at one time. *)
Definition op_within (toks : list Z) (amax : Z) (op : bop) : Prop :=
  In (op_tok op) toks /\ match op with Consume amt _ _ => (0 <= amt <= amax)%Z | Cancel _ => True end.

Definition entries_within (toks : list Z) (amax : Z) (l : list (Z * entry)) : Prop :=
  Forall (fun p => In (fst p) toks /\ (sched_amt (snd p) <= amax)%Z) l.

Lemma sum_amt_le_len toks amax l : (0 <= amax)%Z -> entries_within toks amax l ->
  (sum_amt l <= Z.of_nat (length l) * amax)%Z.
Proof.
  intros Ha. induction 1 as [|[k e] l [_ H] HF IH]; cbn [sum_amt length]; [lia|].
  cbn [snd] in H. lia.
Qed.

Lemma entries_within_bound toks amax l : (0 <= amax)%Z -> NoDup (keys l) ->
  entries_within toks amax l -> (sum_amt l <= Z.of_nat (length toks) * amax)%Z.
Proof.
  intros Ha Hnd Hw. pose proof (sum_amt_le_len toks amax l Ha Hw) as H.
  assert (Hl : (length l <= length toks)%nat).
  { rewrite <- (map_length fst l). apply NoDup_incl_length; [exact Hnd|].
    intros k Hk. apply in_map_iff in Hk as ([k' e] & <- & Hin).
    unfold entries_within in Hw. rewrite Forall_forall in Hw. now destruct (Hw _ Hin). }
  nia.
Qed.

Lemma bstep_entries_within alpha mx toks amax b op : op_within toks amax op ->
  entries_within toks amax (tokens (sch b)) ->
  entries_within toks amax (tokens (sch (fst (bstep alpha mx b op)))).
Proof.
  intros [Hin Hop] Hw. destruct op as [amt tok now|tok]; cbn [bstep op_tok] in *.
  - unfold consume_with. destruct (is_scheduled tok (sch b)); cbn [fst sch].
    + unfold process_scheduled_consumption. destruct (lookup tok (tokens (sch b))); [|exact Hw].
      cbn [tokens]. now apply forall_remove.
    + destruct (exceeds mx _); [|exact Hw]. unfold schedule_consumption. cbn [fst sch tokens].
      constructor; [cbn [fst snd sched_amt]; split; [exact Hin|lia]|now apply forall_remove].
  - cbn [fst]. unfold cancel. destruct (is_scheduled tok (sch b)); [|exact Hw]. cbn [sch].
    unfold process_scheduled_consumption. destruct (lookup tok (tokens (sch b))); [|exact Hw].
    cbn [tokens]. now apply forall_remove.
Qed.

Lemma op_within_ok toks amax op : op_within toks amax op -> op_ok op.
Proof. intros [_ H]. destruct op; cbn [op_ok]; [lia|exact I]. Qed.

Lemma outstanding_le_streams alpha mx toks amax :
  0 <= alpha -> alpha <= 1 -> 0 < mx -> (0 <= amax)%Z ->
  forall ops b, Inv mx b -> entries_within toks amax (tokens (sch b)) ->
  Forall (op_within toks amax) ops ->
  outstanding_le alpha mx (Z.of_nat (length toks) * amax) b ops.
Proof.
  intros A0 A1 Hm Ha. induction ops as [|op ops IH]; intros b Hi Hw Hops; cbn [outstanding_le].
  - split; [|exact I]. apply entries_within_bound; [exact Ha|apply Hi|exact Hw].
  - inversion Hops as [|? ? Hop Hops']; subst.
    split; [apply entries_within_bound; [exact Ha|apply Hi|exact Hw]|].
    apply IH; [|now apply bstep_entries_within|exact Hops'].
    apply bstep_inv; try assumption. now apply (op_within_ok toks amax).
Qed.

Lemma scheduled_window_streams alpha mx toks amax ops u v t0 :
  0 <= alpha -> alpha <= 1 -> 0 < mx -> u <= v -> (0 <= amax)%Z ->
  disciplined alpha mx bucket0 [] t0 ops = true -> Forall (op_within toks amax) ops ->
  inject_Z (released_bytes alpha mx u v bucket0 ops) <=
  mx * (v - u) + inject_Z (Z.of_nat (length toks) * amax).
Proof.
  intros A0 A1 Hm Huv Ha Hd Hops. apply (scheduled_window_gen alpha mx _ ops u v t0); try assumption.
  apply (outstanding_le_streams alpha mx toks amax A0 A1 Hm Ha); [apply bucket0_inv|constructor|exact Hops].
Qed.

(** * Immediate grants in mixed segments

    Also when scheduled releases are interleaved, the grants decided by the
    rate test carry at most (1/alpha) max (t1 - t0) bytes between the last
    grant before the segment ([t0]) and the last grant in it ([t1]), provided
    clock readings do not decrease. *)
Fixpoint clocks_from (t : Q) (ops : list bop) : Prop :=
  match ops with
  | [] => True
  | op :: r => t <= op_clock t op /\ clocks_from (op_clock t op) r
  end.

Fixpoint immediate_bytes (alpha mx : Q) (b : bucket) (ops : list bop) : Z :=
  match ops with
  | [] => 0%Z
  | op :: r =>
      (match op with
       | Consume amt tok _ =>
           if is_scheduled tok (sch b) then 0
           else match snd (bstep alpha mx b op) with Some Granted => amt | _ => 0 end
       | Cancel _ => 0
       end + immediate_bytes alpha mx (fst (bstep alpha mx b op)) r)%Z
  end.

Lemma immediate_bytes_mixed alpha mx : 0 < alpha -> alpha <= 1 -> 0 < mx ->
  forall seg b t0 t, Forall op_ok seg -> Inv mx b -> last_time (trk b) = Some t0 -> t0 <= t ->
  clocks_from t seg ->
  exists t1, last_time (trk (run_state alpha mx b seg)) = Some t1 /\ t0 <= t1 /\
    inject_Z (immediate_bytes alpha mx b seg) <= / alpha * mx * (t1 - t0).
Proof.
  intros Ha0 Ha1 Hm. set (K := / alpha * mx).
  assert (HK : 0 <= K).
  { unfold K. apply Qmult_le_0_compat; [apply Qlt_le_weak, Qinv_lt_0_compat, Ha0|lra]. }
  induction seg as [|op seg IH]; intros b t0 t Hok Hi Hl Ht Hc;
    cbn [run_state immediate_bytes clocks_from] in *.
  - exists t0. repeat split; [exact Hl|apply Qle_refl|].
    setoid_replace (K * (t0 - t0)) with 0 by ring. apply Qle_refl.
  - inversion Hok as [|? ? Hop Hok']; subst. destruct Hc as [Hc1 Hc].
    pose proof (bstep_inv alpha mx b op ltac:(lra) Ha1 Hm Hop Hi) as Hi'.
    destruct op as [amt tok now|tok]; cbn [bstep op_clock] in *.
    + pose proof (consume_tracker alpha mx amt tok now b) as Htr.
      pose proof (immediate_grant_bound_gen alpha mx b amt tok now t0) as Hb.
      destruct (is_scheduled tok (sch b)) eqn:Es.
      * (* scheduled release: moves the last grant time forward *)
        pose proof (scheduled_granted alpha mx b amt tok now Es) as Hg.
        destruct (consume_with alpha mx amt tok now b) as [b' d]. cbn [fst snd] in *. subst d.
        assert (Hl' : last_time (trk b') = Some now) by (rewrite Htr; apply record_last_time).
        destruct (IH b' now now Hok' Hi' Hl' (Qle_refl now) Hc) as (t1 & H1 & H2 & H3).
        exists t1. split; [exact H1|]. split; [lra|].
        assert (K * (t1 - now) <= K * (t1 - t0)) by nra.
        rewrite Z.add_0_l. lra.
      * destruct (consume_with alpha mx amt tok now b) as [b' d]. cbn [fst snd] in *.
        destruct d as [|w].
        -- destruct (Hb b' Ha0 Ha1 Hm (proj2 Hi) eq_refl Hl eq_refl) as [Hlt Hamt]. fold K in Hamt.
           assert (Hl' : last_time (trk b') = Some now) by (rewrite Htr; apply record_last_time).
           destruct (IH b' now now Hok' Hi' Hl' (Qle_refl now) Hc) as (t1 & H1 & H2 & H3).
           exists t1. split; [exact H1|]. split; [lra|]. rewrite inject_Z_plus. lra.
        -- assert (Hl' : last_time (trk b') = Some t0) by now rewrite Htr.
           destruct (IH b' t0 now Hok' Hi' Hl' ltac:(lra) Hc) as (t1 & H1 & H2 & H3).
           exists t1. now repeat split.
    + cbn [fst snd] in *.
      assert (Hl' : last_time (trk (cancel tok b)) = Some t0) by now rewrite cancel_tracker.
      destruct (IH _ t0 t Hok' Hi' Hl' Ht Hc) as (t1 & H1 & H2 & H3).
      exists t1. now repeat split.
Qed.

(** * Several streams on one bucket: scheduled tokens = streams asleep in their loop *)

Definition ev_ok (ev : sev) : Prop :=
  match ev with EvRead _ amount _ _ => (0 <= amount)%Z | _ => True end.

Record sys_inv (mx : Q) (y : sys) : Prop := {
  yi_inv : Inv mx (y_bucket y);
  yi_tok : forall sid, s_tok (ss_stream (get_stream sid (y_streams y))) = sid;
  yi_seen : forall sid, (0 <= s_seen (ss_stream (get_stream sid (y_streams y))))%Z;
  yi_live : forall sid, is_scheduled sid (sch (y_bucket y)) = true <->
                        ss_pending (get_stream sid (y_streams y)) <> PNone
}.

Fixpoint sys_state (thr : Z) (alpha mx : Q) (y : sys) (evs : list sev) : sys :=
  match evs with
  | [] => y
  | ev :: r => sys_state thr alpha mx (fst (sys_step thr alpha mx y ev)) r
  end.

Lemma get_set_same sid s l : get_stream sid (set_stream sid s l) = s.
Proof.
  induction l as [|[k s0] l IH]; cbn [set_stream get_stream].
  - now rewrite Z.eqb_refl.
  - destruct (Z.eqb_spec k sid) as [->|Hne]; cbn [get_stream].
    + now rewrite Z.eqb_refl.
    + destruct (Z.eqb_spec k sid); [congruence|exact IH].
Qed.

Lemma get_set_other k sid s l : k <> sid -> get_stream k (set_stream sid s l) = get_stream k l.
Proof.
  intros Hne. induction l as [|[k0 s0] l IH]; cbn [set_stream get_stream].
  - destruct (Z.eqb_spec sid k); [congruence|reflexivity].
  - destruct (Z.eqb_spec k0 sid) as [->|Hn0]; cbn [get_stream].
    + destruct (Z.eqb_spec sid k); [congruence|reflexivity].
    + destruct (Z.eqb_spec k0 k); [reflexivity|exact IH].
Qed.

Lemma is_scheduled_ext k s1 s2 : lookup k (tokens s1) = lookup k (tokens s2) ->
  is_scheduled k s1 = is_scheduled k s2.
Proof. unfold is_scheduled. now intros ->. Qed.

Lemma granted_not_scheduled alpha mx amt tok now b b' : 0 < mx -> Inv mx b ->
  consume_with alpha mx amt tok now b = (b', Granted) -> is_scheduled tok (sch b') = false.
Proof.
  intros Hm Hi. unfold consume_with. destruct (is_scheduled tok (sch b)) eqn:Es.
  - intros [= <-]. cbn [sch]. destruct (proj1 (is_scheduled_lookup _ _) Es) as [e El].
    now destruct (process_spec mx (sch b) tok e Hm (proj1 Hi) El) as (_ & _ & H).
  - destruct (exceeds mx _).
    + destruct (schedule_consumption _ _ _ _); discriminate.
    + intros [= <-]. exact Es.
Qed.

(** replacing the record of stream [sid] and the bucket, when every other
    token's scheduling is untouched *)
Lemma sys_inv_update mx y b' sid st' p' :
  sys_inv mx y -> Inv mx b' -> s_tok st' = sid -> (0 <= s_seen st')%Z ->
  (is_scheduled sid (sch b') = true <-> p' <> PNone) ->
  (forall k, k <> sid -> lookup k (tokens (sch b')) = lookup k (tokens (sch (y_bucket y)))) ->
  sys_inv mx (mkSys b' (set_stream sid (mkS st' p') (y_streams y))).
Proof.
  intros [Hi Htok Hseen Hlive] Hi' Ht Hs Hl Hoth. split; cbn [y_bucket y_streams].
  - exact Hi'.
  - intros k. destruct (Z.eq_dec k sid) as [->|Hne].
    + now rewrite get_set_same.
    + rewrite get_set_other by exact Hne. apply Htok.
  - intros k. destruct (Z.eq_dec k sid) as [->|Hne].
    + now rewrite get_set_same.
    + rewrite get_set_other by exact Hne. apply Hseen.
  - intros k. destruct (Z.eq_dec k sid) as [->|Hne].
    + now rewrite get_set_same.
    + rewrite get_set_other by exact Hne.
      rewrite (is_scheduled_ext k (sch b') (sch (y_bucket y)) (Hoth k Hne)). apply Hlive.
Qed.

Lemma sys_iter_inv alpha mx y sid st why exc now :
  0 <= alpha -> alpha <= 1 -> 0 < mx -> sys_inv mx y ->
  s_tok st = sid -> (0 <= s_seen st)%Z -> why <> PNone ->
  sys_inv mx (fst (sys_iter alpha mx y sid st why exc now)).
Proof.
  intros A0 A1 Hm Hy Ht Hs Hwhy. pose proof (yi_inv mx y Hy) as Hi. subst sid.
  unfold sys_iter, loop_iter. destruct exc.
  - cbn [fst]. apply sys_inv_update; try assumption; try reflexivity.
    + now apply cancel_inv.
    + rewrite (cancel_not_scheduled mx (s_tok st) _ Hm Hi). split; [discriminate|tauto].
    + intros k Hne. apply (bstep_lookup_other alpha mx (y_bucket y) (Cancel (s_tok st)) k). cbn. congruence.
  - pose proof (consume_inv alpha mx (s_seen st) (s_tok st) now (y_bucket y) A0 A1 Hm Hs Hi) as Hi'.
    pose proof (bstep_lookup_other alpha mx (y_bucket y) (Consume (s_seen st) (s_tok st) now)) as Hoth.
    cbn [bstep] in Hoth.
    destruct (consume_with alpha mx (s_seen st) (s_tok st) now (y_bucket y)) as [b' [|w]] eqn:Ec;
      cbn [fst] in *.
    + apply sys_inv_update; try assumption; cbn [s_tok s_seen]; try reflexivity; try lia.
      * rewrite (granted_not_scheduled _ _ _ _ _ _ _ Hm Hi Ec). split; [discriminate|tauto].
      * intros k Hne. apply Hoth. cbn. congruence.
    + apply sys_inv_update; try assumption; try reflexivity.
      * rewrite (refused_is_scheduled _ _ _ _ _ _ _ _ Ec). tauto.
      * intros k Hne. apply Hoth. cbn. congruence.
Qed.

Lemma sys_inv_same_bucket mx y sid st' p' :
  sys_inv mx y -> s_tok st' = sid -> (0 <= s_seen st')%Z ->
  p' = ss_pending (get_stream sid (y_streams y)) ->
  sys_inv mx (mkSys (y_bucket y) (set_stream sid (mkS st' p') (y_streams y))).
Proof.
  intros Hy Ht Hs Hp. apply sys_inv_update; try assumption.
  - apply Hy.
  - subst p'. apply Hy.
  - reflexivity.
Qed.

Lemma sys_step_inv thr alpha mx y ev : 0 <= alpha -> alpha <= 1 -> 0 < mx -> ev_ok ev ->
  sys_inv mx y -> sys_inv mx (fst (sys_step thr alpha mx y ev)).
Proof.
  intros A0 A1 Hm Hev Hy. destruct ev as [sid amount exc now|sid exc now|sid exc now|sid|sid];
    cbn [sys_step ev_ok] in *.
  - pose proof (yi_tok mx y Hy sid) as Ht. pose proof (yi_seen mx y Hy sid) as Hs.
    destruct (ss_pending (get_stream sid (y_streams y))) eqn:Ep; [|exact Hy|exact Hy].
    unfold read_enter. destruct (negb (s_enabled (ss_stream (get_stream sid (y_streams y))))).
    + cbn [fst]. apply sys_inv_same_bucket; try assumption. now rewrite Ep.
    + destruct (s_seen (ss_stream (get_stream sid (y_streams y))) + amount <? thr)%Z.
      * cbn [fst]. apply sys_inv_same_bucket; cbn [s_tok s_seen]; try assumption; try lia. now rewrite Ep.
      * apply sys_iter_inv; cbn [s_tok s_seen]; try assumption; try lia. discriminate.
  - pose proof (yi_tok mx y Hy sid) as Ht. pose proof (yi_seen mx y Hy sid) as Hs.
    destruct (ss_pending (get_stream sid (y_streams y))) eqn:Ep; [exact Hy| |];
      apply sys_iter_inv; try assumption; discriminate.
  - pose proof (yi_tok mx y Hy sid) as Ht. pose proof (yi_seen mx y Hy sid) as Hs.
    destruct (ss_pending (get_stream sid (y_streams y))) eqn:Ep; [|exact Hy|exact Hy].
    destruct (close_enter (ss_stream (get_stream sid (y_streams y)))); [|exact Hy].
    apply sys_iter_inv; try assumption. discriminate.
  - cbn [fst]. apply sys_inv_same_bucket; cbn [set_enabled s_tok s_seen]; try reflexivity; apply Hy.
  - cbn [fst]. apply sys_inv_same_bucket; cbn [set_enabled s_tok s_seen]; try reflexivity; apply Hy.
Qed.

Lemma sys0_inv mx : sys_inv mx sys0.
Proof.
  split; cbn [sys0 y_bucket y_streams get_stream ss_stream ss_pending stream0 s_tok s_seen].
  - apply bucket0_inv.
  - reflexivity.
  - lia.
  - intros sid. cbn. split; [discriminate|tauto].
Qed.

Lemma sys_state_inv thr alpha mx : 0 <= alpha -> alpha <= 1 -> 0 < mx ->
  forall evs y, Forall ev_ok evs -> sys_inv mx y -> sys_inv mx (sys_state thr alpha mx y evs).
Proof.
  intros A0 A1 Hm. induction evs as [|ev evs IH]; intros y Hok Hy; cbn [sys_state]; [exact Hy|].
  inversion Hok; subst. apply IH; [assumption|]. now apply sys_step_inv.
Qed.

Lemma immediate_bytes_mixed_src mx b seg t0 t :
  0 < mx -> Inv mx b -> Forall op_ok seg -> last_time (trk b) = Some t0 -> t0 <= t ->
  clocks_from t seg ->
  exists t1, last_time (trk (run_state BW_ALPHA mx b seg)) = Some t1 /\ t0 <= t1 /\
    inject_Z (immediate_bytes BW_ALPHA mx b seg) <= (5 # 4) * mx * (t1 - t0).
Proof.
  intros Hm Hi Hok Hl Ht Hc. destruct alpha_range as [A0 A1].
  destruct (immediate_bytes_mixed BW_ALPHA mx A0 (Qlt_le_weak _ _ A1) Hm seg b t0 t Hok Hi Hl Ht Hc)
    as (t1 & H1 & H2 & H3).
  exists t1. split; [exact H1|]. split; [exact H2|]. eapply Qle_trans; [exact H3|].
  rewrite inv_alpha_is_5_4. apply Qle_refl.
Qed.
