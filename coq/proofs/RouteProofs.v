(** Lemmas about model/Route.v (property C15). *)
From Coq Require Import ZArith List Bool String Ascii Lia.
From S3V Require Import gen.Tables gen.Shapes model.Route.
Import ListNotations.
Open Scope string_scope.
Open Scope list_scope.

(** * Association lists *)

Lemma mem_In : forall a l, mem a l = true <-> In a l.
Proof.
  intros a l. unfold mem. rewrite existsb_exists. split.
  - intros (x & Hx & He). apply String.eqb_eq in He. now subst.
  - intros H. exists a. split; [exact H|apply String.eqb_refl].
Qed.

Lemma mem_false_notin : forall a l, mem a l = false <-> ~ In a l.
Proof.
  intros a l. rewrite <- mem_In. destruct (mem a l); split; intros; easy.
Qed.

Lemma mem_app : forall a l l', mem a (l ++ l') = mem a l || mem a l'.
Proof. intros. unfold mem. apply existsb_app. Qed.

Lemma assoc_app : forall (V : Type) t (a b : list (string * V)),
  assoc t (a ++ b) = match assoc t a with Some v => Some v | None => assoc t b end.
Proof.
  intros V t a b. induction a as [|[k v] a IH]; cbn [assoc app]; [reflexivity|].
  destruct (String.eqb k t); [reflexivity|exact IH].
Qed.

Lemma assoc_S_ : forall t names, assoc t (S_ names) = if mem t names then Some P else None.
Proof.
  intros t names. induction names as [|k names IH]; cbn; [reflexivity|].
  rewrite (String.eqb_sym t k). destruct (String.eqb k t); cbn; [reflexivity|exact IH].
Qed.

Lemma assoc_inject : forall t d, assoc t (inject d) = option_map U (assoc t d).
Proof.
  intros t d. induction d as [|[k v] d IH]; cbn; [reflexivity|].
  destruct (String.eqb k t); [reflexivity|exact IH].
Qed.

Lemma keys_inject : forall d, keys (inject d) = keys d.
Proof. intros d. unfold keys, inject. rewrite map_map. reflexivity. Qed.

Lemma assoc_filter : forall (V : Type) (p : string -> bool) t (e : list (string * V)),
  assoc t (filter (fun kv => p (fst kv)) e) = if p t then assoc t e else None.
Proof.
  intros V p t e. induction e as [|[k v] e IH]; cbn [filter assoc fst].
  - destruct (p t); reflexivity.
  - destruct (String.eqb_spec k t) as [->|Hne].
    + destruct (p t) eqn:Hp; cbn [assoc].
      * now rewrite String.eqb_refl.
      * exact IH.
    + destruct (p k); cbn [assoc]; [|exact IH].
      destruct (String.eqb_spec k t); [contradiction|exact IH].
Qed.

Lemma assoc_dset : forall (V : Type) k (v : V) t e,
  assoc t (dset k v e) = if String.eqb k t then Some v else assoc t e.
Proof.
  intros V k v t e. induction e as [|[k' v'] e IH]; cbn [dset assoc].
  - destruct (String.eqb k t); reflexivity.
  - destruct (String.eqb_spec k' k) as [->|Hne]; cbn [assoc].
    + destruct (String.eqb k t); reflexivity.
    + destruct (String.eqb_spec k' t) as [->|Hne'].
      * destruct (String.eqb_spec k t); [congruence|reflexivity].
      * exact IH.
Qed.

Lemma has_dset : forall (V : Type) k (v : V) c e,
  has c (dset k v e) = String.eqb k c || has c e.
Proof. intros. unfold has. rewrite assoc_dset. destruct (String.eqb k c); reflexivity. Qed.

Lemma assoc_notin : forall (V : Type) t (e : list (string * V)), ~ In t (keys e) -> assoc t e = None.
Proof.
  intros V t e. induction e as [|[k v] e IH]; cbn; [reflexivity|]. intros H.
  destruct (String.eqb_spec k t) as [->|_]; [exfalso; auto|]. apply IH. intros Hi; auto.
Qed.

Lemma assoc_In : forall (V : Type) t (v : V) e, assoc t e = Some v -> In (t, v) e.
Proof.
  intros V t v e. induction e as [|[k w] e IH]; cbn; [discriminate|].
  destruct (String.eqb_spec k t) as [->|_].
  - intros [= ->]. now left.
  - intros H. right. auto.
Qed.

Lemma In_assoc_some : forall (V : Type) t (v : V) e, In (t, v) e -> exists w, assoc t e = Some w.
Proof.
  intros V t v e. induction e as [|[k w] e IH]; cbn; [easy|].
  intros [[= -> ->]|H].
  - rewrite String.eqb_refl. eauto.
  - destruct (String.eqb k t); eauto.
Qed.

Lemma In_assoc_nodup : forall (V : Type) t (v : V) e,
  NoDup (keys e) -> In (t, v) e -> assoc t e = Some v.
Proof.
  intros V t v e. induction e as [|[k w] e IH]; cbn; [easy|].
  intros Hn [[= -> ->]|H].
  - now rewrite String.eqb_refl.
  - inversion Hn as [|? ? Hk Hn']; subst.
    destruct (String.eqb_spec k t) as [->|_].
    + exfalso. apply Hk. change (In (fst (t, v)) (map fst e)). now apply in_map.
    + auto.
Qed.

Lemma assoc_update : forall (V : Type) t (b a : list (string * V)),
  NoDup (keys b) ->
  assoc t (update a b) = match assoc t b with Some v => Some v | None => assoc t a end.
Proof.
  intros V t b. unfold update. induction b as [|[k v] b IH]; intros a Hn; cbn [fold_left assoc fst snd].
  - reflexivity.
  - inversion Hn as [|? ? Hk Hn']; subst. rewrite (IH _ Hn'), assoc_dset.
    destruct (String.eqb_spec k t) as [->|_]; [|reflexivity].
    now rewrite (assoc_notin _ _ _ Hk).
Qed.

Lemma valid_keys : forall d A k, validate d A = true -> In k (keys d) -> In k A.
Proof.
  intros d A k Hv Hk. unfold validate in Hv. rewrite forallb_forall in Hv.
  unfold keys in Hk. apply in_map_iff in Hk. destruct Hk as ([k' v] & <- & Hin).
  apply mem_In. exact (Hv _ Hin).
Qed.

Lemma valid_notin : forall d A t, validate d A = true -> mem t A = false -> assoc t d = None.
Proof.
  intros d A t Hv Hm. apply assoc_notin. intros Hk.
  apply mem_false_notin in Hm. apply Hm. eapply valid_keys; eauto.
Qed.

Lemma find_app_ : forall (A : Type) (f : A -> bool) l l',
  find f (l ++ l') = match find f l with Some x => Some x | None => find f l' end.
Proof.
  intros A f l l'. induction l as [|x l IH]; cbn; [reflexivity|]. destruct (f x); auto.
Qed.

Lemma find_ext_in : forall (A : Type) (f g : A -> bool) l,
  (forall x, In x l -> f x = g x) -> find f l = find g l.
Proof.
  intros A f g l. induction l as [|x l IH]; intros H; cbn; [reflexivity|].
  rewrite (H x (or_introl eq_refl)). destruct (g x); [reflexivity|].
  apply IH. intros; apply H; now right.
Qed.

Lemma existsb_ext_in : forall (A : Type) (f g : A -> bool) l,
  (forall x, In x l -> f x = g x) -> existsb f l = existsb g l.
Proof.
  intros A f g l. induction l as [|x l IH]; intros H; cbn; [reflexivity|].
  rewrite (H x (or_introl eq_refl)). f_equal. apply IH. intros; apply H; now right.
Qed.

Lemma existsb_find_rev : forall (A : Type) (f : A -> bool) l,
  existsb f l = is_some (find f (rev l)).
Proof.
  intros A f l. induction l as [|x l IH]; cbn [existsb rev]; [reflexivity|].
  rewrite find_app_, IH. cbn [find].
  destruct (find f (rev l)); cbn; [apply orb_true_r|].
  destruct (f x); reflexivity.
Qed.

(** * The upload's effective dictionary, slot by slot *)

Definition CT := "ChecksumType".
Definition CA := "ChecksumAlgorithm".

Lemma rw_other : forall F e k, k <> CT -> k <> CA ->
  assoc k (fold_left rewrite_step F e) = assoc k e.
Proof.
  induction F as [|c F IH]; intros e k H1 H2; cbn [fold_left]; [reflexivity|].
  rewrite (IH _ _ H1 H2). unfold rewrite_step. destruct (has c e); [|reflexivity].
  rewrite !assoc_dset.
  destruct (String.eqb_spec "ChecksumAlgorithm" k); [exfalso; apply H2; now subst|].
  destruct (String.eqb_spec "ChecksumType" k); [exfalso; apply H1; now subst|reflexivity].
Qed.

Lemma has_step : forall e c c', c' <> CT -> c' <> CA -> has c' (rewrite_step e c) = has c' e.
Proof.
  intros e c c' H1 H2. unfold rewrite_step. destruct (has c e); [|reflexivity].
  rewrite !has_dset.
  destruct (String.eqb_spec "ChecksumAlgorithm" c'); [exfalso; apply H2; now subst|].
  destruct (String.eqb_spec "ChecksumType" c'); [exfalso; apply H1; now subst|reflexivity].
Qed.

Lemma notmem_ne : forall k F c, mem k F = false -> In c F -> c <> k.
Proof. intros k F c Hm Hc ->. apply mem_false_notin in Hm. auto. Qed.

Lemma rw_CT : forall F e, mem CT F = false -> mem CA F = false ->
  assoc CT (fold_left rewrite_step F e) =
  if existsb (fun c => has c e) F then Some (L "FULL_OBJECT") else assoc CT e.
Proof.
  induction F as [|c F IH]; intros e H1 H2; cbn [fold_left existsb]; [reflexivity|].
  assert (H1' : mem CT F = false) by (cbn in H1; apply orb_false_elim in H1; tauto).
  assert (H2' : mem CA F = false) by (cbn in H2; apply orb_false_elim in H2; tauto).
  rewrite (IH _ H1' H2').
  rewrite (existsb_ext_in _ (fun c0 => has c0 (rewrite_step e c)) (fun c0 => has c0 e)).
  2:{ intros x Hx. apply has_step; eapply notmem_ne; eauto. }
  unfold rewrite_step. destruct (has c e); cbn [orb]; [|reflexivity].
  rewrite !assoc_dset. cbn. destruct (existsb _ F); reflexivity.
Qed.

Lemma rw_CA : forall F e, mem CT F = false -> mem CA F = false ->
  assoc CA (fold_left rewrite_step F e) =
  match find (fun c => has c e) (rev F) with
  | Some c => Some (L (remove_all "Checksum" c))
  | None => assoc CA e
  end.
Proof.
  induction F as [|c F IH]; intros e H1 H2; cbn [fold_left rev]; [reflexivity|].
  assert (H1' : mem CT F = false) by (cbn in H1; apply orb_false_elim in H1; tauto).
  assert (H2' : mem CA F = false) by (cbn in H2; apply orb_false_elim in H2; tauto).
  rewrite (IH _ H1' H2'), find_app_.
  rewrite (find_ext_in _ (fun c0 => has c0 (rewrite_step e c)) (fun c0 => has c0 e)).
  2:{ intros x Hx. apply in_rev in Hx. apply has_step; eapply notmem_ne; eauto. }
  destruct (find _ (rev F)); [reflexivity|]. cbn [find].
  unfold rewrite_step. destruct (has c e); [|reflexivity].
  rewrite assoc_dset. reflexivity.
Qed.

Lemma full_side : mem CT FULL_OBJECT_CHECKSUM_ARGS = false /\ mem CA FULL_OBJECT_CHECKSUM_ARGS = false.
Proof. vm_compute. split; reflexivity. Qed.

Lemma has_inject : forall c d, has c (inject d) = has c d.
Proof. intros. unfold has. rewrite assoc_inject. destruct (assoc c d); reflexivity. Qed.

Lemma interp_user : forall (t : string) (x : option Z),
  interp (if is_some x then RUser else RAbsent) x = option_map U x.
Proof. intros t [v|]; reflexivity. Qed.

(** the dictionary after _add_operation_defaults *)
Definition e1_of (ws : bool) (d : dict) : kwargs :=
  if ws then set_default_checksum_algorithm (inject d) else inject d.

Lemma e1_lookup : forall ws d t,
  assoc t (e1_of ws d) =
  if ws && negb (is_some (last_full d)) && String.eqb CA t && negb (has CA d)
  then Some (L DEFAULT_CHECKSUM_ALGORITHM) else option_map U (assoc t d).
Proof.
  intros ws d t. unfold e1_of. destruct ws; cbn [andb]; [|apply assoc_inject].
  unfold set_default_checksum_algorithm.
  rewrite (existsb_ext_in _ (fun c => has c (inject d)) (fun c => has c d))
    by (intros; apply has_inject).
  rewrite existsb_find_rev. fold (last_full d).
  destruct (is_some (last_full d)); cbn [negb andb]; [apply assoc_inject|].
  unfold setdefault. rewrite has_inject. fold CA.
  destruct (has CA d) eqn:Hh; cbn [negb].
  - rewrite andb_false_r. apply assoc_inject.
  - rewrite andb_true_r, assoc_dset. fold CA. destruct (String.eqb CA t); [reflexivity|apply assoc_inject].
Qed.

Lemma has_e1 : forall ws d c, c <> CA -> has c (e1_of ws d) = has c d.
Proof.
  intros ws d c Hc. unfold has. rewrite e1_lookup.
  destruct (String.eqb_spec CA c) as [E|_]; [exfalso; auto|].
  rewrite andb_false_r. cbn [andb]. destruct (assoc c d); reflexivity.
Qed.

Lemma last_full_e1 : forall ws d, last_full (e1_of ws d) = last_full d.
Proof.
  intros ws d. unfold last_full. apply find_ext_in. intros c Hc. apply in_rev in Hc.
  apply has_e1. eapply notmem_ne; [apply full_side|exact Hc].
Qed.

Lemma eff_upload_lookup : forall ws mp d t,
  assoc t (eff_upload ws mp d) = interp (eff_res ws mp (last_full d) t (has t d)) (assoc t d).
Proof.
  intros ws mp d t. destruct full_side as [S1 S2].
  change (eff_upload ws mp d) with (if mp then full_object_rewrite (e1_of ws d) else e1_of ws d).
  unfold eff_res, has. fold CT CA.
  destruct (String.eqb_spec t CT) as [->|NCT].
  { (* ChecksumType *)
    destruct mp.
    - unfold full_object_rewrite. rewrite (rw_CT _ _ S1 S2).
      rewrite (existsb_find_rev _ (fun c => has c (e1_of ws d))). fold (last_full (e1_of ws d)).
      rewrite last_full_e1, e1_lookup.
      change (String.eqb CA CT) with false. rewrite andb_false_r. cbn [andb].
      destruct (last_full d); cbn [is_some]; [reflexivity|].
      destruct (assoc CT d); reflexivity.
    - rewrite e1_lookup. change (String.eqb CA CT) with false. rewrite andb_false_r. cbn [andb].
      destruct (last_full d); destruct (assoc CT d); reflexivity. }
  destruct (String.eqb_spec t CA) as [->|NCA].
  { (* ChecksumAlgorithm *)
    destruct mp.
    - unfold full_object_rewrite. rewrite (rw_CA _ _ S1 S2). fold (last_full (e1_of ws d)).
      rewrite last_full_e1, e1_lookup, String.eqb_refl, andb_true_r. unfold has.
      destruct (last_full d); cbn [is_some negb andb]; [reflexivity|].
      rewrite andb_true_r. destruct (assoc CA d); destruct ws; reflexivity.
    - rewrite e1_lookup, String.eqb_refl, andb_true_r. unfold has.
      destruct (last_full d); cbn [is_some negb andb].
      + rewrite andb_false_r. cbn [andb]. destruct (assoc CA d); reflexivity.
      + rewrite andb_true_r. destruct (assoc CA d); destruct ws; reflexivity. }
  (* any other name *)
  assert (E : assoc t (e1_of ws d) = option_map U (assoc t d)).
  { rewrite e1_lookup. destruct (String.eqb_spec CA t) as [<-|_]; [contradiction|].
    rewrite andb_false_r. reflexivity. }
  destruct mp.
  - unfold full_object_rewrite. rewrite (rw_other _ _ _ NCT NCA), E. destruct (assoc t d); reflexivity.
  - rewrite E. destruct (assoc t d); reflexivity.
Qed.

(** * Copy: the head mapping, slot by slot *)

Definition map_ok (M : list (string * string)) : bool :=
  forallb (fun kv => match assoc (fst kv) M with
                     | Some t => String.eqb t (snd kv) | None => false end) M
  && forallb (fun kv => forallb (fun kv' =>
                implb (String.eqb (snd kv) (snd kv')) (String.eqb (fst kv) (fst kv'))) M) M.

Definition hm_step (M : list (string * string)) (req : kwargs) (kv : string * val) : kwargs :=
  match assoc (fst kv) M with Some t => dset t (snd kv) req | None => req end.

Lemma find_snd_some : forall (M : list (string * string)) t kv,
  find (fun kv => String.eqb (snd kv) t) M = Some kv -> In kv M /\ snd kv = t.
Proof. intros M t kv H. apply find_some in H. destruct H as [H1 H2]. apply String.eqb_eq in H2. auto. Qed.

Lemma find_snd_none : forall (M : list (string * string)) t k,
  find (fun kv => String.eqb (snd kv) t) M = None -> ~ In (k, t) M.
Proof.
  intros M t k H Hin. eapply find_none in H; [|exact Hin]. cbn in H.
  now rewrite String.eqb_refl in H.
Qed.

Lemma head_map_lookup : forall M, map_ok M = true -> forall t d req,
  NoDup (keys d) ->
  assoc t (fold_left (hm_step M) (inject d) req) =
  match find (fun kv => String.eqb (snd kv) t) M with
  | Some kv => match assoc (fst kv) d with Some v => Some (U v) | None => assoc t req end
  | None => assoc t req
  end.
Proof.
  intros M HM t. unfold map_ok in HM. apply andb_prop in HM. destruct HM as [HM1 HM2].
  rewrite forallb_forall in HM1, HM2.
  assert (F1 : forall kv, In kv M -> assoc (fst kv) M = Some (snd kv)).
  { intros kv Hin. specialize (HM1 _ Hin). destruct (assoc (fst kv) M); [|discriminate].
    apply String.eqb_eq in HM1. now subst. }
  assert (F2 : forall kv kv', In kv M -> In kv' M -> snd kv = snd kv' -> fst kv = fst kv').
  { intros kv kv' H H' E. specialize (HM2 _ H). rewrite forallb_forall in HM2.
    specialize (HM2 _ H'). rewrite E, String.eqb_refl in HM2. cbn in HM2. now apply String.eqb_eq. }
  induction d as [|[k v] d IH]; intros req Hn; cbn [inject map fold_left fst snd].
  - destruct (find _ M); reflexivity.
  - inversion Hn as [|? ? Hk Hn']; subst. change (map _ d) with (inject d). rewrite (IH _ Hn').
    unfold hm_step. cbn [fst snd assoc].
    destruct (find (fun kv => String.eqb (snd kv) t) M) as [kv0|] eqn:Hf.
    + apply find_snd_some in Hf. destruct Hf as [Hin0 Hs0].
      destruct (String.eqb_spec k (fst kv0)) as [->|Hne].
      * rewrite (F1 _ Hin0), Hs0, (assoc_notin _ _ _ Hk), assoc_dset, String.eqb_refl. reflexivity.
      * destruct (assoc (fst kv0) d); [reflexivity|].
        destruct (assoc k M) as [t'|] eqn:Ha; [|reflexivity].
        rewrite assoc_dset. destruct (String.eqb_spec t' t) as [->|_]; [|reflexivity].
        exfalso. apply Hne. apply assoc_In in Ha.
        exact (F2 (k, t) kv0 Ha Hin0 (eq_sym Hs0)).
    + destruct (assoc k M) as [t'|] eqn:Ha; [|reflexivity].
      rewrite assoc_dset. destruct (String.eqb_spec t' t) as [->|_]; [|reflexivity].
      exfalso. apply assoc_In in Ha. exact (find_snd_none _ _ _ Hf Ha).
Qed.

Lemma head_map_ok : map_ok CP_HEAD_MAPPING = true.
Proof. vm_compute. reflexivity. Qed.

Lemma head_targets_not_struct :
  forallb (fun kv => negb (mem (snd kv) ["Bucket"; "Key"; "VersionId"])) CP_HEAD_MAPPING = true.
Proof. vm_compute. reflexivity. Qed.

Lemma find_snd_mem : forall (M : list (string * string)) t,
  mem t (map snd M) = is_some (find (fun kv => String.eqb (snd kv) t) M).
Proof.
  intros M t. induction M as [|[k s] M IH]; cbn; [reflexivity|].
  rewrite (String.eqb_sym t s). destruct (String.eqb s t); cbn; [reflexivity|exact IH].
Qed.

(** * Every call, slot by slot *)

Lemma pw_struct_filter : forall names (p : string -> bool) (e : kwargs) t,
  assoc t (S_ names ++ filter (fun kv => p (fst kv)) e) =
  if mem t names then Some P else if p t then assoc t e else None.
Proof.
  intros. rewrite assoc_app, assoc_S_. destruct (mem t names); [reflexivity|apply assoc_filter].
Qed.

Lemma pw_struct_all : forall names d t,
  assoc t (S_ names ++ inject d) =
  interp (if mem t names then RPlanned else if is_some (assoc t d) then RUser else RAbsent) (assoc t d).
Proof.
  intros. rewrite assoc_app, assoc_S_, assoc_inject. destruct (mem t names); [reflexivity|].
  destruct (assoc t d); reflexivity.
Qed.

Lemma pw_struct_pass : forall names (p : string -> bool) d t,
  assoc t (S_ names ++ filter (fun kv => p (fst kv)) (inject d)) =
  interp (if mem t names then RPlanned
          else if p t then (if is_some (assoc t d) then RUser else RAbsent) else RAbsent) (assoc t d).
Proof.
  intros. rewrite pw_struct_filter, assoc_inject. destruct (mem t names); [reflexivity|].
  destruct (p t); [|reflexivity]. destruct (assoc t d); reflexivity.
Qed.

Lemma pw_struct_upload : forall names (p : string -> bool) ws mp d t,
  assoc t (S_ names ++ filter (fun kv => p (fst kv)) (eff_upload ws mp d)) =
  interp (if mem t names then RPlanned
          else if p t then eff_res ws mp (last_full d) t (is_some (assoc t d)) else RAbsent) (assoc t d).
Proof.
  intros. rewrite pw_struct_filter. destruct (mem t names); [reflexivity|].
  destruct (p t); [|reflexivity]. apply eff_upload_lookup.
Qed.

Lemma pw_struct_ranged : forall names d t A,
  NoDup (keys d) -> validate d A = true -> mem "Range" A = false ->
  assoc t (S_ names ++ update [("Range", P)] (inject d)) =
  interp (if mem t (names ++ ["Range"]) then RPlanned
          else if is_some (assoc t d) then RUser else RAbsent) (assoc t d).
Proof.
  intros names d t A Hn Hv Hr. rewrite assoc_app, assoc_S_, mem_app.
  destruct (mem t names); [reflexivity|]. cbn [orb].
  rewrite assoc_update by (now rewrite keys_inject). rewrite assoc_inject.
  cbn [mem existsb assoc]. rewrite (String.eqb_sym t "Range").
  destruct (String.eqb_spec "Range" t) as [<-|_]; cbn [orb].
  - now rewrite (valid_notin _ _ _ Hv Hr).
  - destruct (assoc t d); reflexivity.
Qed.

Lemma pw_struct_ranged_legacy : forall names d t,
  assoc t (S_ names ++ S_ ["Range"] ++ inject d) =
  interp (if mem t (names ++ ["Range"]) then RPlanned
          else if is_some (assoc t d) then RUser else RAbsent) (assoc t d).
Proof.
  intros. rewrite app_assoc. change (S_ names ++ S_ ["Range"]) with (map (fun k => (k, P)) names ++ map (fun k => (k, P)) ["Range"]).
  rewrite <- map_app. apply pw_struct_all.
Qed.

Lemma pw_struct_partcopy : forall names (p : string -> bool) d t,
  assoc t (S_ names ++ dset "CopySourceRange" P (filter (fun kv => p (fst kv)) (inject d))) =
  interp (if mem t (names ++ ["CopySourceRange"]) then RPlanned
          else if p t then (if is_some (assoc t d) then RUser else RAbsent) else RAbsent) (assoc t d).
Proof.
  intros. rewrite assoc_app, assoc_S_, mem_app. destruct (mem t names); [reflexivity|]. cbn [orb].
  rewrite assoc_dset, assoc_filter, assoc_inject. cbn [mem existsb].
  rewrite (String.eqb_sym t "CopySourceRange").
  destruct (String.eqb "CopySourceRange" t); cbn [orb]; [reflexivity|].
  destruct (p t); [|reflexivity]. destruct (assoc t d); reflexivity.
Qed.

Lemma pw_head_map : forall names d t, NoDup (keys d) ->
  forallb (fun kv => negb (mem (snd kv) names)) CP_HEAD_MAPPING = true ->
  assoc t (fold_left head_map_step (inject d) (S_ names)) =
  let s := match find (fun kv => String.eqb (snd kv) t) CP_HEAD_MAPPING with
           | Some kv => fst kv | None => t end in
  interp (if mem t names then RPlanned
          else if mem t (map snd CP_HEAD_MAPPING)
               then (if is_some (assoc s d) then RUser else RAbsent) else RAbsent) (assoc s d).
Proof.
  intros names d t Hn Hs. change head_map_step with (hm_step CP_HEAD_MAPPING).
  rewrite (head_map_lookup _ head_map_ok _ _ _ Hn), assoc_S_, find_snd_mem. cbv zeta.
  rewrite forallb_forall in Hs.
  destruct (find _ CP_HEAD_MAPPING) as [kv|] eqn:Hf; cbn [is_some].
  - apply find_snd_some in Hf. destruct Hf as [Hin <-]. specialize (Hs _ Hin).
    apply negb_true_iff in Hs. rewrite Hs. destruct (assoc (fst kv) d); reflexivity.
  - destruct (mem t names); reflexivity.
Qed.

Lemma struct_not_allowed : forall m o, In m ALL_MODES -> In o ALL_OPS ->
  forallb (fun t => negb (mem t (allowed_of m))) (planned_names m o) = true.
Proof.
  assert (H : forallb (fun m => forallb (fun o =>
              forallb (fun t => negb (mem t (allowed_of m))) (planned_names m o)) ALL_OPS) ALL_MODES = true)
    by (vm_compute; reflexivity).
  intros m o Hm Ho. rewrite forallb_forall in H. specialize (H _ Hm).
  rewrite forallb_forall in H. exact (H _ Ho).
Qed.

Lemma all_modes_complete : forall m, In m ALL_MODES.
Proof.
  intros m.
  destruct m as [[] []|[] []|[] [] []| |[]|[]|[] []]; vm_compute; tauto.
Qed.

Lemma all_ops_complete : forall o, In o ALL_OPS.
Proof. destruct o; vm_compute; tauto. Qed.

Lemma range_not_allowed : forall m, mem "Range" (allowed_of m) = false.
Proof. destruct m; vm_compute; reflexivity. Qed.

(** The central lemma: every slot of every call is a function of one binding of
    the user's dictionary and of the finite summary. *)
Lemma kwargs_pointwise : forall m o d t,
  NoDup (keys d) -> validate d (allowed_of m) = true -> recipe_of m o <> RcNone ->
  assoc t (kwargs_of m o d) = cell m o (last_full d) t (assoc (src m o t) d).
Proof.
  intros m o d t Hn Hv Hr. unfold cell, cellK, src.
  destruct m as [[] []|[] []|[] [] []| |[]|[]|[] []]; destruct o;
    cbn [recipe_of] in Hr |- *; try (exfalso; apply Hr; reflexivity);
    cbn [kwargs_of planned_names struct_names app]; unfold filtered_dict.
  all: try apply pw_struct_upload.
  all: try apply pw_struct_all.
  all: try apply pw_struct_pass.
  all: try apply (pw_struct_pass _ (fun k => negb (mem k CP_CREATE_MULTIPART_BLACKLIST))).
  all: try apply (pw_struct_pass _ (fun k => mem k LEGACY_UPLOAD_PART_ARGS)).
  all: try apply pw_struct_partcopy.
  all: try apply pw_struct_ranged_legacy.
  all: try (apply (pw_head_map _ d t Hn); vm_compute; reflexivity).
  all: try (eapply pw_struct_ranged; [exact Hn|exact Hv|vm_compute; reflexivity]).
  all: rewrite assoc_S_; destruct (mem t _); reflexivity.
Qed.

(** * Keys of every call are distinct (the keyword arguments form a dictionary) *)

Lemma keys_app : forall (V : Type) (a b : list (string * V)), keys (a ++ b) = keys a ++ keys b.
Proof. intros. unfold keys. apply map_app. Qed.

Lemma keys_S_ : forall names, keys (S_ names) = names.
Proof. intros. unfold keys, S_. rewrite map_map. cbn. apply map_id. Qed.

Lemma nodup_app_ : forall (A : Type) (a b : list A),
  NoDup a -> NoDup b -> (forall x, In x a -> ~ In x b) -> NoDup (a ++ b).
Proof.
  intros A a b Ha Hb Hd. induction Ha as [|x a Hx Ha IH]; cbn; [exact Hb|].
  constructor.
  - rewrite in_app_iff. intros [H|H]; [auto|]. apply (Hd x); [now left|exact H].
  - apply IH. intros y Hy. apply Hd. now right.
Qed.

Lemma in_keys_dset : forall (V : Type) k (v : V) e x,
  In x (keys (dset k v e)) -> x = k \/ In x (keys e).
Proof.
  intros V k v e x. induction e as [|[k' v'] e IH]; cbn.
  - intros [<-|[]]. now left.
  - destruct (String.eqb_spec k' k) as [->|_]; cbn.
    + intros [<-|H]; auto.
    + intros [<-|H]; auto. destruct (IH H); auto.
Qed.

Lemma nodup_dset : forall (V : Type) k (v : V) e, NoDup (keys e) -> NoDup (keys (dset k v e)).
Proof.
  intros V k v e. induction e as [|[k' v'] e IH]; cbn; intros Hn.
  - constructor; [easy|constructor].
  - inversion Hn as [|? ? Hk Hn']; subst.
    destruct (String.eqb_spec k' k) as [->|Hne]; cbn.
    + constructor; assumption.
    + constructor; [|auto]. intros Hin. apply in_keys_dset in Hin. destruct Hin as [->|Hin]; auto.
Qed.

Lemma in_keys_filter : forall (V : Type) (f : string * V -> bool) e x,
  In x (keys (filter f e)) -> In x (keys e).
Proof.
  intros V f e x. unfold keys. rewrite !in_map_iff. intros (kv & E & H).
  apply filter_In in H. exists kv. tauto.
Qed.

Lemma nodup_filter : forall (V : Type) (f : string * V -> bool) e,
  NoDup (keys e) -> NoDup (keys (filter f e)).
Proof.
  intros V f e. induction e as [|kv e IH]; cbn; intros Hn; [constructor|].
  inversion Hn as [|? ? Hk Hn']; subst. destruct (f kv); cbn; [|auto].
  constructor; [|auto]. intros Hin. apply Hk. eapply in_keys_filter. exact Hin.
Qed.

Lemma fold_dset_keys : forall (V W : Type) (g : list (string * V) -> W -> list (string * V))
    (extra : list string),
  (forall e w, NoDup (keys e) -> NoDup (keys (g e w))) ->
  (forall e w x, In x (keys (g e w)) -> In x (keys e) \/ In x extra) ->
  forall l e, NoDup (keys e) ->
    NoDup (keys (fold_left g l e)) /\
    (forall x, In x (keys (fold_left g l e)) -> In x (keys e) \/ In x extra).
Proof.
  intros V W g extra G1 G2. induction l as [|w l IH]; intros e Hn; cbn [fold_left].
  - split; auto.
  - destruct (IH (g e w) (G1 _ _ Hn)) as [A B]. split; [exact A|].
    intros x Hx. destruct (B x Hx) as [H|H]; [|now right]. exact (G2 _ _ _ H).
Qed.

Lemma rewrite_keys : forall e, NoDup (keys e) ->
  NoDup (keys (full_object_rewrite e)) /\
  (forall x, In x (keys (full_object_rewrite e)) -> In x (keys e) \/ In x [CT; CA]).
Proof.
  intros e Hn. unfold full_object_rewrite. apply fold_dset_keys; [| |exact Hn].
  - intros e0 c H. unfold rewrite_step. destruct (has c e0); [|exact H]. now do 2 apply nodup_dset.
  - intros e0 c x. unfold rewrite_step. destruct (has c e0); [|now left].
    intros H. apply in_keys_dset in H. destruct H as [->|H]; [right; cbn; tauto|].
    apply in_keys_dset in H. destruct H as [->|H]; [right; cbn; tauto|now left].
Qed.

Lemma eff_upload_keys : forall ws mp d, NoDup (keys d) ->
  NoDup (keys (eff_upload ws mp d)) /\
  (forall x, In x (keys (eff_upload ws mp d)) -> In x (keys d) \/ In x [CT; CA]).
Proof.
  intros ws mp d Hn.
  assert (E1 : NoDup (keys (e1_of ws d)) /\
               (forall x, In x (keys (e1_of ws d)) -> In x (keys d) \/ In x [CT; CA])).
  { unfold e1_of. destruct ws; [|rewrite keys_inject; auto].
    unfold set_default_checksum_algorithm. destruct (existsb _ _); [rewrite keys_inject; auto|].
    unfold setdefault. destruct (has _ _); [rewrite keys_inject; auto|]. split.
    - apply nodup_dset. now rewrite keys_inject.
    - intros x H. apply in_keys_dset in H. rewrite keys_inject in H.
      destruct H as [->|H]; [right; cbn; tauto|now left]. }
  change (eff_upload ws mp d) with (if mp then full_object_rewrite (e1_of ws d) else e1_of ws d).
  destruct mp; [|exact E1]. destruct E1 as [A B]. destruct (rewrite_keys _ A) as [C D].
  split; [exact C|]. intros x Hx. destruct (D x Hx) as [H|H]; [exact (B x H)|now right].
Qed.

Lemma update_keys : forall (V : Type) (b a : list (string * V)), NoDup (keys a) ->
  NoDup (keys (update a b)) /\
  (forall x, In x (keys (update a b)) -> In x (keys a) \/ In x (keys b)).
Proof.
  intros V b. unfold update. induction b as [|[k v] b IH]; intros a Hn; cbn [fold_left fst snd].
  - split; auto.
  - destruct (IH _ (nodup_dset _ k v _ Hn)) as [A B]. split; [exact A|].
    intros x Hx. destruct (B x Hx) as [H|H]; [|right; now right].
    apply in_keys_dset in H. destruct H as [->|H]; [right; now left|now left].
Qed.

Lemma head_map_keys : forall d st, NoDup (keys st) ->
  NoDup (keys (fold_left head_map_step (inject d) st)) /\
  (forall x, In x (keys (fold_left head_map_step (inject d) st)) ->
             In x (keys st) \/ In x (map snd CP_HEAD_MAPPING)).
Proof.
  intros d st Hn. apply fold_dset_keys; [| |exact Hn].
  - intros e kv H. unfold head_map_step. destruct (assoc _ _); [now apply nodup_dset|exact H].
  - intros e kv x. unfold head_map_step. destruct (assoc (fst kv) CP_HEAD_MAPPING) as [t|] eqn:Ha; [|now left].
    intros H. apply in_keys_dset in H. destruct H as [->|H]; [|now left].
    right. apply assoc_In in Ha. change t with (snd (fst kv, t)). now apply in_map.
Qed.

Lemma struct_nodup : forall m o, NoDup (struct_names m o).
Proof.
  intros m o. destruct o; try destruct m as [| |? ? []| | | |]; cbn;
    repeat (constructor; [cbn; intuition discriminate|]); constructor.
Qed.

Lemma planned_not_allowed : forall m o t,
  In t (planned_names m o) -> ~ In t (allowed_of m).
Proof.
  intros m o t Ht Ha.
  pose proof (struct_not_allowed m o (all_modes_complete m) (all_ops_complete o)) as H.
  rewrite forallb_forall in H. specialize (H _ Ht). apply negb_true_iff in H.
  apply mem_false_notin in H. auto.
Qed.

Lemma struct_in_planned : forall m o t, In t (struct_names m o) -> In t (planned_names m o).
Proof. intros. unfold planned_names. apply in_or_app. now left. Qed.

Lemma ct_ca_not_struct : forall m o t, In t [CT; CA] -> ~ In t (struct_names m o).
Proof.
  intros m o t [<-|[<-|[]]] H; destruct o; try destruct m as [| |? ? []| | | |];
    cbn in H; intuition discriminate.
Qed.

Lemma kwargs_nodup : forall m o d,
  NoDup (keys d) -> validate d (allowed_of m) = true -> NoDup (keys (kwargs_of m o d)).
Proof.
  intros m o d Hn Hv.
  assert (Hd : forall x, In x (struct_names m o) -> ~ In x (keys d)).
  { intros x Hx Hk. apply (planned_not_allowed m o x (struct_in_planned _ _ _ Hx)).
    eapply valid_keys; eauto. }
  assert (Base : forall f, NoDup (keys (S_ (struct_names m o) ++ filter f (inject d)))).
  { intros f. rewrite keys_app, keys_S_. apply nodup_app_.
    - apply struct_nodup.
    - apply nodup_filter. now rewrite keys_inject.
    - intros x Hx Hf. apply in_keys_filter in Hf. rewrite keys_inject in Hf. exact (Hd x Hx Hf). }
  assert (BaseAll : NoDup (keys (S_ (struct_names m o) ++ inject d))).
  { rewrite keys_app, keys_S_, keys_inject. apply nodup_app_; [apply struct_nodup|exact Hn|exact Hd]. }
  assert (Up : forall ws mp f, NoDup (keys (S_ (struct_names m o) ++ filter f (eff_upload ws mp d)))).
  { intros ws mp f. destruct (eff_upload_keys ws mp d Hn) as [A B].
    rewrite keys_app, keys_S_. apply nodup_app_.
    - apply struct_nodup.
    - now apply nodup_filter.
    - intros x Hx Hf. apply in_keys_filter in Hf. destruct (B x Hf) as [H|H].
      + exact (Hd x Hx H).
      + exact (ct_ca_not_struct m o x H Hx). }
  assert (Ranged : mem "Range" (struct_names m o) = false ->
                   NoDup (keys (S_ (struct_names m o) ++ update [("Range", P)] (inject d)))).
  { intros Hr. destruct (update_keys _ (inject d) [("Range", P)]) as [A B].
    { cbn. constructor; [easy|constructor]. }
    rewrite keys_app, keys_S_. apply nodup_app_; [apply struct_nodup|exact A|].
    intros x Hx Hu. destruct (B x Hu) as [H|H].
    - cbn in H. destruct H as [<-|[]]. apply mem_false_notin in Hr. auto.
    - rewrite keys_inject in H. exact (Hd x Hx H). }
  destruct m as [ws mp|known ranged|known mp sv| |mp|ranged|known ranged]; destruct o;
    cbn [kwargs_of]; unfold filtered_dict;
    try apply Base; try apply BaseAll; try apply Up; try (constructor; fail).
  - destruct ranged; [apply Ranged; reflexivity|apply BaseAll].
  - apply head_map_keys. rewrite keys_S_. apply struct_nodup.
  - (* UploadPartCopy *)
    rewrite keys_app, keys_S_. apply nodup_app_.
    + apply struct_nodup.
    + apply nodup_dset. apply nodup_filter. now rewrite keys_inject.
    + intros x Hx Hf. apply in_keys_dset in Hf. destruct Hf as [->|Hf].
      * cbn in Hx. intuition discriminate.
      * apply in_keys_filter in Hf. rewrite keys_inject in Hf. exact (Hd x Hx Hf).
  - rewrite keys_S_. apply struct_nodup.
  - destruct ranged.
    + rewrite keys_app, keys_S_, keys_app, keys_S_, keys_inject. apply nodup_app_.
      * apply struct_nodup.
      * apply nodup_app_; [constructor; [easy|constructor]|exact Hn|].
        intros x [<-|[]] Hk. apply (planned_not_allowed (LegDownload true) GetObject "Range").
        { cbn. tauto. } eapply valid_keys; eauto.
      * intros x Hx Hi. apply in_app_or in Hi. destruct Hi as [[<-|[]]|Hi].
        { cbn in Hx. intuition discriminate. } exact (Hd x Hx Hi).
    + cbn [app]. apply BaseAll.
  - destruct ranged; [apply Ranged; reflexivity|apply BaseAll].
Qed.

(** * The plan and the whole route *)

Lemma in_multipart_ops : forall part n o,
  In o (multipart_ops part n) -> o = CreateMultipartUpload \/ o = part \/ o = CompleteMultipartUpload.
Proof.
  intros part n o. unfold multipart_ops. cbn [In]. rewrite in_app_iff. cbn [In].
  intros [<-|H]; [auto|]. destruct H as [H|H].
  - right; left. now apply repeat_spec in H.
  - destruct H as [<-|H]; [auto|destruct H].
Qed.

Lemma in_get_ops : forall r n o, In o (get_ops r n) -> o = GetObject.
Proof.
  intros [] n o; cbn.
  - apply repeat_spec.
  - intros [<-|[]]. reflexivity.
Qed.

Lemma plan_ops : forall m n o, In o (plan m n) -> In o (ops_of m).
Proof.
  intros m n o. unfold ops_of.
  destruct m as [ws []|[] r|[] [] sv| |[]|r|[] r]; cbn [plan head_ops app];
    intros H;
    repeat match goal with
    | H : In _ (_ :: _) |- _ => destruct H as [<-|H]
    | H : In _ (_ ++ _) |- _ => apply in_app_or in H; destruct H as [H|H]
    | H : In _ (multipart_ops _ _) |- _ => apply in_multipart_ops in H; destruct H as [ -> | [ -> | -> ] ]
    | H : In _ (get_ops _ _) |- _ => apply in_get_ops in H; subst
    | H : In _ [] |- _ => destruct H
    end;
    try (destruct r); cbn; tauto.
Qed.

Lemma ops_recipe : forall m o, In o (ops_of m) -> recipe_of m o <> RcNone.
Proof.
  intros m o H.
  destruct m as [[] []|[] []|[] [] []| |[]|[]|[] []]; destruct o; cbn in H |- *;
    try discriminate; intuition discriminate.
Qed.

Lemma last_full_in_LFS : forall (V : Type) (d : list (string * V)), In (last_full d) LFS.
Proof.
  intros V d. unfold last_full, LFS. destruct (find _ _) as [c|] eqn:Hf; [|now left].
  right. apply find_some in Hf. destruct Hf as [Hin _]. apply in_rev in Hin. now apply in_map.
Qed.

Lemma route_some : forall m n d calls, route m n d = Some calls ->
  validate d (allowed_of m) = true /\ calls = map (fun o => (o, kwargs_of m o d)) (plan m n).
Proof.
  intros m n d calls. unfold route. destruct (validate d (allowed_of m)); [|discriminate].
  intros [= <-]. auto.
Qed.

Theorem route_pointwise_lemma : forall m n d calls,
  NoDup (keys d) -> route m n d = Some calls ->
  map fst calls = plan m n /\
  In (last_full d) LFS /\
  forall o kw, In (o, kw) calls ->
    In o (ops_of m) /\ NoDup (keys kw) /\
    forall t, assoc t kw = cell m o (last_full d) t (assoc (src m o t) d).
Proof.
  intros m n d calls Hn Hr. apply route_some in Hr. destruct Hr as [Hv ->].
  split; [rewrite map_map; cbn; apply map_id|]. split; [apply last_full_in_LFS|].
  intros o kw Hin. apply in_map_iff in Hin. destruct Hin as (o' & [= -> <-] & Hp).
  pose proof (plan_ops _ _ _ Hp) as Ho. split; [exact Ho|]. split.
  - now apply kwargs_nodup.
  - intros t. apply kwargs_pointwise; auto. now apply ops_recipe.
Qed.

(** * Rejection *)

Lemma forallb_false_exists : forall (A : Type) (f : A -> bool) l,
  forallb f l = false -> exists x, In x l /\ f x = false.
Proof.
  intros A f l. induction l as [|x l IH]; cbn; [discriminate|].
  destruct (f x) eqn:E; cbn.
  - intros H. destruct (IH H) as (y & Hy & Hf). exists y. auto.
  - intros _. exists x. auto.
Qed.

Lemma rejected_iff : forall m n d,
  route m n d = None <-> exists k, In k (keys d) /\ ~ In k (allowed_of m).
Proof.
  intros m n d. unfold route. destruct (validate d (allowed_of m)) eqn:Hv; split.
  - discriminate.
  - intros (k & Hk & Hna). exfalso. apply Hna. eapply valid_keys; eauto.
  - intros _. unfold validate in Hv. apply forallb_false_exists in Hv.
    destruct Hv as ([k v] & Hin & Hf). exists k. split.
    + change k with (fst (k, v)). now apply in_map.
    + apply mem_false_notin. exact Hf.
  - reflexivity.
Qed.

(** * Values *)

Lemma cell_user : forall m o lf t x v, cell m o lf t x = Some (U v) -> x = Some v.
Proof.
  intros m o lf t x v. unfold cell. destruct (cellK _ _ _ _ _); cbn; try discriminate.
  destruct x; cbn; [intros [= ->]; reflexivity|discriminate].
Qed.

Lemma values_unmodified_lemma : forall m n d calls,
  NoDup (keys d) -> route m n d = Some calls ->
  forall o kw, In (o, kw) calls ->
  forall t v, In (t, U v) kw -> In (src m o t, v) d.
Proof.
  intros m n d calls Hn Hr o kw Hin t v Ht.
  destruct (route_pointwise_lemma _ _ _ _ Hn Hr) as (_ & _ & H).
  destruct (H _ _ Hin) as (_ & Hnd & Hpw).
  apply (In_assoc_nodup _ _ _ _ Hnd) in Ht. rewrite Hpw in Ht.
  apply cell_user in Ht. now apply assoc_In.
Qed.

(** * Nothing unknown to an operation is sent to it *)

Lemma src_pass : forall m o t, recipe_of m o <> RcHeadMap -> src m o t = t.
Proof. intros m o t H. unfold src. destruct (recipe_of m o); try reflexivity. contradiction. Qed.

Lemma cellK_universe : forall m o lf t p,
  cellK m o lf t p <> RAbsent ->
  (p = true -> In (src m o t) (allowed_of m)) -> In t (universe m o).
Proof.
  intros m o lf t p. unfold cellK, universe. rewrite !in_app_iff.
  destruct (mem t (planned_names m o)) eqn:Hp; [intros _ _; left; now apply mem_In|].
  destruct (recipe_of m o) as [|pf|ws mp pf|] eqn:Hr.
  - intros H; contradiction.
  - assert (Hs : src m o t = t) by (apply src_pass; rewrite Hr; discriminate).
    rewrite Hs. destruct (pf t); [|intros H; contradiction].
    destruct p; [|intros H; contradiction]. intros _ H. right; left. auto.
  - assert (Hs : src m o t = t) by (apply src_pass; rewrite Hr; discriminate).
    rewrite Hs. destruct (pf t); [|intros H; contradiction].
    unfold eff_res.
    destruct (String.eqb_spec t "ChecksumType") as [->|_]; [intros _ _; do 3 right; cbn; tauto|].
    destruct (String.eqb_spec t "ChecksumAlgorithm") as [->|_]; [intros _ _; do 3 right; cbn; tauto|].
    destruct p; [|intros H; contradiction]. intros _ H. right; left. auto.
  - destruct (mem t (map snd CP_HEAD_MAPPING)) eqn:Hm; [|intros H; contradiction].
    intros _ _. right; right; left. now apply mem_In.
Qed.

Definition nu_ok (m : mode) (o : op) (t : string) (lf : option string) (p : bool) : bool :=
  implb (negb (res_absent (cellK m o lf t p)) && implb p (mem (src m o t) (allowed_of m)))
        (mem t (SHAPE o)).

Lemma nu_table :
  forallb (fun m => forallb (fun o => forallb (fun t => forallb (fun lf => forallb (fun p =>
    nu_ok m o t lf p) BOOLS) LFS) (universe m o)) (ops_of m)) ALL_MODES = true.
Proof. vm_compute. reflexivity. Qed.

Lemma bools_complete : forall b, In b BOOLS.
Proof. destruct b; cbn; tauto. Qed.

Lemma nothing_unknown_lemma : forall m n d calls,
  NoDup (keys d) -> route m n d = Some calls ->
  forall o kw, In (o, kw) calls -> forall t v, In (t, v) kw -> In t (SHAPE o).
Proof.
  intros m n d calls Hn Hr o kw Hin t v Ht.
  destruct (route_pointwise_lemma _ _ _ _ Hn Hr) as (_ & Hlf & H).
  destruct (H _ _ Hin) as (Ho & _ & Hpw).
  apply route_some in Hr. destruct Hr as [Hv _].
  apply In_assoc_some in Ht. destruct Ht as [w Hw]. rewrite Hpw in Hw. unfold cell in Hw.
  set (p := match assoc (src m o t) d with Some _ => true | None => false end) in *.
  assert (Hna : cellK m o (last_full d) t p <> RAbsent).
  { intros E. rewrite E in Hw. discriminate. }
  assert (Hp : p = true -> In (src m o t) (allowed_of m)).
  { subst p. destruct (assoc (src m o t) d) eqn:Ha; [|discriminate]. intros _.
    apply assoc_In in Ha. eapply valid_keys; [exact Hv|].
    change (src m o t) with (fst (src m o t, z)). now apply in_map. }
  pose proof (cellK_universe _ _ _ _ _ Hna Hp) as Hu.
  pose proof nu_table as T. rewrite forallb_forall in T.
  specialize (T _ (all_modes_complete m)). rewrite forallb_forall in T.
  specialize (T _ Ho). rewrite forallb_forall in T.
  specialize (T _ Hu). rewrite forallb_forall in T.
  specialize (T _ Hlf). rewrite forallb_forall in T.
  specialize (T _ (bools_complete p)). unfold nu_ok in T.
  apply mem_In.
  destruct (cellK m o (last_full d) t p); [contradiction| | |]; cbn [res_absent negb andb] in T.
  all: destruct p; cbn [implb] in T.
  all: try (specialize (Hp eq_refl); apply mem_In in Hp; rewrite Hp in T; cbn in T).
  all: destruct (mem t (SHAPE o)); [reflexivity|discriminate T].
Qed.

(** * The routing table against the installed shapes *)

Lemma res_eqb_eq : forall a b, res_eqb a b = true -> a = b.
Proof.
  intros [] []; cbn; try discriminate; try reflexivity.
  intros H. apply String.eqb_eq in H. now subst.
Qed.

Lemma fwd_eqb_eq : forall a b, fwd_eqb a b = true -> a = b.
Proof.
  induction a as [|[t r] a IH]; intros [|[t' r'] b]; cbn; try discriminate; [reflexivity|].
  intros H. apply andb_prop in H. destruct H as [H H3]. apply andb_prop in H. destruct H as [H1 H2].
  apply String.eqb_eq in H1. apply res_eqb_eq in H2. subst. f_equal. auto.
Qed.

Definition table_ok (m : mode) (o : op) (a : string) (lf : option string) : bool :=
  fwd_eqb (forwarded m o lf a) (spec_forwarded m o lf a).

Lemma table_main :
  forallb (fun m => forallb (fun o => forallb (fun a => forallb (fun lf =>
    table_ok m o a lf) LFS) (allowed_of m)) (ops_of m)) MAIN_MODES = true.
Proof. vm_compute. reflexivity. Qed.

Lemma table_legacy :
  forallb (fun m => forallb (fun o => forallb (fun a => forallb (fun lf =>
    f6_cell m o a || table_ok m o a lf) LFS) (allowed_of m)) (ops_of m)) LEGACY_MODES = true.
Proof. vm_compute. reflexivity. Qed.

Lemma table_f6 :
  forallb (fun a => forallb (fun lf =>
    mem a (allowed_of (LegUpload true)) && mem a (SHAPE CompleteMultipartUpload)
    && fwd_eqb (forwarded (LegUpload true) CompleteMultipartUpload lf a) []
    && fwd_eqb (spec_forwarded (LegUpload true) CompleteMultipartUpload lf a) [(a, RUser)]) LFS)
    F6_NAMES = true.
Proof. vm_compute. reflexivity. Qed.

Lemma route_table_exact_lemma : forall m o a lf,
  In m MAIN_MODES -> In o (ops_of m) -> In a (allowed_of m) -> In lf LFS ->
  forwarded m o lf a = spec_forwarded m o lf a.
Proof.
  intros m o a lf Hm Ho Ha Hl. pose proof table_main as T.
  rewrite forallb_forall in T. specialize (T _ Hm).
  rewrite forallb_forall in T. specialize (T _ Ho).
  rewrite forallb_forall in T. specialize (T _ Ha).
  rewrite forallb_forall in T. specialize (T _ Hl).
  now apply fwd_eqb_eq.
Qed.

Lemma route_table_legacy_lemma : forall m o a lf,
  In m LEGACY_MODES -> In o (ops_of m) -> In a (allowed_of m) -> In lf LFS ->
  f6_cell m o a = false ->
  forwarded m o lf a = spec_forwarded m o lf a.
Proof.
  intros m o a lf Hm Ho Ha Hl Hf. pose proof table_legacy as T.
  rewrite forallb_forall in T. specialize (T _ Hm).
  rewrite forallb_forall in T. specialize (T _ Ho).
  rewrite forallb_forall in T. specialize (T _ Ha).
  rewrite forallb_forall in T. specialize (T _ Hl).
  rewrite Hf in T. now apply fwd_eqb_eq.
Qed.

Lemma f6_lemma : forall a lf, In a F6_NAMES -> In lf LFS ->
  In a (allowed_of (LegUpload true)) /\ In a (SHAPE CompleteMultipartUpload) /\
  forwarded (LegUpload true) CompleteMultipartUpload lf a = [] /\
  spec_forwarded (LegUpload true) CompleteMultipartUpload lf a = [(a, RUser)].
Proof.
  intros a lf Ha Hl. pose proof table_f6 as T.
  rewrite forallb_forall in T. specialize (T _ Ha).
  rewrite forallb_forall in T. specialize (T _ Hl).
  apply andb_prop in T. destruct T as [T T4]. apply andb_prop in T. destruct T as [T T3].
  apply andb_prop in T. destruct T as [T1 T2].
  repeat split; try (now apply mem_In); now apply fwd_eqb_eq.
Qed.

(** [forwarded] is exactly the set of slots of a call that the user's
    argument [a] feeds. *)
Lemma forwarded_sound : forall m o lf a t r,
  In (t, r) (forwarded m o lf a) -> src m o t = a /\ cellK m o lf t true = r /\ r <> RAbsent.
Proof.
  intros m o lf a t r H. unfold forwarded in H. apply in_flat_map in H.
  destruct H as (t' & _ & H).
  destruct (String.eqb_spec (src m o t') a) as [E|_]; cbn [andb] in H; [|destruct H].
  destruct (res_absent (cellK m o lf t' true)) eqn:Ea; cbn [negb] in H; [destruct H|].
  destruct H as [[= <- <-]|[]]. repeat split; auto. intros E'. rewrite E' in Ea. discriminate.
Qed.

Lemma src_cases : forall m o t, src m o t = t \/ fwd_name m o (src m o t) = t.
Proof.
  intros m o t. unfold src, fwd_name. destruct (recipe_of m o); auto.
  destruct (find _ CP_HEAD_MAPPING) as [kv|] eqn:Hf; [|now left]. right.
  apply find_snd_some in Hf. destruct Hf as [Hin <-].
  pose proof head_map_ok as HM. unfold map_ok in HM. apply andb_prop in HM. destruct HM as [HM _].
  rewrite forallb_forall in HM. specialize (HM _ Hin).
  destruct (assoc (fst kv) CP_HEAD_MAPPING); [|discriminate]. now apply String.eqb_eq in HM.
Qed.

Lemma forwarded_complete : forall m o lf t,
  cellK m o lf t true <> RAbsent -> In (t, cellK m o lf t true) (forwarded m o lf (src m o t)).
Proof.
  intros m o lf t Hna. unfold forwarded. apply in_flat_map. exists t. split.
  - destruct (src_cases m o t) as [E|E].
    + rewrite E. destruct (String.eqb (fwd_name m o t) t); cbn; tauto.
    + rewrite E. destruct (String.eqb_spec t (src m o t)) as [<-|_]; cbn; tauto.
  - rewrite String.eqb_refl. cbn [andb].
    destruct (cellK m o lf t true); cbn; tauto.
Qed.

(** End-to-end, for every dictionary: what the specification demands for a
    bound argument is in the call, and every user value in a call is demanded
    by the specification. *)
Definition good_cell (m : mode) (o : op) (a : string) : Prop :=
  In m MAIN_MODES \/ (In m LEGACY_MODES /\ f6_cell m o a = false).

Lemma modes_split : forall m, In m MAIN_MODES \/ In m LEGACY_MODES.
Proof. intros m. apply in_app_or. apply all_modes_complete. Qed.

Lemma route_exact_forward_lemma : forall m n d calls,
  NoDup (keys d) -> route m n d = Some calls ->
  forall o kw, In (o, kw) calls ->
  forall a v, assoc a d = Some v -> good_cell m o a ->
  forall t r, In (t, r) (spec_forwarded m o (last_full d) a) -> assoc t kw = interp r (Some v).
Proof.
  intros m n d calls Hn Hr o kw Hin a v Ha Hg t r Hs.
  destruct (route_pointwise_lemma _ _ _ _ Hn Hr) as (_ & Hlf & H).
  destruct (H _ _ Hin) as (Ho & _ & Hpw).
  apply route_some in Hr. destruct Hr as [Hv _].
  assert (Hal : In a (allowed_of m)).
  { eapply valid_keys; [exact Hv|]. apply assoc_In in Ha. change a with (fst (a, v)). now apply in_map. }
  assert (E : forwarded m o (last_full d) a = spec_forwarded m o (last_full d) a).
  { destruct Hg as [Hm|[Hm Hf]].
    - now apply route_table_exact_lemma.
    - now apply route_table_legacy_lemma. }
  rewrite <- E in Hs. apply forwarded_sound in Hs. destruct Hs as (Hsrc & Hc & _).
  rewrite Hpw, Hsrc, Ha. unfold cell. now rewrite Hc.
Qed.

Lemma route_exact_backward_lemma : forall m n d calls,
  NoDup (keys d) -> route m n d = Some calls ->
  forall o kw, In (o, kw) calls ->
  forall t v, In (t, U v) kw ->
    In (src m o t, v) d /\ In (t, RUser) (spec_forwarded m o (last_full d) (src m o t)).
Proof.
  intros m n d calls Hn Hr o kw Hin t v Ht.
  split; [eapply values_unmodified_lemma; eauto|].
  destruct (route_pointwise_lemma _ _ _ _ Hn Hr) as (_ & Hlf & H).
  destruct (H _ _ Hin) as (Ho & Hnd & Hpw).
  apply route_some in Hr. destruct Hr as [Hv _].
  apply (In_assoc_nodup _ _ _ _ Hnd) in Ht. rewrite Hpw in Ht.
  pose proof (cell_user _ _ _ _ _ _ Ht) as Hx. rewrite Hx in Ht. unfold cell in Ht. cbn [is_some] in Ht.
  assert (Hc : cellK m o (last_full d) t true = RUser).
  { destruct (cellK m o (last_full d) t true); cbn in Ht; try discriminate. reflexivity. }
  assert (Hal : In (src m o t) (allowed_of m)).
  { eapply valid_keys; [exact Hv|]. apply assoc_In in Hx.
    change (src m o t) with (fst (src m o t, v)). now apply in_map. }
  assert (Hf : In (t, RUser) (forwarded m o (last_full d) (src m o t))).
  { rewrite <- Hc. apply forwarded_complete. rewrite Hc. discriminate. }
  destruct (modes_split m) as [Hm|Hm].
  - now rewrite <- (route_table_exact_lemma m o _ _ Hm Ho Hal Hlf).
  - destruct (f6_cell m o (src m o t)) eqn:Hf6.
    + exfalso. destruct m as [| | | |[]| |]; try discriminate Hf6; destruct o; try discriminate Hf6.
      cbn [f6_cell] in Hf6. apply mem_In in Hf6.
      destruct (f6_lemma _ _ Hf6 Hlf) as (_ & _ & E & _). rewrite E in Hf. destruct Hf.
    + now rewrite <- (route_table_legacy_lemma m o _ _ Hm Ho Hal Hlf Hf6).
Qed.

(** * Checksum rules *)

Definition fo_ok (ws : bool) (c : string) (o : op) (p : bool) : bool :=
  let m := TMUpload ws true in
  res_eqb (cellK m o (Some c) "ChecksumType" p)
          (if mem "ChecksumType" (SHAPE o) then RLit "FULL_OBJECT" else RAbsent)
  && res_eqb (cellK m o (Some c) "ChecksumAlgorithm" p)
             (if mem "ChecksumAlgorithm" (SHAPE o) then RLit (sdrop 8 c) else RAbsent)
  && String.eqb c ("Checksum" ++ sdrop 8 c)
  && is_full_checksum_name c
  && mem c (allowed_of m).

Definition fo_names_ok (ws mp : bool) (lf : option string) (c : string) : bool :=
  let m := TMUpload ws mp in
  forallb (fun o => res_eqb (cellK m o lf c true)
                            (if mem c (SHAPE o) && negb (is_upload_part o) then RUser else RAbsent))
          (ops_of m).

Definition fo_single_ok (ws : bool) (c : string) (p : bool) : bool :=
  let m := TMUpload ws false in
  res_eqb (cellK m PutObject (Some c) "ChecksumType" p) RAbsent
  && res_eqb (cellK m PutObject (Some c) "ChecksumAlgorithm" p) (if p then RUser else RAbsent).

Lemma fo_table :
  forallb (fun ws => forallb (fun c =>
    forallb (fun p => forallb (fun o => fo_ok ws c o p) (ops_of (TMUpload ws true))
                      && fo_single_ok ws c p) BOOLS
    && forallb (fun mp => forallb (fun lf => fo_names_ok ws mp lf c) LFS) BOOLS)
    FULL_OBJECT_CHECKSUM_ARGS) BOOLS
  && forallb (fun a => implb (is_full_checksum_name a) (mem a FULL_OBJECT_CHECKSUM_ARGS))
             TM_ALLOWED_UPLOAD_ARGS = true.
Proof. vm_compute. reflexivity. Qed.

Definition crc_ok (m : mode) (o : op) (lf : option string) (p : bool) : bool :=
  match m with
  | TMUpload ws mp =>
      implb (mem "ChecksumAlgorithm" (SHAPE o) && negb (is_some lf))
            (res_eqb (cellK m o lf "ChecksumAlgorithm" p)
                     (if p then RUser else if ws then RLit "CRC32" else RAbsent))
  | _ => res_eqb (cellK m o lf "ChecksumAlgorithm" false) RAbsent
  end.

Lemma crc_table :
  forallb (fun m => forallb (fun o => forallb (fun lf => forallb (fun p =>
    crc_ok m o lf p) BOOLS) LFS) (ops_of m)) ALL_MODES
  && String.eqb DEFAULT_CHECKSUM_ALGORITHM "CRC32" = true.
Proof. vm_compute. reflexivity. Qed.

(** Readable forms of the two finite checksum tables. *)

Lemma last_full_none : forall (V : Type) (d : list (string * V)),
  last_full d = None <-> forall c, In c FULL_OBJECT_CHECKSUM_ARGS -> has c d = false.
Proof.
  intros V d. unfold last_full. split.
  - intros H c Hc. apply in_rev in Hc. exact (find_none _ _ H _ Hc).
  - intros H. destruct (find _ _) as [c|] eqn:Hf; [|reflexivity].
    apply find_some in Hf. destruct Hf as [Hin Hh]. apply in_rev in Hin.
    rewrite (H _ Hin) in Hh. discriminate.
Qed.

Lemma last_full_some : forall (V : Type) (d : list (string * V)) c,
  last_full d = Some c -> In c FULL_OBJECT_CHECKSUM_ARGS /\ has c d = true.
Proof.
  intros V d c H. unfold last_full in H. apply find_some in H. destruct H as [Hin Hh].
  apply in_rev in Hin. auto.
Qed.

Lemma full_object_cells : forall ws c, In c FULL_OBJECT_CHECKSUM_ARGS ->
  (is_full_checksum_name c = true /\ c = ("Checksum" ++ sdrop 8 c)%string /\ In c TM_ALLOWED_UPLOAD_ARGS) /\
  (forall o p, In o (ops_of (TMUpload ws true)) ->
     cellK (TMUpload ws true) o (Some c) "ChecksumType" p =
       (if mem "ChecksumType" (SHAPE o) then RLit "FULL_OBJECT" else RAbsent) /\
     cellK (TMUpload ws true) o (Some c) "ChecksumAlgorithm" p =
       (if mem "ChecksumAlgorithm" (SHAPE o) then RLit (sdrop 8 c) else RAbsent)) /\
  (forall mp lf o, In lf LFS -> In o (ops_of (TMUpload ws mp)) ->
     cellK (TMUpload ws mp) o lf c true =
       (if mem c (SHAPE o) && negb (is_upload_part o) then RUser else RAbsent)) /\
  (forall p, cellK (TMUpload ws false) PutObject (Some c) "ChecksumType" p = RAbsent /\
             cellK (TMUpload ws false) PutObject (Some c) "ChecksumAlgorithm" p =
               (if p then RUser else RAbsent)).
Proof.
  intros ws c Hc. pose proof fo_table as T. apply andb_prop in T. destruct T as [T _].
  rewrite forallb_forall in T. specialize (T _ (bools_complete ws)).
  rewrite forallb_forall in T. specialize (T _ Hc).
  apply andb_prop in T. destruct T as [T1 T2].
  rewrite forallb_forall in T1, T2.
  assert (A : forall o p, In o (ops_of (TMUpload ws true)) -> fo_ok ws c o p = true).
  { intros o p Ho. specialize (T1 _ (bools_complete p)). apply andb_prop in T1. destruct T1 as [T1 _].
    rewrite forallb_forall in T1. exact (T1 _ Ho). }
  assert (Hput : In CreateMultipartUpload (ops_of (TMUpload ws true))) by (cbn; tauto).
  assert (A' : forall o p, In o (ops_of (TMUpload ws true)) ->
     (cellK (TMUpload ws true) o (Some c) "ChecksumType" p =
        (if mem "ChecksumType" (SHAPE o) then RLit "FULL_OBJECT" else RAbsent) /\
      cellK (TMUpload ws true) o (Some c) "ChecksumAlgorithm" p =
        (if mem "ChecksumAlgorithm" (SHAPE o) then RLit (sdrop 8 c) else RAbsent)) /\
     (is_full_checksum_name c = true /\ c = ("Checksum" ++ sdrop 8 c)%string /\ In c TM_ALLOWED_UPLOAD_ARGS)).
  { intros o p Ho. specialize (A _ p Ho). unfold fo_ok in A.
    apply andb_prop in A. destruct A as [A A5]. apply andb_prop in A. destruct A as [A A4].
    apply andb_prop in A. destruct A as [A A3]. apply andb_prop in A. destruct A as [A1 A2].
    apply res_eqb_eq in A1, A2. apply String.eqb_eq in A3. apply mem_In in A5. tauto. }
  split; [exact (proj2 (A' _ true Hput))|].
  split; [intros o p Ho; exact (proj1 (A' o p Ho))|].
  split.
  - intros mp lf o Hl Ho. specialize (T2 _ (bools_complete mp)). rewrite forallb_forall in T2.
    specialize (T2 _ Hl). unfold fo_names_ok in T2. rewrite forallb_forall in T2.
    apply res_eqb_eq. exact (T2 _ Ho).
  - intros p. specialize (T1 _ (bools_complete p)). apply andb_prop in T1. destruct T1 as [_ T1].
    unfold fo_single_ok in T1. apply andb_prop in T1. destruct T1 as [T1 T1'].
    split; now apply res_eqb_eq.
Qed.

Lemma full_names_complete : forall a, In a TM_ALLOWED_UPLOAD_ARGS ->
  is_full_checksum_name a = true -> In a FULL_OBJECT_CHECKSUM_ARGS.
Proof.
  intros a Ha Hf. pose proof fo_table as T. apply andb_prop in T. destruct T as [_ T].
  rewrite forallb_forall in T. specialize (T _ Ha). rewrite Hf in T. cbn in T. now apply mem_In.
Qed.

Lemma upload_src : forall ws mp o t, src (TMUpload ws mp) o t = t.
Proof. intros ws mp o t. apply src_pass. destruct o; cbn; discriminate. Qed.

Lemma cell_eq : forall m o lf t x, cell m o lf t x = interp (cellK m o lf t (is_some x)) x.
Proof. reflexivity. Qed.

Lemma full_object_route : forall ws n d calls c,
  NoDup (keys d) -> route (TMUpload ws true) n d = Some calls -> last_full d = Some c ->
  forall o kw, In (o, kw) calls ->
    assoc "ChecksumType" kw =
      (if mem "ChecksumType" (SHAPE o) then Some (L "FULL_OBJECT") else None) /\
    assoc "ChecksumAlgorithm" kw =
      (if mem "ChecksumAlgorithm" (SHAPE o) then Some (L (sdrop 8 c)) else None) /\
    (forall c' v, In c' FULL_OBJECT_CHECKSUM_ARGS -> assoc c' d = Some v ->
       assoc c' kw = if mem c' (SHAPE o) && negb (is_upload_part o) then Some (U v) else None).
Proof.
  intros ws n d calls c Hn Hr Hlf o kw Hin.
  destruct (route_pointwise_lemma _ _ _ _ Hn Hr) as (_ & Hl & H).
  destruct (H _ _ Hin) as (Ho & _ & Hpw).
  destruct (last_full_some _ _ _ Hlf) as [Hc _].
  destruct (full_object_cells ws c Hc) as (_ & A & B & _).
  repeat split.
  - rewrite Hpw, upload_src, Hlf, cell_eq. destruct (A o (is_some (assoc "ChecksumType" d)) Ho) as [-> _].
    destruct (mem _ _); reflexivity.
  - rewrite Hpw, upload_src, Hlf, cell_eq. destruct (A o (is_some (assoc "ChecksumAlgorithm" d)) Ho) as [_ ->].
    destruct (mem _ _); reflexivity.
  - intros c' v Hc' Hv. rewrite Hpw, upload_src, Hv, cell_eq. cbn [is_some].
    destruct (full_object_cells ws c' Hc') as (_ & _ & B' & _).
    rewrite (B' true _ o Hl Ho). destruct (_ && _); reflexivity.
Qed.

Lemma crc_cells : forall m o lf p, In o (ops_of m) -> In lf LFS -> crc_ok m o lf p = true.
Proof.
  intros m o lf p Ho Hl. pose proof crc_table as T. apply andb_prop in T. destruct T as [T _].
  rewrite forallb_forall in T. specialize (T _ (all_modes_complete m)).
  rewrite forallb_forall in T. specialize (T _ Ho).
  rewrite forallb_forall in T. specialize (T _ Hl).
  rewrite forallb_forall in T. exact (T _ (bools_complete p)).
Qed.

Lemma crc32_route : forall ws mp n d calls,
  NoDup (keys d) -> route (TMUpload ws mp) n d = Some calls -> last_full d = None ->
  forall o kw, In (o, kw) calls -> mem "ChecksumAlgorithm" (SHAPE o) = true ->
    assoc "ChecksumAlgorithm" kw =
      match assoc "ChecksumAlgorithm" d with
      | Some v => Some (U v)
      | None => if ws then Some (L "CRC32") else None
      end.
Proof.
  intros ws mp n d calls Hn Hr Hlf o kw Hin Hm.
  destruct (route_pointwise_lemma _ _ _ _ Hn Hr) as (_ & Hl & H).
  destruct (H _ _ Hin) as (Ho & _ & Hpw).
  rewrite Hpw, upload_src, Hlf, cell_eq.
  pose proof (crc_cells (TMUpload ws mp) o None (is_some (assoc "ChecksumAlgorithm" d)) Ho (or_introl eq_refl)) as C.
  unfold crc_ok in C. rewrite Hm in C. cbn [is_some negb andb implb] in C. apply res_eqb_eq in C.
  rewrite C.
  destruct (assoc "ChecksumAlgorithm" d); [reflexivity|]. destruct ws; reflexivity.
Qed.

Lemma crc32_never_elsewhere : forall m o lf, In o (ops_of m) -> In lf LFS ->
  (forall ws mp, m <> TMUpload ws mp) ->
  cellK m o lf "ChecksumAlgorithm" false = RAbsent.
Proof.
  intros m o lf Ho Hl Hm. pose proof (crc_cells m o lf false Ho Hl) as C.
  destruct m; try (apply res_eqb_eq in C; exact C). exfalso. eapply Hm. reflexivity.
Qed.

Lemma default_is_crc32 : DEFAULT_CHECKSUM_ALGORITHM = "CRC32".
Proof. vm_compute. reflexivity. Qed.

(** * Sequences of transfers: routing depends on the current call only *)
Lemma route_seq_local : forall pre post m n d,
  nth_error (route_seq (pre ++ (m, n, d) :: post)) (List.length pre) = Some (route m n d).
Proof.
  intros pre post m n d. unfold route_seq. rewrite map_app.
  rewrite nth_error_app2 by (rewrite map_length; apply le_n).
  rewrite map_length, Nat.sub_diag. reflexivity.
Qed.
