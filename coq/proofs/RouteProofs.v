(** Lemmas about model/Route.v (property C15). *)
From Coq Require Import ZArith List Bool String Ascii Lia.
From S3V Require Import gen.Tables gen.Shapes model.Route.
Import ListNotations.
Open Scope string_scope.
Open Scope list_scope.

(** * Association lists *)

Lemma mem_In : forall a l, mem a l = true <-> In a l.
Proof.
  intros a l. unfold mem. rewrite existsb_exists. split.
  - intros (x & Hx & He). apply String.eqb_eq in He. now subst.
  - intros H. exists a. split; [exact H|apply String.eqb_refl].
Qed.

Lemma mem_false_notin : forall a l, mem a l = false <-> ~ In a l.
Proof.
  intros a l. rewrite <- mem_In. destruct (mem a l); split; intros; easy.
Qed.

Lemma mem_app : forall a l l', mem a (l ++ l') = mem a l || mem a l'.
Proof. intros. unfold mem. apply existsb_app. Qed.

Lemma assoc_app : forall (V : Type) t (a b : list (string * V)),
  assoc t (a ++ b) = match assoc t a with Some v => Some v | None => assoc t b end.
Proof.
  intros V t a b. induction a as [|[k v] a IH]; cbn [assoc app]; [reflexivity|].
  destruct (String.eqb k t); [reflexivity|exact IH].
Qed.

Lemma assoc_S_ : forall t names, assoc t (S_ names) = if mem t names then Some P else None.
Proof.
  intros t names. induction names as [|k names IH]; cbn; [reflexivity|].
  rewrite (String.eqb_sym t k). destruct (String.eqb k t); cbn; [reflexivity|exact IH].
Qed.

Lemma assoc_inject : forall t d, assoc t (inject d) = option_map U (assoc t d).
Proof.
  intros t d. induction d as [|[k v] d IH]; cbn; [reflexivity|].
  destruct (String.eqb k t); [reflexivity|exact IH].
Qed.

Lemma keys_inject : forall d, keys (inject d) = keys d.
Proof. intros d. unfold keys, inject. rewrite map_map. reflexivity. Qed.

Lemma assoc_filter : forall (V : Type) (p : string -> bool) t (e : list (string * V)),
  assoc t (filter (fun kv => p (fst kv)) e) = if p t then assoc t e else None.
Proof.
  intros V p t e. induction e as [|[k v] e IH]; cbn [filter assoc fst].
  - destruct (p t); reflexivity.
  - destruct (String.eqb_spec k t) as [->|Hne].
    + destruct (p t) eqn:Hp; cbn [assoc].
      * now rewrite String.eqb_refl.
      * exact IH.
    + destruct (p k); cbn [assoc]; [|exact IH].
      destruct (String.eqb_spec k t); [contradiction|exact IH].
Qed.

Lemma assoc_dset : forall (V : Type) k (v : V) t e,
  assoc t (dset k v e) = if String.eqb k t then Some v else assoc t e.
Proof.
  intros V k v t e. induction e as [|[k' v'] e IH]; cbn [dset assoc].
  - destruct (String.eqb k t); reflexivity.
  - destruct (String.eqb_spec k' k) as [->|Hne]; cbn [assoc].
    + destruct (String.eqb k t); reflexivity.
    + destruct (String.eqb_spec k' t) as [->|Hne'].
      * destruct (String.eqb_spec k t); [congruence|reflexivity].
      * exact IH.
Qed.

Lemma has_dset : forall (V : Type) k (v : V) c e,
  has c (dset k v e) = String.eqb k c || has c e.
Proof. intros. unfold has. rewrite assoc_dset. destruct (String.eqb k c); reflexivity. Qed.

Lemma assoc_notin : forall (V : Type) t (e : list (string * V)), ~ In t (keys e) -> assoc t e = None.
Proof.
  intros V t e. induction e as [|[k v] e IH]; cbn; [reflexivity|]. intros H.
  destruct (String.eqb_spec k t) as [->|_]; [exfalso; auto|]. apply IH. intros Hi; auto.
Qed.

Lemma assoc_In : forall (V : Type) t (v : V) e, assoc t e = Some v -> In (t, v) e.
Proof.
  intros V t v e. induction e as [|[k w] e IH]; cbn; [discriminate|].
  destruct (String.eqb_spec k t) as [->|_].
  - intros [= ->]. now left.
  - intros H. right. auto.
Qed.

Lemma In_assoc_some : forall (V : Type) t (v : V) e, In (t, v) e -> exists w, assoc t e = Some w.
Proof.
  intros V t v e. induction e as [|[k w] e IH]; cbn; [easy|].
  intros [[= -> ->]|H].
  - rewrite String.eqb_refl. eauto.
  - destruct (String.eqb k t); eauto.
Qed.

Lemma In_assoc_nodup : forall (V : Type) t (v : V) e,
  NoDup (keys e) -> In (t, v) e -> assoc t e = Some v.
Proof.
  intros V t v e. induction e as [|[k w] e IH]; cbn; [easy|].
  intros Hn [[= -> ->]|H].
  - now rewrite String.eqb_refl.
  - inversion Hn as [|? ? Hk Hn']; subst.
    destruct (String.eqb_spec k t) as [->|_].
    + exfalso. apply Hk. change (In (fst (t, v)) (map fst e)). now apply in_map.
    + auto.
Qed.

Lemma assoc_update : forall (V : Type) t (b a : list (string * V)),
  NoDup (keys b) ->
  assoc t (update a b) = match assoc t b with Some v => Some v | None => assoc t a end.
Proof.
  intros V t b. unfold update. induction b as [|[k v] b IH]; intros a Hn; cbn [fold_left assoc fst snd].
  - reflexivity.
  - inversion Hn as [|? ? Hk Hn']; subst. rewrite (IH _ Hn'), assoc_dset.
    destruct (String.eqb_spec k t) as [->|_]; [|reflexivity].
    now rewrite (assoc_notin _ _ _ Hk).
Qed.

Lemma valid_keys : forall d A k, validate d A = true -> In k (keys d) -> In k A.
Proof.
  intros d A k Hv Hk. unfold validate in Hv. rewrite forallb_forall in Hv.
  unfold keys in Hk. apply in_map_iff in Hk. destruct Hk as ([k' v] & <- & Hin).
  apply mem_In. exact (Hv _ Hin).
Qed.

Lemma valid_notin : forall d A t, validate d A = true -> mem t A = false -> assoc t d = None.
Proof.
  intros d A t Hv Hm. apply assoc_notin. intros Hk.
  apply mem_false_notin in Hm. apply Hm. eapply valid_keys; eauto.
Qed.

Lemma find_app_ : forall (A : Type) (f : A -> bool) l l',
  find f (l ++ l') = match find f l with Some x => Some x | None => find f l' end.
Proof.
  intros A f l l'. induction l as [|x l IH]; cbn; [reflexivity|]. destruct (f x); auto.
Qed.

Lemma find_ext_in : forall (A : Type) (f g : A -> bool) l,
  (forall x, In x l -> f x = g x) -> find f l = find g l.
Proof.
  intros A f g l. induction l as [|x l IH]; intros H; cbn; [reflexivity|].
  rewrite (H x (or_introl eq_refl)). destruct (g x); [reflexivity|].
  apply IH. intros; apply H; now right.
Qed.

Lemma existsb_ext_in : forall (A : Type) (f g : A -> bool) l,
  (forall x, In x l -> f x = g x) -> existsb f l = existsb g l.
Proof.
  intros A f g l. induction l as [|x l IH]; intros H; cbn; [reflexivity|].
  rewrite (H x (or_introl eq_refl)). f_equal. apply IH. intros; apply H; now right.
Qed.

Lemma existsb_find_rev : forall (A : Type) (f : A -> bool) l,
  existsb f l = is_some (find f (rev l)).
Proof.
  intros A f l. induction l as [|x l IH]; cbn [existsb rev]; [reflexivity|].
  rewrite find_app_, IH. cbn [find].
  destruct (find f (rev l)); cbn; [apply orb_true_r|].
  destruct (f x); reflexivity.
Qed.

(** * The upload's effective dictionary, slot by slot *)

Definition CT := "ChecksumType".
Definition CA := "ChecksumAlgorithm".

Lemma rw_other : forall F e k, k <> CT -> k <> CA ->
  assoc k (fold_left rewrite_step F e) = assoc k e.
Proof.
  induction F as [|c F IH]; intros e k H1 H2; cbn [fold_left]; [reflexivity|].
  rewrite (IH _ _ H1 H2). unfold rewrite_step. destruct (has c e); [|reflexivity].
  rewrite !assoc_dset.
  destruct (String.eqb_spec "ChecksumAlgorithm" k); [exfalso; apply H2; now subst|].
  destruct (String.eqb_spec "ChecksumType" k); [exfalso; apply H1; now subst|reflexivity].
Qed.

Lemma has_step : forall e c c', c' <> CT -> c' <> CA -> has c' (rewrite_step e c) = has c' e.
Proof.
  intros e c c' H1 H2. unfold rewrite_step. destruct (has c e); [|reflexivity].
  rewrite !has_dset.
  destruct (String.eqb_spec "ChecksumAlgorithm" c'); [exfalso; apply H2; now subst|].
  destruct (String.eqb_spec "ChecksumType" c'); [exfalso; apply H1; now subst|reflexivity].
Qed.

Lemma notmem_ne : forall k F c, mem k F = false -> In c F -> c <> k.
Proof. intros k F c Hm Hc ->. apply mem_false_notin in Hm. auto. Qed.

Lemma rw_CT : forall F e, mem CT F = false -> mem CA F = false ->
  assoc CT (fold_left rewrite_step F e) =
  if existsb (fun c => has c e) F then Some (L "FULL_OBJECT") else assoc CT e.
Proof.
  induction F as [|c F IH]; intros e H1 H2; cbn [fold_left existsb]; [reflexivity|].
  assert (H1' : mem CT F = false) by (cbn in H1; apply orb_false_elim in H1; tauto).
  assert (H2' : mem CA F = false) by (cbn in H2; apply orb_false_elim in H2; tauto).
  rewrite (IH _ H1' H2').
  rewrite (existsb_ext_in _ (fun c0 => has c0 (rewrite_step e c)) (fun c0 => has c0 e)).
  2:{ intros x Hx. apply has_step; eapply notmem_ne; eauto. }
  unfold rewrite_step. destruct (has c e); cbn [orb]; [|reflexivity].
  rewrite !assoc_dset. cbn. destruct (existsb _ F); reflexivity.
Qed.

Lemma rw_CA : forall F e, mem CT F = false -> mem CA F = false ->
  assoc CA (fold_left rewrite_step F e) =
  match find (fun c => has c e) (rev F) with
  | Some c => Some (L (remove_all "Checksum" c))
  | None => assoc CA e
  end.
Proof.
  induction F as [|c F IH]; intros e H1 H2; cbn [fold_left rev]; [reflexivity|].
  assert (H1' : mem CT F = false) by (cbn in H1; apply orb_false_elim in H1; tauto).
  assert (H2' : mem CA F = false) by (cbn in H2; apply orb_false_elim in H2; tauto).
  rewrite (IH _ H1' H2'), find_app_.
  rewrite (find_ext_in _ (fun c0 => has c0 (rewrite_step e c)) (fun c0 => has c0 e)).
  2:{ intros x Hx. apply in_rev in Hx. apply has_step; eapply notmem_ne; eauto. }
  destruct (find _ (rev F)); [reflexivity|]. cbn [find].
  unfold rewrite_step. destruct (has c e); [|reflexivity].
  rewrite assoc_dset. reflexivity.
Qed.

Lemma full_side : mem CT FULL_OBJECT_CHECKSUM_ARGS = false /\ mem CA FULL_OBJECT_CHECKSUM_ARGS = false.
Proof. vm_compute. split; reflexivity. Qed.

Lemma has_inject : forall c d, has c (inject d) = has c d.
Proof. intros. unfold has. rewrite assoc_inject. destruct (assoc c d); reflexivity. Qed.

Lemma interp_user : forall (t : string) (x : option Z),
  interp (if is_some x then RUser else RAbsent) x = option_map U x.
Proof. intros t [v|]; reflexivity. Qed.

(** the dictionary after _add_operation_defaults *)
Definition e1_of (ws : bool) (d : dict) : kwargs :=
  if ws then set_default_checksum_algorithm (inject d) else inject d.

Lemma e1_lookup : forall ws d t,
  assoc t (e1_of ws d) =
  if ws && negb (is_some (last_full d)) && String.eqb CA t && negb (has CA d)
  then Some (L DEFAULT_CHECKSUM_ALGORITHM) else option_map U (assoc t d).
Proof.
  intros ws d t. unfold e1_of. destruct ws; cbn [andb]; [|apply assoc_inject].
  unfold set_default_checksum_algorithm.
  rewrite (existsb_ext_in _ (fun c => has c (inject d)) (fun c => has c d))
    by (intros; apply has_inject).
  rewrite existsb_find_rev. fold (last_full d).
  destruct (is_some (last_full d)); cbn [negb andb]; [apply assoc_inject|].
  unfold setdefault. rewrite has_inject. fold CA.
  destruct (has CA d) eqn:Hh; cbn [negb].
  - rewrite andb_false_r. apply assoc_inject.
  - rewrite andb_true_r, assoc_dset. fold CA. destruct (String.eqb CA t); [reflexivity|apply assoc_inject].
Qed.

Lemma has_e1 : forall ws d c, c <> CA -> has c (e1_of ws d) = has c d.
Proof.
  intros ws d c Hc. unfold has. rewrite e1_lookup.
  destruct (String.eqb_spec CA c) as [E|_]; [exfalso; auto|].
  rewrite andb_false_r. cbn [andb]. destruct (assoc c d); reflexivity.
Qed.

Lemma last_full_e1 : forall ws d, last_full (e1_of ws d) = last_full d.
Proof.
  intros ws d. unfold last_full. apply find_ext_in. intros c Hc. apply in_rev in Hc.
  apply has_e1. eapply notmem_ne; [apply full_side|exact Hc].
Qed.

Lemma eff_upload_lookup : forall ws mp d t,
  assoc t (eff_upload ws mp d) = interp (eff_res ws mp (last_full d) t (has t d)) (assoc t d).
Proof.
  intros ws mp d t. destruct full_side as [S1 S2].
  change (eff_upload ws mp d) with (if mp then full_object_rewrite (e1_of ws d) else e1_of ws d).
  unfold eff_res, has. fold CT CA.
  destruct (String.eqb_spec t CT) as [->|NCT].
  { (* ChecksumType *)
    destruct mp.
    - unfold full_object_rewrite. rewrite (rw_CT _ _ S1 S2).
      rewrite (existsb_find_rev _ (fun c => has c (e1_of ws d))). fold (last_full (e1_of ws d)).
      rewrite last_full_e1, e1_lookup.
      change (String.eqb CA CT) with false. rewrite andb_false_r. cbn [andb].
      destruct (last_full d); cbn [is_some]; [reflexivity|].
      destruct (assoc CT d); reflexivity.
    - rewrite e1_lookup. change (String.eqb CA CT) with false. rewrite andb_false_r. cbn [andb].
      destruct (last_full d); destruct (assoc CT d); reflexivity. }
  destruct (String.eqb_spec t CA) as [->|NCA].
  { (* ChecksumAlgorithm *)
    destruct mp.
    - unfold full_object_rewrite. rewrite (rw_CA _ _ S1 S2). fold (last_full (e1_of ws d)).
      rewrite last_full_e1, e1_lookup, String.eqb_refl, andb_true_r. unfold has.
      destruct (last_full d); cbn [is_some negb andb]; [reflexivity|].
      rewrite andb_true_r. destruct (assoc CA d); destruct ws; reflexivity.
    - rewrite e1_lookup, String.eqb_refl, andb_true_r. unfold has.
      destruct (last_full d); cbn [is_some negb andb].
      + rewrite andb_false_r. cbn [andb]. destruct (assoc CA d); reflexivity.
      + rewrite andb_true_r. destruct (assoc CA d); destruct ws; reflexivity. }
  (* any other name *)
  assert (E : assoc t (e1_of ws d) = option_map U (assoc t d)).
  { rewrite e1_lookup. destruct (String.eqb_spec CA t) as [<-|_]; [contradiction|].
    rewrite andb_false_r. reflexivity. }
  destruct mp.
  - unfold full_object_rewrite. rewrite (rw_other _ _ _ NCT NCA), E. destruct (assoc t d); reflexivity.
  - rewrite E. destruct (assoc t d); reflexivity.
Qed.

(** * Copy: the head mapping, slot by slot *)

Definition map_ok (M : list (string * string)) : bool :=
  forallb (fun kv => match assoc (fst kv) M with
                     | Some t => String.eqb t (snd kv) | None => false end) M
  && forallb (fun kv => forallb (fun kv' =>
                implb (String.eqb (snd kv) (snd kv')) (String.eqb (fst kv) (fst kv'))) M) M.

Definition hm_step (M : list (string * string)) (req : kwargs) (kv : string * val) : kwargs :=
  match assoc (fst kv) M with Some t => dset t (snd kv) req | None => req end.

Lemma find_snd_some : forall (M : list (string * string)) t kv,
  find (fun kv => String.eqb (snd kv) t) M = Some kv -> In kv M /\ snd kv = t.
Proof. intros M t kv H. apply find_some in H. destruct H as [H1 H2]. apply String.eqb_eq in H2. auto. Qed.

Lemma find_snd_none : forall (M : list (string * string)) t k,
  find (fun kv => String.eqb (snd kv) t) M = None -> ~ In (k, t) M.
Proof.
  intros M t k H Hin. eapply find_none in H; [|exact Hin]. cbn in H.
  now rewrite String.eqb_refl in H.
Qed.

Lemma head_map_lookup : forall M, map_ok M = true -> forall t d req,
  NoDup (keys d) ->
  assoc t (fold_left (hm_step M) (inject d) req) =
  match find (fun kv => String.eqb (snd kv) t) M with
  | Some kv => match assoc (fst kv) d with Some v => Some (U v) | None => assoc t req end
  | None => assoc t req
  end.
Proof.
  intros M HM t. unfold map_ok in HM. apply andb_prop in HM. destruct HM as [HM1 HM2].
  rewrite forallb_forall in HM1, HM2.
  assert (F1 : forall kv, In kv M -> assoc (fst kv) M = Some (snd kv)).
  { intros kv Hin. specialize (HM1 _ Hin). destruct (assoc (fst kv) M); [|discriminate].
    apply String.eqb_eq in HM1. now subst. }
  assert (F2 : forall kv kv', In kv M -> In kv' M -> snd kv = snd kv' -> fst kv = fst kv').
  { intros kv kv' H H' E. specialize (HM2 _ H). rewrite forallb_forall in HM2.
    specialize (HM2 _ H'). rewrite E, String.eqb_refl in HM2. cbn in HM2. now apply String.eqb_eq. }
  induction d as [|[k v] d IH]; intros req Hn; cbn [inject map fold_left fst snd].
  - destruct (find _ M); reflexivity.
  - inversion Hn as [|? ? Hk Hn']; subst. change (map _ d) with (inject d). rewrite (IH _ Hn').
    unfold hm_step at 2 4. cbn [fst snd assoc].
    destruct (find (fun kv => String.eqb (snd kv) t) M) as [kv0|] eqn:Hf.
    + apply find_snd_some in Hf. destruct Hf as [Hin0 Hs0].
      destruct (String.eqb_spec k (fst kv0)) as [->|Hne].
      * rewrite (F1 _ Hin0), Hs0, (assoc_notin _ _ _ Hk), assoc_dset, String.eqb_refl. reflexivity.
      * destruct (assoc (fst kv0) d); [reflexivity|].
        destruct (assoc k M) as [t'|] eqn:Ha; [|reflexivity].
        rewrite assoc_dset. destruct (String.eqb_spec t' t) as [->|_]; [|reflexivity].
        exfalso. apply Hne. apply assoc_In in Ha.
        exact (F2 (k, t) kv0 Ha Hin0 (eq_sym Hs0)).
    + destruct (assoc k M) as [t'|] eqn:Ha; [|reflexivity].
      rewrite assoc_dset. destruct (String.eqb_spec t' t) as [->|_]; [|reflexivity].
      exfalso. apply assoc_In in Ha. exact (find_snd_none _ _ _ Hf Ha).
Qed.

Lemma head_map_ok : map_ok CP_HEAD_MAPPING = true.
Proof. vm_compute. reflexivity. Qed.

Lemma head_targets_not_struct :
  forallb (fun kv => negb (mem (snd kv) ["Bucket"; "Key"; "VersionId"])) CP_HEAD_MAPPING = true.
Proof. vm_compute. reflexivity. Qed.

Lemma find_snd_mem : forall (M : list (string * string)) t,
  mem t (map snd M) = is_some (find (fun kv => String.eqb (snd kv) t) M).
Proof.
  intros M t. induction M as [|[k s] M IH]; cbn; [reflexivity|].
  rewrite (String.eqb_sym t s). destruct (String.eqb s t); cbn; [reflexivity|exact IH].
Qed.

(** * Every call, slot by slot *)

Lemma pw_struct_filter : forall names (p : string -> bool) (e : kwargs) t,
  assoc t (S_ names ++ filter (fun kv => p (fst kv)) e) =
  if mem t names then Some P else if p t then assoc t e else None.
Proof.
  intros. rewrite assoc_app, assoc_S_. destruct (mem t names); [reflexivity|apply assoc_filter].
Qed.

Lemma pw_struct_all : forall names d t,
  assoc t (S_ names ++ inject d) =
  interp (if mem t names then RPlanned else if is_some (assoc t d) then RUser else RAbsent) (assoc t d).
Proof.
  intros. rewrite assoc_app, assoc_S_, assoc_inject. destruct (mem t names); [reflexivity|].
  destruct (assoc t d); reflexivity.
Qed.

Lemma pw_struct_pass : forall names (p : string -> bool) d t,
  assoc t (S_ names ++ filter (fun kv => p (fst kv)) (inject d)) =
  interp (if mem t names then RPlanned
          else if p t then (if is_some (assoc t d) then RUser else RAbsent) else RAbsent) (assoc t d).
Proof.
  intros. rewrite pw_struct_filter, assoc_inject. destruct (mem t names); [reflexivity|].
  destruct (p t); [|reflexivity]. destruct (assoc t d); reflexivity.
Qed.

Lemma pw_struct_upload : forall names (p : string -> bool) ws mp d t,
  assoc t (S_ names ++ filter (fun kv => p (fst kv)) (eff_upload ws mp d)) =
  interp (if mem t names then RPlanned
          else if p t then eff_res ws mp (last_full d) t (is_some (assoc t d)) else RAbsent) (assoc t d).
Proof.
  intros. rewrite pw_struct_filter. destruct (mem t names); [reflexivity|].
  destruct (p t); [|reflexivity]. apply eff_upload_lookup.
Qed.

Lemma pw_struct_ranged : forall names d t A,
  NoDup (keys d) -> validate d A = true -> mem "Range" A = false ->
  assoc t (S_ names ++ update [("Range", P)] (inject d)) =
  interp (if mem t (names ++ ["Range"]) then RPlanned
          else if is_some (assoc t d) then RUser else RAbsent) (assoc t d).
Proof.
  intros names d t A Hn Hv Hr. rewrite assoc_app, assoc_S_, mem_app.
  destruct (mem t names); [reflexivity|]. cbn [orb].
  rewrite assoc_update by (now rewrite keys_inject). rewrite assoc_inject.
  cbn [mem existsb assoc]. rewrite (String.eqb_sym t "Range").
  destruct (String.eqb_spec "Range" t) as [<-|_]; cbn [orb].
  - now rewrite (valid_notin _ _ _ Hv Hr).
  - destruct (assoc t d); reflexivity.
Qed.

Lemma pw_struct_ranged_legacy : forall names d t,
  assoc t (S_ names ++ S_ ["Range"] ++ inject d) =
  interp (if mem t (names ++ ["Range"]) then RPlanned
          else if is_some (assoc t d) then RUser else RAbsent) (assoc t d).
Proof.
  intros. rewrite app_assoc. change (S_ names ++ S_ ["Range"]) with (map (fun k => (k, P)) names ++ map (fun k => (k, P)) ["Range"]).
  rewrite <- map_app. apply pw_struct_all.
Qed.

Lemma pw_struct_partcopy : forall names (p : string -> bool) d t,
  assoc t (S_ names ++ dset "CopySourceRange" P (filter (fun kv => p (fst kv)) (inject d))) =
  interp (if mem t (names ++ ["CopySourceRange"]) then RPlanned
          else if p t then (if is_some (assoc t d) then RUser else RAbsent) else RAbsent) (assoc t d).
Proof.
  intros. rewrite assoc_app, assoc_S_, mem_app. destruct (mem t names); [reflexivity|]. cbn [orb].
  rewrite assoc_dset, assoc_filter, assoc_inject. cbn [mem existsb].
  rewrite (String.eqb_sym t "CopySourceRange").
  destruct (String.eqb "CopySourceRange" t); cbn [orb]; [reflexivity|].
  destruct (p t); [|reflexivity]. destruct (assoc t d); reflexivity.
Qed.

Lemma pw_head_map : forall names d t, NoDup (keys d) ->
  forallb (fun kv => negb (mem (snd kv) names)) CP_HEAD_MAPPING = true ->
  assoc t (fold_left head_map_step (inject d) (S_ names)) =
  let s := match find (fun kv => String.eqb (snd kv) t) CP_HEAD_MAPPING with
           | Some kv => fst kv | None => t end in
  interp (if mem t names then RPlanned
          else if mem t (map snd CP_HEAD_MAPPING)
               then (if is_some (assoc s d) then RUser else RAbsent) else RAbsent) (assoc s d).
Proof.
  intros names d t Hn Hs. change head_map_step with (hm_step CP_HEAD_MAPPING).
  rewrite (head_map_lookup _ head_map_ok _ _ _ Hn), assoc_S_, find_snd_mem. cbv zeta.
  rewrite forallb_forall in Hs.
  destruct (find _ CP_HEAD_MAPPING) as [kv|] eqn:Hf; cbn [is_some].
  - apply find_snd_some in Hf. destruct Hf as [Hin <-]. specialize (Hs _ Hin).
    apply negb_true_iff in Hs. rewrite Hs. destruct (assoc (fst kv) d); reflexivity.
  - destruct (mem t names); reflexivity.
Qed.

Lemma struct_not_allowed : forall m o, In m ALL_MODES -> In o ALL_OPS ->
  forallb (fun t => negb (mem t (allowed_of m))) (planned_names m o) = true.
Proof.
  assert (H : forallb (fun m => forallb (fun o =>
              forallb (fun t => negb (mem t (allowed_of m))) (planned_names m o)) ALL_OPS) ALL_MODES = true)
    by (vm_compute; reflexivity).
  intros m o Hm Ho. rewrite forallb_forall in H. specialize (H _ Hm).
  rewrite forallb_forall in H. exact (H _ Ho).
Qed.

Lemma all_modes_complete : forall m, In m ALL_MODES.
Proof.
  intros m.
  destruct m as [[] []|[] []|[] [] []| |[]|[]|[] []]; vm_compute; tauto.
Qed.

Lemma all_ops_complete : forall o, In o ALL_OPS.
Proof. destruct o; vm_compute; tauto. Qed.

Lemma range_not_allowed : forall m, mem "Range" (allowed_of m) = false.
Proof. destruct m; vm_compute; reflexivity. Qed.

(** The central lemma: every slot of every call is a function of one binding of
    the user's dictionary and of the finite summary. *)
Lemma kwargs_pointwise : forall m o d t,
  NoDup (keys d) -> validate d (allowed_of m) = true -> recipe_of m o <> RcNone ->
  assoc t (kwargs_of m o d) = cell m o (last_full d) t (assoc (src m o t) d).
Proof.
  intros m o d t Hn Hv Hr. unfold cell, cellK, src.
  destruct m as [ws mp|known ranged|known mp sv| |mp|ranged|known ranged]; destruct o;
    cbn [recipe_of] in Hr |- *; try (exfalso; apply Hr; reflexivity);
    cbn [kwargs_of planned_names struct_names app];
    try (apply pw_struct_upload);
    try (apply pw_struct_all);
    try (apply pw_struct_pass).
  - (* TMDownload GetObject *)
    destruct ranged.
    + rewrite (pw_struct_ranged _ _ _ _ Hn Hv (range_not_allowed (TMDownload known true))).
      destruct known; reflexivity.
    + rewrite pw_struct_all. destruct known; reflexivity.
  - (* TMCopy HeadObject *)
    destruct sv.
    + apply (pw_head_map ["Bucket"; "Key"; "VersionId"] d t Hn). vm_compute. reflexivity.
    + apply (pw_head_map ["Bucket"; "Key"] d t Hn). vm_compute. reflexivity.
  - (* TMCopy UploadPartCopy *)
    apply pw_struct_partcopy.
  - (* LegUpload CompleteMultipartUpload *)
    rewrite <- (app_nil_r (S_ _)).
    change (@nil (string * val)) with (filter (fun kv : string * val => (fun _ : string => false) (fst kv)) (inject d)).
    apply pw_struct_pass.
  - (* LegDownload GetObject *)
    destruct ranged.
    + apply pw_struct_ranged_legacy.
    + apply pw_struct_all.
  - (* PoolDownload GetObject *)
    destruct ranged.
    + rewrite (pw_struct_ranged _ _ _ _ Hn Hv (range_not_allowed (PoolDownload known true))).
      destruct known; reflexivity.
    + rewrite pw_struct_all. destruct known; reflexivity.
Qed.
