(** Quiescence at announce and its consequences (C05, C07, C08) for every
    reachable state of the protocol model [Sys.v].

    Part A: event-indexed per-coordinator / per-task step relations (the
            relations of SysBase/SysTask, plus the event that caused the change
            and the guard facts about the pre-state).
    Part B: T1 (done at announce), T2 (not-started shape), T3 (submit window).
    Part C: IO exclusivity, T4 (quiescence).
    Part D: T5 (C05), T6 (C08). *)
From Coq Require Import ZArith List Bool Lia.
From S3V Require Import model.Sys proofs.SysBase proofs.SysCoord proofs.SysCoordInv proofs.SysTask.
Import ListNotations.
Open Scope Z_scope.

(* ================================================================== *)
(** * Part A.  Event-indexed step relations *)

(** ** Coordinators *)
Inductive cstepE (s : state) (t : Z) : event -> coord -> coord -> Prop :=
  | ce_refl e c : cstepE s t e c c
  | ce_addcb a c id :
      mem_z id (c_callbacks c) = false -> mem_z id (c_ran_callbacks c) = false ->
      c_cb_runner c = None -> busy s a = false ->
      cstepE s t (EAddCallback a t id) c (c_with_lists c (c_cleanups c) (c_callbacks c ++ [id]))
  | ce_addcl a c id :
      busy s a = false -> acting_task s a t = true -> c_cl_runner c = None ->
      cstepE s t (EAddCleanup a t id) c (c_with_lists c (c_cleanups c ++ [id]) (c_callbacks c))
  | ce_result k x c :
      find_task k (tasks s) = Some x -> k_t x = t -> k_st x = TMain -> k_final x = true ->
      busy s k = false ->
      cstepE s t (ESetResult k) c (c_with c Success None)
  | ce_exc a c e ov :
      is_done (c_status c) = false \/ ov = true ->
      cstepE s t (ESetException a t e ov) c (c_with c Failed (Some e))
  | ce_cancel a c e :
      is_done (c_status c) = false -> status_eqb (c_status c) NotStarted = false ->
      cstepE s t (ECancel a t e) c (c_with c Cancelled (Some e))
  | ce_cancel_ns a c e :
      c_status c = NotStarted ->
      cstepE s t (ECancel a t e) c (c_with_ann (c_with c Cancelled (Some e)) (a :: c_owing c) (c_announcers c))
  | ce_status k x (tr : bool) c :
      find_task k (tasks s) = Some x -> k_t x = t -> k_st x = TMain -> k_kind x = KSubmission ->
      k_phase x = (if tr then 1 else 0) ->
      is_done (c_status c) = false ->
      cstepE s t (EStatus k tr true) c (c_with c (if tr then Running else Queued) (c_exc c))
  | ce_onqueued k x c :
      find_task k (tasks s) = Some x -> k_t x = t -> k_st x = TMain -> k_kind x = KSubmission ->
      k_phase x = 1 ->
      cstepE s t (EOnQueued k) c (c_with_ghost c (c_queued_cbs c + 1) (c_progress_after_done c))
  | ce_onprogress a x c :
      find_task a (tasks s) = Some x -> k_t x = t -> k_st x = TMain -> k_kind x <> KSubmission ->
      cstepE s t (EOnProgress a t) c
        (c_with_ghost c (c_queued_cbs c)
           (c_progress_after_done c ||
            match c_cb_runner c with Some _ => true | None => false end ||
            negb (match c_ran_callbacks c with [] => true | _ => false end)))
  | ce_count a op c n f g : cstepE s t (ECount a t op) c (c_with_count c n f g)
  | ce_ann_owing a c :
      ann_phase a (c_announcers c) = None -> mem_z a (c_owing c) = true ->
      cstepE s t (EAnnBegin a t) c
        (c_with_started (c_with_ann c (remove_z a (c_owing c)) (ann_set a 0 (c_announcers c))))
  | ce_ann_begin a x c :
      ann_phase a (c_announcers c) = None -> mem_z a (c_owing c) = false ->
      find_task a (tasks s) = Some x -> k_t x = t -> busy s a = false ->
      (k_kind x = KSubmission /\ k_st x = TMain /\ k_phase x = 4) \/
      (k_kind x <> KSubmission /\ k_st x = TPost /\ k_final x = true) ->
      cstepE s t (EAnnBegin a t) c
        (c_with_started (c_with_ann c (c_owing c) (ann_set a 0 (c_announcers c))))
  | ce_cl_begin a c :
      ann_phase a (c_announcers c) = Some 0 -> c_cl_runner c = None ->
      status_eqb (c_status c) Success = false ->
      cstepE s t (ECleanupsBegin a t) c
        (c_with_ann (c_with_runners c (Some a) (c_cb_runner c)) (c_owing c) (ann_set a 1 (c_announcers c)))
  | ce_cleanup a c h rest :
      c_cl_runner c = Some a -> c_cleanups c = h :: rest ->
      cstepE s t (ECleanup a t h) c
        (c_with_ran (c_with_lists c rest (c_callbacks c)) (c_ran_cleanups c ++ [h]) (c_ran_callbacks c))
  | ce_cl_end a c :
      c_cl_runner c = Some a -> ann_phase a (c_announcers c) = Some 1 -> c_cleanups c = [] ->
      cstepE s t (ECleanupsEnd a t) c
        (c_with_ann (c_with_runners (c_with_lists c [] (c_callbacks c)) None (c_cb_runner c))
                    (c_owing c) (ann_set a 2 (c_announcers c)))
  | ce_event a c p :
      ann_phase a (c_announcers c) = Some p ->
      p = 2 \/ (p = 0 /\ c_status c = Success) ->
      cstepE s t (EEventSet a t) c (c_with_ann (c_with_event c) (c_owing c) (ann_set a 3 (c_announcers c)))
  | ce_cb_begin a c :
      ann_phase a (c_announcers c) = Some 3 -> c_cb_runner c = None ->
      cstepE s t (ECallbacksBegin a t) c
        (c_with_ann (c_with_runners c (c_cl_runner c) (Some a)) (c_owing c) (ann_set a 4 (c_announcers c)))
  | ce_callback a c h rest :
      c_cb_runner c = Some a -> c_callbacks c = h :: rest ->
      cstepE s t (ECallback a t h) c
        (c_with_ran (c_with_lists c (c_cleanups c) rest) (c_ran_cleanups c) (c_ran_callbacks c ++ [h]))
  | ce_cb_end a c :
      c_cb_runner c = Some a -> ann_phase a (c_announcers c) = Some 4 -> c_callbacks c = [] ->
      cstepE s t (ECallbacksEnd a t) c
        (c_with_ann (c_with_runners c (c_cl_runner c) None) (c_owing c) (ann_set a 5 (c_announcers c)))
  | ce_ann_end a c :
      ann_phase a (c_announcers c) = Some 5 ->
      cstepE s t (EAnnEnd a t) c (c_with_ann c (c_owing c) (ann_del a (c_announcers c))).

Lemma cstepE_cstep s t e c c' : cstepE s t e c c' -> cstep c c'.
Proof.
  intros H. destruct H; try (now constructor); try (econstructor; eassumption).
  all: try (destruct tr; apply cs_status; auto; fail).
  all: try apply cs_ghost.
Qed.

Definition coords_stepE (s : state) (e : event) (l l' : list coord) : Prop :=
  (forall t c, find_coord t l = Some c -> exists c', find_coord t l' = Some c' /\ cstepE s t e c c') /\
  (forall t c', find_coord t l' = Some c' -> find_coord t l = None -> c' = fresh_coord t).

Lemma coords_stepE_refl s e l : coords_stepE s e l l.
Proof.
  split; [intros t c H; exists c; split; [exact H|constructor]|].
  intros t c' H1 H2; congruence.
Qed.

Lemma find_coord_upd_const t y l c t0 :
  find_coord t l = Some c -> c_id y = c_id c ->
  find_coord t0 (upd_coord t (fun _ => y) l) = if t0 =? t then Some y else find_coord t0 l.
Proof.
  intros Hf Hid. pose proof (find_coord_some_id _ _ _ Hf) as Hcid.
  revert Hf. induction l as [|x r IH]; intros Hf; cbn [upd_coord map find_coord] in *.
  - discriminate Hf.
  - change (map _ r) with (upd_coord t (fun _ => y) r).
    destruct (c_id x =? t) eqn:E1.
    + injection Hf as ->. destruct (c_id y =? t0) eqn:E2.
      * assert (t0 =? t = true) by lia. now rewrite H.
      * assert (t0 =? t = false) by lia. rewrite H.
        assert (Hc0 : c_id c =? t0 = false) by lia. rewrite Hc0.
        clear IH. induction r as [|z r' IHr]; cbn [upd_coord map find_coord]; [reflexivity|].
        change (map _ r') with (upd_coord t (fun _ => y) r').
        destruct (c_id z =? t) eqn:E3.
        -- rewrite E2. destruct (c_id z =? t0) eqn:E5; [lia|]. exact IHr.
        -- destruct (c_id z =? t0) eqn:E5; [reflexivity|]. exact IHr.
    + destruct (c_id x =? t0) eqn:E2.
      * assert (t0 =? t = false) by lia. now rewrite H.
      * apply IH. exact Hf.
Qed.

Lemma coords_stepE_upd s e l t c y :
  find_coord t l = Some c -> cstepE s t e c y -> c_id y = c_id c ->
  coords_stepE s e l (upd_coord t (fun _ => y) l).
Proof.
  intros Hf Hc Hid. split.
  - intros t0 c0 H0. rewrite (find_coord_upd_const t y l c t0 Hf Hid). destruct (t0 =? t) eqn:E.
    + assert (t0 = t) by lia. subst t0. rewrite Hf in H0. injection H0 as <-.
      exists y. split; [reflexivity|exact Hc].
    + exists c0. split; [exact H0|constructor].
  - intros t0 c' H1 H2. rewrite (find_coord_upd_const t y l c t0 Hf Hid) in H1. destruct (t0 =? t) eqn:E.
    + assert (t0 = t) by lia. subst t0. congruence.
    + congruence.
Qed.

Lemma coords_stepE_upd_f s e l t c f :
  find_coord t l = Some c -> cstepE s t e c (f c) -> (forall x, c_id (f x) = c_id x) ->
  coords_stepE s e l (upd_coord t f l).
Proof.
  intros Hf Hc Hid. split.
  - intros t0 c0 H0. rewrite (find_coord_upd t0 t f l Hid). destruct (t0 =? t) eqn:E.
    + assert (t0 = t) by lia. subst t0. rewrite Hf in H0. injection H0 as <-.
      rewrite Hf. exists (f c). split; [reflexivity|exact Hc].
    + exists c0. split; [exact H0|constructor].
  - intros t0 c' H1 H2. rewrite (find_coord_upd t0 t f l Hid) in H1. destruct (t0 =? t) eqn:E.
    + rewrite H2 in H1. discriminate.
    + congruence.
Qed.

Ltac coords_sameE :=
  match goal with
  | |- coords_stepE _ _ (coords ?s) (coords ?s') =>
      let H := fresh in
      assert (H : coords s' = coords s)
        by (repeat first [ rewrite set_stage_coords | rewrite bump_coords | reflexivity
                         | progress cbn [coords set_tasks set_sems set_reqs set_uploads set_shutdown set_coords set_files] ]);
      rewrite H; apply coords_stepE_refl
  end.

Lemma upd_by_cstepE s0 e s t c y :
  find_coord t (coords s) = Some c -> cstepE s0 t e c y -> c_id y = c_id c ->
  coords_stepE s0 e (coords s) (coords (set_coords s (upd_coord t (fun _ => y) (coords s)))).
Proof. intros. cbn [coords set_coords]. eapply coords_stepE_upd; eauto. Qed.

Lemma busy_false_of_if {A} (b : bool) (x : option A) y :
  (if b then None else x) = Some y -> b = false /\ x = Some y.
Proof. destruct b; [discriminate|auto]. Qed.

Lemma step_coords_stepE s e s' : step s e = Some s' -> coords_stepE s e (coords s) (coords s').
Proof.
  intros H. destruct e; cbn [step] in H.
  - (* ENewTransfer *)
    inv H. injection H as <-. cbn [coords set_coords].
    apply andb_prop in Heqb as [_ Hnone]. destruct (find_coord t (coords s)) eqn:E; [discriminate|].
    split.
    + intros t0 c0 H0. rewrite find_coord_app, H0. exists c0. split; [reflexivity|constructor].
    + intros t0 c' H1 H2. rewrite find_coord_app, H2 in H1. cbn [c_id] in H1.
      destruct (t =? t0) eqn:E2; [|discriminate]. injection H1 as <-.
      assert (t = t0) by lia. subst. reflexivity.
  - (* EAddCallback *)
    inv H. sub_on_coord H. inv_guard Hf. injection Hf as <-.
    match goal with Hor : _ || _ || _ = false |- _ =>
      apply orb_false_elim in Hor as [Hm12 Hm3]; apply orb_false_elim in Hm12 as [Hm1 Hm2] end.
    match goal with Hg : _ && _ = true |- _ => apply andb_prop in Hg as [Hg1 Hg2] end.
    eapply upd_by_cstepE; [exact Hfc| |reflexivity].
    constructor; auto; [now destruct (c_cb_runner c0)|now destruct (busy s a)].
  - (* EAddCleanup *)
    inv H. sub_on_coord H. destruct (c_cl_runner c0) eqn:Eclr; [discriminate|]. injection Hf as <-.
    apply andb_prop in Heqb as [Hb Ha].
    eapply upd_by_cstepE; [exact Hfc| |reflexivity].
    constructor; [now destruct (busy s a)|exact Ha|exact Eclr].
  - (* ESubmit *) inv H. injection H as <-. coords_sameE.
  - (* EAcquire *)
    destruct (find_task k (tasks s)); [|discriminate]. destruct (find_sem sem (sems s)); [|discriminate].
    inv H. injection H as <-. coords_sameE.
  - (* EEnqueue *)
    destruct (find_task k (tasks s)); [|discriminate]. inv H. injection H as <-. coords_sameE.
  - (* EAssoc *) inv H. sub_on_task H. coords_sameE.
  - (* ETaskStart *)
    destruct (find_task k (tasks s)); [|discriminate].
    destruct (stage_eqb (k_stage t) SInline).
    + inv H. injection H as <-. coords_sameE.
    + destruct (g_queue (get_stage s (k_stage t))); [discriminate|].
      inv H. injection H as <-. coords_sameE.
  - (* EDepsDone *) sub_on_task H. coords_sameE.
  - (* EDoneCheck *)
    destruct (find_task k (tasks s)); [|discriminate].
    destruct (find_coord (k_t t) (coords s)); [|discriminate].
    inv H. injection H as <-. coords_sameE.
  - (* EMainBegin *) sub_on_task H. coords_sameE.
  - (* EMainEnd *)
    inv H. destruct (find_task k (tasks s)); [|discriminate].
    destruct (find_coord (k_t t) (coords s)); [|discriminate].
    inv H. injection H as <-. coords_sameE.
  - (* ESetResult *)
    apply busy_false_of_if in H as [Hb H].
    destruct (find_task k (tasks s)) as [x|] eqn:Eft; [|discriminate].
    destruct (_ && _) eqn:Heqb in H; [|discriminate].
    apply andb_prop in Heqb as [Heqb _].
    apply andb_prop in Heqb as [Hst Hfin]. apply tst_eqb_true in Hst.
    sub_on_coord H. injection Hf as <-.
    eapply upd_by_cstepE; [exact Hfc| |reflexivity]. eapply ce_result; eauto.
  - (* ESetException *)
    inv H.
    assert (Happly : forall s1 s2,
      on_coord s1 t (fun c => if negb (is_done (c_status c)) || override
                              then Some (c_with c Failed (Some e)) else Some c) = Some s2 ->
      coords_stepE s (ESetException a t e override) (coords s1) (coords s2)).
    { intros s1 s2 Ha. sub_on_coord Ha. destruct (negb (is_done (c_status c)) || override) eqn:Eg.
      - injection Hf as <-. eapply upd_by_cstepE; [exact Hfc| |reflexivity].
        apply ce_exc. apply orb_prop in Eg as [Eg|Eg]; [left|right; exact Eg].
        now destruct (is_done (c_status c)).
      - injection Hf as <-. eapply upd_by_cstepE; [exact Hfc|constructor|reflexivity]. }
    destruct (is_user a).
    + destruct (find_coord t (coords s)) eqn:Efc; [|discriminate]. clean_but H. inv H. now apply Happly.
    + destruct (find_task a (tasks s)) eqn:Eft; [|discriminate].
      destruct (negb (k_t t0 =? t)); [discriminate|].
      destruct override.
      * destruct (find_coord t (coords s)) eqn:Efc; [|discriminate]. clean_but H. inv H. now apply Happly.
      * destruct (tst_eqb (k_st t0) TFailed).
        { unfold bind in H. destruct (on_coord s t _) as [s1|] eqn:E1; [|discriminate].
          apply Happly in E1. pose proof (on_task_coords _ _ _ _ H) as Hc. now rewrite Hc. }
        destruct (tst_eqb (k_st t0) TMain && (k_kind t0 =? KSubmission) && (k_phase t0 <? 3)); [|discriminate].
        unfold bind in H. destruct (on_coord s t _) as [s1|] eqn:E1; [|discriminate].
        apply Happly in E1. pose proof (on_task_coords _ _ _ _ H) as Hc. now rewrite Hc.
  - (* ECancel *)
    inv H. sub_on_coord H.
    destruct (is_done (c_status c)) eqn:Ed.
    + injection Hf as <-. eapply upd_by_cstepE; [exact Hfc|constructor|reflexivity].
    + destruct (status_eqb (c_status c) NotStarted) eqn:En; injection Hf as <-.
      * eapply upd_by_cstepE; [exact Hfc| |reflexivity].
        apply status_eqb_eq in En. now apply ce_cancel_ns.
      * eapply upd_by_cstepE; [exact Hfc| |reflexivity]. now apply ce_cancel.
  - (* EStatus *)
    apply busy_false_of_if in H as [Hb H].
    destruct (find_task k (tasks s)) as [x|] eqn:Eft; [|discriminate].
    destruct (find_coord (k_t x) (coords s)) eqn:Efc; [|discriminate H]. clean_but H. inv H.
    clean_somes. destruct ok.
    + unfold bind in H. destruct (on_coord s (k_t x) _) as [s1|] eqn:E1; [|discriminate].
      pose proof (on_task_coords _ _ _ _ H) as Hc. rewrite Hc. sub_on_coord E1. injection Hf as <-.
      eapply upd_by_cstepE; [exact Hfc| |reflexivity].
      split_ands.
      rewrite Efc in Hfc. injection Hfc as <-.
      eapply ce_status; [exact Eft|reflexivity|now apply tst_eqb_true|unfold KSubmission in *; lia
                        |destruct to_running; lia|].
      match goal with Hx : eqb true (negb (is_done (c_status ?cc))) = true |- _ =>
        apply eqb_prop in Hx; now destruct (is_done (c_status cc)) end.
    + injection H as <-. apply coords_stepE_refl.
  - (* EOnQueued *)
    apply busy_false_of_if in H as [Hb H].
    destruct (find_task k (tasks s)) as [x|] eqn:Eft; [|discriminate]. inv H.
    split_ands.
    sub_on_coord H. injection Hf as <-. eapply upd_by_cstepE; [exact Hfc| |reflexivity].
    eapply ce_onqueued; [exact Eft|reflexivity|now apply tst_eqb_true|unfold KSubmission in *; lia|lia].
  - (* EOnProgress *)
    destruct (find_task a (tasks s)) as [x|] eqn:Eft; [|discriminate].
    inv H. sub_on_coord H. injection Hf as <-. rewrite bump_coords in *.
    cbn [coords set_coords]. rewrite ?bump_coords. split_ands.
    eapply coords_stepE_upd; [exact Hfc| |reflexivity].
    eapply ce_onprogress; [exact Eft|lia|now apply tst_eqb_true|unfold KSubmission in *; lia].
  - (* EWaitAll *)
    inv H. destruct (find_task k (tasks s)); [|discriminate]. inv H.
    sub_on_task H. coords_sameE.
  - (* EAnnBegin *)
    apply busy_false_of_if in H as [Hb H].
    destruct (find_coord t (coords s)) eqn:Efc; [|discriminate]. clean_but H.
    destruct (ann_phase a (c_announcers c)) eqn:Eap; [discriminate|]. clean_but H.
    destruct (mem_z a (c_owing c)) eqn:Eow.
    + sub_on_coord H. injection Hf as <-. rewrite Efc in Hfc. injection Hfc as <-.
      eapply upd_by_cstepE; [exact Efc| |reflexivity]. now apply ce_ann_owing.
    + destruct (find_task a (tasks s)) as [x|] eqn:Eft; [|discriminate].
      destruct (negb (k_t x =? t)) eqn:Ekt; [discriminate|].
      assert (Hkt : k_t x = t) by (destruct (k_t x =? t) eqn:E; [lia|discriminate]).
      destruct (k_kind x =? KSubmission) eqn:Ek.
      * inv H. apply andb_prop in Heqb as [Hst Hph]. apply tst_eqb_true in Hst.
        sub_on_coord H. injection Hf as <-. rewrite Efc in Hfc. injection Hfc as <-.
        eapply upd_by_cstepE; [exact Efc| |reflexivity].
        eapply ce_ann_begin; eauto. left. unfold KSubmission in *. repeat split; [lia|exact Hst|lia].
      * inv H. apply andb_prop in Heqb as [Hst Hfin]. apply tst_eqb_true in Hst.
        unfold bind in H. destruct (on_coord s t _) as [s1|] eqn:E1; [|discriminate].
        pose proof (on_task_coords _ _ _ _ H) as Hc. rewrite Hc. sub_on_coord E1. injection Hf as <-.
        rewrite Efc in Hfc. injection Hfc as <-.
        eapply upd_by_cstepE; [exact Efc| |reflexivity].
        eapply ce_ann_begin; eauto. right. unfold KSubmission in *. repeat split; [lia|exact Hst|exact Hfin].
  - (* ECleanupsBegin *)
    inv H. sub_on_coord H. destruct (ann_phase a (c_announcers c)) as [p|] eqn:Eap; [|discriminate]. clean_but H.
    destruct p as [|p|p]; try discriminate. destruct (c_cl_runner c) eqn:Ecl; [discriminate|].
    inv_guard Hf. injection Hf as <-.
    eapply upd_by_cstepE; [exact Hfc| |reflexivity]. apply ce_cl_begin; auto.
    now destruct (status_eqb (c_status c) Success).
  - (* ECleanup *)
    inv H. sub_on_coord H. rewrite bump_coords in Hfc.
    destruct (c_cl_runner c0) eqn:Ecl; [|discriminate]. destruct (c_cleanups c0) eqn:Ecs; [discriminate|].
    inv_guard Hf. injection Hf as <-. apply andb_prop in Heqb0 as [E1 E2].
    assert (a0 = a) by lia. assert (z = c) by lia. subst.
    cbn [coords set_coords]. rewrite ?bump_coords.
    eapply coords_stepE_upd; [exact Hfc| |reflexivity]. eapply ce_cleanup; eauto.
  - (* ECleanupsEnd *)
    inv H. sub_on_coord H.
    destruct (c_cl_runner c) eqn:Ecl; [|discriminate].
    destruct (ann_phase a (c_announcers c)) as [p|] eqn:Eap; [|discriminate]. clean_but H.
    destruct p as [|p|p]; try discriminate. destruct p; try discriminate.
    inv_guard Hf. injection Hf as <-.
    match goal with Hg : _ && _ = true |- _ => apply andb_prop in Hg as [Hg1 Hg2] end.
    assert (a0 = a) by lia. subst.
    assert (Hnil : c_cleanups c = []) by (destruct (c_cleanups c); [reflexivity|discriminate]).
    eapply upd_by_cstepE; [exact Hfc| |reflexivity]. now apply ce_cl_end.
  - (* EEventSet *)
    inv H. sub_on_coord H. destruct (ann_phase a (c_announcers c)) as [p|] eqn:Eap; [|discriminate]. clean_but H.
    inv_guard Hf. injection Hf as <-.
    eapply upd_by_cstepE; [exact Hfc| |reflexivity]. eapply ce_event; [exact Eap|].
    match goal with Hor : _ || _ = true |- _ => apply orb_prop in Hor as [E|E] end; [left; lia|right].
    apply andb_prop in E as [E1 E2]. apply status_eqb_eq in E2. split; [lia|exact E2].
  - (* ECallbacksBegin *)
    inv H. sub_on_coord H. destruct (ann_phase a (c_announcers c)) as [p|] eqn:Eap; [|discriminate]. clean_but H.
    destruct p as [|p|p]; try discriminate. destruct p as [p|p|]; try discriminate.
    destruct p; try discriminate.
    destruct (c_cb_runner c) eqn:Ecb; [discriminate|]. injection Hf as <-.
    eapply upd_by_cstepE; [exact Hfc| |reflexivity]. now apply ce_cb_begin.
  - (* ECallback *)
    inv H. sub_on_coord H. rewrite bump_coords in Hfc.
    destruct (c_cb_runner c0) eqn:Ecb; [|discriminate]. destruct (c_callbacks c0) eqn:Ecs; [discriminate|].
    inv_guard Hf. injection Hf as <-. apply andb_prop in Heqb0 as [E1 E2].
    assert (a0 = a) by lia. assert (z = c) by lia. subst.
    cbn [coords set_coords]. rewrite ?bump_coords.
    eapply coords_stepE_upd; [exact Hfc| |reflexivity]. eapply ce_callback; eauto.
  - (* ECallbacksEnd *)
    inv H. sub_on_coord H.
    destruct (c_cb_runner c) eqn:Ecb; [|discriminate].
    destruct (ann_phase a (c_announcers c)) as [p|] eqn:Eap; [|discriminate]. clean_but H.
    destruct p as [|p|p]; try discriminate. destruct p as [p|p|]; try discriminate.
    destruct p as [p|p|]; try discriminate. destruct p; try discriminate.
    destruct (c_callbacks c) eqn:Ecs; [|discriminate].
    inv_guard Hf. injection Hf as <-. assert (a0 = a) by lia. subst.
    eapply upd_by_cstepE; [exact Hfc| |reflexivity]. now apply ce_cb_end.
  - (* EAnnEnd *)
    destruct (busy s a); [discriminate|].
    destruct (find_coord t (coords s)) eqn:Efc; [|discriminate]. clean_but H.
    destruct (ann_phase a (c_announcers c)) as [p|] eqn:Eap; [|discriminate]. clean_but H.
    destruct p as [|p|p]; try discriminate. destruct p as [p|p|]; try discriminate.
    destruct p as [p|p|]; try discriminate. destruct p; try discriminate.
    assert (G : coords_stepE s (EAnnEnd a t) (coords s)
                  (coords (set_coords s (upd_coord t (fun c0 => c_with_ann c0 (c_owing c0) (ann_del a (c_announcers c0))) (coords s))))).
    { cbn [coords set_coords]. eapply coords_stepE_upd_f; [exact Efc| |reflexivity].
      now apply ce_ann_end. }
    destruct (find_task a (tasks s)).
    + destruct (is_user a); [injection H as <-; exact G|].
      destruct (tst_eqb (k_st t0) TAnn).
      { pose proof (on_task_coords _ _ _ _ H) as Hc. now rewrite Hc. }
      destruct ((k_kind t0 =? KSubmission) && (k_phase t0 =? 4)).
      { pose proof (on_task_coords _ _ _ _ H) as Hc. now rewrite Hc. }
      injection H as <-; exact G.
    + injection H as <-; exact G.
  - (* ETaskEnd *)
    inv H. destruct (find_task k (tasks s)); [|discriminate]. inv H.
    destruct (stage_eqb (k_stage t) SInline); injection H as <-; coords_sameE.
  - (* ERelease *)
    destruct (find_task k (tasks s)); [|discriminate]. inv H. injection H as <-. coords_sameE.
  - (* EDissoc *) sub_on_task H. coords_sameE.
  - (* ECount *)
    inv H. sub_on_coord H.
    destruct (op =? 0).
    + inv_guard Hf. injection Hf as <-. eapply upd_by_cstepE; [exact Hfc|constructor|reflexivity].
    + destruct (op =? 1).
      * inv_guard Hf. injection Hf as <-. eapply upd_by_cstepE; [exact Hfc|constructor|reflexivity].
      * injection Hf as <-. eapply upd_by_cstepE; [exact Hfc|constructor|reflexivity].
  - (* ES3Begin *)
    inv H.
    destruct op; try (injection H as <-; cbn [coords set_reqs]; rewrite bump_coords; apply coords_stepE_refl).
    + destruct (find_upload uid _); [|discriminate]. inv H. injection H as <-.
      cbn [coords set_uploads set_reqs]. rewrite bump_coords. apply coords_stepE_refl.
    + destruct (find_upload uid _); [|discriminate]. inv H. injection H as <-.
      cbn [coords set_uploads set_reqs]. rewrite bump_coords. apply coords_stepE_refl.
    + destruct (find_upload uid _); [|discriminate]. inv H. injection H as <-.
      cbn [coords set_uploads set_reqs]. rewrite bump_coords. apply coords_stepE_refl.
  - (* ES3Effect *)
    destruct (find_req r (reqs s)); [|discriminate]. inv H.
    destruct (s3op_eqb (r_op r0) OpCreate).
    + destruct (find_upload uid _); [discriminate|]. injection H as <-. coords_sameE.
    + injection H as <-. coords_sameE.
  - (* ES3End *)
    destruct (find_req r (reqs s)); [|discriminate]. inv H.
    destruct (r_op r0); injection H as <-; coords_sameE.
  - (* EResult *)
    destruct (find_coord t (coords s)); [|discriminate]. inv H. injection H as <-. apply coords_stepE_refl.
  - (* EFs *)
    inv H. destruct op; destruct (find_file t (files s)); try discriminate;
      inv H; injection H as <-; coords_sameE.
  - (* EShutdownBegin *) inv H. injection H as <-. coords_sameE.
  - (* EStageShutdown *) inv H. injection H as <-. coords_sameE.
  - (* EStageJoined *) inv H. injection H as <-. coords_sameE.
  - (* EShutdownReturn *) inv H. injection H as <-. coords_sameE.
Qed.

(** ** Tasks *)
Inductive tstepE (s : state) : event -> task -> task -> Prop :=
  | te_refl e x : tstepE s e x x
  | te_permit a k sem x : k_id x = k -> k_st x = TSubmitting -> k_permit x = -1 -> k_parent x = a ->
      tstepE s (EAcquire a k sem) x (with_permit x sem)
  | te_enqueue a k x : k_id x = k -> k_st x = TSubmitting -> 0 <= k_permit x -> k_stage x <> SInline ->
      k_parent x = a ->
      tstepE s (EEnqueue a k) x (with_st x TQueued)
  | te_assoc a k x : k_id x = k -> k_assoc x = 0 -> k_st x <> TSubmitting -> k_kind x <> KSubmission ->
      k_stage x <> SInline -> k_parent x = a ->
      tstepE s (EAssoc a k) x (with_assoc x 1)
  | te_start k x : k_id x = k -> k_st x = TQueued ->
      (k_stage x = SInline -> busy s (k_parent x) = false /\ acting_task s (k_parent x) (k_t x) = true) ->
      tstepE s (ETaskStart k) x (with_st x TStarted)
  | te_deps k x : k_id x = k -> k_st x = TStarted -> forallb (dep_done s) (k_deps x) = true ->
      tstepE s (EDepsDone k) x (with_st x TDeps)
  | te_skip k x : k_id x = k -> k_st x = TDeps -> coord_done s (k_t x) = true ->
      tstepE s (EDoneCheck k true) x (with_st (with_flags x false false true) TPost)
  | te_ready k x : k_id x = k -> k_st x = TDeps -> coord_done s (k_t x) = false ->
      tstepE s (EDoneCheck k false) x (with_st x TReady)
  | te_main_begin k x : k_id x = k -> k_st x = TReady ->
      tstepE s (EMainBegin k) x (with_st (with_flags x true false false) TMain)
  | te_main_ok k x : k_id x = k -> k_st x = TMain -> busy s k = false ->
      (k_final x = true -> coord_success s (k_t x) = true) ->
      (k_kind x = KSubmission -> k_phase x = 2 \/ k_phase x = 5) ->
      tstepE s (EMainEnd k true) x (with_st (with_flags x true true false) TPost)
  | te_main_fail k x : k_id x = k -> k_st x = TMain -> busy s k = false -> k_kind x <> KSubmission ->
      tstepE s (EMainEnd k false) x (with_st x TFailed)
  | te_exc_failed a t e x : k_id x = a -> k_t x = t -> k_st x = TFailed -> busy s a = false ->
      tstepE s (ESetException a t e false) x (with_st x TPost)
  | te_sub_exc a t e x : k_id x = a -> k_t x = t -> k_st x = TMain -> k_kind x = KSubmission ->
      k_phase x < 3 -> busy s a = false ->
      tstepE s (ESetException a t e false) x (with_phase x 3)
  | te_status k (tr : bool) x p : k_id x = k -> k_st x = TMain -> k_kind x = KSubmission ->
      p = (if tr then 1 else 0) -> k_phase x = p -> busy s k = false ->
      coord_done s (k_t x) = false ->
      tstepE s (EStatus k tr true) x (with_phase x (p + 1))
  | te_waitall k x : k_id x = k -> k_st x = TMain -> k_kind x = KSubmission -> k_phase x = 3 ->
      busy s k = false -> all_assoc_done s (k_t x) = true ->
      tstepE s (EWaitAll k) x (with_phase x 4)
  | te_ann_begin a t x : k_id x = a -> k_t x = t -> k_st x = TPost -> k_final x = true ->
      k_kind x <> KSubmission -> busy s a = false ->
      tstepE s (EAnnBegin a t) x (with_st x TAnn)
  | te_ann_end a t x : k_id x = a -> k_st x = TAnn -> tstepE s (EAnnEnd a t) x (with_st x TAnnDone)
  | te_sub_ann_end a t x : k_id x = a -> k_kind x = KSubmission -> k_phase x = 4 ->
      tstepE s (EAnnEnd a t) x (with_phase x 5)
  | te_end k x : k_id x = k -> (if k_final x then k_st x = TAnnDone else k_st x = TPost) ->
      busy s k = false ->
      tstepE s (ETaskEnd k) x (with_st x TEnded)
  | te_release k x : k_id x = k -> k_st x = TEnded -> k_released x = false ->
      tstepE s (ERelease k) x (with_released x)
  | te_dissoc k x : k_id x = k -> k_st x = TEnded -> k_assoc x = 1 -> tstepE s (EDissoc k) x (with_assoc x 2).

Definition tasks_stepE (s : state) (e : event) (l l' : list task) : Prop :=
  (forall k x, find_task k l = Some x -> exists x', find_task k l' = Some x' /\ tstepE s e x x') /\
  (forall k x', find_task k l' = Some x' -> find_task k l = None ->
     exists t g a final deps kind,
       e = ESubmit a k t g final deps kind /\ x' = fresh_task k t g a final deps kind).

Lemma tasks_stepE_refl s e l : tasks_stepE s e l l.
Proof.
  split; [intros k x H; exists x; split; [exact H|constructor]|].
  intros k x' H1 H2; congruence.
Qed.

Lemma tasks_stepE_upd_f s e l k x f :
  find_task k l = Some x -> tstepE s e x (f x) -> (forall y, k_id (f y) = k_id y) ->
  tasks_stepE s e l (upd_task k f l).
Proof.
  intros Hf Hc Hid. split.
  - intros k0 x0 H0. rewrite (find_task_upd k0 k f l Hid). destruct (k0 =? k) eqn:E.
    + assert (k0 = k) by lia. subst k0. rewrite Hf in H0. injection H0 as <-.
      rewrite Hf. exists (f x). split; [reflexivity|exact Hc].
    + exists x0. split; [exact H0|constructor].
  - intros k0 x' H1 H2. rewrite (find_task_upd k0 k f l Hid) in H1. destruct (k0 =? k) eqn:E.
    + rewrite H2 in H1. discriminate.
    + congruence.
Qed.

Lemma find_task_upd_const k y l x k0 :
  find_task k l = Some x -> k_id y = k_id x ->
  find_task k0 (upd_task k (fun _ => y) l) = if k0 =? k then Some y else find_task k0 l.
Proof.
  intros Hf Hid. pose proof (find_task_some_id _ _ _ Hf) as Hxid.
  revert Hf. induction l as [|z r IH]; intros Hf; cbn [upd_task map find_task] in *.
  - discriminate Hf.
  - change (map _ r) with (upd_task k (fun _ => y) r).
    destruct (k_id z =? k) eqn:E1.
    + injection Hf as ->. destruct (k_id y =? k0) eqn:E2.
      * assert (k0 =? k = true) by lia. now rewrite H.
      * assert (k0 =? k = false) by lia. rewrite H.
        assert (Hc0 : k_id x =? k0 = false) by lia. rewrite Hc0.
        clear IH. induction r as [|w r' IHr]; cbn [upd_task map find_task]; [reflexivity|].
        change (map _ r') with (upd_task k (fun _ => y) r').
        destruct (k_id w =? k) eqn:E3.
        -- rewrite E2. destruct (k_id w =? k0) eqn:E5; [lia|]. exact IHr.
        -- destruct (k_id w =? k0) eqn:E5; [reflexivity|]. exact IHr.
    + destruct (k_id z =? k0) eqn:E2.
      * assert (k0 =? k = false) by lia. now rewrite H.
      * apply IH. exact Hf.
Qed.

Lemma tasks_stepE_upd_const s e l k x y :
  find_task k l = Some x -> tstepE s e x y -> k_id y = k_id x ->
  tasks_stepE s e l (upd_task k (fun _ => y) l).
Proof.
  intros Hf Hc Hid. split.
  - intros k0 x0 H0. rewrite (find_task_upd_const k y l x k0 Hf Hid). destruct (k0 =? k) eqn:E.
    + assert (k0 = k) by lia. subst k0. rewrite Hf in H0. injection H0 as <-.
      exists y. split; [reflexivity|exact Hc].
    + exists x0. split; [exact H0|constructor].
  - intros k0 x' H1 H2. rewrite (find_task_upd_const k y l x k0 Hf Hid) in H1. destruct (k0 =? k) eqn:E.
    + assert (k0 = k) by lia. subst k0. congruence.
    + congruence.
Qed.

Ltac tasks_sameE :=
  match goal with
  | |- tasks_stepE ?s0 _ (tasks ?s) (tasks ?s') =>
      let H := fresh in
      assert (H : tasks s' = tasks s)
        by (repeat first [ rewrite set_stage_tasks | rewrite bump_tasks | reflexivity
                         | progress cbn [tasks set_tasks set_sems set_reqs set_uploads set_shutdown set_coords set_files] ]);
      rewrite H; apply tasks_stepE_refl
  end.

Lemma upd_task_by_tstepE s0 e s k x y :
  find_task k (tasks s) = Some x -> tstepE s0 e x y -> k_id y = k_id x ->
  tasks_stepE s0 e (tasks s) (tasks (set_tasks s (upd_task k (fun _ => y) (tasks s)))).
Proof. intros. cbn [tasks set_tasks]. eapply tasks_stepE_upd_const; eauto. Qed.

Lemma upd_task_by_tstepE_f s0 e s k x f :
  find_task k (tasks s) = Some x -> tstepE s0 e x (f x) -> (forall y, k_id (f y) = k_id y) ->
  tasks_stepE s0 e (tasks s) (tasks (set_tasks s (upd_task k f (tasks s)))).
Proof. intros. cbn [tasks set_tasks]. eapply tasks_stepE_upd_f; eauto. Qed.

Ltac kid := match goal with H : find_task ?k _ = Some ?x |- k_id ?x = ?k => exact (find_task_some_id _ _ _ H) end.

Lemma step_tasks_stepE s e s' : step s e = Some s' -> tasks_stepE s e (tasks s) (tasks s').
Proof.
  intros H. destruct e; cbn [step] in H.
  - (* ENewTransfer *) inv H. injection H as <-. tasks_sameE.
  - (* EAddCallback *) inv H. sub_on_coord H. tasks_sameE.
  - (* EAddCleanup *) inv H. sub_on_coord H. tasks_sameE.
  - (* ESubmit *)
    inv H. injection H as <-. cbn [tasks set_tasks]. split_ands.
    destruct (find_task k (tasks s)) eqn:Efk; [discriminate|].
    split.
    + intros k0 x0 Hk0. rewrite find_task_app, Hk0. exists x0. split; [reflexivity|constructor].
    + intros k0 x' Hk1 Hk2. rewrite find_task_app, Hk2 in Hk1. cbn [k_id] in Hk1.
      destruct (k =? k0) eqn:E2; [|discriminate]. injection Hk1 as <-.
      assert (k = k0) by lia. subst. unfold fresh_task. eauto 10.
  - (* EAcquire *)
    destruct (find_task k (tasks s)) eqn:Eft; [|discriminate].
    destruct (find_sem sem (sems s)) eqn:Efs; [|discriminate].
    inv H. injection H as <-. split_ands. cbn [tasks set_sems].
    eapply upd_task_by_tstepE_f; [exact Eft| |reflexivity].
    apply te_permit; [kid|now apply tst_eqb_true|lia|lia].
  - (* EEnqueue *)
    destruct (find_task k (tasks s)) eqn:Eft; [|discriminate].
    inv H. injection H as <-. split_ands. rewrite set_stage_tasks.
    eapply upd_task_by_tstepE_f; [exact Eft| |reflexivity].
    apply te_enqueue; [kid|now apply tst_eqb_true|lia| |lia].
    intros Hs. rewrite Hs in *. discriminate.
  - (* EAssoc *)
    inv H. sub_on_task H. inv Hf. injection Hf as <-. split_ands.
    eapply upd_task_by_tstepE; [exact Hft| |reflexivity].
    apply te_assoc; [kid|lia| |unfold KSubmission in *; lia| |lia].
    + intros Hs. rewrite Hs in *. discriminate.
    + intros Hs. rewrite Hs in *. discriminate.
  - (* ETaskStart *)
    destruct (find_task k (tasks s)) eqn:Eft; [|discriminate].
    destruct (stage_eqb (k_stage t) SInline) eqn:Estg.
    + inv H. injection H as <-. split_ands.
      eapply upd_task_by_tstepE_f; [exact Eft| |reflexivity].
      apply te_start; [kid|now apply tst_eqb_true|].
      intros _. split; [now destruct (busy s (k_parent t))|assumption].
    + destruct (g_queue (get_stage s (k_stage t))); [discriminate|].
      inv H. injection H as <-. split_ands. rewrite set_stage_tasks.
      eapply upd_task_by_tstepE_f; [exact Eft| |reflexivity].
      apply te_start; [kid|now apply tst_eqb_true|].
      intros Hs. rewrite Hs in Estg. discriminate.
  - (* EDepsDone *)
    sub_on_task H. inv Hf. injection Hf as <-. split_ands.
    eapply upd_task_by_tstepE; [exact Hft| |reflexivity].
    apply te_deps; [kid|now apply tst_eqb_true|assumption].
  - (* EDoneCheck *)
    destruct (find_task k (tasks s)) eqn:Eft; [|discriminate].
    destruct (find_coord (k_t t) (coords s)) eqn:Efc; [|discriminate].
    inv H. injection H as <-. split_ands.
    eapply upd_task_by_tstepE_f; [exact Eft| |intros y; now destruct b].
    match goal with Hb : eqb b _ = true |- _ => apply eqb_prop in Hb end.
    destruct b.
    + apply te_skip; [kid|now apply tst_eqb_true|]. unfold coord_done. now rewrite Efc.
    + apply te_ready; [kid|now apply tst_eqb_true|]. unfold coord_done. now rewrite Efc.
  - (* EMainBegin *)
    sub_on_task H. inv Hf. injection Hf as <-.
    eapply upd_task_by_tstepE; [exact Hft| |reflexivity].
    apply te_main_begin; [kid|now apply tst_eqb_true].
  - (* EMainEnd *)
    apply busy_false_of_if in H as [Hb H].
    destruct (find_task k (tasks s)) eqn:Eft; [|discriminate].
    destruct (find_coord (k_t t) (coords s)) eqn:Efc; [|discriminate].
    inv H. injection H as <-. split_ands.
    eapply upd_task_by_tstepE_f; [exact Eft| |intros y; now destruct ok].
    destruct ok.
    + apply te_main_ok; [kid|now apply tst_eqb_true|exact Hb| |].
      * intros Hfin. rewrite Hfin in *. unfold coord_success. rewrite Efc.
        match goal with Hq : eqb true (status_eqb _ Success) = true |- _ => apply eqb_prop in Hq; now rewrite <- Hq end.
      * intros Hk. unfold KSubmission in *.
        destruct (k_kind t =? 0) eqn:Ek; [|lia].
        match goal with Hs : true && _ = true |- _ => cbn in Hs; apply orb_prop in Hs as [Hs|Hs]; lia end.
    + apply te_main_fail; [kid|now apply tst_eqb_true|exact Hb|].
      intros Hk. unfold KSubmission in *. destruct (k_kind t =? 0) eqn:Ek; [|lia].
      match goal with Hs : false && _ = true |- _ => discriminate Hs end.
  - (* ESetResult *)
    inv H. destruct (find_task k (tasks s)); [|discriminate]. inv H. sub_on_coord H. tasks_sameE.
  - (* ESetException *)
    apply busy_false_of_if in H as [Hb H].
    destruct (is_user a).
    + destruct (find_coord t (coords s)); [|discriminate]. inv H. sub_on_coord H. tasks_sameE.
    + destruct (find_task a (tasks s)) eqn:Eft; [|discriminate].
      destruct (negb (k_t t0 =? t)) eqn:Ekt; [discriminate|].
      assert (Hkt : k_t t0 = t) by (destruct (k_t t0 =? t) eqn:E; [lia|discriminate]).
      destruct override.
      * destruct (find_coord t (coords s)); [|discriminate]. inv H. sub_on_coord H. tasks_sameE.
      * destruct (tst_eqb (k_st t0) TFailed) eqn:Est.
        { unfold bind in H. destruct (on_coord s t _) as [s1|] eqn:E1; [|discriminate].
          pose proof (on_coord_tasks _ _ _ _ E1) as Ht. sub_on_task H. injection Hf as <-.
          rewrite Ht in *. rewrite Eft in Hft. injection Hft as <-.
          cbn [tasks set_tasks]. rewrite ?Ht.
          eapply tasks_stepE_upd_const; [exact Eft| |reflexivity].
          apply te_exc_failed; [kid|exact Hkt|now apply tst_eqb_true|exact Hb]. }
        destruct (tst_eqb (k_st t0) TMain && (k_kind t0 =? KSubmission) && (k_phase t0 <? 3)) eqn:Eg; [|discriminate].
        unfold bind in H. destruct (on_coord s t _) as [s1|] eqn:E1; [|discriminate].
        pose proof (on_coord_tasks _ _ _ _ E1) as Ht. sub_on_task H. injection Hf as <-.
        rewrite Ht in *. rewrite Eft in Hft. injection Hft as <-.
        cbn [tasks set_tasks]. rewrite ?Ht. split_ands.
        eapply tasks_stepE_upd_const; [exact Eft| |reflexivity].
        apply te_sub_exc; [kid|exact Hkt|now apply tst_eqb_true|unfold KSubmission in *; lia|lia|exact Hb].
  - (* ECancel *) inv H. sub_on_coord H. tasks_sameE.
  - (* EStatus *)
    apply busy_false_of_if in H as [Hb H].
    destruct (find_task k (tasks s)) eqn:Eft; [|discriminate].
    destruct (find_coord (k_t t) (coords s)) eqn:Efc; [|discriminate]. inv H.
    destruct ok.
    + unfold bind in H. destruct (on_coord s (k_t t) _) as [s1|] eqn:E1; [|discriminate].
      pose proof (on_coord_tasks _ _ _ _ E1) as Ht. sub_on_task H. injection Hf as <-.
      rewrite Ht in *. rewrite Eft in Hft. injection Hft as <-.
      cbn [tasks set_tasks]. rewrite ?Ht. split_ands.
      eapply tasks_stepE_upd_const; [exact Eft| |reflexivity].
      match goal with Hx : eqb true _ = true |- _ => apply eqb_prop in Hx end.
      apply te_status; [kid|now apply tst_eqb_true|unfold KSubmission in *; lia|reflexivity|lia|exact Hb|].
      unfold coord_done. rewrite Efc. now destruct (is_done (c_status c)).
    + injection H as <-. apply tasks_stepE_refl.
  - (* EOnQueued *)
    inv H. destruct (find_task k (tasks s)); [|discriminate]. inv H. sub_on_coord H. tasks_sameE.
  - (* EOnProgress *)
    inv H. sub_on_coord H. cbn [tasks set_coords]. rewrite bump_tasks. apply tasks_stepE_refl.
  - (* EWaitAll *)
    apply busy_false_of_if in H as [Hb H].
    destruct (find_task k (tasks s)) eqn:Eft; [|discriminate]. inv H.
    sub_on_task H. injection Hf as <-. rewrite Eft in Hft. injection Hft as <-. split_ands.
    eapply upd_task_by_tstepE; [exact Eft| |reflexivity].
    apply te_waitall; [kid|now apply tst_eqb_true|unfold KSubmission in *; lia|lia|exact Hb|assumption].
  - (* EAnnBegin *)
    apply busy_false_of_if in H as [Hb H].
    destruct (find_coord t (coords s)) eqn:Efc; [|discriminate]. clean_but H.
    destruct (ann_phase a (c_announcers c)); [discriminate|].
    destruct (mem_z a (c_owing c)).
    + sub_on_coord H. tasks_sameE.
    + destruct (find_task a (tasks s)) eqn:Eft; [|discriminate].
      destruct (negb (k_t t0 =? t)) eqn:Ekt; [discriminate|].
      assert (Hkt : k_t t0 = t) by (destruct (k_t t0 =? t) eqn:E; [lia|discriminate]).
      destruct (k_kind t0 =? KSubmission) eqn:Ek.
      * inv H. sub_on_coord H. tasks_sameE.
      * inv H. unfold bind in H. destruct (on_coord s t _) as [s1|] eqn:E1; [|discriminate].
        pose proof (on_coord_tasks _ _ _ _ E1) as Ht. sub_on_task H. injection Hf as <-.
        rewrite Ht in *. rewrite Eft in Hft. injection Hft as <-.
        cbn [tasks set_tasks]. rewrite ?Ht. split_ands.
        eapply tasks_stepE_upd_const; [exact Eft| |reflexivity].
        apply te_ann_begin; [kid|exact Hkt|now apply tst_eqb_true|assumption|unfold KSubmission in *; lia|exact Hb].
  - (* ECleanupsBegin *) inv H. sub_on_coord H. tasks_sameE.
  - (* ECleanup *) inv H. sub_on_coord H. cbn [tasks set_coords]. rewrite bump_tasks. apply tasks_stepE_refl.
  - (* ECleanupsEnd *) inv H. sub_on_coord H. tasks_sameE.
  - (* EEventSet *) inv H. sub_on_coord H. tasks_sameE.
  - (* ECallbacksBegin *) inv H. sub_on_coord H. tasks_sameE.
  - (* ECallback *) inv H. sub_on_coord H. cbn [tasks set_coords]. rewrite bump_tasks. apply tasks_stepE_refl.
  - (* ECallbacksEnd *) inv H. sub_on_coord H. tasks_sameE.
  - (* EAnnEnd *)
    destruct (busy s a); [discriminate|].
    destruct (find_coord t (coords s)) eqn:Efc; [|discriminate].
    destruct (ann_phase a (c_announcers c)) as [p|]; [|discriminate].
    destruct p as [|p|p]; try discriminate. destruct p as [p|p|]; try discriminate.
    destruct p as [p|p|]; try discriminate. destruct p; try discriminate.
    destruct (find_task a (tasks s)) eqn:Eft.
    + destruct (is_user a); [injection H as <-; tasks_sameE|].
      destruct (tst_eqb (k_st t0) TAnn) eqn:Est.
      { sub_on_task H. injection Hf as <-. cbn [tasks set_coords] in *. rewrite Eft in Hft. injection Hft as <-.
        eapply tasks_stepE_upd_const; [exact Eft| |reflexivity].
        apply te_ann_end; [kid|now apply tst_eqb_true]. }
      destruct ((k_kind t0 =? KSubmission) && (k_phase t0 =? 4)) eqn:Eg.
      { sub_on_task H. injection Hf as <-. cbn [tasks set_coords] in *. rewrite Eft in Hft. injection Hft as <-.
        split_ands. eapply tasks_stepE_upd_const; [exact Eft| |reflexivity].
        apply te_sub_ann_end; [kid|unfold KSubmission in *; lia|lia]. }
      injection H as <-; tasks_sameE.
    + injection H as <-; tasks_sameE.
  - (* ETaskEnd *)
    apply busy_false_of_if in H as [Hb H].
    destruct (find_task k (tasks s)) eqn:Eft; [|discriminate]. inv H.
    assert (G : tasks_stepE s (ETaskEnd k) (tasks s) (upd_task k (fun y => with_st y TEnded) (tasks s))).
    { eapply tasks_stepE_upd_f; [exact Eft| |reflexivity].
      apply te_end; [kid| |exact Hb]. destruct (k_final t); now apply tst_eqb_true. }
    destruct (stage_eqb (k_stage t) SInline); injection H as <-.
    + exact G.
    + rewrite set_stage_tasks. exact G.
  - (* ERelease *)
    destruct (find_task k (tasks s)) eqn:Eft; [|discriminate]. inv H. injection H as <-. split_ands.
    cbn [tasks set_sems].
    eapply upd_task_by_tstepE_f; [exact Eft| |reflexivity].
    apply te_release; [kid|now apply tst_eqb_true|now destruct (k_released t)].
  - (* EDissoc *)
    sub_on_task H. inv Hf. injection Hf as <-. split_ands.
    eapply upd_task_by_tstepE; [exact Hft| |reflexivity].
    apply te_dissoc; [kid|now apply tst_eqb_true|lia].
  - (* ECount *) inv H. sub_on_coord H. tasks_sameE.
  - (* ES3Begin *)
    inv H.
    destruct op; try (injection H as <-; cbn [tasks set_reqs]; rewrite bump_tasks; apply tasks_stepE_refl);
      (destruct (find_upload uid _); [|discriminate]; inv H; injection H as <-;
       cbn [tasks set_uploads set_reqs]; rewrite bump_tasks; apply tasks_stepE_refl).
  - (* ES3Effect *)
    destruct (find_req r (reqs s)); [|discriminate]. inv H.
    destruct (s3op_eqb (r_op r0) OpCreate).
    + destruct (find_upload uid _); [discriminate|]. injection H as <-. tasks_sameE.
    + injection H as <-. tasks_sameE.
  - (* ES3End *)
    destruct (find_req r (reqs s)); [|discriminate]. inv H.
    destruct (r_op r0); injection H as <-; tasks_sameE.
  - (* EResult *)
    destruct (find_coord t (coords s)); [|discriminate]. inv H. injection H as <-. apply tasks_stepE_refl.
  - (* EFs *)
    inv H. destruct op; destruct (find_file t (files s)); try discriminate;
      inv H; injection H as <-; cbn [tasks set_files]; rewrite ?bump_tasks; apply tasks_stepE_refl.
  - (* EShutdownBegin *) inv H. injection H as <-. tasks_sameE.
  - (* EStageShutdown *) inv H. injection H as <-. tasks_sameE.
  - (* EStageJoined *) inv H. injection H as <-. tasks_sameE.
  - (* EShutdownReturn *) inv H. injection H as <-. tasks_sameE.
Qed.

(* ================================================================== *)
(** * Part B.  Basic consequences *)

Lemma task_origin s e s' k x' :
  step s e = Some s' -> find_task k (tasks s') = Some x' ->
  (exists x, find_task k (tasks s) = Some x /\ tstepE s e x x') \/
  (find_task k (tasks s) = None /\
   exists t g a final deps kind,
     e = ESubmit a k t g final deps kind /\ x' = fresh_task k t g a final deps kind).
Proof.
  intros H Hx'. apply step_tasks_stepE in H as [Hold Hnew].
  destruct (find_task k (tasks s)) as [x|] eqn:E.
  - left. destruct (Hold k x E) as (x'' & Hx'' & Hts). rewrite Hx' in Hx''. injection Hx'' as <-. eauto.
  - right. split; [reflexivity|]. now apply Hnew.
Qed.

Lemma task_persists s e s' k x :
  step s e = Some s' -> find_task k (tasks s) = Some x ->
  exists x', find_task k (tasks s') = Some x' /\ tstepE s e x x'.
Proof. intros H Hx. apply step_tasks_stepE in H as [Hold _]. now apply Hold. Qed.

Lemma coord_origin s e s' t c' :
  step s e = Some s' -> find_coord t (coords s') = Some c' ->
  (exists c, find_coord t (coords s) = Some c /\ cstepE s t e c c') \/
  (find_coord t (coords s) = None /\ c' = fresh_coord t).
Proof.
  intros H Hc'. apply step_coords_stepE in H as [Hold Hnew].
  destruct (find_coord t (coords s)) as [c|] eqn:E.
  - left. destruct (Hold t c E) as (c'' & Hc'' & Hcs). rewrite Hc' in Hc''. injection Hc'' as <-. eauto.
  - right. split; [reflexivity|]. now apply Hnew.
Qed.

Lemma coord_persistsE s e s' t c :
  step s e = Some s' -> find_coord t (coords s) = Some c ->
  exists c', find_coord t (coords s') = Some c' /\ cstepE s t e c c'.
Proof. intros H Hc. apply step_coords_stepE in H as [Hold _]. now apply Hold. Qed.

(** static fields of a task never change *)
Lemma tstepE_static s e x x' : tstepE s e x x' ->
  k_id x' = k_id x /\ k_t x' = k_t x /\ k_stage x' = k_stage x /\ k_parent x' = k_parent x /\
  k_final x' = k_final x /\ k_deps x' = k_deps x /\ k_kind x' = k_kind x.
Proof. intros H. destruct H; cbn; repeat split; reflexivity. Qed.

Ltac statics H :=
  let H1 := fresh "Sid" in let H2 := fresh "St" in let H3 := fresh "Sstg" in let H4 := fresh "Spar" in
  let H5 := fresh "Sfin" in let H6 := fresh "Sdeps" in let H7 := fresh "Skind" in
  pose proof (tstepE_static _ _ _ _ H) as (H1 & H2 & H3 & H4 & H5 & H6 & H7).

Lemma coord_done_step s e s' t :
  step s e = Some s' -> coord_done s t = true -> coord_done s' t = true.
Proof.
  intros H Hd. unfold coord_done in *. destruct (find_coord t (coords s)) as [c|] eqn:E; [|discriminate].
  destruct (coord_persists_step _ _ _ _ _ H E) as (c' & Hc' & Hcs). rewrite Hc'.
  eapply done_monotone_cstep; eauto.
Qed.

Lemma coord_success_done s t : coord_success s t = true -> coord_done s t = true.
Proof.
  unfold coord_success, coord_done. destruct (find_coord t (coords s)); [|discriminate].
  intros H. apply status_eqb_eq in H. now rewrite H.
Qed.

Lemma coord_done_upd_const s1 t c y :
  find_coord t (coords s1) = Some c -> c_id y = c_id c -> is_done (c_status y) = true ->
  coord_done (set_coords s1 (upd_coord t (fun _ => y) (coords s1))) t = true.
Proof.
  intros Hf Hid Hd. unfold coord_done. cbn [coords set_coords].
  rewrite (find_coord_upd_const t y _ c t Hf Hid), Z.eqb_refl. exact Hd.
Qed.

(** after any accepted set_exception the coordinator is done *)
Lemma setexc_done s a t e ov s' :
  step s (ESetException a t e ov) = Some s' -> coord_done s' t = true.
Proof.
  intros H. cbn [step] in H. apply busy_false_of_if in H as [_ H].
  assert (Happly : forall s1 s2,
    on_coord s1 t (fun c => if negb (is_done (c_status c)) || ov
                            then Some (c_with c Failed (Some e)) else Some c) = Some s2 ->
    coord_done s2 t = true).
  { intros s1 s2 Ha. sub_on_coord Ha. destruct (negb (is_done (c_status c)) || ov) eqn:Eg.
    - injection Hf as <-. eapply coord_done_upd_const; [exact Hfc|reflexivity|reflexivity].
    - injection Hf as <-. eapply coord_done_upd_const; [exact Hfc|reflexivity|].
      apply orb_false_elim in Eg as [Eg _]. now destruct (is_done (c_status c)). }
  assert (Hbind : forall f, bind (on_coord s t (fun c => if negb (is_done (c_status c)) || ov
                            then Some (c_with c Failed (Some e)) else Some c))
                     (fun s1 => on_task s1 a f) = Some s' -> coord_done s' t = true).
  { intros f Hb. unfold bind in Hb. destruct (on_coord s t _) as [s1|] eqn:E1; [|discriminate].
    apply Happly in E1. unfold coord_done in *. now rewrite (on_task_coords _ _ _ _ Hb). }
  destruct (is_user a).
  - destruct (find_coord t (coords s)); [|discriminate]. inv H. now apply Happly in H.
  - destruct (find_task a (tasks s)); [|discriminate].
    destruct (negb (k_t t0 =? t)); [discriminate|].
    destruct ov.
    + destruct (find_coord t (coords s)); [|discriminate]. inv H. now apply Happly in H.
    + destruct (tst_eqb (k_st t0) TFailed); [now apply Hbind in H|].
      destruct (tst_eqb (k_st t0) TMain && (k_kind t0 =? KSubmission) && (k_phase t0 <? 3)); [|discriminate].
      now apply Hbind in H.
Qed.

(** ** T1: the coordinator is done whenever an announce can be under way *)
Definition final_post_done_inv (s : state) : Prop :=
  forall k x, find_task k (tasks s) = Some x -> k_final x = true -> past_main (k_st x) = true ->
              coord_done s (k_t x) = true.

Definition sub_phase3_done_inv (s : state) : Prop :=
  forall k x, find_task k (tasks s) = Some x -> k_kind x = KSubmission -> 3 <= k_phase x ->
              coord_done s (k_t x) = true.

Lemma final_post_done_step s e s' :
  final_post_done_inv s -> step s e = Some s' -> final_post_done_inv s'.
Proof.
  intros I H k x' Hx' Hfin Hpm.
  destruct (task_origin _ _ _ _ _ H Hx') as [(x & Hx & Hts)|(_ & t & g & a & fin & deps & kind & _ & ->)].
  2:{ cbn in Hpm. destruct (stage_eqb g SInline); discriminate. }
  statics Hts. rewrite St. rewrite Sfin in Hfin.
  assert (Hold : past_main (k_st x) = true -> coord_done s' (k_t x) = true).
  { intros Hp. eapply coord_done_step; [exact H|]. eapply I; eauto. }
  destruct Hts; cbn [k_st with_st with_flags with_phase with_permit with_assoc with_released past_main] in *;
    try (apply Hold; first [assumption | now rewrite ?H1 | congruence]); try discriminate.
  all: try (apply Hold; match goal with
                         | Hs : k_st _ = _ |- _ => rewrite Hs; reflexivity
                         | Hs : (if k_final _ then _ else _) |- _ => rewrite Hfin in Hs; rewrite Hs; reflexivity
                         end).
  - (* skip *) eapply coord_done_step; eauto.
  - (* main ok *) eapply coord_done_step; [exact H|]. apply coord_success_done. auto.
  - (* exc failed *) subst t. eapply setexc_done; eauto.
Qed.

Lemma sub_phase3_done_step s e s' :
  sub_phase3_done_inv s -> step s e = Some s' -> sub_phase3_done_inv s'.
Proof.
  intros I H k x' Hx' Hk Hph.
  destruct (task_origin _ _ _ _ _ H Hx') as [(x & Hx & Hts)|(_ & t & g & a & fin & deps & kind & _ & ->)].
  2:{ cbn in Hph. lia. }
  statics Hts. rewrite St. rewrite Skind in Hk.
  assert (Hold : 3 <= k_phase x -> coord_done s' (k_t x) = true).
  { intros Hp. eapply coord_done_step; [exact H|]. eapply I; eauto. }
  destruct Hts; cbn [k_phase with_st with_flags with_phase with_permit with_assoc with_released] in *;
    try (apply Hold; lia).
  - (* sub exc *) subst t. eapply setexc_done; eauto.
  - (* status *) destruct tr; lia.
Qed.

(** coordinator-local: everything an announce does happens after [c_ann_started] *)
Record cloc (c : coord) : Prop := {
  cl_ann : c_announcers c <> [] -> c_ann_started c = true;
  cl_event : c_event c = true -> c_ann_started c = true;
  cl_rcl : c_ran_cleanups c <> [] -> c_ann_started c = true;
  cl_rcb : c_ran_callbacks c <> [] -> c_ann_started c = true;
  cl_clr : c_cl_runner c <> None -> c_ann_started c = true;
  cl_cbr : c_cb_runner c <> None -> c_ann_started c = true
}.

Lemma ann_phase_some_nonempty a l p : ann_phase a l = Some p -> l <> [].
Proof. intros H ->. discriminate H. Qed.

Lemma cloc_cstep c c' : cloc c -> cstep c c' -> cloc c'.
Proof.
  intros [I1 I2 I3 I4 I5 I6] H.
  destruct H; constructor; cbn; intros; auto;
    try (apply I1; eapply ann_phase_some_nonempty; eassumption);
    try (apply I5; congruence); try (apply I6; congruence).
Qed.

Definition coords_loc (s : state) : Prop := forall t c, find_coord t (coords s) = Some c -> cloc c.

Lemma coords_loc_step s e s' : coords_loc s -> step s e = Some s' -> coords_loc s'.
Proof.
  intros I H t c' Hc'.
  destruct (coord_origin _ _ _ _ _ H Hc') as [(c & Hc & Hcs)|(_ & ->)].
  - eapply cloc_cstep; [eapply I; exact Hc|eapply cstepE_cstep; exact Hcs].
  - constructor; cbn; congruence.
Qed.

Definition ann_trig (c : coord) : Prop := c_ann_started c = true \/ c_owing c <> [].

Definition ann_done_inv (s : state) : Prop :=
  forall t c, find_coord t (coords s) = Some c -> ann_trig c -> is_done (c_status c) = true.

Lemma mem_z_nonempty a l : mem_z a l = true -> l <> [].
Proof. intros H ->. discriminate H. Qed.

Lemma ann_done_step s e s' :
  final_post_done_inv s -> sub_phase3_done_inv s ->
  ann_done_inv s -> step s e = Some s' -> ann_done_inv s'.
Proof.
  intros IF IS I H t c' Hc' Htr.
  destruct (coord_origin _ _ _ _ _ H Hc') as [(c & Hc & Hcs)|(_ & ->)].
  2:{ destruct Htr as [Htr|Htr]; cbn in Htr; congruence. }
  assert (Hold : ann_trig c -> is_done (c_status c') = true).
  { intros Ht. eapply done_monotone_cstep; [eapply cstepE_cstep; exact Hcs|]. eapply I; eauto. }
  unfold ann_trig in *.
  destruct Hcs; cbn in Htr |- *; try (apply Hold; exact Htr); try reflexivity.
  - (* ann owing *) apply Hold. right. eapply mem_z_nonempty; eauto.
  - (* ann begin *)
    match goal with Hx : find_task a (tasks s) = Some ?x, Hor : _ \/ _ |- _ =>
      assert (Hd : coord_done s (k_t x) = true);
      [destruct Hor as [(Hk & Hst & Hph)|(Hk & Hst & Hfin)];
       [eapply IS; eauto; lia|eapply IF; eauto; now rewrite Hst]|] end.
    match goal with Hkt : k_t _ = t |- _ => rewrite Hkt in Hd end.
    unfold coord_done in Hd. now rewrite Hc in Hd.
Qed.

(** all four together, for every reachable state *)
Definition T1_inv (s : state) : Prop :=
  final_post_done_inv s /\ sub_phase3_done_inv s /\ coords_loc s /\ ann_done_inv s.

Lemma T1_inv_step s e s' : T1_inv s -> step s e = Some s' -> T1_inv s'.
Proof.
  intros (I1 & I2 & I3 & I4) H. split; [|split; [|split]].
  - eapply final_post_done_step; eauto.
  - eapply sub_phase3_done_step; eauto.
  - eapply coords_loc_step; eauto.
  - eapply ann_done_step; eauto.
Qed.

Section Reach.
Variables w_sub w_req w_io q_sub q_req q_io up down : Z.
Let s0 := init w_sub w_req w_io q_sub q_req q_io up down.

Lemma T1_inv_reachable s : reachable s0 s -> T1_inv s.
Proof.
  apply invariant_reachable.
  - split; [|split; [|split]]; intros ? ? Hf; discriminate Hf.
  - intros; eapply T1_inv_step; eauto.
Qed.

Theorem final_post_done s k x :
  reachable s0 s -> find_task k (tasks s) = Some x -> k_final x = true ->
  past_main (k_st x) = true -> coord_done s (k_t x) = true.
Proof. intros R. apply (T1_inv_reachable s R). Qed.

Theorem sub_phase3_done s k x :
  reachable s0 s -> find_task k (tasks s) = Some x -> k_kind x = KSubmission -> 3 <= k_phase x ->
  coord_done s (k_t x) = true.
Proof. intros R. apply (T1_inv_reachable s R). Qed.

(** every observable trace of an announce implies a done coordinator *)
Theorem ann_started_done s t c :
  reachable s0 s -> find_coord t (coords s) = Some c ->
  c_ann_started c = true \/ c_owing c <> [] \/ c_announcers c <> [] \/ c_event c = true \/
  c_ran_cleanups c <> [] \/ c_ran_callbacks c <> [] \/ c_cl_runner c <> None \/ c_cb_runner c <> None ->
  is_done (c_status c) = true.
Proof.
  intros R Hc Htr. destruct (T1_inv_reachable s R) as (_ & _ & IL & IA).
  destruct (IL t c Hc) as [L1 L2 L3 L4 L5 L6]. apply (IA t c Hc). unfold ann_trig.
  destruct Htr as [Ht|[Ht|[Ht|[Ht|[Ht|[Ht|[Ht|Ht]]]]]]]; auto.
Qed.
End Reach.

(* ================================================================== *)
(** * Guard inversion for single events *)

Lemma find_task_in k l x : find_task k l = Some x -> In x l.
Proof.
  induction l as [|y r IH]; cbn [find_task]; [discriminate|].
  destruct (k_id y =? k); [intros [= <-]; now left|intros H; right; auto].
Qed.

Lemma find_coord_in t l c : find_coord t l = Some c -> In c l.
Proof.
  induction l as [|y r IH]; cbn [find_coord]; [discriminate|].
  destruct (c_id y =? t); [intros [= <-]; now left|intros H; right; auto].
Qed.

Lemma find_req_in i l q : find_req i l = Some q -> In q l.
Proof.
  induction l as [|y r IH]; cbn [find_req]; [discriminate|].
  destruct (r_id y =? i); [intros [= <-]; now left|intros H; right; auto].
Qed.

Lemma find_upload_in i l u : find_upload i l = Some u -> In u l.
Proof.
  induction l as [|y r IH]; cbn [find_upload]; [discriminate|].
  destruct (u_id y =? i); [intros [= <-]; now left|intros H; right; auto].
Qed.

Lemma find_upload_some_id i l u : find_upload i l = Some u -> u_id u = i.
Proof.
  induction l as [|y r IH]; cbn [find_upload]; [discriminate|].
  destruct (u_id y =? i) eqn:E; [intros [= <-]; lia|exact IH].
Qed.

Lemma find_req_some_id i l q : find_req i l = Some q -> r_id q = i.
Proof.
  induction l as [|y r IH]; cbn [find_req]; [discriminate|].
  destruct (r_id y =? i) eqn:E; [intros [= <-]; lia|exact IH].
Qed.

Lemma acting_task_inv s a t :
  acting_task s a t = true ->
  exists p, find_task a (tasks s) = Some p /\ k_t p = t /\ (k_st p = TMain \/ k_st p = TPost).
Proof.
  unfold acting_task. destruct (find_task a (tasks s)) as [p|]; [|discriminate].
  intros H. apply andb_prop in H as [H1 H2]. exists p. split; [reflexivity|]. split; [lia|].
  apply orb_prop in H2 as [H2|H2]; apply tst_eqb_true in H2; auto.
Qed.

Record submit_facts (s : state) (a k t : Z) (g : stage) (final : bool) (deps : list Z) (kind : Z) (s' : state) : Prop := {
  sf_fresh : find_task k (tasks s) = None;
  sf_sub : kind = KSubmission ->
           is_user a = true /\ g = SSub /\ final = false /\
           (forall k' x', find_task k' (tasks s) = Some x' -> k_t x' <> t);
  sf_nonsub : kind <> KSubmission ->
           busy s a = false /\
           exists p, find_task a (tasks s) = Some p /\ k_t p = t /\ (k_st p = TMain \/ k_st p = TPost) /\
                     (k_kind p = KSubmission -> k_phase p = 2);
  sf_deps : forall d, In d deps -> exists x, find_task d (tasks s) = Some x /\ k_t x = t /\ k_stage x = g;
  sf_coord : find_coord t (coords s) <> None;
  sf_kind_stage : kind_stage_ok kind g = true;
  sf_nonneg : 0 <= k;
  sf_no_final : forall k' x', find_task k' (tasks s) = Some x' -> k_t x' = t -> k_final x' = false;
  sf_final_ok : final = true -> forall k' x', find_task k' (tasks s) = Some x' -> k_t x' = t ->
           k_kind x' = KSubmission \/ In (k_id x') deps \/ past_main (k_st x') = true \/
           (k_stage x' = SIO /\ g = SIO);
  sf_ids : forall k' x', find_task k' (tasks s) = Some x' -> k_id x' < k;
  sf_post : s' = set_tasks s (tasks s ++ [fresh_task k t g a final deps kind])
}.

Lemma submit_inv s a k t g final deps kind s' :
  step s (ESubmit a k t g final deps kind) = Some s' -> submit_facts s a k t g final deps kind s'.
Proof.
  intros H. cbn [step] in H. inv H. injection H as <-. split_ands.
  constructor.
  - destruct (find_task k (tasks s)); [discriminate|reflexivity].
  - intros ->. cbn in *. split_ands. repeat split.
    + assumption.
    + now apply stage_eqb_eq.
    + now destruct final.
    + intros k' x' Hx' Hkt. apply find_task_in in Hx'.
      match goal with Hn : negb (existsb (fun x => k_t x =? t) _) = true |- _ =>
        apply negb_true_iff in Hn; rewrite <- not_true_iff_false in Hn; apply Hn end.
      apply existsb_exists. exists x'. split; [exact Hx'|lia].
  - intros Hk. assert (Ek : kind =? KSubmission = false) by (unfold KSubmission in *; lia).
    rewrite Ek in *. split_ands. split; [now destruct (busy s a)|].
    match goal with Ha : acting_task s a t = true |- _ => destruct (acting_task_inv _ _ _ Ha) as (p & Hp & Hpt & Hps) end.
    exists p. repeat split; auto. intros Hkp. rewrite Hp in *.
    unfold KSubmission in *. destruct (k_kind p =? 0) eqn:E; lia.
  - intros d Hd.
    match goal with Hf : forallb _ deps = true |- _ => rewrite forallb_forall in Hf; specialize (Hf d Hd) end.
    destruct (find_task d (tasks s)) as [x|]; [|discriminate]. split_ands.
    exists x. repeat split; [lia|now apply stage_eqb_eq].
  - destruct (find_coord t (coords s)); [discriminate|discriminate].
  - assumption.
  - lia.
  - intros k' x' Hx' Hkt. apply find_task_in in Hx'.
    match goal with Hn : negb (existsb (fun x => (k_t x =? t) && k_final x) _) = true |- _ => apply negb_true_iff in Hn end.
    destruct (k_final x') eqn:Ef; [|reflexivity].
    match goal with Hn : existsb (fun x => (k_t x =? t) && k_final x) _ = false |- _ => rewrite <- not_true_iff_false in Hn; exfalso; apply Hn end.
    apply existsb_exists. exists x'. split; [exact Hx'|]. rewrite Ef. lia.
  - intros -> k' x' Hx' Hkt. apply find_task_in in Hx'.
    match goal with Hf0 : forallb ?F (tasks s) = true |- _ =>
      lazymatch F with context [past_main] => idtac end;
      pose proof Hf0 as Hf; rewrite forallb_forall in Hf; specialize (Hf x' Hx'); cbv beta in Hf end.
    repeat (apply orb_prop in Hf as [Hf|Hf]).
    + apply negb_true_iff in Hf. lia.
    + left. unfold KSubmission in *. lia.
    + right; left. now apply mem_z_true.
    + right; right; left. exact Hf.
    + right; right; right. apply andb_prop in Hf as [Hg12 _]. apply andb_prop in Hg12 as [Hg1 Hg2].
      split; now apply stage_eqb_eq.
  - intros k' x' Hx'. apply find_task_in in Hx'.
    match goal with Hf : forallb (fun x => k_id x <? k) _ = true |- _ => rewrite forallb_forall in Hf; specialize (Hf x' Hx') end.
    lia.
  - reflexivity.
Qed.

(* ================================================================== *)
(** * Frames for the stores not covered by the relations *)

Lemma set_stage_reqs s g x : reqs (set_stage s g x) = reqs s.
Proof. now destruct g. Qed.
Lemma set_stage_files s g x : files (set_stage s g x) = files s.
Proof. now destruct g. Qed.

Ltac inv_all H :=
  repeat (first
    [ match type of H with
      | None = Some _ => discriminate H
      | bind _ _ = Some _ => unfold bind in H
      | (if ?b then _ else _) = Some _ => destruct b eqn:?
      | match ?x with _ => _ end = Some _ => destruct x eqn:?
      end ]).

Ltac finish_frame H :=
  first
    [ match type of H with
      | on_coord _ _ _ = Some _ =>
          let c := fresh "c" in let y := fresh "y" in let H1 := fresh "Hfc" in let H2 := fresh "Hf" in
          apply on_coord_inv in H; destruct H as (c & y & H1 & H2 & ->)
      | on_task _ _ _ = Some _ =>
          let c := fresh "x" in let y := fresh "y" in let H1 := fresh "Hft" in let H2 := fresh "Hf" in
          apply on_task_inv in H; destruct H as (c & y & H1 & H2 & ->)
      | Some _ = Some _ => injection H as <-
      end ].

Ltac frame_tac H :=
  cbn [step] in H; inv_all H;
  repeat match goal with
         | Hs : on_coord _ _ _ = Some _ |- _ =>
             let c := fresh "c" in let y := fresh "y" in let H1 := fresh "Hfc" in let H2 := fresh "Hf" in
             apply on_coord_inv in Hs; destruct Hs as (c & y & H1 & H2 & ->)
         end;
  try finish_frame H.

Lemma step_reqs_frame s e s' :
  step s e = Some s' ->
  match e with ES3Begin _ _ _ _ _ | ES3Effect _ _ | ES3End _ _ => True | _ => reqs s' = reqs s end.
Proof.
  intros H. destruct e; try exact I; frame_tac H;
    cbn [reqs set_coords set_tasks set_sems set_shutdown set_files set_uploads];
    rewrite ?set_stage_reqs, ?bump_reqs; cbn [reqs set_coords set_tasks set_sems set_shutdown set_files set_uploads];
    rewrite ?bump_reqs; try reflexivity.
Qed.

Lemma step_uploads_frame s e s' :
  step s e = Some s' ->
  match e with ES3Begin _ _ _ _ _ | ES3Effect _ _ | ES3End _ _ => True | _ => uploads s' = uploads s end.
Proof.
  intros H. destruct e; try exact I; frame_tac H;
    cbn [uploads set_coords set_tasks set_sems set_shutdown set_files set_reqs];
    rewrite ?set_stage_uploads, ?bump_uploads; cbn [uploads set_coords set_tasks set_sems set_shutdown set_files set_reqs];
    rewrite ?bump_uploads; try reflexivity.
Qed.

Definition is_pc (op : s3op) : bool := match op with OpPart | OpComplete => true | _ => false end.

Definition begin_upd (op : s3op) (v : upload) : upload :=
  match op with
  | OpAbort => mkUpload (u_id v) (u_t v) (u_inflight v) (u_completes_ok v)
                 (u_complete_begun v) true (u_abort_count v + 1)
                 (u_begun_after_abort v) (u_abort_while_inflight v || (0 <? u_inflight v))
  | _ => mkUpload (u_id v) (u_t v) (u_inflight v + 1) (u_completes_ok v)
                 (u_complete_begun v || s3op_eqb op OpComplete) (u_abort_begun v) (u_abort_count v)
                 (u_begun_after_abort v || u_abort_begun v) (u_abort_while_inflight v)
  end.

Record s3begin_facts (s : state) (a r : Z) (op : s3op) (t uid : Z) (s' : state) : Prop := {
  bf_busy : busy s a = false;
  bf_fresh : find_req r (reqs s) = None;
  bf_abort : op = OpAbort -> exists c, find_coord t (coords s) = Some c /\ c_cl_runner c = Some a;
  bf_task : op <> OpAbort ->
     exists x, find_task a (tasks s) = Some x /\ k_t x = t /\ k_st x = TMain /\
               kind_allows (k_kind x) op = true /\
               (k_kind x = KSubmission -> k_phase x = 2 /\
                  forall k' y, find_task k' (tasks s) = Some y -> k_t y = t -> k_kind y = KSubmission);
  bf_reqs : reqs s' = reqs s ++ [mkReq r a t op uid false false false];
  bf_uploads : uploads s' = if is_pc op || s3op_eqb op OpAbort
                            then upd_upload uid (begin_upd op) (uploads s) else uploads s;
  bf_upload : is_pc op || s3op_eqb op OpAbort = true ->
     exists u, find_upload uid (uploads s) = Some u /\ u_t u = t /\
               (op = OpComplete -> u_complete_begun u = false)
}.

Lemma s3begin_inv s a r op t uid s' :
  step s (ES3Begin a r op t uid) = Some s' -> s3begin_facts s a r op t uid s'.
Proof.
  intros H. cbn [step] in H. apply busy_false_of_if in H as [Hb H].
  destruct (_ && _) eqn:Eg in H; [|discriminate]. apply andb_prop in Eg as [Efr Ewho].
  assert (Hfresh : find_req r (reqs s) = None) by (destruct (find_req r (reqs s)); [discriminate|reflexivity]).
  assert (Hab : op = OpAbort -> exists c, find_coord t (coords s) = Some c /\ c_cl_runner c = Some a).
  { intros ->. cbn in Ewho. destruct (find_coord t (coords s)) as [c|]; [|discriminate].
    exists c. split; [reflexivity|]. destruct (c_cl_runner c) as [b|]; [|discriminate]. f_equal. lia. }
  assert (Htk : op <> OpAbort ->
     exists x, find_task a (tasks s) = Some x /\ k_t x = t /\ k_st x = TMain /\
               kind_allows (k_kind x) op = true /\
               (k_kind x = KSubmission -> k_phase x = 2 /\
                  forall k' y, find_task k' (tasks s) = Some y -> k_t y = t -> k_kind y = KSubmission)).
  { intros Hne. assert (E : s3op_eqb op OpAbort = false) by (destruct op; try reflexivity; congruence).
    rewrite E in Ewho. destruct (find_task a (tasks s)) as [x|]; [|discriminate].
    exists x. split_ands.
    split; [reflexivity|]. split; [lia|]. split; [now apply tst_eqb_true|]. split; [assumption|].
    intros Hk. unfold KSubmission in *. destruct (k_kind x =? 0) eqn:Ek; [|lia]. split_ands.
    split; [lia|]. intros k' y Hy Hyt.
    match goal with Hf : forallb _ _ = true |- _ => rewrite forallb_forall in Hf;
      specialize (Hf y (find_task_in _ _ _ Hy)); apply orb_prop in Hf as [Hn|Hn] end;
      [apply negb_true_iff in Hn; lia|lia]. }
  destruct op; cbn [is_pc s3op_eqb orb].
  1,5,6,7: injection H as <-; constructor; auto; try discriminate;
    cbn [reqs uploads set_reqs set_uploads is_pc s3op_eqb orb]; rewrite ?bump_uploads; reflexivity.
  - (* part *)
    cbn [uploads set_reqs] in H. rewrite bump_uploads in H.
    destruct (find_upload uid (uploads s)) as [u|] eqn:Eu; [|discriminate].
    destruct (_ && _) eqn:Eg in H; [|discriminate]. injection H as <-. split_ands.
    constructor; auto; try (cbn [reqs uploads set_reqs set_uploads is_pc s3op_eqb orb]; rewrite ?bump_uploads; reflexivity).
    intros _. exists u. split; [exact Eu|split; [lia|discriminate]].
  - (* complete *)
    cbn [uploads set_reqs] in H. rewrite bump_uploads in H.
    destruct (find_upload uid (uploads s)) as [u|] eqn:Eu; [|discriminate].
    destruct (_ && _) eqn:Eg in H; [|discriminate]. injection H as <-. split_ands.
    constructor; auto; try (cbn [reqs uploads set_reqs set_uploads is_pc s3op_eqb orb]; rewrite ?bump_uploads; reflexivity).
    intros _. exists u. split; [exact Eu|split; [lia|]]. intros _. cbn in *. now destruct (u_complete_begun u).
  - (* abort *)
    cbn [uploads set_reqs] in H. rewrite bump_uploads in H.
    destruct (find_upload uid (uploads s)) as [u|] eqn:Eu; [|discriminate].
    destruct (u_t u =? t) eqn:Eg; [|discriminate]. injection H as <-.
    constructor; auto; try (cbn [reqs uploads set_reqs set_uploads is_pc s3op_eqb orb]; rewrite ?bump_uploads; reflexivity).
    intros _. exists u. split; [exact Eu|split; [lia|discriminate]].
Qed.

Definition effect_upd (uid : Z) (v : req) : req :=
  mkReq (r_id v) (r_actor v) (r_t v) (r_op v)
        (if s3op_eqb (r_op v) OpCreate then uid else r_uid v) true (r_ended v) (r_ok v).
Definition end_upd (ok : bool) (v : req) : req :=
  mkReq (r_id v) (r_actor v) (r_t v) (r_op v) (r_uid v) (r_effect v) true ok.
Definition end_upload_upd (q : req) (v : upload) : upload :=
  mkUpload (u_id v) (u_t v) (u_inflight v - 1)
           (u_completes_ok v + (if s3op_eqb (r_op q) OpComplete && r_effect q then 1 else 0))
           (u_complete_begun v) (u_abort_begun v) (u_abort_count v)
           (u_begun_after_abort v) (u_abort_while_inflight v).

Record s3effect_facts (s : state) (r uid : Z) (s' : state) : Prop := {
  ef_q : exists q, find_req r (reqs s) = Some q /\ r_effect q = false /\ r_ended q = false /\
     uploads s' = (if s3op_eqb (r_op q) OpCreate
                   then uploads s ++ [mkUpload uid (r_t q) 0 0 false false 0 false false]
                   else uploads s) /\
     (r_op q = OpCreate -> find_upload uid (uploads s) = None);
  ef_reqs : reqs s' = upd_req r (effect_upd uid) (reqs s)
}.

Lemma s3effect_inv s r uid s' : step s (ES3Effect r uid) = Some s' -> s3effect_facts s r uid s'.
Proof.
  intros H. cbn [step] in H. destruct (find_req r (reqs s)) as [q|] eqn:Eq; [|discriminate].
  destruct (_ && _) eqn:Eg in H; [|discriminate]. apply andb_prop in Eg as [E1 E2].
  apply negb_true_iff in E1, E2.
  destruct (s3op_eqb (r_op q) OpCreate) eqn:Eop.
  - cbn [uploads set_reqs] in H. destruct (find_upload uid (uploads s)) eqn:Eu; [discriminate|].
    injection H as <-. constructor; [|reflexivity].
    exists q. rewrite Eop. repeat split; auto.
  - injection H as <-. constructor; [|reflexivity].
    exists q. rewrite Eop. repeat split; auto. intros Hop. rewrite Hop in Eop. discriminate.
Qed.

Record s3end_facts (s : state) (r : Z) (ok : bool) (s' : state) : Prop := {
  nf_q : exists q, find_req r (reqs s) = Some q /\ r_ended q = false /\ (ok = true -> r_effect q = true) /\
     uploads s' = (if is_pc (r_op q) then upd_upload (r_uid q) (end_upload_upd q) (uploads s) else uploads s);
  nf_reqs : reqs s' = upd_req r (end_upd ok) (reqs s)
}.

Lemma s3end_inv s r ok s' : step s (ES3End r ok) = Some s' -> s3end_facts s r ok s'.
Proof.
  intros H. cbn [step] in H. destruct (find_req r (reqs s)) as [q|] eqn:Eq; [|discriminate].
  destruct (_ && _) eqn:Eg in H; [|discriminate]. apply andb_prop in Eg as [E1 E2].
  apply negb_true_iff in E1.
  assert (Hok : ok = true -> r_effect q = true).
  { intros ->. cbn in E2. exact E2. }
  destruct (r_op q) eqn:Eop; injection H as <-; (constructor; [|reflexivity]);
    exists q; rewrite Eop; cbn [is_pc]; repeat split; auto.
  all: cbn [uploads set_uploads]; unfold end_upload_upd; rewrite Eop; reflexivity.
Qed.

(** the tasks / coordinators / requests that a request event leaves alone *)
Lemma upd_req_in r f l q' :
  In q' (upd_req r f l) -> exists q, In q l /\ (q' = q \/ (r_id q = r /\ q' = f q)).
Proof.
  unfold upd_req. rewrite in_map_iff. intros (q & Hq & Hin). exists q. split; [exact Hin|].
  destruct (r_id q =? r) eqn:E; [right; split; [lia|auto]|left; auto].
Qed.

Lemma upd_upload_in i f l u' :
  In u' (upd_upload i f l) -> exists u, In u l /\ (u' = u \/ (u_id u = i /\ u' = f u)).
Proof.
  unfold upd_upload. rewrite in_map_iff. intros (u & Hu & Hin). exists u. split; [exact Hin|].
  destruct (u_id u =? i) eqn:E; [right; split; [lia|auto]|left; auto].
Qed.

(** where a request of the next state comes from *)
Lemma req_origin s e s' q' :
  step s e = Some s' -> In q' (reqs s') ->
  (exists q, In q (reqs s) /\ r_id q' = r_id q /\ r_actor q' = r_actor q /\ r_t q' = r_t q /\
             r_op q' = r_op q /\ (r_ended q' = false -> r_ended q = false) /\
             (r_op q <> OpCreate -> r_uid q' = r_uid q)) \/
  (exists a r op t uid, e = ES3Begin a r op t uid /\ q' = mkReq r a t op uid false false false).
Proof.
  intros H Hin.
  assert (Hsame : reqs s' = reqs s -> exists q, In q (reqs s) /\ r_id q' = r_id q /\ r_actor q' = r_actor q /\ r_t q' = r_t q /\
             r_op q' = r_op q /\ (r_ended q' = false -> r_ended q = false) /\
             (r_op q <> OpCreate -> r_uid q' = r_uid q)).
  { intros E. rewrite E in Hin. exists q'. repeat split; auto. }
  pose proof (step_reqs_frame _ _ _ H) as Hfr.
  destruct e; try (left; apply Hsame; exact Hfr).
  - destruct (s3begin_inv _ _ _ _ _ _ _ H) as [_ _ _ _ Hr _ _]. rewrite Hr in Hin.
    apply in_app_or in Hin as [Hin|[<-|[]]].
    + left. exists q'. repeat split; auto.
    + right. eauto 10.
  - destruct (s3effect_inv _ _ _ _ H) as [_ Hr]. rewrite Hr in Hin.
    apply upd_req_in in Hin as (q & Hq & [->|[Hid ->]]); left; exists q; repeat split; auto.
    cbn. intros Hne. destruct (s3op_eqb (r_op q) OpCreate) eqn:E; [|reflexivity].
    apply s3op_eqb_eq in E. contradiction.
  - destruct (s3end_inv _ _ _ _ H) as [_ Hr]. rewrite Hr in Hin.
    apply upd_req_in in Hin as (q & Hq & [->|[Hid ->]]); left; exists q; repeat split; auto.
    cbn. discriminate.
Qed.

(** where an upload of the next state comes from *)
Lemma upload_origin s e s' u' :
  step s e = Some s' -> In u' (uploads s') ->
  (exists u, In u (uploads s) /\ u_id u' = u_id u /\ u_t u' = u_t u) \/
  (exists r uid q, e = ES3Effect r uid /\ find_req r (reqs s) = Some q /\ r_op q = OpCreate /\
                   u' = mkUpload uid (r_t q) 0 0 false false 0 false false).
Proof.
  intros H Hin.
  assert (Hsame : uploads s' = uploads s -> exists u, In u (uploads s) /\ u_id u' = u_id u /\ u_t u' = u_t u).
  { intros E. rewrite E in Hin. exists u'. auto. }
  pose proof (step_uploads_frame _ _ _ H) as Hfr.
  destruct e; try (left; apply Hsame; exact Hfr).
  - destruct (s3begin_inv _ _ _ _ _ _ _ H) as [_ _ _ _ _ Hu _]. rewrite Hu in Hin.
    destruct (is_pc op || s3op_eqb op OpAbort); [|left; exists u'; auto].
    apply upd_upload_in in Hin as (u & Hu' & [->|[Hid ->]]); left; exists u; repeat split; auto;
      destruct op; reflexivity.
  - destruct (s3effect_inv _ _ _ _ H) as [(q & Hq & _ & _ & Hu & _) _]. rewrite Hu in Hin.
    destruct (s3op_eqb (r_op q) OpCreate) eqn:E; [|left; exists u'; auto].
    apply in_app_or in Hin as [Hin|[<-|[]]]; [left; exists u'; auto|].
    right. exists r, uid, q. apply s3op_eqb_eq in E. auto.
  - destruct (s3end_inv _ _ _ _ H) as [(q & Hq & _ & _ & Hu) _]. rewrite Hu in Hin.
    destruct (is_pc (r_op q)); [|left; exists u'; auto].
    apply upd_upload_in in Hin as (u & Hu' & [->|[Hid ->]]); left; exists u; repeat split; auto.
Qed.

(* ================================================================== *)
(** * T2: shape of a transfer that has not started *)

Lemma status_post s k tr s' :
  step s (EStatus k tr true) = Some s' ->
  exists x c', find_task k (tasks s) = Some x /\ find_coord (k_t x) (coords s') = Some c' /\
               c_status c' = (if tr then Running else Queued).
Proof.
  intros H. cbn [step] in H. apply busy_false_of_if in H as [_ H].
  destruct (find_task k (tasks s)) as [x|] eqn:Ex; [|discriminate].
  destruct (find_coord (k_t x) (coords s)) as [c|] eqn:Ec; [|discriminate].
  destruct (_ && _) eqn:Eg in H; [|discriminate].
  unfold bind in H. destruct (on_coord s (k_t x) _) as [s1|] eqn:E1; [|discriminate].
  pose proof (on_task_coords _ _ _ _ H) as Hc. sub_on_coord E1. injection Hf as <-.
  exists x. exists (c_with c0 (if tr then Running else Queued) (c_exc c0)).
  split; [reflexivity|]. rewrite Hc. cbn [coords set_coords].
  rewrite (find_coord_upd_const (k_t x) (c_with c0 (if tr then Running else Queued) (c_exc c0)) _ c0 (k_t x) Hfc eq_refl), Z.eqb_refl.
  split; reflexivity.
Qed.

Definition unstarted (s : state) (t : Z) : Prop :=
  match find_coord t (coords s) with None => True | Some c => c_status c = NotStarted end.

Record ns_shape (s : state) (t : Z) : Prop := {
  ns_tasks : forall k x, find_task k (tasks s) = Some x -> k_t x = t -> k_kind x = KSubmission /\ k_phase x = 0;
  ns_reqs : forall q, In q (reqs s) -> r_t q <> t;
  ns_uploads : forall u, In u (uploads s) -> u_t u <> t
}.

Definition ns_inv (s : state) : Prop := forall t, unstarted s t -> ns_shape s t.

Lemma cstep_notstarted_back c c' : cstep c c' -> c_status c' = NotStarted -> c_status c = NotStarted.
Proof. intros H. destruct H; cbn; auto; try discriminate. destruct H0 as [-> | ->]; discriminate. Qed.

Lemma unstarted_back s e s' t : step s e = Some s' -> unstarted s' t -> unstarted s t.
Proof.
  intros H Hu. unfold unstarted in *.
  destruct (find_coord t (coords s)) as [c|] eqn:Ec; [|exact I].
  destruct (coord_persists_step _ _ _ _ _ H Ec) as (c' & Hc' & Hcs). rewrite Hc' in Hu.
  eapply cstep_notstarted_back; eauto.
Qed.

Lemma unstarted_not_done s t : unstarted s t -> coord_done s t = false.
Proof.
  unfold unstarted, coord_done. destruct (find_coord t (coords s)); [|reflexivity]. now intros ->.
Qed.

Lemma ns_inv_step s e s' : T1_inv s -> ns_inv s -> step s e = Some s' -> ns_inv s'.
Proof.
  intros (_ & _ & IL & IA) I H t Hu'.
  pose proof (unstarted_back _ _ _ _ H Hu') as Hu. destruct (I t Hu) as [It Iq Iu].
  pose proof (unstarted_not_done _ _ Hu') as Hnd'.
  constructor.
  - (* tasks *)
    intros k x' Hx' Hkt.
    destruct (task_origin _ _ _ _ _ H Hx') as [(x & Hx & Hts)|(_ & t0 & g & a & fin & deps & kind & -> & ->)].
    + statics Hts. rewrite St in Hkt. destruct (It k x Hx Hkt) as [Hk Hp]. rewrite Skind.
      destruct Hts; cbn [k_phase with_st with_flags with_phase with_permit with_assoc with_released] in *;
        auto; try lia.
      * (* sub exc *) subst t0. apply setexc_done in H. rewrite Hkt in H. congruence.
      * (* status *) destruct (status_post _ _ _ _ H) as (x0 & c' & Hx0 & Hc' & Hst).
        assert (x0 = x) by (pose proof (find_task_some_id _ _ _ Hx); congruence). subst x0. rewrite Hkt in Hc'.
        unfold unstarted in Hu'. rewrite Hc' in Hu'. rewrite Hu' in Hst. destruct tr; discriminate.
    + cbn [k_t fresh_task] in Hkt. subst t0. cbn. split; [|reflexivity].
      destruct (Z.eq_dec kind KSubmission) as [Hk|Hk]; [exact Hk|exfalso].
      destruct (submit_inv _ _ _ _ _ _ _ _ _ H) as [_ _ Hns _ _ _ _ _ _ _ _].
      destruct (Hns Hk) as (_ & p & Hp & Hpt & _ & Hph). destruct (It a p Hp Hpt) as [Hpk Hpp].
      specialize (Hph Hpk). lia.
  - (* reqs *)
    intros q' Hq'.
    destruct (req_origin _ _ _ _ H Hq') as [(q & Hq & _ & _ & Ht & _)|(a & r & op & t0 & uid & -> & ->)].
    + rewrite Ht. auto.
    + cbn [r_t]. intros ->.
      destruct (s3begin_inv _ _ _ _ _ _ _ H) as [_ _ Hab Htk _ _ _].
      destruct (s3op_eqb op OpAbort) eqn:Eop.
      * apply s3op_eqb_eq in Eop. destruct (Hab Eop) as (c & Hc & Hrun).
        assert (Hd : is_done (c_status c) = true).
        { apply (IA t c Hc). left. destruct (IL t c Hc) as [_ _ _ _ L5 _]. apply L5. congruence. }
        unfold unstarted in Hu. rewrite Hc in Hu. rewrite Hu in Hd. discriminate.
      * assert (Hne : op <> OpAbort) by (intros ->; discriminate).
        destruct (Htk Hne) as (x & Hx & Hxt & _ & _ & Hsub).
        destruct (It a x Hx Hxt) as [Hk Hp]. destruct (Hsub Hk) as [Hp2 _]. lia.
  - (* uploads *)
    intros u' Hu0.
    destruct (upload_origin _ _ _ _ H Hu0) as [(u & Hin & _ & Ht)|(r & uid & q & -> & Hq & _ & ->)].
    + rewrite Ht. auto.
    + cbn [u_t]. apply Iq. eapply find_req_in; eauto.
Qed.

(* ================================================================== *)
(** * Static facts about tasks *)

Record task_basic (s : state) (x : task) : Prop := {
  tb_sub : k_kind x = KSubmission -> k_final x = false /\ k_stage x = SSub /\ is_user (k_parent x) = true;
  tb_nonsub : k_kind x <> KSubmission ->
      k_stage x <> SSub /\ k_parent x < k_id x /\
      exists p, find_task (k_parent x) (tasks s) = Some p /\ k_t p = k_t x;
  tb_coord : find_coord (k_t x) (coords s) <> None;
  tb_nonneg : 0 <= k_id x;
  tb_assoc2 : k_assoc x = 2 -> k_st x = TEnded;
  tb_assoc_rng : k_assoc x = 0 \/ k_assoc x = 1 \/ k_assoc x = 2;
  tb_inline : k_stage x = SInline -> k_assoc x = 0 /\ k_st x <> TSubmitting;
  tb_submitting : k_st x = TSubmitting -> k_assoc x = 0
}.

Definition tb_inv (s : state) : Prop :=
  (forall k x, find_task k (tasks s) = Some x -> task_basic s x) /\
  (forall k1 x1 k2 x2, find_task k1 (tasks s) = Some x1 -> find_task k2 (tasks s) = Some x2 ->
     k_t x1 = k_t x2 -> k_kind x1 = KSubmission -> k_kind x2 = KSubmission -> k1 = k2).

Lemma kind_stage_sub g : kind_stage_ok KSubmission g = true -> g = SSub.
Proof. unfold kind_stage_ok. cbn. apply stage_eqb_eq. Qed.

Lemma kind_stage_nonsub kind g : kind <> KSubmission -> kind_stage_ok kind g = true -> g <> SSub.
Proof.
  unfold kind_stage_ok, KSubmission. intros Hk. destruct (kind =? 0) eqn:E; [lia|].
  intros H ->. destruct (_ || _) in H; discriminate.
Qed.

Lemma tb_inv_step s e s' : tb_inv s -> step s e = Some s' -> tb_inv s'.
Proof.
  intros [I U] H. split.
  - intros k x' Hx'.
    destruct (task_origin _ _ _ _ _ H Hx') as [(x & Hx & Hts)|(Hnone & t & g & a & fin & deps & kind & -> & ->)].
    + destruct (I k x Hx) as [B1 B2 B3 B4 B5 B6 B7 B8]. statics Hts.
      constructor; rewrite ?Sid, ?St, ?Sstg, ?Spar, ?Sfin, ?Skind.
      * exact B1.
      * intros Hk. destruct (B2 Hk) as (Hs & Hlt & p & Hp & Hpt). split; [exact Hs|]. split; [exact Hlt|].
        destruct (task_persists _ _ _ _ _ H Hp) as (p' & Hp' & Hpts). statics Hpts.
        exists p'. split; [exact Hp'|congruence].
      * destruct (find_coord (k_t x) (coords s)) as [c|] eqn:Ec; [|contradiction].
        destruct (coord_persists_step _ _ _ _ _ H Ec) as (c' & -> & _). discriminate.
      * exact B4.
      * destruct Hts; cbn; auto; try lia; try (intros Ha; specialize (B5 Ha); congruence).
      * destruct Hts; cbn; auto.
      * intros Hs. destruct (B7 Hs) as [Ha Hn].
        destruct Hts; cbn; try contradiction; try lia; (split; [auto|first [exact Hn|discriminate]]).
      * destruct Hts; cbn; auto; try discriminate; try congruence.
    + destruct (submit_inv _ _ _ _ _ _ _ _ _ H) as [_ Hsub Hns _ Hco Hks Hnn _ _ Hids Hpost].
      constructor; cbn [fresh_task k_kind k_final k_stage k_parent k_id k_t k_assoc k_st].
      * intros ->. destruct (Hsub eq_refl) as (Hu & Hg & Hf & _). auto.
      * intros Hk. destruct (Hns Hk) as (_ & p & Hp & Hpt & _). split; [eapply kind_stage_nonsub; eauto|].
        split; [pose proof (Hids _ _ Hp); pose proof (find_task_some_id _ _ _ Hp); lia|].
        destruct (task_persists _ _ _ _ _ H Hp) as (p' & Hp' & Hpts). statics Hpts.
        exists p'. split; [exact Hp'|congruence].
      * destruct (find_coord t (coords s)) as [c|] eqn:Ec; [|contradiction].
        destruct (coord_persists_step _ _ _ _ _ H Ec) as (c' & -> & _). discriminate.
      * exact Hnn.
      * discriminate.
      * auto.
      * intros ->. cbn. split; [reflexivity|discriminate].
      * reflexivity.
  - intros k1 x1' k2 x2' H1 H2 Ht Hk1 Hk2.
    destruct (task_origin _ _ _ _ _ H H1) as [(x1 & Hx1 & Hts1)|(Hn1 & t1 & g1 & a1 & f1 & d1 & kd1 & -> & ->)];
    destruct (task_origin _ _ _ _ _ H H2) as [(x2 & Hx2 & Hts2)|(Hn2 & t2 & g2 & a2 & f2 & d2 & kd2 & E2 & ->)].
    + statics Hts1. statics Hts2. eapply U; eauto; congruence.
    + statics Hts1. subst e. cbn in *. subst kd2.
      destruct (submit_inv _ _ _ _ _ _ _ _ _ H) as [_ Hsub _ _ _ _ _ _ _ _ _].
      destruct (Hsub eq_refl) as (_ & _ & _ & Hno). exfalso. eapply Hno; [exact Hx1|congruence].
    + statics Hts2. cbn in *. subst kd1.
      destruct (submit_inv _ _ _ _ _ _ _ _ _ H) as [_ Hsub _ _ _ _ _ _ _ _ _].
      destruct (Hsub eq_refl) as (_ & _ & _ & Hno). exfalso. eapply Hno; [exact Hx2|congruence].
    + injection E2 as -> -> -> -> -> -> ->. reflexivity.
Qed.

(* ================================================================== *)
(** * C07: a transfer cancelled before it started stays quiet *)

Record quiet (s : state) (t : Z) : Prop := {
  qu_tasks : forall k x, find_task k (tasks s) = Some x -> k_t x = t ->
             k_kind x = KSubmission /\ (k_phase x = 0 \/ 3 <= k_phase x);
  qu_reqs : forall q, In q (reqs s) -> r_t q <> t;
  qu_uploads : forall u, In u (uploads s) -> u_t u <> t
}.

Lemma ns_shape_quiet s t : ns_shape s t -> quiet s t.
Proof.
  intros [A B C]. constructor; auto. intros k x Hx Ht. destruct (A k x Hx Ht). auto.
Qed.

Lemma quiet_step s e s' t :
  coord_done s t = true -> quiet s t -> step s e = Some s' -> quiet s' t.
Proof.
  intros Hd [It Iq Iu] H. constructor.
  - intros k x' Hx' Hkt.
    destruct (task_origin _ _ _ _ _ H Hx') as [(x & Hx & Hts)|(_ & t0 & g & a & fin & deps & kind & -> & ->)].
    + statics Hts. rewrite St in Hkt. destruct (It k x Hx Hkt) as [Hk Hp]. rewrite Skind. split; [exact Hk|].
      destruct Hts; cbn [k_phase with_st with_flags with_phase with_permit with_assoc with_released] in *;
        auto; try lia.
      rewrite Hkt in *. congruence.
    + cbn [k_t fresh_task] in Hkt. subst t0. cbn. split; [|left; reflexivity].
      destruct (Z.eq_dec kind KSubmission) as [Hk|Hk]; [exact Hk|exfalso].
      destruct (submit_inv _ _ _ _ _ _ _ _ _ H) as [_ _ Hns _ _ _ _ _ _ _ _].
      destruct (Hns Hk) as (_ & p & Hp & Hpt & _ & Hph). destruct (It a p Hp Hpt) as [Hpk Hpp].
      specialize (Hph Hpk). lia.
  - intros q' Hq'.
    destruct (req_origin _ _ _ _ H Hq') as [(q & Hq & _ & _ & Ht & _)|(a & r & op & t0 & uid & -> & ->)].
    + rewrite Ht. auto.
    + cbn [r_t]. intros ->.
      destruct (s3begin_inv _ _ _ _ _ _ _ H) as [_ _ _ Htk _ _ Hup].
      destruct (s3op_eqb op OpAbort) eqn:Eop.
      * destruct Hup as (u & Hu & Hut & _); [apply orb_true_r|].
        apply find_upload_in in Hu. exact (Iu u Hu Hut).
      * assert (Hne : op <> OpAbort) by (intros ->; discriminate).
        destruct (Htk Hne) as (x & Hx & Hxt & _ & _ & Hsub).
        destruct (It a x Hx Hxt) as [Hk Hp]. destruct (Hsub Hk) as [Hp2 _]. lia.
  - intros u' Hu0.
    destruct (upload_origin _ _ _ _ H Hu0) as [(u & Hin & _ & Ht)|(r & uid & q & -> & Hq & _ & ->)].
    + rewrite Ht. auto.
    + cbn [u_t]. apply Iq. eapply find_req_in; eauto.
Qed.

(** in a quiet transfer no request begins and nothing but a (first) submission task is submitted *)
Lemma quiet_no_s3begin s t a r op uid : quiet s t -> step s (ES3Begin a r op t uid) = None.
Proof.
  intros [It Iq Iu]. destruct (step s (ES3Begin a r op t uid)) as [s'|] eqn:H; [exfalso|reflexivity].
  destruct (s3begin_inv _ _ _ _ _ _ _ H) as [_ _ _ Htk _ _ Hup].
  destruct (s3op_eqb op OpAbort) eqn:Eop.
  - destruct Hup as (u & Hu & Hut & _); [apply orb_true_r|].
    apply find_upload_in in Hu. exact (Iu u Hu Hut).
  - assert (Hne : op <> OpAbort) by (intros ->; discriminate).
    destruct (Htk Hne) as (x & Hx & Hxt & _ & _ & Hsub).
    destruct (It a x Hx Hxt) as [Hk Hp]. destruct (Hsub Hk) as [Hp2 _]. lia.
Qed.

Lemma quiet_no_submit s t a k g fin deps kind :
  quiet s t -> kind <> KSubmission -> step s (ESubmit a k t g fin deps kind) = None.
Proof.
  intros [It _ _] Hk. destruct (step s (ESubmit a k t g fin deps kind)) as [s'|] eqn:H; [exfalso|reflexivity].
  destruct (submit_inv _ _ _ _ _ _ _ _ _ H) as [_ _ Hns _ _ _ _ _ _ _ _].
  destruct (Hns Hk) as (_ & p & Hp & Hpt & _ & Hph). destruct (It a p Hp Hpt) as [Hpk Hpp].
  specialize (Hph Hpk). lia.
Qed.

(** the locked section of cancel() *)
Lemma cancel_inv s a t e s' :
  step s (ECancel a t e) = Some s' ->
  exists c c', find_coord t (coords s) = Some c /\ find_coord t (coords s') = Some c' /\
    tasks s' = tasks s /\ reqs s' = reqs s /\ uploads s' = uploads s /\
    (if is_done (c_status c) then c' = c
     else c_status c' = Cancelled /\ c_exc c' = Some e /\
          (c_status c = NotStarted -> In a (c_owing c')) /\
          (c_status c <> NotStarted -> c_owing c' = c_owing c)).
Proof.
  intros H. pose proof (step_reqs_frame _ _ _ H) as Hr. pose proof (step_uploads_frame _ _ _ H) as Hu.
  cbn in Hr, Hu. cbn [step] in H. apply busy_false_of_if in H as [_ H].
  destruct (_ || _) in H; [|discriminate]. sub_on_coord H.
  exists c. exists y. split; [exact Hfc|]. split.
  { cbn [coords set_coords]. rewrite (find_coord_upd_const t y _ c t Hfc), Z.eqb_refl; [reflexivity|].
    destruct (is_done (c_status c)); [injection Hf as <-; reflexivity|].
    destruct (status_eqb (c_status c) NotStarted); injection Hf as <-; reflexivity. }
  split; [reflexivity|]. split; [exact Hr|]. split; [exact Hu|].
  destruct (is_done (c_status c)); [now injection Hf as <-|].
  destruct (status_eqb (c_status c) NotStarted) eqn:En; injection Hf as <-; cbn;
    (split; [reflexivity|split; [reflexivity|split]]).
  - intros _. now left.
  - apply status_eqb_eq in En. intros; contradiction.
  - intros Hn. rewrite Hn in En. discriminate.
  - reflexivity.
Qed.

Lemma cancelled_stays_cancelled_step s e s' t c c' :
  step s e = Some s' -> find_coord t (coords s) = Some c -> find_coord t (coords s') = Some c' ->
  c_status c = Cancelled ->
  c_status c' = Cancelled \/
  (exists k x, e = ESetResult k /\ find_task k (tasks s) = Some x /\ k_t x = t /\ k_final x = true /\ k_st x = TMain) \/
  (exists a x, e = ESetException a t x true).
Proof.
  intros H Hc Hc' Hst.
  destruct (coord_persistsE _ _ _ _ _ H Hc) as (c'' & Hc'' & Hcs). rewrite Hc' in Hc''. injection Hc'' as <-.
  destruct Hcs; cbn; auto; try (rewrite Hst in *; cbn in *; discriminate).
  - right; left. eauto 10.
  - destruct H0 as [H0| ->]; [rewrite Hst in H0; discriminate|]. right; right; eauto.
Qed.

Section Reach2.
Variables w_sub w_req w_io q_sub q_req q_io up down : Z.
Let s0 := init w_sub w_req w_io q_sub q_req q_io up down.

Lemma tb_inv_reachable s : reachable s0 s -> tb_inv s.
Proof.
  apply invariant_reachable.
  - split; intros; discriminate.
  - intros; eapply tb_inv_step; eauto.
Qed.

Lemma ns_inv_reachable s : reachable s0 s -> ns_inv s.
Proof.
  apply (invariant_reachable2 T1_inv).
  - apply T1_inv_reachable.
  - intros t _. constructor; [intros; discriminate|intros q []|intros u []].
  - intros; eapply ns_inv_step; eauto.
Qed.

(** T2 *)
Theorem notstarted_shape s t c :
  reachable s0 s -> find_coord t (coords s) = Some c -> c_status c = NotStarted ->
  (forall k x, find_task k (tasks s) = Some x -> k_t x = t -> k_kind x = KSubmission /\ k_phase x = 0) /\
  (forall q, In q (reqs s) -> r_t q <> t) /\
  (forall u, In u (uploads s) -> u_t u <> t).
Proof.
  intros R Hc Hst. destruct (ns_inv_reachable s R t) as [A B C]; [|auto].
  unfold unstarted. now rewrite Hc.
Qed.

(** cancel applies iff the transfer is not done (and then stores the cancellation) *)
Theorem cancel_applies_iff_not_done s a t e s' :
  step s (ECancel a t e) = Some s' ->
  exists c c', find_coord t (coords s) = Some c /\ find_coord t (coords s') = Some c' /\
    (is_done (c_status c) = true -> c' = c) /\
    (is_done (c_status c) = false -> c_status c' = Cancelled /\ c_exc c' = Some e).
Proof.
  intros H. destruct (cancel_inv _ _ _ _ _ H) as (c & c' & Hc & Hc' & _ & _ & _ & Hif).
  exists c, c'. split; [exact Hc|]. split; [exact Hc'|].
  destruct (is_done (c_status c)); split; try discriminate; auto. intros _. tauto.
Qed.

(** after a cancel that found the transfer not started: forever quiet and done;
    the status stays Cancelled unless a user overrides it with set_exception *)
Theorem cancel_before_start_no_requests s a t e c s1 :
  reachable s0 s -> find_coord t (coords s) = Some c -> c_status c = NotStarted ->
  step s (ECancel a t e) = Some s1 ->
  forall tr s2, run s1 tr = Some s2 ->
    quiet s2 t /\ coord_done s2 t = true /\
    (forall a' r op uid, step s2 (ES3Begin a' r op t uid) = None) /\
    (forall a' k g fin deps kind, kind <> KSubmission -> step s2 (ESubmit a' k t g fin deps kind) = None) /\
    (exists c2, find_coord t (coords s2) = Some c2 /\
       (c_status c2 = Cancelled \/ exists a' x, In (ESetException a' t x true) tr)).
Proof.
  intros R Hc Hst H.
  destruct (notstarted_shape s t c R Hc Hst) as (A & B & C).
  destruct (cancel_inv _ _ _ _ _ H) as (c0 & c1 & Hc0 & Hc1 & Ht & Hr & Hu & Hif).
  rewrite Hc in Hc0. injection Hc0 as <-. rewrite Hst in Hif. cbn in Hif. destruct Hif as (Hst1 & _).
  assert (Q1 : quiet s1 t).
  { constructor; rewrite ?Ht, ?Hr, ?Hu; auto. intros k x Hx Hkt. destruct (A k x Hx Hkt). auto. }
  assert (D1 : coord_done s1 t = true) by (unfold coord_done; rewrite Hc1, Hst1; reflexivity).
  assert (R1 : reachable s0 s1) by (eapply reachable_step; eauto).
  assert (G : forall tr s1 c1, reachable s0 s1 -> quiet s1 t -> coord_done s1 t = true ->
              find_coord t (coords s1) = Some c1 ->
              forall s2, run s1 tr = Some s2 ->
              quiet s2 t /\ coord_done s2 t = true /\
              exists c2, find_coord t (coords s2) = Some c2 /\
                (c_status c1 = Cancelled -> c_status c2 = Cancelled \/ exists a' x, In (ESetException a' t x true) tr)).
  { clear Q1 D1 R1 Hc1 Hst1 Ht Hr Hu H. induction tr as [|ev tr IH]; intros s1' c1' R1 Q1 D1 Hc1 s2 Hrun; cbn [run] in Hrun.
    - injection Hrun as <-. split; [exact Q1|]. split; [exact D1|]. exists c1'. split; [exact Hc1|]. intros Hcc. left. exact Hcc.
    - destruct (step s1' ev) as [s1''|] eqn:Es; [|discriminate].
      destruct (coord_persists_step _ _ _ _ _ Es Hc1) as (c1'' & Hc1' & _).
      destruct (IH s1'' c1'' (reachable_step _ _ _ _ R1 Es) (quiet_step _ _ _ _ D1 Q1 Es)
                  (coord_done_step _ _ _ _ Es D1) Hc1' s2 Hrun) as (Q2 & D2 & c2 & Hc2 & Hst2).
      split; [exact Q2|]. split; [exact D2|]. exists c2. split; [exact Hc2|]. intros Hcan.
      destruct (cancelled_stays_cancelled_step _ _ _ _ _ _ Es Hc1 Hc1' Hcan) as [Hk|[(k & y & -> & Hy & Hyt & Hyf & _)|(a' & x & ->)]].
      + destruct (Hst2 Hk) as [|(a' & x & Hin)]; [auto|]. right. exists a', x. now right.
      + (* set_result needs a final task of t in its main: none in a quiet transfer *)
        exfalso. destruct (tb_inv_reachable s1' R1) as [TB _].
        destruct Q1 as [It _ _]. destruct (It k y Hy Hyt) as [Hk _].
        destruct (TB k y Hy) as [B1 _ _ _ _ _ _ _]. destruct (B1 Hk) as [Hf _]. congruence.
      + right. exists a', x. now left. }
  intros tr s2 H0.
  destruct (G tr s1 c1 R1 Q1 D1 Hc1 s2 H0) as (Q2 & D2 & c2 & Hc2 & Hst2).
  split; [exact Q2|]. split; [exact D2|]. split; [|split].
  - intros. now apply quiet_no_s3begin.
  - intros. now apply quiet_no_submit.
  - exists c2. auto.
Qed.
End Reach2.

(* ================================================================== *)
(** * T3: the submit window *)

(** [x] keeps its parent busy *)
Definition holds_parent (x : task) : bool :=
  if stage_eqb (k_stage x) SInline
  then negb (tst_eqb (k_st x) TEnded) && negb (tst_eqb (k_st x) TQueued)
  else negb (k_kind x =? KSubmission) && (tst_eqb (k_st x) TSubmitting || (k_assoc x =? 0)).

Lemma holds_parent_busy s k x :
  find_task k (tasks s) = Some x -> holds_parent x = true -> busy s (k_parent x) = true.
Proof.
  intros Hx Hh. unfold busy. apply orb_true_iff. right. apply existsb_exists.
  exists x. split; [eapply find_task_in; eauto|]. rewrite Z.eqb_refl. exact Hh.
Qed.

Definition acting_st (p : task) : Prop := k_st p = TMain \/ k_st p = TPost.

Definition window_inv (s : state) : Prop :=
  forall k x, find_task k (tasks s) = Some x -> holds_parent x = true ->
  exists p, find_task (k_parent x) (tasks s) = Some p /\ k_t p = k_t x /\ acting_st p.

Lemma holds_parent_spec x :
  holds_parent x = true <->
  (k_stage x = SInline /\ k_st x <> TEnded /\ k_st x <> TQueued) \/
  (k_stage x <> SInline /\ k_kind x <> KSubmission /\ (k_st x = TSubmitting \/ k_assoc x = 0)).
Proof.
  unfold holds_parent. destruct (stage_eqb (k_stage x) SInline) eqn:Es.
  - apply stage_eqb_eq in Es. rewrite andb_true_iff, !negb_true_iff.
    split.
    + intros [H1 H2]. left. repeat split; auto; intros E; rewrite E in *; discriminate.
    + intros [(_ & H1 & H2)|(H1 & _)]; [|contradiction].
      split; destruct (k_st x); try reflexivity; congruence.
  - assert (Hs : k_stage x <> SInline) by (intros E; rewrite E in Es; discriminate).
    rewrite andb_true_iff, negb_true_iff, orb_true_iff. unfold KSubmission. split.
    + intros [H1 [H2|H2]]; right; (split; [exact Hs|split; [lia|]]).
      * left. now apply tst_eqb_true.
      * right. lia.
    + intros [(H1 & _)|(_ & H1 & [H2|H2])]; [contradiction| |]; (split; [lia|]).
      * left. rewrite H2. reflexivity.
      * right. lia.
Qed.

Lemma parent_stays s e p p' :
  tstepE s e p p' -> acting_st p -> busy s (k_id p) = true -> acting_st p'.
Proof.
  unfold acting_st. intros H Ha Hb.
  destruct H; cbn; auto; try (destruct Ha; congruence).
Qed.

(** a task starts holding its parent only when it is created (non-inline) or
    when it is called (inline) *)
Lemma holds_parent_begins s e x x' :
  tstepE s e x x' -> holds_parent x' = true ->
  holds_parent x = true \/
  (k_stage x = SInline /\ exists k0, e = ETaskStart k0 /\ k_st x = TQueued /\
     busy s (k_parent x) = false /\ acting_task s (k_parent x) (k_t x) = true).
Proof.
  intros H Hh'. rewrite !holds_parent_spec in *.
  destruct H; cbn [k_st k_stage k_kind k_assoc with_st with_flags with_phase with_permit with_assoc with_released] in *;
    try (left; exact Hh').
  all: try solve [left; intuition congruence].
  all: try solve [destruct (k_final x); left; intuition congruence].
  all: try solve [left; intuition (try congruence; try lia)].
  (* start *)
  destruct Hh' as [(Hs & _ & _)|(Hs & Hk & [Hq|Ha])].
  - right. split; [exact Hs|]. exists k. destruct (H1 Hs). auto.
  - discriminate.
  - left. right. auto.
Qed.

Lemma window_inv_step s e s' : window_inv s -> step s e = Some s' -> window_inv s'.
Proof.
  intros I H k x' Hx' Hh'.
  destruct (task_origin _ _ _ _ _ H Hx') as [(x & Hx & Hts)|(_ & t & g & a & fin & deps & kind & -> & ->)].
  - statics Hts. rewrite Spar, St.
    destruct (holds_parent_begins _ _ _ _ Hts Hh') as [Hh|(Hstg & k0 & -> & Hq & Hnb & Hact)].
    + (* the parent was already held *)
      destruct (I k x Hx Hh) as (p & Hp & Hpt & Hpa).
      destruct (task_persists _ _ _ _ _ H Hp) as (p' & Hp' & Hpts). statics Hpts.
      exists p'. split; [exact Hp'|]. split; [congruence|].
      eapply parent_stays; [exact Hpts|exact Hpa|].
      rewrite (find_task_some_id _ _ _ Hp). eapply holds_parent_busy; eauto.
    + (* an inline child is being called by its acting parent *)
      destruct (acting_task_inv _ _ _ Hact) as (p & Hp & Hpt & Hpa).
      destruct (task_persists _ _ _ _ _ H Hp) as (p' & Hp' & Hpts).
      exists p'. split; [exact Hp'|].
      assert (Hpp : p' = p).
      { inversion Hpts; subst; auto. exfalso. destruct Hpa; congruence. }
      subst p'. split; [exact Hpt|exact Hpa].
  - (* a new task: its parent is the acting submitter *)
    cbn [k_parent k_t fresh_task] in *.
    destruct (Z.eq_dec kind KSubmission) as [Hk|Hk].
    { exfalso. subst kind. destruct (submit_inv _ _ _ _ _ _ _ _ _ H) as [_ Hsub _ _ _ _ _ _ _ _ _].
      destruct (Hsub eq_refl) as (_ & -> & _). cbn in Hh'. discriminate. }
    destruct (submit_inv _ _ _ _ _ _ _ _ _ H) as [_ _ Hns _ _ _ _ _ _ _ _].
    destruct (Hns Hk) as (_ & p & Hp & Hpt & Hpa & _).
    destruct (task_persists _ _ _ _ _ H Hp) as (p' & Hp' & Hpts).
    assert (Hpp : p' = p) by (inversion Hpts; subst; auto). subst p'.
    exists p. auto.
Qed.

Lemma ended_is_absorbing_step s e x x' : tstepE s e x x' -> k_st x = TEnded -> k_st x' = TEnded.
Proof. intros H Hs. destruct H; cbn; auto; try congruence. Qed.

Lemma past_main_monotone_step s e x x' :
  tstepE s e x x' -> past_main (k_st x) = true -> past_main (k_st x') = true.
Proof.
  intros H Hs. destruct H; cbn; auto;
    try (match goal with Hq : k_st _ = _ |- _ => rewrite Hq in Hs; discriminate end).
Qed.

(* ================================================================== *)
(** * Part C.  The single IO worker runs one task at a time *)

Lemma io_frame s e s' :
  step s e = Some s' ->
  match e with
  | ETaskStart _ | ETaskEnd _ => True
  | _ => g_running (st_io s') = g_running (st_io s) /\ g_workers (st_io s') = g_workers (st_io s)
  end.
Proof.
  intros H. destruct e; try exact I; frame_tac H;
    try (cbn [st_io set_coords set_tasks set_sems set_shutdown set_files set_uploads set_reqs bump_after_shutdown];
         unfold bump_after_shutdown; repeat match goal with |- context [if ?b then _ else _] => destruct b end;
         cbn; auto; fail).
  - (* EEnqueue *) destruct (k_stage t); cbn; auto.
  - (* EStageShutdown *) destruct g; cbn; auto.
  - (* EStageJoined *) destruct g; cbn; auto.
Qed.

Lemma start_io s k s' x :
  step s (ETaskStart k) = Some s' -> find_task k (tasks s) = Some x ->
  g_workers (st_io s') = g_workers (st_io s) /\
  (k_stage x = SIO -> g_running (st_io s) < g_workers (st_io s) /\ g_running (st_io s') = g_running (st_io s) + 1) /\
  (k_stage x <> SIO -> g_running (st_io s') = g_running (st_io s)) /\
  find_task k (tasks s') = Some (with_st x TStarted).
Proof.
  intros H Hx. cbn [step] in H. rewrite Hx in H.
  assert (Hpost : find_task k (upd_task k (fun y => with_st y TStarted) (tasks s)) = Some (with_st x TStarted)).
  { rewrite find_task_upd by reflexivity. now rewrite Z.eqb_refl, Hx. }
  destruct (stage_eqb (k_stage x) SInline) eqn:Es.
  - apply stage_eqb_eq in Es. destruct (_ && _) in H; [|discriminate]. injection H as <-.
    cbn. split; [reflexivity|split; [intros E; congruence|split; [intros _; reflexivity|exact Hpost]]].
  - destruct (g_queue (get_stage s (k_stage x))) eqn:Eq; [discriminate|].
    destruct (_ && _) eqn:Eg in H; [|discriminate]. injection H as <-. split_ands.
    rewrite set_stage_tasks. cbn [tasks set_tasks].
    destruct (k_stage x) eqn:Estg; cbn in *; repeat split; auto; try congruence; try lia.
Qed.

Lemma end_io s k s' x :
  step s (ETaskEnd k) = Some s' -> find_task k (tasks s) = Some x ->
  g_workers (st_io s') = g_workers (st_io s) /\
  (k_stage x = SIO -> g_running (st_io s') = g_running (st_io s) - 1) /\
  (k_stage x <> SIO -> g_running (st_io s') = g_running (st_io s)) /\
  find_task k (tasks s') = Some (with_st x TEnded) /\
  past_main (k_st x) = true /\ k_st x <> TEnded.
Proof.
  intros H Hx. cbn [step] in H. apply busy_false_of_if in H as [_ H]. rewrite Hx in H.
  assert (Hpost : find_task k (upd_task k (fun y => with_st y TEnded) (tasks s)) = Some (with_st x TEnded)).
  { rewrite find_task_upd by reflexivity. now rewrite Z.eqb_refl, Hx. }
  destruct (if k_final x then _ else _) eqn:Eg in H; [|discriminate].
  assert (Hst : past_main (k_st x) = true /\ k_st x <> TEnded).
  { destruct (k_final x); apply tst_eqb_true in Eg; rewrite Eg; split; [reflexivity|discriminate|reflexivity|discriminate]. }
  destruct (stage_eqb (k_stage x) SInline) eqn:Es.
  - apply stage_eqb_eq in Es. injection H as <-. cbn.
    split; [reflexivity|split; [intros E; congruence|split; [intros _; reflexivity|split; [exact Hpost|exact Hst]]]].
  - injection H as <-. rewrite set_stage_tasks. cbn [tasks set_tasks].
    destruct (k_stage x) eqn:Estg; cbn in *; repeat split; auto; try congruence; try lia; try apply Hst.
Qed.

Definition io_active (x : task) : bool :=
  stage_eqb (k_stage x) SIO && negb (tst_eqb (k_st x) TSubmitting) && negb (tst_eqb (k_st x) TQueued)
  && negb (tst_eqb (k_st x) TEnded).

Definition io_inv (s : state) : Prop :=
  g_workers (st_io s) = 1 ->
  (g_running (st_io s) = 0 /\ forall k x, find_task k (tasks s) = Some x -> io_active x = false) \/
  (g_running (st_io s) = 1 /\
   exists k0, forall k x, find_task k (tasks s) = Some x -> io_active x = true -> k = k0).

Lemma io_active_change s e x x' :
  tstepE s e x x' ->
  io_active x' = io_active x \/
  (e = ETaskStart (k_id x) /\ k_st x = TQueued /\ k_st x' = TStarted) \/
  (e = ETaskEnd (k_id x) /\ k_st x' = TEnded).
Proof.
  intros H. unfold io_active.
  destruct H; cbn [k_st k_stage with_st with_flags with_phase with_permit with_assoc with_released];
    try (left; reflexivity);
    try (match goal with Hq : k_st _ = _ |- _ =>
           left; rewrite Hq; cbn; destruct (stage_eqb (k_stage _) SIO); reflexivity end);
    subst.
  - right; left. auto.
  - right; right. auto.
Qed.

Lemma io_active_fresh k t g a fin deps kind : io_active (fresh_task k t g a fin deps kind) = false.
Proof. unfold io_active, fresh_task. cbn. destruct g; reflexivity. Qed.

Lemma io_active_stage x : io_active x = true -> k_stage x = SIO.
Proof. unfold io_active. intros H. split_ands. now apply stage_eqb_eq. Qed.

Lemma io_active_st x : io_active x = true -> k_st x <> TSubmitting /\ k_st x <> TQueued /\ k_st x <> TEnded.
Proof.
  unfold io_active. intros H. split_ands.
  repeat split; intros E; rewrite E in *; discriminate.
Qed.

Lemma io_inv_step s e s' : io_inv s -> step s e = Some s' -> io_inv s'.
Proof.
  intros I H Hw'.
  assert (Hother : (forall k, e <> ETaskStart k) -> (forall k, e <> ETaskEnd k) ->
    (g_running (st_io s') = 0 /\ forall k x, find_task k (tasks s') = Some x -> io_active x = false) \/
    (g_running (st_io s') = 1 /\
     exists k0, forall k x, find_task k (tasks s') = Some x -> io_active x = true -> k = k0)).
  { intros N1 N2.
    assert (Hfr : g_running (st_io s') = g_running (st_io s) /\ g_workers (st_io s') = g_workers (st_io s)).
    { pose proof (io_frame _ _ _ H) as Hf. destruct e; try exact Hf; exfalso; [eapply N1|eapply N2]; reflexivity. }
    destruct Hfr as [Hr Hw]. rewrite Hr. rewrite Hw in Hw'.
    assert (Hact : forall k x', find_task k (tasks s') = Some x' -> io_active x' = true ->
                    exists x, find_task k (tasks s) = Some x /\ io_active x = true).
    { intros k x' Hx' Ha.
      destruct (task_origin _ _ _ _ _ H Hx') as [(x & Hx & Hts)|(_ & t & g & a & fin & deps & kind & _ & ->)].
      - exists x. split; [exact Hx|].
        destruct (io_active_change _ _ _ _ Hts) as [E|[(E & _)|(E & _)]]; [congruence| |]; exfalso;
          [eapply N1|eapply N2]; exact E.
      - rewrite io_active_fresh in Ha. discriminate. }
    destruct (I Hw') as [[R0 Hno]|[R1 (k0 & Hk0)]].
    - left. split; [exact R0|]. intros k x' Hx'. destruct (io_active x') eqn:Ea; [|reflexivity].
      destruct (Hact k x' Hx' Ea) as (x & Hx & Hax). rewrite (Hno k x Hx) in Hax. discriminate.
    - right. split; [exact R1|]. exists k0. intros k x' Hx' Ea.
      destruct (Hact k x' Hx' Ea) as (x & Hx & Hax). eauto. }
  destruct e; try (apply Hother; discriminate).
  - (* ETaskStart *)
    destruct (find_task k (tasks s)) as [x|] eqn:Ex; [|cbn [step] in H; rewrite Ex in H; discriminate].
    destruct (start_io _ _ _ _ H Ex) as (Hw & Hio & Hnio & Hpost). rewrite Hw in Hw'.
    assert (Hact : forall k1 x', find_task k1 (tasks s') = Some x' -> io_active x' = true -> k1 <> k ->
                    exists x1, find_task k1 (tasks s) = Some x1 /\ io_active x1 = true).
    { intros k1 x' Hx' Ha Hne.
      destruct (task_origin _ _ _ _ _ H Hx') as [(x1 & Hx1 & Hts)|(_ & t & g & a & fin & deps & kind & E & _)]; [|discriminate].
      exists x1. split; [exact Hx1|].
      destruct (io_active_change _ _ _ _ Hts) as [E|[(E & _)|(E & _)]]; [congruence| |discriminate].
      injection E as E. rewrite (find_task_some_id _ _ _ Hx1) in E. congruence. }
    destruct (stage_eqb (k_stage x) SIO) eqn:Es.
    + apply stage_eqb_eq in Es. destruct (Hio Es) as [Hlt Hr].
      destruct (I Hw') as [[R0 Hno]|[R1 _]]; [|lia].
      right. split; [lia|]. exists k. intros k1 x' Hx' Ha.
      destruct (Z.eq_dec k1 k) as [E|Hne]; [exact E|exfalso].
      destruct (Hact k1 x' Hx' Ha Hne) as (x1 & Hx1 & Ha1). rewrite (Hno k1 x1 Hx1) in Ha1. discriminate.
    + assert (Hns : k_stage x <> SIO) by (intros E; rewrite E in Es; discriminate).
      rewrite (Hnio Hns).
      assert (Hk : forall x', find_task k (tasks s') = Some x' -> io_active x' = false).
      { intros x' Hx'. rewrite Hpost in Hx'. injection Hx' as <-. unfold io_active. cbn. now rewrite Es. }
      destruct (I Hw') as [[R0 Hno]|[R1 (k0 & Hk0)]].
      * left. split; [exact R0|]. intros k1 x' Hx'. destruct (io_active x') eqn:Ea; [|reflexivity].
        destruct (Z.eq_dec k1 k) as [->|Hne]; [rewrite (Hk x' Hx') in Ea; discriminate|].
        destruct (Hact k1 x' Hx' Ea Hne) as (x1 & Hx1 & Ha1). rewrite (Hno k1 x1 Hx1) in Ha1. discriminate.
      * right. split; [exact R1|]. exists k0. intros k1 x' Hx' Ea.
        destruct (Z.eq_dec k1 k) as [->|Hne]; [rewrite (Hk x' Hx') in Ea; discriminate|].
        destruct (Hact k1 x' Hx' Ea Hne) as (x1 & Hx1 & Ha1). eauto.
  - (* ETaskEnd *)
    destruct (find_task k (tasks s)) as [x|] eqn:Ex;
      [|cbn [step] in H; destruct (busy s k); [discriminate|]; rewrite Ex in H; discriminate].
    destruct (end_io _ _ _ _ H Ex) as (Hw & Hio & Hnio & Hpost & Hpm & Hne0). rewrite Hw in Hw'.
    assert (Hk : forall x', find_task k (tasks s') = Some x' -> io_active x' = false).
    { intros x' Hx'. rewrite Hpost in Hx'. injection Hx' as <-. unfold io_active. cbn.
      now rewrite !andb_false_r. }
    assert (Hact : forall k1 x', find_task k1 (tasks s') = Some x' -> io_active x' = true ->
                    k1 <> k /\ exists x1, find_task k1 (tasks s) = Some x1 /\ io_active x1 = true).
    { intros k1 x' Hx' Ha.
      assert (Hne : k1 <> k) by (intros ->; rewrite (Hk x' Hx') in Ha; discriminate).
      split; [exact Hne|].
      destruct (task_origin _ _ _ _ _ H Hx') as [(x1 & Hx1 & Hts)|(_ & t & g & a & fin & deps & kind & E & _)]; [|discriminate].
      exists x1. split; [exact Hx1|].
      destruct (io_active_change _ _ _ _ Hts) as [E|[(E & _)|(E & _)]]; [congruence|discriminate|].
      injection E as E. rewrite (find_task_some_id _ _ _ Hx1) in E. congruence. }
    destruct (stage_eqb (k_stage x) SIO) eqn:Es.
    + apply stage_eqb_eq in Es. rewrite (Hio Es).
      assert (Hax : io_active x = true).
      { unfold io_active. rewrite Es. cbn. destruct (k_st x); try discriminate; try reflexivity. congruence. }
      destruct (I Hw') as [[R0 Hno]|[R1 (k0 & Hk0)]]; [rewrite (Hno k x Ex) in Hax; discriminate|].
      left. split; [lia|]. intros k1 x' Hx'. destruct (io_active x') eqn:Ea; [|reflexivity].
      destruct (Hact k1 x' Hx' Ea) as (Hne & x1 & Hx1 & Ha1).
      pose proof (Hk0 k x Ex Hax). pose proof (Hk0 k1 x1 Hx1 Ha1). congruence.
    + assert (Hns : k_stage x <> SIO) by (intros E; rewrite E in Es; discriminate).
      rewrite (Hnio Hns).
      destruct (I Hw') as [[R0 Hno]|[R1 (k0 & Hk0)]].
      * left. split; [exact R0|]. intros k1 x' Hx'. destruct (io_active x') eqn:Ea; [|reflexivity].
        destruct (Hact k1 x' Hx' Ea) as (Hne & x1 & Hx1 & Ha1). rewrite (Hno k1 x1 Hx1) in Ha1. discriminate.
      * right. split; [exact R1|]. exists k0. intros k1 x' Hx' Ea.
        destruct (Hact k1 x' Hx' Ea) as (Hne & x1 & Hx1 & Ha1). eauto.
Qed.

(* ================================================================== *)
(** * T4: quiescence at announce *)

(** the only task an event can move *)
Definition ev_task (e : event) : option Z :=
  match e with
  | EAcquire _ k _ | EEnqueue _ k | EAssoc _ k | ETaskStart k | EDepsDone k | EDoneCheck k _
  | EMainBegin k | EMainEnd k _ | EStatus k _ _ | EWaitAll k | ETaskEnd k | ERelease k | EDissoc k => Some k
  | ESetException a _ _ _ | EAnnBegin a _ | EAnnEnd a _ => Some a
  | _ => None
  end.

Lemma tstepE_only s e x x' : tstepE s e x x' -> x' = x \/ ev_task e = Some (k_id x).
Proof. intros H. destruct H; cbn; try (left; reflexivity); right; subst; reflexivity. Qed.

(** ** the plan facts about the final task, as an invariant *)
Definition final_inv (s : state) : Prop :=
  forall kf f k x, find_task kf (tasks s) = Some f -> find_task k (tasks s) = Some x ->
    k_final f = true -> k_t x = k_t f -> k <> kf ->
    k_final x = false /\
    (k_kind x = KSubmission \/ In k (k_deps f) \/ past_main (k_st x) = true \/
     (k_stage x = SIO /\ k_stage f = SIO)).

Lemma final_inv_step s e s' : final_inv s -> step s e = Some s' -> final_inv s'.
Proof.
  intros I H kf f' k x' Hf' Hx' Hfin Ht Hne.
  destruct (task_origin _ _ _ _ _ H Hf') as [(f & Hf & Htf)|(Hnf & t1 & g1 & a1 & fin1 & d1 & kd1 & E1 & ->)];
  destruct (task_origin _ _ _ _ _ H Hx') as [(x & Hx & Htx)|(Hnx & t2 & g2 & a2 & fin2 & d2 & kd2 & E2 & ->)].
  - statics Htf. statics Htx. rewrite Sfin in Hfin. rewrite St, St0 in Ht.
    destruct (I kf f k x Hf Hx Hfin Ht Hne) as [Hnf Hor]. rewrite Sfin0, Skind0, Sdeps, Sstg, Sstg0.
    split; [exact Hnf|]. destruct Hor as [Ho|[Ho|[Ho|Ho]]]; auto.
    right; right; left. eapply past_main_monotone_step; eauto.
  - (* a task submitted although a final task exists: impossible *)
    statics Htf. rewrite Sfin in Hfin. subst e. cbn [k_t fresh_task] in Ht. rewrite St in Ht.
    destruct (submit_inv _ _ _ _ _ _ _ _ _ H) as [_ _ _ _ _ _ _ Hnofin _ _ _].
    rewrite (Hnofin kf f Hf (eq_sym Ht)) in Hfin. discriminate.
  - (* the final task is being submitted *)
    statics Htx. subst e. cbn [k_final k_t k_deps k_stage fresh_task] in *. subst fin1. rewrite St in Ht.
    destruct (submit_inv _ _ _ _ _ _ _ _ _ H) as [_ _ _ _ _ _ _ Hnofin Hfok _ _].
    rewrite Sfin, Skind, Sstg. split; [eapply Hnofin; eauto|].
    destruct (Hfok eq_refl k x Hx Ht) as [Ho|[Ho|[Ho|Ho]]]; auto.
    + right; left. now rewrite <- (find_task_some_id _ _ _ Hx).
    + right; right; left. eapply past_main_monotone_step; eauto.
  - congruence.
Qed.

(** ** dependencies have ended once a task is past [EDepsDone] *)
Definition after_deps (v : tst) : bool :=
  match v with TSubmitting | TQueued | TStarted => false | _ => true end.

Definition deps_inv (s : state) : Prop :=
  forall k x d, find_task k (tasks s) = Some x -> after_deps (k_st x) = true -> In d (k_deps x) ->
    exists y, find_task d (tasks s) = Some y /\ k_st y = TEnded.

Lemma deps_inv_step s e s' : deps_inv s -> step s e = Some s' -> deps_inv s'.
Proof.
  intros I H k x' d Hx' Ha Hd.
  destruct (task_origin _ _ _ _ _ H Hx') as [(x & Hx & Hts)|(_ & t & g & a & fin & deps & kind & _ & ->)].
  2:{ cbn in Ha. destruct (stage_eqb g SInline); discriminate. }
  statics Hts. rewrite Sdeps in Hd.
  assert (Hy : exists y, find_task d (tasks s) = Some y /\ k_st y = TEnded).
  { destruct (after_deps (k_st x)) eqn:Ea; [eapply I; eauto|].
    destruct Hts; cbn [k_st with_st with_flags with_phase with_permit with_assoc with_released] in *;
      try congruence;
      try (match goal with Hq : k_st _ = _ |- _ => rewrite Hq in Ea; discriminate end);
      try (destruct (k_final x); match goal with Hq : k_st _ = _ |- _ => rewrite Hq in Ea; discriminate end).
    (* deps *)
    match goal with Hf : forallb _ _ = true |- _ => rewrite forallb_forall in Hf; specialize (Hf d Hd) end.
    unfold dep_done, task_in in *. destruct (find_task d (tasks s)) as [y|]; [|discriminate].
    exists y. split; [reflexivity|]. now apply tst_eqb_true. }
  destruct Hy as (y & Hy & Hye).
  destruct (task_persists _ _ _ _ _ H Hy) as (y' & Hy' & Hyts).
  exists y'. split; [exact Hy'|]. eapply ended_is_absorbing_step; eauto.
Qed.

(** ** calm: no task other than the submission task is about to run or running its main *)
Definition hot (v : tst) : bool := match v with TReady | TMain => true | _ => false end.

Definition calm (s : state) (t : Z) : Prop :=
  forall k x, find_task k (tasks s) = Some x -> k_t x = t -> k_kind x <> KSubmission -> hot (k_st x) = false.

Lemma hot_step s e x x' :
  tstepE s e x x' -> hot (k_st x') = true ->
  hot (k_st x) = true \/ (e = EDoneCheck (k_id x) false /\ coord_done s (k_t x) = false).
Proof.
  intros H Hh.
  destruct H; cbn [k_st with_st with_flags with_phase with_permit with_assoc with_released] in *;
    auto; try discriminate;
    try (match goal with Hq : k_st _ = _ |- _ => left; rewrite Hq; reflexivity end).
  right. subst. auto.
Qed.

Lemma calm_step s e s' t :
  calm s t -> step s e = Some s' -> ((exists k, e = EDoneCheck k false) -> coord_done s t = true) ->
  calm s' t.
Proof.
  intros C H Hd k x' Hx' Ht Hk.
  destruct (task_origin _ _ _ _ _ H Hx') as [(x & Hx & Hts)|(_ & t1 & g & a & fin & deps & kind & _ & ->)].
  2:{ cbn. destruct (stage_eqb g SInline); reflexivity. }
  statics Hts. rewrite St in Ht. rewrite Skind in Hk.
  destruct (hot (k_st x')) eqn:Eh; [|reflexivity].
  destruct (hot_step _ _ _ _ Hts Eh) as [Hh|(-> & Hnd)].
  - rewrite (C k x Hx Ht Hk) in Hh. discriminate.
  - rewrite Ht in Hnd. rewrite Hd in Hnd; [discriminate|eauto].
Qed.

(** ** the error path: after the wait every other task has ended (or was never called) *)
Definition settled (x : task) : Prop := k_st x = TEnded \/ (k_stage x = SInline /\ k_st x = TQueued).

Lemma waitall_settled s t kS S :
  tb_inv s -> window_inv s ->
  find_task kS (tasks s) = Some S -> k_kind S = KSubmission -> k_t S = t ->
  busy s kS = false -> all_assoc_done s t = true ->
  forall k x, find_task k (tasks s) = Some x -> k_t x = t -> k_kind x <> KSubmission -> settled x.
Proof.
  intros [TB U] W HS HSk HSt Hnb Hall k.
  induction k as [k IH] using (well_founded_induction (Z.lt_wf 0)).
  intros x Hx Ht Hk.
  destruct (TB k x Hx) as [_ B2 _ B4 B5 B6 _ _]. destruct (B2 Hk) as (_ & Hlt & _).
  pose proof (find_task_some_id _ _ _ Hx) as Hid.
  destruct (holds_parent x) eqn:Hh.
  - exfalso. destruct (W k x Hx Hh) as (p & Hp & Hpt & Hpa).
    pose proof (holds_parent_busy _ _ _ Hx Hh) as Hb.
    destruct (Z.eq_dec (k_kind p) KSubmission) as [Hpk|Hpk].
    + assert (k_parent x = kS) by (eapply U; eauto; congruence). congruence.
    + destruct (TB _ p Hp) as [_ _ _ P4 _ _ _ _]. pose proof (find_task_some_id _ _ _ Hp) as Hpid.
      assert (Hs : settled p) by (apply (IH (k_parent x)); [lia|exact Hp|congruence|exact Hpk]).
      unfold settled, acting_st in *. destruct Hs as [Hs|[_ Hs]]; destruct Hpa; congruence.
  - unfold settled. destruct (stage_eqb (k_stage x) SInline) eqn:Es.
    + apply stage_eqb_eq in Es.
      destruct (k_st x) eqn:Est; auto; exfalso;
        (assert (Hc : holds_parent x = true); [|congruence]); apply holds_parent_spec; left;
        rewrite Est; repeat split; auto; discriminate.
    + left. assert (Hs : k_stage x <> SInline) by (intros E; rewrite E in Es; discriminate).
      assert (Ha : k_assoc x <> 0).
      { intros Ha. assert (Hc : holds_parent x = true); [|congruence]. apply holds_parent_spec. right. auto. }
      destruct B6 as [Ha0|[Ha1|Ha2]]; [contradiction| |auto].
      unfold all_assoc_done in Hall. rewrite forallb_forall in Hall.
      specialize (Hall x (find_task_in _ _ _ Hx)). apply orb_prop in Hall as [Hn|He].
      * apply negb_true_iff in Hn. apply andb_false_iff in Hn as [Hn|Hn]; lia.
      * now apply tst_eqb_true.
Qed.

Definition ann_cause (s : state) (t : Z) : Prop :=
  (exists kf f, find_task kf (tasks s) = Some f /\ k_t f = t /\ k_final f = true /\ past_main (k_st f) = true) \/
  (exists kS S, find_task kS (tasks s) = Some S /\ k_t S = t /\ k_kind S = KSubmission /\ 4 <= k_phase S) \/
  (exists c, find_coord t (coords s) = Some c /\ (c_owing c <> [] \/ c_ann_started c = true)).

Definition calm_inv (s : state) : Prop := forall t, ann_cause s t -> calm s t.

Lemma ann_cause_done s t : T1_inv s -> ann_cause s t -> coord_done s t = true.
Proof.
  intros (I1 & I2 & _ & I4) [(kf & f & Hf & Ht & Hfin & Hpm)|[(kS & S & HS & Ht & Hk & Hp)|(c & Hc & Hor)]].
  - rewrite <- Ht. eapply I1; eauto.
  - rewrite <- Ht. eapply I2; eauto. lia.
  - unfold coord_done. rewrite Hc. apply (I4 t c Hc). unfold ann_trig. tauto.
Qed.

Record base_inv (s : state) : Prop := {
  bi_t1 : T1_inv s;
  bi_tb : tb_inv s;
  bi_win : window_inv s;
  bi_fin : final_inv s;
  bi_deps : deps_inv s;
  bi_io : io_inv s;
  bi_w : g_workers (st_io s) = 1;
  bi_ns : ns_inv s
}.

Lemma workers_step s e s' : step s e = Some s' -> g_workers (st_io s') = g_workers (st_io s).
Proof.
  intros H. pose proof (io_frame _ _ _ H) as Hf.
  destruct e; try (exact (proj2 Hf)).
  - destruct (find_task k (tasks s)) as [x|] eqn:Ex; [|cbn [step] in H; rewrite Ex in H; discriminate].
    exact (proj1 (start_io _ _ _ _ H Ex)).
  - destruct (find_task k (tasks s)) as [x|] eqn:Ex;
      [|cbn [step] in H; destruct (busy s k); [discriminate|]; rewrite Ex in H; discriminate].
    exact (proj1 (end_io _ _ _ _ H Ex)).
Qed.

Lemma base_inv_step s e s' : base_inv s -> step s e = Some s' -> base_inv s'.
Proof.
  intros [B1 B2 B3 B4 B5 B6 B7 B8] H. constructor.
  - eapply T1_inv_step; eauto.
  - eapply tb_inv_step; eauto.
  - eapply window_inv_step; eauto.
  - eapply final_inv_step; eauto.
  - eapply deps_inv_step; eauto.
  - eapply io_inv_step; eauto.
  - rewrite (workers_step _ _ _ H). exact B7.
  - eapply ns_inv_step; eauto.
Qed.

Lemma not_hot_of_inactive x : k_stage x = SIO -> io_active x = false -> hot (k_st x) = false.
Proof.
  unfold io_active. intros -> H. cbn in H. destruct (k_st x); try reflexivity; discriminate.
Qed.

(** when the final task is past its dependencies and running, every other task of the transfer is cold *)
Lemma final_running_calm s kf f :
  base_inv s -> find_task kf (tasks s) = Some f -> k_final f = true ->
  (k_st f = TDeps \/ k_st f = TMain \/ k_st f = TFailed) ->
  forall k x, find_task k (tasks s) = Some x -> k_t x = k_t f -> k_kind x <> KSubmission -> k <> kf ->
  hot (k_st x) = false.
Proof.
  intros [_ _ _ BF BD BIO BW _] Hf Hfin Hst k x Hx Ht Hk Hne.
  destruct (BF kf f k x Hf Hx Hfin Ht Hne) as [_ [Ho|[Ho|[Ho|[Ho1 Ho2]]]]].
  - contradiction.
  - assert (Ha : after_deps (k_st f) = true) by (destruct Hst as [->|[->| ->]]; reflexivity).
    destruct (BD kf f k Hf Ha Ho) as (y & Hy & Hye). rewrite Hx in Hy. injection Hy as <-. now rewrite Hye.
  - destruct (k_st x); try reflexivity; discriminate.
  - assert (Haf : io_active f = true).
    { unfold io_active. rewrite Ho2. destruct Hst as [->|[->| ->]]; reflexivity. }
    apply not_hot_of_inactive; [exact Ho1|]. destruct (io_active x) eqn:Eax; [exfalso|reflexivity].
    destruct (BIO BW) as [[_ Hno]|[_ (k0 & Hk0)]].
    + rewrite (Hno kf f Hf) in Haf. discriminate.
    + pose proof (Hk0 kf f Hf Haf). pose proof (Hk0 k x Hx Eax). congruence.
Qed.

Lemma calm_inv_step s e s' : base_inv s -> calm_inv s -> step s e = Some s' -> calm_inv s'.
Proof.
  intros B I H t Hc'.
  assert (Hold : ann_cause s t -> calm s' t).
  { intros Hc. eapply calm_step; [apply I; exact Hc|exact H|]. intros _.
    apply ann_cause_done; [apply B|exact Hc]. }
  destruct Hc' as [(kf & f' & Hf' & Ht & Hfin & Hpm)|[(kS & S' & HS' & Ht & Hk & Hp)|(c' & Hc' & Hor)]].
  - (* a final task past its main *)
    destruct (task_origin _ _ _ _ _ H Hf') as [(f & Hf & Hts)|(_ & t1 & g & a & fin & deps & kind & _ & ->)].
    2:{ cbn in Hpm. destruct (stage_eqb g SInline); discriminate. }
    statics Hts. rewrite St in Ht. rewrite Sfin in Hfin.
    destruct (past_main (k_st f)) eqn:Epm.
    { apply Hold. left. eauto 10. }
    assert (Hst : k_st f = TDeps \/ k_st f = TMain \/ k_st f = TFailed).
    { destruct Hts; cbn [k_st with_st with_flags with_phase with_permit with_assoc with_released] in *;
        try congruence; auto; try discriminate;
        try (match goal with Hq : k_st _ = _ |- _ => rewrite Hq in Epm; discriminate end).
      destruct (k_final x); match goal with Hq : k_st _ = _ |- _ => rewrite Hq in Epm; discriminate end. }
    assert (Hev : ev_task e = Some kf).
    { destruct (tstepE_only _ _ _ _ Hts) as [E|E]; [rewrite E in Hpm; congruence|].
      now rewrite (find_task_some_id _ _ _ Hf) in E. }
    intros k x' Hx' Hxt Hxk.
    destruct (Z.eq_dec k kf) as [->|Hne].
    { rewrite Hf' in Hx'. injection Hx' as <-. destruct (k_st f'); try reflexivity; discriminate. }
    destruct (task_origin _ _ _ _ _ H Hx') as [(x & Hx & Hxts)|(_ & t1 & g & a & fin & deps & kind & _ & ->)].
    2:{ cbn. destruct (stage_eqb g SInline); reflexivity. }
    destruct (tstepE_only _ _ _ _ Hxts) as [->|E].
    + apply (final_running_calm s kf f B Hf Hfin Hst k x Hx); [congruence|exact Hxk|exact Hne].
    + rewrite (find_task_some_id _ _ _ Hx) in E. congruence.
  - (* the submission task after its wait *)
    destruct (task_origin _ _ _ _ _ H HS') as [(S & HS & Hts)|(_ & t1 & g & a & fin & deps & kind & _ & ->)].
    2:{ cbn in Hp. lia. }
    statics Hts. rewrite St in Ht. rewrite Skind in Hk.
    destruct (Z_le_dec 4 (k_phase S)) as [Hge|Hlt].
    { apply Hold. right; left. eauto 10. }
    assert (Hw : e = EWaitAll kS /\ busy s kS = false /\ all_assoc_done s t = true).
    { pose proof (find_task_some_id _ _ _ HS) as Hid.
      destruct Hts; cbn [k_phase with_st with_flags with_phase with_permit with_assoc with_released] in *;
        try lia.
      - destruct tr; lia.
      - subst. auto. }
    destruct Hw as (-> & Hnb & Hall).
    destruct B as [_ BT BW _ _ _ _ _].
    intros k x' Hx' Hxt Hxk.
    destruct (task_origin _ _ _ _ _ H Hx') as [(x & Hx & Hxts)|(_ & t1 & g & a & fin & deps & kind & E & _)]; [|discriminate].
    statics Hxts.
    assert (Hs : settled x) by (eapply (waitall_settled s t kS S); eauto; congruence).
    destruct (tstepE_only _ _ _ _ Hxts) as [->|E].
    + destruct Hs as [->|[_ ->]]; reflexivity.
    + cbn in E. injection E as E. rewrite (find_task_some_id _ _ _ Hx) in E. subst k.
      rewrite HS in Hx. injection Hx as <-. congruence.
  - (* the coordinator *)
    destruct (coord_origin _ _ _ _ _ H Hc') as [(c & Hc & Hcs)|(_ & ->)].
    2:{ cbn in Hor. destruct Hor; congruence. }
    destruct (c_ann_started c) eqn:Est.
    { apply Hold. right; right. eauto. }
    destruct (c_owing c) eqn:Eow.
    2:{ apply Hold. right; right. exists c. split; [exact Hc|]. left. rewrite Eow. discriminate. }
    destruct Hcs; cbn in Hor; try (rewrite ?Est, ?Eow in Hor; destruct Hor; congruence).
    + (* cancel at not-started: only the submission task exists *)
      assert (Hu : unstarted s t) by (unfold unstarted; rewrite Hc; assumption).
      destruct (bi_ns s B t Hu) as [Hts _ _].
      eapply calm_step; [|exact H|intros (k & Hk); discriminate].
      intros k x Hx Hxt Hxk. destruct (Hts k x Hx Hxt). contradiction.
    + (* owing announcer *) rewrite Eow in *. discriminate.
    + (* announce by the submission task or the final task *)
      apply Hold.
      match goal with Hx : find_task a (tasks s) = Some ?x, Hd : _ \/ _ |- _ =>
        destruct Hd as [(Hk & Hst & Hph)|(Hk & Hst & Hfin)];
        [right; left; exists a, x; repeat split; auto; lia
        |left; exists a, x; repeat split; auto; rewrite Hst; reflexivity] end.
Qed.

Section Reach3.
Variables w_sub w_req q_sub q_req q_io up down : Z.
(** the IO executor has a single worker (s3transfer's [IOTaskExecutor]: max_workers = 1) *)
Let s0 := init w_sub w_req 1 q_sub q_req q_io up down.

Lemma base_inv_reachable s : reachable s0 s -> base_inv s.
Proof.
  intros R. revert s R. apply invariant_reachable.
  - constructor.
    + split; [|split; [|split]]; intros ? ? Hf; discriminate Hf.
    + split; intros; discriminate.
    + intros k x Hx. discriminate.
    + intros kf f k x Hf. discriminate.
    + intros k x d Hx. discriminate.
    + intros _. left. split; [reflexivity|]. intros k x Hx. discriminate.
    + reflexivity.
    + intros t _. constructor; [intros; discriminate|intros q []|intros u []].
  - intros; eapply base_inv_step; eauto.
Qed.

Lemma calm_inv_reachable s : reachable s0 s -> calm_inv s.
Proof.
  apply (invariant_reachable2 base_inv).
  - apply base_inv_reachable.
  - intros t [(kf & f & Hf & _)|[(kS & S & HS & _)|(c & Hc & _)]]; discriminate.
  - intros; eapply calm_inv_step; eauto.
Qed.

(** T3 *)
Theorem unassoc_has_busy_parent s k x :
  reachable s0 s -> find_task k (tasks s) = Some x ->
  k_kind x <> KSubmission -> k_stage x <> SInline -> k_assoc x = 0 ->
  exists p, find_task (k_parent x) (tasks s) = Some p /\ k_t p = k_t x /\
            (k_st p = TMain \/ k_st p = TPost) /\ busy s (k_parent x) = true /\ k_parent x < k.
Proof.
  intros R Hx Hk Hs Ha. destruct (base_inv_reachable s R) as [_ [TB _] W _ _ _ _ _].
  assert (Hh : holds_parent x = true) by (apply holds_parent_spec; right; auto).
  destruct (W k x Hx Hh) as (p & Hp & Hpt & Hpa). exists p. repeat split; auto.
  - eapply holds_parent_busy; eauto.
  - destruct (TB k x Hx) as [_ B2 _ _ _ _ _ _]. destruct (B2 Hk) as (_ & Hlt & _).
    now rewrite (find_task_some_id _ _ _ Hx) in Hlt.
Qed.

Theorem ended_is_absorbing s e s' k x x' :
  step s e = Some s' -> find_task k (tasks s) = Some x -> find_task k (tasks s') = Some x' ->
  k_st x = TEnded -> k_st x' = TEnded.
Proof.
  intros H Hx Hx' He. destruct (task_persists _ _ _ _ _ H Hx) as (x'' & Hx'' & Hts).
  rewrite Hx' in Hx''. injection Hx'' as <-. eapply ended_is_absorbing_step; eauto.
Qed.

Theorem past_main_monotone s e s' k x x' :
  step s e = Some s' -> find_task k (tasks s) = Some x -> find_task k (tasks s') = Some x' ->
  past_main (k_st x) = true -> past_main (k_st x') = true.
Proof.
  intros H Hx Hx' He. destruct (task_persists _ _ _ _ _ H Hx) as (x'' & Hx'' & Hts).
  rewrite Hx' in Hx''. injection Hx'' as <-. eapply past_main_monotone_step; eauto.
Qed.

(** at most one IO task is started and not ended *)
Theorem io_exclusive s k1 x1 k2 x2 :
  reachable s0 s -> find_task k1 (tasks s) = Some x1 -> find_task k2 (tasks s) = Some x2 ->
  io_active x1 = true -> io_active x2 = true -> k1 = k2.
Proof.
  intros R H1 H2 A1 A2. destruct (base_inv_reachable s R) as [_ _ _ _ _ BIO BW _].
  destruct (BIO BW) as [[_ Hno]|[_ (k0 & Hk0)]].
  - rewrite (Hno k1 x1 H1) in A1. discriminate.
  - rewrite (Hk0 k1 x1 H1 A1), (Hk0 k2 x2 H2 A2). reflexivity.
Qed.

(** T4: once an announce has begun (or a canceller owes one) for transfer [t],
    the coordinator is done and no task of [t] other than the submission task
    is in (or about to enter) its main -- now and in every later state *)
Theorem announce_quiescent s t c :
  reachable s0 s -> find_coord t (coords s) = Some c ->
  c_ann_started c = true \/ c_owing c <> [] ->
  is_done (c_status c) = true /\
  (forall k x, find_task k (tasks s) = Some x -> k_t x = t -> k_kind x <> KSubmission ->
               k_st x <> TReady /\ k_st x <> TMain) /\
  (forall tr s2, run s tr = Some s2 ->
     coord_done s2 t = true /\
     forall k x, find_task k (tasks s2) = Some x -> k_t x = t -> k_kind x <> KSubmission ->
                 k_st x <> TReady /\ k_st x <> TMain).
Proof.
  intros R Hc Hor.
  assert (Hcause : ann_cause s t) by (right; right; exists c; tauto).
  assert (Hcalm : forall s1, calm s1 t -> forall k x, find_task k (tasks s1) = Some x -> k_t x = t ->
            k_kind x <> KSubmission -> k_st x <> TReady /\ k_st x <> TMain).
  { intros s1 C k x Hx Ht Hk. pose proof (C k x Hx Ht Hk) as Hh.
    split; intros E; rewrite E in Hh; discriminate. }
  pose proof (ann_cause_done s t (bi_t1 _ (base_inv_reachable s R)) Hcause) as Hd.
  split; [unfold coord_done in Hd; now rewrite Hc in Hd|].
  split; [apply Hcalm; apply (calm_inv_reachable s R); exact Hcause|].
  assert (G : forall tr s1, calm s1 t -> coord_done s1 t = true -> forall s2, run s1 tr = Some s2 ->
              calm s2 t /\ coord_done s2 t = true).
  { induction tr as [|ev tr IH]; intros s1 C D s2 Hrun; cbn [run] in Hrun.
    - injection Hrun as <-. auto.
    - destruct (step s1 ev) as [s1'|] eqn:Es; [|discriminate].
      eapply IH; [| |exact Hrun].
      + eapply calm_step; eauto.
      + eapply coord_done_step; eauto. }
  intros tr s2 Hrun.
  destruct (G tr s (calm_inv_reachable s R t Hcause) Hd s2 Hrun) as [C2 D2].
  split; [exact D2|apply Hcalm; exact C2].
Qed.
End Reach3.

(* ================================================================== *)
(** * Part D.  Requests and uploads *)

(** ** list-level facts: unique ids, counting *)
Definition b2z (b : bool) : Z := if b then 1 else 0.
Definition cnt (P : req -> bool) (l : list req) : Z := Z.of_nat (length (filter P l)).

Lemma cnt_nil P : cnt P [] = 0. Proof. reflexivity. Qed.

Lemma cnt_cons P x l : cnt P (x :: l) = b2z (P x) + cnt P l.
Proof. unfold cnt. cbn [filter]. destruct (P x); cbn [length b2z]; lia. Qed.

Lemma cnt_app P l x : cnt P (l ++ [x]) = cnt P l + b2z (P x).
Proof.
  induction l as [|y r IH]; cbn [app]; rewrite ?cnt_cons, ?cnt_nil; [lia|]. rewrite IH. lia.
Qed.

Lemma cnt_nonneg P l : 0 <= cnt P l.
Proof. unfold cnt. lia. Qed.

Lemma cnt_pos_exists P l : 0 < cnt P l -> exists q, In q l /\ P q = true.
Proof.
  induction l as [|y r IH]; rewrite ?cnt_nil, ?cnt_cons; [lia|].
  destruct (P y) eqn:E; [intros _; exists y; split; [now left|exact E]|].
  cbn [b2z]. intros H. destruct IH as (q & Hq & HP); [lia|]. exists q. split; [now right|exact HP].
Qed.

Lemma cnt_upd_same P r f l : (forall q, P (f q) = P q) -> cnt P (upd_req r f l) = cnt P l.
Proof.
  intros Hf. induction l as [|y l' IH]; [reflexivity|].
  cbn [upd_req map]. change (map _ l') with (upd_req r f l'). rewrite !cnt_cons, IH.
  destruct (r_id y =? r); [now rewrite Hf|reflexivity].
Qed.

Lemma upd_req_absent r f l : ~ In r (map r_id l) -> upd_req r f l = l.
Proof.
  induction l as [|y l' IH]; [reflexivity|]. cbn [map In upd_req]. intros Hn.
  change (map (fun x => if r_id x =? r then f x else x) l') with (upd_req r f l'). rewrite IH by tauto.
  destruct (r_id y =? r) eqn:E; [exfalso; apply Hn; left; lia|reflexivity].
Qed.

Lemma cnt_upd P r f l q :
  NoDup (map r_id l) -> find_req r l = Some q ->
  cnt P (upd_req r f l) = cnt P l - b2z (P q) + b2z (P (f q)).
Proof.
  induction l as [|y l' IH]; [discriminate|].
  cbn [map find_req upd_req]. change (map (fun x => if r_id x =? r then f x else x) l') with (upd_req r f l'). intros Hnd Hf.
  inversion Hnd as [|? ? Hni Hnd']; subst. rewrite !cnt_cons.
  destruct (r_id y =? r) eqn:E.
  - injection Hf as <-. assert (r_id y = r) by lia. subst r.
    rewrite (upd_req_absent _ _ _ Hni). lia.
  - rewrite (IH Hnd' Hf). lia.
Qed.

Lemma find_req_of_nodup l q : NoDup (map r_id l) -> In q l -> find_req (r_id q) l = Some q.
Proof.
  induction l as [|y l' IH]; [intros _ []|]. cbn [map In find_req]. intros Hnd [->|Hin].
  - now rewrite Z.eqb_refl.
  - inversion Hnd as [|? ? Hni Hnd']; subst.
    destruct (r_id y =? r_id q) eqn:E; [|auto].
    exfalso. apply Hni. apply in_map_iff. exists q. split; [lia|exact Hin].
Qed.

Lemma find_req_none_notin r l : find_req r l = None -> ~ In r (map r_id l).
Proof.
  induction l as [|y l' IH]; [intros _ []|]. cbn [map In find_req].
  destruct (r_id y =? r) eqn:E; [discriminate|]. intros H [Hc|Hc]; [lia|]. now apply IH.
Qed.

Lemma map_rid_upd r f l : (forall q, r_id (f q) = r_id q) -> map r_id (upd_req r f l) = map r_id l.
Proof.
  intros Hf. unfold upd_req. rewrite map_map. apply map_ext.
  intros q. destruct (r_id q =? r); [apply Hf|reflexivity].
Qed.

Definition reqs_nodup (s : state) : Prop := NoDup (map r_id (reqs s)).

Lemma reqs_nodup_step s e s' : reqs_nodup s -> step s e = Some s' -> reqs_nodup s'.
Proof.
  unfold reqs_nodup. intros I H. pose proof (step_reqs_frame _ _ _ H) as Hfr.
  destruct e; try (rewrite Hfr; exact I).
  - destruct (s3begin_inv _ _ _ _ _ _ _ H) as [_ Hfresh _ _ Hr _ _]. rewrite Hr, map_app. cbn [map r_id].
    apply NoDup_snoc; [exact I|]. now apply find_req_none_notin.
  - destruct (s3effect_inv _ _ _ _ H) as [_ Hr]. rewrite Hr, map_rid_upd; [exact I|reflexivity].
  - destruct (s3end_inv _ _ _ _ H) as [_ Hr]. rewrite Hr, map_rid_upd; [exact I|reflexivity].
Qed.

(** uploads: unique ids *)
Lemma find_upload_app i l x :
  find_upload i (l ++ [x]) =
  match find_upload i l with Some u => Some u | None => if u_id x =? i then Some x else None end.
Proof.
  induction l as [|y r IH]; cbn [app find_upload]; [reflexivity|].
  destruct (u_id y =? i); [reflexivity|exact IH].
Qed.

Lemma find_upload_upd i j f l :
  (forall x, u_id (f x) = u_id x) ->
  find_upload i (upd_upload j f l) = if i =? j then option_map f (find_upload i l) else find_upload i l.
Proof.
  intros Hid. induction l as [|x r IH]; cbn [upd_upload map find_upload].
  - now destruct (i =? j).
  - change (map _ r) with (upd_upload j f r).
    destruct (u_id x =? j) eqn:E1.
    + rewrite Hid. destruct (u_id x =? i) eqn:E2.
      * assert (i =? j = true) by lia. now rewrite H.
      * exact IH.
    + destruct (u_id x =? i) eqn:E2.
      * assert (i =? j = false) by lia. now rewrite H.
      * exact IH.
Qed.

Definition uploads_uniq (s : state) : Prop :=
  forall u, In u (uploads s) -> find_upload (u_id u) (uploads s) = Some u.

Lemma begin_upd_id op v : u_id (begin_upd op v) = u_id v.
Proof. destruct op; reflexivity. Qed.
Lemma begin_upd_t op v : u_t (begin_upd op v) = u_t v.
Proof. destruct op; reflexivity. Qed.

Lemma upd_upload_in' i f l u' :
  In u' (upd_upload i f l) -> exists u, In u l /\ ((u_id u <> i /\ u' = u) \/ (u_id u = i /\ u' = f u)).
Proof.
  unfold upd_upload. rewrite in_map_iff. intros (u & Hu & Hin). exists u. split; [exact Hin|].
  destruct (u_id u =? i) eqn:E; [right; split; [lia|auto]|left; split; [lia|auto]].
Qed.

Lemma upd_req_in' r f l q' :
  In q' (upd_req r f l) -> exists q, In q l /\ ((r_id q <> r /\ q' = q) \/ (r_id q = r /\ q' = f q)).
Proof.
  unfold upd_req. rewrite in_map_iff. intros (q & Hq & Hin). exists q. split; [exact Hin|].
  destruct (r_id q =? r) eqn:E; [right; split; [lia|auto]|left; split; [lia|auto]].
Qed.

Lemma uploads_uniq_upd i f l :
  (forall x, u_id (f x) = u_id x) ->
  (forall u, In u l -> find_upload (u_id u) l = Some u) ->
  forall u, In u (upd_upload i f l) -> find_upload (u_id u) (upd_upload i f l) = Some u.
Proof.
  intros Hid I u' Hin. apply upd_upload_in' in Hin as (u & Hu & [[Hne ->]|[Hi ->]]).
  - rewrite find_upload_upd by exact Hid. destruct (u_id u =? i) eqn:E; [lia|]. now apply I.
  - rewrite Hid, find_upload_upd by exact Hid. rewrite Hi, Z.eqb_refl, <- Hi, (I u Hu). reflexivity.
Qed.

Lemma uploads_uniq_step s e s' : uploads_uniq s -> step s e = Some s' -> uploads_uniq s'.
Proof.
  unfold uploads_uniq. intros I H. pose proof (step_uploads_frame _ _ _ H) as Hfr.
  destruct e; try (rewrite Hfr; exact I).
  - destruct (s3begin_inv _ _ _ _ _ _ _ H) as [_ _ _ _ _ Hu _]. rewrite Hu.
    destruct (is_pc op || s3op_eqb op OpAbort); [|exact I].
    apply uploads_uniq_upd; [apply begin_upd_id|exact I].
  - destruct (s3effect_inv _ _ _ _ H) as [(q & Hq & _ & _ & Hu & Hnone) _]. rewrite Hu.
    destruct (s3op_eqb (r_op q) OpCreate) eqn:E; [|exact I]. apply s3op_eqb_eq in E.
    intros u Hin. rewrite find_upload_app. apply in_app_or in Hin as [Hin|[<-|[]]].
    + now rewrite (I u Hin).
    + cbn [u_id]. rewrite (Hnone E), Z.eqb_refl. reflexivity.
  - destruct (s3end_inv _ _ _ _ H) as [(q & Hq & _ & _ & Hu) _]. rewrite Hu.
    destruct (is_pc (r_op q)); [|exact I]. apply uploads_uniq_upd; [reflexivity|exact I].
Qed.

(** ** who is inside an un-ended request *)
Lemma in_request_busy s q : In q (reqs s) -> r_ended q = false -> busy s (r_actor q) = true.
Proof.
  intros Hin He. unfold busy. apply orb_true_iff. left. unfold in_request. apply existsb_exists.
  exists q. split; [exact Hin|]. now rewrite Z.eqb_refl, He.
Qed.

Lemma cleanups_end_not_busy s a t s' : step s (ECleanupsEnd a t) = Some s' -> busy s a = false.
Proof. intros H. cbn [step] in H. now apply busy_false_of_if in H as [Hb _]. Qed.

Definition req_inv (s : state) : Prop :=
  forall q, In q (reqs s) -> r_ended q = false ->
  (r_op q = OpAbort ->
     exists c, find_coord (r_t q) (coords s) = Some c /\ c_cl_runner c = Some (r_actor q)) /\
  (r_op q <> OpAbort ->
     exists x, find_task (r_actor q) (tasks s) = Some x /\ k_t x = r_t q /\ k_st x = TMain /\
               kind_allows (k_kind x) (r_op q) = true /\
               (k_kind x = KSubmission -> k_phase x = 2 /\
                  forall k' y, find_task k' (tasks s) = Some y -> k_t y = r_t q -> k_kind y = KSubmission)).

Lemma req_inv_step s e s' : tb_inv s -> req_inv s -> step s e = Some s' -> req_inv s'.
Proof.
  intros [TB U] I H q' Hq' He'.
  destruct (req_origin _ _ _ _ H Hq') as [(q & Hq & _ & Ha & Ht & Hop & Hend & _)|(a & r & op & t & uid & -> & ->)].
  - specialize (Hend He'). destruct (I q Hq Hend) as [Iab Itk]. rewrite Ha, Ht, Hop.
    pose proof (in_request_busy _ _ Hq Hend) as Hbusy.
    split.
    + intros Hab. destruct (Iab Hab) as (c & Hc & Hrun).
      destruct (coord_persistsE _ _ _ _ _ H Hc) as (c' & Hc' & Hcs). exists c'. split; [exact Hc'|].
      destruct Hcs; cbn; auto; try congruence.
      apply cleanups_end_not_busy in H. congruence.
    + intros Hnab. destruct (Itk Hnab) as (x & Hx & Hxt & Hxs & Hka & Hsub).
      destruct (task_persists _ _ _ _ _ H Hx) as (x' & Hx' & Hts). statics Hts.
      pose proof (find_task_some_id _ _ _ Hx) as Hxid.
      exists x'. split; [exact Hx'|]. split; [congruence|]. rewrite Skind.
      split; [|split; [exact Hka|]].
      * destruct Hts; cbn; auto; try congruence.
      * intros Hk. destruct (Hsub Hk) as [Hph Hall]. split.
        -- destruct Hts; cbn; auto; try congruence; try lia.
        -- intros k' y' Hy' Hyt.
           destruct (task_origin _ _ _ _ _ H Hy') as [(y & Hy & Hyts)|(_ & t1 & g & a1 & fin & deps & kind & -> & ->)].
           ++ statics Hyts. rewrite Skind0. eapply Hall; eauto. congruence.
           ++ cbn [k_t k_kind fresh_task] in *. subst t1.
              destruct (Z.eq_dec kind KSubmission) as [Hkk|Hkk]; [exact Hkk|exfalso].
              destruct (submit_inv _ _ _ _ _ _ _ _ _ H) as [_ _ Hns _ _ _ _ _ _ _ _].
              destruct (Hns Hkk) as (Hnb & p & Hp & Hpt & _).
              assert (Hpk : k_kind p = KSubmission) by (eapply Hall; eauto).
              assert (a1 = r_actor q) by (eapply U; eauto; congruence). congruence.
  - (* a request that begins now *)
    cbn [r_actor r_t r_op r_ended] in *.
    destruct (s3begin_inv _ _ _ _ _ _ _ H) as [_ _ Hab Htk _ _ _]. split.
    + intros Hop. destruct (Hab Hop) as (c & Hc & Hrun).
      destruct (coord_persistsE _ _ _ _ _ H Hc) as (c' & Hc' & Hcs).
      exists c'. split; [exact Hc'|]. inversion Hcs; subst; exact Hrun.
    + intros Hop. destruct (Htk Hop) as (x & Hx & Hxt & Hxs & Hka & Hsub).
      destruct (task_persists _ _ _ _ _ H Hx) as (x' & Hx' & Hts).
      assert (x' = x) by (inversion Hts; subst; reflexivity). subst x'.
      exists x. repeat split; auto; destruct (Hsub H0) as [Hph Hall]; [exact Hph|].
      intros k' y' Hy' Hyt.
      destruct (task_origin _ _ _ _ _ H Hy') as [(y & Hy & Hyts)|(_ & t1 & g & a1 & fin & deps & kind & E & _)]; [|discriminate].
      assert (y' = y) by (inversion Hyts; subst; reflexivity). subst y'. eauto.
Qed.

(** ** why an announce began *)
Definition cause3 (s : state) (t : Z) : Prop :=
  (exists kf f, find_task kf (tasks s) = Some f /\ k_t f = t /\ k_final f = true /\ past_main (k_st f) = true) \/
  (exists kS S, find_task kS (tasks s) = Some S /\ k_t S = t /\ k_kind S = KSubmission /\ 4 <= k_phase S) \/
  quiet s t.

Definition started_cause_inv (s : state) : Prop :=
  forall t c, find_coord t (coords s) = Some c -> ann_trig c -> cause3 s t.

Lemma phase_monotone_step s e x x' : tstepE s e x x' -> k_phase x <= k_phase x'.
Proof. intros H. destruct H; cbn; lia. Qed.

Lemma cause3_step s e s' t :
  coord_done s t = true -> cause3 s t -> step s e = Some s' -> cause3 s' t.
Proof.
  intros Hd [(kf & f & Hf & Ht & Hfin & Hpm)|[(kS & S & HS & Ht & Hk & Hp)|Q]] H.
  - destruct (task_persists _ _ _ _ _ H Hf) as (f' & Hf' & Hts). statics Hts.
    left. exists kf, f'. repeat split; try congruence. eapply past_main_monotone_step; eauto.
  - destruct (task_persists _ _ _ _ _ H HS) as (S' & HS' & Hts). statics Hts.
    right; left. exists kS, S'. repeat split; try congruence.
    pose proof (phase_monotone_step _ _ _ _ Hts). lia.
  - right; right. eapply quiet_step; eauto.
Qed.

Lemma started_cause_step s e s' :
  T1_inv s -> ns_inv s -> started_cause_inv s -> step s e = Some s' -> started_cause_inv s'.
Proof.
  intros T1 NS I H t c' Hc' Htr.
  destruct (coord_origin _ _ _ _ _ H Hc') as [(c & Hc & Hcs)|(_ & ->)].
  2:{ destruct Htr as [Htr|Htr]; cbn in Htr; congruence. }
  assert (Hold : ann_trig c -> cause3 s' t).
  { intros Ht. eapply cause3_step; [|apply (I t c Hc Ht)|exact H].
    destruct T1 as (_ & _ & _ & IA). unfold coord_done. rewrite Hc. now apply (IA t c Hc). }
  unfold ann_trig in *.
  destruct Hcs; cbn in Htr; try (apply Hold; exact Htr).
  - (* cancel at not-started *)
    assert (Hu : unstarted s t) by (unfold unstarted; rewrite Hc; assumption).
    destruct (NS t Hu) as [A B C].
    destruct (cancel_inv _ _ _ _ _ H) as (_ & _ & _ & _ & Ht & Hr & Hup & _).
    right; right. constructor; rewrite ?Ht, ?Hr, ?Hup; auto.
    intros k x Hx Hxt. destruct (A k x Hx Hxt). auto.
  - (* owing *) apply Hold. right. eapply mem_z_nonempty; eauto.
  - (* announce begins *)
    match goal with Hx : find_task a (tasks s) = Some ?x, Hd : _ \/ _ |- _ =>
      destruct (task_persists _ _ _ _ _ H Hx) as (x' & Hx' & Hts); statics Hts;
      pose proof (phase_monotone_step _ _ _ _ Hts) as Hmono;
      destruct Hd as [(Hk & Hst & Hph)|(Hk & Hst & Hfin)] end.
    + right; left. exists a, x'. repeat split; try congruence; try lia.
    + left. exists a, x'. repeat split; try congruence.
      all: try (eapply past_main_monotone_step; [exact Hts|]; rewrite Hst; reflexivity).
Qed.

(** ** once an announce began, set_result is no longer possible *)
Lemma started_mono c c' : cstep c c' -> c_ann_started c = true -> c_ann_started c' = true.
Proof. intros H Hs. destruct H; cbn; auto. Qed.

Lemma started_keeps_nonsuccess s e t c c' :
  base_inv s -> calm_inv s -> find_coord t (coords s) = Some c -> c_ann_started c = true ->
  cstepE s t e c c' -> c_status c <> Success -> c_status c' <> Success.
Proof.
  intros B C Hc Hst Hcs Hns.
  destruct Hcs; cbn; auto; try discriminate.
  - (* set_result: needs a final task in its main *)
    exfalso. destruct (bi_tb _ B) as [TB _].
    match goal with Hx : find_task k (tasks s) = Some ?y |- _ =>
      destruct (TB k y Hx) as [B1 _ _ _ _ _ _ _];
      assert (Hk : k_kind y <> KSubmission) by (intros Hk; destruct (B1 Hk); congruence);
      assert (Hcalm : calm s t) by (apply C; right; right; exists c; auto);
      pose proof (Hcalm k y Hx ltac:(assumption) Hk) as Hh end.
    match goal with Hq : k_st _ = TMain |- _ => rewrite Hq in Hh end. discriminate.
  - destruct tr; discriminate.
Qed.

Definition cl_nosucc_inv (s : state) : Prop :=
  forall t c, find_coord t (coords s) = Some c -> c_cl_runner c <> None -> c_status c <> Success.

Lemma cl_nosucc_step s e s' :
  base_inv s -> calm_inv s -> cl_nosucc_inv s -> step s e = Some s' -> cl_nosucc_inv s'.
Proof.
  intros B C I H t c' Hc' Hrun.
  destruct (coord_origin _ _ _ _ _ H Hc') as [(c & Hc & Hcs)|(_ & ->)]; [|cbn in Hrun; congruence].
  destruct (c_cl_runner c) eqn:Er.
  - assert (Hst : c_ann_started c = true).
    { destruct (bi_t1 _ B) as (_ & _ & IL & _). destruct (IL t c Hc) as [_ _ _ _ L5 _]. apply L5. congruence. }
    eapply started_keeps_nonsuccess; eauto. apply (I t c Hc). congruence.
  - destruct Hcs; cbn in *; try congruence.
    match goal with Hq : status_eqb _ Success = false |- _ =>
      intros E; rewrite E in Hq; discriminate end.
Qed.

(** ** C05: the per-upload discipline *)
Definition pc_open (uid : Z) (q : req) : bool := is_pc (r_op q) && (r_uid q =? uid) && negb (r_ended q).
Definition c_open (uid : Z) (q : req) : bool :=
  s3op_eqb (r_op q) OpComplete && (r_uid q =? uid) && negb (r_ended q).

Record upload_ok (s : state) (u : upload) : Prop := {
  uo_after : u_begun_after_abort u = false;
  uo_infl : u_abort_while_inflight u = false;
  uo_abort : u_abort_begun u = true ->
     exists c, find_coord (u_t u) (coords s) = Some c /\ c_ann_started c = true /\ c_status c <> Success;
  uo_cnt : u_inflight u = cnt (pc_open (u_id u)) (reqs s);
  uo_compl : 0 <= u_completes_ok u /\
             u_completes_ok u + cnt (c_open (u_id u)) (reqs s) <= b2z (u_complete_begun u)
}.

Definition upload_inv (s : state) : Prop := forall u, In u (uploads s) -> upload_ok s u.

Definition pc_ref_inv (s : state) : Prop :=
  forall q, In q (reqs s) -> is_pc (r_op q) = true ->
  exists u, find_upload (r_uid q) (uploads s) = Some u /\ u_t u = r_t q.

Lemma cnt_zero P l : (forall q, In q l -> P q = false) -> cnt P l = 0.
Proof.
  induction l as [|y r IH]; [reflexivity|]. intros H. rewrite cnt_cons, (H y) by now left.
  rewrite IH; [reflexivity|]. intros q Hq. apply H. now right.
Qed.

Lemma cnt_in_pos P l q : In q l -> P q = true -> 0 < cnt P l.
Proof.
  induction l as [|y r IH]; [intros []|]. rewrite cnt_cons. pose proof (cnt_nonneg P r) as Hnn.
  intros [E|Hin] HP.
  - subst y. rewrite HP. unfold b2z. lia.
  - specialize (IH Hin HP). destruct (P y); unfold b2z; lia.
Qed.

Lemma find_upload_persists s e s' i u :
  step s e = Some s' -> find_upload i (uploads s) = Some u ->
  exists u', find_upload i (uploads s') = Some u' /\ u_t u' = u_t u.
Proof.
  intros H Hu. pose proof (step_uploads_frame _ _ _ H) as Hfr.
  destruct e; try (rewrite Hfr; eauto).
  - destruct (s3begin_inv _ _ _ _ _ _ _ H) as [_ _ _ _ _ Hup _]. rewrite Hup.
    destruct (is_pc op || s3op_eqb op OpAbort); [|eauto].
    rewrite find_upload_upd by apply begin_upd_id. rewrite Hu. cbn [option_map].
    destruct (i =? uid); eexists; split; try reflexivity. apply begin_upd_t.
  - destruct (s3effect_inv _ _ _ _ H) as [(q & Hq & _ & _ & Hup & _) _]. rewrite Hup.
    destruct (s3op_eqb (r_op q) OpCreate); [|eauto]. rewrite find_upload_app, Hu. eauto.
  - destruct (s3end_inv _ _ _ _ H) as [(q & Hq & _ & _ & Hup) _]. rewrite Hup.
    destruct (is_pc (r_op q)); [|eauto].
    rewrite find_upload_upd by reflexivity. rewrite Hu. cbn [option_map].
    destruct (i =? r_uid q); eexists; split; reflexivity.
Qed.

Lemma pc_ref_step s e s' : pc_ref_inv s -> step s e = Some s' -> pc_ref_inv s'.
Proof.
  intros I H q' Hq' Hpc.
  destruct (req_origin _ _ _ _ H Hq') as [(q & Hq & _ & _ & Ht & Hop & _ & Huid)|(a & r & op & t & uid & -> & ->)].
  - rewrite Hop in Hpc. assert (Hnc : r_op q <> OpCreate) by (intros E; rewrite E in Hpc; discriminate).
    rewrite (Huid Hnc), Ht. destruct (I q Hq Hpc) as (u & Hu & Hut).
    destruct (find_upload_persists _ _ _ _ _ H Hu) as (u' & Hu' & Hut'). exists u'. split; [exact Hu'|congruence].
  - cbn [r_op r_uid r_t] in *.
    destruct (s3begin_inv _ _ _ _ _ _ _ H) as [_ _ _ _ _ _ Hup].
    destruct Hup as (u & Hu & Hut & _); [now rewrite Hpc|].
    destruct (find_upload_persists _ _ _ _ _ H Hu) as (u' & Hu' & Hut'). exists u'. split; [exact Hu'|congruence].
Qed.

Lemma pc_open_effect id uid q : pc_open id (effect_upd uid q) = pc_open id q.
Proof. unfold pc_open, effect_upd. cbn. destruct (r_op q); reflexivity. Qed.
Lemma c_open_effect id uid q : c_open id (effect_upd uid q) = c_open id q.
Proof. unfold c_open, effect_upd. cbn. destruct (r_op q); reflexivity. Qed.
Lemma pc_open_end id ok q : pc_open id (end_upd ok q) = false.
Proof. unfold pc_open, end_upd. cbn. now rewrite andb_false_r. Qed.
Lemma c_open_end id ok q : c_open id (end_upd ok q) = false.
Proof. unfold c_open, end_upd. cbn. now rewrite andb_false_r. Qed.
Lemma c_open_pc id q : c_open id q = true -> pc_open id q = true.
Proof. unfold c_open, pc_open. destruct (r_op q); cbn; try discriminate; auto. Qed.

Record d_inv (s : state) : Prop := {
  di_base : base_inv s;
  di_calm : calm_inv s;
  di_req : req_inv s;
  di_nodup : reqs_nodup s;
  di_uniq : uploads_uniq s;
  di_pcref : pc_ref_inv s;
  di_clns : cl_nosucc_inv s;
  di_cause : started_cause_inv s
}.

Lemma d_inv_step s e s' : d_inv s -> step s e = Some s' -> d_inv s'.
Proof.
  intros [D1 D2 D3 D4 D5 D6 D7 D8] H. constructor.
  - eapply base_inv_step; eauto.
  - eapply calm_inv_step; eauto.
  - eapply req_inv_step; eauto. apply D1.
  - eapply reqs_nodup_step; eauto.
  - eapply uploads_uniq_step; eauto.
  - eapply pc_ref_step; eauto.
  - eapply cl_nosucc_step; eauto.
  - eapply started_cause_step; eauto; apply D1.
Qed.

Lemma abort_coord_step s e s' t :
  base_inv s -> calm_inv s -> step s e = Some s' ->
  (exists c, find_coord t (coords s) = Some c /\ c_ann_started c = true /\ c_status c <> Success) ->
  (exists c, find_coord t (coords s') = Some c /\ c_ann_started c = true /\ c_status c <> Success).
Proof.
  intros B C H (c & Hc & Hst & Hns).
  destruct (coord_persistsE _ _ _ _ _ H Hc) as (c' & Hc' & Hcs). exists c'. split; [exact Hc'|]. split.
  - eapply started_mono; [eapply cstepE_cstep; exact Hcs|exact Hst].
  - eapply started_keeps_nonsuccess; eauto.
Qed.

(** a part/complete request in flight for upload [u] belongs to a task of [u]'s
    transfer that is inside its main: impossible once an announce began *)
Lemma open_pc_not_started s u q c :
  d_inv s -> In u (uploads s) -> In q (reqs s) -> pc_open (u_id u) q = true ->
  find_coord (u_t u) (coords s) = Some c -> c_ann_started c = true -> False.
Proof.
  intros [B C R _ UU PR _ _] Hu Hq Hpc Hc Hst.
  unfold pc_open in Hpc. split_ands.
  match goal with Hn : negb (r_ended q) = true |- _ => apply negb_true_iff in Hn; rename Hn into Hend end.
  match goal with Hp : is_pc (r_op q) = true |- _ => rename Hp into Hpc end.
  destruct (PR q Hq Hpc) as (u1 & Hu1 & Hut1).
  assert (Huid : r_uid q = u_id u) by lia. rewrite Huid, (UU u Hu) in Hu1. injection Hu1 as <-.
  destruct (R q Hq Hend) as [_ Rt]. assert (Hna : r_op q <> OpAbort) by (intros E; rewrite E in Hpc; discriminate).
  destruct (Rt Hna) as (x & Hx & Hxt & Hxs & Hka & _).
  assert (Hk : k_kind x <> KSubmission).
  { intros Hk. rewrite Hk in Hka. destruct (r_op q); discriminate. }
  assert (Hcalm : calm s (u_t u)) by (apply C; right; right; exists c; auto).
  pose proof (Hcalm _ x Hx ltac:(congruence) Hk) as Hh. rewrite Hxs in Hh. discriminate.
Qed.

Lemma upload_ok_frame s e s' u :
  base_inv s -> calm_inv s -> step s e = Some s' ->
  uploads s' = uploads s -> reqs s' = reqs s -> upload_ok s u -> upload_ok s' u.
Proof.
  intros B C H _ Hr [A1 A2 A3 A4 A5]. constructor; rewrite ?Hr; auto.
  intros Hab. eapply abort_coord_step; eauto.
Qed.

Lemma upload_inv_step s e s' : d_inv s -> upload_inv s -> step s e = Some s' -> upload_inv s'.
Proof.
  intros D I H u' Hu'. pose proof D as [B C R ND UU PR CN _].
  pose proof (step_uploads_frame _ _ _ H) as Hfu. pose proof (step_reqs_frame _ _ _ H) as Hfr.
  destruct e; try (rewrite Hfu in Hu'; eapply upload_ok_frame; eauto; fail).
  - (* ES3Begin *)
    destruct (s3begin_inv _ _ _ _ _ _ _ H) as [_ _ Hab Htk Hr Hup Hupl].
    assert (Hcnt : forall P, cnt P (reqs s') = cnt P (reqs s) + b2z (P (mkReq r a t op uid false false false))).
    { intros P. rewrite Hr. apply cnt_app. }
    assert (Hother : forall u, In u (uploads s) -> (is_pc op = false \/ u_id u <> uid) -> upload_ok s' u).
    { intros u Hu Hne. destruct (I u Hu) as [A1 A2 A3 A4 A5].
      assert (E1 : pc_open (u_id u) (mkReq r a t op uid false false false) = false).
      { unfold pc_open. cbn [r_op r_uid r_ended]. destruct Hne as [-> | Hne]; [reflexivity|].
        destruct (uid =? u_id u) eqn:E; [lia|]. now rewrite andb_false_r. }
      assert (E2 : c_open (u_id u) (mkReq r a t op uid false false false) = false).
      { destruct (c_open (u_id u) (mkReq r a t op uid false false false)) eqn:E; [|reflexivity].
        apply c_open_pc in E. congruence. }
      constructor; rewrite ?Hcnt, ?E1, ?E2; cbn [b2z]; rewrite ?Z.add_0_r; auto.
      intros Hb. eapply abort_coord_step; eauto. }
    rewrite Hup in Hu'.
    destruct (is_pc op || s3op_eqb op OpAbort) eqn:Eop.
    2:{ apply orb_false_elim in Eop as [E1 _]. apply Hother; auto. }
    destruct (Hupl eq_refl) as (u0 & Hu0 & Hu0t & Hcb).
    apply upd_upload_in' in Hu' as (u & Hu & [[Hne ->]|[Hi ->]]).
    { (* another upload *)
      destruct (is_pc op) eqn:Epc; [apply Hother; auto|].
      (* abort of another id: nothing counted *)
      apply Hother; auto. }
    (* the upload the request is for *)
    assert (u0 = u) by (pose proof (UU u Hu) as Hf; rewrite Hi, Hu0 in Hf; congruence). subst u0.
    destruct (I u Hu) as [A1 A2 A3 A4 A5].
    destruct (s3op_eqb op OpAbort) eqn:Eab.
    + (* abort *)
      apply s3op_eqb_eq in Eab. subst op. destruct (Hab eq_refl) as (c & Hc & Hrun).
      assert (Hst : c_ann_started c = true).
      { destruct (bi_t1 _ B) as (_ & _ & IL & _). destruct (IL t c Hc) as [_ _ _ _ L5 _]. apply L5. congruence. }
      assert (Hinfl : u_inflight u = 0).
      { destruct (Z.eq_dec (u_inflight u) 0) as [E|E]; [exact E|exfalso].
        pose proof (cnt_nonneg (pc_open (u_id u)) (reqs s)).
        destruct (cnt_pos_exists (pc_open (u_id u)) (reqs s)) as (q & Hq & Hpc); [lia|].
        eapply (open_pc_not_started s u q c); eauto. now rewrite Hu0t. }
      constructor; cbn [begin_upd u_begun_after_abort u_abort_while_inflight u_abort_begun u_t u_id u_inflight
                         u_completes_ok u_complete_begun].
      * exact A1.
      * rewrite A2, Hinfl. reflexivity.
      * intros _. rewrite Hu0t.
        destruct (coord_persistsE _ _ _ _ _ H Hc) as (c' & Hc' & Hcs).
        assert (c' = c) by (inversion Hcs; subst; reflexivity). subst c'.
        exists c. repeat split; auto. apply (CN t c Hc). congruence.
      * rewrite Hcnt, A4. unfold pc_open at 3. cbn. lia.
      * rewrite Hcnt. unfold c_open at 2. cbn. lia.
    + (* part / complete *)
      rewrite orb_false_r in Eop.
      assert (Hnab : u_abort_begun u = false).
      { destruct (u_abort_begun u) eqn:Eb; [exfalso|reflexivity].
        destruct (A3 eq_refl) as (c & Hc & Hst & _).
        assert (Hna : op <> OpAbort) by (intros ->; discriminate).
        destruct (Htk Hna) as (x & Hx & Hxt & Hxs & Hka & _).
        assert (Hk : k_kind x <> KSubmission).
        { intros Hk. rewrite Hk in Hka. destruct op; discriminate. }
        assert (Hcalm : calm s (u_t u)) by (apply C; right; right; exists c; auto).
        pose proof (Hcalm _ x Hx ltac:(congruence) Hk) as Hh. rewrite Hxs in Hh. discriminate. }
      assert (Hbu : begin_upd op u =
                    mkUpload (u_id u) (u_t u) (u_inflight u + 1) (u_completes_ok u)
                      (u_complete_begun u || s3op_eqb op OpComplete) (u_abort_begun u) (u_abort_count u)
                      (u_begun_after_abort u || u_abort_begun u) (u_abort_while_inflight u))
        by (destruct op; try discriminate; reflexivity).
      rewrite Hbu.
      constructor; cbn [u_begun_after_abort u_abort_while_inflight u_abort_begun u_t u_id u_inflight
                         u_completes_ok u_complete_begun].
      * rewrite A1, Hnab. reflexivity.
      * exact A2.
      * rewrite Hnab. discriminate.
      * rewrite Hcnt, A4. unfold pc_open at 3. cbn [r_op r_uid r_ended]. rewrite Eop, Hi, Z.eqb_refl. cbn. lia.
      * rewrite Hcnt. unfold c_open at 2. cbn [r_op r_uid r_ended]. rewrite Hi, Z.eqb_refl.
        destruct A5 as [A5a A5b]. split; [exact A5a|]. rewrite Hi in A5b.
        destruct op; try discriminate; cbn.
        -- rewrite orb_false_r. lia.
        -- rewrite (Hcb eq_refl) in *. cbn in *. lia.
  - (* ES3Effect *)
    destruct (s3effect_inv _ _ _ _ H) as [(q & Hq & _ & _ & Hup & Hnone) Hr].
    assert (Hcnt1 : forall id, cnt (pc_open id) (reqs s') = cnt (pc_open id) (reqs s)).
    { intros id. rewrite Hr. apply cnt_upd_same. intros; apply pc_open_effect. }
    assert (Hcnt2 : forall id, cnt (c_open id) (reqs s') = cnt (c_open id) (reqs s)).
    { intros id. rewrite Hr. apply cnt_upd_same. intros; apply c_open_effect. }
    assert (Hold : forall u, In u (uploads s) -> upload_ok s' u).
    { intros u Hu. destruct (I u Hu) as [A1 A2 A3 A4 A5]. constructor; rewrite ?Hcnt1, ?Hcnt2; auto.
      intros Hb. eapply abort_coord_step; eauto. }
    rewrite Hup in Hu'. destruct (s3op_eqb (r_op q) OpCreate) eqn:Ecr; [|auto].
    apply in_app_or in Hu' as [Hu'|[<-|[]]]; [auto|].
    apply s3op_eqb_eq in Ecr.
    assert (Hz : cnt (pc_open uid) (reqs s) = 0).
    { apply cnt_zero. intros q1 Hq1. destruct (pc_open uid q1) eqn:E; [exfalso|reflexivity].
      unfold pc_open in E. split_ands.
      destruct (PR q1 Hq1 ltac:(assumption)) as (u1 & Hu1 & _).
      assert (r_uid q1 = uid) by lia. rewrite H3, (Hnone Ecr) in Hu1. discriminate. }
    constructor; cbn; try reflexivity; try discriminate.
    + rewrite Hcnt1. lia.
    + rewrite Hcnt2. split; [lia|].
      assert (cnt (c_open uid) (reqs s) = 0); [|lia].
      apply cnt_zero. intros q1 Hq1. destruct (c_open uid q1) eqn:E; [exfalso|reflexivity].
      apply c_open_pc in E. pose proof (cnt_in_pos _ _ _ Hq1 E). lia.
  - (* ES3End *)
    destruct (s3end_inv _ _ _ _ H) as [(q & Hq & Hend & _ & Hup) Hr].
    assert (Hcnt1 : forall id, cnt (pc_open id) (reqs s') = cnt (pc_open id) (reqs s) - b2z (pc_open id q)).
    { intros id. rewrite Hr, (cnt_upd _ _ _ _ q ND Hq), pc_open_end. cbn. lia. }
    assert (Hcnt2 : forall id, cnt (c_open id) (reqs s') = cnt (c_open id) (reqs s) - b2z (c_open id q)).
    { intros id. rewrite Hr, (cnt_upd _ _ _ _ q ND Hq), c_open_end. cbn. lia. }
    assert (Hother : forall u, In u (uploads s) -> (is_pc (r_op q) = false \/ u_id u <> r_uid q) -> upload_ok s' u).
    { intros u Hu Hne. destruct (I u Hu) as [A1 A2 A3 A4 A5].
      assert (E1 : pc_open (u_id u) q = false).
      { unfold pc_open. destruct Hne as [-> | Hne]; [reflexivity|].
        destruct (r_uid q =? u_id u) eqn:E; [lia|]. now rewrite andb_false_r. }
      assert (E2 : c_open (u_id u) q = false).
      { destruct (c_open (u_id u) q) eqn:E; [|reflexivity]. apply c_open_pc in E. congruence. }
      constructor; rewrite ?Hcnt1, ?Hcnt2, ?E1, ?E2; cbn [b2z]; rewrite ?Z.sub_0_r; auto; try lia.
      intros Hb. eapply abort_coord_step; eauto. }
    rewrite Hup in Hu'. destruct (is_pc (r_op q)) eqn:Epc; [|apply Hother; auto].
    apply upd_upload_in' in Hu' as (u & Hu & [[Hne ->]|[Hi ->]]); [apply Hother; auto|].
    destruct (I u Hu) as [A1 A2 A3 A4 A5].
    assert (E1 : pc_open (u_id u) q = true).
    { unfold pc_open. rewrite Epc, Hend, Hi, Z.eqb_refl. reflexivity. }
    constructor; cbn [end_upload_upd u_begun_after_abort u_abort_while_inflight u_abort_begun u_t u_id u_inflight
                       u_completes_ok u_complete_begun]; auto.
    + intros Hb. eapply abort_coord_step; eauto.
    + rewrite Hcnt1, E1, A4. cbn. lia.
    + rewrite Hcnt2. destruct A5 as [A5a A5b].
      assert (E2 : c_open (u_id u) q = s3op_eqb (r_op q) OpComplete).
      { unfold c_open. rewrite Hend, Hi, Z.eqb_refl. cbn. destruct (s3op_eqb (r_op q) OpComplete); reflexivity. }
      rewrite E2. destruct (s3op_eqb (r_op q) OpComplete); cbn [andb b2z].
      * destruct (r_effect q); lia.
      * lia.
Qed.

(** ** C08 invariants *)
Definition progress_inv (s : state) : Prop :=
  forall t c, find_coord t (coords s) = Some c -> c_progress_after_done c = false.

Lemma progress_inv_step s e s' : d_inv s -> progress_inv s -> step s e = Some s' -> progress_inv s'.
Proof.
  intros D I H t c' Hc'. destruct D as [B C _ _ _ _ _ _].
  destruct (coord_origin _ _ _ _ _ H Hc') as [(c & Hc & Hcs)|(_ & ->)]; [|reflexivity].
  pose proof (I t c Hc) as Hp.
  destruct Hcs; cbn; auto.
  (* on_progress: the actor is in its main, so no announce has begun *)
  rewrite Hp. cbn [orb].
  assert (Hns : c_ann_started c = false).
  { destruct (c_ann_started c) eqn:Est; [exfalso|reflexivity].
    assert (Hcalm : calm s t) by (apply C; right; right; exists c; auto).
    match goal with Hx : find_task a (tasks s) = Some ?y, Hk : k_kind ?y <> KSubmission, Hq : k_st ?y = TMain |- _ =>
      pose proof (Hcalm a y Hx ltac:(assumption) Hk) as Hh; rewrite Hq in Hh end. discriminate. }
  destruct (bi_t1 _ B) as (_ & _ & IL & _). destruct (IL t c Hc) as [_ _ _ L4 _ L6].
  destruct (c_cb_runner c) eqn:Ecb; [rewrite L6 in Hns; [discriminate|congruence]|].
  destruct (c_ran_callbacks c) eqn:Erc; [reflexivity|]. rewrite L4 in Hns; [discriminate|congruence].
Qed.

(** before the submission task has set the status to running nothing else of the transfer exists *)
Definition early_inv (s : state) : Prop :=
  (forall t, (forall k x, find_task k (tasks s) = Some x -> k_t x = t -> k_kind x = KSubmission /\ k_phase x < 2) ->
     (forall q, In q (reqs s) -> r_t q <> t) /\ (forall u, In u (uploads s) -> u_t u <> t)) /\
  (forall kS S, find_task kS (tasks s) = Some S -> k_kind S = KSubmission -> k_phase S < 2 ->
     forall k x, find_task k (tasks s) = Some x -> k_t x = k_t S -> k_kind x = KSubmission).

Lemma early_inv_step s e s' : tb_inv s -> early_inv s -> step s e = Some s' -> early_inv s'.
Proof.
  intros [TB U] [I1 I2] H. split.
  - intros t Hall'.
    assert (Hall : forall k x, find_task k (tasks s) = Some x -> k_t x = t -> k_kind x = KSubmission /\ k_phase x < 2).
    { intros k x Hx Ht. destruct (task_persists _ _ _ _ _ H Hx) as (x' & Hx' & Hts). statics Hts.
      destruct (Hall' k x' Hx' ltac:(congruence)) as [Hk Hp]. pose proof (phase_monotone_step _ _ _ _ Hts).
      split; [congruence|lia]. }
    destruct (I1 t Hall) as [Iq Iu]. split.
    + intros q' Hq'.
      destruct (req_origin _ _ _ _ H Hq') as [(q & Hq & _ & _ & Ht & _)|(a & r & op & t0 & uid & -> & ->)].
      * rewrite Ht. auto.
      * cbn [r_t]. intros ->.
        destruct (s3begin_inv _ _ _ _ _ _ _ H) as [_ _ _ Htk _ _ Hup].
        destruct (s3op_eqb op OpAbort) eqn:Eop.
        -- destruct Hup as (u & Hu & Hut & _); [apply orb_true_r|].
           apply find_upload_in in Hu. exact (Iu u Hu Hut).
        -- assert (Hne : op <> OpAbort) by (intros ->; discriminate).
           destruct (Htk Hne) as (x & Hx & Hxt & _ & _ & Hsub).
           destruct (Hall a x Hx Hxt) as [Hk Hp]. destruct (Hsub Hk) as [Hp2 _]. lia.
    + intros u' Hu0.
      destruct (upload_origin _ _ _ _ H Hu0) as [(u & Hin & _ & Ht)|(r & uid & q & -> & Hq & _ & ->)].
      * rewrite Ht. auto.
      * cbn [u_t]. apply Iq. eapply find_req_in; eauto.
  - intros kS S' HS' HSk HSp k x' Hx' Hxt.
    destruct (task_origin _ _ _ _ _ H HS') as [(S & HS & HSts)|(HnS & t1 & g1 & a1 & f1 & d1 & kd1 & E1 & ->)].
    + statics HSts. pose proof (phase_monotone_step _ _ _ _ HSts) as Hmono.
      destruct (task_origin _ _ _ _ _ H Hx') as [(x & Hx & Hxts)|(_ & t2 & g2 & a2 & f2 & d2 & kd2 & -> & ->)].
      * statics Hxts. rewrite Skind0. apply (I2 kS S HS ltac:(congruence) ltac:(lia) k x Hx). congruence.
      * cbn [k_t k_kind fresh_task] in *.
        destruct (Z.eq_dec kd2 KSubmission) as [Hkk|Hkk]; [exact Hkk|exfalso].
        destruct (submit_inv _ _ _ _ _ _ _ _ _ H) as [_ _ Hns _ _ _ _ _ _ _ _].
        destruct (Hns Hkk) as (_ & p & Hp & Hpt & _ & Hph).
        assert (Hpk : k_kind p = KSubmission) by (apply (I2 kS S HS ltac:(congruence) ltac:(lia) a2 p Hp); congruence).
        assert (a2 = kS) by (eapply U; eauto; congruence). subst a2.
        rewrite HS in Hp. injection Hp as <-. specialize (Hph Hpk). lia.
    + (* the submission task is being submitted: it is the first task of its transfer *)
      subst e. cbn [k_t k_kind fresh_task] in *. subst kd1.
      destruct (submit_inv _ _ _ _ _ _ _ _ _ H) as [_ Hsub _ _ _ _ _ _ _ _ _].
      destruct (Hsub eq_refl) as (_ & _ & _ & Hno).
      destruct (task_origin _ _ _ _ _ H Hx') as [(x & Hx & Hxts)|(_ & t2 & g2 & a2 & f2 & d2 & kd2 & E2 & ->)].
      * statics Hxts. exfalso. eapply Hno; [exact Hx|congruence].
      * injection E2 as -> -> -> -> -> -> ->. reflexivity.
Qed.

Lemma NoDup_app_left (l1 l2 : list Z) : NoDup (l1 ++ l2) -> NoDup l1.
Proof.
  induction l1 as [|y l IH]; [constructor|]. cbn [app]. intros H.
  inversion H as [|? ? Hni Hnd]; subst. constructor; [|auto].
  intros Hin. apply Hni. apply in_or_app. now left.
Qed.

Lemma callback_inv s a t id s' :
  step s (ECallback a t id) = Some s' ->
  exists c rest, find_coord t (coords s) = Some c /\ c_cb_runner c = Some a /\ c_callbacks c = id :: rest /\
                 busy s a = false.
Proof.
  intros H. cbn [step] in H. apply busy_false_of_if in H as [Hb H]. sub_on_coord H.
  rewrite bump_coords in Hfc.
  destruct (c_cb_runner c) as [b|] eqn:Eb; [|discriminate].
  destruct (c_callbacks c) as [|h rest] eqn:Ec; [discriminate|].
  destruct (_ && _) eqn:Eg in Hf; [|discriminate]. apply andb_prop in Eg as [E1 E2].
  assert (b = a) by lia. assert (h = id) by lia. subst. exists c, rest. auto.
Qed.

Lemma onqueued_inv s k s' :
  step s (EOnQueued k) = Some s' ->
  exists S, find_task k (tasks s) = Some S /\ k_st S = TMain /\ k_kind S = KSubmission /\ k_phase S = 1 /\
            busy s k = false.
Proof.
  intros H. cbn [step] in H. apply busy_false_of_if in H as [Hb H].
  destruct (find_task k (tasks s)) as [S|]; [|discriminate].
  destruct (_ && _) eqn:Eg in H; [|discriminate]. split_ands.
  exists S. repeat split; auto; [now apply tst_eqb_true|unfold KSubmission in *; lia|lia].
Qed.

Section Reach4.
Variables w_sub w_req w_io q_sub q_req q_io up down : Z.
Let s0 := init w_sub w_req w_io q_sub q_req q_io up down.

Lemma early_inv_reachable s : reachable s0 s -> early_inv s.
Proof.
  apply (invariant_reachable2 tb_inv).
  - apply tb_inv_reachable.
  - split.
    + intros t _. split; [intros q []|intros u []].
    + intros kS S HS. discriminate.
  - intros s1 e s2 TBs. now apply early_inv_step.
Qed.

(** C08: on_queued callbacks run at phase 1 of the submission task, when
    nothing else of the transfer exists: no other task, no request, no upload *)
Theorem on_queued_before_requests s k s' :
  reachable s0 s -> step s (EOnQueued k) = Some s' ->
  exists S, find_task k (tasks s) = Some S /\ k_kind S = KSubmission /\ k_phase S = 1 /\ k_st S = TMain /\
    (forall k' x, find_task k' (tasks s) = Some x -> k_t x = k_t S -> k' = k) /\
    (forall q, In q (reqs s) -> r_t q <> k_t S) /\
    (forall u, In u (uploads s) -> u_t u <> k_t S).
Proof.
  intros R H. destruct (onqueued_inv _ _ _ H) as (S & HS & Hst & Hk & Hp & _).
  destruct (early_inv_reachable s R) as [E1 E2]. destruct (tb_inv_reachable _ _ _ _ _ _ _ _ s R) as [_ U].
  assert (Hall : forall k' x, find_task k' (tasks s) = Some x -> k_t x = k_t S -> k_kind x = KSubmission)
    by (intros k' x Hx Ht; eapply (E2 k S HS Hk); eauto; lia).
  assert (Hone : forall k' x, find_task k' (tasks s) = Some x -> k_t x = k_t S -> k' = k)
    by (intros k' x Hx Ht; eapply U; eauto).
  exists S. repeat split; auto.
  - apply (E1 (k_t S)). intros k' x Hx Ht. pose proof (Hone k' x Hx Ht). subst k'.
    rewrite HS in Hx. injection Hx as <-. split; [exact Hk|lia].
  - apply (E1 (k_t S)). intros k' x Hx Ht. pose proof (Hone k' x Hx Ht). subst k'.
    rewrite HS in Hx. injection Hx as <-. split; [exact Hk|lia].
Qed.

(** the on_queued counter changes only there *)
Theorem queued_cbs_only_at_onqueued s e s' t c c' :
  step s e = Some s' -> find_coord t (coords s) = Some c -> find_coord t (coords s') = Some c' ->
  c_queued_cbs c' = c_queued_cbs c \/
  (exists k S, e = EOnQueued k /\ find_task k (tasks s) = Some S /\ k_t S = t /\ k_phase S = 1 /\
               c_queued_cbs c' = c_queued_cbs c + 1).
Proof.
  intros H Hc Hc'. destruct (coord_persistsE _ _ _ _ _ H Hc) as (c'' & Hc'' & Hcs).
  rewrite Hc' in Hc''. injection Hc'' as <-.
  destruct Hcs; cbn; auto. right. eauto 10.
Qed.

(** C08: done callbacks run at most once each, and only by the holder of the callbacks lock *)
Theorem on_done_exactly_once_safety s :
  reachable s0 s ->
  (forall t c, find_coord t (coords s) = Some c ->
     NoDup (c_ran_callbacks c) /\ (forall id, In id (c_ran_callbacks c) -> ~ In id (c_callbacks c))) /\
  (forall a t id s', step s (ECallback a t id) = Some s' ->
     exists c, find_coord t (coords s) = Some c /\ c_cb_runner c = Some a /\
               ann_phase a (c_announcers c) = Some 4 /\ ~ In id (c_ran_callbacks c)).
Proof.
  intros R. pose proof (coords_inv_reachable _ _ _ _ _ _ _ _ s R) as CI. split.
  - intros t c Hc. destruct (CI t c Hc) as [_ Hnd _ _ _ _ _]. split.
    + eapply NoDup_app_left; eauto.
    + intros id Hin Hin2. clear -Hnd Hin Hin2.
      induction (c_ran_callbacks c) as [|y l IH]; [destruct Hin|].
      cbn [app] in Hnd. inversion Hnd as [|? ? Hni Hnd']; subst.
      destruct Hin as [->|Hin]; [apply Hni; apply in_or_app; now right|auto].
  - intros a t id s' H. destruct (callback_inv _ _ _ _ _ H) as (c & rest & Hc & Hrun & Hcb & _).
    exists c. destruct (CI t c Hc) as [_ Hnd _ Icb _ _ _]. repeat split; auto.
    + now apply Icb.
    + intros Hin. rewrite Hcb in Hnd. clear -Hnd Hin.
      induction (c_ran_callbacks c) as [|y l IH]; [destruct Hin|].
      cbn [app] in Hnd. inversion Hnd as [|? ? Hni Hnd']; subst.
      destruct Hin as [->|Hin]; [apply Hni; apply in_or_app; right; now left|auto].
Qed.
End Reach4.

Section Reach5.
Variables w_sub w_req q_sub q_req q_io up down : Z.
Let s0 := init w_sub w_req 1 q_sub q_req q_io up down.

Lemma d_inv_reachable s : reachable s0 s -> d_inv s.
Proof.
  intros R. assert (G : base_inv s /\ d_inv s); [|apply G].
  revert s R. apply invariant_reachable.
  - assert (B0 : base_inv s0) by (apply (base_inv_reachable w_sub w_req q_sub q_req q_io up down); apply reachable_refl).
    split; [exact B0|]. constructor.
    + exact B0.
    + intros t [(kf & f & Hf & _)|[(kS & S & HS & _)|(c & Hc & _)]]; discriminate.
    + intros q [].
    + constructor.
    + intros u [].
    + intros q [].
    + intros t c Hc. discriminate.
    + intros t c Hc. discriminate.
  - intros s1 e s2 [_ D] H. pose proof (d_inv_step _ _ _ D H) as D2. split; [apply D2|exact D2].
Qed.

Lemma upload_inv_reachable s : reachable s0 s -> upload_inv s.
Proof.
  apply (invariant_reachable2 d_inv).
  - apply d_inv_reachable.
  - intros u [].
  - intros s1 e s2 D. now apply upload_inv_step.
Qed.

Lemma progress_inv_reachable s : reachable s0 s -> progress_inv s.
Proof.
  apply (invariant_reachable2 d_inv).
  - apply d_inv_reachable.
  - intros t c Hc. discriminate.
  - intros s1 e s2 D. now apply progress_inv_step.
Qed.

(** C05: for every multipart upload id the library has received *)
Theorem abort_discipline s u :
  reachable s0 s -> In u (uploads s) ->
  u_begun_after_abort u = false /\          (* no part/complete begins after the abort began *)
  u_abort_while_inflight u = false /\       (* the abort begins when no other request for the id is in flight *)
  0 <= u_completes_ok u <= 1 /\             (* completed at most once *)
  u_inflight u = cnt (pc_open (u_id u)) (reqs s) /\
  (u_abort_begun u = true ->
     exists c, find_coord (u_t u) (coords s) = Some c /\ c_ann_started c = true /\
               is_done (c_status c) = true /\ c_status c <> Success) /\
  (forall c, find_coord (u_t u) (coords s) = Some c -> c_status c = Success -> u_abort_begun u = false).
Proof.
  intros R Hu. destruct (upload_inv_reachable s R u Hu) as [A1 A2 A3 A4 [A5a A5b]].
  split; [exact A1|]. split; [exact A2|]. split.
  { pose proof (cnt_nonneg (c_open (u_id u)) (reqs s)). destruct (u_complete_begun u); cbn in A5b; lia. }
  split; [exact A4|]. split.
  - intros Hb. destruct (A3 Hb) as (c & Hc & Hst & Hns). exists c. repeat split; auto.
    destruct (d_inv_reachable s R) as [B _ _ _ _ _ _ _]. destruct (bi_t1 _ B) as (_ & _ & _ & IA).
    apply (IA _ c Hc). now left.
  - intros c Hc Hs. destruct (u_abort_begun u) eqn:Eb; [exfalso|reflexivity].
    destruct (A3 eq_refl) as (c1 & Hc1 & _ & Hns). congruence.
Qed.

(** C08: while done callbacks run, and ever after *)
Theorem on_done_after_everything s t c :
  reachable s0 s -> find_coord t (coords s) = Some c ->
  c_cb_runner c <> None \/ c_ran_callbacks c <> [] ->
  c_event c = true /\ is_done (c_status c) = true /\ c_ann_started c = true /\
  (forall a, c_cb_runner c = Some a -> ann_phase a (c_announcers c) = Some 4 /\ c_cl_runner c <> Some a) /\
  (* no request of the transfer other than an abort is in flight ... *)
  (forall q, In q (reqs s) -> r_t q = t -> r_op q <> OpAbort -> r_ended q = true) /\
  (* ... and none begins later; no task but the submission task is in or enters its main *)
  (forall k x, find_task k (tasks s) = Some x -> k_t x = t -> k_kind x <> KSubmission ->
               k_st x <> TReady /\ k_st x <> TMain) /\
  c_progress_after_done c = false.
Proof.
  intros R Hc Hor. pose proof (d_inv_reachable s R) as D. destruct D as [B C RQ _ _ _ _ SC].
  pose proof (coords_inv_reachable _ _ _ _ _ _ _ _ s R t c Hc) as [_ _ Icl Icb Iev Iran _].
  destruct (bi_t1 _ B) as (_ & _ & IL & IA). destruct (IL t c Hc) as [_ _ _ L4 _ L6].
  assert (Hst : c_ann_started c = true) by (destruct Hor; auto).
  assert (Hcalm : calm s t) by (apply C; right; right; exists c; auto).
  split.
  { destruct Hor as [Hr|Hr]; [|auto]. destruct (c_cb_runner c) as [a|] eqn:Ea; [|congruence].
    eapply Iev; [apply Icb; reflexivity|lia]. }
  split; [apply (IA t c Hc); now left|]. split; [exact Hst|]. split.
  { intros a Ha. pose proof (proj1 (Icb a) Ha) as Hp. split; [exact Hp|].
    intros Hcl. apply Icl in Hcl. congruence. }
  split.
  { intros q Hq Ht Hop. destruct (r_ended q) eqn:Ee; [reflexivity|exfalso].
    destruct (RQ q Hq Ee) as [_ Rt]. destruct (Rt Hop) as (x & Hx & Hxt & Hxs & Hka & Hsub).
    destruct (Z.eq_dec (k_kind x) KSubmission) as [Hk|Hk].
    - destruct (Hsub Hk) as [Hph Hall].
      destruct (SC t c Hc ltac:(left; exact Hst)) as [(kf & f & Hf & Hft & Hfin & _)|[(kS & S & HS & HSt & HSk & HSp)|Q]].
      + destruct (bi_tb _ B) as [TB _]. destruct (TB kf f Hf) as [B1 _ _ _ _ _ _ _].
        assert (Hfk : k_kind f = KSubmission) by (eapply Hall; eauto; congruence).
        destruct (B1 Hfk). congruence.
      + destruct (bi_tb _ B) as [_ U].
        assert (kS = r_actor q) by (eapply U; eauto; congruence). subst kS.
        rewrite Hx in HS. injection HS as <-. lia.
      + destruct Q as [_ Qr _]. exact (Qr q Hq Ht).
    - pose proof (Hcalm _ x Hx ltac:(congruence) Hk) as Hh. rewrite Hxs in Hh. discriminate. }
  split.
  { intros k x Hx Ht Hk. pose proof (Hcalm k x Hx Ht Hk) as Hh.
    split; intros E; rewrite E in Hh; discriminate. }
  apply (progress_inv_reachable s R t c Hc).
Qed.
End Reach5.

(** ** cleanups are run, never dropped, and precede the event on failure *)
Lemma cleanups_never_dropped c c' :
  cstep c c' ->
  exists l, c_ran_cleanups c' ++ c_cleanups c' = (c_ran_cleanups c ++ c_cleanups c) ++ l.
Proof.
  intros H. destruct H; cbn; try (exists []; now rewrite app_nil_r).
  - exists [id]. now rewrite app_assoc.
  - exists []. rewrite app_nil_r, H0, <- app_assoc. reflexivity.
  - exists []. rewrite H1, !app_nil_r. reflexivity.
Qed.

Lemma cleanups_end_inv s a t s' :
  step s (ECleanupsEnd a t) = Some s' ->
  exists c, find_coord t (coords s) = Some c /\ c_cl_runner c = Some a /\ c_cleanups c = [] /\
            ann_phase a (c_announcers c) = Some 1.
Proof.
  intros H. cbn [step] in H. apply busy_false_of_if in H as [_ H]. sub_on_coord H.
  destruct (c_cl_runner c) as [b|] eqn:Eb; [|discriminate].
  destruct (ann_phase a (c_announcers c)) as [p|] eqn:Ep; [|discriminate].
  destruct p as [|p|p]; try discriminate. destruct p; try discriminate.
  destruct (_ && _) eqn:Eg in Hf; [|discriminate]. apply andb_prop in Eg as [E1 E2].
  assert (b = a) by lia. subst b. exists c. repeat split; auto.
  destruct (c_cleanups c); [reflexivity|discriminate].
Qed.

Lemma eventset_inv s a t s' :
  step s (EEventSet a t) = Some s' ->
  exists c p, find_coord t (coords s) = Some c /\ ann_phase a (c_announcers c) = Some p /\
              (p = 2 \/ (p = 0 /\ c_status c = Success)).
Proof.
  intros H. cbn [step] in H. apply busy_false_of_if in H as [_ H]. sub_on_coord H.
  destruct (ann_phase a (c_announcers c)) as [p|] eqn:Ep; [|discriminate].
  destruct (_ || _) eqn:Eg in Hf; [|discriminate].
  exists c, p. repeat split; auto. apply orb_prop in Eg as [E|E]; [left; lia|right].
  apply andb_prop in E as [E1 E2]. apply status_eqb_eq in E2. split; [lia|exact E2].
Qed.

Section Reach6.
Variables w_sub w_req w_io q_sub q_req q_io up down : Z.
Let s0 := init w_sub w_req w_io q_sub q_req q_io up down.

Lemma phase2_after_cl_end tr : forall s, run s0 tr = Some s ->
  forall t c a, find_coord t (coords s) = Some c -> ann_phase a (c_announcers c) = Some 2 ->
  In (ECleanupsEnd a t) tr.
Proof.
  induction tr as [|e tr IH] using rev_ind; intros s Hrun t c' a Hc' Hph.
  - injection Hrun as <-. discriminate.
  - rewrite run_app in Hrun. destruct (run s0 tr) as [s1|] eqn:E1; [|discriminate].
    cbn [run] in Hrun. destruct (step s1 e) as [s2|] eqn:Es; [|discriminate]. injection Hrun as ->.
    apply in_or_app.
    destruct (coord_origin _ _ _ _ _ Es Hc') as [(c & Hc & Hcs)|(_ & ->)]; [|discriminate].
    destruct (ann_phase a (c_announcers c)) as [p|] eqn:Ep.
    + destruct (Z.eq_dec p 2) as [->|Hne]; [left; eapply IH; eauto|].
      destruct Hcs; cbn in Hph; try congruence; revert Hph;
        match goal with |- context [ann_set ?b _ _] => ann_cases b a Hn | |- context [ann_del ?b _] => ann_cases b a Hn end;
        try congruence; try discriminate.
      intros _. right. now left.
    + destruct Hcs; cbn in Hph; try congruence; revert Hph;
        match goal with |- context [ann_set ?b _ _] => ann_cases b a Hn | |- context [ann_del ?b _] => ann_cases b a Hn end;
        try congruence; try discriminate.
Qed.

(** when the done event is set under a non-success status, this announcer has
    completed a cleanup phase, which ended with every registered cleanup run *)
Theorem cleanups_before_event_on_failure tr s a t s' c :
  run s0 tr = Some s -> step s (EEventSet a t) = Some s' ->
  find_coord t (coords s) = Some c -> c_status c <> Success ->
  In (ECleanupsEnd a t) tr.
Proof.
  intros Hrun H Hc Hns. destruct (eventset_inv _ _ _ _ H) as (c1 & p & Hc1 & Hp & Hor).
  rewrite Hc in Hc1. injection Hc1 as <-.
  destruct Hor as [->|[_ Hs]]; [|contradiction]. eapply phase2_after_cl_end; eauto.
Qed.
End Reach6.
