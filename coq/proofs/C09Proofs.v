(** Combination of the per-part results of C09 over the parts of a transfer. *)
From Coq Require Import ZArith List Bool Lia ZifyBool Arith.
From S3V Require Import gen.Tables model.Chunk model.Progress model.Retry model.Plan
  proofs.PlanProofs proofs.ChunkProofs proofs.ProgressProofs proofs.RetryProofs.
Import ListNotations.
Open Scope Z_scope.

Lemma Forall2_map_l {A B} (P : B -> A -> Prop) (f : A -> B) (l : list A) :
  Forall (fun x => P (f x) x) l -> Forall2 P (map f l) l.
Proof. induction 1; cbn [map]; constructor; assumption. Qed.

Lemma Forall2_map_both {A B C} (P : B -> C -> Prop) (f : A -> B) (g : A -> C) (l : list A) :
  Forall (fun x => P (f x) (g x)) l -> Forall2 P (map f l) (map g l).
Proof. induction 1; cbn [map]; constructor; assumption. Qed.

(** * Uploads: one body (chunk + aggregator) per part *)

Record upload_part := mkUploadPart {
  up_chunk : chunk;
  up_first : attempt;
  up_resends : list attempt
}.

(** The part's body is fresh, the environment follows the request script
    language, and the last send was complete. *)
Definition up_ok (p : upload_part) : Prop :=
  fresh (up_chunk p) /\ valid_attempt (up_first p) = true /\
  forallb valid_attempt (up_resends p) = true /\
  size (up_chunk p) <=
    amount_read (run_state (up_chunk p) (request_ops (up_first p) (up_resends p))).

(** Without the completeness condition (a part whose request failed). *)
Definition up_scripted (p : upload_part) : Prop :=
  fresh (up_chunk p) /\ valid_attempt (up_first p) = true /\
  forallb valid_attempt (up_resends p) = true.

Definition up_values (thr : Z) (p : upload_part) : list Z :=
  subscriber_values thr (run_events (up_chunk p) (body_life (up_first p) (up_resends p))).

Definition up_size (p : upload_part) : Z := size (up_chunk p).

Theorem upload_parts_exact thr parts out :
  Forall up_ok parts -> interleaving (map (up_values thr) parts) out ->
  exact_for (zsum (map up_size parts)) out.
Proof.
  intros Hok Hil. apply (interleaved_exact (map (up_values thr) parts)); [|exact Hil].
  apply Forall2_map_both. eapply Forall_impl; [|exact Hok].
  intros p (H1 & H2 & H3 & H4). now apply upload_body_exact.
Qed.

Theorem upload_parts_within thr parts out :
  Forall up_scripted parts -> interleaving (map (up_values thr) parts) out ->
  within (zsum (map up_size parts)) out.
Proof.
  intros Hok Hil. apply (interleaved_within (map (up_values thr) parts)); [|exact Hil].
  apply Forall2_map_both. eapply Forall_impl; [|exact Hok].
  intros p (H1 & H2 & H3). now apply upload_body_within.
Qed.

(** * Downloads: one GetObjectTask per range; progress goes to the subscriber
    unaggregated *)

Record get_part := mkGetPart {
  gp_start : Z; gp_len : Z; gp_io_chunk : Z; gp_max_attempts : Z;
  gp_faults : list fault; gp_reads : list (list Z); gp_done_at : option nat
}.

Definition gp_result (obj : list Z) (p : get_part) : get_result :=
  run_get_full obj (gp_start p) (gp_len p) (gp_io_chunk p) (gp_max_attempts p)
               (gp_faults p) (gp_reads p) (gp_done_at p).

Definition gp_scripted (obj : list Z) (p : get_part) : Prop :=
  in_object obj (gp_start p) (gp_len p) /\ 1 <= gp_io_chunk p.

Definition gp_ok (obj : list Z) (p : get_part) : Prop :=
  gp_scripted obj p /\ g_outcome (gp_result obj p) = Ok.

Theorem download_parts_exact obj parts out :
  Forall (gp_ok obj) parts ->
  interleaving (map (fun p => g_progress (gp_result obj p)) parts) out ->
  exact_for (zsum (map gp_len parts)) out.
Proof.
  intros Hok Hil.
  apply (interleaved_exact (map (fun p => g_progress (gp_result obj p)) parts)); [|exact Hil].
  apply Forall2_map_both. eapply Forall_impl; [|exact Hok].
  intros p ((H1 & H2) & H3).
  destruct (run_get_progress obj _ _ _ (gp_max_attempts p) (gp_faults p) (gp_reads p)
                             (gp_done_at p) H1 H2) as (W & E & _).
  split; [exact W|]. apply E. exact H3.
Qed.

Theorem download_parts_within obj parts out :
  Forall (gp_scripted obj) parts ->
  interleaving (map (fun p => g_progress (gp_result obj p)) parts) out ->
  within (zsum (map gp_len parts)) out.
Proof.
  intros Hok Hil.
  apply (interleaved_within (map (fun p => g_progress (gp_result obj p)) parts)); [|exact Hil].
  apply Forall2_map_both. eapply Forall_impl; [|exact Hok].
  intros p (H1 & H2).
  destruct (run_get_progress obj _ _ _ (gp_max_attempts p) (gp_faults p) (gp_reads p)
                             (gp_done_at p) H1 H2) as (W & _). exact W.
Qed.

(** * Copies: each part task reports its planned size once *)

Theorem copy_parts_exact mn mx mp size c plan out :
  0 < mn -> mn <= mx -> 0 <= size ->
  copy_plan_with mn mx mp size c = Some plan ->
  interleaving (map (fun p => copy_progress (snd p)) plan) out ->
  exact_for size out.
Proof.
  intros Hmn Hmx Hs Hplan Hil.
  destruct (copy_plan_sizes_sum mn mx mp size c plan Hmn Hmx Hs Hplan) as [Hsum Hpos].
  rewrite <- Hsum.
  apply (interleaved_exact (map (fun p => copy_progress (snd p)) plan)); [|exact Hil].
  apply Forall2_map_both. eapply Forall_impl; [|exact Hpos].
  intros p Hp. now apply copy_progress_exact_for.
Qed.

(** A single-request copy (CopyObjectTask). *)
Theorem copy_single_exact size : 0 <= size -> exact_for size (copy_progress size).
Proof. apply copy_progress_exact_for. Qed.

(** * Non-vacuity material *)

Definition ex_chunk : chunk := mk_chunk [10; 20; 30; 40; 50; 60] 1 4 6 false.
Definition ex_first : attempt :=
  mkAttempt [Read (Some 3); Seek 1 1; Read None; Seek (-2) 2] [Some 3].
Definition ex_resends : list attempt :=
  [mkAttempt [] [Some 1; Some 1]; mkAttempt [Read (Some 9)] [Some 2; None; Some 5]].
Definition ex_part : upload_part := mkUploadPart ex_chunk ex_first ex_resends.

Lemma ex_part_ok : up_ok ex_part.
Proof.
  unfold up_ok, ex_part; cbn [up_chunk up_first up_resends].
  split; [apply fresh_mk_chunk; cbn; lia|]. split; [reflexivity|]. split; [reflexivity|].
  vm_compute. discriminate.
Qed.

Definition ex_obj : list Z := [0; 1; 2; 3; 4; 5; 6; 7; 8; 9].
Definition ex_get : get_part :=
  mkGetPart 2 5 2 3 [FaultAfter 3 true; FaultOnRequest true] [[1; 5]; []; [2]] None.

Lemma ex_get_ok : gp_ok ex_obj ex_get.
Proof.
  unfold gp_ok, gp_scripted, in_object, ex_get, ex_obj; cbn [gp_start gp_len gp_io_chunk].
  split; [cbn; lia|]. vm_compute. reflexivity.
Qed.
