(** Python's [int(math.ceil(a / float(b)))] (s3transfer utils.calculate_num_parts,
    ChunksizeAdjuster._adjust_for_max_parts, upload.py, copies.py, processpool,
    legacy __init__.py) equals integer ceiling division [(a + b - 1) / b]
    whenever 0 <= a < 2^53 and 0 < b < 2^53.

    binary64 is the Flocq format [FLT_exp (-1074) 53] with rounding to nearest,
    ties to even.  [float(b)] and the int->float conversion of [a] are exact
    below 2^53 ([int_exact_in_binary64]); [/] is one correctly rounded IEEE
    division; [math.ceil] of a finite float is exact. *)

From Coq Require Import ZArith Reals Lra Lia.
From Flocq Require Import Core.

Local Open Scope Z_scope.

Notation b64_exp := (FLT_exp (-1074) 53).
Notation RN64 := (round radix2 b64_exp ZnearestE).
Notation fmt64 := (generic_format radix2 b64_exp).

Local Instance prec53_gt_0 : Prec_gt_0 53.
Proof. reflexivity. Qed.

(** * Integers up to 2^53 are binary64 numbers *)

Lemma IZR_pow2 : forall e : Z, 0 <= e -> IZR (2 ^ e) = bpow radix2 e.
Proof.
  intros e He. exact (IZR_Zpower radix2 e He).
Qed.

Lemma int_lt_exact_in_binary64 : forall n : Z,
  Z.abs n < 2 ^ 53 -> fmt64 (IZR n).
Proof.
  intros n Hn.
  apply generic_format_FLT.
  exists (Float radix2 n 0).
  - unfold F2R. cbn [Fnum Fexp bpow]. lra.
  - cbn [Fnum]. exact Hn.
  - cbn [Fexp]. lia.
Qed.

Theorem int_exact_in_binary64 : forall n : Z,
  Z.abs n <= 2 ^ 53 -> fmt64 (IZR n).
Proof.
  intros n Hn.
  destruct (Z.eq_dec (Z.abs n) (2 ^ 53)) as [He | Hne].
  - assert (Hp : fmt64 (IZR (2 ^ 53))).
    { rewrite IZR_pow2 by lia. apply generic_format_FLT_bpow; [exact prec53_gt_0 | lia]. }
    destruct (Z.abs_eq_or_opp n) as [Ha | Ha].
    + rewrite <- Ha, He. exact Hp.
    + assert (Hn' : n = - 2 ^ 53) by lia.
      rewrite Hn', opp_IZR. apply generic_format_opp. exact Hp.
  - apply int_lt_exact_in_binary64. lia.
Qed.

(** * Real ceiling of a quotient of integers *)

Lemma ceil_div_bounds : forall a b : Z, 0 < b ->
  ((a + b - 1) / b - 1) * b < a <= ((a + b - 1) / b) * b.
Proof.
  intros a b Hb.
  pose proof (Z.div_mod (a + b - 1) b ltac:(lia)) as Hdm.
  pose proof (Z.mod_pos_bound (a + b - 1) b Hb) as Hmb.
  nia.
Qed.

Lemma Rdiv_IZR_mul : forall a b : Z, 0 < b ->
  (IZR a / IZR b * IZR b = IZR a)%R.
Proof.
  intros a b Hb.
  assert (HB : (0 < IZR b)%R) by (apply IZR_lt; exact Hb).
  field. lra.
Qed.

Theorem real_ceil_div : forall a b : Z, 0 < b ->
  Zceil (IZR a / IZR b) = (a + b - 1) / b.
Proof.
  intros a b Hb.
  pose proof (ceil_div_bounds a b Hb) as [Hlo Hhi].
  set (k := (a + b - 1) / b) in *.
  apply Zceil_imp.
  assert (HB : (0 < IZR b)%R) by (apply IZR_lt; exact Hb).
  pose proof (Rdiv_IZR_mul a b Hb) as Hq.
  set (q := (IZR a / IZR b)%R) in *.
  apply IZR_lt in Hlo. apply IZR_le in Hhi.
  rewrite mult_IZR in Hlo, Hhi.
  split; nra.
Qed.

(** * The rounded quotient has the same ceiling *)

Lemma bpow_m52 : (bpow radix2 (-52) * 9007199254740992 = 2)%R.
Proof.
  change 9007199254740992%R with (IZR (2 ^ 53)).
  rewrite IZR_pow2 by lia.
  rewrite <- bpow_plus.
  reflexivity.
Qed.

Lemma RN64_gt_pred_ceil : forall a b m : Z,
  0 < b < 2 ^ 53 -> a < 2 ^ 53 -> 0 <= m -> m * b < a ->
  (IZR m < RN64 (IZR a / IZR b))%R.
Proof.
  intros a b m Hb Ha Hm Hma.
  assert (HB : (0 < IZR b)%R) by (apply IZR_lt; lia).
  pose proof (Rdiv_IZR_mul a b ltac:(lia)) as Hq.
  set (q := (IZR a / IZR b)%R) in *.
  assert (Hma1 : (IZR m * IZR b + 1 <= IZR a)%R).
  { rewrite <- mult_IZR, <- plus_IZR. apply IZR_le. lia. }
  assert (HA : (IZR a < 9007199254740992)%R).
  { change 9007199254740992%R with (IZR (2 ^ 53)). apply IZR_lt. exact Ha. }
  assert (HB2 : (IZR b < 9007199254740992)%R).
  { change 9007199254740992%R with (IZR (2 ^ 53)). apply IZR_lt. lia. }
  destruct (Z.eq_dec m 0) as [Hm0 | Hm0].
  - (* predecessor of the ceiling is 0: q >= 1/b > 2^-53 *)
    subst m.
    apply Rlt_le_trans with (bpow radix2 (-53)).
    + apply bpow_gt_0.
    + apply round_ge_generic; auto with typeclass_instances.
      * apply generic_format_FLT_bpow; [exact prec53_gt_0 | lia].
      * assert (Hp : (bpow radix2 (-53) * 9007199254740992 = 1)%R).
        { change 9007199254740992%R with (IZR (2 ^ 53)).
          rewrite IZR_pow2 by lia. rewrite <- bpow_plus. reflexivity. }
        assert (Hp0 : (0 < bpow radix2 (-53))%R) by apply bpow_gt_0.
        nra.
  - (* m >= 1: q is strictly above the midpoint of m and succ m *)
    assert (Hm1 : (1 <= IZR m)%R) by (apply IZR_le; lia).
    assert (Fm : fmt64 (IZR m)).
    { apply int_lt_exact_in_binary64. nia. }
    set (u := ulp radix2 b64_exp (IZR m)).
    assert (Hu0 : (0 < u)%R).
    { unfold u. rewrite ulp_neq_0 by lra. apply bpow_gt_0. }
    assert (Hule : (u <= IZR m * bpow radix2 (-52))%R).
    { unfold u.
      pose proof (ulp_FLT_le radix2 (-1074) 53 (IZR m)) as H.
      rewrite Rabs_pos_eq in H by lra.
      apply H.
      apply Rle_trans with (2 := Hm1).
      change 1%R with (bpow radix2 0). apply bpow_le. lia. }
    pose proof bpow_m52 as H52.
    assert (H52p : (0 < bpow radix2 (-52))%R) by apply bpow_gt_0.
    assert (Hsucc : succ radix2 b64_exp (IZR m) = (IZR m + u)%R).
    { apply succ_eq_pos. lra. }
    apply Rlt_le_trans with (succ radix2 b64_exp (IZR m)).
    + rewrite Hsucc. lra.
    + apply round_N_ge_midp; auto with typeclass_instances.
      * apply generic_format_succ; auto with typeclass_instances.
      * rewrite pred_succ by auto with typeclass_instances.
        rewrite Hsucc.
        (* b * u < 2 *)
        assert (Hbu : (IZR b * u < 2)%R).
        { apply Rle_lt_trans with (IZR b * (IZR m * bpow radix2 (-52)))%R.
          - apply Rmult_le_compat_l; lra.
          - assert (Hmb : (IZR m * IZR b < 9007199254740992)%R) by lra.
            nra. }
        (* q*b = a >= m*b + 1 > (m + u/2) * b *)
        apply Rmult_lt_reg_r with (IZR b); [exact HB|].
        rewrite Hq. nra.
Qed.

Theorem float_ceil_div_exact : forall a b : Z,
  0 <= a < 2 ^ 53 -> 0 < b < 2 ^ 53 ->
  Zceil (round radix2 (FLT_exp (-1074) 53) ZnearestE (IZR a / IZR b)) = (a + b - 1) / b.
Proof.
  intros a b Ha Hb.
  destruct (Z.eq_dec a 0) as [Ha0 | Ha0].
  - subst a. unfold Rdiv. rewrite Rmult_0_l, round_0 by auto with typeclass_instances.
    rewrite Zceil_IZR. symmetry. apply Z.div_small. lia.
  - pose proof (ceil_div_bounds a b ltac:(lia)) as [Hlo Hhi].
    pose proof (real_ceil_div a b ltac:(lia)) as Hc.
    set (k := (a + b - 1) / b) in *.
    assert (Hk1 : 1 <= k) by nia.
    assert (Hka : k <= a) by nia.
    apply Zceil_imp. split.
    + apply RN64_gt_pred_ceil; lia.
    + assert (Fk : fmt64 (IZR k)) by (apply int_lt_exact_in_binary64; lia).
      rewrite <- (round_generic radix2 b64_exp ZnearestE (IZR k) Fk).
      apply round_le; auto with typeclass_instances.
      rewrite <- Hc. apply Zceil_ub.
Qed.

(** * The 2^53 bound is needed *)

(** With a = 2^53 + 1 the int->float conversion already rounds (to an even
    multiple of 2), so the result cannot be the odd number 2^53 + 1. *)
Theorem float_ceil_div_breaks_beyond : exists a b : Z,
  0 <= a /\ 0 < b /\
  Zceil (round radix2 (FLT_exp (-1074) 53) ZnearestE
           (round radix2 (FLT_exp (-1074) 53) ZnearestE (IZR a) / IZR b))
  <> (a + b - 1) / b.
Proof.
  exists (2 ^ 53 + 1), 1.
  split; [lia|]. split; [lia|].
  replace ((2 ^ 53 + 1 + 1 - 1) / 1) with (2 ^ 53 + 1) by (rewrite Z.div_1_r; lia).
  unfold Rdiv. rewrite Rinv_1, Rmult_1_r.
  rewrite (round_generic radix2 b64_exp ZnearestE (RN64 _))
    by (apply generic_format_round; auto with typeclass_instances).
  unfold round, F2R. cbn [Fnum Fexp].
  assert (Hcexp : cexp radix2 b64_exp (IZR (2 ^ 53 + 1)) = 1).
  { unfold cexp.
    rewrite (mag_unique radix2 (IZR (2 ^ 53 + 1)) 54).
    - reflexivity.
    - rewrite Rabs_pos_eq by (apply IZR_le; lia).
      rewrite <- !IZR_pow2 by lia.
      split; [apply IZR_le | apply IZR_lt]; lia. }
  rewrite Hcexp.
  set (n := ZnearestE _).
  change (bpow radix2 1) with 2%R.
  rewrite <- mult_IZR, Zceil_IZR.
  lia.
Qed.

Print Assumptions float_ceil_div_exact.
