(** Lemmas and the invariant for model/Crt.v (property C20). *)
From Coq Require Import ZArith List Bool Arith Lia.
From S3V Require Import gen.Tables model.Crt.
Import ListNotations.
Open Scope Z_scope.

(** * Lists *)

Lemma set_nth_length : forall A i (x : A) l, length (set_nth i x l) = length l.
Proof.
  intros A i x l. revert i. induction l as [|y r IH]; intros [|j]; cbn; auto.
Qed.

Lemma nth_error_set_nth_eq : forall A i (x : A) l,
  (i < length l)%nat -> nth_error (set_nth i x l) i = Some x.
Proof.
  intros A i x l. revert i. induction l as [|y r IH]; intros [|j] H; cbn in *; try lia; auto.
  apply IH. lia.
Qed.

Lemma nth_error_set_nth_neq : forall A i j (x : A) l,
  i <> j -> nth_error (set_nth i x l) j = nth_error l j.
Proof.
  intros A i j x l. revert i j. induction l as [|y r IH]; intros [|i] [|j] H; cbn; auto; try lia.
Qed.

Lemma Forall_set_nth : forall A (P : A -> Prop) i x l,
  Forall P l -> P x -> Forall P (set_nth i x l).
Proof.
  intros A P i x l Hl Hx. revert i. induction Hl as [|y r Hy Hr IH]; intros [|j]; cbn; auto.
Qed.

Lemma nth_error_app_last : forall A (l : list A) x i t,
  nth_error (l ++ [x]) i = Some t ->
  ((i < length l)%nat /\ nth_error l i = Some t) \/ (i = length l /\ t = x).
Proof.
  intros A l x i t H. destruct (Nat.lt_ge_cases i (length l)) as [Hlt|Hge].
  - left. split; [exact Hlt|]. now rewrite nth_error_app1 in H.
  - right. rewrite nth_error_app2 in H by exact Hge.
    destruct (i - length l)%nat as [|k] eqn:E; cbn in H.
    + split; [lia|congruence].
    + destruct k; discriminate.
Qed.

Fixpoint sum_rel (ts : list transfer) : nat :=
  match ts with [] => 0 | t :: r => t_releases t + sum_rel r end.

Lemma sum_rel_app : forall a b, sum_rel (a ++ b) = (sum_rel a + sum_rel b)%nat.
Proof. induction a as [|t r IH]; intros b; cbn; [reflexivity|]. rewrite IH. lia. Qed.

Lemma sum_rel_set_nth : forall i t t1 ts, nth_error ts i = Some t ->
  (sum_rel (set_nth i t1 ts) + t_releases t = sum_rel ts + t_releases t1)%nat.
Proof.
  intros i t t1 ts. revert i. induction ts as [|y r IH]; intros [|j] H; cbn in *; try discriminate.
  - injection H as ->. lia.
  - specialize (IH j H). lia.
Qed.

(** Events of transfer [i] in the log, in order. *)
Definition proj (i : nat) (l : list (nat * ev)) : list ev :=
  map snd (filter (fun p => (fst p =? i)%nat) l).

Lemma proj_app : forall i a b, proj i (a ++ b) = proj i a ++ proj i b.
Proof. intros. unfold proj. now rewrite filter_app, map_app. Qed.

Lemma proj_tag_same : forall i evs, proj i (tag i evs) = evs.
Proof.
  intros i evs. unfold proj, tag. induction evs as [|e r IH]; cbn; [reflexivity|].
  rewrite Nat.eqb_refl. cbn. now rewrite IH.
Qed.

Lemma proj_tag_other : forall i j evs, i <> j -> proj i (tag j evs) = [].
Proof.
  intros i j evs H. unfold proj, tag. induction evs as [|e r IH]; cbn; [reflexivity|].
  destruct (j =? i)%nat eqn:E; [apply Nat.eqb_eq in E; congruence|exact IH].
Qed.

Lemma In_proj : forall i e l, In e (proj i l) <-> In (i, e) l.
Proof.
  intros i e l. unfold proj. rewrite in_map_iff. split.
  - intros [[j e'] [He Hin]]. cbn in He. subst e'. apply filter_In in Hin.
    destruct Hin as [Hin Hj]. cbn in Hj. apply Nat.eqb_eq in Hj. now subst j.
  - intros Hin. exists (i, e). split; [reflexivity|]. apply filter_In. split; [exact Hin|].
    cbn. apply Nat.eqb_refl.
Qed.

Lemma proj_none : forall i l, (forall e, ~ In (i, e) l) -> proj i l = [].
Proof.
  intros i l H. destruct (proj i l) as [|e r] eqn:E; [reflexivity|].
  exfalso. apply (H e). apply In_proj. rewrite E. now left.
Qed.

Lemma In_tag : forall i j e evs, In (i, e) (tag j evs) -> i = j /\ In e evs.
Proof.
  intros i j e evs H. unfold tag in H. apply in_map_iff in H.
  destruct H as [e' [He Hin]]. injection He as -> ->. auto.
Qed.

(** "every occurrence of [b] has an [a] before it" *)
Definition precedes {A} (a b : A) (l : list A) : Prop :=
  forall l1 l2, l = l1 ++ b :: l2 -> In a l1.

Lemma precedes_notin : forall A (a b : A) l, ~ In b l -> precedes a b l.
Proof.
  intros A a b l H l1 l2 E. exfalso. apply H. rewrite E. apply in_elt.
Qed.

Lemma precedes_app : forall A (a b : A) l1 l2,
  precedes a b l1 -> (precedes a b l2 \/ In a l1) -> precedes a b (l1 ++ l2).
Proof.
  intros A a b l1 l2 H1 H2 x y E.
  apply app_eq_app in E. destruct E as [l' [[E1 E2]|[E1 E2]]].
  - destruct l' as [|c l''].
    + cbn in E2. rewrite app_nil_r in E1. subst x.
      destruct H2 as [H2|H2]; [|exact H2].
      exfalso. apply (H2 [] y). now rewrite <- E2.
    + cbn in E2. injection E2 as <- E2. apply (H1 x l''). exact E1.
  - subst x. apply in_or_app. destruct H2 as [H2|H2]; [|now left].
    right. apply (H2 l' y). exact E2.
Qed.

Lemma precedes_proj : forall i a b l,
  precedes a b (proj i l) -> precedes (i, a) (i, b) l.
Proof.
  intros i a b l H l1 l2 E. subst l.
  rewrite proj_app in H. apply In_proj.
  apply (H (proj i l1) (proj i l2)).
  unfold proj at 3. cbn. rewrite Nat.eqb_refl. reflexivity.
Qed.

(** * The composed on_done at the level of one transfer *)

Lemma run_cbs_app : forall o l1 l2 t,
  run_cbs o (l1 ++ l2) t =
  match run_cbs o l1 t with
  | (t1, e1, true) => (t1, e1, true)
  | (t1, e1, false) =>
      match run_cbs o l2 t1 with (t2, e2, r) => (t2, e1 ++ e2, r) end
  end.
Proof.
  intros o l1. induction l1 as [|cb rest IH]; intros l2 t; cbn [app run_cbs].
  - destruct (run_cbs o l2 t) as [[t2 e2] r]. reflexivity.
  - destruct (cb_step o cb t) as [[t1 e1] [|]]; [reflexivity|].
    rewrite IH. destruct (run_cbs o rest t1) as [[t2 e2] [|]].
    + reflexivity.
    + destruct (run_cbs o l2 t2) as [[t3 e3] r]. now rewrite app_assoc.
Qed.

Lemma run_subs_noraise : forall o n a t,
  (forall k, (a <= k < a + n)%nat -> sub_raises t k = false) ->
  run_cbs o (map CbSub (seq a n)) t =
  (set_subs_done t (t_subs_done t + n), map EvSubDone (seq a n), false).
Proof.
  intros o n. induction n as [|n IH]; intros a t H.
  - cbn. rewrite Nat.add_0_r. destruct t; reflexivity.
  - cbn [seq map run_cbs cb_step]. rewrite (H a) by lia.
    rewrite IH.
    + cbn [app]. f_equal. f_equal. destruct t; unfold set_subs_done; cbn. f_equal. lia.
    + intros k Hk. change (sub_raises t k = false). apply H. lia.
Qed.

Definition handler_temp (o : outcome) : tempstate :=
  match o with Ok => TRenamed | _ => TRemoved end.

Definition handler_evs_o (o : outcome) : list ev :=
  match o with
  | Ok => [EvRename]
  | OkRenameFail => [EvRenameFail; EvRemove]
  | Err | Cancelled => [EvRemove]
  end.

Definition uses_handler (wh : bool) (t : transfer) : bool :=
  wh && match t_kind t with DownloadPath => true | _ => false end.

Definition sub_evs (t : transfer) : list ev := map EvSubDone (seq 0 (t_nsubs t)).
Definition tail_evs (t : transfer) : list ev :=
  if t_raises t then [] else [EvRelease; EvAfter].

(** Closed form of run_on_done. *)
Definition done_transfer (wh : bool) (o : outcome) (t : transfer) : transfer :=
  mkT (t_id t) (t_kind t) (t_nsubs t) (t_raises t) (t_qfail t) (t_registered t) (t_exc t) (t_crt t)
      true (t_subs_done t + t_nsubs t)
      (if t_raises t then t_releases t else S (t_releases t))
      (if t_raises t then t_after t else true)
      (if uses_handler wh t then handler_temp o else t_temp t).

Definition done_evs (wh : bool) (o : outcome) (t : transfer) : list ev :=
  (if uses_handler wh t then handler_evs_o o else []) ++ sub_evs t ++ tail_evs t.

Lemma run_before_calls : forall wh o t,
  run_cbs o (before_calls wh t) t =
  (if uses_handler wh t then set_temp t (handler_temp o) else t,
   if uses_handler wh t then handler_evs_o o else [], false).
Proof.
  intros wh o t. unfold before_calls, uses_handler.
  destruct wh; cbn [andb]; [|reflexivity].
  destruct (t_kind t); cbn; try reflexivity.
  destruct o; reflexivity.
Qed.

Lemma run_subs_after : forall o t, (t_raises t = true -> t_nsubs t <> 0%nat) ->
  run_cbs o (sub_calls t ++ after_calls) t =
  (mkT (t_id t) (t_kind t) (t_nsubs t) (t_raises t) (t_qfail t) (t_registered t) (t_exc t) (t_crt t)
       (t_on_done_ran t) (t_subs_done t + t_nsubs t)
       (if t_raises t then t_releases t else S (t_releases t))
       (if t_raises t then t_after t else true) (t_temp t),
   sub_evs t ++ tail_evs t, t_raises t).
Proof.
  intros o t Hr. unfold sub_calls, sub_evs, tail_evs.
  destruct (t_raises t) eqn:Er.
  - specialize (Hr eq_refl). destruct (t_nsubs t) as [|m] eqn:En; [congruence|].
    rewrite seq_S, map_app, <- app_assoc, run_cbs_app. cbn [Nat.add map].
    rewrite run_subs_noraise.
    + cbn [app run_cbs cb_step]. unfold sub_raises at 1. cbn [t_raises t_nsubs set_subs_done].
      rewrite Er, En, Nat.eqb_refl. cbn [andb].
      rewrite map_app, app_nil_r. cbn [Nat.add map].
      f_equal. f_equal. destruct t; unfold set_subs_done; cbn in *. subst. f_equal. lia.
    + intros k Hk. unfold sub_raises. rewrite Er, En. cbn [andb].
      apply Nat.eqb_neq. lia.
  - rewrite run_cbs_app, run_subs_noraise.
    + cbn. f_equal. f_equal. destruct t; unfold set_subs_done, set_after, set_releases; cbn in *. subst. reflexivity.
    + intros k Hk. unfold sub_raises. now rewrite Er.
Qed.

Lemma run_on_done_eq : forall wh o t, (t_raises t = true -> t_nsubs t <> 0%nat) ->
  run_on_done wh o t = (done_transfer wh o t, done_evs wh o t, t_raises t).
Proof.
  intros wh o t Hr. unfold run_on_done, on_done_calls.
  rewrite run_cbs_app.
  change (before_calls wh t) with (before_calls wh (set_on_done_ran t true)).
  rewrite run_before_calls.
  change (uses_handler wh (set_on_done_ran t true)) with (uses_handler wh t).
  destruct (uses_handler wh t) eqn:Eu.
  - change (sub_calls t) with (sub_calls (set_temp (set_on_done_ran t true) (handler_temp o))).
    rewrite run_subs_after by exact Hr. cbn.
    unfold done_transfer, done_evs. rewrite Eu. reflexivity.
  - change (sub_calls t) with (sub_calls (set_on_done_ran t true)).
    rewrite run_subs_after by exact Hr. cbn.
    unfold done_transfer, done_evs. rewrite Eu. reflexivity.
Qed.

(** * Well-formed transfer records and the canonical event sequence *)

Definition expected_temp (t : transfer) : tempstate :=
  match t_kind t with
  | DownloadPath =>
      if t_exc t then TAbsent
      else if t_on_done_ran t
           then match t_crt t with Some Ok => TRenamed | _ => TRemoved end
           else TTemp
  | _ => TAbsent
  end.

Definition handler_evs (t : transfer) : list ev :=
  if t_exc t then []
  else match t_kind t with
       | DownloadPath =>
           match t_crt t with
           | Some o => handler_evs_o o
           | None => []
           end
       | _ => []
       end.

(** What the log must contain about one transfer, in this order. *)
Definition canon (t : transfer) : list ev :=
  EvAcquire :: queued_part t ++
  (if t_on_done_ran t then handler_evs t ++ sub_evs t ++ tail_evs t else []).

Record wf (t : transfer) : Prop := {
  wf_rel : t_releases t = if t_after t then 1%nat else 0%nat;
  wf_after : t_after t = t_on_done_ran t && negb (t_raises t);
  wf_subs : t_subs_done t = if t_on_done_ran t then t_nsubs t else 0%nat;
  wf_ran1 : t_exc t = true -> t_on_done_ran t = true;
  wf_ran2 : t_on_done_ran t = true -> t_exc t = false -> is_some (t_crt t) = true;
  wf_reg : t_registered t = negb (t_exc t && t_raises t);
  wf_raises : t_raises t = true -> t_nsubs t <> 0%nat;
  wf_temp : t_temp t = expected_temp t;
  wf_norm : t_crt t = Some OkRenameFail -> t_kind t = DownloadPath;
  wf_exc : t_exc t = true -> t_crt t = None;
  wf_qfail : t_qfail t = true -> t_exc t = true /\ t_nsubs t <> 0%nat }.

Lemma norm_raises_nsubs : forall n r, norm_raises n r = true -> n <> 0%nat.
Proof.
  intros n r H. unfold norm_raises in H. apply andb_prop in H. destruct H as [_ H].
  destruct n; [discriminate|lia].
Qed.

Lemma norm_qfail_nsubs : forall n f, norm_qfail n f = true -> n <> 0%nat.
Proof.
  intros n f H. destruct f; cbn in H; try discriminate. destruct n; [discriminate|lia].
Qed.

Lemma sem_delta_app : forall a b, sem_delta (a ++ b) = sem_delta a + sem_delta b.
Proof. induction a as [|e r IH]; intros b; cbn [app sem_delta]; [lia|]. rewrite IH. lia. Qed.

Lemma sem_delta_map0 : forall (f : nat -> ev) l,
  (forall k, sem_delta1 (f k) = 0) -> sem_delta (map f l) = 0.
Proof.
  intros f l H. induction l as [|k r IH]; cbn [map sem_delta]; [reflexivity|].
  rewrite H, IH. reflexivity.
Qed.

Lemma sem_delta_queued : forall n, sem_delta (queued_evs n) = 0.
Proof. intros. apply sem_delta_map0. reflexivity. Qed.

Lemma sem_delta_queued_part : forall t, sem_delta (queued_part t) = 0.
Proof.
  intros t. unfold queued_part. destruct (t_qfail t); [reflexivity|apply sem_delta_queued].
Qed.

Lemma sem_delta_done_evs : forall wh o t,
  sem_delta (done_evs wh o t) = if t_raises t then 0 else 1.
Proof.
  intros wh o t. unfold done_evs, sub_evs, tail_evs.
  rewrite !sem_delta_app, (sem_delta_map0 EvSubDone) by reflexivity.
  assert (H : sem_delta (if uses_handler wh t then handler_evs_o o else []) = 0).
  { destruct (uses_handler wh t); [destruct o|]; reflexivity. }
  rewrite H. destruct (t_raises t); reflexivity.
Qed.

(** A fresh submission whose construction failed (at any of the three points). *)
Lemma wf_failed : forall id k n r q, (q = true -> n <> 0%nat) ->
  let t0 := set_exc (new_transfer id k n r q) true in
  wf (set_registered (done_transfer false Err t0) (negb (t_raises t0))) /\
  canon (done_transfer false Err t0) =
    (EvAcquire :: queued_part t0) ++ done_evs false Err t0.
Proof.
  intros id k n r q Hq t0. split.
  - pose proof (norm_raises_nsubs n r) as Hn.
    subst t0. unfold new_transfer, set_exc, set_registered, done_transfer in *. cbn in *.
    destruct (norm_raises n r) eqn:E; constructor; cbn; try rewrite E; cbn;
      try reflexivity; try congruence; try (destruct k; reflexivity); try lia;
      try (intros; reflexivity); try (intros; discriminate);
      try (intros Eq; split; [reflexivity|now apply Hq]).
  - subst t0. unfold canon, done_evs, handler_evs, queued_part. cbn. reflexivity.
Qed.

Lemma wf_fresh : forall id k n r,
  let t1 := set_temp (set_registered (new_transfer id k n r false) true)
                     (match k with DownloadPath => TTemp | _ => TAbsent end) in
  wf t1 /\ canon t1 = EvAcquire :: queued_evs n.
Proof.
  intros id k n r t1. split.
  - subst t1. constructor; cbn; try reflexivity; try discriminate.
    + apply norm_raises_nsubs.
  - subst t1. unfold canon, queued_part. cbn. now rewrite app_nil_r.
Qed.

Lemma pending_fields : forall t, wf t -> has_pending_request t = true ->
  t_exc t = false /\ t_crt t = None /\ t_on_done_ran t = false.
Proof.
  intros t Hw Hp. unfold has_pending_request in Hp. apply andb_prop in Hp. destruct Hp as [He Hc].
  apply negb_true_iff in He. apply negb_true_iff in Hc.
  destruct (t_crt t) as [oc|] eqn:Ec; [discriminate|].
  split; [exact He|]. split; [reflexivity|].
  destruct (t_on_done_ran t) eqn:Er; [|reflexivity].
  pose proof (wf_ran2 t Hw Er He) as X. rewrite Ec in X. discriminate.
Qed.

(** The CRT resolves the finished_future of a pending request. *)
Lemma wf_resolved : forall t o, wf t -> has_pending_request t = true ->
  let t1 := set_crt t (Some (norm_outcome (t_kind t) o)) in
  wf t1 /\ canon t1 = canon t /\ t_releases t1 = t_releases t.
Proof.
  intros t o Hw Hp t1. destruct (pending_fields t Hw Hp) as [He [Ec Er]].
  destruct Hw as [H1 H2 H3 H4 H4' H5 H6 H7 H8 H9 H10].
  split; [|split; [|reflexivity]].
  - subst t1. unfold set_crt. constructor; cbn; try assumption.
    + intros _ _. reflexivity.
    + rewrite H7. unfold expected_temp. cbn. rewrite He, Er. reflexivity.
    + intros E. destruct (t_kind t), o; cbn in E; try discriminate; reflexivity.
    + rewrite He. discriminate.
  - subst t1. unfold canon, set_crt, queued_part. cbn. rewrite Er. reflexivity.
Qed.

(** on_done of a resolved request is delivered. *)
Lemma wf_delivered : forall t o, wf t -> t_crt t = Some o -> t_on_done_ran t = false ->
  wf (done_transfer true o t) /\
  canon (done_transfer true o t) = canon t ++ done_evs true o t /\
  t_releases t = 0%nat.
Proof.
  intros t o [H1 H2 H3 H4 H4' H5 H6 H7 H8 H9 H10] Ec Er.
  assert (He : t_exc t = false).
  { destruct (t_exc t) eqn:E; [|reflexivity]. rewrite (H4 eq_refl) in Er. discriminate. }
  rewrite Er in H2. cbn in H2. rewrite H2 in H1. rewrite Er in H3.
  split; [|split; [|exact H1]].
  - unfold done_transfer, uses_handler. cbn.
    constructor; cbn; rewrite ?He, ?H1, ?H2, ?H3, ?Ec; cbn.
    + destruct (t_raises t); reflexivity.
    + destruct (t_raises t); reflexivity.
    + reflexivity.
    + discriminate.
    + reflexivity.
    + rewrite H5, He. reflexivity.
    + exact H6.
    + unfold expected_temp. cbn. rewrite ?He, ?Ec.
      unfold expected_temp in H7. rewrite ?He, ?Er in H7.
      destruct (t_kind t); cbn; try exact H7. destruct o; reflexivity.
    + intros E. apply H8. rewrite Ec. exact E.
    + discriminate.
    + intros E. destruct (H10 E) as [X _]. congruence.
  - unfold canon, done_evs, handler_evs, uses_handler, done_transfer, sub_evs, tail_evs, queued_part.
    cbn. rewrite He, Er, Ec. rewrite app_nil_r.
    destruct (t_kind t); reflexivity.
Qed.

(** * The invariant *)

Record Inv (N : Z) (s : state) : Prop := {
  inv_sem : permits s + Z.of_nat (length (transfers s)) - Z.of_nat (sum_rel (transfers s)) = N;
  inv_nonneg : 0 <= permits s;
  inv_wf : Forall wf (transfers s);
  inv_log : forall i t, nth_error (transfers s) i = Some t -> proj i (log s) = canon t;
  inv_idx : forall i e, In (i, e) (log s) -> (i < length (transfers s))%nat }.

Lemma inv_init : forall N, 0 <= N -> Inv N (init N).
Proof.
  intros N HN. constructor; cbn; try lia.
  - constructor.
  - intros [|i] t H; discriminate.
Qed.

Lemma inv_wf_nth : forall N s i t, Inv N s -> nth_error (transfers s) i = Some t -> wf t.
Proof.
  intros N s i t HI Hn. pose proof (inv_wf N s HI) as HF. rewrite Forall_forall in HF.
  apply HF. eapply nth_error_In. exact Hn.
Qed.

(** Appending transfer [t1] whose events [evs] are its canonical ones. *)
Lemma inv_append : forall N s t1 evs nid,
  Inv N s -> wf t1 -> canon t1 = evs ->
  0 <= permits s + sem_delta evs ->
  sem_delta evs = Z.of_nat (t_releases t1) - 1 ->
  Inv N (mkS (permits s + sem_delta evs) nid (transfers s ++ [t1])
             (log s ++ tag (length (transfers s)) evs)).
Proof.
  intros N s t1 evs nid [I1 I2 I3 I4 I5] Hwf Hc Hnn Hd.
  constructor; cbn [permits transfers log].
  - rewrite app_length, sum_rel_app. cbn. lia.
  - exact Hnn.
  - apply Forall_app. split; [exact I3|]. constructor; [exact Hwf|constructor].
  - intros i t Hn. rewrite proj_app.
    apply nth_error_app_last in Hn. destruct Hn as [[Hlt Hn]|[-> ->]].
    + rewrite (I4 i t Hn), proj_tag_other by lia. apply app_nil_r.
    + rewrite proj_tag_same, proj_none; [now rewrite Hc|].
      intros e He. apply I5 in He. lia.
  - intros i e Hin. rewrite app_length. cbn. apply in_app_or in Hin.
    destruct Hin as [Hin|Hin]; [apply I5 in Hin; lia|]. apply In_tag in Hin. lia.
Qed.

Lemma inv_submit : forall N s k n r f, Inv N s -> Inv N (fst (submit k n r f s)).
Proof.
  intros N s k n r f HI. unfold submit.
  destruct (permits s <=? 0) eqn:Ep; [exact HI|]. apply Z.leb_gt in Ep.
  destruct (is_fail f) eqn:Ef.
  - rewrite run_on_done_eq by (cbn; apply norm_raises_nsubs).
    destruct (wf_failed (next_id s) k n r (norm_qfail n f) (norm_qfail_nsubs n f)) as [Hwf Hc].
    cbn [t_raises set_exc new_transfer] in *.
    set (t0 := set_exc (new_transfer (next_id s) k n r (norm_qfail n f)) true) in *.
    assert (Hd : sem_delta ((EvAcquire :: queued_part t0) ++ done_evs false Err t0) =
                 (if norm_raises n r then 0 else 1) - 1).
    { rewrite sem_delta_app, sem_delta_done_evs. cbn [sem_delta sem_delta1].
      rewrite sem_delta_queued_part. subst t0. cbn. destruct (norm_raises n r); lia. }
    change (queued_part (new_transfer (next_id s) k n r (norm_qfail n f))) with (queued_part t0).
    destruct (norm_raises n r) eqn:Er; cbn [fst negb] in *.
    + apply inv_append; try assumption.
      * rewrite Hd. lia.
      * rewrite Hd. subst t0. cbn. rewrite Er. reflexivity.
    + apply inv_append; try assumption.
      * rewrite Hd. lia.
      * rewrite Hd. subst t0. cbn. rewrite Er. reflexivity.
  - assert (Eq : norm_qfail n f = false) by (destruct f; try discriminate; reflexivity).
    rewrite Eq. cbn [fst]. destruct (wf_fresh (next_id s) k n r) as [Hwf Hc].
    change (queued_part (new_transfer (next_id s) k n r false)) with (queued_evs n).
    assert (Hd : sem_delta (EvAcquire :: queued_evs n) = -1).
    { cbn [sem_delta sem_delta1]. rewrite sem_delta_queued. reflexivity. }
    apply inv_append; try assumption.
    rewrite Hd. lia.
Qed.

Lemma inv_resolve : forall N s i o, Inv N s -> Inv N (fst (resolve i o s)).
Proof.
  intros N s i o HI. unfold resolve.
  destruct (nth_error (transfers s) i) as [t|] eqn:En; [|exact HI].
  destruct (has_pending_request t) eqn:Hp; [|exact HI].
  pose proof (inv_wf_nth N s i t HI En) as Hwt.
  destruct (wf_resolved t o Hwt Hp) as [Hwf [Hc Hr]].
  destruct HI as [I1 I2 I3 I4 I5]. cbn [fst].
  assert (Hlt : (i < length (transfers s))%nat) by (apply nth_error_Some; congruence).
  pose proof (sum_rel_set_nth i t (set_crt t (Some (norm_outcome (t_kind t) o))) (transfers s) En) as Hs.
  rewrite Hr in Hs.
  constructor; cbn [permits transfers log].
  - rewrite set_nth_length. lia.
  - exact I2.
  - apply Forall_set_nth; assumption.
  - intros j tj Hn. destruct (Nat.eq_dec i j) as [<-|Hne].
    + rewrite nth_error_set_nth_eq in Hn by exact Hlt. injection Hn as <-.
      rewrite (I4 i t En). symmetry. exact Hc.
    + rewrite nth_error_set_nth_neq in Hn by exact Hne. now apply I4.
  - intros j e Hin. rewrite set_nth_length. now apply I5 in Hin.
Qed.

Lemma inv_deliver : forall N s i, Inv N s -> Inv N (fst (deliver i s)).
Proof.
  intros N s i HI. unfold deliver.
  destruct (nth_error (transfers s) i) as [t|] eqn:En; [|exact HI].
  destruct (t_crt t) as [o|] eqn:Ec; [|exact HI].
  destruct (t_on_done_ran t) eqn:Er; [exact HI|].
  pose proof (inv_wf_nth N s i t HI En) as Hwt.
  destruct HI as [I1 I2 I3 I4 I5].
  rewrite run_on_done_eq by (apply (wf_raises t Hwt)).
  destruct (wf_delivered t o Hwt Ec Er) as [Hwf [Hc Hr0]].
  cbn [fst].
  assert (Hlt : (i < length (transfers s))%nat) by (apply nth_error_Some; congruence).
  pose proof (sum_rel_set_nth i t (done_transfer true o t) (transfers s) En) as Hs.
  assert (Hrel : t_releases (done_transfer true o t) =
                 if t_raises t then 0%nat else 1%nat).
  { unfold done_transfer. cbn. rewrite Hr0. reflexivity. }
  assert (Hd : sem_delta (done_evs true o t) = if t_raises t then 0 else 1).
  { apply sem_delta_done_evs. }
  constructor; cbn [permits transfers log].
  - rewrite set_nth_length. rewrite Hd. rewrite Hrel in Hs.
    destruct (t_raises t); lia.
  - rewrite Hd. destruct (t_raises t); lia.
  - apply Forall_set_nth; assumption.
  - intros j tj Hn. rewrite proj_app. destruct (Nat.eq_dec i j) as [<-|Hne].
    + rewrite nth_error_set_nth_eq in Hn by exact Hlt. injection Hn as <-.
      rewrite proj_tag_same, (I4 i t En). symmetry. exact Hc.
    + rewrite nth_error_set_nth_neq in Hn by exact Hne.
      rewrite (I4 j tj Hn), proj_tag_other by congruence. apply app_nil_r.
  - intros j e Hin. rewrite set_nth_length. apply in_app_or in Hin.
    destruct Hin as [Hin|Hin]; [now apply I5 in Hin|]. apply In_tag in Hin. lia.
Qed.

Lemma inv_complete : forall N s i o, Inv N s -> Inv N (fst (complete i o s)).
Proof.
  intros N s i o HI. unfold complete.
  pose proof (inv_resolve N s i o HI) as H1.
  destruct (resolve i o s) as [s1 r]. cbn [fst] in H1.
  destruct r; try exact H1. now apply inv_deliver.
Qed.

Lemma inv_cancel_one : forall N s i, Inv N s -> Inv N (cancel_one s i).
Proof.
  intros N s i HI. unfold cancel_one.
  destruct (nth_error (transfers s) i) as [t|]; [|exact HI].
  destruct (cancellable t); [|exact HI]. now apply inv_complete.
Qed.

Lemma inv_fold_cancel : forall N l s, Inv N s -> Inv N (fold_left cancel_one l s).
Proof.
  intros N l. induction l as [|i r IH]; intros s HI; cbn; [exact HI|].
  apply IH. now apply inv_cancel_one.
Qed.

Lemma inv_cancel_all : forall N s, Inv N s -> Inv N (cancel_all s).
Proof. intros. unfold cancel_all. now apply inv_fold_cancel. Qed.

Lemma shutdown_state : forall c s,
  fst (shutdown c s) = if c then cancel_all s else s.
Proof.
  intros c s. unfold shutdown.
  destruct (finish_scan _); try reflexivity; destruct (wait_blocks _); reflexivity.
Qed.

Lemma inv_shutdown : forall N s c, Inv N s -> Inv N (fst (shutdown c s)).
Proof.
  intros N s c HI. rewrite shutdown_state. destruct c; [now apply inv_cancel_all|exact HI].
Qed.

Lemma inv_step : forall N s o, Inv N s -> Inv N (fst (step s o)).
Proof.
  intros N s [k n r f|i oc|i oc|i|c] HI; cbn [step].
  - now apply inv_submit.
  - now apply inv_complete.
  - now apply inv_resolve.
  - now apply inv_deliver.
  - now apply inv_shutdown.
Qed.

Lemma inv_run : forall N ops s, Inv N s -> Inv N (run s ops).
Proof.
  intros N ops. unfold run. induction ops as [|o r IH]; intros s HI; cbn; [exact HI|].
  apply IH. now apply inv_step.
Qed.

Definition Reachable (N : Z) (s : state) : Prop := exists ops, s = run (init N) ops.

Lemma reachable_inv : forall N s, 0 <= N -> Reachable N s -> Inv N s.
Proof. intros N s HN [ops ->]. apply inv_run. now apply inv_init. Qed.

(** * Permit conservation *)

Lemma wf_rel_le1 : forall t, wf t -> (t_releases t <= 1)%nat.
Proof. intros t H. rewrite (wf_rel t H). destruct (t_after t); lia. Qed.

Lemma holding_sum : forall ts, Forall wf ts -> (holding ts + sum_rel ts = length ts)%nat.
Proof.
  intros ts H. unfold holding. induction H as [|t r Ht Hr IH]; cbn; [reflexivity|].
  pose proof (wf_rel_le1 t Ht) as Hle.
  destruct (t_releases t) as [|[|k]] eqn:E; cbn; lia.
Qed.

Lemma inv_conservation : forall N s, Inv N s ->
  permits s + Z.of_nat (holding (transfers s)) = N /\ 0 <= permits s <= N.
Proof.
  intros N s [I1 I2 I3 _ _]. pose proof (holding_sum _ I3) as H. split; lia.
Qed.

(** * Exactly one release per transfer *)

Lemma ev_eq_dec : forall a b : ev, {a = b} + {a <> b}.
Proof. decide equality; apply Nat.eq_dec. Defined.

Definition count (e : ev) (l : list ev) : nat := count_occ ev_eq_dec l e.

Lemma count_app : forall e a b, count e (a ++ b) = (count e a + count e b)%nat.
Proof. intros. unfold count. apply count_occ_app. Qed.

Lemma count_map0 : forall e (f : nat -> ev) l, (forall k, f k <> e) -> count e (map f l) = 0%nat.
Proof.
  intros e f l H. unfold count. induction l as [|k r IH]; cbn; [reflexivity|].
  destruct (ev_eq_dec (f k) e) as [E|_]; [now apply H in E|exact IH].
Qed.

Lemma count_queued_part : forall e t, (forall k, EvQueued k <> e) -> count e (queued_part t) = 0%nat.
Proof.
  intros e t H. unfold queued_part. destruct (t_qfail t).
  - apply (count_map0 e EvQueued [0%nat] H).
  - apply count_map0. exact H.
Qed.

Lemma count_canon : forall e t,
  (forall k, EvQueued k <> e) -> (forall k, EvSubDone k <> e) ->
  count e (canon t) =
  (count e [EvAcquire] +
   if t_on_done_ran t then count e (handler_evs t) + count e (tail_evs t) else 0)%nat.
Proof.
  intros e t Hq Hs. unfold canon.
  change (EvAcquire :: queued_part t ++ ?x) with ([EvAcquire] ++ queued_part t ++ x).
  rewrite !count_app. rewrite (count_queued_part e t Hq).
  destruct (t_on_done_ran t).
  - rewrite !count_app. unfold sub_evs. rewrite (count_map0 e EvSubDone) by exact Hs. lia.
  - cbn. lia.
Qed.

Lemma count_handler_release : forall t,
  count EvRelease (handler_evs t) = 0%nat /\ count EvAcquire (handler_evs t) = 0%nat /\
  count EvAfter (handler_evs t) = 0%nat.
Proof.
  intros t. unfold handler_evs.
  destruct (t_exc t); [repeat split; reflexivity|].
  destruct (t_kind t); try (repeat split; reflexivity).
  destruct (t_crt t) as [[]|]; repeat split; reflexivity.
Qed.

Lemma wf_release_count : forall t, wf t ->
  count EvRelease (canon t) = t_releases t /\
  count EvAcquire (canon t) = 1%nat /\
  count EvAfter (canon t) = (if t_after t then 1 else 0)%nat.
Proof.
  intros t H. destruct (count_handler_release t) as [H1 [H2 H3]].
  rewrite !count_canon by (intros; discriminate). rewrite H1, H2, H3.
  rewrite (wf_rel t H), (wf_after t H). unfold tail_evs.
  destruct (t_on_done_ran t), (t_raises t); repeat split; reflexivity.
Qed.

Lemma inv_one_release : forall N s i t, Inv N s -> nth_error (transfers s) i = Some t ->
  count EvRelease (proj i (log s)) = t_releases t /\
  count EvAcquire (proj i (log s)) = 1%nat /\
  (t_releases t <= 1)%nat /\
  (t_on_done_ran t = false -> t_releases t = 0%nat) /\
  (t_on_done_ran t = true -> t_raises t = false -> t_releases t = 1%nat) /\
  (t_on_done_ran t = true -> t_raises t = true -> t_releases t = 0%nat) /\
  (t_exc t = true -> t_on_done_ran t = true) /\
  (t_on_done_ran t = true -> t_exc t = true \/ exists o, t_crt t = Some o).
Proof.
  intros N s i t HI Hn. pose proof (inv_log N s HI i t Hn) as Hl.
  pose proof (inv_wf_nth N s i t HI Hn) as Hw.
  destruct (wf_release_count t Hw) as [C1 [C2 _]]. rewrite Hl.
  split; [exact C1|]. split; [exact C2|]. split; [now apply wf_rel_le1|].
  pose proof (wf_rel t Hw) as R. pose proof (wf_after t Hw) as A.
  repeat split.
  - intros E. rewrite E in A. cbn in A. now rewrite A in R.
  - intros E1 E2. rewrite E1, E2 in A. cbn in A. now rewrite A in R.
  - intros E1 E2. rewrite E1, E2 in A. cbn in A. now rewrite A in R.
  - apply (wf_ran1 t Hw).
  - intros E. destruct (t_exc t) eqn:Ee; [now left|]. right.
    pose proof (wf_ran2 t Hw E Ee) as Q.
    destruct (t_crt t) as [o|]; [now exists o|discriminate].
Qed.

(** * Order of the done callbacks *)

Definition handler_final (t : transfer) : ev :=
  match t_crt t with Some Ok => EvRename | _ => EvRemove end.

Lemma notin_map : forall (f : nat -> ev) b l, (forall k, f k <> b) -> ~ In b (map f l).
Proof.
  intros f b l H Hin. apply in_map_iff in Hin. destruct Hin as [k [E _]]. now apply H in E.
Qed.

Lemma precedes_cons_other : forall A (a b c : A) l, c <> b ->
  precedes a b l -> precedes a b (c :: l).
Proof.
  intros A a b c l Hne H l1 l2 E. destruct l1 as [|x l1']; cbn in E.
  - injection E as E _. congruence.
  - injection E as -> E. right. now apply (H l1' l2).
Qed.

Lemma precedes_tail : forall t, precedes EvRelease EvAfter (tail_evs t).
Proof.
  intros t. unfold tail_evs. destruct (t_raises t).
  - apply precedes_notin. intros [].
  - intros l1 l2 E. destruct l1 as [|x [|y l1']]; cbn in E; try discriminate.
    + injection E as -> _. now left.
    + injection E as _ _ E. destruct l1'; discriminate.
Qed.

Lemma canon_order : forall t, wf t ->
  (forall k, (k < t_nsubs t)%nat ->
     precedes (EvSubDone k) EvRelease (canon t) /\ precedes (EvSubDone k) EvAfter (canon t)) /\
  precedes EvRelease EvAfter (canon t) /\
  (t_kind t = DownloadPath -> t_exc t = false ->
     (forall k, precedes (handler_final t) (EvSubDone k) (canon t)) /\
     precedes (handler_final t) EvRelease (canon t) /\
     precedes (handler_final t) EvAfter (canon t)).
Proof.
  intros t Hw. unfold canon.
  assert (Hq : forall b, (forall k, EvQueued k <> b) -> ~ In b (queued_part t)).
  { intros b Hb. unfold queued_part. destruct (t_qfail t).
    - apply (notin_map EvQueued b [0%nat] Hb).
    - apply notin_map. exact Hb. }
  assert (Hs : forall b, (forall k, EvSubDone k <> b) -> ~ In b (sub_evs t)).
  { intros b Hb. apply notin_map. exact Hb. }
  assert (Hh : forall b, b = EvRelease \/ b = EvAfter \/ (exists k, b = EvSubDone k) ->
               ~ In b (handler_evs t)).
  { intros b Hb Hin. unfold handler_evs in Hin. destruct (t_exc t); [easy|].
    destruct (t_kind t); try easy. destruct (t_crt t) as [[]|]; cbn in Hin;
      destruct Hb as [->|[->|[k ->]]]; intuition discriminate. }
  assert (Hpre : forall a b D, b <> EvAcquire -> (forall k, EvQueued k <> b) ->
            precedes a b D -> precedes a b (EvAcquire :: queued_part t ++ D)).
  { intros a b D H1 H2 HD. apply precedes_cons_other; [congruence|].
    apply precedes_app; [apply precedes_notin, Hq, H2|now left]. }
  destruct (t_on_done_ran t) eqn:Er.
  2:{ repeat split; intros; apply Hpre; try discriminate; apply precedes_notin; intros []. }
  split; [|split].
  - intros k Hk.
    assert (Hin : In (EvSubDone k) (sub_evs t)).
    { unfold sub_evs. apply in_map. apply in_seq. lia. }
    split; apply Hpre; try discriminate.
    + apply precedes_app; [apply precedes_notin, Hh; auto|left].
      apply precedes_app; [apply precedes_notin, Hs; discriminate|now right].
    + apply precedes_app; [apply precedes_notin, Hh; auto|left].
      apply precedes_app; [apply precedes_notin, Hs; discriminate|now right].
  - apply Hpre; try discriminate.
    apply precedes_app; [apply precedes_notin, Hh; auto|left].
    apply precedes_app; [apply precedes_notin, Hs; discriminate|left]. apply precedes_tail.
  - intros Hk He.
    assert (Hin : In (handler_final t) (handler_evs t)).
    { pose proof (wf_ran2 t Hw Er He) as Q.
      unfold handler_evs, handler_final. rewrite He, Hk.
      destruct (t_crt t) as [[]|]; cbn; try discriminate; auto. }
    repeat split; intros; (apply Hpre; try discriminate);
      (apply precedes_app; [apply precedes_notin, Hh; eauto|now right]).
Qed.

Lemma inv_order : forall N s i t, Inv N s -> nth_error (transfers s) i = Some t ->
  (forall k, (k < t_nsubs t)%nat ->
     precedes (i, EvSubDone k) (i, EvRelease) (log s) /\
     precedes (i, EvSubDone k) (i, EvAfter) (log s)) /\
  precedes (i, EvRelease) (i, EvAfter) (log s) /\
  (t_kind t = DownloadPath -> t_exc t = false ->
     (forall k, precedes (i, handler_final t) (i, EvSubDone k) (log s)) /\
     precedes (i, handler_final t) (i, EvRelease) (log s) /\
     precedes (i, handler_final t) (i, EvAfter) (log s)).
Proof.
  intros N s i t HI Hn. pose proof (inv_log N s HI i t Hn) as Hl.
  pose proof (inv_wf_nth N s i t HI Hn) as Hw.
  destruct (canon_order t Hw) as [H1 [H2 H3]]. rewrite <- Hl in H1, H2, H3.
  split; [|split].
  - intros k Hk. destruct (H1 k Hk). split; now apply precedes_proj.
  - now apply precedes_proj.
  - intros Hk He. destruct (H3 Hk He) as [A [B C]].
    split; [|split]; intros; now apply precedes_proj.
Qed.

(** * Publish or remove *)

Lemma inv_publish_or_remove : forall N s i t, Inv N s -> nth_error (transfers s) i = Some t ->
  let p := proj i (log s) in
  (t_kind t = DownloadPath -> t_exc t = false ->
     if t_on_done_ran t then
       match t_crt t with
       | Some Ok => t_temp t = TRenamed /\ count EvRename p = 1%nat /\ count EvRemove p = 0%nat
       | Some _ => t_temp t = TRemoved /\ count EvRename p = 0%nat /\ count EvRemove p = 1%nat
       | None => False
       end
     else t_temp t = TTemp /\ count EvRename p = 0%nat /\ count EvRemove p = 0%nat) /\
  ((t_kind t <> DownloadPath \/ t_exc t = true) ->
     t_temp t = TAbsent /\ count EvRename p = 0%nat /\ count EvRemove p = 0%nat).
Proof.
  intros N s i t HI Hn p. subst p. rewrite (inv_log N s HI i t Hn).
  pose proof (inv_wf_nth N s i t HI Hn) as Hw.
  rewrite !count_canon by (intros; discriminate).
  pose proof (wf_temp t Hw) as T. pose proof (wf_ran2 t Hw) as Q. pose proof (wf_exc t Hw) as X.
  unfold expected_temp in T. unfold handler_evs, tail_evs.
  split.
  - intros Hk He. rewrite Hk, He in *.
    destruct (t_on_done_ran t).
    + specialize (Q eq_refl eq_refl).
      destruct (t_crt t) as [[]|]; cbn in *; try discriminate; destruct (t_raises t); cbn; auto.
    + cbn. auto.
  - intros [Hk|He].
    + destruct (t_kind t); try congruence;
        destruct (t_exc t), (t_on_done_ran t), (t_raises t); cbn; auto.
    + rewrite He in *. destruct (t_kind t), (t_on_done_ran t), (t_raises t); cbn; auto.
Qed.

(** * Shutdown *)

Lemma wait_blocks_false : forall ts, wait_blocks ts = false ->
  forall t, In t ts -> t_registered t = true -> t_after t = true.
Proof.
  intros ts H t Hin Hr. unfold wait_blocks in H.
  destruct (t_after t) eqn:Ea; [reflexivity|]. exfalso.
  assert (E : existsb (fun t => t_registered t && negb (t_after t)) ts = true).
  { apply existsb_exists. exists t. split; [exact Hin|]. now rewrite Hr, Ea. }
  congruence.
Qed.

Lemma wait_blocks_true : forall ts, wait_blocks ts = true ->
  exists t, In t ts /\ t_registered t = true /\ t_after t = false.
Proof.
  intros ts H. apply existsb_exists in H. destruct H as [t [Hin H]].
  apply andb_prop in H. destruct H as [H1 H2]. apply negb_true_iff in H2. eauto.
Qed.

Lemma finish_blocks_wait_blocks : forall ts, Forall wf ts ->
  finish_scan ts = FinBlocks -> wait_blocks ts = true.
Proof.
  intros ts H. induction H as [|t r Ht Hr IH]; [discriminate|].
  intros E.
  change (wait_blocks (t :: r)) with ((t_registered t && negb (t_after t)) || wait_blocks r).
  cbn [finish_scan] in E.
  destruct (t_registered t) eqn:Eg; cbn [negb andb] in *.
  - destruct (t_exc t) eqn:Ee; [discriminate|].
    destruct (t_crt t) as [[]|] eqn:Ec; try discriminate.
    + rewrite (IH E). apply orb_true_r.
    + rewrite (IH E). apply orb_true_r.
    + pose proof (wf_after t Ht) as A.
      destruct (t_on_done_ran t) eqn:Er.
      * pose proof (wf_ran2 t Ht Er Ee) as Q. rewrite Ec in Q. discriminate.
      * cbn in A. rewrite A. reflexivity.
  - cbn [orb]. now apply IH.
Qed.

Lemma inv_shutdown_waits : forall N s c s' r, Inv N s -> shutdown c s = (s', r) ->
  (r = RReturned \/ r = RHang) /\
  (r = RReturned <->
   forall t, In t (transfers s') -> t_registered t = true -> t_after t = true) /\
  (r = RReturned -> forall t, In t (transfers s') -> t_registered t = true ->
     t_on_done_ran t = true /\ t_subs_done t = t_nsubs t /\ t_releases t = 1%nat /\
     t_temp t <> TTemp).
Proof.
  intros N s c s' r HI H.
  assert (HI' : Inv N s').
  { pose proof (inv_shutdown N s c HI) as X. now rewrite H in X. }
  pose proof (inv_wf N s' HI') as HF.
  assert (Hs : s' = if c then cancel_all s else s).
  { pose proof (shutdown_state c s) as X. now rewrite H in X. }
  unfold shutdown in H. rewrite <- Hs in H.
  assert (Hiff : r = RReturned <->
     forall t, In t (transfers s') -> t_registered t = true -> t_after t = true).
  { destruct (finish_scan (transfers s')) eqn:Ef.
    - destruct (wait_blocks (transfers s')) eqn:Ew; injection H as <-.
      + split; [discriminate|]. intros X. apply wait_blocks_true in Ew.
        destruct Ew as [t [A [B C]]]. rewrite (X t A B) in C. discriminate.
      + split; [|reflexivity]. intros _. now apply wait_blocks_false.
    - destruct (wait_blocks (transfers s')) eqn:Ew; injection H as <-.
      + split; [discriminate|]. intros X. apply wait_blocks_true in Ew.
        destruct Ew as [t [A [B C]]]. rewrite (X t A B) in C. discriminate.
      + split; [|reflexivity]. intros _. now apply wait_blocks_false.
    - injection H as <-. split; [discriminate|]. intros X.
      pose proof (finish_blocks_wait_blocks _ HF Ef) as Ew. apply wait_blocks_true in Ew.
      destruct Ew as [t [A [B C]]]. rewrite (X t A B) in C. discriminate. }
  split; [|split; [exact Hiff|]].
  - destruct (finish_scan (transfers s')); [destruct (wait_blocks _)|destruct (wait_blocks _)|];
      injection H as <-; auto.
  - intros Hr t Hin Hg. pose proof (proj1 Hiff Hr t Hin Hg) as Ha.
    rewrite Forall_forall in HF. pose proof (HF t Hin) as Hw.
    pose proof (wf_after t Hw) as A. rewrite Ha in A. symmetry in A.
    apply andb_prop in A. destruct A as [A1 A2].
    split; [exact A1|]. split; [rewrite (wf_subs t Hw), A1; reflexivity|].
    split; [rewrite (wf_rel t Hw), Ha; reflexivity|].
    rewrite (wf_temp t Hw). unfold expected_temp. rewrite A1.
    destruct (t_kind t); try discriminate. destruct (t_exc t); [discriminate|].
    destruct (t_crt t) as [[]|]; discriminate.
Qed.

(** * Blocking at zero permits *)

Lemma submit_blocks : forall s k n r f, permits s <= 0 ->
  submit k n r f s = (s, RWouldBlock).
Proof.
  intros s k n r f H. unfold submit. apply Z.leb_le in H. now rewrite H.
Qed.

Lemma submit_result : forall s k n r f s' res, submit k n r f s = (s', res) ->
  (res = RWouldBlock /\ s' = s /\ permits s <= 0) \/
  (res = RSubmitted /\ 0 < permits s /\
     length (transfers s') = S (length (transfers s))) \/
  (res = RRaised /\ 0 < permits s /\ is_fail f = true /\ norm_raises n r = true).
Proof.
  intros s k n r f s' res H. unfold submit in H.
  destruct (permits s <=? 0) eqn:Ep.
  - apply Z.leb_le in Ep. injection H as <- <-. auto.
  - apply Z.leb_gt in Ep. destruct (is_fail f) eqn:Ef.
    + rewrite run_on_done_eq in H by (cbn; apply norm_raises_nsubs).
      cbn [t_raises set_exc new_transfer] in H.
      destruct (norm_raises n r) eqn:Er; injection H as <- <-.
      * right. right. auto.
      * right. left. cbn. rewrite app_length. cbn. repeat split; [exact Ep|lia].
    + injection H as <- <-. right. left. cbn. rewrite app_length. cbn.
      repeat split; [exact Ep|lia].
Qed.

Lemma submit_ok_permits : forall s k n r, 0 < permits s ->
  permits (fst (submit k n r NoFail s)) = permits s - 1.
Proof.
  intros s k n r H. unfold submit. apply Z.leb_gt in H. rewrite H. cbn [is_fail fst permits].
  cbn [sem_delta sem_delta1]. rewrite sem_delta_queued_part. lia.
Qed.

Lemma fill_permits : forall k n r m s, Z.of_nat m <= permits s ->
  permits (run s (repeat (OSubmit k n r NoFail) m)) = permits s - Z.of_nat m.
Proof.
  intros k n r m. induction m as [|m IH]; intros s H; [cbn; lia|].
  cbn [repeat]. unfold run. cbn [fold_left step]. fold (run (fst (submit k n r NoFail s)) (repeat (OSubmit k n r NoFail) m)).
  rewrite IH; rewrite submit_ok_permits; lia.
Qed.

Lemma fill_then_blocks : forall N k n r, 0 <= N ->
  let s := run (init N) (repeat (OSubmit k n r NoFail) (Z.to_nat N)) in
  permits s = 0 /\ Z.of_nat (holding (transfers s)) = N /\
  forall k' n' r' f', submit k' n' r' f' s = (s, RWouldBlock).
Proof.
  intros N k n r HN s.
  assert (Hp : permits s = 0).
  { subst s. rewrite fill_permits; cbn [permits init]; lia. }
  assert (HI : Inv N s) by (apply inv_run; now apply inv_init).
  destruct (inv_conservation N s HI) as [C _].
  split; [exact Hp|]. split; [lia|]. intros. apply submit_blocks. lia.
Qed.

(** A construction failure at any of the three points, with well-behaved
    subscribers: a future is returned, the permit taken is back at once. *)
Lemma submit_failed_releases : forall s k n r f, 0 < permits s ->
  is_fail f = true -> norm_raises n r = false ->
  exists s', submit k n r f s = (s', RSubmitted) /\ permits s' = permits s /\
    exists t, nth_error (transfers s') (length (transfers s)) = Some t /\
      t_exc t = true /\ t_releases t = 1%nat /\ t_after t = true /\
      t_subs_done t = n /\ future_of t = FvConstructFail.
Proof.
  intros s k n r f Hp Hf Hr. unfold submit. apply Z.leb_gt in Hp. rewrite Hp, Hf.
  rewrite run_on_done_eq by (cbn; apply norm_raises_nsubs).
  cbn [t_raises set_exc new_transfer]. rewrite Hr.
  eexists. split; [reflexivity|]. cbn [permits transfers]. split.
  - rewrite sem_delta_app, sem_delta_done_evs. cbn [sem_delta sem_delta1].
    rewrite sem_delta_queued_part. cbn. rewrite Hr. lia.
  - eexists. split.
    + rewrite nth_error_app2 by lia. rewrite Nat.sub_diag. reflexivity.
    + unfold future_of. cbn. rewrite Hr. repeat split.
Qed.
