(** Invariants of the deferred-write queue (model/DeferQ.v). *)
From Coq Require Import ZArith List Bool Lia ZifyBool Sorted.
From S3V Require Import model.DeferQ.
Import ListNotations.
Open Scope Z_scope.

(* ------------------------------------------------------------------ *)
(** * Byte strings *)

Lemma blen_nonneg : forall d, 0 <= blen d.
Proof. intros d. unfold blen. lia. Qed.

Lemma blen_app : forall a b, blen (a ++ b) = blen a + blen b.
Proof. intros a b. unfold blen. rewrite app_length. lia. Qed.

Lemma blen_nil : blen [] = 0.
Proof. reflexivity. Qed.

(** obj[a : a+n] *)
Definition zslice (obj : bytes) (a n : Z) : bytes :=
  firstn (Z.to_nat n) (skipn (Z.to_nat a) obj).

Lemma skipn_add : forall (A : Type) (n m : nat) (l : list A),
  skipn n (skipn m l) = skipn (m + n) l.
Proof.
  intros A n m. induction m as [|m IH]; intros l; cbn [skipn Nat.add].
  - reflexivity.
  - destruct l as [|x l]; [now rewrite skipn_nil|]. apply IH.
Qed.

Lemma firstn_plus : forall (A : Type) (n m : nat) (l : list A),
  firstn n l ++ firstn m (skipn n l) = firstn (n + m) l.
Proof.
  intros A n m. induction n as [|n IH]; intros l; cbn [Nat.add].
  - reflexivity.
  - destruct l as [|x l].
    + cbn [skipn]. now rewrite !firstn_nil.
    + cbn [firstn skipn app]. now rewrite IH.
Qed.

Lemma zslice_app : forall obj a n m, 0 <= a -> 0 <= n -> 0 <= m ->
  zslice obj a n ++ zslice obj (a + n) m = zslice obj a (n + m).
Proof.
  intros obj a n m Ha Hn Hm. unfold zslice.
  replace (Z.to_nat (a + n)) with (Z.to_nat a + Z.to_nat n)%nat by lia.
  rewrite <- skipn_add.
  replace (Z.to_nat (n + m)) with (Z.to_nat n + Z.to_nat m)%nat by lia.
  apply firstn_plus.
Qed.

Lemma skipn_zslice : forall obj a n s, 0 <= a -> 0 <= s <= n ->
  skipn (Z.to_nat s) (zslice obj a n) = zslice obj (a + s) (n - s).
Proof.
  intros obj a n s Ha Hs. unfold zslice.
  rewrite skipn_firstn_comm, skipn_add.
  replace (Z.to_nat (a + s)) with (Z.to_nat a + Z.to_nat s)%nat by lia.
  replace (Z.to_nat (n - s)) with (Z.to_nat n - Z.to_nat s)%nat by lia.
  reflexivity.
Qed.

Lemma zslice_zero : forall obj a, zslice obj a 0 = [].
Proof. intros. reflexivity. Qed.

Lemma zslice_length : forall obj a n, 0 <= a -> 0 <= n -> a + n <= blen obj ->
  blen (zslice obj a n) = n.
Proof.
  intros obj a n Ha Hn Hb. unfold zslice, blen in *.
  rewrite firstn_length, skipn_length. lia.
Qed.

Lemma zslice_from_zero : forall obj n, zslice obj 0 n = firstn (Z.to_nat n) obj.
Proof. intros. reflexivity. Qed.

Lemma app_eq_length : forall (A : Type) (a a' b b' : list A),
  length a = length a' -> a ++ b = a' ++ b' -> a = a' /\ b = b'.
Proof.
  intros A a. induction a as [|x a IH]; intros [|y a'] b b' Hl He; cbn in *; try discriminate.
  - now split.
  - injection He as -> He. destruct (IH a' b b' ltac:(lia) He) as [-> ->]. now split.
Qed.

(* ------------------------------------------------------------------ *)
(** * Deliveries, consistency, coverage *)

(** A delivery carries the object's bytes at its offset. *)
Definition cons_entry (obj : bytes) (e : entry) : Prop :=
  0 <= fst e /\ fst e + blen (snd e) <= blen obj /\
  snd e = zslice obj (fst e) (blen (snd e)).

Definition consistent (obj : bytes) (h : list entry) : Prop :=
  Forall (cons_entry obj) h.

Definition inside (p : Z) (e : entry) : Prop :=
  fst e <= p < fst e + blen (snd e).

(** byte position [p] lies in a delivered interval *)
Definition covered (h : list entry) (p : Z) : Prop :=
  exists e, In e h /\ inside p e.

Lemma covered_incl : forall h h' p,
  (forall e, In e h -> In e h') -> covered h p -> covered h' p.
Proof. intros h h' p Hi (e & He & Hp). exists e. split; [now apply Hi|exact Hp]. Qed.

(** Each write starts where the previous one ended. *)
Fixpoint offsets_running (start : Z) (ws : list entry) : Prop :=
  match ws with
  | [] => True
  | w :: r => fst w = start /\ offsets_running (start + blen (snd w)) r
  end.

Definition wtotal (ws : list entry) : Z := blen (concat (map snd ws)).

Lemma wtotal_nil : wtotal [] = 0.
Proof. reflexivity. Qed.

Lemma wtotal_cons : forall w r, wtotal (w :: r) = blen (snd w) + wtotal r.
Proof. intros. unfold wtotal. cbn [map concat]. apply blen_app. Qed.

Lemma wtotal_app : forall a b, wtotal (a ++ b) = wtotal a + wtotal b.
Proof.
  intros a b. unfold wtotal. rewrite map_app, concat_app. apply blen_app.
Qed.

Lemma wtotal_nonneg : forall ws, 0 <= wtotal ws.
Proof. intros. apply blen_nonneg. Qed.

Lemma offsets_running_app : forall l1 l2 a,
  offsets_running a l1 -> offsets_running (a + wtotal l1) l2 ->
  offsets_running a (l1 ++ l2).
Proof.
  induction l1 as [|w l1 IH]; intros l2 a H1 H2; cbn [app].
  - rewrite wtotal_nil, Z.add_0_r in H2. exact H2.
  - destruct H1 as [Hw H1]. split; [exact Hw|]. apply IH; [exact H1|].
    rewrite wtotal_cons in H2. now rewrite <- Z.add_assoc.
Qed.

(* ------------------------------------------------------------------ *)
(** * Heap order and the pending dict *)

Definition off_le (a b : entry) : Prop := fst a <= fst b.
Definition offset_sorted (h : list entry) : Prop := StronglySorted off_le h.

Lemma entry_leb_true : forall a b, entry_leb a b = true -> fst a <= fst b.
Proof.
  intros a b. unfold entry_leb.
  destruct (fst a <? fst b) eqn:E1; [lia|].
  destruct (fst b <? fst a) eqn:E2; [discriminate|lia].
Qed.

Lemma entry_leb_false : forall a b, entry_leb a b = false -> fst b <= fst a.
Proof.
  intros a b. unfold entry_leb.
  destruct (fst a <? fst b) eqn:E1; [discriminate|]. lia.
Qed.

Lemma heap_push_in : forall e h x, In x (heap_push e h) <-> x = e \/ In x h.
Proof.
  intros e h x. induction h as [|y r IH]; cbn [heap_push].
  - cbn. intuition.
  - destruct (entry_leb e y) eqn:E; cbn [In] in *; intuition.
Qed.

Lemma heap_push_sorted : forall e h, offset_sorted h -> offset_sorted (heap_push e h).
Proof.
  intros e h Hs. induction Hs as [|y r Hr IH Hy]; cbn [heap_push].
  - constructor; constructor.
  - destruct (entry_leb e y) eqn:E.
    + apply entry_leb_true in E. constructor.
      * now constructor.
      * constructor; [exact E|]. rewrite Forall_forall in *. intros z Hz.
        specialize (Hy z Hz). unfold off_le in *. lia.
    + apply entry_leb_false in E. constructor; [exact IH|].
      rewrite Forall_forall in *. intros z Hz. apply heap_push_in in Hz.
      destruct Hz as [->|Hz]; [exact E|now apply Hy].
Qed.

Lemma pget_pdel_same : forall p k, pget (pdel p k) k = None.
Proof.
  intros p k. induction p as [|[k' v] r IH]; cbn [pdel filter fst pget]; [reflexivity|].
  destruct (k' =? k) eqn:E; cbn [negb]; [exact IH|]. cbn [pget]. now rewrite E.
Qed.

Lemma pget_pdel_other : forall p k k', k' <> k -> pget (pdel p k) k' = pget p k'.
Proof.
  intros p k k' Hn. induction p as [|[k2 v] r IH]; cbn [pdel filter fst pget]; [reflexivity|].
  destruct (k2 =? k) eqn:E; cbn [negb].
  - destruct (k2 =? k') eqn:E2; [lia|exact IH].
  - cbn [pget]. destruct (k2 =? k') eqn:E2; [reflexivity|exact IH].
Qed.

(** every recorded (offset, length) is the length of a queued entry at that offset *)
Definition pending_ok (p : pmap) (h : list entry) : Prop :=
  forall k l, pget p k = Some l -> exists d, In (k, d) h /\ blen d = l.

Lemma pending_ok_pop : forall p o d h,
  pending_ok p ((o, d) :: h) ->
  pending_ok (if pget_is p o (blen d) then pdel p o else p) h.
Proof.
  intros p o d h Hp k l Hg. unfold pget_is in Hg.
  destruct (pget p o) as [v|] eqn:Ego.
  - destruct (v =? blen d) eqn:Ev.
    + destruct (Z.eq_dec k o) as [->|Hne]; [now rewrite pget_pdel_same in Hg|].
      rewrite pget_pdel_other in Hg by exact Hne.
      destruct (Hp k l Hg) as (d2 & [Heq|Hin] & Hl); [congruence|]. now exists d2.
    + destruct (Hp k l Hg) as (d2 & [Heq|Hin] & Hl); [|now exists d2].
      injection Heq as -> ->. rewrite Hg in Ego. injection Ego as ->. lia.
  - destruct (Hp k l Hg) as (d2 & [Heq|Hin] & Hl); [|now exists d2].
    injection Heq as -> ->. congruence.
Qed.

Lemma pending_ok_push : forall p h off data,
  pending_ok p h ->
  pending_ok (pset p off (blen data)) (heap_push (off, data) h).
Proof.
  intros p h off data Hp k l Hg. unfold pset in Hg. cbn [pget] in Hg.
  destruct (off =? k) eqn:E.
  - injection Hg as <-. assert (k = off) as -> by lia. exists data.
    split; [apply heap_push_in; now left|reflexivity].
  - rewrite pget_pdel_other in Hg by lia.
    destruct (Hp k l Hg) as (d2 & Hin & Hl). exists d2.
    split; [apply heap_push_in; now right|exact Hl].
Qed.

(* ------------------------------------------------------------------ *)
(** * Facts that hold for every history (no consistency assumed) *)

Lemma pop_loop_offsets : forall h nxt pend st ws,
  pop_loop h nxt pend = (st, ws) ->
  offsets_running nxt ws /\ next_offset st = nxt + wtotal ws.
Proof.
  induction h as [|[o d] h IH]; intros nxt pend st ws H; cbn [pop_loop] in H.
  - injection H as <- <-. cbn [offsets_running next_offset concat]. rewrite wtotal_nil. split; [exact I|lia].
  - destruct (o <=? nxt) eqn:Eo.
    + destruct (negb (nxt - o =? 0) && (blen d <=? nxt - o)) eqn:Eskip.
      * now apply IH in H.
      * destruct (pop_loop h _ _) as [st' ws'] eqn:Er. injection H as <- <-.
        apply IH in Er. destruct Er as [Hr Hn]. cbn [offsets_running fst snd].
        rewrite wtotal_cons. cbn [snd]. split; [split; [reflexivity|exact Hr]|lia].
    + injection H as <- <-. cbn [offsets_running next_offset concat]. rewrite wtotal_nil. split; [exact I|lia].
Qed.

Lemma request_writes_offsets : forall s off data s' ws,
  request_writes s off data = (s', ws) ->
  offsets_running (next_offset s) ws /\ next_offset s' = next_offset s + wtotal ws.
Proof.
  intros s off data s' ws H. unfold request_writes in H.
  destruct ((off <? next_offset s) && (off + blen data <=? next_offset s)) eqn:E1.
  - injection H as <- <-. cbn [offsets_running next_offset concat]. rewrite wtotal_nil. split; [exact I|lia].
  - destruct (match pget (pending s) off with Some l => blen data <=? l | None => false end) eqn:E2.
    + injection H as <- <-. cbn [offsets_running next_offset concat]. rewrite wtotal_nil. split; [exact I|lia].
    + now apply pop_loop_offsets in H.
Qed.

Lemma run_offsets : forall h s s' wss,
  run s h = (s', wss) ->
  offsets_running (next_offset s) (concat wss) /\
  next_offset s' = next_offset s + wtotal (concat wss).
Proof.
  induction h as [|[off data] h IH]; intros s s' wss H; cbn [run] in H.
  - injection H as <- <-. cbn [offsets_running next_offset concat]. rewrite wtotal_nil. split; [exact I|lia].
  - destruct (request_writes s off data) as [s1 ws] eqn:E1.
    destruct (run s1 h) as [s2 wss'] eqn:E2. injection H as <- <-.
    apply request_writes_offsets in E1. destruct E1 as [Ha Hb].
    apply IH in E2. destruct E2 as [Hc Hd]. cbn [concat].
    rewrite wtotal_app. split; [|lia].
    apply offsets_running_app; [exact Ha|]. now rewrite <- Hb.
Qed.

Lemma dq_offsets_running : forall h,
  offsets_running 0 (emitted h) /\
  next_offset (final_state h) = wtotal (emitted h).
Proof.
  intros h. unfold emitted, final_state.
  destruct (run init h) as [s' wss] eqn:E. apply run_offsets in E. cbn in *. exact E.
Qed.

(** how often position [p] is written *)
Definition insideb (p : Z) (e : entry) : bool :=
  (fst e <=? p) && (p <? fst e + blen (snd e)).

Lemma offsets_running_once : forall ws a p,
  offsets_running a ws ->
  length (filter (insideb p) ws) =
    if (a <=? p) && (p <? a + wtotal ws) then 1%nat else 0%nat.
Proof.
  induction ws as [|[o d] ws IH]; intros a p H.
  - cbn [filter length]. rewrite wtotal_nil. destruct ((a <=? p) && (p <? a + 0)) eqn:E; [lia|reflexivity].
  - destruct H as [Ho Hr]. cbn [fst snd] in *. subst o.
    cbn [filter]. rewrite wtotal_cons. cbn [snd].
    pose proof (blen_nonneg d) as Hd. pose proof (wtotal_nonneg ws) as Hw.
    specialize (IH (a + blen d) p Hr). unfold insideb at 1. cbn [fst snd].
    destruct ((a <=? p) && (p <? a + blen d)) eqn:E1; cbn [length]; rewrite IH.
    + destruct ((a + blen d <=? p) && (p <? a + blen d + wtotal ws)) eqn:E2; [lia|].
      destruct ((a <=? p) && (p <? a + (blen d + wtotal ws))) eqn:E3; [reflexivity|lia].
    + destruct ((a + blen d <=? p) && (p <? a + blen d + wtotal ws)) eqn:E2;
        destruct ((a <=? p) && (p <? a + (blen d + wtotal ws))) eqn:E3; try reflexivity; lia.
Qed.

Lemma offsets_running_lb : forall ws a, offsets_running a ws ->
  Forall (fun w => a <= fst w) ws.
Proof.
  induction ws as [|[o d] ws IH]; intros a H; [constructor|].
  destruct H as [Ho Hr]. cbn [fst snd] in *. subst o. constructor; [cbn; lia|].
  specialize (IH _ Hr). rewrite Forall_forall in *. intros w Hw.
  specialize (IH w Hw). pose proof (blen_nonneg d). lia.
Qed.

(** a write ends at or before the start of every later write *)
Definition ends_before (a b : entry) : Prop := fst a + blen (snd a) <= fst b.

Lemma offsets_running_sorted : forall ws a, offsets_running a ws ->
  StronglySorted ends_before ws.
Proof.
  induction ws as [|[o d] ws IH]; intros a H; [constructor|].
  destruct H as [Ho Hr]. cbn [fst snd] in *. subst o. constructor; [now apply IH in Hr|].
  apply offsets_running_lb in Hr. rewrite Forall_forall in *. intros w Hw.
  specialize (Hr w Hw). unfold ends_before. cbn [fst snd]. exact Hr.
Qed.

(* ------------------------------------------------------------------ *)
(** * The pop loop on a consistent heap *)

Lemma pop_loop_spec : forall obj h nxt pend st ws,
  pop_loop h nxt pend = (st, ws) ->
  0 <= nxt <= blen obj ->
  Forall (cons_entry obj) h ->
  offset_sorted h ->
  pending_ok pend h ->
  nxt <= next_offset st <= blen obj /\
  concat (map snd ws) = zslice obj nxt (next_offset st - nxt) /\
  (forall e, In e (heap st) -> In e h /\ next_offset st < fst e) /\
  offset_sorted (heap st) /\
  pending_ok (pending st) (heap st) /\
  (forall e, In e h -> In e (heap st) \/ fst e + blen (snd e) <= next_offset st) /\
  (forall p, nxt <= p < next_offset st -> covered h p).
Proof.
  intros obj. induction h as [|[o d] h IH]; intros nxt pend st ws H Hn Hc Hs Hp;
    cbn [pop_loop] in H.
  - injection H as <- <-. cbn [next_offset heap pending map concat].
    rewrite Z.sub_diag, zslice_zero.
    split; [lia|]. split; [reflexivity|]. split; [intros e []|].
    split; [constructor|]. split; [exact Hp|]. split; [intros e []|].
    intros p Hpp. lia.
  - inversion Hc as [|? ? Hce Hc']; subst. inversion Hs as [|? ? Hs' Hall]; subst.
    destruct Hce as (Ho0 & Hob & Hd). cbn [fst snd] in Ho0, Hob, Hd.
    pose proof (blen_nonneg d) as Hdl.
    destruct (o <=? nxt) eqn:Eo.
    + pose proof (pending_ok_pop _ _ _ _ Hp) as Hp'.
      destruct (negb (nxt - o =? 0) && (blen d <=? nxt - o)) eqn:Eskip.
      * (* wholly seen: skipped *)
        specialize (IH _ _ _ _ H Hn Hc' Hs' Hp').
        destruct IH as (I1 & I2 & I3 & I4 & I5 & I6 & I7).
        split; [exact I1|]. split; [exact I2|]. split.
        { intros e He. destruct (I3 e He) as [Ha Hb]. split; [now right|exact Hb]. }
        split; [exact I4|]. split; [exact I5|]. split.
        { intros e [<-|He]; [right; cbn [fst snd]; lia|now apply I6]. }
        intros p Hpp. eapply covered_incl; [|now apply I7]. intros e He. now right.
      * (* written past the seen prefix *)
        set (seen := nxt - o) in *.
        assert (Hseen : 0 <= seen <= blen d) by lia.
        assert (Hd' : skipn (Z.to_nat seen) d = zslice obj nxt (blen d - seen)).
        { rewrite Hd at 1. rewrite skipn_zslice by lia. f_equal. lia. }
        assert (Hl' : blen (skipn (Z.to_nat seen) d) = blen d - seen).
        { rewrite Hd'. apply zslice_length; lia. }
        destruct (pop_loop h _ _) as [st' ws'] eqn:Er. injection H as <- <-.
        rewrite Hl' in Er.
        assert (Hn' : 0 <= nxt + (blen d - seen) <= blen obj) by lia.
        specialize (IH _ _ _ _ Er Hn' Hc' Hs' Hp').
        destruct IH as (I1 & I2 & I3 & I4 & I5 & I6 & I7).
        split; [lia|]. split.
        { cbn [map concat snd]. rewrite I2, Hd'.
          rewrite zslice_app by lia. f_equal. lia. }
        split.
        { intros e He. destruct (I3 e He) as [Ha Hb]. split; [now right|exact Hb]. }
        split; [exact I4|]. split; [exact I5|]. split.
        { intros e [<-|He]; [right; cbn [fst snd]; lia|now apply I6]. }
        intros p Hpp. destruct (Z_lt_le_dec p (nxt + (blen d - seen))) as [Hlt|Hge].
        { exists (o, d). split; [now left|]. unfold inside. cbn [fst snd]. lia. }
        { eapply covered_incl; [|apply I7; lia]. intros e He. now right. }
    + injection H as <- <-. cbn [next_offset heap pending map concat].
      rewrite Z.sub_diag, zslice_zero.
      split; [lia|]. split; [reflexivity|]. split.
      { intros e [<-|He]; (split; [assumption || (now left) || (now right)|]).
        - cbn [fst]. lia.
        - rewrite Forall_forall in Hall. specialize (Hall e He). unfold off_le in Hall.
          cbn [fst] in Hall. lia. }
      split; [exact Hs|]. split; [exact Hp|]. split.
      { intros e He. now left. }
      intros p Hpp. lia.
Qed.

(* ------------------------------------------------------------------ *)
(** * The invariant of the queue along a consistent history *)

(** [D]: the deliveries so far; [s]: the queue state after them. *)
Record inv (obj : bytes) (D : list entry) (s : state) : Prop := mkInv {
  inv_next : 0 <= next_offset s <= blen obj;
  inv_heap : forall e, In e (heap s) -> In e D /\ next_offset s < fst e;
  inv_sorted : offset_sorted (heap s);
  inv_pending : pending_ok (pending s) (heap s);
  inv_cov : forall e p, In e D -> inside p e ->
            p < next_offset s \/ exists e', In e' (heap s) /\ inside p e';
  inv_prefix : forall p, 0 <= p < next_offset s -> covered D p
}.

Lemma inv_init : forall obj, inv obj [] init.
Proof.
  intros obj. constructor; cbn [init next_offset heap pending].
  - pose proof (blen_nonneg obj). lia.
  - intros e [].
  - constructor.
  - intros k l Hg. discriminate.
  - intros e p [].
  - intros p Hp. lia.
Qed.

Lemma request_writes_inv : forall obj D s off data s' ws,
  inv obj D s -> consistent obj D -> cons_entry obj (off, data) ->
  request_writes s off data = (s', ws) ->
  inv obj (D ++ [(off, data)]) s' /\
  concat (map snd ws) = zslice obj (next_offset s) (next_offset s' - next_offset s) /\
  next_offset s <= next_offset s'.
Proof.
  intros obj D s off data s' ws [Hn Hh Hs Hp Hcov Hpre] HD Hce H.
  assert (HinD : forall e, In e D -> In e (D ++ [(off, data)])).
  { intros e He. apply in_or_app. now left. }
  unfold request_writes in H.
  destruct ((off <? next_offset s) && (off + blen data <=? next_offset s)) eqn:E1.
  { (* wholly seen *)
    injection H as <- <-. rewrite Z.sub_diag, zslice_zero. split; [|split; [reflexivity|lia]].
    constructor; try assumption.
    - intros e He. destruct (Hh e He) as [Ha Hb]. split; [now apply HinD|exact Hb].
    - intros e p He Hi. apply in_app_or in He. destruct He as [He|[<-|[]]]; [now apply (Hcov e)|].
      left. unfold inside in Hi. cbn [fst snd] in Hi. lia.
    - intros p Hpp. eapply covered_incl; [exact HinD|now apply Hpre]. }
  destruct (match pget (pending s) off with Some l => blen data <=? l | None => false end) eqn:E2.
  { (* at least as much already queued for this offset *)
    injection H as <- <-. rewrite Z.sub_diag, zslice_zero. split; [|split; [reflexivity|lia]].
    destruct (pget (pending s) off) as [l|] eqn:Eg; [|discriminate].
    destruct (Hp off l Eg) as (d2 & Hin2 & Hl2).
    constructor; try assumption.
    - intros e He. destruct (Hh e He) as [Ha Hb]. split; [now apply HinD|exact Hb].
    - intros e p He Hi. apply in_app_or in He. destruct He as [He|[<-|[]]]; [now apply (Hcov e)|].
      right. exists (off, d2). split; [exact Hin2|]. unfold inside in *. cbn [fst snd] in *. lia.
    - intros p Hpp. eapply covered_incl; [exact HinD|now apply Hpre]. }
  (* pushed, then the loop *)
  assert (Hc1 : Forall (cons_entry obj) (heap_push (off, data) (heap s))).
  { rewrite Forall_forall. intros e He. apply heap_push_in in He. destruct He as [->|He]; [exact Hce|].
    unfold consistent in HD. rewrite Forall_forall in HD. apply HD. now apply Hh. }
  pose proof (pop_loop_spec obj _ _ _ _ _ H Hn Hc1 (heap_push_sorted _ _ Hs)
                (pending_ok_push _ _ off data Hp)) as (I1 & I2 & I3 & I4 & I5 & I6 & I7).
  assert (Hsub : forall e, In e (heap_push (off, data) (heap s)) -> In e (D ++ [(off, data)])).
  { intros e He. apply heap_push_in in He. apply in_or_app.
    destruct He as [->|He]; [right; now left|left; now apply Hh]. }
  split; [|split; [exact I2|lia]].
  constructor.
  - lia.
  - intros e He. destruct (I3 e He) as [Ha Hb]. split; [now apply Hsub|exact Hb].
  - exact I4.
  - exact I5.
  - intros e p He Hi.
    assert (Hq : exists e1, In e1 (heap_push (off, data) (heap s)) /\ inside p e1 \/ p < next_offset s).
    { apply in_app_or in He. destruct He as [He|[<-|[]]].
      - destruct (Hcov e p He Hi) as [Hlt|(e1 & He1 & Hi1)].
        + exists e. now right.
        + exists e1. left. split; [apply heap_push_in; now right|exact Hi1].
      - exists (off, data). left. split; [apply heap_push_in; now left|exact Hi]. }
    destruct Hq as (e1 & [[He1 Hi1]|Hlt]); [|left; lia].
    destruct (I6 e1 He1) as [Hin|Hend].
    + right. now exists e1.
    + left. unfold inside in Hi1. lia.
  - intros p Hpp. destruct (Z_lt_le_dec p (next_offset s)) as [Hlt|Hge].
    + eapply covered_incl; [exact HinD|apply Hpre; lia].
    + eapply covered_incl; [exact Hsub|apply I7; lia].
Qed.

Lemma run_inv : forall obj h D s s' wss,
  inv obj D s -> consistent obj D -> consistent obj h ->
  run s h = (s', wss) ->
  inv obj (D ++ h) s' /\
  concat (map snd (concat wss)) =
    zslice obj (next_offset s) (next_offset s' - next_offset s) /\
  next_offset s <= next_offset s'.
Proof.
  intros obj. induction h as [|[off data] h IH]; intros D s s' wss Hi HD Hh H; cbn [run] in H.
  - injection H as <- <-. rewrite app_nil_r, Z.sub_diag, zslice_zero.
    split; [exact Hi|]. split; [reflexivity|lia].
  - destruct (request_writes s off data) as [s1 ws] eqn:E1.
    destruct (run s1 h) as [s2 wss'] eqn:E2. injection H as <- <-.
    inversion Hh as [|? ? Hce Hh']; subst.
    destruct (request_writes_inv _ _ _ _ _ _ _ Hi HD Hce E1) as (Hi1 & Hw1 & Hle1).
    assert (HD1 : consistent obj (D ++ [(off, data)])).
    { apply Forall_app. split; [exact HD|]. constructor; [exact Hce|constructor]. }
    destruct (IH _ _ _ _ Hi1 HD1 Hh' E2) as (Hi2 & Hw2 & Hle2).
    rewrite <- app_assoc in Hi2. cbn [app] in Hi2.
    split; [exact Hi2|]. split; [|lia].
    cbn [concat]. rewrite map_app, concat_app.
    destruct Hi as [Hn _ _ _ _ _].
    transitivity (zslice obj (next_offset s) (next_offset s1 - next_offset s) ++
                  zslice obj (next_offset s + (next_offset s1 - next_offset s))
                         (next_offset s2 - next_offset s1)).
    { f_equal; [exact Hw1|]. etransitivity; [exact Hw2|]. f_equal. lia. }
    rewrite zslice_app by lia. f_equal. lia.
Qed.

Lemma final_inv : forall obj h, consistent obj h ->
  inv obj h (final_state h) /\
  concat (map snd (emitted h)) = firstn (Z.to_nat (next_offset (final_state h))) obj.
Proof.
  intros obj h Hh. unfold final_state, emitted.
  destruct (run init h) as [s' wss] eqn:E.
  destruct (run_inv obj h [] init s' wss (inv_init obj) (Forall_nil _) Hh E) as (Hi & Hw & _).
  cbn [app fst snd] in *. split; [exact Hi|].
  rewrite Hw. cbn [init next_offset]. rewrite Z.sub_0_r. apply zslice_from_zero.
Qed.

(* ------------------------------------------------------------------ *)
(** * The statements of C16 *)

Lemma dq_writes_prefix : forall obj h, consistent obj h ->
  concat (map snd (emitted h)) = firstn (Z.to_nat (next_offset (final_state h))) obj /\
  offsets_running 0 (emitted h) /\
  0 <= next_offset (final_state h) <= blen obj.
Proof.
  intros obj h Hh. destruct (final_inv obj h Hh) as [Hi Hw].
  split; [exact Hw|]. split; [apply dq_offsets_running|apply (inv_next _ _ _ Hi)].
Qed.

Lemma dq_frontier_raw : forall obj h, consistent obj h ->
  (forall p, 0 <= p < next_offset (final_state h) -> covered h p) /\
  ~ covered h (next_offset (final_state h)).
Proof.
  intros obj h Hh. destruct (final_inv obj h Hh) as [Hi _].
  split; [apply (inv_prefix _ _ _ Hi)|].
  intros (e & He & Hin).
  destruct (inv_cov _ _ _ Hi e _ He Hin) as [Hlt|(e1 & He1 & Hi1)]; [lia|].
  destruct (inv_heap _ _ _ Hi e1 He1) as [_ Hgt]. unfold inside in Hi1. lia.
Qed.

(** next_offset is the largest n with [0,n) covered by the deliveries *)
Lemma dq_frontier : forall obj h, consistent obj h ->
  forall n, 0 <= n ->
  ((forall p, 0 <= p < n -> covered h p) <-> n <= next_offset (final_state h)).
Proof.
  intros obj h Hh n Hn. destruct (dq_frontier_raw obj h Hh) as [Hpre Hnot].
  destruct (final_inv obj h Hh) as [Hi _]. pose proof (inv_next _ _ _ Hi) as Hb.
  split.
  - intros Hall. destruct (Z_le_gt_dec n (next_offset (final_state h))) as [Hle|Hgt]; [exact Hle|].
    exfalso. apply Hnot. apply Hall. lia.
  - intros Hle p Hp. apply Hpre. lia.
Qed.

Lemma dq_complete : forall obj h, consistent obj h ->
  (forall p, 0 <= p < blen obj -> covered h p) ->
  concat (map snd (emitted h)) = obj /\ next_offset (final_state h) = blen obj.
Proof.
  intros obj h Hh Hall.
  destruct (dq_writes_prefix obj h Hh) as (Hw & _ & Hb).
  pose proof (proj1 (dq_frontier obj h Hh (blen obj) (blen_nonneg obj)) Hall) as Hle.
  assert (Heq : next_offset (final_state h) = blen obj) by lia.
  split; [|exact Heq]. rewrite Hw, Heq. unfold blen. rewrite Nat2Z.id. apply firstn_all.
Qed.

Lemma dq_empty_object :
  snd (request_writes init 0 []) = [(0, [])] /\
  emitted [(0, [])] = [(0, [])].
Proof. split; reflexivity. Qed.

(* ------------------------------------------------------------------ *)
(** * The manager paths and the download loop's histories *)

Lemma manager_run_eq : forall h s out,
  manager_run (s, out) h =
  (fst (run s h), out ++ concat (map snd (concat (snd (run s h))))).
Proof.
  induction h as [|[off data] h IH]; intros s out; cbn [manager_run fold_left run].
  - cbn. now rewrite app_nil_r.
  - unfold manager_step at 2. cbn [fst snd].
    destruct (request_writes s off data) as [s1 ws] eqn:E1.
    fold (manager_run (s1, apply_writes out ws) h). rewrite IH.
    destruct (run s1 h) as [s2 wss]. cbn [fst snd concat].
    unfold apply_writes. now rewrite map_app, concat_app, app_assoc.
Qed.

Lemma manager_stream : forall h,
  manager_run (init, []) h = (final_state h, concat (map snd (emitted h))).
Proof. intros h. rewrite manager_run_eq. reflexivity. Qed.

(** one attempt: chunks whose concatenation is the object's bytes from [start] *)
Definition attempt_ok (obj : bytes) (a : Z * list bytes) : Prop :=
  0 <= fst a /\ fst a + blen (concat (snd a)) <= blen obj /\
  concat (snd a) = zslice obj (fst a) (blen (concat (snd a))).

Lemma chunks_consistent : forall obj ds start,
  attempt_ok obj (start, ds) -> consistent obj (chunks_from start ds).
Proof.
  intros obj. induction ds as [|d ds IH]; intros start (H0 & Hb & He); cbn [fst snd] in *.
  - constructor.
  - cbn [chunks_from concat] in *. rewrite blen_app in *.
    pose proof (blen_nonneg d) as Hd. pose proof (blen_nonneg (concat ds)) as Hr.
    rewrite <- zslice_app in He by lia.
    apply app_eq_length in He.
    + destruct He as [He1 He2]. constructor.
      * repeat split; cbn [fst snd]; try lia. exact He1.
      * apply IH. repeat split; cbn [fst snd]; try lia. exact He2.
    + assert (Hz : blen d = blen (zslice obj start (blen d))) by (rewrite zslice_length; lia).
      apply Nat2Z.inj. exact Hz.
Qed.

Lemma chunks_cover : forall ds start p,
  start <= p < start + blen (concat ds) -> covered (chunks_from start ds) p.
Proof.
  induction ds as [|d ds IH]; intros start p Hp; cbn [chunks_from concat] in *.
  - rewrite blen_nil in Hp. lia.
  - rewrite blen_app in Hp. destruct (Z_lt_le_dec p (start + blen d)) as [Hlt|Hge].
    + exists (start, d). split; [now left|]. unfold inside. cbn [fst snd]. lia.
    + eapply covered_incl; [|apply (IH (start + blen d) p); lia]. intros e He. now right.
Qed.

(** arbitrary interleavings of sequences *)
Inductive interleaving {A : Type} : list (list A) -> list A -> Prop :=
| il_done : forall ls, Forall (fun l => l = []) ls -> interleaving ls []
| il_step : forall pre x l post h,
    interleaving (pre ++ l :: post) h ->
    interleaving (pre ++ (x :: l) :: post) (x :: h).

Lemma interleaving_Forall : forall (A : Type) (P : A -> Prop) ls h,
  interleaving ls h -> Forall (Forall P) ls -> Forall P h.
Proof.
  intros A P ls h Hi. induction Hi as [ls Hn|pre x l post h Hi IH]; intros Hall.
  - constructor.
  - apply Forall_app in Hall. destruct Hall as [Hpre Hrest].
    inversion Hrest as [|? ? Hxl Hpost]; subst. inversion Hxl as [|? ? Hx Hl]; subst.
    constructor; [exact Hx|]. apply IH. apply Forall_app. split; [exact Hpre|].
    constructor; assumption.
Qed.

Lemma interleaving_In : forall (A : Type) ls (h : list A),
  interleaving ls h -> forall l x, In l ls -> In x l -> In x h.
Proof.
  intros A ls h Hi. induction Hi as [ls Hn|pre x0 l0 post h Hi IH]; intros l x Hl Hx.
  - rewrite Forall_forall in Hn. rewrite (Hn l Hl) in Hx. destruct Hx.
  - apply in_app_or in Hl. destruct Hl as [Hl|[<-|Hl]].
    + right. apply (IH l x); [apply in_or_app; now left|exact Hx].
    + destruct Hx as [<-|Hx]; [now left|]. right.
      apply (IH l0 x); [apply in_or_app; right; now left|exact Hx].
    + right. apply (IH l x); [apply in_or_app; right; now right|exact Hx].
Qed.

(** The histories of the statement: any number of attempts (of any parts),
    each delivering consecutive chunks of the object's bytes from the start of
    its part, cut anywhere, stopping anywhere; interleaved arbitrarily (which
    includes every order in which the attempts of one part follow each other). *)
Definition grammar (obj : bytes) (h : list entry) : Prop :=
  exists atts : list (Z * list bytes),
    Forall (attempt_ok obj) atts /\
    interleaving (map (fun a => chunks_from (fst a) (snd a)) atts) h.

Lemma grammar_consistent : forall obj h, grammar obj h -> consistent obj h.
Proof.
  intros obj h (atts & Hok & Hil). unfold consistent.
  apply (interleaving_Forall _ _ _ _ Hil). rewrite Forall_map.
  rewrite Forall_forall in *. intros [start ds] Ha. apply chunks_consistent. now apply Hok.
Qed.

(** single-GET download to a stream: every attempt starts at byte 0; if one
    attempt ran to the end of the object the stream holds exactly the object. *)
Lemma immediate_path_exact : forall obj (attempts : list (list bytes)) h,
  Forall (fun ds => attempt_ok obj (0, ds)) attempts ->
  h = concat (map (chunks_from 0) attempts) ->
  let (s, out) := manager_run (init, []) h in
  out = firstn (Z.to_nat (next_offset s)) obj /\
  ((exists ds, In ds attempts /\ concat ds = obj) -> out = obj).
Proof.
  intros obj attempts h Hok ->. rewrite manager_stream.
  set (h := concat (map (chunks_from 0) attempts)).
  assert (Hc : consistent obj h).
  { unfold h, consistent. apply Forall_concat. rewrite Forall_map.
    rewrite Forall_forall in *. intros ds Hds. apply chunks_consistent. now apply Hok. }
  split; [apply (dq_writes_prefix obj h Hc)|].
  intros (ds & Hin & Hfull). apply (dq_complete obj h Hc).
  intros p Hp. eapply covered_incl; [|apply (chunks_cover ds 0 p); rewrite Hfull; lia].
  intros e He. unfold h. apply in_concat. exists (chunks_from 0 ds).
  split; [now apply in_map|exact He].
Qed.

(* ------------------------------------------------------------------ *)
(** * The witness history of F3 *)

Definition w_obj : bytes := [97; 98; 99; 100; 101; 102; 103; 104].   (* "abcdefgh" *)
Definition w_hist : list entry :=
  [(0, [97; 98; 99]); (0, [97; 98; 99; 100; 101]); (5, [102; 103; 104])].

Lemma w_hist_grammar : grammar w_obj w_hist.
Proof.
  exists [(0, [[97; 98; 99]]); (0, [[97; 98; 99; 100; 101]]); (5, [[102; 103; 104]])].
  split.
  - repeat constructor; cbn; lia.
  - cbn [map chunks_from fst snd].
    apply (il_step [] (0, [97; 98; 99]) [] _).
    apply (il_step [[]] (0, [97; 98; 99; 100; 101]) [] _).
    apply (il_step [[]; []] _ [] []).
    apply il_done. repeat constructor.
Qed.

Lemma w_hist_covers : forall p, 0 <= p < blen w_obj -> covered w_hist p.
Proof.
  intros p Hp. change (blen w_obj) with 8 in Hp. destruct (Z_lt_le_dec p 5).
  - exists (0, [97; 98; 99; 100; 101]). split; [cbn; tauto|unfold inside; cbn; lia].
  - exists (5, [102; 103; 104]). split; [cbn; tauto|unfold inside; cbn; lia].
Qed.
