(** Invariants of the semaphore models (model/Sema.v), by induction over
    arbitrary operation lists. *)
From Coq Require Import ZArith List Bool Lia ZifyBool.
From S3V Require Import model.Sema.
Import ListNotations.
Open Scope Z_scope.

(** * Association list *)

Lemma lookup_upd_same l t r : lookup (upd l t r) t = Some r.
Proof.
  induction l as [|[t' r'] l IH]; cbn [upd lookup].
  - now rewrite Z.eqb_refl.
  - destruct (t' =? t) eqn:E; cbn [lookup].
    + now rewrite Z.eqb_refl.
    + now rewrite E.
Qed.

Lemma lookup_upd_other l t t' r : t' <> t -> lookup (upd l t r) t' = lookup l t'.
Proof.
  intros Hne. induction l as [|[t0 r0] l IH]; cbn [upd lookup].
  - destruct (t =? t') eqn:E; [lia|reflexivity].
  - destruct (t0 =? t) eqn:E; cbn [lookup].
    + destruct (t =? t') eqn:E1; [lia|]. destruct (t0 =? t') eqn:E2; [lia|reflexivity].
    + destruct (t0 =? t') eqn:E2; [reflexivity|exact IH].
Qed.

Lemma get_upd c s t r t' :
  get (mkSW c (upd (sw_tags s) t r)) t' = if t' =? t then r else get s t'.
Proof.
  unfold get; cbn [sw_tags]. destruct (t' =? t) eqn:E.
  - assert (t' = t) by lia. subst. now rewrite lookup_upd_same.
  - rewrite lookup_upd_other by lia. reflexivity.
Qed.

Lemma keys_upd l t r :
  forall x, In x (map fst (upd l t r)) <-> x = t \/ In x (map fst l).
Proof.
  induction l as [|[t0 r0] l IH]; intros x; cbn [upd map fst In].
  - intuition.
  - destruct (t0 =? t) eqn:E; cbn [map fst In].
    + assert (t0 = t) by lia; subst. intuition.
    + rewrite IH. intuition.
Qed.

Lemma nodup_keys_upd l t r : NoDup (map fst l) -> NoDup (map fst (upd l t r)).
Proof.
  induction l as [|[t0 r0] l IH]; cbn [upd map fst]; intros H.
  - constructor; [intros []|constructor].
  - inversion H as [|a b Hn Hd]; subst.
    destruct (t0 =? t) eqn:E; cbn [map fst].
    + assert (t0 = t) by lia; subst. now constructor.
    + constructor; [|now apply IH]. rewrite keys_upd. intros [->|Hin]; [lia|contradiction].
Qed.

Lemma lookup_in l t r : lookup l t = Some r -> In (t, r) l.
Proof.
  induction l as [|[t0 r0] l IH]; cbn [lookup]; [discriminate|].
  destruct (t0 =? t) eqn:E.
  - intros [= ->]. assert (t0 = t) by lia; subst. now left.
  - intros H. right. now apply IH.
Qed.

Lemma in_lookup l t r : NoDup (map fst l) -> In (t, r) l -> lookup l t = Some r.
Proof.
  induction l as [|[t0 r0] l IH]; cbn [map fst lookup]; intros Hd Hin; [destruct Hin|].
  inversion Hd as [|a b Hn Hd']; subst. destruct Hin as [[= -> ->]|Hin].
  - now rewrite Z.eqb_refl.
  - destruct (t0 =? t) eqn:E.
    + assert (t0 = t) by lia; subst. exfalso. apply Hn. apply in_map_iff. now exists (t, r).
    + now apply IH.
Qed.

Lemma sum_out_upd l t r :
  sum_out (upd l t r) =
  sum_out l - match lookup l t with Some r0 => t_next r0 - t_low r0 | None => 0 end
  + (t_next r - t_low r).
Proof.
  induction l as [|[t0 r0] l IH]; cbn [upd sum_out lookup]; [lia|].
  destruct (t0 =? t) eqn:E; cbn [sum_out]; lia.
Qed.

Lemma sum_out_nonneg l :
  (forall t r, In (t, r) l -> t_low r <= t_next r) -> 0 <= sum_out l.
Proof.
  induction l as [|[t0 r0] l IH]; cbn [sum_out]; intros H; [lia|].
  pose proof (H t0 r0 (or_introl eq_refl)). assert (0 <= sum_out l); [|lia].
  apply IH. intros t r Hin. apply (H t r). now right.
Qed.

Lemma sum_out_pos_ex l :
  0 < sum_out l -> exists t r, In (t, r) l /\ t_low r < t_next r.
Proof.
  induction l as [|[t0 r0] l IH]; cbn [sum_out]; intros H; [lia|].
  destruct (Z_lt_dec (t_low r0) (t_next r0)) as [Hlt|Hge].
  - exists t0, r0. split; [now left|exact Hlt].
  - destruct IH as (t & r & Hin & Hlt); [lia|]. exists t, r. split; [now right|exact Hlt].
Qed.

Lemma sum_out_zero l :
  (forall t r, In (t, r) l -> t_low r = t_next r) -> sum_out l = 0.
Proof.
  induction l as [|[t0 r0] l IH]; cbn [sum_out]; intros H; [reflexivity|].
  pose proof (H t0 r0 (or_introl eq_refl)). rewrite IH; [lia|].
  intros t r Hin. apply (H t r). now right.
Qed.

(** * Basic shape invariant (all histories) *)

Definition basic (s : sw) : Prop :=
  NoDup (map fst (sw_tags s)) /\
  forall t r, lookup (sw_tags s) t = Some r -> 1 <= t_next r.

Lemma basic_init cap : basic (sw_init cap).
Proof. split; [constructor|]. intros t r; cbn. discriminate. Qed.

Lemma get_known s t r : lookup (sw_tags s) t = Some r -> get s t = r.
Proof. unfold get. now intros ->. Qed.

Lemma get_unknown s t : lookup (sw_tags s) t = None -> get s t = tag0.
Proof. unfold get. now intros ->. Qed.

Lemma basic_next_nonneg s t : basic s -> 0 <= t_next (get s t).
Proof.
  intros [_ H]. unfold get. destruct (lookup (sw_tags s) t) as [r|] eqn:E.
  - specialize (H t r E). lia.
  - cbn. lia.
Qed.

(** Under [basic] the "first time seeing the tag" test is the identity on the
    lowest sequence. *)
Lemma acquire_eq s t b : basic s ->
  sw_acquire s t b =
  if sw_count s =? 0 then ((if b then RWouldBlock else RNoRes), s)
  else (RTok (t_next (get s t)),
        mkSW (sw_count s - 1)
             (upd (sw_tags s) t (mkTag (t_next (get s t) + 1) (t_low (get s t)) (t_pend (get s t))))).
Proof.
  intros [_ H]. unfold sw_acquire. destruct (sw_count s =? 0); [reflexivity|].
  destruct (t_next (get s t) =? 0) eqn:E; [|reflexivity].
  unfold get in *. destruct (lookup (sw_tags s) t) as [r|] eqn:El.
  - specialize (H t r El). lia.
  - reflexivity.
Qed.

Lemma basic_upd s c t r : basic s -> 1 <= t_next r -> basic (mkSW c (upd (sw_tags s) t r)).
Proof.
  intros [Hd H] Hr. split; cbn [sw_tags].
  - now apply nodup_keys_upd.
  - intros t' r'. destruct (Z.eq_dec t' t) as [->|Hne].
    + rewrite lookup_upd_same. now intros [= <-].
    + rewrite lookup_upd_other by exact Hne. apply H.
Qed.

Lemma release_cases s t k :
  (rel_branch s t k = BUnknownTag /\ lookup (sw_tags s) t = None) \/
  (exists r, lookup (sw_tags s) t = Some r /\ get s t = r /\
     ((rel_branch s t k = BLowest /\ t_low r = k /\ k < t_next r) \/
      (rel_branch s t k = BPending /\ t_low r < k < t_next r) \/
      (rel_branch s t k = BBadSeq /\ ~ (t_low r <= k < t_next r)))).
Proof.
  unfold rel_branch, get. destruct (lookup (sw_tags s) t) as [r|] eqn:E; [right|left; auto].
  exists r. split; [reflexivity|]. split; [reflexivity|].
  destruct ((t_low r =? k) && (k <? t_next r)) eqn:E1; [left; split; [reflexivity|lia]|].
  destruct ((t_low r <? k) && (k <? t_next r)) eqn:E2; [right; left|right; right];
    (split; [reflexivity|lia]).
Qed.

Lemma step_basic s o : basic s -> basic (snd (step s o)).
Proof.
  intros Hb. destruct o as [t b|t k]; cbn [step].
  - rewrite acquire_eq by exact Hb. destruct (sw_count s =? 0); cbn [snd]; [exact Hb|].
    apply basic_upd; [exact Hb|]. cbn [t_next]. pose proof (basic_next_nonneg s t Hb). lia.
  - unfold sw_release, sw_release_with.
    destruct (release_cases s t k) as [[-> _]|(r & El & Hg & [[-> _]|[[-> _]|[-> _]]])];
      cbn [snd]; try exact Hb.
    + destruct (drain (t_low (get s t) + 1) (t_pend (get s t))) as [low' q'] eqn:Ed. cbn [snd].
      apply basic_upd; [exact Hb|]. cbn [t_next]. rewrite Hg. destruct Hb as [_ H]. now apply (H t).
    + apply basic_upd; [exact Hb|]. cbn [t_next]. rewrite Hg. destruct Hb as [_ H]. now apply (H t).
Qed.

(** * Count formula (all histories) *)

Definition bal (cap : Z) (s : sw) : Prop := sw_count s = cap - sum_out (sw_tags s).

Lemma lookup_contrib s t :
  match lookup (sw_tags s) t with Some r0 => t_next r0 - t_low r0 | None => 0 end
  = t_next (get s t) - t_low (get s t).
Proof. unfold get. destruct (lookup (sw_tags s) t); reflexivity. Qed.

Lemma step_bal cap s o : basic s -> bal cap s -> bal cap (snd (step s o)).
Proof.
  unfold bal. intros Hb Hc. destruct o as [t b|t k]; cbn [step].
  - rewrite acquire_eq by exact Hb. destruct (sw_count s =? 0); cbn [snd]; [exact Hc|].
    cbn [sw_count sw_tags]. rewrite sum_out_upd, lookup_contrib. cbn [t_next t_low]. lia.
  - unfold sw_release, sw_release_with.
    destruct (release_cases s t k) as [[-> _]|(r & El & Hg & [[-> _]|[[-> _]|[-> _]]])];
      cbn [snd]; try exact Hc.
    + destruct (drain (t_low (get s t) + 1) (t_pend (get s t))) as [low' q'] eqn:Ed. cbn [snd].
      cbn [sw_count sw_tags]. rewrite sum_out_upd, lookup_contrib. cbn [t_next t_low]. lia.
    + cbn [sw_count sw_tags]. rewrite sum_out_upd, lookup_contrib. cbn [t_next t_low]. lia.
Qed.

Lemma run_basic_bal cap : forall ops s, basic s -> bal cap s ->
  basic (snd (run s ops)) /\ bal cap (snd (run s ops)).
Proof.
  induction ops as [|o ops IH]; intros s Hb Hc; cbn [run]; [now split|].
  pose proof (step_basic s o Hb) as Hb'. pose proof (step_bal cap s o Hb Hc) as Hc'.
  destruct (step s o) as [x s']. cbn [snd] in Hb', Hc'.
  specialize (IH s' Hb' Hc'). destruct (run s' ops) as [xs s'']. exact IH.
Qed.

Lemma bal_init cap : bal cap (sw_init cap).
Proof. unfold bal; cbn. lia. Qed.

(** * Rejected operations do not touch the state (all states) *)

Definition rejected (x : res) : bool :=
  match x with RNoRes | RWouldBlock | RValErr => true | _ => false end.

Lemma step_rejected_unchanged s o : rejected (fst (step s o)) = true -> snd (step s o) = s.
Proof.
  destruct o as [t b|t k]; cbn [step].
  - unfold sw_acquire. destruct (sw_count s =? 0); [reflexivity|]. cbn. discriminate.
  - unfold sw_release, sw_release_with. destruct (rel_branch s t k); try reflexivity.
    + destruct (drain _ _). cbn. discriminate.
    + cbn. discriminate.
Qed.

Lemma acquire_at_zero s t b : sw_count s = 0 ->
  sw_acquire s t b = ((if b then RWouldBlock else RNoRes), s).
Proof. intros H. unfold sw_acquire. now rewrite H. Qed.

Lemma acquire_nonzero_grants s t b : sw_count s <> 0 ->
  exists s', sw_acquire s t b = (RTok (t_next (get s t)), s') /\ sw_count s' = sw_count s - 1.
Proof.
  intros H. unfold sw_acquire. destruct (sw_count s =? 0) eqn:E; [lia|].
  eexists; split; reflexivity.
Qed.

(** * Sorting and the pop loop *)

Fixpoint sdesc (l : list Z) : Prop :=
  match l with
  | [] => True
  | x :: r => (forall y, In y r -> y < x) /\ sdesc r
  end.

Lemma ins_In k l x : In x (ins_desc k l) <-> x = k \/ In x l.
Proof.
  induction l as [|a l IH]; cbn [ins_desc In]; [intuition|].
  destruct (a <=? k); cbn [In]; [intuition|]. rewrite IH. intuition.
Qed.

Lemma ins_sdesc k l : sdesc l -> ~ In k l -> sdesc (ins_desc k l).
Proof.
  induction l as [|a l IH]; cbn [ins_desc sdesc In]; intros Hs Hn.
  - split; [intros y []|exact I].
  - destruct Hs as [Ha Hs]. destruct (a <=? k) eqn:E; cbn [sdesc].
    + split; [|split; assumption]. intros y [<-|Hy]; [lia|]. specialize (Ha y Hy). lia.
    + split; [|apply IH; [exact Hs|intuition]].
      intros y Hy. apply ins_In in Hy. destruct Hy as [->|Hy]; [lia|now apply Ha].
Qed.

Lemma sort_In l x : In x (sort_desc l) <-> In x l.
Proof.
  induction l as [|a l IH]; cbn [sort_desc fold_right In]; [reflexivity|].
  fold (sort_desc l). rewrite ins_In, IH. intuition.
Qed.

Lemma sort_sdesc l : NoDup l -> sdesc (sort_desc l).
Proof.
  induction l as [|a l IH]; cbn [sort_desc fold_right]; intros Hd; [exact I|].
  fold (sort_desc l). inversion Hd as [|b m Hn Hd']; subst.
  apply ins_sdesc; [now apply IH|]. now rewrite sort_In.
Qed.

Lemma sdesc_nodup l : sdesc l -> NoDup l.
Proof.
  induction l as [|a l IH]; cbn [sdesc]; intros H; [constructor|].
  destruct H as [Ha Hs]. constructor; [|now apply IH].
  intros Hin. specialize (Ha a Hin). lia.
Qed.

Lemma nodup_snoc (l : list Z) k : NoDup l -> ~ In k l -> NoDup (l ++ [k]).
Proof.
  induction l as [|a l IH]; cbn [app]; intros Hd Hn.
  - constructor; [intros []|constructor].
  - inversion Hd as [|b m Hna Hd']; subst. constructor.
    + rewrite in_app_iff. cbn [In]. intros [H|[H|[]]]; [contradiction|]. subst. apply Hn. now left.
    + apply IH; [exact Hd'|]. intros H. apply Hn. now right.
Qed.

Lemma drain_spec : forall q low, sdesc q -> (forall x, In x q -> low <= x) ->
  low <= fst (drain low q) /\
  (forall x, In x q <-> (low <= x < fst (drain low q) \/ In x (snd (drain low q)))) /\
  sdesc (snd (drain low q)) /\
  (forall x, In x (snd (drain low q)) -> fst (drain low q) < x).
Proof.
  induction q as [|a r IH]; intros low Hs Hlo; cbn [drain].
  - cbn [fst snd In sdesc]. split; [lia|]. split; [intros x; split; [intros []|intros [H|[]]; lia]|].
    split; [exact I|intros x []].
  - destruct Hs as [Ha Hs].
    assert (Hlo' : forall x, In x r -> low <= x) by (intros x Hx; apply Hlo; now right).
    specialize (IH low Hs Hlo'). destruct (drain low r) as [l1 r1]. cbn [fst snd] in IH.
    destruct IH as (H1 & H2 & H3 & H4).
    pose proof (Hlo a (or_introl eq_refl)) as Hla.
    destruct r1 as [|z r1'].
    + assert (Hr : forall y, In y r <-> low <= y < l1).
      { intros y. rewrite H2. cbn [In]. intuition. }
      destruct (l1 =? a) eqn:E; cbn [fst snd].
      * split; [lia|]. split; [|split; [exact I|intros x []]].
        intros x. cbn [In]. rewrite Hr. split; [intros [<-|H]; left; lia|].
        intros [H|[]]. destruct (Z.eq_dec x a) as [->|Hne]; [now left|right; lia].
      * assert (l1 < a).
        { destruct (Z.eq_dec l1 low) as [->|Hne]; [lia|].
          assert (In (l1 - 1) r) by (apply Hr; lia). specialize (Ha _ H). lia. }
        split; [lia|]. split; [|split].
        -- intros x. cbn [In]. rewrite Hr. intuition.
        -- cbn [sdesc]. split; [intros y []|exact I].
        -- intros x [<-|[]]. lia.
    + cbn [fst snd]. split; [exact H1|]. split; [|split].
      * intros x. cbn [In]. rewrite H2. cbn [In]. intuition.
      * cbn [sdesc]. split; [|exact H3]. intros y Hy. apply Ha. apply H2. now right.
      * intros x [<-|Hx]; [|now apply H4].
        assert (In z r) by (apply H2; right; now left).
        specialize (Ha z H). specialize (H4 z (or_introl eq_refl)). lia.
Qed.

(** * Ghost bookkeeping *)

Lemma memt_In x l : memt x l = true <-> In x l.
Proof.
  induction l as [|y l IH]; cbn [memt In]; [split; [discriminate|intros []]|].
  rewrite orb_true_iff, IH. unfold tok_eqb. destruct x as [a b], y as [c d]; cbn [fst snd].
  split; (intros [H|H]; [left|right; exact H]).
  - f_equal; lia.
  - injection H as -> ->. lia.
Qed.

Lemma memt_false x l : memt x l = false <-> ~ In x l.
Proof. rewrite <- memt_In. destruct (memt x l); intuition congruence. Qed.

(** * The window invariant (well-formed histories) *)

Definition tag_ok (s : sw) (g : ghost) (t : Z) : Prop :=
  let r := get s t in
  0 <= t_low r <= t_next r /\
  sdesc (t_pend r) /\
  (forall x, In x (t_pend r) -> t_low r < x < t_next r) /\
  (forall k, In (t, k) (g_granted g) <-> 0 <= k < t_next r) /\
  (forall k, In (t, k) (g_released g) <-> (0 <= k < t_low r \/ In k (t_pend r))).

Definition Inv (s : sw) (g : ghost) : Prop := basic s /\ forall t, tag_ok s g t.

Lemma inv_init cap : Inv (sw_init cap) ghost0.
Proof.
  split; [apply basic_init|]. intros t. unfold tag_ok, get; cbn.
  split; [lia|]. split; [exact I|]. split; [intros x []|].
  split; intros k; (split; [intros []|]); [lia|]. intros [H|[]]. lia.
Qed.

Lemma in_cons_other (t t' k k' : Z) l : t' <> t -> (In (t', k') ((t, k) :: l) <-> In (t', k') l).
Proof. intros Hne. cbn [In]. split; [intros [[= -> _]|H]; [lia|exact H]|now right]. Qed.

Lemma in_cons_same (t k k' : Z) l : In (t, k') ((t, k) :: l) <-> k' = k \/ In (t, k') l.
Proof. cbn [In]. split; (intros [H|H]; [left|right; exact H]); congruence. Qed.

Lemma step_inv s g o :
  Inv s g -> op_ok g o (fst (step s o)) = true ->
  Inv (snd (step s o)) (gstep g o (fst (step s o))).
Proof.
  intros [Hb Ht] Hok. split; [now apply step_basic|].
  destruct o as [t b|t k]; cbn [step] in *.
  - (* acquire *)
    rewrite acquire_eq in * by exact Hb. destruct (sw_count s =? 0) eqn:Ec; cbn [fst snd].
    + destruct b; cbn [gstep]; exact Ht.
    + cbn [gstep]. intros t'. unfold tag_ok. rewrite get_upd.
      destruct (t' =? t) eqn:E.
      * assert (t' = t) by lia; subst t'. clear E.
        destruct (Ht t) as (H1 & H2 & H3 & H4 & H5). cbn [t_next t_low t_pend g_granted g_released].
        split; [lia|]. split; [exact H2|]. split; [intros x Hx; specialize (H3 x Hx); lia|].
        split; [|exact H5]. intros k'. rewrite in_cons_same, H4. lia.
      * destruct (Ht t') as (H1 & H2 & H3 & H4 & H5). cbn [g_granted g_released].
        split; [exact H1|]. split; [exact H2|]. split; [exact H3|]. split; [|exact H5].
        intros k'. rewrite in_cons_other by lia. apply H4.
  - (* release *)
    unfold sw_release, sw_release_with in *.
    destruct (release_cases s t k) as [[Hbr _]|(r & El & Hg & [[Hbr Hk]|[[Hbr Hk]|[Hbr _]]])];
      rewrite Hbr in *; cbn [fst snd gstep] in *; try exact Ht.
    + (* lowest *)
      destruct (drain (t_low (get s t) + 1) (t_pend (get s t))) as [low' q'] eqn:Ed.
      cbn [fst snd gstep op_ok] in *.
      apply andb_true_iff in Hok. destruct Hok as [Hgr Hnr].
      apply memt_In in Hgr. apply negb_true_iff in Hnr. apply memt_false in Hnr.
      destruct (Ht t) as (H1 & H2 & H3 & H4 & H5). rewrite Hg in *.
      apply H4 in Hgr.
      assert (Hlo : forall x, In x (t_pend r) -> t_low r + 1 <= x)
        by (intros x Hx; specialize (H3 x Hx); lia).
      pose proof (drain_spec (t_pend r) (t_low r + 1) H2 Hlo) as Hd.
      rewrite Ed in Hd. cbn [fst snd] in Hd. destruct Hd as (D1 & D2 & D3 & D4).
      assert (Hle : low' <= t_next r).
      { destruct (Z.eq_dec low' (t_low r + 1)) as [->|Hne]; [lia|].
        assert (In (low' - 1) (t_pend r)) by (apply D2; left; lia).
        specialize (H3 _ H). lia. }
      intros t'. unfold tag_ok. rewrite get_upd. destruct (t' =? t) eqn:E.
      * assert (t' = t) by lia; subst t'. clear E.
        cbn [t_next t_low t_pend g_granted g_released].
        split; [lia|]. split; [exact D3|]. split.
        { intros x Hx. split; [now apply D4|]. assert (In x (t_pend r)) by (apply D2; now right).
          specialize (H3 _ H). lia. }
        split; [exact H4|]. intros k'. rewrite in_cons_same, H5. split.
        { intros [->|[Hlt|Hin]]; [left; lia|left; lia|].
          apply D2 in Hin. destruct Hin as [Hin|Hin]; [left; lia|now right]. }
        { intros [Hlt|Hin].
          - destruct (Z.eq_dec k' k) as [->|Hne]; [now left|right].
            destruct (Z_lt_dec k' (t_low r)); [left; lia|right]. apply D2. left. lia.
          - right. right. apply D2. now right. }
      * destruct (Ht t') as (G1 & G2 & G3 & G4 & G5). cbn [g_granted g_released].
        split; [exact G1|]. split; [exact G2|]. split; [exact G3|]. split; [exact G4|].
        intros k'. rewrite in_cons_other by lia. apply G5.
    + (* pending *)
      cbn [op_ok] in Hok. apply andb_true_iff in Hok. destruct Hok as [Hgr Hnr].
      apply negb_true_iff in Hnr. apply memt_false in Hnr.
      destruct (Ht t) as (H1 & H2 & H3 & H4 & H5). rewrite Hg in *.
      assert (Hnp : ~ In k (t_pend r)) by (intros Hin; apply Hnr; apply H5; now right).
      intros t'. unfold tag_ok. rewrite get_upd. destruct (t' =? t) eqn:E.
      * assert (t' = t) by lia; subst t'. clear E.
        cbn [t_next t_low t_pend g_granted g_released].
        split; [exact H1|]. split.
        { apply sort_sdesc. apply nodup_snoc; [now apply sdesc_nodup|exact Hnp]. }
        split.
        { intros x Hx. apply (proj1 (sort_In _ _)) in Hx. apply (proj1 (in_app_iff _ _ _)) in Hx.
          destruct Hx as [Hx|[<-|[]]]; [now apply H3|exact Hk]. }
        split; [exact H4|]. intros k'. rewrite in_cons_same, H5, sort_In, in_app_iff. cbn [In].
        intuition.
      * destruct (Ht t') as (G1 & G2 & G3 & G4 & G5). cbn [g_granted g_released].
        split; [exact G1|]. split; [exact G2|]. split; [exact G3|]. split; [exact G4|].
        intros k'. rewrite in_cons_other by lia. apply G5.
Qed.

Lemma grun_inv : forall ops s g, Inv s g -> wf_from s g ops = true ->
  Inv (fst (grun s g ops)) (snd (grun s g ops)).
Proof.
  induction ops as [|o ops IH]; intros s g Hi Hw; cbn [grun wf_from] in *; [exact Hi|].
  pose proof (step_inv s g o Hi) as Hs. destruct (step s o) as [x s']. cbn [fst snd] in Hs.
  apply andb_true_iff in Hw. destruct Hw as [Hok Hw]. apply IH; [now apply Hs|exact Hw].
Qed.

Lemma grun_is_run : forall ops s g, fst (grun s g ops) = snd (run s ops).
Proof.
  induction ops as [|o ops IH]; intros s g; cbn [grun run]; [reflexivity|].
  destruct (step s o) as [x s']. rewrite IH. destruct (run s' ops). reflexivity.
Qed.

Lemma wf_inv cap ops : wf cap ops = true ->
  Inv (fst (grun (sw_init cap) ghost0 ops)) (snd (grun (sw_init cap) ghost0 ops)).
Proof. intros H. apply grun_inv; [apply inv_init|exact H]. Qed.

Lemma wf_strict_from_wf : forall ops s g, wf_strict_from s g ops = true -> wf_from s g ops = true.
Proof.
  induction ops as [|o ops IH]; intros s g; cbn [wf_strict_from wf_from]; [reflexivity|].
  destruct (step s o) as [x s']. intros H. apply andb_true_iff in H. destruct H as [H1 H2].
  apply andb_true_iff. split; [|now apply IH].
  destruct o as [t b|t k]; cbn [op_strict op_ok] in *; [now destruct x|].
  destruct x; try reflexivity. exact H1.
Qed.

(** * Consequences for a state satisfying the invariant *)

Lemma inv_entries s g t r : Inv s g -> In (t, r) (sw_tags s) -> get s t = r.
Proof. intros [[Hd _] _] Hin. apply get_known. now apply in_lookup. Qed.

Lemma inv_sum_nonneg s g : Inv s g -> 0 <= sum_out (sw_tags s).
Proof.
  intros Hi. apply sum_out_nonneg. intros t r Hin.
  pose proof (inv_entries s g t r Hi Hin) as Hg. destruct Hi as [_ Ht].
  destruct (Ht t) as (H1 & _). rewrite Hg in H1. lia.
Qed.

Definition least_unreleased (g : ghost) (t m : Z) : Prop :=
  0 <= m /\ (forall j, 0 <= j < m -> In (t, j) (g_released g)) /\ ~ In (t, m) (g_released g).

Lemma inv_lowest_least s g t : Inv s g -> least_unreleased g t (t_low (get s t)).
Proof.
  intros [_ Ht]. destruct (Ht t) as (H1 & H2 & H3 & H4 & H5). split; [lia|]. split.
  - intros j Hj. apply H5. now left.
  - intros Hin. apply H5 in Hin. destruct Hin as [Hlt|Hin]; [lia|]. specialize (H3 _ Hin). lia.
Qed.

Lemma least_unreleased_unique g t m m' :
  least_unreleased g t m -> least_unreleased g t m' -> m = m'.
Proof.
  intros (H1 & H2 & H3) (H1' & H2' & H3').
  destruct (Z_lt_dec m m'); [exfalso; apply H3; apply H2'; lia|].
  destruct (Z_lt_dec m' m); [exfalso; apply H3'; apply H2; lia|]. lia.
Qed.

Lemma inv_quiescent s g cap : Inv s g -> bal cap s -> quiescent g = true ->
  sw_count s = cap /\ (forall t, t_pend (get s t) = [] /\ t_low (get s t) = t_next (get s t)).
Proof.
  intros Hi Hc Hq. unfold quiescent in Hq. rewrite forallb_forall in Hq.
  assert (Hall : forall t, t_pend (get s t) = [] /\ t_low (get s t) = t_next (get s t)).
  { intros t. destruct Hi as [_ Ht]. destruct (Ht t) as (H1 & H2 & H3 & H4 & H5).
    assert (Heq : t_low (get s t) = t_next (get s t)).
    { destruct (Z.eq_dec (t_low (get s t)) (t_next (get s t))) as [|Hne]; [assumption|exfalso].
      assert (Hgr : In (t, t_low (get s t)) (g_granted g)) by (apply H4; lia).
      apply Hq in Hgr. apply memt_In in Hgr. apply H5 in Hgr.
      destruct Hgr as [Hlt|Hin]; [lia|]. specialize (H3 _ Hin). lia. }
    split; [|exact Heq]. destruct (t_pend (get s t)) as [|x q]; [reflexivity|].
    specialize (H3 x (or_introl eq_refl)). lia. }
  split; [|exact Hall]. unfold bal in Hc. rewrite Hc, sum_out_zero; [lia|].
  intros t r Hin. pose proof (inv_entries s g t r Hi Hin) as Hg.
  destruct (Hall t) as [_ He]. now rewrite Hg in He.
Qed.

(** Releasing the lowest token of a tag with something outstanding. *)
Lemma release_lowest_run s g t : Inv s g ->
  t_low (get s t) < t_next (get s t) ->
  exists s' m,
    sw_release s t (t_low (get s t)) = (ROk, s') /\
    t_low (get s t) < m <= t_next (get s t) /\
    (forall j, t_low (get s t) < j < m -> In j (t_pend (get s t))) /\
    ~ In m (t_pend (get s t)) /\
    sw_count s' = sw_count s + (m - t_low (get s t)) /\
    t_low (get s' t) = m /\ t_next (get s' t) = t_next (get s t) /\
    (forall x, In x (t_pend (get s' t)) <-> In x (t_pend (get s t)) /\ m < x) /\
    (forall t', t' <> t -> get s' t' = get s t').
Proof.
  intros [Hb Ht] Hlt. destruct (Ht t) as (H1 & H2 & H3 & H4 & H5).
  unfold sw_release, sw_release_with.
  destruct (release_cases s t (t_low (get s t)))
    as [[_ Hn]|(r & El & Hg & [[Hbr Hk]|[[Hbr Hk]|[Hbr Hk]]])].
  - destruct Hb as [_ Hb]. unfold get in Hlt. rewrite Hn in Hlt. cbn in Hlt. lia.
  - rewrite Hbr.
    assert (Hlo : forall x, In x (t_pend (get s t)) -> t_low (get s t) + 1 <= x)
      by (intros x Hx; specialize (H3 x Hx); lia).
    pose proof (drain_spec _ (t_low (get s t) + 1) H2 Hlo) as Hd.
    destruct (drain (t_low (get s t) + 1) (t_pend (get s t))) as [low' q'].
    cbn [fst snd] in Hd. destruct Hd as (D1 & D2 & D3 & D4).
    eexists. exists low'. split; [reflexivity|].
    assert (Hle : low' <= t_next (get s t)).
    { destruct (Z.eq_dec low' (t_low (get s t) + 1)) as [->|Hne]; [lia|].
      assert (In (low' - 1) (t_pend (get s t))) by (apply D2; left; lia).
      specialize (H3 _ H). lia. }
    split; [lia|]. split; [intros j Hj; apply D2; left; lia|]. split.
    { intros Hin. apply D2 in Hin. destruct Hin as [Hin|Hin]; [lia|]. specialize (D4 _ Hin). lia. }
    cbn [sw_count]. split; [lia|]. rewrite !get_upd, Z.eqb_refl. cbn [t_low t_next t_pend].
    split; [reflexivity|]. split; [reflexivity|]. split.
    { intros x. split.
      - intros Hx. split; [apply D2; now right|now apply D4].
      - intros [Hx Hm]. apply D2 in Hx. destruct Hx as [Hx|Hx]; [lia|exact Hx]. }
    intros t' Hne. rewrite get_upd. destruct (t' =? t) eqn:E; [lia|reflexivity].
  - rewrite Hg in *. lia.
  - rewrite Hg in *. lia.
Qed.

(** An out-of-order release (any state). *)
Lemma release_pending_frees_nothing s t k :
  t_low (get s t) < k < t_next (get s t) ->
  exists s',
    sw_release s t k = (ROk, s') /\ sw_count s' = sw_count s /\
    t_low (get s' t) = t_low (get s t) /\ t_next (get s' t) = t_next (get s t) /\
    t_pend (get s' t) = sort_desc (t_pend (get s t) ++ [k]) /\
    (forall t', t' <> t -> get s' t' = get s t').
Proof.
  intros Hk. unfold sw_release, sw_release_with.
  destruct (release_cases s t k) as [[_ Hn]|(r & El & Hg & [[Hbr Hk']|[[Hbr Hk']|[Hbr Hk']]])].
  - unfold get in Hk. rewrite Hn in Hk. cbn in Hk. lia.
  - rewrite Hg in Hk. lia.
  - rewrite Hbr. eexists. split; [reflexivity|]. cbn [sw_count]. split; [reflexivity|].
    rewrite !get_upd, Z.eqb_refl. cbn [t_low t_next t_pend]. repeat split.
    intros t' Hne. rewrite get_upd. destruct (t' =? t) eqn:E; [lia|reflexivity].
  - rewrite Hg in Hk. lia.
Qed.

(** Releases that are rejected (any state). *)
Lemma release_unknown_tag s t k : known s t = false -> sw_release s t k = (RValErr, s).
Proof.
  unfold known, sw_release, sw_release_with, rel_branch.
  destruct (lookup (sw_tags s) t); [discriminate|reflexivity].
Qed.

Lemma release_outside_window s t k :
  ~ (t_low (get s t) <= k < t_next (get s t)) -> sw_release s t k = (RValErr, s).
Proof.
  intros H. unfold sw_release, sw_release_with.
  destruct (release_cases s t k) as [[-> _]|(r & El & Hg & [[Hbr Hk]|[[Hbr Hk]|[-> _]]])];
    try reflexivity; rewrite Hg in *; lia.
Qed.

(** The lowest outstanding token is always accepted (any state). *)
Lemma release_lowest_accepted s t :
  t_low (get s t) < t_next (get s t) -> fst (sw_release s t (t_low (get s t))) = ROk.
Proof.
  intros Hlt. unfold sw_release, sw_release_with.
  destruct (release_cases s t (t_low (get s t)))
    as [[_ Hn]|(r & El & Hg & [[-> _]|[[_ Hk']|[_ Hk']]])].
  - unfold get in Hlt. rewrite Hn in Hlt. cbn in Hlt. lia.
  - now destruct (drain _ _).
  - rewrite Hg in *. lia.
  - rewrite Hg in *. lia.
Qed.

(** A token that was never granted is rejected (invariant states). *)
Lemma release_never_granted_rejected s g t k : Inv s g ->
  ~ In (t, k) (g_granted g) -> sw_release s t k = (RValErr, s).
Proof.
  intros [_ Ht] Hn. destruct (Ht t) as (H1 & _ & _ & H4 & _).
  apply release_outside_window. intros Hin. apply Hn. apply H4. lia.
Qed.

(** The code before the repair (rel_branch_old): the edge lowest = next = k
    was accepted. *)
Lemma release_old_edge_accepted s t k : known s t = true ->
  t_low (get s t) = k -> fst (sw_release_old s t k) = ROk.
Proof.
  unfold known, sw_release_old, sw_release_with, rel_branch_old, get.
  destruct (lookup (sw_tags s) t) as [r|]; [|discriminate]. intros _ ->.
  rewrite Z.eqb_refl. now destruct (drain _ _).
Qed.

(** * Tokens are handed out 0,1,2,... per tag (all histories) *)

Lemma zseq_app a n m : zseq a (n + m) = zseq a n ++ zseq (a + Z.of_nat n) m.
Proof.
  revert a. induction n as [|n IH]; intros a; cbn [zseq Nat.add app].
  - now rewrite Z.add_0_r.
  - rewrite IH. do 3 f_equal. lia.
Qed.

Lemma grants_run t : forall ops s, basic s ->
  grants_of t ops (fst (run s ops)) =
    zseq (t_next (get s t)) (length (grants_of t ops (fst (run s ops)))) /\
  t_next (get (snd (run s ops)) t) =
    t_next (get s t) + Z.of_nat (length (grants_of t ops (fst (run s ops)))).
Proof.
  induction ops as [|o ops IH]; intros s Hb; cbn [run].
  - cbn. split; [reflexivity|lia].
  - pose proof (step_basic s o Hb) as Hb'.
    destruct (step s o) as [x s'] eqn:Es. cbn [snd] in Hb'.
    specialize (IH s' Hb'). destruct (run s' ops) as [xs s'']. cbn [fst snd] in *.
    destruct IH as [IH1 IH2].
    destruct o as [t' b|t' k]; cbn [step] in Es.
    + rewrite acquire_eq in Es by exact Hb. destruct (sw_count s =? 0).
      * injection Es as <- <-. destruct b; cbn [grants_of]; split; assumption.
      * injection Es as <- <-. cbn [grants_of]. rewrite get_upd in IH1, IH2.
        destruct (t' =? t) eqn:E.
        -- assert (t' = t) by lia; subst t'. rewrite Z.eqb_refl in IH1, IH2.
           cbn [t_next] in IH1, IH2. cbn [length zseq]. split; [now rewrite <- IH1|lia].
        -- destruct (t =? t') eqn:E'; [lia|]. split; assumption.
    + assert (Hn : t_next (get s' t) = t_next (get s t)).
      { unfold sw_release, sw_release_with in Es.
        destruct (release_cases s t' k) as [[Hbr _]|(r & El & Hg & [[Hbr _]|[[Hbr _]|[Hbr _]]])];
          rewrite Hbr in Es.
        - now injection Es as <- <-.
        - destruct (drain _ _) as [l' q']. injection Es as <- <-. rewrite get_upd.
          destruct (t =? t') eqn:E; [|reflexivity]. assert (t = t') by lia; subst. reflexivity.
        - injection Es as <- <-. rewrite get_upd.
          destruct (t =? t') eqn:E; [|reflexivity]. assert (t = t') by lia; subst. reflexivity.
        - now injection Es as <- <-. }
      rewrite Hn in IH1, IH2. destruct x; cbn [grants_of]; split; assumption.
Qed.

(** * TaskSemaphore *)

Lemma ts_conservation : forall ops v,
  snd (ts_run v ops) =
    v - count_tres TAcquired (fst (ts_run v ops)) + count_tres TReleased (fst (ts_run v ops)).
Proof.
  unfold count_tres.
  induction ops as [|o ops IH]; intros v; cbn [ts_run]; [cbn; lia|].
  destruct (ts_step v o) as [x v'] eqn:Es. specialize (IH v').
  destruct (ts_run v' ops) as [xs v'']. cbn [fst snd] in *. rewrite IH.
  destruct o as [b|]; cbn [ts_step] in Es.
  - destruct (v =? 0) eqn:E; injection Es as <- <-.
    + destruct b; cbn [filter]; lia.
    + cbn [filter length]. lia.
  - injection Es as <- <-. cbn [filter length]. lia.
Qed.

Lemma ts_nonneg : forall ops v, 0 <= v -> 0 <= snd (ts_run v ops).
Proof.
  induction ops as [|o ops IH]; intros v Hv; cbn [ts_run]; [exact Hv|].
  destruct (ts_step v o) as [x v'] eqn:Es. specialize (IH v').
  destruct (ts_run v' ops) as [xs v'']. cbn [snd] in *. apply IH.
  destruct o as [b|]; cbn [ts_step] in Es.
  - destruct (v =? 0) eqn:E; injection Es as <- <-; lia.
  - injection Es as <- <-. lia.
Qed.

Lemma ts_zero_rejects v b : v = 0 -> ts_step v (TAcq b) = ((if b then TWouldBlock else TNoRes), v).
Proof. intros ->. reflexivity. Qed.
