(** Termination of the waiting loop (model/WaitLoop.v): with every future that can
    ever be associated drawn from a finite universe [U], the loop is left after at
    most [2 * (2 * |U| + pending removals) + 2] rounds -- it never runs out of
    fuel.  Measure: twice the number of futures of [U] not yet complete, plus the
    removals still to run; every round in which anything happens lowers it, and
    of two rounds in which nothing happens the second one leaves the loop. *)
From Coq Require Import List Arith Bool Lia.
From S3V Require Import model.WaitLoop proofs.WaitLoopProofs.
Import ListNotations.

Definition cnt (U : list nat) (d : list nat) : nat := length (filter (fun x => negb (mem x d)) U).
Definition mu (U : list nat) (s : st) : nat := 2 * cnt U (done s) + length (lagged s).

Definition closed (U : list nat) (sc : script) : Prop :=
  forall f x, In x (kids (fut_of sc f)) -> In x U.

Lemma mem_cons u f d : mem u (f :: d) = Nat.eqb u f || mem u d.
Proof. reflexivity. Qed.

Lemma cnt_cons_le U f d : cnt U (f :: d) <= cnt U d.
Proof.
  unfold cnt. induction U as [|u U IH]; cbn [filter]; [lia|].
  rewrite mem_cons.
  destruct (Nat.eqb u f); cbn [orb negb]; destruct (mem u d); cbn [negb length]; lia.
Qed.

Lemma cnt_cons_lt U f d : In f U -> ~ In f d -> cnt U (f :: d) < cnt U d.
Proof.
  unfold cnt. induction U as [|u U IH]; intros HU Hd; [contradiction|].
  cbn [filter]. destruct HU as [->|HU].
  - assert (E1 : mem f (f :: d) = true) by (apply mem_In; left; reflexivity).
    assert (E2 : mem f d = false) by (apply mem_false; exact Hd).
    rewrite E1, E2. cbn [negb length]. pose proof (cnt_cons_le U f d) as H. unfold cnt in H. lia.
  - specialize (IH HU Hd).
    destruct (mem u (f :: d)) eqn:E1; destruct (mem u d) eqn:E2; cbn [negb length]; try lia.
    exfalso. apply mem_false in E1. apply mem_In in E2. apply E1. right. exact E2.
Qed.

(** the futures ever associated stay inside the universe *)
Definition inU (U : list nat) (s : st) : Prop := forall x, In x (added s) -> In x U.

Lemma inU_complete U sc s f : closed U sc -> inU U s -> inU U (complete sc s f).
Proof.
  intros C H x Hx. destruct (complete_cases sc s f) as [E | (_ & _ & _ & Ea & _)].
  - rewrite E in Hx. apply H, Hx.
  - rewrite Ea in Hx. apply in_app_iff in Hx as [Hx|Hx]; [apply H, Hx | eapply C, Hx].
Qed.

Lemma inU_flush U s : inU U s -> inU U (flush s).
Proof. intros H x Hx. apply H, Hx. Qed.

Lemma inU_steps U sc s t : closed U sc -> inU U s -> steps sc s t -> inU U t.
Proof.
  intros C H Hst. induction Hst; [exact H | apply inU_complete; assumption | apply inU_flush; assumption].
Qed.

(** one completion: the measure does not grow, and stays the same only if nothing happened *)
Lemma mu_complete U sc s f : Inv s -> inU U s ->
  mu U (complete sc s f) <= mu U s /\ (mu U (complete sc s f) = mu U s -> complete sc s f = s).
Proof.
  intros I HU. destruct (complete_cases sc s f) as [E | (Ha & Hd & Ed & _ & [(_ & _ & El) | (_ & _ & El)])].
  - rewrite E. split; [lia | reflexivity].
  - assert (Hf : In f U) by (apply HU, (assoc_added s I), Ha).
    pose proof (cnt_cons_lt U f (done s) Hf Hd) as Hlt.
    unfold mu. rewrite Ed, El. cbn [length]. split; [lia | intros H; lia].
  - assert (Hf : In f U) by (apply HU, (assoc_added s I), Ha).
    pose proof (cnt_cons_lt U f (done s) Hf Hd) as Hlt.
    unfold mu. rewrite Ed, El. split; [lia | intros H; lia].
Qed.

Lemma mu_completes U sc l : forall s, closed U sc -> Inv s -> inU U s ->
  mu U (completes sc s l) <= mu U s /\ (mu U (completes sc s l) = mu U s -> completes sc s l = s).
Proof.
  unfold completes. induction l as [|f l IH]; intros s C I HU; cbn [fold_left]; [split; [lia | reflexivity]|].
  destruct (mu_complete U sc s f I HU) as (H1 & H2).
  destruct (IH (complete sc s f) C (Inv_complete sc s f I) (inU_complete U sc s f C HU)) as (H3 & H4).
  split; [lia|]. intros H.
  assert (E1 : mu U (complete sc s f) = mu U s) by lia.
  specialize (H2 E1). rewrite H2 in *. apply H4. exact H.
Qed.

Lemma rms_nil (a : list nat) : fold_left (fun a f => rm f a) [] a = a.
Proof. reflexivity. Qed.

Lemma mu_flush U s : mu U (flush s) <= mu U s /\ (mu U (flush s) = mu U s -> flush s = s).
Proof.
  unfold mu, flush. cbn [done lagged length]. split; [lia|].
  intros H. destruct s as [a d l ad]. cbn in *.
  destruct l as [|x l]; [reflexivity | cbn [length] in H; lia].
Qed.

Lemma set_eqb_refl a : set_eqb a a = true.
Proof.
  unfold set_eqb. assert (H : subset a a = true) by (apply subset_In; intros x Hx; exact Hx).
  rewrite H. reflexivity.
Qed.

Lemma loop_verdict U sc fuel : forall s W bg acc,
  closed U sc -> Inv s -> inU U s ->
  (2 * mu U s + 2 <= fuel \/ (W = assoc s /\ 2 * mu U s + 1 <= fuel)) ->
  snd (fst (loop sc fuel s W bg acc)) = Exit.
Proof.
  induction fuel as [|fuel IH]; intros s W bg acc C I HU Hf; [lia|].
  cbn [loop]. destruct W as [|w W]; [reflexivity|].
  set (b := hd ([], []) bg).
  set (s1 := completes sc s (w :: W)).
  set (s2 := completes sc s1 (fst b)).
  set (s2' := completes sc s2 (snd b)).
  set (s3 := flush s2').
  assert (J1 : Inv s1) by exact (Inv_steps sc s s1 I (steps_completes sc _ s)).
  assert (J2 : Inv s2) by exact (Inv_steps sc s1 s2 J1 (steps_completes sc _ s1)).
  assert (J2' : Inv s2') by exact (Inv_steps sc s2 s2' J2 (steps_completes sc _ s2)).
  assert (J3 : Inv s3) by exact (Inv_flush s2' J2').
  assert (U1 : inU U s1) by exact (inU_steps U sc s s1 C HU (steps_completes sc _ s)).
  assert (U2 : inU U s2) by exact (inU_steps U sc s1 s2 C U1 (steps_completes sc _ s1)).
  assert (U2' : inU U s2') by exact (inU_steps U sc s2 s2' C U2 (steps_completes sc _ s2)).
  assert (U3 : inU U s3) by exact (inU_flush U s2' U2').
  destruct (mu_completes U sc (w :: W) s C I HU) as (L1 & E1).
  destruct (mu_completes U sc (fst b) s1 C J1 U1) as (L2 & E2).
  destruct (mu_completes U sc (snd b) s2 C J2 U2) as (L3 & E3).
  destruct (mu_flush U s2') as (L4 & E4).
  fold s1 in L1, E1. fold s2 in L2, E2. fold s2' in L3, E3. fold s3 in L4, E4.
  destruct (set_eqb (w :: W) (assoc s2)) eqn:E; [reflexivity|].
  destruct (Nat.eq_dec (mu U s3) (mu U s)) as [Em | Nm].
  - (* nothing happened in this round *)
    assert (X4 : s3 = s2') by (apply E4; lia).
    assert (X3 : s2' = s2) by (apply E3; lia).
    assert (X2 : s2 = s1) by (apply E2; lia).
    assert (X1 : s1 = s) by (apply E1; lia).
    destruct Hf as [Hf | (EW & Hf)].
    + apply IH; [exact C | exact J3 | exact U3 |]. right. split; [congruence | lia].
    + exfalso. rewrite X2, X1, <- EW, set_eqb_refl in E. discriminate.
  - apply IH; [exact C | exact J3 | exact U3 |]. left. destruct Hf as [Hf | (_ & Hf)]; lia.
Qed.

Lemma filter_len_le {A} (p : A -> bool) (l : list A) : length (filter p l) <= length l.
Proof. induction l as [|x l IH]; cbn [filter length]; [lia|]. destruct (p x); cbn [length]; lia. Qed.

Theorem run_never_out_of_fuel U sc init pre bg fuel :
  closed U sc -> (forall x, In x init -> In x U) ->
  4 * length U + 2 <= fuel ->
  snd (fst (run sc init pre bg fuel)) = Exit.
Proof.
  intros C HI Hf. unfold run.
  set (s0 := init_state init). set (s1 := completes sc s0 pre).
  assert (I0 : Inv s0) by apply Inv_init.
  assert (U0 : inU U s0) by (intros x Hx; apply HI, Hx).
  assert (I1 : Inv s1) by exact (Inv_steps sc s0 s1 I0 (steps_completes sc _ s0)).
  assert (U1 : inU U s1) by exact (inU_steps U sc s0 s1 C U0 (steps_completes sc _ s0)).
  apply (loop_verdict U); [exact C | apply Inv_flush; exact I1 | apply inU_flush; exact U1 |].
  left. unfold mu. cbn [flush lagged done length].
  assert (H : cnt U (done s1) <= length U) by (unfold cnt; apply filter_len_le).
  lia.
Qed.
