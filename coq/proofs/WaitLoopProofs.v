(** Proofs about model/WaitLoop.v: when the waiting loop of a failed submission
    task is left, every future ever associated with the transfer has completed,
    and none can be added afterwards -- for every script of children, every
    choice of lagging removals and every pattern of futures completing on their
    own. *)
From Coq Require Import List Arith Bool Lia.
From S3V Require Import model.WaitLoop.
Import ListNotations.

Lemma mem_In x l : mem x l = true <-> In x l.
Proof.
  unfold mem. rewrite existsb_exists. split.
  - intros [y [Hy He]]. apply Nat.eqb_eq in He. subst. exact Hy.
  - intros H. exists x. split; [exact H | apply Nat.eqb_refl].
Qed.

Lemma mem_false x l : mem x l = false <-> ~ In x l.
Proof.
  rewrite <- mem_In. destruct (mem x l); split; intros H.
  - discriminate.
  - exfalso. apply H. reflexivity.
  - intros C. discriminate.
  - reflexivity.
Qed.

Lemma rm_In x y l : In x (rm y l) <-> In x l /\ x <> y.
Proof.
  unfold rm. rewrite filter_In. split.
  - intros [H1 H2]. split; [exact H1|]. intros ->. rewrite Nat.eqb_refl in H2. discriminate.
  - intros [H1 H2]. split; [exact H1|]. destruct (Nat.eqb y x) eqn:E; [apply Nat.eqb_eq in E; congruence | reflexivity].
Qed.

Lemma rms_In x l : forall a, In x (fold_left (fun a f => rm f a) l a) <-> In x a /\ ~ In x l.
Proof.
  induction l as [|y l IH]; intros a; cbn [fold_left].
  - split; [intros H; split; [exact H | intros []] | intros [H _]; exact H].
  - rewrite IH, rm_In. split.
    + intros [[H1 H2] H3]. split; [exact H1|]. intros [C|C]; [congruence | exact (H3 C)].
    + intros [H1 H2]. split; [split; [exact H1|] |]; intros C; apply H2; [left; congruence | right; exact C].
Qed.

Lemma subset_In a b : subset a b = true <-> (forall x, In x a -> In x b).
Proof.
  unfold subset. rewrite forallb_forall. split; intros H x Hx; [apply mem_In, H, Hx | apply mem_In, H, Hx].
Qed.

Lemma set_eqb_In a b : set_eqb a b = true -> forall x, In x a <-> In x b.
Proof.
  unfold set_eqb. intros H. apply andb_prop in H as [H1 H2].
  rewrite subset_In in H1, H2. intros x. split; [apply H1 | apply H2].
Qed.

(** ** The invariant *)
Record Inv (s : st) : Prop := mkInv {
  running_assoc : forall x, In x (added s) -> ~ In x (done s) -> In x (assoc s);
  lagged_done : forall x, In x (lagged s) -> In x (done s);
  assoc_added : forall x, In x (assoc s) -> In x (added s)
}.

Definition AllDone (s : st) : Prop := forall x, In x (added s) -> In x (done s).

Lemma Inv_init init : Inv (init_state init).
Proof. constructor; cbn; intros x H; try exact H; try contradiction. intros _. exact H. Qed.

Lemma complete_cases sc s f :
  complete sc s f = s \/
  (In f (assoc s) /\ ~ In f (done s) /\
   done (complete sc s f) = f :: done s /\
   added (complete sc s f) = added s ++ kids (fut_of sc f) /\
   ((lag (fut_of sc f) = true /\ assoc (complete sc s f) = assoc s ++ kids (fut_of sc f)
     /\ lagged (complete sc s f) = f :: lagged s) \/
    (lag (fut_of sc f) = false /\ assoc (complete sc s f) = rm f (assoc s ++ kids (fut_of sc f))
     /\ lagged (complete sc s f) = lagged s))).
Proof.
  unfold complete.
  destruct (mem f (assoc s)) eqn:Ha; cbn [andb]; [|left; reflexivity].
  destruct (mem f (done s)) eqn:Hd; cbn [negb]; [left; reflexivity|].
  right. apply mem_In in Ha. apply mem_false in Hd.
  destruct (lag (fut_of sc f)) eqn:Hl; cbn; repeat split; auto.
Qed.

Lemma Inv_complete sc s f : Inv s -> Inv (complete sc s f).
Proof.
  intros I. destruct (complete_cases sc s f) as [E | (Ha & Hd & Ed & Ead & [(Hl & Eas & El) | (Hl & Eas & El)])].
  - rewrite E. exact I.
  - constructor; rewrite ?Ed, ?Ead, ?Eas, ?El.
    + intros x Hx Hn. apply in_app_iff. apply in_app_iff in Hx as [Hx|Hx]; [left | right; exact Hx].
      apply (running_assoc s I); [exact Hx | intros C; apply Hn; right; exact C].
    + intros x [->|Hx]; [left; reflexivity | right; apply (lagged_done s I), Hx].
    + intros x Hx. apply in_app_iff. apply in_app_iff in Hx as [Hx|Hx]; [left; apply (assoc_added s I), Hx | right; exact Hx].
  - constructor; rewrite ?Ed, ?Ead, ?Eas, ?El.
    + intros x Hx Hn. apply rm_In. split.
      * apply in_app_iff. apply in_app_iff in Hx as [Hx|Hx]; [left | right; exact Hx].
        apply (running_assoc s I); [exact Hx | intros C; apply Hn; right; exact C].
      * intros ->. apply Hn. left. reflexivity.
    + intros x Hx. right. apply (lagged_done s I), Hx.
    + intros x Hx. apply rm_In in Hx as [Hx _]. apply in_app_iff.
      apply in_app_iff in Hx as [Hx|Hx]; [left; apply (assoc_added s I), Hx | right; exact Hx].
Qed.

Lemma Inv_flush s : Inv s -> Inv (flush s).
Proof.
  intros I. constructor; cbn.
  - intros x Hx Hn. apply rms_In. split; [apply (running_assoc s I); assumption|].
    intros C. apply Hn, (lagged_done s I), C.
  - intros x [].
  - intros x Hx. apply rms_In in Hx as [Hx _]. apply (assoc_added s I), Hx.
Qed.

Lemma done_mono_complete sc s f x : In x (done s) -> In x (done (complete sc s f)).
Proof.
  intros H. destruct (complete_cases sc s f) as [E | (_ & _ & Ed & _)]; [rewrite E; exact H | rewrite Ed; right; exact H].
Qed.

Lemma added_mono_complete sc s f x : In x (added s) -> In x (added (complete sc s f)).
Proof.
  intros H. destruct (complete_cases sc s f) as [E | (_ & _ & _ & Ea & _)]; [rewrite E; exact H | rewrite Ea; apply in_app_iff; left; exact H].
Qed.

(** ** Reachability by completions and removal flushes *)
Inductive steps (sc : script) (s : st) : st -> Prop :=
| steps_refl : steps sc s s
| steps_complete t f : steps sc s t -> steps sc s (complete sc t f)
| steps_flush t : steps sc s t -> steps sc s (flush t).

Lemma steps_trans sc a b c : steps sc a b -> steps sc b c -> steps sc a c.
Proof. intros Hab Hbc. induction Hbc; [exact Hab | apply steps_complete; exact IHHbc | apply steps_flush; exact IHHbc]. Qed.

Lemma steps_completes sc l : forall s, steps sc s (completes sc s l).
Proof.
  unfold completes. induction l as [|f l IH]; intros s; cbn [fold_left]; [apply steps_refl|].
  eapply steps_trans; [apply steps_complete, steps_refl | apply IH].
Qed.

Lemma Inv_steps sc s t : Inv s -> steps sc s t -> Inv t.
Proof. intros I H. induction H; [exact I | apply Inv_complete; exact IHsteps | apply Inv_flush; exact IHsteps]. Qed.

Lemma done_mono sc s t x : steps sc s t -> In x (done s) -> In x (done t).
Proof. intros H Hx. induction H; [exact Hx | apply done_mono_complete; exact IHsteps | exact IHsteps]. Qed.

Lemma added_mono sc s t x : steps sc s t -> In x (added s) -> In x (added t).
Proof. intros H Hx. induction H; [exact Hx | apply added_mono_complete; exact IHsteps | exact IHsteps]. Qed.

(** nothing is running: nothing can happen any more *)
Lemma AllDone_complete sc s f : Inv s -> AllDone s -> complete sc s f = s.
Proof.
  intros I A. destruct (complete_cases sc s f) as [E | (Ha & Hd & _)]; [exact E|].
  exfalso. apply Hd, A, (assoc_added s I), Ha.
Qed.

Lemma AllDone_steps sc s t : Inv s -> AllDone s -> steps sc s t -> AllDone t /\ added t = added s /\ Inv t.
Proof.
  intros I A H. induction H as [| t f H IH | t H IH].
  - split; [exact A | split; [reflexivity | exact I]].
  - destruct IH as (At & Et & It). rewrite (AllDone_complete sc t f It At). split; [exact At | split; [exact Et | exact It]].
  - destruct IH as (At & Et & It). split; [exact At | split; [exact Et | apply Inv_flush; exact It]].
Qed.

Lemma assoc_done_AllDone s : Inv s -> (forall x, In x (assoc s) -> In x (done s)) -> AllDone s.
Proof.
  intros I H x Hx. destruct (in_dec Nat.eq_dec x (done s)) as [Hd|Hd]; [exact Hd|].
  apply H, (running_assoc s I); assumption.
Qed.

(** waiting on a list of futures completes each of them *)
Lemma completes_done sc l : forall s x, Inv s -> In x l -> In x (added s) -> In x (done (completes sc s l)).
Proof.
  unfold completes. induction l as [|f l IH]; intros s x I Hl Ha; [contradiction|]. cbn [fold_left].
  destruct Hl as [->|Hl].
  - assert (Hd : In x (done (complete sc s x))).
    { destruct (complete_cases sc s x) as [E | (_ & _ & Ed & _)].
      - rewrite E. destruct (in_dec Nat.eq_dec x (done s)) as [Hd|Hd]; [exact Hd|].
        exfalso. pose proof (running_assoc s I x Ha Hd) as Has.
        unfold complete in E. apply mem_In in Has. apply mem_false in Hd. rewrite Has, Hd in E. cbn in E.
        destruct (lag (fut_of sc x)); apply (f_equal done) in E; cbn in E;
          apply mem_false in Hd; apply Hd; rewrite <- E; left; reflexivity.
      - rewrite Ed. left. reflexivity. }
    apply (done_mono sc (complete sc s x) _ x (steps_completes sc l _) Hd).
  - apply IH; [apply Inv_complete; exact I | exact Hl | apply added_mono_complete; exact Ha].
Qed.

(** ** The loop *)
Lemma loop_exit sc fuel : forall s W bg acc s' r,
  Inv s -> (exists p, Inv p /\ W = assoc p /\ steps sc p s) ->
  loop sc fuel s W bg acc = (s', Exit, r) -> AllDone s' /\ Inv s'.
Proof.
  induction fuel as [|fuel IH]; intros s W bg acc s' r I (p & Ip & EW & Hps) H; cbn [loop] in H; [discriminate|].
  destruct W as [|w W].
  - inversion H; subst s'. clear H.
    assert (Ap : AllDone p) by (apply assoc_done_AllDone; [exact Ip | rewrite <- EW; intros x []]).
    destruct (AllDone_steps sc p s Ip Ap Hps) as (As & _ & _). split; assumption.
  - set (b := hd ([], []) bg) in *.
    set (s1 := completes sc s (w :: W)) in *.
    set (s2 := completes sc s1 (fst b)) in *.
    set (s3 := flush (completes sc s2 (snd b))) in *.
    assert (H01 : steps sc s s1) by apply steps_completes.
    assert (H12 : steps sc s1 s2) by apply steps_completes.
    assert (H23 : steps sc s2 s3) by (apply steps_flush, steps_completes).
    assert (J1 : Inv s1) by exact (Inv_steps sc s s1 I H01).
    assert (J2 : Inv s2) by exact (Inv_steps sc s1 s2 J1 H12).
    assert (J3 : Inv s3) by exact (Inv_steps sc s2 s3 J2 H23).
    destruct (set_eqb (w :: W) (assoc s2)) eqn:E.
    + inversion H; subst s'. clear H.
      assert (A2 : AllDone s2).
      { apply assoc_done_AllDone; [exact J2|]. intros x Hx.
        apply (set_eqb_In _ _ E) in Hx.
        apply (done_mono sc s1 s2 x H12).
        apply completes_done; [exact I | exact Hx|].
        apply (added_mono sc p s x Hps), (assoc_added p Ip). rewrite <- EW. exact Hx. }
      destruct (AllDone_steps sc s2 s3 J2 A2 H23) as (A3 & _ & _). split; assumption.
    + apply (IH s3 (assoc s2) (tl bg) ((w :: W) :: acc) s' r J3); [|exact H].
      exists s2. split; [exact J2 | split; [reflexivity | exact H23]].
Qed.

Theorem run_exit_all_done sc init pre bg fuel s r :
  run sc init pre bg fuel = (s, Exit, r) -> AllDone s /\ Inv s.
Proof.
  unfold run. intros H.
  pose proof (Inv_init init) as I0.
  assert (H1 : steps sc (init_state init) (completes sc (init_state init) pre)) by apply steps_completes.
  assert (I1 : Inv (completes sc (init_state init) pre)) by exact (Inv_steps sc _ _ I0 H1).
  eapply loop_exit; [apply Inv_flush; exact I1 | | exact H].
  exists (completes sc (init_state init) pre). split; [exact I1 | split; [reflexivity | apply steps_flush, steps_refl]].
Qed.

Theorem run_exit_nothing_pending sc init pre bg fuel s r :
  run sc init pre bg fuel = (s, Exit, r) -> pending s = [].
Proof.
  intros H. destruct (run_exit_all_done _ _ _ _ _ _ _ H) as (A & _).
  unfold pending. unfold AllDone in A. revert A. generalize (added s) as l.
  induction l as [|x l IH]; intros A; [reflexivity|].
  cbn [filter]. assert (Hx : In x (done s)) by (apply A; left; reflexivity).
  apply mem_In in Hx. rewrite Hx. cbn [negb]. apply IH. intros y Hy. apply A. right. exact Hy.
Qed.

Theorem run_exit_stable sc init pre bg fuel s r t :
  run sc init pre bg fuel = (s, Exit, r) -> steps sc s t -> AllDone t /\ added t = added s.
Proof.
  intros H Hst. destruct (run_exit_all_done _ _ _ _ _ _ _ H) as (A & I).
  destruct (AllDone_steps sc s t I A Hst) as (At & Et & _). split; assumption.
Qed.

(** the loop needs at most one round per future that can still complete, plus two *)
Example run_example :
  run [mkFut [2; 3] true; mkFut [] false; mkFut [4] false; mkFut [] true; mkFut [] false] [0; 1] [] [([], [3]); ([], [])] 10
  = (mkSt [] [4; 2; 3; 1; 0] [] [0; 1; 2; 3; 4], Exit, [[0; 1]; [0; 2; 3]; [4]]).
Proof. vm_compute. reflexivity. Qed.

(** ** The early second snapshot is wrong *)
Lemma loop_early_refuted : exists sc init fuel s r,
  loop_early sc fuel (init_state init) init [] [] = (s, Exit, r) /\ pending s <> [].
Proof.
  exists [mkFut [1] true; mkFut [] false], [0], 5.
  eexists. eexists. split; [vm_compute; reflexivity | vm_compute; discriminate].
Qed.
