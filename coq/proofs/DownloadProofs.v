(** Downloads deliver exactly the object bytes (model/DownloadDest.v), on top
    of proofs/RetryProofs.v (one request task), proofs/DeferQProofs.v (the
    non-seekable manager) and proofs/PlanProofs.v (ranges). *)
From Coq Require Import ZArith List Bool Lia ZifyBool Arith.
From S3V Require Import gen.Tables model.Plan model.Retry model.DeferQ model.DeferQOld
  model.DownloadDest proofs.PlanProofs proofs.RetryProofs proofs.DeferQProofs.
Import ListNotations.
Open Scope Z_scope.
Ltac Zify.zify_post_hook ::= Z.to_euclidean_division_equations.

(* ------------------------------------------------------------------ *)
(** * Lists *)

Lemma nth_firstn_lt {A} (d : A) : forall (l : list A) n p, (p < n)%nat ->
  nth p (firstn n l) d = nth p l d.
Proof.
  induction l as [|x l IH]; intros n p Hp.
  - now rewrite firstn_nil.
  - destruct n as [|n]; [lia|]. destruct p as [|p]; cbn [firstn nth]; [reflexivity|].
    apply IH. lia.
Qed.

Lemma nth_skipn_add {A} (d : A) : forall n (l : list A) k,
  nth k (skipn n l) d = nth (n + k) l d.
Proof.
  induction n as [|n IH]; intros l k; [reflexivity|].
  destruct l as [|x l]; cbn [skipn Nat.add nth]; [now destruct k|]. apply IH.
Qed.

Lemma nth_repeat_zero n p : nth p (repeat 0 n) 0 = 0.
Proof.
  revert p. induction n as [|n IH]; intros p; cbn [repeat]; [now destruct p|].
  destruct p; cbn [nth]; [reflexivity|apply IH].
Qed.

(* ------------------------------------------------------------------ *)
(** * seek + write *)

Lemma write_at_nil f off : write_at f off [] = f.
Proof. reflexivity. Qed.

Lemma write_at_length f off d : d <> [] ->
  length (write_at f off d) = Nat.max (length f) (Z.to_nat off + length d).
Proof.
  intros Hd. destruct d as [|x d]; [congruence|]. unfold write_at.
  rewrite !app_length, firstn_length, repeat_length, skipn_length. lia.
Qed.

Lemma write_at_length_ge f off d : (length f <= length (write_at f off d))%nat.
Proof.
  destruct d as [|x d]; [cbn; lia|]. rewrite write_at_length by discriminate. lia.
Qed.

Lemma write_at_nth_inside f off d p :
  (Z.to_nat off <= p < Z.to_nat off + length d)%nat ->
  nth p (write_at f off d) 0 = nth (p - Z.to_nat off) d 0.
Proof.
  intros Hp. destruct d as [|x d]; [cbn [length] in Hp; lia|]. unfold write_at.
  set (o := Z.to_nat off) in *. set (dd := x :: d) in *.
  assert (Hlen : (length (firstn o f) + length (repeat 0%Z (o - length f)) = o)%nat).
  { rewrite firstn_length, repeat_length. lia. }
  rewrite app_assoc. rewrite app_nth2; rewrite app_length, Hlen; [|lia].
  rewrite app_nth1 by lia. reflexivity.
Qed.

Lemma write_at_nth_outside f off d p :
  ~ (Z.to_nat off <= p < Z.to_nat off + length d)%nat ->
  nth p (write_at f off d) 0 = nth p f 0.
Proof.
  intros Hp. destruct d as [|x d]; [reflexivity|]. unfold write_at.
  set (o := Z.to_nat off) in *. set (dd := x :: d) in *.
  destruct (Nat.lt_ge_cases p o) as [Hlt|Hge].
  - destruct (Nat.lt_ge_cases p (length f)) as [Hin|Hout].
    + rewrite app_nth1 by (rewrite firstn_length; lia). now apply nth_firstn_lt.
    + rewrite app_nth2 by (rewrite firstn_length; lia).
      rewrite app_nth1 by (rewrite firstn_length, repeat_length; lia).
      rewrite nth_repeat_zero. symmetry. apply nth_overflow. exact Hout.
  - assert (Hlen : (length (firstn o f) + length (repeat 0%Z (o - length f)) = o)%nat).
    { rewrite firstn_length, repeat_length. lia. }
    rewrite app_assoc. rewrite app_nth2; rewrite app_length, Hlen; [|lia].
    rewrite app_nth2 by lia. rewrite nth_skipn_add. f_equal. lia.
Qed.

(** A delivery that carries the object's bytes puts them where they belong. *)
Lemma nth_zslice obj a n k : 0 <= a -> (k < Z.to_nat n)%nat ->
  nth k (zslice obj a n) 0 = nth (Z.to_nat a + k) obj 0.
Proof.
  intros Ha Hk. unfold zslice. rewrite nth_firstn_lt by exact Hk. apply nth_skipn_add.
Qed.

Definition covered_dec_inside (p : Z) (e : entry) : {inside p e} + {~ inside p e}.
Proof.
  unfold inside. destruct (Z_le_dec (fst e) p); destruct (Z_lt_dec p (fst e + blen (snd e)));
    [left|right|right|right]; lia.
Defined.

Lemma covered_dec h p : covered h p \/ ~ covered h p.
Proof.
  induction h as [|e h IH].
  - right. intros (e & [] & _).
  - destruct (covered_dec_inside p e) as [Hi|Hn].
    + left. exists e. split; [now left|exact Hi].
    + destruct IH as [Hc|Hc].
      * left. destruct Hc as (e' & He' & Hi'). exists e'. split; [now right|exact Hi'].
      * right. intros (e' & [<-|He'] & Hi'); [contradiction|]. apply Hc. exists e'. now split.
Qed.

Lemma write_all_cons f e h : write_all f (e :: h) = write_all (write_at f (fst e) (snd e)) h.
Proof. reflexivity. Qed.

Lemma write_all_length_ge h : forall f, (length f <= length (write_all f h))%nat.
Proof.
  induction h as [|e h IH]; intros f; [cbn; lia|]. rewrite write_all_cons.
  pose proof (write_at_length_ge f (fst e) (snd e)). specialize (IH (write_at f (fst e) (snd e))). lia.
Qed.

Lemma write_all_length_le obj h : consistent obj h -> forall f,
  (length f <= length obj)%nat -> (length (write_all f h) <= length obj)%nat.
Proof.
  induction 1 as [|e h (H0 & H1 & _) _ IH]; intros f Hf; [exact Hf|].
  rewrite write_all_cons. apply IH. destruct (snd e) as [|x d] eqn:Ed; [exact Hf|].
  rewrite write_at_length by discriminate. unfold blen in H1. cbn [length] in *. lia.
Qed.

Lemma inside_nat p e : 0 <= fst e ->
  inside (Z.of_nat p) e <-> (Z.to_nat (fst e) <= p < Z.to_nat (fst e) + length (snd e))%nat.
Proof. intros H0. unfold inside, blen. lia. Qed.

Lemma write_all_nth_uncovered obj h : consistent obj h -> forall f p,
  ~ covered h (Z.of_nat p) -> nth p (write_all f h) 0 = nth p f 0.
Proof.
  induction 1 as [|e h (H0 & _ & _) _ IH]; intros f p Hn; [reflexivity|].
  rewrite write_all_cons, IH.
  - apply write_at_nth_outside. rewrite <- inside_nat by exact H0.
    intros Hi. apply Hn. exists e. split; [now left|exact Hi].
  - intros (e' & He' & Hi'). apply Hn. exists e'. split; [now right|exact Hi'].
Qed.

Lemma write_all_nth_covered obj h : consistent obj h -> forall f p,
  covered h (Z.of_nat p) -> nth p (write_all f h) 0 = nth p obj 0.
Proof.
  induction 1 as [|e h He Hh IH]; intros f p Hc.
  - destruct Hc as (e & [] & _).
  - rewrite write_all_cons. destruct (covered_dec h (Z.of_nat p)) as [Hc'|Hn'].
    + now apply IH.
    + assert (Hi : inside (Z.of_nat p) e).
      { destruct Hc as (e' & [<-|He'] & Hi'); [exact Hi'|]. exfalso. apply Hn'. exists e'. now split. }
      rewrite (write_all_nth_uncovered obj h Hh) by exact Hn'.
      destruct He as (H0 & H1 & H2).
      apply inside_nat in Hi; [|exact H0].
      rewrite write_at_nth_inside by exact Hi. rewrite H2 at 1.
      rewrite nth_zslice; [f_equal; lia|exact H0|unfold blen; lia].
Qed.

Lemma write_all_covers_length obj h : consistent obj h -> forall f p,
  covered h (Z.of_nat p) -> (p < length (write_all f h))%nat.
Proof.
  induction 1 as [|e h (H0 & _ & _) _ IH]; intros f p Hc.
  - destruct Hc as (e & [] & _).
  - rewrite write_all_cons. destruct Hc as (e' & [<-|He'] & Hi').
    + apply inside_nat in Hi'; [|exact H0].
      pose proof (write_all_length_ge h (write_at f (fst e) (snd e))) as Hge.
      destruct (snd e) as [|x d] eqn:Ed; [cbn [length] in Hi'; lia|].
      rewrite write_at_length in Hge by discriminate. lia.
    + apply IH. exists e'. now split.
Qed.

(** Offset-addressed destination: deliveries that carry the object's bytes
    and together cover it produce exactly the object, in whatever order they
    are applied, on top of anything not longer than the object. *)
Theorem write_all_exact obj h init :
  consistent obj h -> (forall p, 0 <= p < blen obj -> covered h p) ->
  (length init <= length obj)%nat ->
  write_all init h = obj.
Proof.
  intros Hc Hcov Hinit.
  assert (Hlen : length (write_all init h) = length obj).
  { apply Nat.le_antisymm; [now apply (write_all_length_le obj)|].
    destruct (length obj) as [|n] eqn:En; [lia|].
    assert (Hn : covered h (Z.of_nat n)) by (apply Hcov; unfold blen; lia).
    pose proof (write_all_covers_length obj h Hc init n Hn). lia. }
  apply (nth_ext _ _ 0 0 Hlen). intros p Hp.
  apply (write_all_nth_covered obj h Hc). apply Hcov. unfold blen. lia.
Qed.

(** The temp file of a path download. *)
Lemma path_write_all_cons f e h :
  path_write_all f (e :: h) = Some (write_all (match f with Some c => c | None => [] end) (e :: h)).
Proof.
  revert f e. induction h as [|e' h IH]; intros f e; [reflexivity|].
  change (path_write_all f (e :: e' :: h))
    with (path_write_all (path_write f (fst e) (snd e)) (e' :: h)).
  rewrite IH. reflexivity.
Qed.

(* ------------------------------------------------------------------ *)
(** * One request task: every delivery carries the object's bytes *)

Lemma trace_deliveries_eq tr : trace_deliveries tr = deliveries_of tr.
Proof. induction tr as [|[|n|o d] tr IH]; cbn [trace_deliveries deliveries_of]; try rewrite IH; reflexivity. Qed.

Lemma contiguous_chunks : forall ds start, contiguous start ds ->
  ds = chunks_from start (map snd ds).
Proof.
  induction ds as [|[o d] ds IH]; intros start Hc; [reflexivity|].
  cbn [contiguous] in Hc. destruct Hc as [-> Hc]. cbn [map snd chunks_from].
  f_equal. apply IH. exact Hc.
Qed.

Lemma range_bytes_zslice obj start len : range_bytes obj start len = zslice obj start len.
Proof. reflexivity. Qed.

(** Chunks that concatenate to a prefix of the range's bytes are an attempt
    in the sense of C16's grammar. *)
Lemma prefix_attempt_ok obj start len ds rem :
  in_object obj start len -> range_bytes obj start len = concat ds ++ rem ->
  attempt_ok obj (start, ds).
Proof.
  intros (H0 & H1 & H2) Hb. rewrite range_bytes_zslice in Hb.
  pose proof (blen_nonneg (concat ds)) as Hn. pose proof (blen_nonneg rem) as Hr.
  assert (Hobj : blen obj = Z.of_nat (length obj)) by reflexivity.
  assert (Hl : blen (concat ds) + blen rem = len).
  { rewrite <- blen_app, <- Hb. apply zslice_length; lia. }
  unfold attempt_ok. cbn [fst snd]. split; [exact H0|]. split; [lia|].
  replace len with (blen (concat ds) + (len - blen (concat ds))) in Hb by lia.
  rewrite <- zslice_app in Hb by lia.
  apply app_eq_length in Hb; [symmetry; apply Hb|].
  apply Nat2Z.inj. change (blen (zslice obj start (blen (concat ds))) = blen (concat ds)).
  apply zslice_length; lia.
Qed.

Lemma attempt_deliveries_consistent obj start len ds rem :
  in_object obj start len -> contiguous start ds ->
  range_bytes obj start len = delivered_bytes ds ++ rem ->
  consistent obj ds.
Proof.
  intros Hin Hc Hb. rewrite (contiguous_chunks ds start Hc).
  apply chunks_consistent. exact (prefix_attempt_ok obj start len _ rem Hin Hb).
Qed.

Lemma attempts_loop_consistent obj start len io_chunk done_at :
  1 <= io_chunk -> in_object obj start len ->
  forall left faults reads checks tr o,
  attempts_loop left (range_bytes obj start len) start io_chunk faults reads done_at checks = (tr, o) ->
  consistent obj (deliveries_of tr).
Proof.
  intros Hio Hin. induction left as [|l IH]; intros faults reads checks tr o Hrun.
  - cbn [attempts_loop] in Hrun. injection Hrun as <- <-. constructor.
  - cbn [attempts_loop] in Hrun.
    destruct (run_attempt (range_bytes obj start len) start io_chunk (hd NoFault faults) (hd [] reads)
                          done_at checks) as [[tr1 e] ck] eqn:Eat.
    destruct (run_attempt_spec _ _ _ _ _ _ _ _ _ _ Hio Eat) as (_ & _ & _ & A4 & (rem & A5 & _) & _).
    pose proof (attempt_deliveries_consistent obj start len _ rem Hin A4 A5) as Hc1.
    destruct e as [| |r cur].
    + injection Hrun as <- <-. exact Hc1.
    + injection Hrun as <- <-. exact Hc1.
    + destruct r.
      * destruct (attempts_loop l (range_bytes obj start len) start io_chunk (tl faults) (tl reads)
                                done_at ck) as [tr2 o2] eqn:Erec.
        injection Hrun as <- <-. cbn [deliveries_of].
        rewrite !deliveries_of_app, deliveries_of_gprog. cbn [app].
        apply Forall_app. split; [exact Hc1|]. exact (IH _ _ _ _ _ Erec).
      * injection Hrun as <- <-. exact Hc1.
Qed.

(** Every delivery of every attempt -- also of the attempts that failed
    half-way -- carries the object's bytes at its offset. *)
Theorem run_get_deliveries_consistent obj start len io_chunk max_attempts faults reads done_at :
  in_object obj start len -> 1 <= io_chunk ->
  consistent obj (deliveries_of (g_trace (run_get_full obj start len io_chunk max_attempts
                                                      faults reads done_at))).
Proof.
  intros Hin Hio.
  pose proof (run_get_full_unfold obj start len io_chunk max_attempts faults reads done_at) as Hrun.
  cbv zeta in Hrun.
  exact (attempts_loop_consistent obj start len io_chunk done_at Hio Hin _ _ _ _ _ _ Hrun).
Qed.

(** A successful task's deliveries cover its range and are not empty. *)
Theorem run_get_ok_covers obj start len io_chunk max_attempts faults reads done_at :
  in_object obj start len -> 1 <= io_chunk ->
  let r := run_get_full obj start len io_chunk max_attempts faults reads done_at in
  g_outcome r = Ok ->
  (forall p, start <= p < start + len -> covered (deliveries_of (g_trace r)) p) /\
  deliveries_of (g_trace r) <> [].
Proof.
  intros Hin Hio r Hok.
  destruct (run_get_ok_deliveries obj start len io_chunk max_attempts faults reads done_at Hio Hok)
    as (pre & last & Htr & _ & Hc & Hb & Hne).
  fold r in Htr. rewrite Htr, deliveries_of_app. cbn [deliveries_of]. split.
  - intros p Hp. eapply covered_incl; [intros e He; apply in_or_app; right; exact He|].
    rewrite (contiguous_chunks _ start Hc). apply chunks_cover.
    change (concat (map snd (deliveries_of last))) with (delivered_bytes (deliveries_of last)).
    rewrite Hb. destruct Hin as (H0 & H1 & H2).
    change (blen (range_bytes obj start len)) with (Z.of_nat (length (range_bytes obj start len))).
    rewrite range_bytes_length by assumption. exact Hp.
  - intros E. apply app_eq_nil in E. destruct E as [_ E]. contradiction.
Qed.

(* ------------------------------------------------------------------ *)
(** * Schedules and interleavings *)

Lemma interleaving_cons_nil {A} (ls : list (list A)) h :
  interleaving ls h -> interleaving ([] :: ls) h.
Proof.
  induction 1 as [ls Hn|pre x l post h Hi IH].
  - apply il_done. constructor; [reflexivity|exact Hn].
  - exact (il_step ([] :: pre) x l post h IH).
Qed.

Lemma interleaving_concat {A} (ls : list (list A)) : interleaving ls (concat ls).
Proof.
  induction ls as [|l ls IH]; [apply il_done; constructor|].
  cbn [concat]. induction l as [|x l IHl].
  - cbn [app]. now apply interleaving_cons_nil.
  - cbn [app]. exact (il_step [] x l ls _ IHl).
Qed.

Lemma take_from_spec {A} : forall (ls : list (list A)) i x ls',
  take_from ls i = Some (x, ls') ->
  exists pre l post, ls = pre ++ (x :: l) :: post /\ ls' = pre ++ l :: post.
Proof.
  induction ls as [|l0 r IH]; intros i x ls' H; [discriminate|].
  cbn [take_from] in H. destruct i as [|j].
  - destruct l0 as [|y l']; [discriminate|]. injection H as <- <-.
    exists [], l', r. split; reflexivity.
  - destruct (take_from r j) as [[y r']|] eqn:E; [|discriminate]. injection H as <- <-.
    destruct (IH _ _ _ E) as (pre & l & post & -> & ->).
    exists (l0 :: pre), l, post. split; reflexivity.
Qed.

Lemma take_from_at {A} : forall (pre : list (list A)) x l post,
  take_from (pre ++ (x :: l) :: post) (length pre) = Some (x, pre ++ l :: post).
Proof.
  induction pre as [|p pre IH]; intros x l post; [reflexivity|].
  cbn [app length take_from]. now rewrite IH.
Qed.

(** Every schedule yields an interleaving ... *)
Theorem merge_interleaving {A} : forall sched (ls : list (list A)), interleaving ls (merge sched ls).
Proof.
  induction sched as [|i s IH]; intros ls; cbn [merge]; [apply interleaving_concat|].
  destruct (take_from ls i) as [[x ls']|] eqn:E; [|apply IH].
  destruct (take_from_spec _ _ _ _ E) as (pre & l & post & -> & ->).
  apply il_step. apply IH.
Qed.

(** ... and every interleaving is the result of a schedule. *)
Theorem merge_complete {A} (ls : list (list A)) h :
  interleaving ls h -> exists sched, merge sched ls = h.
Proof.
  induction 1 as [ls Hn|pre x l post h Hi (s & IH)].
  - exists []. cbn [merge]. induction Hn as [|l ls -> _ IHn]; [reflexivity|exact IHn].
  - exists (length pre :: s). cbn [merge]. rewrite take_from_at. now rewrite IH.
Qed.

(* ------------------------------------------------------------------ *)
(** * Parts that tile the object *)

Definition part_scripted (obj : list Z) (p : part) : Prop :=
  in_object obj (p_start p) (p_len p).

Definition part_ok (obj : list Z) (io_chunk max_attempts : Z) (p : part) : Prop :=
  g_outcome (part_result obj io_chunk max_attempts p) = Ok.

(** "fewer than max_attempts retryable stream faults": the faults of the
    script that strike are retryable and fewer than max_attempts. *)
Definition part_faults_ok (max_attempts : Z) (p : part) : Prop :=
  Forall (fun f => fires f (p_len p) = true -> retryable_of f = true) (p_faults p) /\
  Z.of_nat (length (filter (fun f => fires f (p_len p)) (p_faults p))) < max_attempts.

Definition tiles (size : Z) (parts : list part) : Prop :=
  forall p, 0 <= p < size -> exists q, In q parts /\ p_start q <= p < p_start q + p_len q.

Definition part_deliveries (obj : list Z) (io_chunk max_attempts : Z) (parts : list part)
  : list (list entry) :=
  map (fun p => trace_deliveries (g_trace (part_result obj io_chunk max_attempts p))) parts.

Lemma part_faults_ok_succeeds obj io_chunk max_attempts p :
  part_scripted obj p -> 1 <= io_chunk -> part_faults_ok max_attempts p ->
  part_ok obj io_chunk max_attempts p.
Proof. intros Hs Hio (Hf & Hc). unfold part_ok, part_result. now apply run_get_succeeds. Qed.

Section Parts.
  Variable obj : list Z.
  Variables io_chunk max_attempts : Z.
  Hypothesis Hio : 1 <= io_chunk.
  Variable parts : list part.
  Hypothesis Hscripted : Forall (part_scripted obj) parts.
  Variable h : list entry.
  Hypothesis Hil : interleaving (part_deliveries obj io_chunk max_attempts parts) h.

  Lemma parts_history_consistent : consistent obj h.
  Proof.
    apply (interleaving_Forall _ _ _ _ Hil). unfold part_deliveries. rewrite Forall_map.
    eapply Forall_impl; [|exact Hscripted]. intros p Hp. rewrite trace_deliveries_eq.
    apply run_get_deliveries_consistent; assumption.
  Qed.

  Hypothesis Hok : Forall (part_ok obj io_chunk max_attempts) parts.
  Hypothesis Htiles : tiles (blen obj) parts.

  Lemma parts_history_covers : forall p, 0 <= p < blen obj -> covered h p.
  Proof.
    intros p Hp. destruct (Htiles p Hp) as (q & Hq & Hin).
    rewrite Forall_forall in Hscripted, Hok.
    destruct (run_get_ok_covers obj (p_start q) (p_len q) io_chunk max_attempts (p_faults q) (p_reads q)
                None (Hscripted q Hq) Hio (Hok q Hq)) as [Hcov _].
    destruct (Hcov p Hin) as (e & He & Hi). exists e. split; [|exact Hi].
    apply (interleaving_In _ _ _ Hil (trace_deliveries (g_trace (part_result obj io_chunk max_attempts q)))).
    - unfold part_deliveries. now apply (in_map (fun p => trace_deliveries (g_trace (part_result obj io_chunk max_attempts p)))).
    - rewrite trace_deliveries_eq. exact He.
  Qed.

  (** File / seekable stream. *)
  Theorem parts_seekable_exact init : (length init <= length obj)%nat -> write_all init h = obj.
  Proof.
    intros Hinit. apply write_all_exact; [apply parts_history_consistent|apply parts_history_covers|exact Hinit].
  Qed.

  (** Non-seekable stream, from C16's theorems. *)
  Theorem parts_nonseekable_exact :
    manager_run (DeferQ.init, []) h = (final_state h, obj) /\
    next_offset (final_state h) = blen obj /\
    concat (map snd (emitted h)) = obj /\
    offsets_running 0 (emitted h).
  Proof.
    pose proof parts_history_consistent as Hc.
    destruct (dq_complete obj h Hc parts_history_covers) as [Hout Hnext].
    destruct (dq_writes_prefix obj h Hc) as (_ & Hrun & _).
    rewrite manager_stream, Hout. repeat split; assumption.
  Qed.

  (** Something was written whenever there is at least one part. *)
  Lemma parts_history_nonempty : parts <> [] -> h <> [].
  Proof.
    intros Hne. destruct parts as [|q qs] eqn:Eparts; [congruence|].
    rewrite Forall_forall in Hscripted, Hok.
    destruct (run_get_ok_covers obj (p_start q) (p_len q) io_chunk max_attempts (p_faults q) (p_reads q)
                None (Hscripted q (or_introl eq_refl)) Hio (Hok q (or_introl eq_refl))) as [_ Hd].
    destruct (deliveries_of (g_trace (run_get_full obj (p_start q) (p_len q) io_chunk max_attempts
                                                   (p_faults q) (p_reads q) None))) as [|e es] eqn:Ed;
      [congruence|].
    assert (Hin : In e h).
    { apply (interleaving_In _ _ _ Hil (e :: es)); [|now left].
      cbn [part_deliveries map]. left. rewrite trace_deliveries_eq. exact Ed. }
    intros ->. destruct Hin.
  Qed.
End Parts.

(* ------------------------------------------------------------------ *)
(** * The plan of a download tiles the object *)

Lemma combine_seq_in {A} : forall (l : list A) s x, In x l ->
  exists i, In (i, x) (combine (seq s (length l)) l).
Proof.
  induction l as [|y l IH]; intros s x Hx; [destruct Hx|].
  cbn [length seq combine]. destruct Hx as [<-|Hx].
  - exists s. now left.
  - destruct (IH (S s) x Hx) as [i Hi]. exists i. now right.
Qed.

Lemma mk_part_fields size fs rs i r :
  p_start (mk_part size fs rs (i, r)) = fst (plan_interval size r) /\
  p_len (mk_part size fs rs (i, r)) = snd (plan_interval size r) - fst (plan_interval size r) /\
  p_range (mk_part size fs rs (i, r)) = r /\
  p_faults (mk_part size fs rs (i, r)) = nth i fs [] /\
  p_reads (mk_part size fs rs (i, r)) = nth i rs [].
Proof. unfold mk_part. cbn [fst snd]. destruct (plan_interval size r) as [lo hi]. repeat split. Qed.

Lemma dl_plan_ranged_in size thr chunk r :
  In r (dl_plan size thr chunk) -> size <? thr = false ->
  exists i, 0 <= i < num_parts size chunk /\
    r = Some (range_param chunk i (num_parts size chunk) None).
Proof.
  unfold dl_plan. intros Hin E. rewrite E in Hin. unfold download_ranges in Hin.
  apply in_map_iff in Hin. destruct Hin as (r0 & <- & Hin).
  apply in_map_iff in Hin. destruct Hin as (i & <- & Hin).
  apply zseq_In in Hin. exists i. split; [lia|reflexivity].
Qed.

Lemma dl_plan_interval size thr chunk r : 0 <= size -> 0 < chunk ->
  In r (dl_plan size thr chunk) ->
  0 <= fst (plan_interval size r) <= snd (plan_interval size r) /\
  snd (plan_interval size r) <= size.
Proof.
  intros Hs Hc Hin. destruct (size <? thr) eqn:E.
  - unfold dl_plan in Hin. rewrite E in Hin. destruct Hin as [<-|[]]. cbn. lia.
  - destruct (dl_plan_ranged_in _ _ _ _ Hin E) as (i & Hi & ->).
    cbn [plan_interval].
    change (range_interval size (range_param chunk i (num_parts size chunk) None))
      with (part_interval size chunk (num_parts size chunk) i).
    rewrite part_interval_eq by assumption. cbn [fst snd].
    pose proof (part_interval_nonempty size chunk i Hs Hc Hi). nia.
Qed.

Lemma dl_plan_covers size thr chunk p : 0 < chunk -> 0 <= p < size ->
  exists r, In r (dl_plan size thr chunk) /\
    fst (plan_interval size r) <= p < snd (plan_interval size r).
Proof.
  intros Hc Hp. unfold dl_plan. destruct (size <? thr) eqn:E.
  - exists None. split; [now left|]. cbn. lia.
  - set (n := num_parts size chunk). set (i := p / chunk).
    assert (Hi : 0 <= i < n).
    { pose proof (ceil_div_spec size chunk ltac:(lia) Hc) as Hn. fold (num_parts size chunk) in Hn.
      fold n in Hn. subst i. split; [apply Z.div_pos; lia|].
      assert (p / chunk * chunk <= p) by (pose proof (Z.mul_div_le p chunk Hc); lia). nia. }
    exists (Some (range_param chunk i n None)). split.
    + apply in_map. unfold download_ranges. fold n.
      apply (in_map (fun i => range_param chunk i n None)). apply zseq_In. lia.
    + cbn [plan_interval].
      change (range_interval size (range_param chunk i n None)) with (part_interval size chunk n i).
      unfold n. rewrite part_interval_eq by (try assumption; lia). cbn [fst snd]. subst i.
      pose proof (Z.mul_div_le p chunk Hc). pose proof (Z.mul_succ_div_gt p chunk Hc). lia.
Qed.

Lemma plan_parts_scripted obj thr chunk fs rs : 0 < chunk ->
  Forall (part_scripted obj) (plan_parts (blen obj) (dl_plan (blen obj) thr chunk) fs rs).
Proof.
  intros Hc. apply Forall_forall. intros q Hq. unfold plan_parts in Hq.
  apply in_map_iff in Hq. destruct Hq as ([i r] & <- & Hin). apply in_combine_r in Hin.
  unfold part_scripted, in_object.
  destruct (mk_part_fields (blen obj) fs rs i r) as (E1 & E2 & _). rewrite E1, E2.
  pose proof (dl_plan_interval (blen obj) thr chunk r (blen_nonneg obj) Hc Hin) as H.
  change (Z.of_nat (length obj)) with (blen obj). lia.
Qed.

Lemma plan_parts_tile obj thr chunk fs rs : 0 < chunk ->
  tiles (blen obj) (plan_parts (blen obj) (dl_plan (blen obj) thr chunk) fs rs).
Proof.
  intros Hc p Hp. destruct (dl_plan_covers (blen obj) thr chunk p Hc Hp) as (r & Hr & Hin).
  destruct (combine_seq_in _ 0%nat r Hr) as [i Hi].
  exists (mk_part (blen obj) fs rs (i, r)). split.
  - unfold plan_parts. now apply (in_map (mk_part (blen obj) fs rs)).
  - destruct (mk_part_fields (blen obj) fs rs i r) as (E1 & E2 & _). rewrite E1, E2. lia.
Qed.

Lemma plan_parts_nonempty size plan fs rs : plan <> [] -> plan_parts size plan fs rs <> [].
Proof. destruct plan; [congruence|]. discriminate. Qed.

Lemma dl_plan_nonempty size thr chunk : 1 <= thr -> 0 < chunk -> dl_plan size thr chunk <> [].
Proof.
  intros Ht Hc. destruct (size <? thr) eqn:E.
  - unfold dl_plan. rewrite E. discriminate.
  - destruct (dl_plan_covers size thr chunk 0 Hc ltac:(lia)) as (r & Hr & _).
    intros E0. rewrite E0 in Hr. destruct Hr.
Qed.

(* ------------------------------------------------------------------ *)
(** * The transfer manager's download *)

Definition cfg_ok (cfg : dl_cfg) : Prop :=
  1 <= c_threshold cfg /\ 0 < c_chunk cfg /\ 1 <= c_io_chunk cfg.

(** Every planned request sees fewer than num_download_attempts striking
    faults, all of them retryable. *)
Definition scripts_ok (obj : list Z) (cfg : dl_cfg) (fs : list (list fault))
    (rs : list (list (list Z))) : Prop :=
  Forall (part_faults_ok (c_attempts cfg)) (manager_parts obj cfg fs rs).

Lemma forallb_outcome_ok obj io mx parts :
  forallb (fun r => outcome_ok (g_outcome r)) (map (part_result obj io mx) parts) = true <->
  Forall (part_ok obj io mx) parts.
Proof.
  rewrite forallb_forall, Forall_forall. split.
  - intros H p Hp. specialize (H _ (in_map _ _ _ Hp)). unfold part_ok.
    destruct (g_outcome (part_result obj io mx p)); try discriminate H. reflexivity.
  - intros H r Hr. apply in_map_iff in Hr. destruct Hr as (p & <- & Hp).
    specialize (H p Hp). unfold part_ok in H. now rewrite H.
Qed.

Lemma manager_history obj cfg fs rs sched :
  interleaving (part_deliveries obj (c_io_chunk cfg) (c_attempts cfg) (manager_parts obj cfg fs rs))
    (merge sched (map (fun r => trace_deliveries (g_trace r))
                      (map (part_result obj (c_io_chunk cfg) (c_attempts cfg))
                           (manager_parts obj cfg fs rs)))).
Proof. rewrite map_map. apply merge_interleaving. Qed.

(** Success implies exactness: all destination kinds, single GET and ranged,
    every schedule. *)
Theorem manager_success_exact kind init obj cfg fs rs sched :
  cfg_ok cfg -> (length init <= length obj)%nat ->
  let r := manager_download kind init obj cfg fs rs sched in
  dl_out r = DlOk ->
  dl_content r = Some obj /\
  (kind = DStream ->
     concat (map snd (dl_writes r)) = obj /\ offsets_running 0 (dl_writes r)).
Proof.
  intros (Ht & Hc & Hio) Hinit. unfold manager_download.
  pose proof (manager_history obj cfg fs rs sched) as Hil.
  set (parts := manager_parts obj cfg fs rs) in *.
  set (h := merge sched _) in *.
  pose proof (plan_parts_scripted obj (c_threshold cfg) (c_chunk cfg) fs rs Hc) as Hs.
  pose proof (plan_parts_tile obj (c_threshold cfg) (c_chunk cfg) fs rs Hc) as Htl.
  fold (manager_parts obj cfg fs rs) in Hs, Htl. fold parts in Hs, Htl.
  destruct (forallb _ (map (part_result obj (c_io_chunk cfg) (c_attempts cfg)) parts)) eqn:Eok.
  2:{ destruct kind; cbv zeta; try (cbn [dl_out]; discriminate).
      rewrite manager_stream. cbn [dl_out]. discriminate. }
  apply forallb_outcome_ok in Eok.
  pose proof (parts_seekable_exact obj _ _ Hio parts Hs h Hil Eok Htl) as Hseek.
  destruct kind; cbv zeta.
  - destruct h as [|e h'] eqn:Eh.
    + cbn [path_write_all fold_left dl_out]. discriminate.
    + rewrite path_write_all_cons. cbn [dl_out dl_content]. intros _.
      split; [|discriminate]. f_equal. apply Hseek. cbn. lia.
  - cbn [dl_out dl_content]. intros _. split; [|discriminate]. f_equal. now apply Hseek.
  - rewrite manager_stream. cbn [dl_out dl_content dl_writes]. intros _.
    destruct (parts_nonseekable_exact obj _ _ Hio parts Hs h Hil Eok Htl) as (_ & _ & Hout & Hrun).
    split; [now rewrite Hout|]. intros _. split; assumption.
Qed.

(** With fewer than num_download_attempts retryable faults per request the
    download succeeds (so the statement above is not vacuous). *)
Theorem manager_scripted_succeeds kind init obj cfg fs rs sched :
  cfg_ok cfg -> scripts_ok obj cfg fs rs ->
  dl_out (manager_download kind init obj cfg fs rs sched) = DlOk.
Proof.
  intros (Ht & Hc & Hio) Hscr. unfold manager_download.
  pose proof (manager_history obj cfg fs rs sched) as Hil.
  unfold scripts_ok in Hscr.
  set (parts := manager_parts obj cfg fs rs) in *.
  set (h := merge sched _) in *.
  pose proof (plan_parts_scripted obj (c_threshold cfg) (c_chunk cfg) fs rs Hc) as Hs.
  fold (manager_parts obj cfg fs rs) in Hs. fold parts in Hs.
  assert (Hok : Forall (part_ok obj (c_io_chunk cfg) (c_attempts cfg)) parts).
  { rewrite Forall_forall in *. intros p Hp.
    apply part_faults_ok_succeeds; [now apply Hs|exact Hio|now apply Hscr]. }
  rewrite (proj2 (forallb_outcome_ok obj _ _ parts) Hok).
  destruct kind; cbv zeta; try reflexivity.
  - assert (Hne : h <> []).
    { apply (parts_history_nonempty obj _ _ Hio parts Hs h Hil Hok).
      { unfold parts, manager_parts. now apply plan_parts_tile. }
      unfold parts, manager_parts. apply plan_parts_nonempty. now apply dl_plan_nonempty. }
    destruct h as [|e h']; [congruence|]. rewrite path_write_all_cons. reflexivity.
  - rewrite manager_stream. reflexivity.
Qed.

(* ------------------------------------------------------------------ *)
(** * The empty object *)

Lemma body_read_nil sizes kleft amt :
  body_read [] sizes kleft amt =
  match kleft with
  | Some k => if k <=? 0 then None else Some ([], [], tl sizes, Some (k - 0))
  | None => Some ([], [], tl sizes, None)
  end.
Proof.
  unfold body_read. destruct kleft as [k|]; [destruct (k <=? 0)|];
    rewrite ?firstn_nil, ?skipn_nil; reflexivity.
Qed.

Lemma run_attempt_empty start io_chunk f sizes checks tr e ck :
  run_attempt [] start io_chunk f sizes None checks = (tr, e, ck) ->
  (e = AOk /\ deliveries_of tr = [(start, [])]) \/
  (exists r c, e = AFault r c /\ deliveries_of tr = []).
Proof.
  destruct f as [|r|k r]; cbn [run_attempt length stream_loop]; rewrite ?body_read_nil.
  - cbn [andb negb is_done]. intros [= <- <- <-]. left. split; reflexivity.
  - intros [= <- <- <-]. right. exists r, start. split; reflexivity.
  - destruct (k <=? 0) eqn:Ek.
    + intros [= <- <- <-]. right. exists r, start. split; reflexivity.
    + cbn [andb negb is_done]. rewrite body_read_nil.
      replace (k - 0 <=? 0) with false by lia. cbn [andb negb is_done].
      intros [= <- <- <-]. left. split; reflexivity.
Qed.

Lemma attempts_loop_empty start io_chunk : forall left faults reads checks tr o,
  attempts_loop left [] start io_chunk faults reads None checks = (tr, o) ->
  deliveries_of tr = match o with Ok => [(start, [])] | _ => [] end.
Proof.
  induction left as [|l IH]; intros faults reads checks tr o Hrun.
  - cbn [attempts_loop] in Hrun. injection Hrun as <- <-. reflexivity.
  - cbn [attempts_loop] in Hrun.
    destruct (run_attempt [] start io_chunk (hd NoFault faults) (hd [] reads) None checks)
      as [[tr1 e] ck] eqn:Eat.
    destruct (run_attempt_empty _ _ _ _ _ _ _ _ Eat) as [[-> Hd]|(r & c & -> & Hd)].
    + injection Hrun as <- <-. exact Hd.
    + destruct r.
      * destruct (attempts_loop l [] start io_chunk (tl faults) (tl reads) None ck) as [tr2 o2] eqn:Erec.
        injection Hrun as <- <-. cbn [deliveries_of].
        rewrite !deliveries_of_app, deliveries_of_gprog, Hd. cbn [app]. exact (IH _ _ _ _ _ Erec).
      * injection Hrun as <- <-. exact Hd.
Qed.

Lemma run_get_empty_deliveries obj start io_chunk max_attempts faults reads :
  let r := run_get obj start 0 io_chunk max_attempts faults reads in
  deliveries_of (g_trace r) = match g_outcome r with Ok => [(start, [])] | _ => [] end.
Proof.
  pose proof (run_get_full_unfold obj start 0 io_chunk max_attempts faults reads None) as Hrun.
  cbv zeta in Hrun. change (range_bytes obj start 0) with (@nil Z) in Hrun.
  exact (attempts_loop_empty start io_chunk _ _ _ _ _ _ Hrun).
Qed.

Lemma interleaving_single {A} (l h : list A) : interleaving [l] h -> h = l.
Proof.
  intros Hi. remember [l] as ls eqn:E. revert l E.
  induction Hi as [ls Hn|pre x l0 post h Hi IH]; intros l E.
  - subst ls. inversion Hn; subst. reflexivity.
  - destruct pre as [|a pre].
    + cbn [app] in E. injection E as <- ->. f_equal. now apply IH.
    + injection E as _ E. destruct pre; discriminate E.
Qed.

(** An empty object is fetched by one GetObject without Range; the successful
    attempt hands exactly one, empty, chunk to the destination (failed
    attempts hand over nothing): the temp file of a path download is created
    and the rename finds it. *)
Theorem manager_empty_object kind init cfg fs rs sched :
  1 <= c_threshold cfg ->
  let r := manager_download kind init [] cfg fs rs sched in
  map fst (dl_parts r) = [None] /\
  (dl_out r <> DlFailed ->
     dl_out r = DlOk /\ dl_writes r = [(0, [])] /\
     dl_content r = Some (match kind with DSeekable => init | _ => [] end)).
Proof.
  intros Ht. unfold manager_download, manager_parts, dl_plan.
  change (blen []) with 0. replace (0 <? c_threshold cfg) with true by lia.
  cbn [plan_parts length seq combine map mk_part plan_interval fst snd].
  replace (0 - 0) with 0 by lia.
  set (p := mkPart None 0 0 (nth 0 fs []) (nth 0 rs [])).
  set (res := part_result [] (c_io_chunk cfg) (c_attempts cfg) p).
  pose proof (merge_interleaving sched [trace_deliveries (g_trace res)]) as Hil.
  apply interleaving_single in Hil. rewrite Hil. clear Hil.
  rewrite trace_deliveries_eq.
  pose proof (run_get_empty_deliveries [] 0 (c_io_chunk cfg) (c_attempts cfg)
                (nth 0 fs []) (nth 0 rs [])) as Hd.
  cbv zeta in Hd. change (run_get [] 0 0 (c_io_chunk cfg) (c_attempts cfg) (nth 0 fs []) (nth 0 rs []))
    with res in Hd. rewrite Hd. rewrite manager_stream. cbn [forallb andb].
  destruct (g_outcome res); cbn [outcome_ok andb];
    destruct kind; cbv zeta; cbn [dl_parts dl_out dl_writes dl_content map fst combine p_range p];
    (split; [reflexivity|]); intros Hne; try congruence; repeat split.
Qed.

(** What the request log shows: per planned request its Range and the number
    of GetObject calls of its task. *)
Lemma combine_map_self {A B} (f : A -> B) (l : list A) :
  combine l (map f l) = map (fun x => (x, f x)) l.
Proof. induction l as [|x l IH]; cbn [map combine]; congruence. Qed.

Lemma manager_dl_parts kind init obj cfg fs rs sched :
  dl_parts (manager_download kind init obj cfg fs rs sched) =
  map (fun p => (p_range p, g_requests (part_result obj (c_io_chunk cfg) (c_attempts cfg) p)))
      (manager_parts obj cfg fs rs).
Proof.
  unfold manager_download.
  destruct kind; cbv zeta; rewrite ?manager_stream; cbn [dl_parts];
    rewrite combine_map_self, map_map; reflexivity.
Qed.

(** Attempts: at most num_download_attempts GetObject calls per planned
    request; a non-retryable error ends the task at once (Retry's theorems). *)
Theorem manager_attempts obj cfg fs rs p :
  0 < c_chunk cfg -> 1 <= c_io_chunk cfg -> In p (manager_parts obj cfg fs rs) ->
  let r := part_result obj (c_io_chunk cfg) (c_attempts cfg) p in
  Z.of_nat (g_requests r) <= Z.max 0 (c_attempts cfg) /\
  (forall pre f post, p_faults p = pre ++ f :: post ->
     Forall (fun g => fires g (p_len p) = true /\ retryable_of g = true) pre ->
     fires f (p_len p) = true -> retryable_of f = false ->
     Z.of_nat (length pre) < c_attempts cfg ->
     g_outcome r = Raised /\ g_requests r = S (length pre)).
Proof.
  intros Hc Hio Hp r. split.
  - apply run_get_attempt_bound. exact Hio.
  - intros pre f post Ef Hpre Hf Hr Hlen. unfold r, part_result. rewrite Ef.
    apply run_get_nonretryable; try assumption.
    pose proof (plan_parts_scripted obj (c_threshold cfg) (c_chunk cfg) fs rs Hc) as Hs.
    rewrite Forall_forall in Hs. now apply Hs.
Qed.

(* ------------------------------------------------------------------ *)
(** * The process-pool worker loop *)

Section PoolStream.
  Variable io_chunk : Z.
  Hypothesis Hio : 1 <= io_chunk.

  Lemma pool_stream_spec : forall fuel rest sizes kleft r pos ws e,
    pool_stream fuel rest sizes kleft r io_chunk pos = (ws, e) ->
    contiguous pos ws /\
    exists rem, rest = delivered_bytes ws ++ rem /\
      (e = AOk -> (length rest < fuel)%nat -> rem = []).
  Proof.
    induction fuel as [|f IH]; intros rest sizes kleft r pos ws e Hrun.
    - cbn [pool_stream] in Hrun. injection Hrun as <- <-. split; [exact I|].
      exists rest. split; [reflexivity|]. intros _ H. lia.
    - cbn [pool_stream] in Hrun.
      destruct (body_read rest sizes kleft io_chunk) as [[[[d rest'] sizes'] kleft']|] eqn:Ebr.
      2:{ injection Hrun as <- <-. split; [exact I|]. exists rest. split; [reflexivity|]. discriminate. }
      destruct (body_read_some _ _ _ _ _ _ _ _ Hio Ebr) as (Hrest & Hdnil & _).
      destruct d as [|x d].
      + injection Hrun as <- <-. split; [exact I|]. exists []. split; [now rewrite (Hdnil eq_refl)|reflexivity].
      + destruct (pool_stream f rest' sizes' kleft' r io_chunk (pos + Z.of_nat (length (x :: d))))
          as [ws1 e1] eqn:Erec.
        injection Hrun as <- <-. destruct (IH _ _ _ _ _ _ _ Erec) as (C1 & rem & R1 & R2).
        split; [cbn [contiguous]; split; [reflexivity|exact C1]|].
        exists rem. split.
        * unfold delivered_bytes in *. cbn [map snd concat]. rewrite <- app_assoc, <- R1. exact Hrest.
        * intros Eok Hf. apply R2; [exact Eok|]. rewrite Hrest, app_length in Hf. cbn [length] in Hf. lia.
  Qed.

  Lemma pool_stream_end : forall fuel rest sizes kleft r pos ws e,
    (length rest < fuel)%nat ->
    pool_stream fuel rest sizes kleft r io_chunk pos = (ws, e) ->
    match kleft with
    | None => e = AOk
    | Some k => if k <=? Z.of_nat (length rest) then exists c, e = AFault r c else e = AOk
    end.
  Proof.
    induction fuel as [|f IH]; intros rest sizes kleft r pos ws e Hf Hrun; [lia|].
    cbn [pool_stream] in Hrun.
    destruct (body_read rest sizes kleft io_chunk) as [[[[d rest'] sizes'] kleft']|] eqn:Ebr.
    2:{ injection Hrun as <- <-. apply body_read_none in Ebr as (k & -> & Hk).
        destruct (k <=? Z.of_nat (length rest)) eqn:E; [eauto|lia]. }
    destruct (body_read_some _ _ _ _ _ _ _ _ Hio Ebr) as (Hrest & Hdnil & Hk).
    destruct d as [|x d].
    - injection Hrun as <- <-. rewrite (Hdnil eq_refl) in *. destruct kleft as [k|]; [|reflexivity].
      destruct Hk as (Hk0 & _). cbn [length]. destruct (k <=? Z.of_nat 0) eqn:E; [lia|reflexivity].
    - destruct (pool_stream f rest' sizes' kleft' r io_chunk (pos + Z.of_nat (length (x :: d))))
        as [ws1 e1] eqn:Erec.
      injection Hrun as <- <-.
      assert (Hf' : (length rest' < f)%nat).
      { rewrite Hrest, app_length in Hf. cbn [length] in Hf. lia. }
      specialize (IH _ _ _ _ _ _ _ Hf' Erec).
      assert (Hlen : Z.of_nat (length rest) = Z.of_nat (length (x :: d)) + Z.of_nat (length rest')).
      { rewrite Hrest, app_length. lia. }
      destruct kleft as [k|].
      + destruct Hk as (Hk0 & -> & Hk2).
        destruct (k - Z.of_nat (length (x :: d)) <=? Z.of_nat (length rest')) eqn:E1;
          destruct (k <=? Z.of_nat (length rest)) eqn:E2; try exact IH; lia.
      + subst kleft'. exact IH.
  Qed.
End PoolStream.

Lemma pool_attempt_spec body offset io_chunk f sizes ws e :
  1 <= io_chunk -> pool_attempt body offset io_chunk f sizes = (ws, e) ->
  contiguous offset ws /\
  (exists rem, body = delivered_bytes ws ++ rem /\ (e = AOk -> rem = [])) /\
  (if fires f (Z.of_nat (length body)) then exists c, e = AFault (retryable_of f) c else e = AOk).
Proof.
  intros Hio Hrun. destruct f as [|r|k r]; cbn [pool_attempt fires retryable_of] in *.
  - destruct (pool_stream_spec io_chunk Hio _ _ _ _ _ _ _ _ Hrun) as (C & rem & R1 & R2).
    split; [exact C|]. split.
    + exists rem. split; [exact R1|]. intros E. apply R2; [exact E|lia].
    + exact (pool_stream_end io_chunk Hio _ _ _ None _ _ _ _ (Nat.lt_succ_diag_r (length body)) Hrun).
  - injection Hrun as <- <-. split; [exact I|]. split; [|eauto].
    exists body. split; [reflexivity|discriminate].
  - destruct (pool_stream_spec io_chunk Hio _ _ _ _ _ _ _ _ Hrun) as (C & rem & R1 & R2).
    split; [exact C|]. split.
    + exists rem. split; [exact R1|]. intros E. apply R2; [exact E|lia].
    + exact (pool_stream_end io_chunk Hio _ _ _ (Some k) _ _ _ _ (Nat.lt_succ_diag_r (length body)) Hrun).
Qed.

Section PoolJob.
  Variable obj : list Z.
  Variables start len io_chunk : Z.
  Hypothesis Hio : 1 <= io_chunk.
  Hypothesis Hin : in_object obj start len.

  Lemma pool_attempts_spec : forall left faults reads ws n o,
    pool_attempts left (range_bytes obj start len) start io_chunk faults reads = (ws, n, o) ->
    consistent obj ws /\ (n <= left)%nat /\
    (o = Ok -> forall p, start <= p < start + len -> covered ws p).
  Proof.
    induction left as [|l IH]; intros faults reads ws n o Hrun.
    - cbn [pool_attempts] in Hrun. injection Hrun as <- <- <-.
      split; [constructor|]. split; [lia|discriminate].
    - cbn [pool_attempts] in Hrun.
      destruct (pool_attempt (range_bytes obj start len) start io_chunk (hd NoFault faults) (hd [] reads))
        as [ws1 e] eqn:Eat.
      destruct (pool_attempt_spec _ _ _ _ _ _ _ Hio Eat) as (C & (rem & R1 & R2) & _).
      pose proof (attempt_deliveries_consistent obj start len ws1 rem Hin C R1) as Hc1.
      destruct e as [| |r cur].
      + injection Hrun as <- <- <-. split; [exact Hc1|]. split; [lia|]. intros _ p Hp.
        rewrite (contiguous_chunks _ start C). apply chunks_cover.
        change (concat (map snd ws1)) with (delivered_bytes ws1).
        rewrite (R2 eq_refl), app_nil_r in R1. rewrite <- R1.
        destruct Hin as (H0 & H1 & H2).
        change (blen (range_bytes obj start len)) with (Z.of_nat (length (range_bytes obj start len))).
        rewrite range_bytes_length by assumption. exact Hp.
      + injection Hrun as <- <- <-. split; [exact Hc1|]. split; [lia|discriminate].
      + destruct r.
        * destruct (pool_attempts l (range_bytes obj start len) start io_chunk (tl faults) (tl reads))
            as [[ws2 n2] o2] eqn:Erec.
          injection Hrun as <- <- <-. destruct (IH _ _ _ _ _ Erec) as (I1 & I2 & I3).
          split; [apply Forall_app; split; assumption|]. split; [lia|].
          intros E p Hp. eapply covered_incl; [|exact (I3 E p Hp)].
          intros x Hx. apply in_or_app. now right.
        * injection Hrun as <- <- <-. split; [exact Hc1|]. split; [lia|discriminate].
  Qed.

  Lemma pool_attempts_succeed : forall left faults reads ws n o,
    Forall (fun f => fires f len = true -> retryable_of f = true) faults ->
    (length (filter (fun f => fires f len) faults) < left)%nat ->
    pool_attempts left (range_bytes obj start len) start io_chunk faults reads = (ws, n, o) ->
    o = Ok.
  Proof.
    assert (Hlen : Z.of_nat (length (range_bytes obj start len)) = len).
    { destruct Hin as (H0 & H1 & H2). now apply range_bytes_length. }
    induction left as [|l IH]; intros faults reads ws n o Hall Hcount Hrun; [lia|].
    cbn [pool_attempts] in Hrun.
    destruct (pool_attempt (range_bytes obj start len) start io_chunk (hd NoFault faults) (hd [] reads))
      as [ws1 e] eqn:Eat.
    destruct (pool_attempt_spec _ _ _ _ _ _ _ Hio Eat) as (_ & _ & Hend). rewrite Hlen in Hend.
    destruct faults as [|f fs]; cbn [hd tl] in *.
    - cbn [fires] in Hend. subst e. now injection Hrun as _ _ <-.
    - inversion Hall as [|? ? Hf Hfs]; subst. cbn [filter] in Hcount.
      destruct (fires f len) eqn:E.
      + destruct Hend as [c ->]. rewrite (Hf eq_refl) in Hrun. cbn [length] in Hcount.
        destruct (pool_attempts l (range_bytes obj start len) start io_chunk fs (tl reads))
          as [[ws2 n2] o2] eqn:Erec.
        injection Hrun as _ _ <-. apply (IH _ _ _ _ _ Hfs ltac:(lia) Erec).
      + subst e. now injection Hrun as _ _ <-.
  Qed.
End PoolJob.

Lemma pool_history mx obj io_chunk parts sched :
  interleaving (map (fun p => fst (fst (pool_job obj io_chunk mx p))) parts)
    (merge sched (map (fun j : list entry * nat * outcome => fst (fst j))
                      (map (pool_job obj io_chunk mx) parts))).
Proof. rewrite map_map. apply merge_interleaving. Qed.

(** The pool's temp file: success implies it holds exactly the object,
    whatever the interleaving of the workers' writes. *)
Theorem pool_success_exact mx obj thr chunk io_chunk fs rs sched :
  0 < chunk -> 1 <= io_chunk ->
  let r := pool_download_with mx obj thr chunk io_chunk fs rs sched in
  dl_out r = DlOk -> dl_content r = Some obj.
Proof.
  intros Hc Hio. unfold pool_download_with, pool_allocate.
  destruct (blen obj <=? 0) eqn:Esz; [cbn [dl_out]; discriminate|].
  pose proof (pool_history mx obj io_chunk
                (plan_parts (blen obj) (dl_plan (blen obj) thr chunk) fs rs) sched) as Hil.
  pose proof (plan_parts_scripted obj thr chunk fs rs Hc) as Hs.
  pose proof (plan_parts_tile obj thr chunk fs rs Hc) as Htl.
  set (parts := plan_parts (blen obj) (dl_plan (blen obj) thr chunk) fs rs) in *.
  set (h := merge sched _) in *.
  cbv zeta. destruct (forallb _ (map (pool_job obj io_chunk mx) parts)) eqn:Eok;
    cbn [dl_out dl_content]; [intros _|discriminate].
  f_equal. rewrite Forall_forall in Hs. rewrite forallb_forall in Eok.
  assert (Hjob : forall q, In q parts ->
            consistent obj (fst (fst (pool_job obj io_chunk mx q))) /\
            forall p, p_start q <= p < p_start q + p_len q ->
                      covered (fst (fst (pool_job obj io_chunk mx q))) p).
  { intros q Hq. specialize (Eok _ (in_map _ _ _ Hq)). unfold pool_job in *.
    destruct (pool_attempts (Z.to_nat mx) (range_bytes obj (p_start q) (p_len q)) (p_start q) io_chunk
                            (p_faults q) (p_reads q)) as [[ws n] o] eqn:Ej.
    destruct (pool_attempts_spec obj _ _ io_chunk Hio (Hs q Hq) _ _ _ _ _ _ Ej) as (J1 & _ & J3).
    cbn [fst snd] in *. split; [exact J1|]. apply J3. destruct o; try discriminate Eok. reflexivity. }
  apply write_all_exact.
  - apply (interleaving_Forall _ _ _ _ Hil). rewrite Forall_map. apply Forall_forall.
    intros q Hq. apply (Hjob q Hq).
  - intros p Hp. destruct (Htl p Hp) as (q & Hq & Hin).
    destruct (proj2 (Hjob q Hq) p Hin) as (e & He & Hi). exists e. split; [|exact Hi].
    apply (interleaving_In _ _ _ Hil (fst (fst (pool_job obj io_chunk mx q)))); [|exact He].
    now apply (in_map (fun p => fst (fst (pool_job obj io_chunk mx p)))).
  - rewrite repeat_length. unfold blen. lia.
Qed.

(** The pool succeeds for a non-empty object under fewer than max_attempts
    retryable faults per job, and never makes more than max_attempts requests
    for a job. *)
Theorem pool_scripted_succeeds mx obj thr chunk io_chunk fs rs sched :
  0 < chunk -> 1 <= io_chunk -> 0 < blen obj ->
  Forall (part_faults_ok mx) (plan_parts (blen obj) (dl_plan (blen obj) thr chunk) fs rs) ->
  dl_out (pool_download_with mx obj thr chunk io_chunk fs rs sched) = DlOk.
Proof.
  intros Hc Hio Hsz Hscr. unfold pool_download_with, pool_allocate.
  replace (blen obj <=? 0) with false by lia.
  pose proof (plan_parts_scripted obj thr chunk fs rs Hc) as Hs.
  set (parts := plan_parts (blen obj) (dl_plan (blen obj) thr chunk) fs rs) in *.
  cbv zeta. cbn [dl_out].
  replace (forallb _ (map (pool_job obj io_chunk mx) parts)) with true; [reflexivity|].
  symmetry. apply forallb_forall. intros j Hj. apply in_map_iff in Hj. destruct Hj as (q & <- & Hq).
  rewrite Forall_forall in Hs, Hscr. destruct (Hscr q Hq) as [Hf Hn]. unfold pool_job.
  destruct (pool_attempts (Z.to_nat mx) (range_bytes obj (p_start q) (p_len q)) (p_start q) io_chunk
                          (p_faults q) (p_reads q)) as [[ws n] o] eqn:Ej.
  assert (Hn' : (length (filter (fun f => fires f (p_len q)) (p_faults q)) < Z.to_nat mx)%nat) by lia.
  cbn [snd]. rewrite (pool_attempts_succeed obj _ _ io_chunk Hio (Hs q Hq) _ _ _ _ _ _ Hf Hn' Ej).
  reflexivity.
Qed.

Theorem pool_attempt_bound mx obj io_chunk p :
  1 <= io_chunk -> part_scripted obj p ->
  Z.of_nat (snd (fst (pool_job obj io_chunk mx p))) <= Z.max 0 mx.
Proof.
  intros Hio Hs. unfold pool_job.
  destruct (pool_attempts (Z.to_nat mx) (range_bytes obj (p_start p) (p_len p)) (p_start p) io_chunk
                          (p_faults p) (p_reads p)) as [[ws n] o] eqn:Ej.
  destruct (pool_attempts_spec obj _ _ io_chunk Hio Hs _ _ _ _ _ _ Ej) as (_ & J2 & _).
  cbn [fst snd]. lia.
Qed.

(* ------------------------------------------------------------------ *)
(** * For the record: the non-seekable destination before the repairs *)

(** Before the fixes for F3/F4 a single GET wrote every chunk straight to the
    stream and ranged downloads went through the old queue. *)
Definition old_stream_content (obj : list Z) (cfg : dl_cfg) (fs : list (list fault))
    (rs : list (list (list Z))) (sched : list nat) : list Z :=
  let h := merge sched (part_deliveries obj (c_io_chunk cfg) (c_attempts cfg)
                                        (manager_parts obj cfg fs rs)) in
  if blen obj <? c_threshold cfg then old_immediate_run [] h
  else concat (map snd (old_emitted h)).

(** F3: "abcdefgh", two ranges [0,5) [5,8); the first request delivers "abc"
    (a 3-byte read), fails, is retried and delivers "abcde" in one chunk. *)
Definition w3_cfg : dl_cfg := mkCfg 1 5 5 2.
Definition w3_faults : list (list fault) := [[FaultAfter 3 true]].
Definition w3_reads : list (list (list Z)) := [[[3]]].

(** F4: the same object by a single GET that fails after 3 bytes. *)
Definition w4_cfg : dl_cfg := mkCfg 100 100 100 2.
Definition w4_faults : list (list fault) := [[FaultAfter 3 true]].

Lemma w3_scripts_ok : cfg_ok w3_cfg /\ scripts_ok w_obj w3_cfg w3_faults w3_reads.
Proof.
  split; [unfold cfg_ok; cbn; lia|]. unfold scripts_ok.
  set (ps := manager_parts w_obj w3_cfg w3_faults w3_reads). vm_compute in ps. subst ps.
  repeat constructor; cbn; intros; try reflexivity; try discriminate.
Qed.

Lemma w4_scripts_ok : cfg_ok w4_cfg /\ scripts_ok w_obj w4_cfg w4_faults [].
Proof.
  split; [unfold cfg_ok; cbn; lia|]. unfold scripts_ok.
  set (ps := manager_parts w_obj w4_cfg w4_faults []). vm_compute in ps. subst ps.
  repeat constructor; cbn; intros; try reflexivity; try discriminate.
Qed.

(* ------------------------------------------------------------------ *)
(** * Single GET or ranged: what the request log shows *)

Lemma map_snd_combine_seq {A} : forall (l : list A) s, map snd (combine (seq s (length l)) l) = l.
Proof. induction l as [|x l IH]; intros s; cbn [length seq combine map snd]; [reflexivity|now rewrite IH]. Qed.

Lemma plan_parts_ranges size plan fs rs : map p_range (plan_parts size plan fs rs) = plan.
Proof.
  unfold plan_parts. rewrite map_map.
  transitivity (map snd (combine (seq 0 (length plan)) plan)); [|apply map_snd_combine_seq].
  apply map_ext. intros [i r].
  now destruct (mk_part_fields size fs rs i r) as (_ & _ & -> & _).
Qed.

Theorem manager_plan_modes kind init obj cfg fs rs sched :
  map fst (dl_parts (manager_download kind init obj cfg fs rs sched)) =
  if blen obj <? c_threshold cfg then [None]
  else map Some (download_ranges (blen obj) (c_chunk cfg)).
Proof.
  rewrite manager_dl_parts, map_map. cbn [fst]. unfold manager_parts.
  rewrite (plan_parts_ranges (blen obj)). reflexivity.
Qed.

(** A worked download (non-vacuity): 10 bytes, threshold 4, chunk 3, io chunk
    2, 3 attempts; range 1 fails after 2 bytes (1-byte reads) and then on the
    request, range 3 fails before its first byte; deliveries interleaved. *)
Definition ex_obj10 : list Z := [10; 11; 12; 13; 14; 15; 16; 17; 18; 19].
Definition ex_cfg : dl_cfg := mkCfg 4 3 2 3.
Definition ex_faults : list (list fault) :=
  [[]; [FaultAfter 2 true; FaultOnRequest true]; []; [FaultAfter 0 true]].
Definition ex_reads : list (list (list Z)) := [[]; [[1; 1]]; [[1]]; []].
Definition ex_sched : list nat := [3; 1; 2; 1; 0; 2; 1; 3; 1; 0]%nat.

Lemma ex_scripts_ok : cfg_ok ex_cfg /\ scripts_ok ex_obj10 ex_cfg ex_faults ex_reads.
Proof.
  split; [unfold cfg_ok; cbn; lia|]. unfold scripts_ok.
  set (ps := manager_parts ex_obj10 ex_cfg ex_faults ex_reads). vm_compute in ps. subst ps.
  repeat constructor; cbn; intros; try reflexivity; try discriminate.
Qed.
