(** StageProofs.v -- progress and termination of the staged-executor model
    model/Stage.v (property C04). *)
From Coq Require Import List Bool Arith PeanoNat Lia.
From S3V Require Import model.Stage.
Import ListNotations.

(** * Small facts *)

Lemma upd_same : forall (A : Type) (f : nat -> A) i v, upd f i v i = v.
Proof. intros A f i v. unfold upd. now rewrite Nat.eqb_refl. Qed.

Lemma upd_other : forall (A : Type) (f : nat -> A) i v j, j <> i -> upd f i v j = f j.
Proof.
  intros A f i v j Hne. unfold upd.
  destruct (Nat.eqb_spec j i) as [He|_]; [contradiction|reflexivity].
Qed.

Lemma sem_eqb_spec : forall a b, reflect (a = b) (sem_eqb a b).
Proof.
  intros [x|x] [y|y]; cbn [sem_eqb]; try (constructor; discriminate);
    destruct (Nat.eqb_spec x y) as [He|Hne]; constructor; congruence.
Qed.

Lemma upds_same : forall (A : Type) (f : sem -> A) m v, upds f m v m = v.
Proof. intros A f m v. unfold upds. destruct (sem_eqb_spec m m) as [_|Hne]; congruence. Qed.

Lemma upds_other : forall (A : Type) (f : sem -> A) m v m', m' <> m -> upds f m v m' = f m'.
Proof.
  intros A f m v m' Hne. unfold upds.
  destruct (sem_eqb_spec m' m) as [He|_]; [contradiction|reflexivity].
Qed.

Lemma spawns_app : forall a b, spawns (a ++ b) = spawns a ++ spawns b.
Proof. intros a b. unfold spawns. apply flat_map_app. Qed.

Lemma spawns_cons_spawn : forall c r, spawns (ASpawn c :: r) = c :: spawns r.
Proof. reflexivity. Qed.

Lemma spawns_cons_other : forall a r, spawn_of a = [] -> spawns (a :: r) = spawns r.
Proof. intros a r Ha. unfold spawns. cbn [flat_map]. now rewrite Ha. Qed.

Lemma in_spawns_in : forall prog c, In c (spawns prog) <-> In (ASpawn c) prog.
Proof.
  intros prog c. unfold spawns. rewrite in_flat_map. split.
  - intros (a & Ha & Hc). destruct a; cbn in Hc; try contradiction.
    destruct Hc as [He|[]]. now subst.
  - intros Hin. exists (ASpawn c). split; [assumption|now left].
Qed.

Lemma in_spawns_split : forall prog c, In c (spawns prog) ->
  exists pre post, prog = pre ++ ASpawn c :: post.
Proof.
  intros prog c Hin. apply in_spawns_in in Hin. now apply in_split.
Qed.

Lemma remove_id_in : forall i l x, In x (remove_id i l) <-> In x l /\ x <> i.
Proof.
  intros i l x. unfold remove_id. rewrite filter_In.
  destruct (Nat.eqb_spec x i) as [He|Hne]; cbn; intuition congruence.
Qed.

Lemma sweep_incl : forall e b l k x, In x (sweep e b k l) -> In x l.
Proof.
  intros e b. induction l as [|y r IH]; intros k x Hin; [contradiction|].
  cbn [sweep] in Hin.
  destruct (e y && negb (existsb (fun z => b z y) k)).
  - right. eapply IH; eassumption.
  - destruct Hin as [He|Hin]; [now left|right; eapply IH; eassumption].
Qed.

Lemma sweep_head : forall e b l h r, sweep e b [] l = h :: r -> e h = false.
Proof.
  intros e b. induction l as [|y l IH]; intros h r Hs; [discriminate|].
  cbn [sweep existsb] in Hs. rewrite andb_true_r in Hs.
  destruct (e y) eqn:Hey.
  - eapply IH; eassumption.
  - injection Hs as Hh _. now subst.
Qed.

Lemma sweep_length : forall e b l k, length (sweep e b k l) <= length l.
Proof.
  intros e b. induction l as [|y l IH]; intros k; [apply le_n|].
  cbn [sweep]. destruct (e y && negb (existsb (fun z => b z y) k)); cbn [length].
  - specialize (IH k). lia.
  - specialize (IH (y :: k)). lia.
Qed.

Lemma forallb_false_ex : forall (A : Type) (f : A -> bool) l,
  forallb f l = false -> exists x, In x l /\ f x = false.
Proof.
  intros A f. induction l as [|a l IH]; intros Hf; [discriminate|].
  cbn [forallb] in Hf. destruct (f a) eqn:Hfa.
  - destruct (IH Hf) as (x & Hx & Hfx). exists x. split; [now right|assumption].
  - exists a. split; [now left|assumption].
Qed.

(** Search over the ids of the plan. *)
Lemma ids_search : forall (P : nat -> bool) n,
  (exists i, i < n /\ P i = true) \/ (forall i, i < n -> P i = false).
Proof.
  intros P n. destruct (existsb P (seq 0 n)) eqn:He.
  - left. apply existsb_exists in He. destruct He as (i & Hi & HP).
    apply in_seq in Hi. exists i. split; [lia|assumption].
  - right. intros i Hi. destruct (P i) eqn:HP; [|reflexivity].
    assert (Hex : existsb P (seq 0 n) = true).
    { apply existsb_exists. exists i. split; [apply in_seq; lia|assumption]. }
    congruence.
Qed.

Definition running (s : status) : bool :=
  match s with SWait | SRun _ _ => true | _ => false end.
Definition started (s : status) : bool :=
  match s with SWait | SRun _ _ | SEnded => true | _ => false end.
Definition user_ok (s : status) : bool :=
  match s with SRun _ _ | SEnded => true | _ => false end.

Section Proofs.
Variable cfg : config.
Variable p : plan.

Notation stg i := (t_stage (tk p i)).
Notation prog i := (t_prog (tk p i)).
Notation deps i := (t_deps (tk p i)).

(** * The step function as a relation *)

Inductive sstep (st : state) (i : nat) : state -> Prop :=
| ss_start : forall q',
    status_of st i = SQueued -> queue st (stg i) = i :: q' ->
    length (busy st (stg i)) < workers cfg (stg i) ->
    sstep st i (mkState (upd (status_of st) i SWait) (upd (queue st) (stg i) q')
                        (upd (busy st) (stg i) (i :: busy st (stg i))) (hold st))
| ss_deps :
    status_of st i = SWait ->
    (forall d, In d (deps i) -> status_of st d = SEnded) ->
    sstep st i (set_status st i (SRun (prog i) false))
| ss_act : forall a rest acq,
    status_of st i = SRun (a :: rest) acq -> spawn_of a = [] -> guard p st i a = true ->
    sstep st i (set_status st i (SRun rest false))
| ss_acq : forall c rest,
    status_of st i = SRun (ASpawn c :: rest) false ->
    length (hold st (sem_of (tk p c))) < cap cfg (sem_of (tk p c)) ->
    sstep st i (mkState (upd (status_of st) i (SRun (ASpawn c :: rest) true))
                        (queue st) (busy st)
                        (upds (hold st) (sem_of (tk p c)) (hold st (sem_of (tk p c)) ++ [c])))
| ss_enq : forall c rest,
    status_of st i = SRun (ASpawn c :: rest) true ->
    sstep st i (mkState (upd (upd (status_of st) i (SRun rest false)) c SQueued)
                        (upd (queue st) (stg c) (queue st (stg c) ++ [c])) (busy st) (hold st))
| ss_end : forall acq,
    status_of st i = SRun [] acq ->
    sstep st i (finish cfg p st i).

Lemma step_sstep : forall st i st', step cfg p st i = Some st' -> sstep st i st'.
Proof.
  intros st i st' Hs. unfold step in Hs.
  destruct (status_of st i) as [| | |rest acq|] eqn:Hst; try discriminate.
  - destruct (queue st (stg i)) as [|h q'] eqn:Hq; [discriminate|].
    destruct (Nat.eqb_spec h i) as [He|Hne]; cbn [andb] in Hs; [|discriminate].
    destruct (Nat.ltb_spec (length (busy st (stg i))) (workers cfg (stg i))) as [Hlt|Hge];
      [|discriminate].
    injection Hs as Hs. subst st' h. now apply ss_start.
  - destruct (forallb (fun d => is_ended (status_of st d)) (deps i)) eqn:Hd; [|discriminate].
    injection Hs as Hs. subst st'. apply ss_deps; [assumption|].
    intros d Hin. rewrite forallb_forall in Hd. specialize (Hd d Hin).
    destruct (status_of st d); try discriminate. reflexivity.
  - destruct rest as [|a rest].
    + injection Hs as Hs. subst st'. eapply ss_end; eassumption.
    + destruct a as [|c| |j|].
      2:{ destruct acq.
          - injection Hs as Hs. subst st'. now apply ss_enq.
          - destruct (Nat.ltb_spec (length (hold st (sem_of (tk p c)))) (cap cfg (sem_of (tk p c))))
              as [Hlt|Hge]; [|discriminate].
            injection Hs as Hs. subst st'. now apply ss_acq. }
      all: match type of Hs with (if ?g then _ else _) = _ => destruct g eqn:Hg end;
        [|discriminate]; injection Hs as Hs; subst st';
        eapply ss_act; [eassumption|reflexivity|assumption].
Qed.

(** * Consequences of well-formedness *)

Hypothesis Hwf : wf_plan p.

Lemma spawn_lt : forall q c, In c (spawns (prog q)) -> stg c < stg q.
Proof. intros q c Hin. now apply (wf_spawn p Hwf q c). Qed.

Lemma spawn_ne : forall q c, In c (spawns (prog q)) -> c <> q.
Proof. intros q c Hin He. subst c. pose proof (spawn_lt q q Hin). lia. Qed.

Lemma spawn_range : forall q c, In c (spawns (prog q)) -> c < length p.
Proof. intros q c Hin. now apply (wf_spawn p Hwf q c). Qed.

Lemma tk_overflow : forall i, length p <= i -> tk p i = idle_task.
Proof. intros i Hge. unfold tk. now apply nth_overflow. Qed.

(** * Invariants of reachable states *)

Definition pend (s : status) (c : nat) : Prop :=
  match s with
  | SNot | SQueued | SWait => True
  | SRun r _ => In c (spawns r)
  | SEnded => False
  end.
Definition pending (st : state) (q c : nat) : Prop := pend (status_of st q) c.

Record inv (st : state) : Prop := mkInv {
  i_range : forall i, status_of st i <> SNot -> i < length p;
  i_queue : forall s x, In x (queue st s) -> status_of st x = SQueued /\ stg x = s;
  i_queued : forall x, status_of st x = SQueued -> In x (queue st (stg x));
  i_qnodup : forall s, NoDup (queue st s);
  i_busy : forall s x, In x (busy st s) -> running (status_of st x) = true /\ stg x = s;
  i_hold : forall m x, In x (hold st m) ->
             sem_of (tk p x) = m /\
             (status_of st x = SNot -> exists q r, status_of st q = SRun (ASpawn x :: r) true);
  i_head : forall m h r, hold st m = h :: r -> status_of st h <> SEnded;
  i_suffix : forall i r a, status_of st i = SRun r a -> exists pre, prog i = pre ++ r;
  i_spawn : forall q c, In c (spawns (prog q)) -> (status_of st c = SNot <-> pending st q c);
  i_deps : forall w d, In d (deps w) -> status_of st w <> SNot ->
             started (status_of st d) = true \/
             (status_of st w = SQueued /\
              exists l1 l2, queue st (stg w) = l1 ++ d :: l2 /\ In w l2);
  i_user : forall i, i < length p -> stg i = USER -> user_ok (status_of st i) = true
}.

Lemma inv_init : inv (init p).
Proof.
  constructor; cbn [init status_of queue busy hold].
  - intros i Hne. destruct (Nat.eqb_spec (stg i) USER) as [He|Hn]; [|congruence].
    destruct (Nat.lt_ge_cases i (length p)) as [Hlt|Hge]; [assumption|].
    rewrite tk_overflow in He by assumption. discriminate.
  - intros s x [].
  - intros x Hq. destruct (Nat.eqb (stg x) USER); discriminate.
  - intros s. constructor.
  - intros s x [].
  - intros m x [].
  - intros m h r Hh. discriminate.
  - intros i r a Hs. destruct (Nat.eqb (stg i) USER); [|discriminate].
    injection Hs as Hr _. exists []. now subst.
  - intros q c Hin. pose proof (spawn_lt q c Hin) as Hlt. pose proof (wf_stage p Hwf q) as Hle.
    unfold pending, pend, init; cbn [status_of].
    destruct (Nat.eqb_spec (stg c) USER) as [He|Hn]; [lia|].
    destruct (Nat.eqb (stg q) USER); split; auto.
  - intros w d Hin Hne. destruct (Nat.eqb_spec (stg w) USER) as [He|Hn]; [|congruence].
    rewrite (wf_userdeps p Hwf w He) in Hin. contradiction.
  - intros i _ Hu. rewrite Hu. reflexivity.
Qed.

Lemma suffix_spawn : forall st i c r a, inv st ->
  status_of st i = SRun (ASpawn c :: r) a -> In c (spawns (prog i)).
Proof.
  intros st i c r a Hinv Hs. destruct (i_suffix st Hinv i _ _ Hs) as (pre & Hp).
  rewrite Hp, spawns_app, spawns_cons_spawn. apply in_or_app. right. now left.
Qed.

(** The child of a pending spawn is not in the rest of the program. *)
Lemma suffix_fresh : forall st i c r a, inv st ->
  status_of st i = SRun (ASpawn c :: r) a -> ~ In c (spawns r).
Proof.
  intros st i c r a Hinv Hs Hin. destruct (i_suffix st Hinv i _ _ Hs) as (pre & Hp).
  pose proof (wf_nodup p Hwf i) as Hnd.
  rewrite Hp, spawns_app, spawns_cons_spawn in Hnd.
  apply NoDup_remove_2 in Hnd. apply Hnd. apply in_or_app. now right.
Qed.

Lemma child_not_spawned : forall st i c r a, inv st ->
  status_of st i = SRun (ASpawn c :: r) a -> status_of st c = SNot.
Proof.
  intros st i c r a Hinv Hs.
  apply (i_spawn st Hinv i c (suffix_spawn st i c r a Hinv Hs)).
  unfold pending, pend. rewrite Hs. rewrite spawns_cons_spawn. now left.
Qed.

Lemma NoDup_snoc : forall (l : list nat) c, NoDup l -> ~ In c l -> NoDup (l ++ [c]).
Proof.
  induction l as [|x l IH]; intros c Hnd Hni; cbn [app].
  - constructor; [intros []|constructor].
  - inversion Hnd as [|x' l' Hx Hl]; subst. constructor.
    + intros Hin. apply in_app_or in Hin. destruct Hin as [Hin|[He|[]]]; [contradiction|].
      subst. apply Hni. now left.
    + apply IH; [assumption|]. intros Hin. apply Hni. now right.
Qed.

Ltac ss_cases Hstep :=
  destruct Hstep as [q' Hst Hq Hw | Hst Hd | a rest acq Hst Ha Hgd | c rest Hst Hc
                    | c rest Hst | acq Hst];
  cbn [status_of queue busy hold set_status finish] in *.

Lemma inv_range_step : forall st i st', inv st -> sstep st i st' ->
  forall j, status_of st' j <> SNot -> j < length p.
Proof.
  intros st i st' Hinv Hstep j Hne.
  assert (Hi : i < length p).
  { apply (i_range st Hinv). destruct Hstep; congruence. }
  ss_cases Hstep.
  1,2,3,4,6: (destruct (Nat.eq_dec j i) as [->|Hji]; [assumption|];
              rewrite upd_other in Hne by assumption; now apply (i_range st Hinv)).
  destruct (Nat.eq_dec j c) as [->|Hjc].
  - eapply spawn_range. eapply suffix_spawn; eassumption.
  - rewrite upd_other in Hne by assumption.
    destruct (Nat.eq_dec j i) as [->|Hji]; [assumption|].
    rewrite upd_other in Hne by assumption. now apply (i_range st Hinv).
Qed.

Lemma inv_queue_step : forall st i st', inv st -> sstep st i st' ->
  forall s x, In x (queue st' s) -> status_of st' x = SQueued /\ stg x = s.
Proof.
  intros st i st' Hinv Hstep s x Hin.
  ss_cases Hstep.
  - pose proof (i_qnodup st Hinv (stg i)) as Hnd. rewrite Hq in Hnd.
    destruct (Nat.eq_dec s (stg i)) as [->|Hs].
    + rewrite upd_same in Hin.
      assert (Hx : x <> i). { intros ->. inversion Hnd; contradiction. }
      rewrite upd_other by assumption. apply (i_queue st Hinv). rewrite Hq. now right.
    + rewrite upd_other in Hin by assumption.
      destruct (i_queue st Hinv s x Hin) as [Hxs Hxg].
      assert (Hx : x <> i) by congruence.
      rewrite upd_other by assumption. auto.
  - destruct (i_queue st Hinv s x Hin) as [Hxs Hxg]. assert (Hx : x <> i) by congruence.
    rewrite upd_other by assumption. auto.
  - destruct (i_queue st Hinv s x Hin) as [Hxs Hxg]. assert (Hx : x <> i) by congruence.
    rewrite upd_other by assumption. auto.
  - destruct (i_queue st Hinv s x Hin) as [Hxs Hxg]. assert (Hx : x <> i) by congruence.
    rewrite upd_other by assumption. auto.
  - pose proof (child_not_spawned st i c rest true Hinv Hst) as Hcn.
    destruct (Nat.eq_dec x c) as [->|Hxc].
    + rewrite upd_same. split; [reflexivity|].
      destruct (Nat.eq_dec s (stg c)) as [->|Hs]; [reflexivity|].
      rewrite upd_other in Hin by assumption.
      destruct (i_queue st Hinv s c Hin) as [Hcs _]. congruence.
    + rewrite upd_other by assumption.
      assert (Hin' : In x (queue st s)).
      { destruct (Nat.eq_dec s (stg c)) as [->|Hs].
        - rewrite upd_same in Hin. apply in_app_or in Hin.
          destruct Hin as [Hin|[He|[]]]; [assumption|congruence].
        - now rewrite upd_other in Hin by assumption. }
      destruct (i_queue st Hinv s x Hin') as [Hxs Hxg]. assert (Hx : x <> i) by congruence.
      rewrite upd_other by assumption. auto.
  - destruct (i_queue st Hinv s x Hin) as [Hxs Hxg]. assert (Hx : x <> i) by congruence.
    rewrite upd_other by assumption. auto.
Qed.

Lemma inv_queued_step : forall st i st', inv st -> sstep st i st' ->
  forall x, status_of st' x = SQueued -> In x (queue st' (stg x)).
Proof.
  intros st i st' Hinv Hstep x Hx.
  ss_cases Hstep.
  - destruct (Nat.eq_dec x i) as [->|Hxi]; [rewrite upd_same in Hx; discriminate|].
    rewrite upd_other in Hx by assumption. pose proof (i_queued st Hinv x Hx) as Hin.
    destruct (Nat.eq_dec (stg x) (stg i)) as [He|Hs].
    + rewrite He in *. rewrite upd_same. rewrite Hq in Hin.
      destruct Hin as [Hin|Hin]; [congruence|assumption].
    + now rewrite upd_other by assumption.
  - destruct (Nat.eq_dec x i) as [->|Hxi]; [rewrite upd_same in Hx; discriminate|].
    rewrite upd_other in Hx by assumption. now apply (i_queued st Hinv).
  - destruct (Nat.eq_dec x i) as [->|Hxi]; [rewrite upd_same in Hx; discriminate|].
    rewrite upd_other in Hx by assumption. now apply (i_queued st Hinv).
  - destruct (Nat.eq_dec x i) as [->|Hxi]; [rewrite upd_same in Hx; discriminate|].
    rewrite upd_other in Hx by assumption. now apply (i_queued st Hinv).
  - destruct (Nat.eq_dec x c) as [->|Hxc].
    + rewrite upd_same. apply in_or_app. right. now left.
    + rewrite upd_other in Hx by assumption.
      destruct (Nat.eq_dec x i) as [->|Hxi]; [rewrite upd_same in Hx; discriminate|].
      rewrite upd_other in Hx by assumption. pose proof (i_queued st Hinv x Hx) as Hin.
      destruct (Nat.eq_dec (stg x) (stg c)) as [He|Hs].
      * rewrite He in *. rewrite upd_same. apply in_or_app. now left.
      * now rewrite upd_other by assumption.
  - destruct (Nat.eq_dec x i) as [->|Hxi]; [rewrite upd_same in Hx; discriminate|].
    rewrite upd_other in Hx by assumption. now apply (i_queued st Hinv).
Qed.

Lemma inv_qnodup_step : forall st i st', inv st -> sstep st i st' ->
  forall s, NoDup (queue st' s).
Proof.
  intros st i st' Hinv Hstep s.
  ss_cases Hstep; try apply (i_qnodup st Hinv).
  - destruct (Nat.eq_dec s (stg i)) as [->|Hs].
    + rewrite upd_same. pose proof (i_qnodup st Hinv (stg i)) as Hnd. rewrite Hq in Hnd.
      now inversion Hnd.
    + rewrite upd_other by assumption. apply (i_qnodup st Hinv).
  - destruct (Nat.eq_dec s (stg c)) as [->|Hs].
    + rewrite upd_same. apply NoDup_snoc; [apply (i_qnodup st Hinv)|].
      intros Hin. destruct (i_queue st Hinv _ _ Hin) as [Hcs _].
      rewrite (child_not_spawned st i c rest true Hinv Hst) in Hcs. discriminate.
    + rewrite upd_other by assumption. apply (i_qnodup st Hinv).
Qed.

Lemma inv_busy_step : forall st i st', inv st -> sstep st i st' ->
  forall s x, In x (busy st' s) -> running (status_of st' x) = true /\ stg x = s.
Proof.
  intros st i st' Hinv Hstep s x Hin.
  ss_cases Hstep.
  - destruct (Nat.eq_dec x i) as [->|Hxi].
    + rewrite upd_same. split; [reflexivity|].
      destruct (Nat.eq_dec s (stg i)) as [->|Hs]; [reflexivity|].
      rewrite upd_other in Hin by assumption. now apply (i_busy st Hinv) in Hin.
    + rewrite upd_other by assumption. apply (i_busy st Hinv).
      destruct (Nat.eq_dec s (stg i)) as [->|Hs].
      * rewrite upd_same in Hin. destruct Hin as [He|Hin]; [congruence|assumption].
      * now rewrite upd_other in Hin by assumption.
  - destruct (i_busy st Hinv s x Hin) as [Hr Hg].
    destruct (Nat.eq_dec x i) as [->|Hxi]; [rewrite upd_same; auto|].
    rewrite upd_other by assumption. auto.
  - destruct (i_busy st Hinv s x Hin) as [Hr Hg].
    destruct (Nat.eq_dec x i) as [->|Hxi]; [rewrite upd_same; auto|].
    rewrite upd_other by assumption. auto.
  - destruct (i_busy st Hinv s x Hin) as [Hr Hg].
    destruct (Nat.eq_dec x i) as [->|Hxi]; [rewrite upd_same; auto|].
    rewrite upd_other by assumption. auto.
  - destruct (i_busy st Hinv s x Hin) as [Hr Hg].
    pose proof (child_not_spawned st i c rest true Hinv Hst) as Hcn.
    assert (Hxc : x <> c). { intros ->. rewrite Hcn in Hr. discriminate. }
    rewrite upd_other by assumption.
    destruct (Nat.eq_dec x i) as [->|Hxi]; [rewrite upd_same; auto|].
    rewrite upd_other by assumption. auto.
  - destruct (Nat.eq_dec s (stg i)) as [->|Hs].
    + rewrite upd_same in Hin. apply remove_id_in in Hin. destruct Hin as [Hin Hxi].
      rewrite upd_other by assumption. now apply (i_busy st Hinv).
    + rewrite upd_other in Hin by assumption.
      destruct (i_busy st Hinv s x Hin) as [Hr Hg].
      assert (Hxi : x <> i) by congruence.
      rewrite upd_other by assumption. auto.
Qed.

Lemma NoDup_app_disj : forall (a b : list nat) x, NoDup (a ++ b) -> In x a -> ~ In x b.
Proof.
  induction a as [|y a IH]; intros b x Hnd Hin Hb; [contradiction|].
  cbn [app] in Hnd. inversion Hnd as [|y' l' Hy Hl]; subst.
  destruct Hin as [He|Hin].
  - subst. apply Hy. apply in_or_app. now right.
  - eapply IH; eassumption.
Qed.

Lemma inv_hold_step : forall st i st', inv st -> sstep st i st' ->
  forall m x, In x (hold st' m) ->
    sem_of (tk p x) = m /\
    (status_of st' x = SNot -> exists q r, status_of st' q = SRun (ASpawn x :: r) true).
Proof.
  intros st i st' Hinv Hstep m x Hin.
  (* the steps that touch only the status of i, with a holder list that can only shrink *)
  assert (Hgen : forall v, v <> SNot -> In x (hold st m) ->
            (forall r, status_of st i <> SRun (ASpawn x :: r) true) ->
            sem_of (tk p x) = m /\
            (upd (status_of st) i v x = SNot ->
             exists q r, upd (status_of st) i v q = SRun (ASpawn x :: r) true)).
  { intros v Hv Hin0 Hni. destruct (i_hold st Hinv m x Hin0) as [Hsem Hw].
    split; [assumption|]. intros Hx.
    destruct (Nat.eq_dec x i) as [->|Hxi]; [rewrite upd_same in Hx; contradiction|].
    rewrite upd_other in Hx by assumption. destruct (Hw Hx) as (q & r & Hq).
    exists q, r. rewrite upd_other; [assumption|]. intros ->. now apply (Hni r). }
  ss_cases Hstep.
  - apply Hgen; [discriminate|assumption|]. intros r. congruence.
  - apply Hgen; [discriminate|assumption|]. intros r. congruence.
  - apply Hgen; [discriminate|assumption|]. intros r He. rewrite Hst in He.
    injection He as Ha' _ _. subst a. discriminate.
  - destruct (sem_eqb_spec m (sem_of (tk p c))) as [->|Hm].
    + rewrite upds_same in Hin. apply in_app_or in Hin. destruct Hin as [Hin|[He|[]]].
      * apply Hgen; [discriminate|assumption|]. intros r. congruence.
      * subst x. split; [reflexivity|]. intros _. exists i, rest. now rewrite upd_same.
    + rewrite upds_other in Hin by assumption.
      apply Hgen; [discriminate|assumption|]. intros r. congruence.
  - destruct (i_hold st Hinv m x Hin) as [Hsem Hw]. split; [assumption|]. intros Hx.
    pose proof (child_not_spawned st i c rest true Hinv Hst) as Hcn.
    destruct (Nat.eq_dec x c) as [->|Hxc]; [rewrite upd_same in Hx; discriminate|].
    rewrite upd_other in Hx by assumption.
    destruct (Nat.eq_dec x i) as [->|Hxi]; [rewrite upd_same in Hx; discriminate|].
    rewrite upd_other in Hx by assumption. destruct (Hw Hx) as (q & r & Hq).
    exists q, r.
    assert (Hqc : q <> c) by congruence.
    assert (Hqi : q <> i). { intros ->. rewrite Hst in Hq. injection Hq as Hq _. congruence. }
    now rewrite !upd_other by assumption.
  - assert (Hin0 : In x (hold st m)).
    { destruct (sem_eqb_spec m (sem_of (tk p i))) as [->|Hm].
      - rewrite upds_same in Hin. eapply sweep_incl; eassumption.
      - now rewrite upds_other in Hin by assumption. }
    apply Hgen; [discriminate|assumption|]. intros r. congruence.
Qed.

Lemma inv_head_step : forall st i st', inv st -> sstep st i st' ->
  forall m h r, hold st' m = h :: r -> status_of st' h <> SEnded.
Proof.
  intros st i st' Hinv Hstep m h r Hh.
  ss_cases Hstep.
  - destruct (Nat.eq_dec h i) as [->|Hhi]; [rewrite upd_same; discriminate|].
    rewrite upd_other by assumption. eapply (i_head st Hinv); eassumption.
  - destruct (Nat.eq_dec h i) as [->|Hhi]; [rewrite upd_same; discriminate|].
    rewrite upd_other by assumption. eapply (i_head st Hinv); eassumption.
  - destruct (Nat.eq_dec h i) as [->|Hhi]; [rewrite upd_same; discriminate|].
    rewrite upd_other by assumption. eapply (i_head st Hinv); eassumption.
  - destruct (Nat.eq_dec h i) as [->|Hhi]; [rewrite upd_same; discriminate|].
    rewrite upd_other by assumption.
    destruct (sem_eqb_spec m (sem_of (tk p c))) as [->|Hm].
    + rewrite upds_same in Hh.
      destruct (hold st (sem_of (tk p c))) as [|h0 r0] eqn:Hold; cbn [app] in Hh.
      * injection Hh as Hh _. subst h.
        rewrite (child_not_spawned st i c rest false Hinv Hst). discriminate.
      * injection Hh as Hh _. subst h0. eapply (i_head st Hinv); eassumption.
    + rewrite upds_other in Hh by assumption. eapply (i_head st Hinv); eassumption.
  - destruct (Nat.eq_dec h c) as [->|Hhc]; [rewrite upd_same; discriminate|].
    rewrite upd_other by assumption.
    destruct (Nat.eq_dec h i) as [->|Hhi]; [rewrite upd_same; discriminate|].
    rewrite upd_other by assumption. eapply (i_head st Hinv); eassumption.
  - destruct (sem_eqb_spec m (sem_of (tk p i))) as [->|Hm].
    + rewrite upds_same in Hh. apply sweep_head in Hh.
      intros He. rewrite He in Hh. discriminate.
    + rewrite upds_other in Hh by assumption.
      assert (Hhi : h <> i).
      { intros ->. destruct (i_hold st Hinv m i) as [Hsem _]; [rewrite Hh; now left|]. congruence. }
      rewrite upd_other by assumption. eapply (i_head st Hinv); eassumption.
Qed.

Lemma inv_suffix_step : forall st i st', inv st -> sstep st i st' ->
  forall j r a, status_of st' j = SRun r a -> exists pre, prog j = pre ++ r.
Proof.
  intros st i st' Hinv Hstep j r b Hj.
  ss_cases Hstep.
  - destruct (Nat.eq_dec j i) as [->|Hji]; [rewrite upd_same in Hj; discriminate|].
    rewrite upd_other in Hj by assumption. eapply (i_suffix st Hinv); eassumption.
  - destruct (Nat.eq_dec j i) as [->|Hji].
    + rewrite upd_same in Hj. injection Hj as Hr _. subst r. now exists [].
    + rewrite upd_other in Hj by assumption. eapply (i_suffix st Hinv); eassumption.
  - destruct (Nat.eq_dec j i) as [->|Hji].
    + rewrite upd_same in Hj. injection Hj as Hr _. subst r.
      destruct (i_suffix st Hinv i _ _ Hst) as (pre & Hp). exists (pre ++ [a]).
      rewrite <- app_assoc. exact Hp.
    + rewrite upd_other in Hj by assumption. eapply (i_suffix st Hinv); eassumption.
  - destruct (Nat.eq_dec j i) as [->|Hji].
    + rewrite upd_same in Hj. injection Hj as Hr _. subst r.
      eapply (i_suffix st Hinv); eassumption.
    + rewrite upd_other in Hj by assumption. eapply (i_suffix st Hinv); eassumption.
  - destruct (Nat.eq_dec j c) as [->|Hjc]; [rewrite upd_same in Hj; discriminate|].
    rewrite upd_other in Hj by assumption.
    destruct (Nat.eq_dec j i) as [->|Hji].
    + rewrite upd_same in Hj. injection Hj as Hr _. subst r.
      destruct (i_suffix st Hinv i _ _ Hst) as (pre & Hp). exists (pre ++ [ASpawn c]).
      rewrite <- app_assoc. exact Hp.
    + rewrite upd_other in Hj by assumption. eapply (i_suffix st Hinv); eassumption.
  - destruct (Nat.eq_dec j i) as [->|Hji]; [rewrite upd_same in Hj; discriminate|].
    rewrite upd_other in Hj by assumption. eapply (i_suffix st Hinv); eassumption.
Qed.

Lemma inv_spawn_step : forall st i st', inv st -> sstep st i st' ->
  forall q c0, In c0 (spawns (prog q)) -> (status_of st' c0 = SNot <-> pending st' q c0).
Proof.
  intros st i st' Hinv Hstep q c0 Hin.
  pose proof (i_spawn st Hinv q c0 Hin) as Hold. unfold pending in *.
  assert (Hgen : forall v, v <> SNot -> status_of st i <> SNot ->
            (q = i -> (pend v c0 <-> pend (status_of st i) c0)) ->
            (upd (status_of st) i v c0 = SNot <-> pend (upd (status_of st) i v q) c0)).
  { intros v Hv Hi Hq.
    assert (Hl : upd (status_of st) i v c0 = SNot <-> status_of st c0 = SNot).
    { destruct (Nat.eq_dec c0 i) as [->|Hci]; [rewrite upd_same; tauto|].
      now rewrite upd_other by assumption. }
    rewrite Hl, Hold.
    destruct (Nat.eq_dec q i) as [->|Hqi].
    - rewrite upd_same. symmetry. now apply Hq.
    - rewrite upd_other by assumption. tauto. }
  ss_cases Hstep.
  - apply Hgen; [discriminate|congruence|]. intros _. rewrite Hst. cbn [pend]. tauto.
  - apply Hgen; [discriminate|congruence|]. intros ->. rewrite Hst. cbn [pend]. tauto.
  - apply Hgen; [discriminate|congruence|]. intros _. rewrite Hst. cbn [pend].
    now rewrite (spawns_cons_other a rest Ha).
  - apply Hgen; [discriminate|congruence|]. intros _. rewrite Hst. cbn [pend]. tauto.
  - pose proof (child_not_spawned st i c rest true Hinv Hst) as Hcn.
    pose proof (suffix_spawn st i c rest true Hinv Hst) as Hci.
    pose proof (spawn_ne i c Hci) as Hne.
    destruct (Nat.eq_dec c0 c) as [->|Hc0].
    + rewrite upd_same.
      assert (Hq : q = i) by (eapply (wf_uniq p Hwf); eassumption). subst q.
      rewrite upd_other by auto. rewrite upd_same. cbn [pend].
      pose proof (suffix_fresh st i c rest true Hinv Hst) as Hfr.
      split; [discriminate|contradiction].
    + rewrite (upd_other _ _ c _ c0) by assumption.
      assert (Hl : upd (status_of st) i (SRun rest false) c0 = SNot <-> status_of st c0 = SNot).
      { destruct (Nat.eq_dec c0 i) as [->|Hc0i]; [rewrite upd_same, Hst; split; discriminate|].
        now rewrite upd_other by assumption. }
      rewrite Hl, Hold.
      destruct (Nat.eq_dec q c) as [->|Hqc].
      * rewrite upd_same, Hcn. cbn [pend]. tauto.
      * rewrite upd_other by assumption.
        destruct (Nat.eq_dec q i) as [->|Hqi].
        -- rewrite upd_same, Hst. cbn [pend]. rewrite spawns_cons_spawn. cbn [In].
           split; [intros [He|Hr]; [congruence|assumption]|auto].
        -- rewrite upd_other by assumption. tauto.
  - apply Hgen; [discriminate|congruence|]. intros _. rewrite Hst. cbn [pend spawns flat_map In].
    tauto.
Qed.

Lemma inv_deps_step : forall st i st', inv st -> sstep st i st' ->
  forall w d, In d (deps w) -> status_of st' w <> SNot ->
    started (status_of st' d) = true \/
    (status_of st' w = SQueued /\
     exists l1 l2, queue st' (stg w) = l1 ++ d :: l2 /\ In w l2).
Proof.
  intros st i st' Hinv Hstep w d Hin Hwn.
  assert (Hgen : forall v, started v = true -> started (status_of st i) = true ->
            upd (status_of st) i v w <> SNot ->
            started (upd (status_of st) i v d) = true \/
            (upd (status_of st) i v w = SQueued /\
             exists l1 l2, queue st (stg w) = l1 ++ d :: l2 /\ In w l2)).
  { intros v Hv Hi Hw'.
    assert (Hw0 : status_of st w <> SNot).
    { destruct (Nat.eq_dec w i) as [->|Hwi]; [intros He; rewrite He in Hi; discriminate|].
      now rewrite upd_other in Hw' by assumption. }
    destruct (i_deps st Hinv w d Hin Hw0) as [Hsd|(Hwq & Hqq)].
    - left. destruct (Nat.eq_dec d i) as [->|Hdi]; [now rewrite upd_same|].
      now rewrite upd_other by assumption.
    - right. split; [|assumption].
      destruct (Nat.eq_dec w i) as [->|Hwi]; [rewrite Hwq in Hi; discriminate|].
      now rewrite upd_other by assumption. }
  ss_cases Hstep.
  - assert (Hw0 : status_of st w <> SNot).
    { destruct (Nat.eq_dec w i) as [->|Hwi]; [congruence|].
      now rewrite upd_other in Hwn by assumption. }
    pose proof (i_qnodup st Hinv (stg i)) as Hnd. rewrite Hq in Hnd.
    destruct (i_deps st Hinv w d Hin Hw0) as [Hsd|(Hwq & l1 & l2 & Hql & Hwl)].
    + left. destruct (Nat.eq_dec d i) as [->|Hdi]; [now rewrite upd_same|].
      now rewrite upd_other by assumption.
    + destruct (Nat.eq_dec (stg w) (stg i)) as [Hs|Hs].
      * rewrite Hs in *. rewrite Hq in Hql.
        destruct l1 as [|x l1]; cbn [app] in Hql; injection Hql as Hx Hql.
        -- subst d. left. now rewrite upd_same.
        -- subst x. right.
           assert (Hwi : w <> i).
           { intros ->. inversion Hnd as [|y l Hni Hl]; subst. apply Hni.
             apply in_or_app. right. now right. }
           rewrite upd_other by assumption. split; [assumption|].
           exists l1, l2. rewrite upd_same. split; assumption.
      * right. assert (Hwi : w <> i) by congruence.
        rewrite upd_other by assumption. split; [assumption|].
        exists l1, l2. rewrite upd_other by assumption. auto.
  - apply Hgen; [reflexivity|now rewrite Hst|assumption].
  - apply Hgen; [reflexivity|now rewrite Hst|assumption].
  - apply Hgen; [reflexivity|now rewrite Hst|assumption].
  - pose proof (child_not_spawned st i c rest true Hinv Hst) as Hcn.
    pose proof (suffix_spawn st i c rest true Hinv Hst) as Hci.
    pose proof (spawn_ne i c Hci) as Hne.
    destruct (Nat.eq_dec w c) as [->|Hwc].
    + destruct (i_suffix st Hinv i _ _ Hst) as (pre & Hp).
      destruct (wf_deps p Hwf i pre c rest d Hp Hin) as [Hdpre Hds].
      assert (Hdi : In d (spawns (prog i))).
      { rewrite Hp, spawns_app. apply in_or_app. now left. }
      assert (Hdn : status_of st d <> SNot).
      { intros Hd. apply (i_spawn st Hinv i d Hdi) in Hd. unfold pending in Hd.
        rewrite Hst in Hd. cbn [pend] in Hd.
        pose proof (wf_nodup p Hwf i) as Hnd. rewrite Hp, spawns_app in Hnd.
        exact (NoDup_app_disj _ _ d Hnd Hdpre Hd). }
      assert (Hdc : d <> c) by congruence.
      assert (Hdi' : d <> i) by (now apply spawn_ne).
      rewrite (upd_other _ _ c _ d) by assumption.
      rewrite (upd_other _ _ i _ d) by assumption.
      destruct (status_of st d) eqn:Hsd; try (now left).
      right. rewrite upd_same. split; [reflexivity|].
      pose proof (i_queued st Hinv d Hsd) as Hdq. rewrite Hds in Hdq.
      apply in_split in Hdq. destruct Hdq as (l1 & l2 & Hqq). exists l1, (l2 ++ [c]).
      rewrite upd_same, Hqq. rewrite <- app_assoc. cbn [app].
      split; [reflexivity|]. apply in_or_app. right. now left.
    + assert (Hw0 : status_of st w <> SNot).
      { rewrite upd_other in Hwn by assumption.
        destruct (Nat.eq_dec w i) as [->|Hwi]; [congruence|].
        now rewrite upd_other in Hwn by assumption. }
      destruct (i_deps st Hinv w d Hin Hw0) as [Hsd|(Hwq & l1 & l2 & Hql & Hwl)].
      * left. assert (Hdc : d <> c). { intros ->. rewrite Hcn in Hsd. discriminate. }
        rewrite upd_other by assumption.
        destruct (Nat.eq_dec d i) as [->|Hdi]; [now rewrite upd_same|].
        now rewrite upd_other by assumption.
      * right. assert (Hwi : w <> i) by congruence.
        rewrite (upd_other _ _ c _ w) by assumption.
        rewrite (upd_other _ _ i _ w) by assumption.
        split; [assumption|].
        destruct (Nat.eq_dec (stg w) (stg c)) as [Hs|Hs].
        -- rewrite Hs in *. rewrite upd_same. exists l1, (l2 ++ [c]).
           rewrite Hql, <- app_assoc. cbn [app].
           split; [reflexivity|apply in_or_app; now left].
        -- rewrite upd_other by assumption. exists l1, l2. auto.
  - apply Hgen; [reflexivity|now rewrite Hst|assumption].
Qed.

Lemma inv_user_step : forall st i st', inv st -> sstep st i st' ->
  forall j, j < length p -> stg j = USER -> user_ok (status_of st' j) = true.
Proof.
  intros st i st' Hinv Hstep j Hj Hu. pose proof (i_user st Hinv j Hj Hu) as Hold.
  ss_cases Hstep.
  1,2,3,4,6: (destruct (Nat.eq_dec j i) as [->|Hji];
              [rewrite Hst in Hold; try discriminate; rewrite upd_same; reflexivity|];
              now rewrite upd_other by assumption).
  pose proof (suffix_spawn st i c rest true Hinv Hst) as Hci.
  pose proof (spawn_lt i c Hci) as Hlt. pose proof (wf_stage p Hwf i) as Hle.
  assert (Hjc : j <> c) by (intros ->; lia).
  rewrite upd_other by assumption.
  destruct (Nat.eq_dec j i) as [->|Hji]; [rewrite upd_same; reflexivity|].
  now rewrite upd_other by assumption.
Qed.

Lemma inv_step : forall st i st', inv st -> step cfg p st i = Some st' -> inv st'.
Proof.
  intros st i st' Hinv Hs. apply step_sstep in Hs. constructor.
  - eapply inv_range_step; eassumption.
  - eapply inv_queue_step; eassumption.
  - eapply inv_queued_step; eassumption.
  - eapply inv_qnodup_step; eassumption.
  - eapply inv_busy_step; eassumption.
  - eapply inv_hold_step; eassumption.
  - eapply inv_head_step; eassumption.
  - eapply inv_suffix_step; eassumption.
  - eapply inv_spawn_step; eassumption.
  - eapply inv_deps_step; eassumption.
  - eapply inv_user_step; eassumption.
Qed.

Lemma inv_reachable : forall st, reachable cfg p st -> inv st.
Proof.
  intros st Hr. induction Hr as [|st i st' Hr IH Hs]; [apply inv_init|].
  eapply inv_step; eassumption.
Qed.

(** * Progress *)

Hypothesis Hcfg : config_ok cfg.

Definition can_step (st : state) : Prop :=
  exists i st', i < length p /\ step cfg p st i = Some st'.

Lemma sem_same_stage : forall h c, sem_of (tk p h) = sem_of (tk p c) -> stg h = stg c.
Proof.
  intros h c He. unfold sem_of in He.
  destruct (t_tag (tk p h)) as [k|] eqn:Hh; destruct (t_tag (tk p c)) as [k'|] eqn:Hc;
    try discriminate.
  - rewrite (wf_tag p Hwf h k Hh), (wf_tag p Hwf c k' Hc). reflexivity.
  - now injection He.
Qed.

Lemma desc_stage_lt : forall f i d, In d (desc p f i) -> stg d < stg i.
Proof.
  induction f as [|f IH]; intros i d Hin; [contradiction|].
  cbn [desc] in Hin. apply in_app_or in Hin. destruct Hin as [Hin|Hin].
  - now apply spawn_lt.
  - apply in_flat_map in Hin. destruct Hin as (c & Hc & Hd).
    pose proof (spawn_lt i c Hc) as Hlt. specialize (IH c d Hd). lia.
Qed.

Lemma status_cases : forall s, s = SNot \/ live s = true \/ s = SEnded.
Proof. intros [| | | |]; cbn; auto. Qed.

Section AtMin.
Variable st : state.
Hypothesis Hinv : inv st.
Variable s : nat.
Hypothesis Hmin : forall j, live (status_of st j) = true -> s <= stg j.

Lemma below_not_live : forall x, stg x < s -> live (status_of st x) = false.
Proof.
  intros x Hlt. destruct (live (status_of st x)) eqn:Hl; [|reflexivity].
  specialize (Hmin x Hl). lia.
Qed.

Lemma child_of_ended : forall c c', stg c < s -> status_of st c = SEnded ->
  In c' (spawns (prog c)) -> status_of st c' = SEnded /\ stg c' < s.
Proof.
  intros c c' Hlt Hc Hin. pose proof (spawn_lt c c' Hin) as Hlt'.
  split; [|lia].
  destruct (status_cases (status_of st c')) as [Hn|[Hl|He]]; [| |assumption].
  - apply (i_spawn st Hinv c c' Hin) in Hn. unfold pending in Hn. rewrite Hc in Hn. contradiction.
  - rewrite below_not_live in Hl by lia. discriminate.
Qed.

Lemma ended_desc : forall f c j, stg c < s -> status_of st c = SEnded ->
  In j (desc p f c) -> status_of st j = SEnded.
Proof.
  induction f as [|f IH]; intros c j Hlt Hc Hin; [contradiction|].
  cbn [desc] in Hin. apply in_app_or in Hin. destruct Hin as [Hin|Hin].
  - now apply (child_of_ended c j Hlt Hc).
  - apply in_flat_map in Hin. destruct Hin as (c' & Hc' & Hj).
    destruct (child_of_ended c c' Hlt Hc Hc') as [He Hl]. eapply IH; eassumption.
Qed.

(** (a) a running thread of the least live stage can move, or the holder of
    the permit it waits for can. *)
Lemma run_can_step_aux : forall N r rest acq, r < N ->
  status_of st r = SRun rest acq -> stg r = s -> can_step st.
Proof.
  induction N as [|N IHN]; intros r rest acq HrN Hst Hs; [lia|].
  assert (Hr : r < length p) by (apply (i_range st Hinv); congruence).
  destruct rest as [|a rest].
  { exists r. eexists. split; [assumption|]. unfold step. rewrite Hst. reflexivity. }
  destruct (i_suffix st Hinv r _ _ Hst) as (pre & Hp).
  destruct a as [|c| |j|].
  - exists r. eexists. split; [assumption|]. unfold step. rewrite Hst. reflexivity.
  - destruct acq.
    { exists r. eexists. split; [assumption|]. unfold step. rewrite Hst. reflexivity. }
    destruct (Nat.ltb_spec (length (hold st (sem_of (tk p c)))) (cap cfg (sem_of (tk p c))))
      as [Hlt|Hge].
    { exists r. eexists. split; [assumption|]. unfold step. rewrite Hst. cbv beta iota zeta.
      apply Nat.ltb_lt in Hlt. rewrite Hlt. reflexivity. }
    destruct (hold st (sem_of (tk p c))) as [|h t] eqn:Hh.
    { destruct Hcfg as [_ Hcap]. specialize (Hcap (sem_of (tk p c))). cbn [length] in Hge. lia. }
    destruct (i_hold st Hinv (sem_of (tk p c)) h) as [Hsem Hw]; [rewrite Hh; now left|].
    pose proof (i_head st Hinv (sem_of (tk p c)) _ _ Hh) as Hne.
    destruct (status_cases (status_of st h)) as [Hn|[Hl|He]]; [| |contradiction].
    + destruct (Hw Hn) as (q & r' & Hq).
      exists q. eexists. split; [apply (i_range st Hinv); congruence|].
      unfold step. rewrite Hq. reflexivity.
    + pose proof (suffix_spawn st r c rest false Hinv Hst) as Hc.
      pose proof (spawn_lt r c Hc) as Hlt. pose proof (sem_same_stage h c Hsem) as Hhc.
      pose proof (Hmin h Hl) as Hle. lia.
  - exists r. eexists. split; [assumption|]. unfold step. rewrite Hst. cbv beta iota zeta.
    assert (Hg : guard p st r AWaitAll = true).
    { cbn [guard]. apply forallb_forall. intros d Hd. unfold descendants in Hd.
      apply desc_stage_lt in Hd. rewrite below_not_live by lia. reflexivity. }
    rewrite Hg. reflexivity.
  - assert (Hu : stg r = USER).
    { apply (wf_useract p Hwf r (AWaitDone j)); [rewrite Hp; apply in_or_app; right; now left|].
      right. now exists j. }
    destruct (wf_waitdone p Hwf r pre j rest Hp) as (c & Hc & Hj).
    (* once the root c of j has ended, so has j, and r passes result() *)
    assert (Hpass : stg c < s -> status_of st c = SEnded -> can_step st).
    { intros Hcs Hce. exists r. eexists. split; [assumption|].
      unfold step. rewrite Hst. cbv beta iota zeta.
      assert (Hg : guard p st r (AWaitDone j) = true).
      { cbn [guard]. destruct Hj as [->|Hj]; [now rewrite Hce|].
        unfold descendants in Hj. now rewrite (ended_desc (stg c) c j Hcs Hce Hj). }
      rewrite Hg. reflexivity. }
    destruct Hc as [Hc|(u & Hur & Huu & Hcu)].
    + assert (Hcr : In c (spawns (prog r))).
      { rewrite Hp, spawns_app. apply in_or_app. now left. }
      pose proof (spawn_lt r c Hcr) as Hlt.
      apply Hpass; [lia|].
      destruct (status_cases (status_of st c)) as [Hn|[Hl|He]]; [| |assumption].
      * apply (i_spawn st Hinv r c Hcr) in Hn. unfold pending in Hn. rewrite Hst in Hn.
        cbn [pend] in Hn. pose proof (wf_nodup p Hwf r) as Hnd.
        rewrite Hp, spawns_app in Hnd.
        exfalso. exact (NoDup_app_disj _ _ c Hnd Hc Hn).
      * rewrite below_not_live in Hl by lia. discriminate.
    + (* the future comes from user thread u < r: u has ended, or it runs and (induction) moves *)
      pose proof (spawn_lt u c Hcu) as Hlt.
      assert (Hun : u < length p) by lia.
      pose proof (i_user st Hinv u Hun Huu) as Huo.
      destruct (status_of st u) as [| | |ru au|] eqn:Hust; try discriminate.
      * apply (IHN u ru au); [lia|assumption|congruence].
      * apply Hpass; [lia|].
        destruct (status_cases (status_of st c)) as [Hn|[Hl|He]]; [| |assumption].
        -- apply (i_spawn st Hinv u c Hcu) in Hn. unfold pending in Hn. rewrite Hust in Hn.
           contradiction.
        -- rewrite below_not_live in Hl by lia. discriminate.
  - exists r. eexists. split; [assumption|]. unfold step. rewrite Hst. cbv beta iota zeta.
    assert (Hg : guard p st r AJoin = true).
    { cbn [guard].
      assert (Hu : stg r = USER).
      { apply (wf_useract p Hwf r AJoin); [rewrite Hp; apply in_or_app; right; now left|].
        now left. }
      apply forallb_forall. intros s' Hs'. apply in_seq in Hs'.
      destruct (queue st s') as [|x t] eqn:Hq.
      - destruct (busy st s') as [|x t] eqn:Hb; [reflexivity|].
        destruct (i_busy st Hinv s' x) as [Hrun Hx]; [rewrite Hb; now left|].
        assert (Hl : live (status_of st x) = true) by (destruct (status_of st x); auto).
        specialize (Hmin x Hl). lia.
      - destruct (i_queue st Hinv s' x) as [Hxq Hx]; [rewrite Hq; now left|].
        assert (Hl : live (status_of st x) = true) by now rewrite Hxq.
        specialize (Hmin x Hl). lia. }
    rewrite Hg. reflexivity.
Qed.

Lemma run_can_step : forall r rest acq,
  status_of st r = SRun rest acq -> stg r = s -> can_step st.
Proof.
  intros r rest acq Hst Hs. apply (run_can_step_aux (S r) r rest acq); auto.
Qed.

(** (b) nobody of stage s runs: the started tasks wait for dependencies, which
    are earlier siblings; the earliest one has all its dependencies ended. *)
Lemma wait_can_step_aux :
  (forall x r a, stg x = s -> status_of st x <> SRun r a) ->
  forall N w q pre post, length pre < N -> prog q = pre ++ ASpawn w :: post ->
    status_of st w = SWait -> stg w = s -> can_step st.
Proof.
  intros Hnorun. induction N as [|N IH]; intros w q pre post Hlen Hp Hw Hs; [lia|].
  assert (Hwn : w < length p) by (apply (i_range st Hinv); congruence).
  destruct (forallb (fun d => is_ended (status_of st d)) (deps w)) eqn:Hd.
  { exists w. eexists. split; [assumption|]. unfold step. rewrite Hw, Hd. reflexivity. }
  apply forallb_false_ex in Hd. destruct Hd as (d & Hin & Hde).
  destruct (wf_deps p Hwf q pre w post d Hp Hin) as [Hdpre Hds].
  destruct (i_deps st Hinv w d Hin) as [Hsd|(Hwq & _)]; [congruence| |congruence].
  destruct (status_of st d) as [| | |r a|] eqn:Hdst; try discriminate.
  - destruct (in_spawns_split pre d Hdpre) as (pre1 & post1 & Hpre).
    apply (IH d q pre1 (post1 ++ ASpawn w :: post)).
    + rewrite Hpre, app_length in Hlen. cbn [length] in Hlen. lia.
    + rewrite Hp, Hpre, <- app_assoc. reflexivity.
    + assumption.
    + congruence.
  - exfalso. apply (Hnorun d r a); congruence.
Qed.

Lemma wait_can_step :
  (forall x r a, stg x = s -> status_of st x <> SRun r a) ->
  forall w, status_of st w = SWait -> stg w = s -> can_step st.
Proof.
  intros Hnorun w Hw Hs.
  assert (Hwn : w < length p) by (apply (i_range st Hinv); congruence).
  destruct (Nat.eq_dec (stg w) USER) as [Hu|Hu].
  - exists w. eexists. split; [assumption|]. unfold step. rewrite Hw.
    rewrite (wf_userdeps p Hwf w Hu). reflexivity.
  - pose proof (wf_stage p Hwf w) as Hle.
    destruct (wf_parent p Hwf w Hwn) as (q & Hq); [lia|].
    destruct (in_spawns_split _ _ Hq) as (pre & post & Hp).
    eapply (wait_can_step_aux Hnorun (S (length pre))); [apply Nat.lt_succ_diag_r|eassumption..].
Qed.

(** (c) nobody of stage s occupies a worker: the head of the queue starts. *)
Lemma queued_can_step :
  (forall x, stg x = s -> running (status_of st x) = false) ->
  forall x, status_of st x = SQueued -> stg x = s -> can_step st.
Proof.
  intros Hnorun x Hx Hs.
  pose proof (i_queued st Hinv x Hx) as Hin. rewrite Hs in Hin.
  destruct (queue st s) as [|h t] eqn:Hq; [contradiction|].
  destruct (i_queue st Hinv s h) as [Hhq Hhs]; [rewrite Hq; now left|].
  exists h. eexists. split; [apply (i_range st Hinv); congruence|].
  unfold step. rewrite Hhq, Hhs, Hq. rewrite Nat.eqb_refl.
  destruct (busy st s) as [|b t'] eqn:Hb.
  - destruct Hcfg as [Hwk _]. specialize (Hwk s). cbn [length andb].
    destruct (Nat.ltb_spec 0 (workers cfg s)) as [_|Hge]; [reflexivity|lia].
  - destruct (i_busy st Hinv s b) as [Hrun Hbs]; [rewrite Hb; now left|].
    rewrite Hnorun in Hrun by assumption. discriminate.
Qed.

Lemma min_can_step : forall i, live (status_of st i) = true -> stg i = s -> can_step st.
Proof.
  intros i Hl Hs.
  destruct (ids_search (fun x => Nat.eqb (stg x) s &&
              match status_of st x with SRun _ _ => true | _ => false end) (length p))
    as [(x & Hx & HP)|Hnorun].
  { apply andb_prop in HP. destruct HP as [Hxs Hxr]. apply Nat.eqb_eq in Hxs.
    destruct (status_of st x) as [| | |r a|] eqn:Hxst; try discriminate.
    eapply run_can_step; eassumption. }
  assert (Hnorun' : forall x r a, stg x = s -> status_of st x <> SRun r a).
  { intros x r a Hxs Hxr.
    assert (Hxn : x < length p) by (apply (i_range st Hinv); congruence).
    specialize (Hnorun x Hxn). cbv beta in Hnorun.
    rewrite Hxs, Nat.eqb_refl, Hxr in Hnorun. discriminate. }
  destruct (ids_search (fun x => Nat.eqb (stg x) s &&
              match status_of st x with SWait => true | _ => false end) (length p))
    as [(x & Hx & HP)|Hnowait].
  { apply andb_prop in HP. destruct HP as [Hxs Hxr]. apply Nat.eqb_eq in Hxs.
    destruct (status_of st x) eqn:Hxst; try discriminate.
    eapply wait_can_step; eassumption. }
  assert (Hnorunning : forall x, stg x = s -> running (status_of st x) = false).
  { intros x Hxs. destruct (status_of st x) as [| | |r a|] eqn:Hxst; try reflexivity.
    - assert (Hxn : x < length p) by (apply (i_range st Hinv); congruence).
      specialize (Hnowait x Hxn). cbv beta in Hnowait.
      rewrite Hxs, Nat.eqb_refl, Hxst in Hnowait. discriminate.
    - exfalso. now apply (Hnorun' x r a). }
  destruct (status_of st i) as [| | |r a|] eqn:Hist; try discriminate.
  - eapply queued_can_step; eassumption.
  - specialize (Hnorunning i Hs). rewrite Hist in Hnorunning. discriminate.
  - exfalso. now apply (Hnorun' i r a).
Qed.

End AtMin.

Lemma least_live_stage : forall st, inv st -> forall k i,
  live (status_of st i) = true -> stg i <= k ->
  exists s i', live (status_of st i') = true /\ stg i' = s /\
               forall j, live (status_of st j) = true -> s <= stg j.
Proof.
  intros st Hinv. induction k as [|k IH]; intros i Hl Hk.
  - exists 0, i. split; [assumption|]. split; [lia|]. intros j _. lia.
  - destruct (ids_search (fun j => live (status_of st j) && (stg j <=? k)) (length p))
      as [(j & Hj & HP)|Hnone].
    + apply andb_prop in HP. destruct HP as [Hjl Hjk]. apply Nat.leb_le in Hjk.
      eapply IH; eassumption.
    + assert (Hall : forall j, live (status_of st j) = true -> S k <= stg j).
      { intros j Hjl.
        assert (Hjn : j < length p).
        { apply (i_range st Hinv). intros He. rewrite He in Hjl. discriminate. }
        specialize (Hnone j Hjn). cbv beta in Hnone. rewrite Hjl in Hnone. cbn [andb] in Hnone.
        apply Nat.leb_gt in Hnone. lia. }
      exists (S k), i. split; [assumption|]. split; [|assumption].
      specialize (Hall i Hl). lia.
Qed.

Lemma progress_inv : forall st, inv st ->
  (exists i, live (status_of st i) = true) -> can_step st.
Proof.
  intros st Hinv (i & Hl).
  destruct (least_live_stage st Hinv (stg i) i Hl (le_n _)) as (s & i' & Hl' & Hs' & Hmin).
  eapply min_can_step; eassumption.
Qed.

Lemma run_reachable : forall l st st', reachable cfg p st -> run cfg p st l = Some st' ->
  reachable cfg p st'.
Proof.
  induction l as [|i l IH]; intros st st' Hr Hrun; cbn [run] in Hrun.
  - injection Hrun as Hrun. now subst.
  - destruct (step cfg p st i) as [st1|] eqn:Hs; [|discriminate].
    eapply IH; [|eassumption]. eapply reach_step; eassumption.
Qed.

Lemma run_app : forall l1 l2 st st1 st2, run cfg p st l1 = Some st1 ->
  run cfg p st1 l2 = Some st2 -> run cfg p st (l1 ++ l2) = Some st2.
Proof.
  induction l1 as [|i l1 IH]; intros l2 st st1 st2 H1 H2; cbn [run app] in *.
  - injection H1 as H1. now subst.
  - destruct (step cfg p st i) as [st'|]; [|discriminate]. eapply IH; eassumption.
Qed.

(** * Termination *)

Lemma msum_le : forall f g n, (forall j, j < n -> f j <= g j) -> msum f n <= msum g n.
Proof.
  intros f g. induction n as [|n IH]; intros Hle; cbn [msum]; [lia|].
  pose proof (Hle n (Nat.lt_succ_diag_r n)) as Hn.
  assert (Hrec : msum f n <= msum g n) by (apply IH; intros j Hj; apply Hle; lia). lia.
Qed.

Lemma msum_lt : forall f g n i, i < n -> (forall j, j < n -> f j <= g j) -> f i < g i ->
  msum f n < msum g n.
Proof.
  intros f g. induction n as [|n IH]; intros i Hi Hle Hlt; [lia|]. cbn [msum].
  destruct (Nat.eq_dec i n) as [->|Hne].
  - assert (Hrec : msum f n <= msum g n) by (apply msum_le; intros j Hj; apply Hle; lia). lia.
  - pose proof (Hle n (Nat.lt_succ_diag_r n)) as Hn.
    assert (Hrec : msum f n < msum g n).
    { apply (IH i); [lia| |assumption]. intros j Hj. apply Hle. lia. }
    lia.
Qed.

Lemma measure_sstep : forall st i st', inv st -> sstep st i st' ->
  measure p st' < measure p st.
Proof.
  intros st i st' Hinv Hstep. unfold measure.
  assert (Hi : i < length p).
  { apply (i_range st Hinv). destruct Hstep; congruence. }
  apply (msum_lt _ _ _ i Hi).
  - intros j _. ss_cases Hstep.
    1,2,3,4,6: (destruct (Nat.eq_dec j i) as [->|Hji];
                [rewrite upd_same, Hst; unfold weight; cbn [length]; try destruct acq; lia
                |rewrite upd_other by assumption; apply le_n]).
    pose proof (child_not_spawned st i c rest true Hinv Hst) as Hcn.
    destruct (Nat.eq_dec j c) as [->|Hjc].
    + rewrite upd_same, Hcn. unfold weight. lia.
    + rewrite upd_other by assumption.
      destruct (Nat.eq_dec j i) as [->|Hji].
      * rewrite upd_same, Hst. unfold weight. cbn [length]. lia.
      * rewrite upd_other by assumption. apply le_n.
  - ss_cases Hstep.
    1,2,3,4,6: (rewrite upd_same, Hst; unfold weight; cbn [length]; try destruct acq; lia).
    pose proof (suffix_spawn st i c rest true Hinv Hst) as Hci.
    pose proof (spawn_ne i c Hci) as Hne.
    rewrite upd_other by auto. rewrite upd_same, Hst. unfold weight. cbn [length]. lia.
Qed.

Lemma measure_step : forall st i st', reachable cfg p st -> step cfg p st i = Some st' ->
  measure p st' < measure p st.
Proof.
  intros st i st' Hr Hs. apply (measure_sstep st i st'); [now apply inv_reachable|].
  now apply step_sstep.
Qed.

Lemma run_measure : forall l st st', reachable cfg p st -> run cfg p st l = Some st' ->
  length l + measure p st' <= measure p st.
Proof.
  induction l as [|i l IH]; intros st st' Hr Hrun; cbn [run] in Hrun.
  - injection Hrun as Hrun. subst. cbn [length]. lia.
  - destruct (step cfg p st i) as [st1|] eqn:Hs; [|discriminate].
    pose proof (measure_step st i st1 Hr Hs) as Hlt.
    assert (Hr1 : reachable cfg p st1) by (eapply reach_step; eassumption).
    specialize (IH st1 st' Hr1 Hrun). cbn [length]. lia.
Qed.

Lemma no_infinite_run : forall st, reachable cfg p st ->
  forall (f : nat -> state) (sched : nat -> nat), f 0 = st ->
    ~ (forall k, step cfg p (f k) (sched k) = Some (f (S k))).
Proof.
  intros st Hr f sched H0 Hall.
  assert (Hk : forall k, reachable cfg p (f k) /\ k + measure p (f k) <= measure p st).
  { induction k as [|k [IHr IHm]].
    - rewrite H0. split; [assumption|lia].
    - split; [eapply reach_step; [exact IHr|apply Hall]|].
      pose proof (measure_step _ _ _ IHr (Hall k)) as Hlt. lia. }
  destruct (Hk (S (measure p st))) as [_ Hm]. lia.
Qed.

(** * The end states *)

Lemma all_ended_inv : forall st, inv st -> (forall i, live (status_of st i) = false) ->
  forall k i, i < length p -> USER - stg i <= k -> status_of st i = SEnded.
Proof.
  intros st Hinv Hnl. induction k as [|k IH]; intros i Hi Hk;
    pose proof (wf_stage p Hwf i) as Hle.
  - destruct (status_cases (status_of st i)) as [Hn|[Hl|He]]; [| |assumption].
    + pose proof (i_user st Hinv i Hi ltac:(lia)) as Hu. rewrite Hn in Hu. discriminate.
    + rewrite Hnl in Hl. discriminate.
  - destruct (status_cases (status_of st i)) as [Hn|[Hl|He]]; [| |assumption].
    + destruct (Nat.eq_dec (stg i) USER) as [Hu|Hu].
      { pose proof (i_user st Hinv i Hi Hu) as Hu'. rewrite Hn in Hu'. discriminate. }
      destruct (wf_parent p Hwf i Hi) as (q & Hq); [lia|].
      pose proof (spawn_lt q i Hq) as Hlt.
      assert (Hqn : q < length p).
      { destruct (Nat.lt_ge_cases q (length p)) as [Hlt'|Hge]; [assumption|].
        rewrite tk_overflow in Hq by assumption. contradiction. }
      assert (Hqe : status_of st q = SEnded) by (apply IH; [assumption|lia]).
      apply (i_spawn st Hinv q i Hq) in Hn. unfold pending in Hn. rewrite Hqe in Hn.
      contradiction.
    + rewrite Hnl in Hl. discriminate.
Qed.

Lemma no_live_all_done : forall st, inv st -> (forall i, live (status_of st i) = false) ->
  all_done p st.
Proof.
  intros st Hinv Hnl. split; [|split].
  - intros i Hi. apply (all_ended_inv st Hinv Hnl USER i Hi). lia.
  - intros m. destruct (hold st m) as [|h t] eqn:Hh; [reflexivity|]. exfalso.
    destruct (i_hold st Hinv m h) as [_ Hw]; [rewrite Hh; now left|].
    pose proof (i_head st Hinv m h t Hh) as Hne.
    destruct (status_cases (status_of st h)) as [Hn|[Hl|He]]; [| |contradiction].
    + destruct (Hw Hn) as (q & r & Hq). specialize (Hnl q). rewrite Hq in Hnl. discriminate.
    + rewrite Hnl in Hl. discriminate.
  - intros s. split.
    + destruct (queue st s) as [|x t] eqn:Hq; [reflexivity|]. exfalso.
      destruct (i_queue st Hinv s x) as [Hx _]; [rewrite Hq; now left|].
      specialize (Hnl x). rewrite Hx in Hnl. discriminate.
    + destruct (busy st s) as [|x t] eqn:Hb; [reflexivity|]. exfalso.
      destruct (i_busy st Hinv s x) as [Hx _]; [rewrite Hb; now left|].
      specialize (Hnl x). destruct (status_of st x); discriminate.
Qed.

Lemma stuck_all_done : forall st, reachable cfg p st -> stuck cfg p st -> all_done p st.
Proof.
  intros st Hr Hstuck. pose proof (inv_reachable st Hr) as Hinv.
  apply no_live_all_done; [assumption|]. intros i.
  destruct (live (status_of st i)) eqn:Hl; [|reflexivity].
  destruct (progress_inv st Hinv (ex_intro _ i Hl)) as (j & st' & Hj & Hs).
  rewrite (Hstuck j Hj) in Hs. discriminate.
Qed.

Lemma all_done_stuck : forall st, all_done p st -> stuck cfg p st.
Proof.
  intros st (Hall & _ & _) i Hi. unfold step. now rewrite (Hall i Hi).
Qed.

(** From every reachable state some schedule completes everything (and by
    [run_measure] every schedule stops after at most [measure] moves). *)
Lemma can_complete : forall n st, reachable cfg p st -> measure p st <= n ->
  exists l st', run cfg p st l = Some st' /\ all_done p st'.
Proof.
  induction n as [|n IH]; intros st Hr Hm; pose proof (inv_reachable st Hr) as Hinv.
  - exists [], st. split; [reflexivity|]. apply no_live_all_done; [assumption|]. intros i.
    destruct (live (status_of st i)) eqn:Hl; [|reflexivity].
    destruct (progress_inv st Hinv (ex_intro _ i Hl)) as (j & st' & Hj & Hs).
    pose proof (measure_step st j st' Hr Hs). lia.
  - destruct (ids_search (fun i => live (status_of st i)) (length p)) as [(i & Hi & Hl)|Hnone].
    + destruct (progress_inv st Hinv (ex_intro _ i Hl)) as (j & st1 & Hj & Hs).
      pose proof (measure_step st j st1 Hr Hs) as Hlt.
      assert (Hr1 : reachable cfg p st1) by (eapply reach_step; eassumption).
      destruct (IH st1 Hr1) as (l & st' & Hrun & Hdone); [lia|].
      exists (j :: l), st'. split; [|assumption]. cbn [run]. now rewrite Hs.
    + exists [], st. split; [reflexivity|]. apply no_live_all_done; [assumption|]. intros i.
      destruct (live (status_of st i)) eqn:Hl; [|reflexivity].
      assert (Hi : i < length p).
      { apply (i_range st Hinv). intros He. rewrite He in Hl. discriminate. }
      rewrite (Hnone i Hi) in Hl. discriminate.
Qed.

End Proofs.

(** * The executable well-formedness check is sound *)

Lemma memb_in : forall x l, memb x l = true <-> In x l.
Proof.
  intros x l. unfold memb. rewrite existsb_exists. split.
  - intros (y & Hy & He). apply Nat.eqb_eq in He. now subst.
  - intros Hin. exists x. split; [assumption|apply Nat.eqb_refl].
Qed.

Lemma nodupb_NoDup : forall l, nodupb l = true -> NoDup l.
Proof.
  induction l as [|x l IH]; intros Hn; [constructor|].
  cbn [nodupb] in Hn. apply andb_prop in Hn. destruct Hn as [Hx Hl].
  constructor; [|now apply IH].
  intros Hin. apply memb_in in Hin. rewrite Hin in Hx. discriminate.
Qed.

Lemma NoDup_app_r : forall (a b : list nat), NoDup (a ++ b) -> NoDup b.
Proof.
  induction a as [|x a IH]; intros b Hnd; cbn [app] in Hnd; [assumption|].
  inversion Hnd as [|y l Hx Hl]; subst. now apply IH.
Qed.

Lemma NoDup_app_l : forall (a b : list nat), NoDup (a ++ b) -> NoDup a.
Proof.
  induction a as [|x a IH]; intros b Hnd; [constructor|]. cbn [app] in Hnd.
  inversion Hnd as [|y l Hx Hl]; subst. constructor.
  - intros Hin. apply Hx. apply in_or_app. now left.
  - eapply IH. eassumption.
Qed.

Lemma flat_nodup_nth : forall (f : task -> list nat) l i, NoDup (flat_map f l) ->
  i < length l -> NoDup (f (nth i l idle_task)).
Proof.
  intros f. induction l as [|t l IH]; intros i Hnd Hi; cbn [length] in Hi; [lia|].
  cbn [flat_map] in Hnd. destruct i as [|i]; cbn [nth].
  - eapply NoDup_app_l. eassumption.
  - apply IH; [|lia]. eapply NoDup_app_r. eassumption.
Qed.

Lemma flat_in_nth : forall (f : task -> list nat) l i c, i < length l ->
  In c (f (nth i l idle_task)) -> In c (flat_map f l).
Proof.
  intros f l i c Hi Hin. apply in_flat_map. exists (nth i l idle_task).
  split; [now apply nth_In|assumption].
Qed.

Lemma flat_uniq : forall (f : task -> list nat) l i i' c, NoDup (flat_map f l) ->
  i < length l -> i' < length l ->
  In c (f (nth i l idle_task)) -> In c (f (nth i' l idle_task)) -> i = i'.
Proof.
  intros f. induction l as [|t l IH]; intros i i' c Hnd Hi Hi' Hc Hc'; cbn [length] in *; [lia|].
  cbn [flat_map] in Hnd.
  destruct i as [|i]; destruct i' as [|i']; cbn [nth] in *.
  - reflexivity.
  - exfalso. apply (NoDup_app_disj _ _ c Hnd Hc). apply (flat_in_nth f l i'); [lia|assumption].
  - exfalso. apply (NoDup_app_disj _ _ c Hnd Hc'). apply (flat_in_nth f l i); [lia|assumption].
  - f_equal. apply (IH i i' c); try assumption; try lia.
    eapply NoDup_app_r. eassumption.
Qed.

Lemma prog_ok_spec : forall p ext prog seen, prog_ok p ext seen prog = true ->
  (forall pre w post d, prog = pre ++ ASpawn w :: post -> In d (t_deps (tk p w)) ->
     (In d seen \/ In d (spawns pre)) /\ t_stage (tk p d) = t_stage (tk p w)) /\
  (forall pre j post, prog = pre ++ AWaitDone j :: post ->
     exists c, (In c ext \/ In c seen \/ In c (spawns pre)) /\
               (j = c \/ In j (descendants p c))).
Proof.
  intros p ext. induction prog as [|a r IH]; intros seen Hok.
  { split; intros pre; intros; destruct pre; discriminate. }
  assert (Hnext : forall seen', prog_ok p ext seen' r = true ->
            (forall x, In x seen' -> In x seen \/ In x (spawns [a])) ->
     (forall pre w post d, r = pre ++ ASpawn w :: post -> In d (t_deps (tk p w)) ->
        (In d seen \/ In d (spawns (a :: pre))) /\ t_stage (tk p d) = t_stage (tk p w)) /\
     (forall pre j post, r = pre ++ AWaitDone j :: post ->
        exists c, (In c ext \/ In c seen \/ In c (spawns (a :: pre))) /\
                  (j = c \/ In j (descendants p c)))).
  { intros seen' Hok' Hsub. destruct (IH seen' Hok') as [IHd IHw].
    assert (Hconv : forall x pre, In x seen' \/ In x (spawns pre) ->
                      In x seen \/ In x (spawns (a :: pre))).
    { intros x pre [Hx|Hx].
      - destruct (Hsub x Hx) as [Hs|Hs]; [now left|right].
        change (a :: pre) with ([a] ++ pre). rewrite spawns_app. apply in_or_app. now left.
      - right. change (a :: pre) with ([a] ++ pre). rewrite spawns_app. apply in_or_app. now right. }
    split.
    - intros pre w post d He Hd.
      destruct (IHd pre w post d He Hd) as [Hin Hs]. split; [now apply Hconv|assumption].
    - intros pre j post He.
      destruct (IHw pre j post He) as (c & Hc & Hj). exists c. split; [|assumption].
      destruct Hc as [Hc|Hc]; [now left|right; now apply Hconv]. }
  assert (Hsame : forall x, In x seen -> In x seen \/ In x (spawns [a])) by (intros x Hx; now left).
  destruct a as [|c| |j|]; cbn [prog_ok] in Hok.
  - destruct (Hnext seen Hok Hsame) as [Hd Hw].
    split; intros [|a' pre]; intros; cbn [app] in *; try discriminate.
    + match goal with He : _ :: _ = _ :: _ |- _ => injection He as Ha Hr; subst a' end.
      eapply Hd; eassumption.
    + match goal with He : _ :: _ = _ :: _ |- _ => injection He as Ha Hr; subst a' end.
      eapply Hw; eassumption.
  - apply andb_prop in Hok. destruct Hok as [Hdeps Hok].
    destruct (Hnext (c :: seen) Hok) as [Hd Hw].
    { intros x [Hx|Hx]; [right; subst; now left|now left]. }
    split; intros [|a' pre]; intros; cbn [app] in *; try discriminate.
    + match goal with He : _ :: _ = _ :: _ |- _ => injection He as Hc Hr; subst end.
      rewrite forallb_forall in Hdeps.
      match goal with Hin : In _ (t_deps _) |- _ => specialize (Hdeps _ Hin) end.
      apply andb_prop in Hdeps. destruct Hdeps as [Hm Hs].
      apply memb_in in Hm. apply Nat.eqb_eq in Hs. split; [now left|assumption].
    + match goal with He : _ :: _ = _ :: _ |- _ => injection He as Ha Hr; subst a' end.
      eapply Hd; eassumption.
    + match goal with He : _ :: _ = _ :: _ |- _ => injection He as Ha Hr; subst a' end.
      eapply Hw; eassumption.
  - destruct (Hnext seen Hok Hsame) as [Hd Hw].
    split; intros [|a' pre]; intros; cbn [app] in *; try discriminate.
    + match goal with He : _ :: _ = _ :: _ |- _ => injection He as Ha Hr; subst a' end.
      eapply Hd; eassumption.
    + match goal with He : _ :: _ = _ :: _ |- _ => injection He as Ha Hr; subst a' end.
      eapply Hw; eassumption.
  - apply andb_prop in Hok. destruct Hok as [Hex Hok].
    destruct (Hnext seen Hok Hsame) as [Hd Hw].
    split; intros [|a' pre]; intros; cbn [app] in *; try discriminate.
    + match goal with He : _ :: _ = _ :: _ |- _ => injection He as Ha Hr; subst a' end.
      eapply Hd; eassumption.
    + match goal with He : _ :: _ = _ :: _ |- _ => injection He as Hj Hr; subst end.
      apply existsb_exists in Hex. destruct Hex as (c & Hc & Hjc). exists c.
      split.
      * apply in_app_or in Hc. destruct Hc as [Hc|Hc]; [right; now left|now left].
      * apply orb_prop in Hjc. destruct Hjc as [Hjc|Hjc];
          [left; now apply Nat.eqb_eq|right; now apply memb_in].
    + match goal with He : _ :: _ = _ :: _ |- _ => injection He as Ha Hr; subst a' end.
      eapply Hw; eassumption.
  - destruct (Hnext seen Hok Hsame) as [Hd Hw].
    split; intros [|a' pre]; intros; cbn [app] in *; try discriminate.
    + match goal with He : _ :: _ = _ :: _ |- _ => injection He as Ha Hr; subst a' end.
      eapply Hd; eassumption.
    + match goal with He : _ :: _ = _ :: _ |- _ => injection He as Ha Hr; subst a' end.
      eapply Hw; eassumption.
Qed.

Lemma foreign_in : forall p i c, In c (foreign p i) ->
  exists u, u < i /\ t_stage (tk p u) = USER /\ In c (spawns (t_prog (tk p u))).
Proof.
  intros p i c Hin. unfold foreign in Hin. apply in_flat_map in Hin.
  destruct Hin as (u & Hu & Hc). apply in_seq in Hu.
  destruct (Nat.eqb_spec (t_stage (tk p u)) USER) as [He|Hne]; [|contradiction].
  exists u. split; [lia|]. split; assumption.
Qed.

Lemma task_ok_all : forall p, forallb (task_ok p) (seq 0 (length p)) = true ->
  forall i, task_ok p i = true.
Proof.
  intros p Hall i. destruct (Nat.lt_ge_cases i (length p)) as [Hlt|Hge].
  - rewrite forallb_forall in Hall. apply Hall. apply in_seq. lia.
  - unfold task_ok, tk. rewrite nth_overflow by assumption. reflexivity.
Qed.

Lemma wf_planb_sound : forall p, wf_planb p = true -> wf_plan p.
Proof.
  intros p Hb. unfold wf_planb in Hb.
  apply andb_prop in Hb. destruct Hb as [Hb Hpar].
  apply andb_prop in Hb. destruct Hb as [Hall Hnd].
  pose proof (task_ok_all p Hall) as Hok. apply nodupb_NoDup in Hnd.
  assert (Hparts : forall i,
    (t_stage (tk p i) <=? USER) = true /\
    forallb (fun c => (c <? length p) && (t_stage (tk p c) <? t_stage (tk p i)))
            (spawns (t_prog (tk p i))) = true /\
    match t_tag (tk p i) with Some _ => Nat.eqb (t_stage (tk p i)) REQ | None => true end = true /\
    prog_ok p (foreign p i) [] (t_prog (tk p i)) = true /\
    (negb (Nat.eqb (t_stage (tk p i)) USER)
     || match t_deps (tk p i) with [] => true | _ => false end) = true /\
    (Nat.eqb (t_stage (tk p i)) USER || negb (existsb user_action (t_prog (tk p i)))) = true).
  { intros i. specialize (Hok i). unfold task_ok in Hok.
    repeat (apply andb_prop in Hok; destruct Hok as [Hok ?]). repeat split; assumption. }
  assert (Hrange : forall i c, In c (spawns (t_prog (tk p i))) -> i < length p).
  { intros i c Hin. destruct (Nat.lt_ge_cases i (length p)) as [Hlt|Hge]; [assumption|].
    unfold tk in Hin. rewrite nth_overflow in Hin by assumption. contradiction. }
  constructor.
  - intros i. destruct (Hparts i) as (H1 & _). now apply Nat.leb_le.
  - intros i c Hin. destruct (Hparts i) as (_ & H2 & _). rewrite forallb_forall in H2.
    specialize (H2 c Hin). apply andb_prop in H2. destruct H2 as [Ha Hb'].
    apply Nat.ltb_lt in Ha. apply Nat.ltb_lt in Hb'. split; assumption.
  - intros i i' c Hc Hc'.
    apply (flat_uniq (fun t => spawns (t_prog t)) p i i' c Hnd);
      [eapply Hrange; eassumption|eapply Hrange; eassumption|exact Hc|exact Hc'].
  - intros i. destruct (Nat.lt_ge_cases i (length p)) as [Hlt|Hge].
    + exact (flat_nodup_nth (fun t => spawns (t_prog t)) p i Hnd Hlt).
    + unfold tk. rewrite nth_overflow by assumption. constructor.
  - intros c Hc Hs. rewrite forallb_forall in Hpar.
    assert (Hin : In c (seq 0 (length p))) by (apply in_seq; lia).
    specialize (Hpar c Hin). apply orb_prop in Hpar. destruct Hpar as [Hle|Hex].
    + apply Nat.leb_le in Hle. lia.
    + apply existsb_exists in Hex. destruct Hex as (t & Ht & Hm). apply memb_in in Hm.
      destruct (In_nth p t idle_task Ht) as (i & Hi & He). exists i. unfold tk. now rewrite He.
  - intros i k Ht. destruct (Hparts i) as (_ & _ & H3 & _). rewrite Ht in H3.
    now apply Nat.eqb_eq.
  - intros q pre w post d Hp Hd. destruct (Hparts q) as (_ & _ & _ & H4 & _).
    destruct (prog_ok_spec p _ _ [] H4) as [Hdeps _].
    destruct (Hdeps pre w post d Hp Hd) as [[[]|Hin] Hs]. split; assumption.
  - intros i Hu. destruct (Hparts i) as (_ & _ & _ & _ & H5 & _).
    rewrite Hu in H5. cbn in H5. destruct (t_deps (tk p i)); [reflexivity|discriminate].
  - intros i a Hin Ha. destruct (Hparts i) as (_ & _ & _ & _ & _ & H6).
    apply orb_prop in H6. destruct H6 as [H6|H6]; [now apply Nat.eqb_eq|].
    assert (Hex : existsb user_action (t_prog (tk p i)) = true).
    { apply existsb_exists. exists a. split; [assumption|].
      destruct Ha as [->|(j & ->)]; reflexivity. }
    rewrite Hex in H6. discriminate.
  - intros i pre j post Hp. destruct (Hparts i) as (_ & _ & _ & H4 & _).
    destruct (prog_ok_spec p _ _ [] H4) as [_ Hwd].
    destruct (Hwd pre j post Hp) as (c & [Hc|[[]|Hc]] & Hj); exists c; (split; [|assumption]).
    + right. now apply foreign_in.
    + now left.
Qed.

(** * The theorems of C04 about the staged executors *)

Theorem stage_progress : forall cfg p st,
  config_ok cfg -> wf_plan p -> reachable cfg p st ->
  (exists i, live (status_of st i) = true) ->
  exists i st', i < length p /\ step cfg p st i = Some st'.
Proof.
  intros cfg p st Hcfg Hwf Hr Hl.
  exact (progress_inv cfg p Hwf Hcfg st (inv_reachable cfg p Hwf st Hr) Hl).
Qed.

Theorem stage_terminates : forall cfg p st,
  wf_plan p -> reachable cfg p st ->
  (forall i st', step cfg p st i = Some st' -> measure p st' < measure p st) /\
  (forall l st', run cfg p st l = Some st' -> length l + measure p st' <= measure p st) /\
  (forall (f : nat -> state) (sched : nat -> nat), f 0 = st ->
     ~ (forall k, step cfg p (f k) (sched k) = Some (f (S k)))).
Proof.
  intros cfg p st Hwf Hr. split; [|split].
  - intros i st' Hs. exact (measure_step cfg p Hwf st i st' Hr Hs).
  - intros l st' Hrun. exact (run_measure cfg p Hwf l st st' Hr Hrun).
  - exact (no_infinite_run cfg p Hwf st Hr).
Qed.

Theorem stage_all_done_eventually : forall cfg p,
  config_ok cfg -> wf_plan p ->
  forall l st, run cfg p (init p) l = Some st ->
    length l <= measure p (init p) /\
    (stuck cfg p st <-> all_done p st) /\
    (exists l' st', run cfg p st l' = Some st' /\ all_done p st').
Proof.
  intros cfg p Hcfg Hwf l st Hrun.
  assert (Hr : reachable cfg p st).
  { eapply run_reachable; [apply reach_init|eassumption]. }
  split; [|split].
  - pose proof (run_measure cfg p Hwf l (init p) st (reach_init cfg p) Hrun). lia.
  - split; [exact (stuck_all_done cfg p Hwf Hcfg st Hr)|apply all_done_stuck].
  - exact (can_complete cfg p Hwf Hcfg (measure p st) st Hr (le_n _)).
Qed.

(** The limits are respected along the way. *)
Lemma remove_id_length : forall i l, length (remove_id i l) <= length l.
Proof.
  intros i. induction l as [|x l IH]; [apply le_n|]. unfold remove_id in *. cbn [filter].
  destruct (negb (Nat.eqb x i)); cbn [length]; lia.
Qed.

Theorem stage_bounds : forall cfg p st, reachable cfg p st ->
  (forall m, length (hold st m) <= cap cfg m) /\
  (forall s, length (busy st s) <= workers cfg s).
Proof.
  intros cfg p st Hr. induction Hr as [|st i st' Hr [IHh IHb] Hs].
  - split; intros; cbn; lia.
  - apply step_sstep in Hs.
    destruct Hs as [q' Hst Hq Hw | Hst Hd | a rest acq Hst Ha Hgd | c rest Hst Hc
                   | c rest Hst | acq Hst]; cbn [hold busy set_status finish];
      try (split; assumption).
    + split; [assumption|]. intros s. destruct (Nat.eq_dec s (t_stage (tk p i))) as [->|Hne].
      * rewrite upd_same. cbn [length]. lia.
      * rewrite upd_other by assumption. apply IHb.
    + split; [|assumption]. intros m.
      destruct (sem_eqb_spec m (sem_of (tk p c))) as [->|Hne].
      * rewrite upds_same. rewrite app_length. cbn [length]. lia.
      * rewrite upds_other by assumption. apply IHh.
    + split.
      * intros m. destruct (sem_eqb_spec m (sem_of (tk p i))) as [->|Hne].
        -- rewrite upds_same.
           match goal with |- context [sweep ?e ?b [] ?l] =>
             pose proof (sweep_length e b l []) as Hlen end.
           specialize (IHh (sem_of (tk p i))). lia.
        -- rewrite upds_other by assumption. apply IHh.
      * intros s. destruct (Nat.eq_dec s (t_stage (tk p i))) as [->|Hne].
        -- rewrite upd_same. specialize (IHb (t_stage (tk p i))).
           pose proof (remove_id_length i (busy st (t_stage (tk p i)))). lia.
        -- rewrite upd_other by assumption. apply IHb.
Qed.

(** A plain counting semaphore gives an ended holder's permit back at once. *)
Lemma sweep_plain : forall e b l k, (forall y x, b y x = false) ->
  sweep e b k l = filter (fun x => negb (e x)) l.
Proof.
  intros e b l k Hb. revert k. induction l as [|x l IH]; intros k; [reflexivity|].
  cbn [sweep filter].
  assert (Hex : existsb (fun y => b y x) k = false).
  { induction k as [|y k IHk]; [reflexivity|]. cbn [existsb]. now rewrite Hb, IHk. }
  rewrite Hex. cbn [negb]. rewrite andb_true_r.
  destruct (e x); cbn [negb]; rewrite IH; reflexivity.
Qed.

Lemma blocks_plain : forall cfg p m,
  match m with SemStage _ => True | SemTag k => sliding cfg k = false end ->
  forall y x, blocks cfg p m y x = false.
Proof.
  intros cfg p [s|k] Hm y x; cbn [blocks]; [reflexivity|]. now rewrite Hm.
Qed.

Lemma stuckb_stuck : forall cfg p st, stuckb cfg p st = true -> stuck cfg p st.
Proof.
  intros cfg p st Hb i Hi. unfold stuckb in Hb. rewrite forallb_forall in Hb.
  assert (Hin : In i (seq 0 (length p))) by (apply in_seq; lia).
  specialize (Hb i Hin). destruct (step cfg p st i); [discriminate|reflexivity].
Qed.

(** * The discipline matters: a request task that submits to the request
    executor deadlocks a 1-permit (or 1-worker) configuration. *)

Definition ones : config := mkConfig (fun _ => 1) (fun _ => 1) (fun _ => true).

(** 0: user thread; 1: submission task; 2: request task that submits request task 3. *)
Definition bad_plan : plan :=
  [ mkTask USER None 0 [] [ASpawn 1; AWaitDone 1; AJoin];
    mkTask SUB None 0 [] [ASpawn 2];
    mkTask REQ None 0 [] [ASpawn 3];
    mkTask REQ None 0 [] [AWork] ].

(** user submits 1; 1 starts, submits 2, ends; 2 starts; user passes result(). *)
Definition bad_sched : list nat := [0; 0; 1; 1; 1; 1; 2; 2; 1; 0].

Definition bad_state : state :=
  match run ones bad_plan (init bad_plan) bad_sched with
  | Some st => st
  | None => init bad_plan
  end.

Lemma ones_ok : config_ok ones.
Proof. split; intros; cbn; lia. Qed.

Theorem stage_same_stage_spawn_deadlocks :
  exists cfg p l st,
    config_ok cfg /\ (forall s, workers cfg s = 1) /\ (forall m, cap cfg m = 1) /\
    (* the plan breaks only the "strictly lower stage" rule: task 2 and its child 3 are both REQ *)
    t_stage (tk p 2) = REQ /\ t_stage (tk p 3) = REQ /\ In 3 (spawns (t_prog (tk p 2))) /\
    run cfg p (init p) l = Some st /\
    stuck cfg p st /\
    (* task 2 holds the only request permit and waits for a second one; shutdown() hangs *)
    status_of st 2 = SRun [ASpawn 3] false /\ hold st (SemStage REQ) = [2] /\
    status_of st 0 = SRun [AJoin] false /\
    ~ all_done p st.
Proof.
  exists ones, bad_plan, bad_sched, bad_state.
  split; [exact ones_ok|]. split; [reflexivity|]. split; [reflexivity|].
  split; [reflexivity|]. split; [reflexivity|]. split; [cbn; auto|].
  split; [vm_compute; reflexivity|].
  split; [apply stuckb_stuck; vm_compute; reflexivity|].
  split; [vm_compute; reflexivity|]. split; [vm_compute; reflexivity|].
  split; [vm_compute; reflexivity|].
  intros (Hall & _). assert (H2 : 2 < length bad_plan) by (cbn; lia).
  specialize (Hall 2 H2). vm_compute in Hall. discriminate.
Qed.

(** * Example data for props/C04Stage.v *)

(** One worker per stage, one permit per semaphore; tag 0 =
    max_in_memory_upload_chunks (plain), tag 1 = max_in_memory_download_chunks
    (sliding window). *)
Definition all_ones : config := mkConfig (fun _ => 1) (fun _ => 1) (fun k => Nat.eqb k 1).
Definition twos : config := mkConfig (fun s => if Nat.eqb s IO then 1 else 2) (fun _ => 2)
                                     (fun k => Nat.eqb k 1).

(** A user thread submits a multipart upload from a stream (transfer 1) and a
    ranged download whose submission fails after submitting (transfer 2),
    calls result() on both and shuts the manager down.
     0 user; 1 upload submission; 2 download submission (error path: AWaitAll);
     3 CreateMultipartUpload; 4,5 UploadPart (tag 0, depend on 3);
     6 CompleteMultipartUpload (depends on 4,5; announces transfer 1);
     7,8 GetObject (tag 1) submitting IO writes 9,10 / 11 and, from the
     count-down callback of 8, the final IO task 12;
     13 a second user thread: result() on the download of thread 0, shutdown(). *)
Definition demo : plan :=
  [ mkTask USER None 0 [] [ASpawn 1; ASpawn 2; AWaitDone 6; AWork; AWaitDone 2; AJoin];
    mkTask SUB None 1 [] [AWork; ASpawn 3; ASpawn 4; ASpawn 5; ASpawn 6];
    mkTask SUB None 2 [] [AWork; ASpawn 7; ASpawn 8; AWaitAll; AWork];
    mkTask REQ None 1 [] [AWork];
    mkTask REQ (Some 0) 1 [3] [AWork];
    mkTask REQ (Some 0) 1 [3] [AWork];
    mkTask REQ None 1 [4; 5] [AWork; AWork];
    mkTask REQ (Some 1) 2 [] [AWork; ASpawn 9; ASpawn 10; AWork];
    mkTask REQ (Some 1) 2 [] [AWork; ASpawn 11; ASpawn 12];
    mkTask IO None 2 [] [AWork];
    mkTask IO None 2 [] [AWork];
    mkTask IO None 2 [] [AWork];
    mkTask IO None 2 [] [AWork; AWork];
    mkTask USER None 0 [] [AWork; AWaitDone 12; AJoin] ].

