(** StageProofs.v -- progress and termination of the staged-executor model
    model/Stage.v (property C04). *)
From Coq Require Import List Bool Arith PeanoNat Lia.
From S3V Require Import model.Stage.
Import ListNotations.

(** * Small facts *)

Lemma upd_same : forall (A : Type) (f : nat -> A) i v, upd f i v i = v.
Proof. intros A f i v. unfold upd. now rewrite Nat.eqb_refl. Qed.

Lemma upd_other : forall (A : Type) (f : nat -> A) i v j, j <> i -> upd f i v j = f j.
Proof.
  intros A f i v j Hne. unfold upd.
  destruct (Nat.eqb_spec j i) as [He|_]; [contradiction|reflexivity].
Qed.

Lemma sem_eqb_spec : forall a b, reflect (a = b) (sem_eqb a b).
Proof.
  intros [x|x] [y|y]; cbn [sem_eqb]; try (constructor; discriminate);
    destruct (Nat.eqb_spec x y) as [He|Hne]; constructor; congruence.
Qed.

Lemma upds_same : forall (A : Type) (f : sem -> A) m v, upds f m v m = v.
Proof. intros A f m v. unfold upds. destruct (sem_eqb_spec m m) as [_|Hne]; congruence. Qed.

Lemma upds_other : forall (A : Type) (f : sem -> A) m v m', m' <> m -> upds f m v m' = f m'.
Proof.
  intros A f m v m' Hne. unfold upds.
  destruct (sem_eqb_spec m' m) as [He|_]; [contradiction|reflexivity].
Qed.

Lemma spawns_app : forall a b, spawns (a ++ b) = spawns a ++ spawns b.
Proof. intros a b. unfold spawns. apply flat_map_app. Qed.

Lemma spawns_cons_spawn : forall c r, spawns (ASpawn c :: r) = c :: spawns r.
Proof. reflexivity. Qed.

Lemma spawns_cons_other : forall a r, spawn_of a = [] -> spawns (a :: r) = spawns r.
Proof. intros a r Ha. unfold spawns. cbn [flat_map]. now rewrite Ha. Qed.

Lemma in_spawns_in : forall prog c, In c (spawns prog) <-> In (ASpawn c) prog.
Proof.
  intros prog c. unfold spawns. rewrite in_flat_map. split.
  - intros (a & Ha & Hc). destruct a; cbn in Hc; try contradiction.
    destruct Hc as [He|[]]. now subst.
  - intros Hin. exists (ASpawn c). split; [assumption|now left].
Qed.

Lemma in_spawns_split : forall prog c, In c (spawns prog) ->
  exists pre post, prog = pre ++ ASpawn c :: post.
Proof.
  intros prog c Hin. apply in_spawns_in in Hin. now apply in_split.
Qed.

Lemma remove_id_in : forall i l x, In x (remove_id i l) <-> In x l /\ x <> i.
Proof.
  intros i l x. unfold remove_id. rewrite filter_In.
  destruct (Nat.eqb_spec x i) as [He|Hne]; cbn; intuition congruence.
Qed.

Lemma sweep_incl : forall e b l k x, In x (sweep e b k l) -> In x l.
Proof.
  intros e b. induction l as [|y r IH]; intros k x Hin; [contradiction|].
  cbn [sweep] in Hin.
  destruct (e y && negb (existsb (fun z => b z y) k)).
  - right. eapply IH; eassumption.
  - destruct Hin as [He|Hin]; [now left|right; eapply IH; eassumption].
Qed.

Lemma sweep_head : forall e b l h r, sweep e b [] l = h :: r -> e h = false.
Proof.
  intros e b. induction l as [|y l IH]; intros h r Hs; [discriminate|].
  cbn [sweep existsb] in Hs. rewrite andb_true_r in Hs.
  destruct (e y) eqn:Hey.
  - eapply IH; eassumption.
  - injection Hs as Hh _. now subst.
Qed.

Lemma sweep_length : forall e b l k, length (sweep e b k l) <= length l.
Proof.
  intros e b. induction l as [|y l IH]; intros k; [apply le_n|].
  cbn [sweep]. destruct (e y && negb (existsb (fun z => b z y) k)); cbn [length].
  - specialize (IH k). lia.
  - specialize (IH (y :: k)). lia.
Qed.

Lemma forallb_false_ex : forall (A : Type) (f : A -> bool) l,
  forallb f l = false -> exists x, In x l /\ f x = false.
Proof.
  intros A f. induction l as [|a l IH]; intros Hf; [discriminate|].
  cbn [forallb] in Hf. destruct (f a) eqn:Hfa.
  - destruct (IH Hf) as (x & Hx & Hfx). exists x. split; [now right|assumption].
  - exists a. split; [now left|assumption].
Qed.

(** Search over the ids of the plan. *)
Lemma ids_search : forall (P : nat -> bool) n,
  (exists i, i < n /\ P i = true) \/ (forall i, i < n -> P i = false).
Proof.
  intros P n. destruct (existsb P (seq 0 n)) eqn:He.
  - left. apply existsb_exists in He. destruct He as (i & Hi & HP).
    apply in_seq in Hi. exists i. split; [lia|assumption].
  - right. intros i Hi. destruct (P i) eqn:HP; [|reflexivity].
    assert (Hex : existsb P (seq 0 n) = true).
    { apply existsb_exists. exists i. split; [apply in_seq; lia|assumption]. }
    congruence.
Qed.

Definition running (s : status) : bool :=
  match s with SWait | SRun _ _ => true | _ => false end.
Definition started (s : status) : bool :=
  match s with SWait | SRun _ _ | SEnded => true | _ => false end.

Section Proofs.
Variable cfg : config.
Variable p : plan.

Notation stg i := (t_stage (tk p i)).
Notation prog i := (t_prog (tk p i)).
Notation deps i := (t_deps (tk p i)).

(** * The step function as a relation *)

Inductive sstep (st : state) (i : nat) : state -> Prop :=
| ss_start : forall q',
    status_of st i = SQueued -> queue st (stg i) = i :: q' ->
    length (busy st (stg i)) < workers cfg (stg i) ->
    sstep st i (mkState (upd (status_of st) i SWait) (upd (queue st) (stg i) q')
                        (upd (busy st) (stg i) (i :: busy st (stg i))) (hold st))
| ss_deps :
    status_of st i = SWait ->
    (forall d, In d (deps i) -> status_of st d = SEnded) ->
    sstep st i (set_status st i (SRun (prog i) false))
| ss_act : forall a rest acq,
    status_of st i = SRun (a :: rest) acq -> spawn_of a = [] -> guard p st i a = true ->
    sstep st i (set_status st i (SRun rest false))
| ss_acq : forall c rest,
    status_of st i = SRun (ASpawn c :: rest) false ->
    length (hold st (sem_of (tk p c))) < cap cfg (sem_of (tk p c)) ->
    sstep st i (mkState (upd (status_of st) i (SRun (ASpawn c :: rest) true))
                        (queue st) (busy st)
                        (upds (hold st) (sem_of (tk p c)) (hold st (sem_of (tk p c)) ++ [c])))
| ss_enq : forall c rest,
    status_of st i = SRun (ASpawn c :: rest) true ->
    sstep st i (mkState (upd (upd (status_of st) i (SRun rest false)) c SQueued)
                        (upd (queue st) (stg c) (queue st (stg c) ++ [c])) (busy st) (hold st))
| ss_end : forall acq,
    status_of st i = SRun [] acq ->
    sstep st i (finish cfg p st i).

Lemma step_sstep : forall st i st', step cfg p st i = Some st' -> sstep st i st'.
Proof.
  intros st i st' Hs. unfold step in Hs.
  destruct (status_of st i) as [| | |rest acq|] eqn:Hst; try discriminate.
  - destruct (queue st (stg i)) as [|h q'] eqn:Hq; [discriminate|].
    destruct (Nat.eqb_spec h i) as [He|Hne]; cbn [andb] in Hs; [|discriminate].
    destruct (Nat.ltb_spec (length (busy st (stg i))) (workers cfg (stg i))) as [Hlt|Hge];
      [|discriminate].
    injection Hs as Hs. subst st' h. now apply ss_start.
  - destruct (forallb (fun d => is_ended (status_of st d)) (deps i)) eqn:Hd; [|discriminate].
    injection Hs as Hs. subst st'. apply ss_deps; [assumption|].
    intros d Hin. rewrite forallb_forall in Hd. specialize (Hd d Hin).
    destruct (status_of st d); try discriminate. reflexivity.
  - destruct rest as [|a rest].
    + injection Hs as Hs. subst st'. eapply ss_end; eassumption.
    + destruct a as [|c| |j|].
      2:{ destruct acq.
          - injection Hs as Hs. subst st'. now apply ss_enq.
          - destruct (Nat.ltb_spec (length (hold st (sem_of (tk p c)))) (cap cfg (sem_of (tk p c))))
              as [Hlt|Hge]; [|discriminate].
            injection Hs as Hs. subst st'. now apply ss_acq. }
      all: match type of Hs with (if ?g then _ else _) = _ => destruct g eqn:Hg end;
        [|discriminate]; injection Hs as Hs; subst st';
        eapply ss_act; [eassumption|reflexivity|assumption].
Qed.

(** * Consequences of well-formedness *)

Hypothesis Hwf : wf_plan p.

Lemma spawn_lt : forall q c, In c (spawns (prog q)) -> stg c < stg q.
Proof. intros q c Hin. now apply (wf_spawn p Hwf q c). Qed.

Lemma spawn_ne : forall q c, In c (spawns (prog q)) -> c <> q.
Proof. intros q c Hin He. subst c. pose proof (spawn_lt q q Hin). lia. Qed.

Lemma spawn_range : forall q c, In c (spawns (prog q)) -> c < length p.
Proof. intros q c Hin. now apply (wf_spawn p Hwf q c). Qed.

Lemma tk_overflow : forall i, length p <= i -> tk p i = idle_task.
Proof. intros i Hge. unfold tk. now apply nth_overflow. Qed.

(** * Invariants of reachable states *)

Definition pending (st : state) (q c : nat) : Prop :=
  match status_of st q with
  | SNot | SQueued | SWait => True
  | SRun r _ => In c (spawns r)
  | SEnded => False
  end.

Record inv (st : state) : Prop := mkInv {
  i_range : forall i, status_of st i <> SNot -> i < length p;
  i_queue : forall s x, In x (queue st s) -> status_of st x = SQueued /\ stg x = s;
  i_queued : forall x, status_of st x = SQueued -> In x (queue st (stg x));
  i_qnodup : forall s, NoDup (queue st s);
  i_busy : forall s x, In x (busy st s) -> running (status_of st x) = true /\ stg x = s;
  i_hold : forall m x, In x (hold st m) ->
             sem_of (tk p x) = m /\
             (status_of st x = SNot -> exists q r, status_of st q = SRun (ASpawn x :: r) true);
  i_head : forall m h r, hold st m = h :: r -> status_of st h <> SEnded;
  i_suffix : forall i r a, status_of st i = SRun r a -> exists pre, prog i = pre ++ r;
  i_spawn : forall q c, In c (spawns (prog q)) -> (status_of st c = SNot <-> pending st q c);
  i_deps : forall w d, In d (deps w) -> status_of st w <> SNot ->
             started (status_of st d) = true \/
             (status_of st w = SQueued /\
              exists l1 l2, queue st (stg w) = l1 ++ d :: l2 /\ In w l2)
}.

Lemma inv_init : inv (init p).
Proof.
  constructor; cbn [init status_of queue busy hold].
  - intros i Hne. destruct (Nat.eqb_spec (stg i) USER) as [He|Hn]; [|congruence].
    destruct (Nat.lt_ge_cases i (length p)) as [Hlt|Hge]; [assumption|].
    rewrite tk_overflow in He by assumption. discriminate.
  - intros s x [].
  - intros x Hq. destruct (Nat.eqb (stg x) USER); discriminate.
  - intros s. constructor.
  - intros s x [].
  - intros m x [].
  - intros m h r Hh. discriminate.
  - intros i r a Hs. destruct (Nat.eqb (stg i) USER); [|discriminate].
    injection Hs as Hr _. exists []. now subst.
  - intros q c Hin. pose proof (spawn_lt q c Hin) as Hlt. pose proof (wf_stage p Hwf q) as Hle.
    unfold pending, init; cbn [status_of].
    destruct (Nat.eqb_spec (stg c) USER) as [He|Hn]; [lia|].
    destruct (Nat.eqb (stg q) USER); split; auto.
  - intros w d Hin Hne. destruct (Nat.eqb_spec (stg w) USER) as [He|Hn]; [|congruence].
    rewrite (wf_userdeps p Hwf w He) in Hin. contradiction.
Qed.

Lemma suffix_spawn : forall st i c r a, inv st ->
  status_of st i = SRun (ASpawn c :: r) a -> In c (spawns (prog i)).
Proof.
  intros st i c r a Hinv Hs. destruct (i_suffix st Hinv i _ _ Hs) as (pre & Hp).
  rewrite Hp, spawns_app, spawns_cons_spawn. apply in_or_app. right. now left.
Qed.

(** The child of a pending spawn is not in the rest of the program. *)
Lemma suffix_fresh : forall st i c r a, inv st ->
  status_of st i = SRun (ASpawn c :: r) a -> ~ In c (spawns r).
Proof.
  intros st i c r a Hinv Hs Hin. destruct (i_suffix st Hinv i _ _ Hs) as (pre & Hp).
  pose proof (wf_nodup p Hwf i) as Hnd.
  rewrite Hp, spawns_app, spawns_cons_spawn in Hnd.
  apply NoDup_remove_2 in Hnd. apply Hnd. apply in_or_app. now right.
Qed.

Lemma child_not_spawned : forall st i c r a, inv st ->
  status_of st i = SRun (ASpawn c :: r) a -> status_of st c = SNot.
Proof.
  intros st i c r a Hinv Hs.
  apply (i_spawn st Hinv i c (suffix_spawn st i c r a Hinv Hs)).
  unfold pending. rewrite Hs. rewrite spawns_cons_spawn. now left.
Qed.

End Proofs.
