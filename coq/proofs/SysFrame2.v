(** Isolation of the transfers that share a manager (C18, second half), Part 3:
    non-interference.  The run obtained by erasing every event owned by
    another transfer is again a run of the model, and it produces for transfer
    [t] exactly the same coordinator, tasks, file, uploads and requests.

    The simulation relation [sim t s st] between the state [s] of the full run
    and the state [st] of the erased run: the per-transfer stores of [st] are
    those of [s] restricted to [t]; the FIFO queues of [st] are the queues of
    [s] restricted to the tasks of [t]; worker counts, shut / joined flags and
    the shutdown phase are equal.  Running counts and free permits are not
    part of the relation: both states are reachable, so they are determined by
    the task stores (exact occupancy / permit conservation), and restricting
    the tasks can only lower the occupancy and raise the free permits. *)
From Coq Require Import ZArith List Bool Lia.
From S3V Require Import model.Sys proofs.SysBase proofs.SysCoord proofs.SysCoordInv proofs.SysTask.
From S3V Require proofs.SysQuiesce.
From S3V Require Import proofs.SysStage proofs.SysFrame.
Import ListNotations.
Open Scope Z_scope.

(* ================================================================== *)
(** * Invariants used on both runs *)

(** permit conservation without sign conditions on the capacities *)
Definition sem_sum (s0 s : state) : Prop :=
  forall i, match find_sem i (sems s) with
            | None => find_sem i (sems s0) = None
            | Some v => 0 <= i /\ find_sem i (sems s0) = Some (v + count (holds i) (tasks s))
            end.

Lemma sem_sum_step s0 s e s' :
  ids_inv s ->
  (forall k x, find_task k (tasks s) = Some x -> k_released x = true -> k_st x = TEnded) ->
  sem_sum s0 s -> step s e = Some s' -> sem_sum s0 s'.
Proof.
  intros I0 Hrel I H i. specialize (I i). apply step_sstep in H.
  destruct H as [Ht _ Hs|k t g0 a0 final deps kind Hn _ Ht _ _ Hs|k x f0 Hf Hid Hts Hio Ht _ Hs
                |k x sem v0 Hf Hfs Hpos Hst Hp _ Ht Hs _ _|k x Hf Hst _ _ _ Ht _ Hs _|k x rest Hf Hst _ _ _ Ht _ Hs _
                |k x Hf _ Hst _ Ht _ Hs _|k x Hf Hst Hrl Hp Ht Hs _ _|g0 _ Ht Hs _ _ _|g0 _ Ht Hs _ _ _ _ _].
  - now rewrite Hs, Ht.
  - rewrite Hs, Ht. destruct (find_sem i (sems s)) as [v|]; [|exact I]. destruct I as [Hi I].
    split; [exact Hi|]. rewrite count_app. cbn [count]. unfold holds at 2, fresh_task. cbn [k_permit k_released].
    assert (E : (-1 =? i) = false) by lia. rewrite E. cbn. rewrite I. f_equal. lia.
  - rewrite Hs. destruct (find_sem i (sems s)) as [v|]; [|exact I]. destruct I as [Hi I].
    split; [exact Hi|]. rewrite (count_step_upd _ _ _ _ _ _ I0 Hf Ht).
    assert (E : holds i (f0 x) = holds i x).
    { unfold holds. now rewrite (io_permit _ _ _ _ _ Hio), (io_released _ _ _ _ _ Hio). }
    rewrite E, I. f_equal. lia.
  - (* acquire *)
    rewrite Hs, find_sem_upd.
    assert (Er : k_released x = false).
    { destruct (k_released x) eqn:Er; [|reflexivity]. pose proof (Hrel k x Hf Er). congruence. }
    destruct (i =? sem) eqn:E2.
    + assert (i = sem) by lia. subst sem. rewrite Hfs in *. cbn [option_map]. destruct I as [Hi I].
      split; [exact Hi|]. rewrite (count_step_upd _ _ _ _ _ _ I0 Hf Ht).
      unfold holds at 2 3. cbn [k_permit k_released with_permit]. rewrite Hp, Er.
      assert (E : (-1 =? i) = false) by lia. rewrite E, Z.eqb_refl. cbn. rewrite I. f_equal. lia.
    + destruct (find_sem i (sems s)) as [v|]; [|exact I]. destruct I as [Hi I].
      split; [exact Hi|]. rewrite (count_step_upd _ _ _ _ _ _ I0 Hf Ht).
      unfold holds at 2 3. cbn [k_permit k_released with_permit]. rewrite Hp, Er.
      assert (E : (-1 =? i) = false) by lia. assert (E3 : sem =? i = false) by lia. rewrite E, E3. cbn.
      rewrite I. f_equal. lia.
  - rewrite Hs. destruct (find_sem i (sems s)) as [v|]; [|exact I]. destruct I as [Hi I].
    split; [exact Hi|]. rewrite (count_step_upd _ _ _ _ _ _ I0 Hf Ht).
    replace (holds i (with_st x TQueued)) with (holds i x) by reflexivity. rewrite I. f_equal. lia.
  - rewrite Hs. destruct (find_sem i (sems s)) as [v|]; [|exact I]. destruct I as [Hi I].
    split; [exact Hi|]. rewrite (count_step_upd _ _ _ _ _ _ I0 Hf Ht).
    replace (holds i (with_st x TStarted)) with (holds i x) by reflexivity. rewrite I. f_equal. lia.
  - rewrite Hs. destruct (find_sem i (sems s)) as [v|]; [|exact I]. destruct I as [Hi I].
    split; [exact Hi|]. rewrite (count_step_upd _ _ _ _ _ _ I0 Hf Ht).
    replace (holds i (with_st x TEnded)) with (holds i x) by reflexivity. rewrite I. f_equal. lia.
  - (* release *)
    rewrite Hs, find_sem_upd.
    destruct (find_sem i (sems s)) as [v|]; [|now destruct (i =? k_permit x)]. destruct I as [Hi I].
    assert (G : 0 <= i /\ find_sem i (sems s0) =
                Some ((if i =? k_permit x then v + 1 else v) + count (holds i) (tasks s'))).
    { split; [exact Hi|]. rewrite (count_step_upd _ _ _ _ _ _ I0 Hf Ht).
      unfold holds at 2 3. cbn [k_permit k_released with_released]. rewrite Hrl.
      cbn [negb]. rewrite Bool.andb_true_r, Bool.andb_false_r. cbn [b2z]. rewrite I. f_equal.
      destruct (i =? k_permit x) eqn:E2.
      - assert (E3 : k_permit x =? i = true) by lia. rewrite E3. cbn [b2z]. lia.
      - assert (E3 : k_permit x =? i = false) by lia. rewrite E3. cbn [b2z]. lia. }
    destruct (i =? k_permit x); exact G.
  - now rewrite Hs, Ht.
  - now rewrite Hs, Ht.
Qed.

Lemma sem_sum_reachable a b c d e f g h s :
  reachable (init a b c d e f g h) s -> sem_sum (init a b c d e f g h) s.
Proof.
  intros Hr.
  assert (G : forall s1, reachable (init a b c d e f g h) s1 ->
              reachable (init a b c d e f g h) s1 /\ sem_sum (init a b c d e f g h) s1).
  { apply invariant_reachable.
    - split; [apply reachable_refl|]. intros i. destruct (find_sem i (sems (init a b c d e f g h))) as [v|] eqn:E; [|reflexivity].
      split; [|cbn [tasks init count]; f_equal; lia].
      cbn [init sems find_sem] in E. unfold SEM_SUB, SEM_REQ, SEM_IO, SEM_UP, SEM_DOWN in E.
      repeat match type of E with (if ?b then _ else _) = _ => destruct b eqn:? end; try discriminate; lia.
    - intros s0 ev s1 [Hr0 I] H. split; [eapply reachable_step; eauto|].
      eapply sem_sum_step; eauto.
      + eapply ids_inv_reachable; eauto.
      + eapply released_ended; eauto. }
  now apply G.
Qed.

(** the dependencies of a task are tasks of the same transfer *)
Definition deps_t_inv (s : state) : Prop :=
  forall k x d, find_task k (tasks s) = Some x -> In d (k_deps x) ->
    exists y, find_task d (tasks s) = Some y /\ k_t y = k_t x.

Lemma deps_t_inv_step s e s' : deps_t_inv s -> step s e = Some s' -> deps_t_inv s'.
Proof.
  intros I H k x' d Hx' Hd. apply step_evolve in H as (Hold & Hfresh & _ & _).
  assert (Hpers : forall d0 y, find_task d0 (tasks s) = Some y ->
            exists y', find_task d0 (tasks s') = Some y' /\ k_t y' = k_t y).
  { intros d0 y Hy. destruct (Hold d0 y Hy) as (y' & Hy' & Hts & _). exists y'. split; [exact Hy'|].
    now destruct (tstep_static _ _ _ Hts) as (_ & E & _). }
  destruct (find_task k (tasks s)) as [x|] eqn:E.
  - destruct (Hold k x E) as (x'' & Hx'' & Hts & _). rewrite Hx' in Hx''. injection Hx'' as <-.
    destruct (tstep_static _ _ _ Hts) as (_ & Et & _ & _ & _ & Ed & _). rewrite Ed in Hd.
    destruct (I k x d E Hd) as (y & Hy & Hyt). destruct (Hpers d y Hy) as (y' & Hy' & Hyt').
    exists y'. split; [exact Hy'|congruence].
  - destruct (Hfresh k x' Hx' E) as (a & t & g & final & deps & kind & -> & Hso).
    cbn [k_deps k_t fresh_task] in *.
    pose proof (so_deps _ _ _ _ _ _ _ _ Hso) as Hdeps. rewrite forallb_forall in Hdeps. specialize (Hdeps d Hd).
    destruct (find_task d (tasks s)) as [y|] eqn:Ey; [|discriminate]. apply andb_prop in Hdeps as [Hyt _].
    destruct (Hpers d y Ey) as (y' & Hy' & Hyt'). exists y'. split; [exact Hy'|lia].
Qed.

Record ginv (s0 s : state) : Prop := {
  gi_f : finv s;
  gi_run : run_inv s;
  gi_queue : queue_inv s;
  gi_sem : sem_sum s0 s;
  gi_deps : deps_t_inv s
}.

Lemma ginv_reachable a b c d e f g h s :
  reachable (init a b c d e f g h) s -> ginv (init a b c d e f g h) s.
Proof.
  intros Hr. constructor.
  - eapply finv_reachable; eauto.
  - eapply run_inv_reachable; eauto.
  - eapply queue_inv_reachable; eauto.
  - now apply sem_sum_reachable.
  - revert s Hr. apply invariant_reachable; [intros k x d' Hx; discriminate Hx|].
    intros s0 ev s1 I H. eapply deps_t_inv_step; eauto.
Qed.

(* ================================================================== *)
(** * The simulation relation *)

Definition owned (t : Z) (l : list task) (k : Z) : bool :=
  match find_task k l with Some x => k_t x =? t | None => false end.

Record stage_sim (t : Z) (l : list task) (g gt : stg) : Prop := {
  ss_queue : g_queue gt = filter (owned t l) (g_queue g);
  ss_workers : g_workers gt = g_workers g;
  ss_shut : g_shut gt = g_shut g;
  ss_joined : g_joined gt = g_joined g
}.

Record sim (t : Z) (s st : state) : Prop := {
  sim_tasks : tasks st = filter (tk_of t) (tasks s);
  sim_coord : find_coord t (coords st) = find_coord t (coords s);
  sim_stage : forall g, stage_sim t (tasks s) (get_stage s g) (get_stage st g);
  sim_reqs : reqs st = filter (rq_of t) (reqs s);
  sim_uploads : uploads st = filter (up_of t) (uploads s);
  sim_phase : shutdown_phase st = shutdown_phase s;
  sim_file : find_file t (files st) = find_file t (files s)
}.

Lemma sim_view t s st : sim t s st -> same_transfer_view t s st.
Proof.
  intros [H1 H2 _ H4 H5 _ H7]. unfold same_transfer_view.
  rewrite H1, H4, H5, !filter_idem. auto.
Qed.

Lemma sim_init a b c d e f g h t : sim t (init a b c d e f g h) (init a b c d e f g h).
Proof. constructor; try reflexivity. intros g0. destruct g0; constructor; reflexivity. Qed.

(** ** lookups in the erased state *)
Section SimFacts.
  Variables (t : Z) (s st : state).
  Hypothesis Hsim : sim t s st.

  Lemma sim_find_t k x : find_task k (tasks s) = Some x -> k_t x = t -> find_task k (tasks st) = Some x.
  Proof.
    intros Hf Ht. rewrite (sim_tasks _ _ _ Hsim). apply find_task_filter_some; [exact Hf|].
    unfold tk_of. lia.
  Qed.

  Lemma sim_find_none k : find_task k (tasks s) = None -> find_task k (tasks st) = None.
  Proof. intros Hf. rewrite (sim_tasks _ _ _ Hsim). now apply find_task_filter_none. Qed.

  Lemma sim_find k : ids_inv s ->
    find_task k (tasks st) =
    match find_task k (tasks s) with Some x => if k_t x =? t then Some x else None | None => None end.
  Proof. intros I. rewrite (sim_tasks _ _ _ Hsim). now apply find_task_filter. Qed.

  Lemma sim_in_request a : in_request s a = false -> in_request st a = false.
  Proof. unfold in_request. rewrite (sim_reqs _ _ _ Hsim). apply existsb_filter_false. Qed.

  Lemma sim_busy a : busy s a = false -> busy st a = false.
  Proof.
    unfold busy. intros H. apply orb_false_elim in H as [H1 H2].
    rewrite (sim_in_request a H1). cbn [orb]. rewrite (sim_tasks _ _ _ Hsim). now apply existsb_filter_false.
  Qed.

  Lemma sim_acting a : ids_inv s -> acting_task st a t = acting_task s a t.
  Proof.
    intros I. unfold acting_task. rewrite (sim_find a I).
    destruct (find_task a (tasks s)) as [x|]; [|reflexivity].
    destruct (k_t x =? t) eqn:E; cbn; rewrite ?E; reflexivity.
  Qed.

  Lemma sim_in_callback a : in_callback st a t = in_callback s a t.
  Proof. unfold in_callback. now rewrite (sim_coord _ _ _ Hsim). Qed.

  Lemma sim_get_stage_shut g : g_shut (get_stage st g) = g_shut (get_stage s g).
  Proof. apply (sim_stage _ _ _ Hsim g). Qed.
End SimFacts.

(** the [owned] predicate is stable under the updates of the task store *)
Lemma owned_upd t k f l k0 x :
  find_task k l = Some x -> (forall z, k_id z = k -> k_id (f z) = k) -> k_t (f x) = k_t x ->
  owned t (upd_task k f l) k0 = owned t l k0.
Proof.
  intros Hf Hid Hkt. unfold owned. rewrite find_task_upd' by exact Hid.
  destruct (k0 =? k) eqn:E; [|reflexivity]. assert (k0 = k) by lia. subst k0.
  rewrite Hf. cbn [option_map]. now rewrite Hkt.
Qed.

Lemma owned_app t l y k0 :
  find_task k0 l <> None -> owned t (l ++ [y]) k0 = owned t l k0.
Proof.
  intros Hn. unfold owned. rewrite find_task_app. destruct (find_task k0 l); [reflexivity|congruence].
Qed.

Lemma queue_member_exists s g k :
  queue_inv s -> In k (g_queue (get_stage s g)) -> find_task k (tasks s) <> None.
Proof.
  intros Q Hin. destruct g; try (cbn in Hin; contradiction).
  all: match goal with |- _ => idtac end.
  - apply (q_queue _ _ (Q SSub ltac:(discriminate))) in Hin as (x & Hx & _). congruence.
  - apply (q_queue _ _ (Q SReq ltac:(discriminate))) in Hin as (x & Hx & _). congruence.
  - apply (q_queue _ _ (Q SIO ltac:(discriminate))) in Hin as (x & Hx & _). congruence.
Qed.

(** ** transformers: the same update on both sides keeps [sim] *)
Lemma stage_sim_ext t l l' g gt :
  (forall k, In k (g_queue g) -> owned t l' k = owned t l k) ->
  stage_sim t l g gt -> stage_sim t l' g gt.
Proof.
  intros He [Q W S J]. constructor; try assumption. rewrite Q. apply filter_ext_in.
  intros k Hk. symmetry. now apply He.
Qed.

Lemma sim_set_coords t s st l l' :
  sim t s st -> find_coord t l' = find_coord t l -> sim t (set_coords s l) (set_coords st l').
Proof.
  intros [H1 H2 H3 H4 H5 H6 H7] Hc. constructor; cbn [tasks coords reqs uploads shutdown_phase files set_coords]; try assumption.
  all: intros g; specialize (H3 g); destruct g; exact H3.
Qed.

Lemma sim_set_tasks t s st l l' :
  sim t s st -> l' = filter (tk_of t) l ->
  (forall g k, In k (g_queue (get_stage s g)) -> owned t l k = owned t (tasks s) k) ->
  sim t (set_tasks s l) (set_tasks st l').
Proof.
  intros [H1 H2 H3 H4 H5 H6 H7] Hl Ho. constructor; cbn [tasks coords reqs uploads shutdown_phase files set_tasks]; try assumption.
  all: intros g; specialize (H3 g); specialize (Ho g);
    apply (stage_sim_ext t (tasks s)); [exact Ho|]; destruct g; exact H3.
Qed.

Lemma sim_set_sems t s st l l' : sim t s st -> sim t (set_sems s l) (set_sems st l').
Proof.
  intros [H1 H2 H3 H4 H5 H6 H7]. constructor; cbn [tasks coords reqs uploads shutdown_phase files set_sems]; try assumption.
  all: intros g; specialize (H3 g); destruct g; exact H3.
Qed.

Lemma sim_set_reqs t s st l l' :
  sim t s st -> l' = filter (rq_of t) l -> sim t (set_reqs s l) (set_reqs st l').
Proof.
  intros [H1 H2 H3 H4 H5 H6 H7] Hl. constructor; cbn [tasks coords reqs uploads shutdown_phase files set_reqs]; try assumption.
  all: intros g; specialize (H3 g); destruct g; exact H3.
Qed.

Lemma sim_set_uploads t s st l l' :
  sim t s st -> l' = filter (up_of t) l -> sim t (set_uploads s l) (set_uploads st l').
Proof.
  intros [H1 H2 H3 H4 H5 H6 H7] Hl. constructor; cbn [tasks coords reqs uploads shutdown_phase files set_uploads]; try assumption.
  all: intros g; specialize (H3 g); destruct g; exact H3.
Qed.

Lemma sim_set_files t s st l l' :
  sim t s st -> find_file t l' = find_file t l -> sim t (set_files s l) (set_files st l').
Proof.
  intros [H1 H2 H3 H4 H5 H6 H7] Hl. constructor; cbn [tasks coords reqs uploads shutdown_phase files set_files]; try assumption.
  all: intros g; specialize (H3 g); destruct g; exact H3.
Qed.

Lemma sim_set_shutdown t s st p : sim t s st -> sim t (set_shutdown s p) (set_shutdown st p).
Proof.
  intros [H1 H2 H3 H4 H5 H6 H7]. constructor; cbn [tasks coords reqs uploads shutdown_phase files set_shutdown]; try assumption; try reflexivity.
  all: intros g; specialize (H3 g); destruct g; exact H3.
Qed.

Lemma sim_bump t s st : sim t s st -> sim t (bump_after_shutdown s) (bump_after_shutdown st).
Proof.
  intros Hsim. unfold bump_after_shutdown. rewrite (sim_phase _ _ _ Hsim).
  destruct (shutdown_phase s =? 2); [|exact Hsim].
  destruct Hsim as [H1 H2 H3 H4 H5 H6 H7]. constructor; cbn [tasks coords reqs uploads shutdown_phase files]; try assumption; try reflexivity.
  all: intros g; specialize (H3 g); destruct g; exact H3.
Qed.

Lemma sim_set_stage t s st g v vt :
  sim t s st -> stage_sim t (tasks s) v vt -> sim t (set_stage s g v) (set_stage st g vt).
Proof.
  intros [H1 H2 H3 H4 H5 H6 H7] Hv. constructor; rewrite ?set_stage_tasks, ?set_stage_coords, ?set_stage_reqs',
    ?set_stage_uploads, ?set_stage_phase, ?set_stage_files; try assumption.
  intros g0. destruct g; [| | |apply H3]; destruct g0; cbn [get_stage set_stage st_sub st_req st_io];
    first [exact Hv | apply (H3 SSub) | apply (H3 SReq) | apply (H3 SIO) | apply (H3 SInline)].
Qed.

(** updating a task of [t] on both sides *)
Lemma sim_upd_task t s st k f x :
  ids_inv s -> sim t s st -> find_task k (tasks s) = Some x ->
  (forall z, k_id z = k -> k_id (f z) = k) -> k_t (f x) = k_t x ->
  sim t (set_tasks s (upd_task k f (tasks s))) (set_tasks st (upd_task k f (tasks st))).
Proof.
  intros I Hsim Hf Hid Hkt. apply sim_set_tasks; [exact Hsim| |].
  - rewrite (sim_tasks _ _ _ Hsim). symmetry. apply filter_upd_task_comm.
    intros z Hz Hk. rewrite (ids_unique _ _ _ _ I Hf Hz Hk). unfold tk_of. now rewrite Hkt.
  - intros g k0 _. now apply owned_upd with (x := x).
Qed.

Lemma sim_on_coord t s st f s' :
  sim t s st -> on_coord s t f = Some s' -> (forall c y, f c = Some y -> c_id y = c_id c) ->
  exists st', on_coord st t f = Some st' /\ sim t s' st'.
Proof.
  intros Hsim H Hid. apply on_coord_inv in H as (c & y & Hc & Hy & ->).
  unfold on_coord. rewrite (sim_coord _ _ _ Hsim), Hc, Hy. eexists. split; [reflexivity|].
  apply sim_set_coords; [exact Hsim|].
  pose proof (find_coord_some_id _ _ _ Hc) as Hcid. pose proof (Hid _ _ Hy) as Hyid.
  rewrite !(find_coord_upd_const t _ c y); try lia; [reflexivity|exact Hc|].
  now rewrite (sim_coord _ _ _ Hsim).
Qed.

Lemma sim_on_task t s st k f f' s' x :
  ids_inv s -> sim t s st -> on_task s k f = Some s' ->
  find_task k (tasks s) = Some x -> k_t x = t ->
  (forall y, f x = Some y -> k_id y = k_id x /\ k_t y = k_t x /\ f' x = Some y) ->
  exists st', on_task st k f' = Some st' /\ sim t s' st'.
Proof.
  intros I Hsim H Hx Hxt Hf. apply on_task_inv in H as (x0 & y & Hx0 & Hy & ->).
  rewrite Hx in Hx0. injection Hx0 as <-. destruct (Hf y Hy) as (Hyid & Hykt & Hy').
  unfold on_task. rewrite (sim_find_t _ _ _ Hsim k x Hx Hxt), Hy'. eexists. split; [reflexivity|].
  apply sim_upd_task with (x := x); auto.
  intros z Hz. rewrite Hyid. now apply find_task_some_id in Hx.
Qed.

Lemma count_filter_le p (q : task -> bool) l : count p (filter q l) <= count p l.
Proof.
  induction l as [|x r IH]; cbn [filter count]; [lia|].
  destruct (q x); cbn [count]; unfold b2z; destruct (p x); lia.
Qed.

Lemma sim_bind_coord_task t s st F a G s1 s' x :
  ids_inv s -> sim t s st ->
  on_coord s t F = Some s1 -> on_task s1 a G = Some s' ->
  (forall c y, F c = Some y -> c_id y = c_id c) ->
  find_task a (tasks s) = Some x -> k_t x = t ->
  (forall y, G x = Some y -> k_id y = k_id x /\ k_t y = k_t x) ->
  exists st', bind (on_coord st t F) (fun s2 => on_task s2 a G) = Some st' /\ sim t s' st'.
Proof.
  intros I Hsim H1 H2 HF Hx Hxt HG.
  destruct (sim_on_coord _ _ _ _ _ Hsim H1 HF) as (st1 & Hst1 & Hsim1).
  pose proof (on_coord_tasks _ _ _ _ H1) as Ht1.
  assert (I1 : ids_inv s1) by (unfold ids_inv; now rewrite Ht1).
  destruct (sim_on_task t s1 st1 a G G s' x I1 Hsim1 H2) as (st' & Hst' & Hsim'); [now rewrite Ht1|exact Hxt| |].
  - intros y Hy. destruct (HG y Hy) as [A B]. auto.
  - exists st'. unfold bind. rewrite Hst1. auto.
Qed.

(* ================================================================== *)
(** * Kept events: the erased run can do them too *)

Definition keep (t : Z) (s : state) (e : event) : bool :=
  match event_transfer s e with Some t' => t' =? t | None => true end.

Definition simstep (t : Z) (st : state) (e : event) (s' : state) : Prop :=
  exists st', step st e = Some st' /\ sim t s' st'.

Ltac coord_id_side :=
  let c := fresh "c" in let y := fresh "y" in let Hq := fresh "Hq" in
  intros c y Hq; cbv beta in Hq; destr Hq; injection Hq as <-; reflexivity.

Section Keep.
  Variables (s0 : state) (t : Z) (s st : state).
  Hypothesis Gs : ginv s0 s.
  Hypothesis Gt : ginv s0 st.
  Hypothesis Hsim : sim t s st.

  Let I : ids_inv s := fi_ids _ (gi_f _ _ Gs).

  (** ** coordinator-only events *)
  Lemma keep_coord_busy a (F : coord -> option coord) s' :
    (if busy s a then None else on_coord s t F) = Some s' ->
    (forall c y, F c = Some y -> c_id y = c_id c) ->
    exists st', (if busy st a then None else on_coord st t F) = Some st' /\ sim t s' st'.
  Proof.
    intros H HF. destruct (busy s a) eqn:Eb; [discriminate|].
    rewrite (sim_busy _ _ _ Hsim a Eb). eapply sim_on_coord; eauto.
  Qed.

  Lemma keep_coord_busy_bump a (F : coord -> option coord) s' :
    (if busy s a then None else on_coord (bump_after_shutdown s) t F) = Some s' ->
    (forall c y, F c = Some y -> c_id y = c_id c) ->
    exists st', (if busy st a then None else on_coord (bump_after_shutdown st) t F) = Some st' /\ sim t s' st'.
  Proof.
    intros H HF. destruct (busy s a) eqn:Eb; [discriminate|].
    rewrite (sim_busy _ _ _ Hsim a Eb). eapply sim_on_coord; [apply sim_bump; exact Hsim|exact H|exact HF].
  Qed.

  Lemma keep_ENewTransfer a s' : step s (ENewTransfer a t) = Some s' -> simstep t st (ENewTransfer a t) s'.
  Proof.
    unfold simstep. cbn [step]. intros H. rewrite (sim_coord _ _ _ Hsim).
    destruct (_ && _); [|discriminate]. injection H as <-. eexists. split; [reflexivity|].
    apply sim_set_coords; [exact Hsim|]. now rewrite !find_coord_app, (sim_coord _ _ _ Hsim).
  Qed.

  Lemma keep_EAddCallback a c s' : step s (EAddCallback a t c) = Some s' -> simstep t st (EAddCallback a t c) s'.
  Proof.
    unfold simstep. cbn [step]. intros H. destruct (busy s a) eqn:Eb; [discriminate|].
    rewrite (sim_busy _ _ _ Hsim a Eb), (sim_acting _ _ _ Hsim a I), (sim_in_callback _ _ _ Hsim a).
    destruct (_ && _); [|discriminate]. eapply sim_on_coord; eauto. coord_id_side.
  Qed.

  Lemma keep_EAddCleanup a c s' : step s (EAddCleanup a t c) = Some s' -> simstep t st (EAddCleanup a t c) s'.
  Proof.
    unfold simstep. cbn [step]. intros H. destruct (busy s a) eqn:Eb; [discriminate|].
    rewrite (sim_busy _ _ _ Hsim a Eb), (sim_acting _ _ _ Hsim a I).
    destruct (_ && _); [|discriminate]. eapply sim_on_coord; eauto. coord_id_side.
  Qed.

  Lemma keep_ECancel a e s' : step s (ECancel a t e) = Some s' -> simstep t st (ECancel a t e) s'.
  Proof.
    unfold simstep. cbn [step]. intros H. destruct (busy s a) eqn:Eb; [discriminate|].
    rewrite (sim_busy _ _ _ Hsim a Eb), (sim_acting _ _ _ Hsim a I), (sim_in_callback _ _ _ Hsim a).
    destruct (_ || _); [|discriminate]. eapply sim_on_coord; eauto. coord_id_side.
  Qed.

  Lemma keep_ECount a op s' : step s (ECount a t op) = Some s' -> simstep t st (ECount a t op) s'.
  Proof.
    unfold simstep. cbn [step]. intros H. destruct (busy s a) eqn:Eb; [discriminate|].
    rewrite (sim_busy _ _ _ Hsim a Eb), (sim_acting _ _ _ Hsim a I).
    destruct (acting_task s a t); [|discriminate]. eapply sim_on_coord; eauto. coord_id_side.
  Qed.

  Lemma keep_ECleanupsBegin a s' : step s (ECleanupsBegin a t) = Some s' -> simstep t st (ECleanupsBegin a t) s'.
  Proof. unfold simstep. cbn [step]. intros H. apply keep_coord_busy; [exact H|coord_id_side]. Qed.
  Lemma keep_ECleanup a c s' : step s (ECleanup a t c) = Some s' -> simstep t st (ECleanup a t c) s'.
  Proof. unfold simstep. cbn [step]. intros H. apply keep_coord_busy_bump; [exact H|coord_id_side]. Qed.
  Lemma keep_ECleanupsEnd a s' : step s (ECleanupsEnd a t) = Some s' -> simstep t st (ECleanupsEnd a t) s'.
  Proof. unfold simstep. cbn [step]. intros H. apply keep_coord_busy; [exact H|coord_id_side]. Qed.
  Lemma keep_EEventSet a s' : step s (EEventSet a t) = Some s' -> simstep t st (EEventSet a t) s'.
  Proof. unfold simstep. cbn [step]. intros H. apply keep_coord_busy; [exact H|coord_id_side]. Qed.
  Lemma keep_ECallbacksBegin a s' : step s (ECallbacksBegin a t) = Some s' -> simstep t st (ECallbacksBegin a t) s'.
  Proof. unfold simstep. cbn [step]. intros H. apply keep_coord_busy; [exact H|coord_id_side]. Qed.
  Lemma keep_ECallback a c s' : step s (ECallback a t c) = Some s' -> simstep t st (ECallback a t c) s'.
  Proof. unfold simstep. cbn [step]. intros H. apply keep_coord_busy_bump; [exact H|coord_id_side]. Qed.
  Lemma keep_ECallbacksEnd a s' : step s (ECallbacksEnd a t) = Some s' -> simstep t st (ECallbacksEnd a t) s'.
  Proof. unfold simstep. cbn [step]. intros H. apply keep_coord_busy; [exact H|coord_id_side]. Qed.

  Lemma keep_EResult a r s' : step s (EResult a t r) = Some s' -> simstep t st (EResult a t r) s'.
  Proof.
    unfold simstep. cbn [step]. intros H. rewrite (sim_coord _ _ _ Hsim).
    destruct (find_coord t (coords s)); [|discriminate]. destruct (_ && _); [|discriminate].
    injection H as <-. eauto.
  Qed.

  (** ** events of a task of [t] *)
  Ltac use_task Hsim Hx Hkt H :=
    unfold on_task in H; unfold on_task;
    rewrite Hx in H; rewrite (sim_find_t _ _ _ Hsim _ _ Hx Hkt);
    cbv beta iota in H |- *; rewrite ?Hkt in H |- *.

  Ltac task_side :=
    let y := fresh "y" in let Hy := fresh "Hy" in
    intros y Hy; (split; [|split; [|exact Hy]]); cbv beta in Hy; destr Hy; injection Hy as <-; reflexivity.

  Ltac task_side2 :=
    let y := fresh "y" in let Hy := fresh "Hy" in
    intros y Hy; split; cbv beta in Hy; destr Hy; injection Hy as <-; reflexivity.

  Lemma sim_deps_done k x :
    find_task k (tasks s) = Some x -> k_t x = t ->
    forallb (dep_done s) (k_deps x) = true -> forallb (dep_done st) (k_deps x) = true.
  Proof.
    intros Hx Hkt H. rewrite forallb_forall in *. intros d Hd. specialize (H d Hd).
    unfold dep_done, task_in in *. destruct (find_task d (tasks s)) as [y|] eqn:Ey; [|discriminate].
    destruct (gi_deps _ _ Gs k x d Hx Hd) as (y' & Hy' & Hyt). rewrite Ey in Hy'. injection Hy' as <-.
    rewrite (sim_find_t _ _ _ Hsim d y Ey); [exact H|congruence].
  Qed.

  Section TaskEv.
    Variables (k : Z) (x : task).
    Hypothesis Hx : find_task k (tasks s) = Some x.
    Hypothesis Hkt : k_t x = t.

    Lemma keep_EAssoc a s' : step s (EAssoc a k) = Some s' -> simstep t st (EAssoc a k) s'.
    Proof.
      unfold simstep. cbn [step]. intros H. destruct (in_request s a) eqn:Er; [discriminate|].
      rewrite (sim_in_request _ _ _ Hsim a Er).
      eapply sim_on_task; [exact I|exact Hsim|exact H|exact Hx|exact Hkt|task_side].
    Qed.

    Lemma keep_EDepsDone s' : step s (EDepsDone k) = Some s' -> simstep t st (EDepsDone k) s'.
    Proof.
      unfold simstep. cbn [step]. intros H.
      eapply sim_on_task; [exact I|exact Hsim|exact H|exact Hx|exact Hkt|].
      intros y Hy. cbv beta in Hy. destruct (_ && _) eqn:Eg in Hy; [|discriminate]. injection Hy as <-.
      apply andb_prop in Eg as [E1 E2]. rewrite E1, (sim_deps_done k x Hx Hkt E2). auto.
    Qed.

    Lemma keep_EMainBegin s' : step s (EMainBegin k) = Some s' -> simstep t st (EMainBegin k) s'.
    Proof.
      unfold simstep. cbn [step]. intros H.
      eapply sim_on_task; [exact I|exact Hsim|exact H|exact Hx|exact Hkt|task_side].
    Qed.

    Lemma keep_EDissoc s' : step s (EDissoc k) = Some s' -> simstep t st (EDissoc k) s'.
    Proof.
      unfold simstep. cbn [step]. intros H.
      eapply sim_on_task; [exact I|exact Hsim|exact H|exact Hx|exact Hkt|task_side].
    Qed.

    Lemma keep_EDoneCheck b s' : step s (EDoneCheck k b) = Some s' -> simstep t st (EDoneCheck k b) s'.
    Proof.
      unfold simstep. cbn [step]. intros H. use_task Hsim Hx Hkt H. rewrite (sim_coord _ _ _ Hsim).
      destruct (find_coord t (coords s)); [|discriminate]. destruct (_ && _); [|discriminate].
      injection H as <-. eexists. split; [reflexivity|].
      apply sim_upd_task with (x := x); auto.
      - intros z Hz. destruct b; exact Hz.
      - destruct b; reflexivity.
    Qed.

    Lemma keep_EMainEnd ok s' : step s (EMainEnd k ok) = Some s' -> simstep t st (EMainEnd k ok) s'.
    Proof.
      unfold simstep. cbn [step]. intros H. destruct (busy s k) eqn:Eb; [discriminate|].
      rewrite (sim_busy _ _ _ Hsim k Eb). use_task Hsim Hx Hkt H. rewrite (sim_coord _ _ _ Hsim).
      destruct (find_coord t (coords s)); [|discriminate]. destruct (_ && _); [|discriminate].
      injection H as <-. eexists. split; [reflexivity|].
      apply sim_upd_task with (x := x); auto.
      - intros z Hz. destruct ok; exact Hz.
      - destruct ok; reflexivity.
    Qed.

    Lemma keep_ESetResult s' : step s (ESetResult k) = Some s' -> simstep t st (ESetResult k) s'.
    Proof.
      unfold simstep. cbn [step]. intros H. destruct (busy s k) eqn:Eb; [discriminate|].
      rewrite (sim_busy _ _ _ Hsim k Eb). use_task Hsim Hx Hkt H. rewrite (sim_file _ _ _ Hsim).
      destruct (_ && _); [|discriminate]. eapply sim_on_coord; eauto. coord_id_side.
    Qed.

    Lemma keep_EOnQueued s' : step s (EOnQueued k) = Some s' -> simstep t st (EOnQueued k) s'.
    Proof.
      unfold simstep. cbn [step]. intros H. destruct (busy s k) eqn:Eb; [discriminate|].
      rewrite (sim_busy _ _ _ Hsim k Eb). use_task Hsim Hx Hkt H.
      destruct (_ && _); [|discriminate]. eapply sim_on_coord; eauto. coord_id_side.
    Qed.

    Lemma sim_all_assoc_done : all_assoc_done st t = all_assoc_done s t.
    Proof.
      unfold all_assoc_done. rewrite (sim_tasks _ _ _ Hsim). apply forallb_filter_restrict.
      intros z Hz. unfold tk_of in Hz. now rewrite Hz.
    Qed.

    Lemma keep_EWaitAll s' : step s (EWaitAll k) = Some s' -> simstep t st (EWaitAll k) s'.
    Proof.
      unfold simstep. cbn [step]. intros H. destruct (busy s k) eqn:Eb; [discriminate|].
      rewrite (sim_busy _ _ _ Hsim k Eb).
      rewrite Hx in H. rewrite (sim_find_t _ _ _ Hsim _ _ Hx Hkt). rewrite Hkt in H |- *.
      rewrite sim_all_assoc_done. destruct (_ && _); [|discriminate].
      eapply sim_on_task; [exact I|exact Hsim|exact H|exact Hx|exact Hkt|task_side].
    Qed.

    Lemma keep_EStatus tr ok s' : step s (EStatus k tr ok) = Some s' -> simstep t st (EStatus k tr ok) s'.
    Proof.
      unfold simstep. cbn [step]. intros H. destruct (busy s k) eqn:Eb; [discriminate|].
      rewrite (sim_busy _ _ _ Hsim k Eb).
      rewrite Hx in H. rewrite (sim_find_t _ _ _ Hsim _ _ Hx Hkt). rewrite Hkt in H |- *.
      rewrite (sim_coord _ _ _ Hsim).
      destruct (find_coord t (coords s)); [|discriminate]. destruct (_ && _); [|discriminate].
      destruct ok; [|injection H as <-; eauto].
      unfold bind in H. destruct (on_coord s t _) as [s1|] eqn:E1 in H; [|discriminate].
      eapply sim_bind_coord_task; [exact I|exact Hsim|exact E1|exact H| |exact Hx|exact Hkt|].
      - coord_id_side.
      - task_side2.
    Qed.
  End TaskEv.

  Lemma keep_EOnProgress a s' : step s (EOnProgress a t) = Some s' -> simstep t st (EOnProgress a t) s'.
  Proof.
    unfold simstep. cbn [step]. intros H. rewrite (sim_find _ _ _ Hsim a I).
    destruct (find_task a (tasks s)) as [x|]; [|discriminate].
    destruct (k_t x =? t) eqn:Et; [|discriminate]. cbv iota. rewrite Et.
    destruct (_ && _); [|discriminate].
    eapply sim_on_coord; [apply sim_bump; exact Hsim|exact H|coord_id_side].
  Qed.

  Lemma keep_ESetException a e ov s' :
    step s (ESetException a t e ov) = Some s' -> simstep t st (ESetException a t e ov) s'.
  Proof.
    unfold simstep. cbn [step]. intros H. destruct (busy s a) eqn:Eb; [discriminate|].
    rewrite (sim_busy _ _ _ Hsim a Eb). destruct (is_user a).
    - rewrite (sim_coord _ _ _ Hsim). destruct (find_coord t (coords s)); [|discriminate].
      destruct (_ && _); [|discriminate]. eapply sim_on_coord; eauto. coord_id_side.
    - destruct (find_task a (tasks s)) as [x|] eqn:Ex; [|discriminate].
      destruct (negb (k_t x =? t)) eqn:En; [discriminate|].
      assert (Hkt : k_t x = t) by (apply negb_false_iff in En; lia).
      rewrite (sim_find_t _ _ _ Hsim _ _ Ex Hkt). cbv iota. rewrite En.
      destruct ov.
      + rewrite (sim_coord _ _ _ Hsim), (sim_in_callback _ _ _ Hsim), (sim_acting _ _ _ Hsim a I).
        destruct (find_coord t (coords s)); [|discriminate].
        destruct (_ && _); [|discriminate]. eapply sim_on_coord; eauto. coord_id_side.
      + destruct (tst_eqb (k_st x) TFailed).
        * unfold bind in H. destruct (on_coord s t _) as [s1|] eqn:E1 in H; [|discriminate].
          eapply sim_bind_coord_task; [exact I|exact Hsim|exact E1|exact H| |exact Ex|exact Hkt|].
          -- coord_id_side.
          -- task_side2.
        * destruct (_ && _); [|discriminate].
          unfold bind in H. destruct (on_coord s t _) as [s1|] eqn:E1 in H; [|discriminate].
          eapply sim_bind_coord_task; [exact I|exact Hsim|exact E1|exact H| |exact Ex|exact Hkt|].
          -- coord_id_side.
          -- task_side2.
  Qed.

  (** ** shared stores: permits, queues, workers *)
  Lemma sim_sem i v : find_sem i (sems s) = Some v -> exists v', find_sem i (sems st) = Some v' /\ v <= v'.
  Proof.
    intros Hv. pose proof (gi_sem _ _ Gs i) as A. pose proof (gi_sem _ _ Gt i) as B. rewrite Hv in A.
    destruct A as [Hi A]. destruct (find_sem i (sems st)) as [v'|]; [|congruence].
    destruct B as [_ B]. exists v'. split; [reflexivity|]. rewrite A in B. injection B as B.
    rewrite (sim_tasks _ _ _ Hsim) in B. pose proof (count_filter_le (holds i) (tk_of t) (tasks s)). lia.
  Qed.

  Lemma sim_running g : g <> SInline ->
    0 <= g_running (get_stage st g) <= g_running (get_stage s g).
  Proof.
    intros Hg. rewrite (gi_run _ _ Gs g Hg), (gi_run _ _ Gt g Hg), (sim_tasks _ _ _ Hsim).
    split; [apply count_nonneg|apply count_filter_le].
  Qed.

  Lemma owned_t k x : find_task k (tasks s) = Some x -> k_t x = t -> owned t (tasks s) k = true.
  Proof. intros Hx Hkt. unfold owned. rewrite Hx. lia. Qed.

  Lemma keep_ESubmit a k g final deps kind s' :
    step s (ESubmit a k t g final deps kind) = Some s' -> simstep t st (ESubmit a k t g final deps kind) s'.
  Proof.
    unfold simstep. cbn [step]. intros H.
    match type of H with (if ?b then _ else _) = _ => destruct b eqn:EG; [|discriminate] end.
    injection H as <-.
    apply andb_prop in EG as [EG E11]. apply andb_prop in EG as [EG E10]. apply andb_prop in EG as [EG E9].
    apply andb_prop in EG as [EG E8]. apply andb_prop in EG as [EG E7]. apply andb_prop in EG as [EG E6].
    apply andb_prop in EG as [EG E5]. apply andb_prop in EG as [EG E4]. apply andb_prop in EG as [EG E3].
    apply andb_prop in EG as [E1 E2].
    match goal with |- exists st', (if ?b then _ else _) = _ /\ _ => assert (EGt : b = true) end.
    { repeat (apply andb_true_intro; split).
      - destruct (find_task k (tasks s)) eqn:Ek; [discriminate|]. now rewrite (sim_find_none _ _ _ Hsim k Ek).
      - destruct (kind =? KSubmission).
        + rewrite (sim_tasks _ _ _ Hsim), existsb_filter_restrict; [exact E2|]. intros z Hz. exact Hz.
        + apply andb_prop in E2 as [Eb Ea]. apply negb_true_iff in Eb.
          rewrite (sim_busy _ _ _ Hsim a Eb), (sim_acting _ _ _ Hsim a I), Ea. reflexivity.
      - rewrite forallb_forall in *. intros d Hd. specialize (E3 d Hd).
        destruct (find_task d (tasks s)) as [y|] eqn:Ey; [|discriminate].
        pose proof E3 as E3'. apply andb_prop in E3' as [Ea _].
        rewrite (sim_find_t _ _ _ Hsim d y Ey); [exact E3|lia].
      - now rewrite (sim_coord _ _ _ Hsim).
      - rewrite (sim_find _ _ _ Hsim a I). destruct (find_task a (tasks s)) as [p|]; [|reflexivity].
        destruct (k_t p =? t); [exact E5|reflexivity].
      - exact E6.
      - exact E7.
      - rewrite (sim_tasks _ _ _ Hsim), existsb_filter_restrict; [exact E8|].
        intros z Hz. unfold tk_of in Hz. now rewrite Hz.
      - destruct final; [|reflexivity]. rewrite (sim_tasks _ _ _ Hsim), forallb_filter_restrict; [exact E9|].
        intros z Hz. unfold tk_of in Hz. now rewrite Hz.
      - apply andb_prop in E10 as [Ea _]. exact Ea.
      - apply andb_prop in E10 as [_ Eb].
        destruct (kind =? KIOWrite) eqn:Ew; [|reflexivity]. cbn [negb orb] in *.
        assert (Ek : kind =? KSubmission = false) by (unfold KIOWrite, KSubmission in *; lia).
        rewrite Ek in E2. apply andb_prop in E2 as [_ Eact].
        destruct (SysQuiesce.acting_task_inv _ _ _ Eact) as (p & Hp & Hpt & _).
        rewrite (sim_find_t _ _ _ Hsim a p Hp Hpt). now rewrite Hp in Eb.
      - rewrite (sim_tasks _ _ _ Hsim). now apply forallb_filter_true. }
    rewrite EGt. eexists. split; [reflexivity|].
    apply sim_set_tasks; [exact Hsim| |].
    - rewrite (sim_tasks _ _ _ Hsim), filter_snoc. unfold tk_of. cbn [k_t]. now rewrite Z.eqb_refl.
    - intros g0 k0 Hin. apply owned_app. eapply queue_member_exists; [apply (gi_queue _ _ Gs)|exact Hin].
  Qed.

  Section TaskEv2.
    Variables (k : Z) (x : task).
    Hypothesis Hx : find_task k (tasks s) = Some x.
    Hypothesis Hkt : k_t x = t.

    Lemma keep_ERelease s' : step s (ERelease k) = Some s' -> simstep t st (ERelease k) s'.
    Proof.
      unfold simstep. cbn [step]. intros H. use_task Hsim Hx Hkt H.
      destruct (_ && _); [|discriminate]. injection H as <-. eexists. split; [reflexivity|].
      apply sim_set_sems. apply sim_upd_task with (x := x); auto.
    Qed.

    Lemma keep_EAcquire a sem s' : step s (EAcquire a k sem) = Some s' -> simstep t st (EAcquire a k sem) s'.
    Proof.
      unfold simstep. cbn [step]. intros H. use_task Hsim Hx Hkt H.
      destruct (find_sem sem (sems s)) as [v|] eqn:Ev; [|discriminate].
      destruct (sim_sem sem v Ev) as (v' & Ev' & Hle). rewrite Ev'.
      match type of H with (if ?b then _ else _) = _ => destruct b eqn:EG; [|discriminate] end.
      injection H as <-.
      apply andb_prop in EG as [EG E6]. apply andb_prop in EG as [EG E5]. apply andb_prop in EG as [EG E4].
      apply andb_prop in EG as [EG E3]. apply andb_prop in EG as [E1 E2]. apply negb_true_iff in E1.
      rewrite (sim_in_request _ _ _ Hsim a E1), E2, E3, E4, E6.
      assert (E5' : 0 <? v' = true) by lia. rewrite E5'. cbn [negb andb].
      eexists. split; [reflexivity|]. apply sim_set_sems. apply sim_upd_task with (x := x); auto.
    Qed.

    Lemma keep_EEnqueue a s' : step s (EEnqueue a k) = Some s' -> simstep t st (EEnqueue a k) s'.
    Proof.
      unfold simstep. cbn [step]. intros H. use_task Hsim Hx Hkt H. cbv zeta in H |- *.
      match type of H with (if ?b then _ else _) = _ => destruct b eqn:EG; [|discriminate] end.
      injection H as <-.
      apply andb_prop in EG as [EG E6]. apply andb_prop in EG as [EG E5]. apply andb_prop in EG as [EG E4].
      apply andb_prop in EG as [EG E3]. apply andb_prop in EG as [E1 E2]. apply negb_true_iff in E1.
      destruct (sim_stage _ _ _ Hsim (k_stage x)) as [Q W S J].
      rewrite (sim_in_request _ _ _ Hsim a E1), E2, E3, E4, S, E5, E6. cbn [negb andb].
      eexists. split; [reflexivity|].
      apply sim_set_stage; [apply sim_upd_task with (x := x); auto|].
      constructor; cbn [g_queue g_workers g_shut g_joined tasks set_tasks]; auto.
      rewrite Q, filter_app. cbn [filter].
      assert (Eo : owned t (upd_task k (fun y => with_st y TQueued) (tasks s)) k = true).
      { rewrite (owned_upd t k _ (tasks s) k x Hx); [now apply owned_t with (x := x)|auto|reflexivity]. }
      rewrite Eo. f_equal. apply filter_ext. intros k0. symmetry. now apply owned_upd with (x := x).
    Qed.

    Lemma keep_ETaskStart s' : step s (ETaskStart k) = Some s' -> simstep t st (ETaskStart k) s'.
    Proof.
      unfold simstep. cbn [step]. intros H. use_task Hsim Hx Hkt H. cbv zeta in H |- *.
      destruct (stage_eqb (k_stage x) SInline) eqn:Einl.
      - match type of H with (if ?b then _ else _) = _ => destruct b eqn:EG; [|discriminate] end.
        injection H as <-.
        apply andb_prop in EG as [EG E3]. apply andb_prop in EG as [E1 E2]. apply negb_true_iff in E2.
        rewrite E1, (sim_busy _ _ _ Hsim _ E2), (sim_acting _ _ _ Hsim _ I), E3. cbn [negb andb].
        eexists. split; [reflexivity|]. apply sim_upd_task with (x := x); auto.
      - destruct (sim_stage _ _ _ Hsim (k_stage x)) as [Q W S J].
        destruct (g_queue (get_stage s (k_stage x))) as [|h rest] eqn:Eq; [discriminate|].
        match type of H with (if ?b then _ else _) = _ => destruct b eqn:EG; [|discriminate] end.
        injection H as <-.
        apply andb_prop in EG as [EG E3]. apply andb_prop in EG as [E1 E2].
        assert (h = k) by lia. subst h.
        rewrite Q. cbn [filter]. rewrite (owned_t k x Hx Hkt), E1, E2.
        assert (Hni : k_stage x <> SInline) by (intros Hc; rewrite Hc in Einl; discriminate).
        pose proof (sim_running (k_stage x) Hni) as Hrun.
        assert (E3' : g_running (get_stage st (k_stage x)) <? g_workers (get_stage st (k_stage x)) = true)
          by (rewrite W; lia).
        rewrite E3'. cbn [andb]. eexists. split; [reflexivity|].
        apply sim_set_stage; [apply sim_upd_task with (x := x); auto|].
        constructor; cbn [g_queue g_workers g_shut g_joined tasks set_tasks]; auto.
        apply filter_ext. intros k0. symmetry. now apply owned_upd with (x := x).
    Qed.

    Lemma keep_ETaskEnd s' : step s (ETaskEnd k) = Some s' -> simstep t st (ETaskEnd k) s'.
    Proof.
      unfold simstep. cbn [step]. intros H. destruct (busy s k) eqn:Eb; [discriminate|].
      rewrite (sim_busy _ _ _ Hsim k Eb). use_task Hsim Hx Hkt H. cbv zeta in H |- *.
      match type of H with (if ?b then _ else _) = _ => destruct b; [|discriminate] end.
      assert (Hs1 : sim t (set_tasks s (upd_task k (fun y => with_st y TEnded) (tasks s)))
                          (set_tasks st (upd_task k (fun y => with_st y TEnded) (tasks st))))
        by (apply sim_upd_task with (x := x); auto).
      destruct (stage_eqb (k_stage x) SInline); [injection H as <-; eauto|].
      injection H as <-. eexists. split; [reflexivity|].
      apply sim_set_stage; [exact Hs1|].
      destruct (sim_stage _ _ _ Hs1 (k_stage x)) as [Q W S J].
      constructor; cbn [g_queue g_workers g_shut g_joined]; auto.
    Qed.
  End TaskEv2.

  Lemma keep_EAnnBegin a s' : step s (EAnnBegin a t) = Some s' -> simstep t st (EAnnBegin a t) s'.
  Proof.
    unfold simstep. cbn [step]. intros H. destruct (busy s a) eqn:Eb; [discriminate|].
    rewrite (sim_busy _ _ _ Hsim a Eb), (sim_coord _ _ _ Hsim).
    destruct (find_coord t (coords s)) as [c|] eqn:Ec; [|discriminate].
    destruct (ann_phase a (c_announcers c)); [discriminate|].
    destruct (mem_z a (c_owing c)).
    - eapply sim_on_coord; eauto. coord_id_side.
    - destruct (find_task a (tasks s)) as [x|] eqn:Ex; [|discriminate].
      destruct (negb (k_t x =? t)) eqn:En; [discriminate|].
      assert (Hkt : k_t x = t) by (apply negb_false_iff in En; lia).
      rewrite (sim_find_t _ _ _ Hsim _ _ Ex Hkt). cbv iota. rewrite En.
      destruct (k_kind x =? KSubmission).
      + destruct (_ && _); [|discriminate]. eapply sim_on_coord; eauto. coord_id_side.
      + destruct (_ && _); [|discriminate].
        unfold bind in H. destruct (on_coord s t _) as [s1|] eqn:E1 in H; [|discriminate].
        eapply sim_bind_coord_task; [exact I|exact Hsim|exact E1|exact H| |exact Ex|exact Hkt|].
        * coord_id_side.
        * task_side2.
  Qed.

  Lemma keep_EAnnEnd a s' : step s (EAnnEnd a t) = Some s' -> simstep t st (EAnnEnd a t) s'.
  Proof.
    unfold simstep. cbn [step]. intros H. destruct (busy s a) eqn:Eb; [discriminate|].
    rewrite (sim_busy _ _ _ Hsim a Eb), (sim_coord _ _ _ Hsim).
    destruct (find_coord t (coords s)) as [c|] eqn:Ec; [|discriminate].
    destruct (ann_phase a (c_announcers c)) as [p|] eqn:Eph; [|discriminate].
    destruct p as [|p|p]; try discriminate. destruct p as [p|p|]; try discriminate.
    destruct p as [p|p|]; try discriminate. destruct p; try discriminate.
    cbv zeta in H |- *.
    set (F := fun c0 : coord => c_with_ann c0 (c_owing c0) (ann_del a (c_announcers c0))) in *.
    assert (Hs1 : sim t (set_coords s (upd_coord t F (coords s))) (set_coords st (upd_coord t F (coords st)))).
    { apply sim_set_coords; [exact Hsim|]. rewrite !find_coord_upd by reflexivity.
      now rewrite (sim_coord _ _ _ Hsim). }
    assert (I1 : ids_inv (set_coords s (upd_coord t F (coords s)))) by exact I.
    rewrite (sim_find _ _ _ Hsim a I).
    destruct (find_task a (tasks s)) as [x|] eqn:Ex; [|injection H as <-; eauto].
    destruct (k_t x =? t) eqn:Et.
    - assert (Hkt : k_t x = t) by lia.
      destruct (is_user a); [injection H as <-; eauto|].
      destruct (tst_eqb (k_st x) TAnn).
      + eapply sim_on_task; [exact I1|exact Hs1|exact H|exact Ex|exact Hkt|task_side].
      + destruct (_ && _); [|injection H as <-; eauto].
        eapply sim_on_task; [exact I1|exact Hs1|exact H|exact Ex|exact Hkt|task_side].
    - destruct (is_user a) eqn:Eu; [injection H as <-; eauto|]. exfalso.
      assert (Hkt : k_t x = t).
      { eapply (fi_ann _ (gi_f _ _ Gs)); [exact Ec|rewrite Eph; discriminate|exact Eu|exact Ex]. }
      lia.
  Qed.

  (** ** requests and uploads *)
  Lemma sim_find_req_none r : find_req r (reqs s) = None -> find_req r (reqs st) = None.
  Proof. intros H. rewrite (sim_reqs _ _ _ Hsim). now apply find_req_filter_none. Qed.

  Lemma sim_find_req_t r q : find_req r (reqs s) = Some q -> r_t q = t -> find_req r (reqs st) = Some q.
  Proof.
    intros H Hq. rewrite (sim_reqs _ _ _ Hsim). apply find_req_filter_some; [exact H|]. unfold rq_of. lia.
  Qed.

  Lemma sim_find_upload_none i : find_upload i (uploads s) = None -> find_upload i (uploads st) = None.
  Proof. intros H. rewrite (sim_uploads _ _ _ Hsim). now apply find_upload_filter_none. Qed.

  Lemma sim_find_upload_t i u : find_upload i (uploads s) = Some u -> u_t u = t -> find_upload i (uploads st) = Some u.
  Proof.
    intros H Hu. rewrite (sim_uploads _ _ _ Hsim). apply find_upload_filter_some; [exact H|]. unfold up_of. lia.
  Qed.

  Lemma sim_upd_upload_comm i F :
    (forall z, u_t (F z) = u_t z) ->
    upd_upload i F (uploads st) = filter (up_of t) (upd_upload i F (uploads s)).
  Proof.
    intros HF. rewrite (sim_uploads _ _ _ Hsim). symmetry. apply filter_upd_upload_comm.
    intros z _ _. unfold up_of. now rewrite HF.
  Qed.

  Lemma sim_upd_req_comm i F :
    (forall z, r_t (F z) = r_t z) ->
    upd_req i F (reqs st) = filter (rq_of t) (upd_req i F (reqs s)).
  Proof.
    intros HF. rewrite (sim_reqs _ _ _ Hsim). symmetry. apply filter_upd_req_comm.
    intros z _ _. unfold rq_of. now rewrite HF.
  Qed.

  Lemma keep_ES3Begin a r op uid s' :
    step s (ES3Begin a r op t uid) = Some s' -> simstep t st (ES3Begin a r op t uid) s'.
  Proof.
    unfold simstep. cbn [step]. intros H. destruct (busy s a) eqn:Eb; [discriminate|].
    rewrite (sim_busy _ _ _ Hsim a Eb).
    destruct (find_req r (reqs s)) eqn:Er; [discriminate|]. rewrite (sim_find_req_none r Er).
    cbn [andb] in H |- *.
    assert (Hs1 : sim t (set_reqs (bump_after_shutdown s) (reqs s ++ [mkReq r a t op uid false false false]))
                        (set_reqs (bump_after_shutdown st) (reqs st ++ [mkReq r a t op uid false false false]))).
    { apply sim_set_reqs; [apply sim_bump; exact Hsim|].
      rewrite (sim_reqs _ _ _ Hsim), filter_snoc. unfold rq_of. cbn [r_t]. now rewrite Z.eqb_refl. }
    rewrite (sim_coord _ _ _ Hsim).
    destruct (s3op_eqb op OpAbort) eqn:Eop.
    2:{ destruct (find_task a (tasks s)) as [x|] eqn:Ex; [|discriminate].
        destruct (k_t x =? t) eqn:Et; [|discriminate].
        rewrite (sim_find_t _ _ _ Hsim a x Ex ltac:(lia)). cbv iota. rewrite Et.
        rewrite (sim_tasks _ _ _ Hsim), forallb_filter_restrict
          by (intros z Hz; unfold tk_of in Hz; now rewrite Hz).
        match type of H with (if ?b then _ else _) = _ => destruct b; [|discriminate] end.
        cbv zeta in H |- *. destruct op; try discriminate Eop.
        - injection H as <-. eauto.
        - cbn [uploads set_reqs] in H |- *. rewrite bump_uploads in H |- *.
          destruct (find_upload uid (uploads s)) as [u|] eqn:Eu; [|discriminate].
          destruct (_ && _) eqn:EG in H; [|discriminate]. pose proof EG as EG'. apply andb_prop in EG' as [Eut _].
          rewrite (sim_find_upload_t uid u Eu ltac:(lia)), EG. injection H as <-. eexists. split; [reflexivity|].
          apply sim_set_uploads; [exact Hs1|]. apply sim_upd_upload_comm. reflexivity.
        - cbn [uploads set_reqs] in H |- *. rewrite bump_uploads in H |- *.
          destruct (find_upload uid (uploads s)) as [u|] eqn:Eu; [|discriminate].
          destruct (_ && _) eqn:EG in H; [|discriminate]. pose proof EG as EG'. apply andb_prop in EG' as [Eut _].
          rewrite (sim_find_upload_t uid u Eu ltac:(lia)), EG. injection H as <-. eexists. split; [reflexivity|].
          apply sim_set_uploads; [exact Hs1|]. apply sim_upd_upload_comm. reflexivity.
        - injection H as <-. eauto.
        - injection H as <-. eauto.
        - injection H as <-. eauto. }
    match type of H with (if ?b then _ else _) = _ => destruct b; [|discriminate] end.
    cbv zeta in H |- *. destruct op; try discriminate Eop.
    cbn [uploads set_reqs] in H |- *. rewrite bump_uploads in H |- *.
    destruct (find_upload uid (uploads s)) as [u|] eqn:Eu; [|discriminate].
    destruct (u_t u =? t) eqn:EG in H; [|discriminate].
    rewrite (sim_find_upload_t uid u Eu ltac:(lia)), EG. injection H as <-. eexists. split; [reflexivity|].
    apply sim_set_uploads; [exact Hs1|]. apply sim_upd_upload_comm. reflexivity.
  Qed.

  Section ReqEv.
    Variables (r : Z) (q : req).
    Hypothesis Hq : find_req r (reqs s) = Some q.
    Hypothesis Hqt : r_t q = t.

    Lemma keep_ES3Effect uid s' : step s (ES3Effect r uid) = Some s' -> simstep t st (ES3Effect r uid) s'.
    Proof.
      unfold simstep. cbn [step]. intros H. rewrite Hq in H. rewrite (sim_find_req_t r q Hq Hqt).
      cbv beta iota zeta in H |- *.
      destruct (_ && _); [|discriminate].
      match type of H with context [upd_req r ?F (reqs s)] =>
        assert (Hs1 : sim t (set_reqs s (upd_req r F (reqs s))) (set_reqs st (upd_req r F (reqs st))))
          by (apply sim_set_reqs; [exact Hsim|]; apply sim_upd_req_comm; reflexivity) end.
      destruct (s3op_eqb (r_op q) OpCreate); [|injection H as <-; eauto].
      cbn [uploads set_reqs] in H |- *.
      destruct (find_upload uid (uploads s)) eqn:Eu; [discriminate|]. rewrite (sim_find_upload_none uid Eu).
      injection H as <-. eexists. split; [reflexivity|].
      apply sim_set_uploads; [exact Hs1|].
      rewrite (sim_uploads _ _ _ Hsim), filter_snoc. unfold up_of. cbn [u_t]. rewrite Hqt, Z.eqb_refl. reflexivity.
    Qed.

    Lemma keep_ES3End ok s' : step s (ES3End r ok) = Some s' -> simstep t st (ES3End r ok) s'.
    Proof.
      unfold simstep. cbn [step]. intros H. rewrite Hq in H. rewrite (sim_find_req_t r q Hq Hqt).
      cbv beta iota zeta in H |- *.
      destruct (_ && _); [|discriminate].
      match type of H with context [upd_req r ?F (reqs s)] =>
        assert (Hs1 : sim t (set_reqs s (upd_req r F (reqs s))) (set_reqs st (upd_req r F (reqs st))))
          by (apply sim_set_reqs; [exact Hsim|]; apply sim_upd_req_comm; reflexivity) end.
      destruct (r_op q); injection H as <-; eexists; (split; [reflexivity|]); try exact Hs1.
      all: apply sim_set_uploads; [exact Hs1|]; cbn [uploads set_reqs]; apply sim_upd_upload_comm; reflexivity.
    Qed.
  End ReqEv.

  (** ** the temporary file *)
  Lemma sim_actor2 (q1 q2 : task -> bool) a :
    match find_task a (tasks st) with Some x => (k_t x =? t) && q1 x && q2 x | None => false end =
    match find_task a (tasks s) with Some x => (k_t x =? t) && q1 x && q2 x | None => false end.
  Proof.
    rewrite (sim_find _ _ _ Hsim a I). destruct (find_task a (tasks s)) as [x|]; [|reflexivity].
    destruct (k_t x =? t) eqn:E; cbn; rewrite ?E; reflexivity.
  Qed.

  Lemma keep_EFs a op s' : step s (EFs a t op) = Some s' -> simstep t st (EFs a t op) s'.
  Proof.
    unfold simstep. cbn [step]. intros H. destruct (busy s a) eqn:Eb; [discriminate|].
    rewrite (sim_busy _ _ _ Hsim a Eb). cbv zeta in H |- *.
    pose proof (sim_actor2 (fun x => tst_eqb (k_st x) TMain) (fun x => k_kind x =? KIOWrite) a) as A1.
    pose proof (sim_actor2 (fun x => tst_eqb (k_st x) TMain) (fun x => k_kind x =? KIOFinal) a) as A2.
    cbv beta in A1, A2. rewrite A1, A2, (sim_coord _ _ _ Hsim), (sim_file _ _ _ Hsim). clear A1 A2.
    pose proof (sim_bump _ _ _ Hsim) as Hb.
    destruct op; destruct (find_file t (files s)) as [f|] eqn:Ef; try discriminate;
      (match type of H with (if ?b then _ else _) = _ => destruct b; [|discriminate] end);
      injection H as <-; eexists; (split; [reflexivity|]); try exact Hb;
      (apply sim_set_files; [exact Hb|]).
    all: first [ rewrite !find_file_app; now rewrite (sim_file _ _ _ Hsim)
               | rewrite !find_file_upd by reflexivity; now rewrite (sim_file _ _ _ Hsim) ].
  Qed.

  (** ** the four shutdown events *)
  Lemma keep_EShutdownBegin s' : step s EShutdownBegin = Some s' -> simstep t st EShutdownBegin s'.
  Proof.
    unfold simstep. cbn [step]. intros H. rewrite (sim_phase _ _ _ Hsim).
    destruct (shutdown_phase s =? 0); [|discriminate]. injection H as <-.
    eexists. split; [reflexivity|]. now apply sim_set_shutdown.
  Qed.

  Lemma keep_EStageShutdown g s' : step s (EStageShutdown g) = Some s' -> simstep t st (EStageShutdown g) s'.
  Proof.
    unfold simstep. cbn [step]. intros H. rewrite (sim_phase _ _ _ Hsim).
    destruct (_ && _); [|discriminate]. injection H as <-. cbv zeta.
    eexists. split; [reflexivity|]. apply sim_set_stage; [exact Hsim|].
    destruct (sim_stage _ _ _ Hsim g) as [Q W S J]. constructor; cbn [g_queue g_workers g_shut g_joined]; auto.
  Qed.

  Lemma keep_EStageJoined g s' : step s (EStageJoined g) = Some s' -> simstep t st (EStageJoined g) s'.
  Proof.
    unfold simstep. cbn [step]. intros H. cbv zeta in H |- *.
    destruct (sim_stage _ _ _ Hsim g) as [Q W S J].
    match type of H with (if ?b then _ else _) = _ => destruct b eqn:EG; [|discriminate] end.
    injection H as <-.
    apply andb_prop in EG as [EG E4]. apply andb_prop in EG as [EG E3]. apply andb_prop in EG as [E1 E2].
    assert (Hg : g <> SInline) by (intros ->; discriminate).
    pose proof (sim_running g Hg) as Hrun.
    assert (E2' : g_running (get_stage st g) =? 0 = true) by lia.
    assert (E3' : g_queue (get_stage st g) = []).
    { rewrite Q. destruct (g_queue (get_stage s g)); [reflexivity|discriminate]. }
    rewrite S, E1, E2', E3', E4. cbn [andb].
    eexists. split; [reflexivity|]. apply sim_set_stage; [exact Hsim|].
    constructor; cbn [g_queue g_workers g_shut g_joined]; auto.
    destruct (g_queue (get_stage s g)); [reflexivity|discriminate].
  Qed.

  Lemma keep_EShutdownReturn s' : step s EShutdownReturn = Some s' -> simstep t st EShutdownReturn s'.
  Proof.
    unfold simstep. cbn [step]. intros H. rewrite (sim_phase _ _ _ Hsim).
    pose proof (ss_joined _ _ _ _ (sim_stage _ _ _ Hsim SSub)) as J1.
    pose proof (ss_joined _ _ _ _ (sim_stage _ _ _ Hsim SReq)) as J2.
    pose proof (ss_joined _ _ _ _ (sim_stage _ _ _ Hsim SIO)) as J3.
    cbn [get_stage] in J1, J2, J3. rewrite J1, J2, J3.
    destruct (_ && _); [|discriminate]. injection H as <-.
    eexists. split; [reflexivity|]. now apply sim_set_shutdown.
  Qed.
End Keep.

(* ================================================================== *)
(** * Dropped events: they do not disturb the relation *)

(** what an event other than the four shutdown events does to the executors *)
Lemma step_stage_shape s e s' :
  step s e = Some s' -> is_global e = false ->
  shutdown_phase s' = shutdown_phase s /\
  forall g,
    g_workers (get_stage s' g) = g_workers (get_stage s g) /\
    g_shut (get_stage s' g) = g_shut (get_stage s g) /\
    g_joined (get_stage s' g) = g_joined (get_stage s g) /\
    (g_queue (get_stage s' g) = g_queue (get_stage s g) \/
     (exists a k, e = EEnqueue a k /\ g_queue (get_stage s' g) = g_queue (get_stage s g) ++ [k]) \/
     (exists k, e = ETaskStart k /\ g_queue (get_stage s g) = k :: g_queue (get_stage s' g))).
Proof.
  intros H Hg. destruct e; cbn [is_global] in Hg; try discriminate Hg; cbn [step] in H;
    inv_deep H; subst_somes; (split; [simp_proj; reflexivity|]); intros g0.
  all: try (destruct g0; cbn [get_stage]; simp_proj; rewrite ?bump_st_sub, ?bump_st_req, ?bump_st_io;
            repeat split; try reflexivity; left; reflexivity).
  all: match goal with
       | |- context [set_stage _ (k_stage ?x) _] =>
           destruct (k_stage x) eqn:Est; destruct g0; cbn [get_stage set_stage st_sub st_req st_io set_tasks g_workers g_shut g_joined g_queue] in *;
           repeat split; try reflexivity; try discriminate;
           first [ left; reflexivity
                 | right; left; eexists; eexists; split; reflexivity
                 | right; right; eexists; split; [reflexivity|];
                   match goal with Hq : _ = ?h :: ?r, Hk : (?h =? ?k) && _ && _ = true |- _ =>
                     apply andb_prop in Hk as [Hk _]; apply andb_prop in Hk as [Hk _];
                     assert (h = k) by lia; subst; exact Hq end ]
       end.
Qed.

Lemma owned_step t s e s' k :
  step s e = Some s' -> find_task k (tasks s) <> None -> owned t (tasks s') k = owned t (tasks s) k.
Proof.
  intros H Hn. apply step_evolve in H as (Hold & _). unfold owned.
  destruct (find_task k (tasks s)) as [x|] eqn:E; [|congruence].
  destruct (Hold k x E) as (y & Hy & Hts & _). rewrite Hy.
  now destruct (tstep_static _ _ _ Hts) as (_ & -> & _).
Qed.

Lemma sim_step_drop s0 t s st e s' t2 :
  ginv s0 s -> sim t s st -> step s e = Some s' -> event_transfer s e = Some t2 -> t2 <> t ->
  sim t s' st.
Proof.
  intros G Hsim H Hown Hne.
  assert (Hng : is_global e = false).
  { destruct (is_global e) eqn:Eg; [|reflexivity]. rewrite (global_no_transfer s e Eg) in Hown. discriminate. }
  destruct (frame_step s e s' t2 t (gi_f _ _ G) H Hown ltac:(congruence)) as (V1 & V2 & V3 & V4 & V5).
  destruct (step_stage_shape _ _ _ H Hng) as [Hph Hst].
  destruct Hsim as [S1 S2 S3 S4 S5 S6 S7]. constructor.
  - now rewrite V2.
  - now rewrite V1.
  - intros g. destruct (S3 g) as [Q W Sh J]. destruct (Hst g) as (Ew & Es & Ej & Hq).
    constructor; try congruence.
    assert (Hsame : forall q, (forall k0, In k0 q -> In k0 (g_queue (get_stage s g))) ->
              filter (owned t (tasks s')) q = filter (owned t (tasks s)) q).
    { intros q Hin. apply filter_ext_in. intros k0 Hk0. eapply owned_step; [exact H|].
      eapply queue_member_exists; [apply (gi_queue _ _ G)|apply Hin; exact Hk0]. }
    destruct Hq as [Hq|[(a & k & -> & Hq)|(k & -> & Hq)]].
    + rewrite Hq, Hsame; auto.
    + rewrite Hq, filter_app, Hsame by auto. cbn [filter].
      cbn [event_transfer] in Hown. unfold task_transfer in Hown.
      destruct (find_task k (tasks s)) as [x|] eqn:Ex; [|discriminate]. injection Hown as Hown.
      assert (Eo : owned t (tasks s') k = false).
      { rewrite (owned_step t _ _ _ k H) by congruence. unfold owned. rewrite Ex. lia. }
      rewrite Eo, app_nil_r. exact Q.
    + rewrite Hsame by (intros k0 Hk0; rewrite Hq; now right).
      rewrite Q, Hq. cbn [filter].
      cbn [event_transfer] in Hown. unfold task_transfer in Hown.
      destruct (find_task k (tasks s)) as [x|] eqn:Ex; [|discriminate]. injection Hown as Hown.
      assert (Eo : owned t (tasks s) k = false) by (unfold owned; rewrite Ex; lia).
      now rewrite Eo.
  - now rewrite V5.
  - now rewrite V4.
  - congruence.
  - now rewrite V3.
Qed.

(* ================================================================== *)
(** * One step of the simulation *)

Lemma sim_step_keep s0 t s st e s' :
  ginv s0 s -> ginv s0 st -> sim t s st -> step s e = Some s' -> keep t s e = true ->
  simstep t st e s'.
Proof.
  intros Gs Gt Hsim H Hk. unfold keep in Hk.
  destruct e; cbn [event_transfer] in Hk;
    try (apply Z.eqb_eq in Hk; subst);
    try (unfold task_transfer in Hk;
         match type of Hk with context [find_task ?k ?l] =>
           destruct (find_task k l) as [x|] eqn:Ex;
           [apply Z.eqb_eq in Hk
           |exfalso; cbn [step] in H; unfold on_task in H; rewrite ?Ex in H; kill_guards H] end);
    try (unfold req_transfer in Hk;
         match type of Hk with context [find_req ?k ?l] =>
           destruct (find_req k l) as [q|] eqn:Eq;
           [apply Z.eqb_eq in Hk
           |exfalso; cbn [step] in H; rewrite ?Eq in H; discriminate H] end).
  - eapply keep_ENewTransfer with (s := s); eauto.
  - eapply keep_EAddCallback with (s := s); eauto.
  - eapply keep_EAddCleanup with (s := s); eauto.
  - eapply keep_ESubmit with (s := s); eauto.
  - eapply keep_EAcquire with (s := s); eauto.
  - eapply keep_EEnqueue with (s := s); eauto.
  - eapply keep_EAssoc with (s := s); eauto.
  - eapply keep_ETaskStart with (s := s); eauto.
  - eapply keep_EDepsDone with (s := s); eauto.
  - eapply keep_EDoneCheck with (s := s); eauto.
  - eapply keep_EMainBegin with (s := s); eauto.
  - eapply keep_EMainEnd with (s := s); eauto.
  - eapply keep_ESetResult with (s := s); eauto.
  - eapply keep_ESetException with (s := s); eauto.
  - eapply keep_ECancel with (s := s); eauto.
  - eapply keep_EStatus with (s := s); eauto.
  - eapply keep_EOnQueued with (s := s); eauto.
  - eapply keep_EOnProgress with (s := s); eauto.
  - eapply keep_EWaitAll with (s := s); eauto.
  - eapply keep_EAnnBegin with (s := s); eauto.
  - eapply keep_ECleanupsBegin with (s := s); eauto.
  - eapply keep_ECleanup with (s := s); eauto.
  - eapply keep_ECleanupsEnd with (s := s); eauto.
  - eapply keep_EEventSet with (s := s); eauto.
  - eapply keep_ECallbacksBegin with (s := s); eauto.
  - eapply keep_ECallback with (s := s); eauto.
  - eapply keep_ECallbacksEnd with (s := s); eauto.
  - eapply keep_EAnnEnd with (s := s); eauto.
  - eapply keep_ETaskEnd with (s := s); eauto.
  - eapply keep_ERelease with (s := s); eauto.
  - eapply keep_EDissoc with (s := s); eauto.
  - eapply keep_ECount with (s := s); eauto.
  - eapply keep_ES3Begin with (s := s); eauto.
  - eapply keep_ES3Effect with (s := s); eauto.
  - eapply keep_ES3End with (s := s); eauto.
  - eapply keep_EResult with (s := s); eauto.
  - eapply keep_EFs with (s := s); eauto.
  - eapply keep_EShutdownBegin with (s := s); eauto.
  - eapply keep_EStageShutdown with (s := s); eauto.
  - eapply keep_EStageJoined with (s := s); eauto.
  - eapply keep_EShutdownReturn with (s := s); eauto.
Qed.

(* ================================================================== *)
(** * The erased run and non-interference *)

(** [proj t s tr]: along the run of [tr] from [s], keep the events owned by
    [t] and the four shutdown events, drop the events owned by any other
    transfer (ownership of task / request events is read in the state of the
    full run in which the event happens). *)
Fixpoint proj (t : Z) (s : state) (tr : list event) : list event :=
  match tr with
  | [] => []
  | e :: r =>
      match step s e with
      | Some s' => if keep t s e then e :: proj t s' r else proj t s' r
      | None => []
      end
  end.

Section NonInterference.
  Variables w_sub w_req w_io q_sub q_req q_io up down : Z.
  Let s0 := init w_sub w_req w_io q_sub q_req q_io up down.

  Lemma noninterference_from t tr : forall s st s',
    reachable s0 s -> reachable s0 st -> sim t s st -> run s tr = Some s' ->
    exists st', run st (proj t s tr) = Some st' /\ sim t s' st'.
  Proof.
    induction tr as [|e r IH]; intros s st s' Rs Rt Hsim Hrun; cbn [run proj] in *.
    - injection Hrun as <-. eauto.
    - destruct (step s e) as [s1|] eqn:Es; [|discriminate].
      assert (Rs1 : reachable s0 s1) by exact (reachable_step _ _ _ _ Rs Es).
      destruct (keep t s e) eqn:Ek.
      + destruct (sim_step_keep s0 t s st e s1 (ginv_reachable _ _ _ _ _ _ _ _ _ Rs)
                    (ginv_reachable _ _ _ _ _ _ _ _ _ Rt) Hsim Es Ek) as (st1 & Hst1 & Hsim1).
        cbn [run]. rewrite Hst1. apply (IH s1 st1 s'); auto. exact (reachable_step _ _ _ _ Rt Hst1).
      + unfold keep in Ek. destruct (event_transfer s e) as [t2|] eqn:Eo; [|discriminate].
        apply (IH s1 st s'); auto.
        eapply sim_step_drop; [apply (ginv_reachable _ _ _ _ _ _ _ _ _ Rs)|exact Hsim|exact Es|exact Eo|lia].
  Qed.

  (** (3) Non-interference: erasing the events of every other transfer --
      their submissions, failures, cancellations, requests, announces -- from
      a run leaves a run, and transfer [t] ends with the same coordinator
      (status, exception, result / event flag, cleanups and callbacks run),
      the same tasks, file, uploads and requests. *)
  Theorem noninterference t tr s :
    run s0 tr = Some s ->
    exists st, run s0 (proj t s0 tr) = Some st /\ sim t s st /\ same_transfer_view t s st.
  Proof.
    intros Hrun.
    destruct (noninterference_from t tr s0 s0 s (reachable_refl _) (reachable_refl _)
                (sim_init _ _ _ _ _ _ _ _ t) Hrun) as (st & Hst & Hsim).
    exists st. split; [exact Hst|]. split; [exact Hsim|now apply sim_view].
  Qed.

  (** the outcome of [t] in particular *)
  Corollary outcome_isolated t tr s c :
    run s0 tr = Some s -> find_coord t (coords s) = Some c ->
    exists st, run s0 (proj t s0 tr) = Some st /\ find_coord t (coords st) = Some c /\
               find_file t (files st) = find_file t (files s) /\
               tasks st = filter (tk_of t) (tasks s) /\
               reqs st = filter (rq_of t) (reqs s) /\
               uploads st = filter (up_of t) (uploads s).
  Proof.
    intros Hrun Hc. destruct (noninterference t tr s Hrun) as (st & Hst & Hsim & _).
    exists st. split; [exact Hst|]. destruct Hsim as [S1 S2 _ S4 S5 _ S7].
    repeat split; auto. congruence.
  Qed.
End NonInterference.

(* ================================================================== *)
(** * The erased run contains only events of [t] and shutdown events *)

Lemma keep_owner t s st e s' :
  sim t s st -> step s e = Some s' -> keep t s e = true ->
  is_global e = true \/ event_transfer st e = Some t.
Proof.
  intros Hsim H Hk. destruct (is_global e) eqn:Eg; [now left|right].
  destruct (event_transfer_defined _ _ _ H Eg) as (t2 & Ho). unfold keep in Hk. rewrite Ho in Hk.
  assert (t2 = t) by lia. subst t2. clear Hk.
  destruct e; cbn [event_transfer is_global] in *; try discriminate Eg; try exact Ho.
  all: try (unfold task_transfer in *; destruct (find_task k (tasks s)) as [x|] eqn:Ex; [|discriminate];
            injection Ho as Ho; now rewrite (sim_find_t _ _ _ Hsim k x Ex Ho), Ho).
  all: unfold req_transfer in *; destruct (find_req r (reqs s)) as [q|] eqn:Eq; [|discriminate];
       injection Ho as Ho; rewrite (sim_reqs _ _ _ Hsim), (find_req_filter_some (rq_of t) r (reqs s) q Eq);
       [now rewrite Ho|unfold rq_of; lia].
Qed.

(** every event of the run [tr] from [s] is a shutdown event or is owned by [t] *)
Fixpoint owned_run (t : Z) (s : state) (tr : list event) : Prop :=
  match tr with
  | [] => True
  | e :: r =>
      match step s e with
      | Some s' => (is_global e = true \/ event_transfer s e = Some t) /\ owned_run t s' r
      | None => False
      end
  end.

Section Erased.
  Variables w_sub w_req w_io q_sub q_req q_io up down : Z.
  Let s0 := init w_sub w_req w_io q_sub q_req q_io up down.

  Lemma erased_run_owned_from t tr : forall s st s',
    reachable s0 s -> reachable s0 st -> sim t s st -> run s tr = Some s' ->
    owned_run t st (proj t s tr).
  Proof.
    induction tr as [|e r IH]; intros s st s' Rs Rt Hsim Hrun; cbn [run proj] in *; [exact I|].
    destruct (step s e) as [s1|] eqn:Es; [|discriminate].
    assert (Rs1 : reachable s0 s1) by exact (reachable_step _ _ _ _ Rs Es).
    destruct (keep t s e) eqn:Ek.
    - destruct (sim_step_keep s0 t s st e s1 (ginv_reachable _ _ _ _ _ _ _ _ _ Rs)
                  (ginv_reachable _ _ _ _ _ _ _ _ _ Rt) Hsim Es Ek) as (st1 & Hst1 & Hsim1).
      cbn [owned_run]. rewrite Hst1. split; [eapply keep_owner; eauto|].
      apply (IH s1 st1 s'); auto. exact (reachable_step _ _ _ _ Rt Hst1).
    - unfold keep in Ek. destruct (event_transfer s e) as [t2|] eqn:Eo; [|discriminate].
      apply (IH s1 st s'); auto.
      eapply sim_step_drop; [apply (ginv_reachable _ _ _ _ _ _ _ _ _ Rs)|exact Hsim|exact Es|exact Eo|lia].
  Qed.

  Theorem erased_run_owned t tr s : run s0 tr = Some s -> owned_run t s0 (proj t s0 tr).
  Proof.
    intros Hrun. apply (erased_run_owned_from t tr s0 s0 s); auto using reachable_refl.
    apply sim_init.
  Qed.

  (** a run made of events of [t] and shutdown events never creates anything
      for another transfer (by the frame theorem) *)
  Lemma owned_run_view t t' tr : forall s s',
    reachable s0 s -> t' <> t -> owned_run t s tr -> run s tr = Some s' -> same_transfer_view t' s s'.
  Proof.
    induction tr as [|e r IH]; intros s s' Rs Hne Ho Hrun; cbn [run owned_run] in *.
    - injection Hrun as <-. apply view_refl.
    - destruct (step s e) as [s1|] eqn:Es; [|discriminate]. destruct Ho as [Ho Hr].
      apply view_trans with (s2 := s1).
      + eapply view_changes_only_by_owner; [exact Rs|exact Es|].
        destruct Ho as [Hg|Ho]; [rewrite (global_no_transfer s e Hg); discriminate|congruence].
      + apply IH; auto. exact (reachable_step _ _ _ _ Rs Es).
  Qed.

  (** the state of the erased run stores nothing of any other transfer *)
  Theorem erased_state_only_t t tr s :
    run s0 tr = Some s ->
    exists st, run s0 (proj t s0 tr) = Some st /\ sim t s st /\
      forall t', t' <> t ->
        find_coord t' (coords st) = None /\ find_file t' (files st) = None /\
        filter (tk_of t') (tasks st) = [] /\ filter (rq_of t') (reqs st) = [] /\
        filter (up_of t') (uploads st) = [].
  Proof.
    intros Hrun. destruct (noninterference _ _ _ _ _ _ _ _ t tr s Hrun) as (st & Hst & Hsim & _).
    exists st. split; [exact Hst|]. split; [exact Hsim|]. intros t' Hne.
    destruct (owned_run_view t t' _ s0 st (reachable_refl _) Hne (erased_run_owned t tr s Hrun) Hst)
      as (V1 & V2 & V3 & V4 & V5).
    rewrite V1, V2, V3, V4, V5. repeat split; reflexivity.
  Qed.
End Erased.

(* ================================================================== *)
(** * (4) Non-vacuity: two transfers, one fails, the other succeeds *)

(** Transfer 0 (user thread -1) and transfer 1 (user thread -2) share the
    manager (1 submission worker, 2 request workers).  Both are submitted and
    started; the PutObject of transfer 1 fails, its final task records the
    exception and announces (failure cleanups, event, done callbacks);
    meanwhile transfer 0's PutObject succeeds and it announces success. *)
Definition iso_trace : list event :=
  [ ENewTransfer (-1) 0; ENewTransfer (-2) 1;
    ESubmit (-1) 0 0 SSub false [] KSubmission; EAcquire (-1) 0 SEM_SUB; EEnqueue (-1) 0;
    ESubmit (-2) 1 1 SSub false [] KSubmission; EAcquire (-2) 1 SEM_SUB; EEnqueue (-2) 1;
    ETaskStart 0; EDepsDone 0; EDoneCheck 0 false; EMainBegin 0; EStatus 0 false true; EStatus 0 true true;
    ESubmit 0 2 0 SReq true [] KData; EAcquire 0 2 SEM_REQ; EEnqueue 0 2; EAssoc 0 2;
    EMainEnd 0 true; ETaskEnd 0; ERelease 0;
    ETaskStart 1; EDepsDone 1; EDoneCheck 1 false; EMainBegin 1; EStatus 1 false true; EStatus 1 true true;
    ESubmit 1 3 1 SReq true [] KData; EAcquire 1 3 SEM_REQ; EEnqueue 1 3; EAssoc 1 3;
    EMainEnd 1 true; ETaskEnd 1; ERelease 1;
    ETaskStart 2; ETaskStart 3; EDepsDone 2; EDepsDone 3; EDoneCheck 2 false; EDoneCheck 3 false;
    EMainBegin 2; EMainBegin 3;
    ES3Begin 3 101 OpData 1 0; ES3End 101 false; EMainEnd 3 false; ESetException 3 1 7 false;
    ES3Begin 2 100 OpData 0 0; ES3Effect 100 0; ES3End 100 true; ESetResult 2; EMainEnd 2 true;
    EAnnBegin 3 1; ECleanupsBegin 3 1; ECleanupsEnd 3 1; EEventSet 3 1; ECallbacksBegin 3 1; ECallbacksEnd 3 1;
    EAnnEnd 3 1; ETaskEnd 3; ERelease 3; EDissoc 3;
    EAnnBegin 2 0; EEventSet 2 0; ECallbacksBegin 2 0; ECallbacksEnd 2 0; EAnnEnd 2 0;
    ETaskEnd 2; ERelease 2; EDissoc 2;
    EResult (-1) 0 false; EResult (-2) 1 true ].

(** what is left of it for transfer 0 *)
Definition iso_trace_0 : list event :=
  [ ENewTransfer (-1) 0;
    ESubmit (-1) 0 0 SSub false [] KSubmission; EAcquire (-1) 0 SEM_SUB; EEnqueue (-1) 0;
    ETaskStart 0; EDepsDone 0; EDoneCheck 0 false; EMainBegin 0; EStatus 0 false true; EStatus 0 true true;
    ESubmit 0 2 0 SReq true [] KData; EAcquire 0 2 SEM_REQ; EEnqueue 0 2; EAssoc 0 2;
    EMainEnd 0 true; ETaskEnd 0; ERelease 0;
    ETaskStart 2; EDepsDone 2; EDoneCheck 2 false; EMainBegin 2;
    ES3Begin 2 100 OpData 0 0; ES3Effect 100 0; ES3End 100 true; ESetResult 2; EMainEnd 2 true;
    EAnnBegin 2 0; EEventSet 2 0; ECallbacksBegin 2 0; ECallbacksEnd 2 0; EAnnEnd 2 0;
    ETaskEnd 2; ERelease 2; EDissoc 2;
    EResult (-1) 0 false ].

Definition iso_init : state := init 1 2 1 10 10 10 2 2.

Example isolation_example :
  exists s st c0 c1,
    run iso_init iso_trace = Some s /\
    proj 0 iso_init iso_trace = iso_trace_0 /\
    run iso_init iso_trace_0 = Some st /\
    find_coord 0 (coords s) = Some c0 /\ c_status c0 = Success /\ c_exc c0 = None /\ c_event c0 = true /\
    find_coord 1 (coords s) = Some c1 /\ c_status c1 = Failed /\ c_exc c1 = Some 7 /\
    find_coord 0 (coords st) = Some c0 /\ find_coord 1 (coords st) = None /\
    tasks st = filter (tk_of 0) (tasks s) /\ reqs st = filter (rq_of 0) (reqs s).
Proof.
  do 4 eexists. split; [vm_compute; reflexivity|].
  split; [vm_compute; reflexivity|]. split; [vm_compute; reflexivity|].
  repeat split; vm_compute; reflexivity.
Qed.

(** the hypotheses of the frame theorem on a concrete failing step: the state
    before transfer 1 records its exception is reachable, the event is owned
    by transfer 1, and the view of transfer 0 is unchanged by it while the
    coordinator of transfer 1 becomes Failed *)
Example frame_example :
  exists s1 s2 c1,
    run iso_init (firstn 45 iso_trace) = Some s1 /\
    step s1 (ESetException 3 1 7 false) = Some s2 /\
    event_transfer s1 (ESetException 3 1 7 false) = Some 1 /\
    same_transfer_view 0 s1 s2 /\
    find_coord 1 (coords s2) = Some c1 /\ c_status c1 = Failed.
Proof.
  do 3 eexists. split; [vm_compute; reflexivity|]. split; [vm_compute; reflexivity|].
  split; [reflexivity|]. split.
  - eapply (frame_reachable 1 2 1 10 10 10 2 2) with (t := 1) (e := ESetException 3 1 7 false);
      [exists (firstn 45 iso_trace); vm_compute; reflexivity|vm_compute; reflexivity|reflexivity|discriminate].
  - split; vm_compute; reflexivity.
Qed.

(** a cancellation: transfer 1 is cancelled by its user thread before it
    starts (the canceller announces), transfer 0 succeeds, then the manager
    shuts down; the erased run keeps the shutdown events *)
Definition iso_trace_cancel : list event :=
  [ ENewTransfer (-1) 0; ENewTransfer (-2) 1;
    ESubmit (-1) 0 0 SSub false [] KSubmission; EAcquire (-1) 0 SEM_SUB; EEnqueue (-1) 0;
    ECancel (-2) 1 9;
    EAnnBegin (-2) 1; ECleanupsBegin (-2) 1; ECleanupsEnd (-2) 1; EEventSet (-2) 1;
    ETaskStart 0; EDepsDone 0; EDoneCheck 0 false; EMainBegin 0; EStatus 0 false true; EStatus 0 true true;
    ECallbacksBegin (-2) 1; ECallbacksEnd (-2) 1; EAnnEnd (-2) 1;
    ESubmit 0 2 0 SReq true [] KData; EAcquire 0 2 SEM_REQ; EEnqueue 0 2; EAssoc 0 2;
    EMainEnd 0 true; ETaskEnd 0; ERelease 0;
    EShutdownBegin; EStageShutdown SSub; EStageJoined SSub;
    ETaskStart 2; EDepsDone 2; EDoneCheck 2 false; EMainBegin 2;
    ES3Begin 2 100 OpData 0 0; ES3Effect 100 0; ES3End 100 true; ESetResult 2; EMainEnd 2 true;
    EResult (-2) 1 true;
    EAnnBegin 2 0; EEventSet 2 0; ECallbacksBegin 2 0; ECallbacksEnd 2 0; EAnnEnd 2 0;
    ETaskEnd 2; ERelease 2; EDissoc 2;
    EStageShutdown SReq; EStageJoined SReq; EStageShutdown SIO; EStageJoined SIO; EShutdownReturn;
    EResult (-1) 0 false ].

Example isolation_example_cancel :
  exists s st c0 c1,
    run iso_init iso_trace_cancel = Some s /\
    run iso_init (proj 0 iso_init iso_trace_cancel) = Some st /\
    length (proj 0 iso_init iso_trace_cancel) = 43%nat /\
    find_coord 0 (coords s) = Some c0 /\ c_status c0 = Success /\
    find_coord 1 (coords s) = Some c1 /\ c_status c1 = Cancelled /\ c_exc c1 = Some 9 /\
    find_coord 0 (coords st) = Some c0 /\ find_coord 1 (coords st) = None /\
    shutdown_phase s = 2 /\ shutdown_phase st = 2.
Proof.
  do 4 eexists. split; [vm_compute; reflexivity|]. split; [vm_compute; reflexivity|].
  repeat split; vm_compute; reflexivity.
Qed.

(* ================================================================== *)
(** * The manager stays usable *)

(** Whatever happened to the transfers so far (failures, cancellations, even a
    shutdown in progress), a user thread can create a new transfer and hand
    its submission task to the manager, and doing so leaves the view of every
    existing transfer unchanged.  (After shutdown the *enqueue* of that task is
    refused by the shut executor: that is C18's barrier, not interference.) *)
Theorem manager_accepts_new_transfer a b c d e f g h s u t k :
  reachable (init a b c d e f g h) s ->
  is_user u = true -> find_coord t (coords s) = None ->
  0 <= k -> (forall x, In x (tasks s) -> k_id x < k) ->
  exists s1 s2,
    step s (ENewTransfer u t) = Some s1 /\
    step s1 (ESubmit u k t SSub false [] KSubmission) = Some s2 /\
    forall t', t' <> t -> same_transfer_view t' s s2.
Proof.
  intros Hr Hu Hc Hk Hids.
  assert (Hnone : forall j, j < 0 \/ k <= j -> find_task j (tasks s) = None).
  { intros j Hj. destruct (find_task j (tasks s)) as [x|] eqn:Ex; [|reflexivity]. exfalso.
    destruct (find_task_in _ _ _ Ex) as [Hin Hid]. pose proof (Hids x Hin).
    assert (0 <= k_id x).
    { apply (task_inv_reachable (fun x => 0 <= k_id x) (init a b c d e f g h)) with (s := s) (k := j); auto.
      - intros s1 a1 k1 t1 g1 fin deps kind Hso. cbn. exact (so_nonneg _ _ _ _ _ _ _ _ Hso).
      - intros s1 x1 y1 Hts Hx1. now destruct (tstep_static _ _ _ Hts) as (-> & _). }
    lia. }
  assert (Hnot : forall x, In x (tasks s) -> (k_t x =? t) = false).
  { intros x Hin. destruct (k_t x =? t) eqn:Et; [|reflexivity]. exfalso.
    pose proof (ids_inv_reachable _ _ _ _ _ _ _ _ _ Hr) as I.
    destruct (task_coord_inv_reachable _ _ _ _ _ _ _ _ _ Hr (k_id x) x (in_find_task _ _ I Hin)) as (c0 & Hc0).
    assert (k_t x = t) by lia. congruence. }
  assert (S1 : step s (ENewTransfer u t) = Some (set_coords s (coords s ++ [fresh_coord t]))).
  { cbn [step]. now rewrite Hu, Hc. }
  eexists. eexists. split; [exact S1|].
  assert (S2 : step (set_coords s (coords s ++ [fresh_coord t])) (ESubmit u k t SSub false [] KSubmission) =
               Some (set_tasks (set_coords s (coords s ++ [fresh_coord t]))
                       (tasks s ++ [fresh_task k t SSub u false [] KSubmission]))).
  { cbn [step tasks coords set_coords]. rewrite (Hnone k ltac:(lia)).
    assert (Eu : u < 0) by (unfold is_user in Hu; lia). rewrite (Hnone u ltac:(lia)).
    rewrite find_coord_app, Hc. cbn [c_id fresh_coord]. rewrite !Z.eqb_refl, Hu.
    assert (E1 : existsb (fun x => k_t x =? t) (tasks s) = false).
    { apply not_true_is_false. intros E. apply existsb_exists in E as (x & Hin & Hx).
      rewrite (Hnot x Hin) in Hx. discriminate. }
    assert (E2 : existsb (fun x => (k_t x =? t) && k_final x) (tasks s) = false).
    { apply not_true_is_false. intros E. apply existsb_exists in E as (x & Hin & Hx).
      rewrite (Hnot x Hin) in Hx. discriminate. }
    assert (E3 : forallb (fun x => k_id x <? k) (tasks s) = true).
    { apply forallb_forall. intros x Hin. pose proof (Hids x Hin). lia. }
    rewrite E1, E2, E3. assert (E4 : 0 <=? k = true) by lia. rewrite E4. reflexivity. }
  split; [exact S2|]. intros t' Hne.
  apply view_trans with (s2 := set_coords s (coords s ++ [fresh_coord t])).
  - eapply frame_reachable; [exact Hr|exact S1|reflexivity|exact Hne].
  - eapply frame_reachable; [eapply reachable_step; [exact Hr|exact S1]|exact S2|reflexivity|exact Hne].
Qed.
