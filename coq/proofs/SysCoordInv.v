(** Coordinator invariants, for every reachable state of the system. *)
From Coq Require Import ZArith List Bool Lia.
From S3V Require Import model.Sys proofs.SysBase proofs.SysCoord.
Import ListNotations.
Open Scope Z_scope.

(** ** announcer bookkeeping *)
Lemma ann_phase_set_same a p l : ann_phase a (ann_set a p l) = Some p.
Proof. unfold ann_set. cbn [ann_phase]. now rewrite Z.eqb_refl. Qed.

Lemma ann_phase_filter_other a b l : a <> b ->
  ann_phase b (filter (fun q => negb (fst q =? a)) l) = ann_phase b l.
Proof.
  intros Hne. induction l as [|[c p] r IH]; cbn [filter ann_phase fst]; [reflexivity|].
  destruct (c =? a) eqn:E; cbn [negb].
  - destruct (c =? b) eqn:E2; [lia|exact IH].
  - cbn [ann_phase]. destruct (c =? b); [reflexivity|exact IH].
Qed.

Lemma ann_phase_filter_same a l :
  ann_phase a (filter (fun q => negb (fst q =? a)) l) = None.
Proof.
  induction l as [|[c p] r IH]; cbn [filter ann_phase fst]; [reflexivity|].
  destruct (c =? a) eqn:E; cbn [negb]; [exact IH|].
  cbn [ann_phase]. now rewrite E.
Qed.

Lemma ann_phase_set_other a b p l : a <> b -> ann_phase b (ann_set a p l) = ann_phase b l.
Proof.
  intros Hne. unfold ann_set. cbn [ann_phase]. destruct (a =? b) eqn:E; [lia|].
  now apply ann_phase_filter_other.
Qed.

Lemma ann_phase_del_same a l : ann_phase a (ann_del a l) = None.
Proof. apply ann_phase_filter_same. Qed.

Lemma ann_phase_del_other a b l : a <> b -> ann_phase b (ann_del a l) = ann_phase b l.
Proof. intros; now apply ann_phase_filter_other. Qed.

Lemma mem_z_true x l : mem_z x l = true <-> In x l.
Proof.
  unfold mem_z. rewrite existsb_exists. split.
  - intros (y & Hy & E). assert (x = y) by lia. now subst.
  - intros H. exists x. split; [exact H|apply Z.eqb_refl].
Qed.

Lemma mem_z_false x l : mem_z x l = false <-> ~ In x l.
Proof.
  rewrite <- mem_z_true. destruct (mem_z x l); split; intros H; congruence.
Qed.

Arguments ann_set : simpl never.
Arguments ann_del : simpl never.
Arguments ann_phase : simpl never.
Arguments remove_z : simpl never.
Arguments mem_z : simpl never.

(** ** The invariant of one coordinator *)
Definition failedish (st : status) : bool :=
  match st with Failed | Cancelled => true | _ => false end.

Record cinv (c : coord) : Prop := {
  ci_exc : (exists e, c_exc c = Some e) <-> failedish (c_status c) = true;
  ci_nodup : NoDup (c_ran_callbacks c ++ c_callbacks c);
  ci_cl : forall a, c_cl_runner c = Some a <-> ann_phase a (c_announcers c) = Some 1;
  ci_cb : forall a, c_cb_runner c = Some a <-> ann_phase a (c_announcers c) = Some 4;
  ci_ev : forall a p, ann_phase a (c_announcers c) = Some p -> 3 <= p -> c_event c = true;
  ci_ran_ev : c_ran_callbacks c <> [] -> c_event c = true;
  ci_phase : forall a p, ann_phase a (c_announcers c) = Some p -> 0 <= p <= 5
}.

Lemma cinv_fresh t : cinv (fresh_coord t).
Proof.
  constructor; cbn; try discriminate; try congruence; try tauto.
  - split; [intros [e H]; discriminate|discriminate].
  - constructor.
  - intros a; split; discriminate.
  - intros a; split; discriminate.
Qed.

Lemma done_monotone_cstep c c' : cstep c c' -> is_done (c_status c) = true -> is_done (c_status c') = true.
Proof.
  intros H Hd. destruct H; cbn; try exact Hd; try reflexivity.
  congruence.
Qed.

Lemma NoDup_snoc (l : list Z) x : NoDup l -> ~ In x l -> NoDup (l ++ [x]).
Proof.
  induction l as [|y r IH]; intros Hnd Hni; cbn [app].
  - constructor; [intros []|constructor].
  - inversion Hnd as [|? ? Hy Hr]; subst. constructor.
    + intros Hin. apply in_app_or in Hin as [Hin|[->|[]]]; [auto|]. apply Hni. now left.
    + apply IH; [exact Hr|]. intros Hin. apply Hni. now right.
Qed.

Lemma NoDup_app_snoc (l1 l2 : list Z) x :
  NoDup (l1 ++ l2) -> ~ In x (l1 ++ l2) -> NoDup (l1 ++ (l2 ++ [x])).
Proof. intros Hnd Hni. rewrite app_assoc. now apply NoDup_snoc. Qed.

Lemma NoDup_move (l1 l2 : list Z) h : NoDup (l1 ++ h :: l2) -> NoDup ((l1 ++ [h]) ++ l2).
Proof. intros H. now rewrite <- app_assoc. Qed.

(** the phase bookkeeping under [ann_set] for the acting announcer *)
Ltac ann_cases a b Hne :=
  destruct (Z.eq_dec a b) as [->|Hne];
  [rewrite ?ann_phase_set_same, ?ann_phase_del_same
  |rewrite ?ann_phase_set_other, ?ann_phase_del_other by exact Hne].

Lemma cinv_cstep c c' : cinv c -> cstep c c' -> cinv c'.
Proof.
  intros I H. destruct I as [Iexc Ind Icl Icb Iev Iran Iph].
  destruct H; try (constructor; cbn; assumption).
  - (* addcb *)
    constructor; cbn; try assumption.
    apply NoDup_app_snoc; [exact Ind|].
    intros Hin. apply in_app_or in Hin as [Hin|Hin].
    + apply mem_z_false in H0. auto.
    + apply mem_z_false in H. auto.
  - (* result *)
    constructor; cbn; try assumption.
    split; [intros [e He]; discriminate|discriminate].
  - (* exc *)
    constructor; cbn; try assumption. split; [reflexivity|eauto].
  - (* cancel *)
    constructor; cbn; try assumption. split; [reflexivity|eauto].
  - (* cancel not started *)
    constructor; cbn; try assumption. split; [reflexivity|eauto].
  - (* status *)
    assert (Hnone : c_exc c = None).
    { destruct (c_exc c) eqn:E; [|reflexivity].
      assert (failedish (c_status c) = true) by (apply Iexc; eauto).
      destruct (c_status c); cbn in *; congruence. }
    constructor; cbn; try assumption.
    rewrite Hnone. split; [intros [e He]; discriminate|].
    destruct H0 as [-> | ->]; discriminate.
  - (* ann owing *)
    constructor; cbn; try assumption.
    + intros b. ann_cases a b Hne; [|apply Icl].
      split; [|discriminate]. intros Hb. apply Icl in Hb. congruence.
    + intros b. ann_cases a b Hne; [|apply Icb].
      split; [|discriminate]. intros Hb. apply Icb in Hb. congruence.
    + intros b p. ann_cases a b Hne; [intros [= <-]; lia|apply Iev].
    + intros b p. ann_cases a b Hne; [intros [= <-]; lia|apply Iph].
  - (* ann begin *)
    constructor; cbn; try assumption.
    + intros b. ann_cases a b Hne; [|apply Icl].
      split; [|discriminate]. intros Hb. apply Icl in Hb. congruence.
    + intros b. ann_cases a b Hne; [|apply Icb].
      split; [|discriminate]. intros Hb. apply Icb in Hb. congruence.
    + intros b p. ann_cases a b Hne; [intros [= <-]; lia|apply Iev].
    + intros b p. ann_cases a b Hne; [intros [= <-]; lia|apply Iph].
  - (* cleanups begin *)
    constructor; cbn; try assumption.
    + intros b. ann_cases a b Hne; [tauto|].
      split; [intros [= <-]; contradiction|].
      intros Hb. apply Icl in Hb. congruence.
    + intros b. ann_cases a b Hne; [|apply Icb].
      split; [|discriminate]. intros Hb. apply Icb in Hb. congruence.
    + intros b p. ann_cases a b Hne; [intros [= <-]; lia|apply Iev].
    + intros b p. ann_cases a b Hne; [intros [= <-]; lia|apply Iph].
  - (* cleanups end *)
    constructor; cbn; try assumption.
    + intros b. ann_cases a b Hne; [split; discriminate|].
      split; [discriminate|]. intros Hb. apply Icl in Hb. congruence.
    + intros b. ann_cases a b Hne; [|apply Icb].
      split; [|discriminate]. intros Hb. apply Icb in Hb. congruence.
    + intros b p. ann_cases a b Hne; [intros [= <-]; lia|apply Iev].
    + intros b p. ann_cases a b Hne; [intros [= <-]; lia|apply Iph].
  - (* event set *)
    constructor; cbn; try assumption; try (intros; reflexivity).
    + intros b. ann_cases a b Hne; [|apply Icl].
      split; [|discriminate]. intros Hb. apply Icl in Hb. destruct H0 as [-> | [-> _]]; congruence.
    + intros b. ann_cases a b Hne; [|apply Icb].
      split; [|discriminate]. intros Hb. apply Icb in Hb. destruct H0 as [-> | [-> _]]; congruence.
    + intros b q. ann_cases a b Hne; [intros [= <-]; lia|apply Iph].
  - (* callbacks begin *)
    constructor; cbn; try assumption.
    + intros b. ann_cases a b Hne; [|apply Icl].
      split; [|discriminate]. intros Hb. apply Icl in Hb. congruence.
    + intros b. ann_cases a b Hne; [tauto|].
      split; [intros [= <-]; contradiction|]. intros Hb. apply Icb in Hb. congruence.
    + intros b p. ann_cases a b Hne; [intros _ _; eapply Iev; [exact H|lia]|apply Iev].
    + intros b p. ann_cases a b Hne; [intros [= <-]; lia|apply Iph].
  - (* callback *)
    constructor; cbn; try assumption.
    + rewrite H0 in Ind. now apply NoDup_move.
    + intros _. apply Icb in H. eapply Iev; [exact H|lia].
  - (* callbacks end *)
    constructor; cbn; try assumption.
    + intros b. ann_cases a b Hne; [|apply Icl].
      split; [|discriminate]. intros Hb. apply Icl in Hb. congruence.
    + intros b. ann_cases a b Hne; [split; discriminate|].
      split; [discriminate|]. intros Hb. apply Icb in Hb. congruence.
    + intros b p. ann_cases a b Hne; [intros _ _; eapply Iev; [exact H0|lia]|apply Iev].
    + intros b p. ann_cases a b Hne; [intros [= <-]; lia|apply Iph].
  - (* ann end *)
    constructor; cbn; try assumption.
    + intros b. ann_cases a b Hne; [|apply Icl].
      split; [|discriminate]. intros Hb. apply Icl in Hb. congruence.
    + intros b. ann_cases a b Hne; [|apply Icb].
      split; [|discriminate]. intros Hb. apply Icb in Hb. congruence.
    + intros b p. ann_cases a b Hne; [discriminate|apply Iev].
    + intros b p. ann_cases a b Hne; [discriminate|apply Iph].
Qed.

(** ** Lifted to the system *)
Definition coords_inv (s : state) : Prop :=
  forall t c, find_coord t (coords s) = Some c -> cinv c.

Lemma coords_inv_step s e s' : coords_inv s -> step s e = Some s' -> coords_inv s'.
Proof.
  intros I H t c' Hc'. apply step_coords_step in H as [Hold Hnew].
  destruct (find_coord t (coords s)) as [c|] eqn:E.
  - destruct (Hold t c E) as (c'' & Hc'' & Hcs). rewrite Hc' in Hc''. injection Hc'' as <-.
    eapply cinv_cstep; [eapply I; exact E|exact Hcs].
  - rewrite (Hnew t c' Hc' E). apply cinv_fresh.
Qed.

Lemma coords_inv_init a b c d e f g h : coords_inv (init a b c d e f g h).
Proof. intros t x H. discriminate H. Qed.

Theorem coords_inv_reachable a b c d e f g h s :
  reachable (init a b c d e f g h) s -> coords_inv s.
Proof.
  apply invariant_reachable; [apply coords_inv_init|].
  intros s0 ev s1 I H. eapply coords_inv_step; eauto.
Qed.

(** done is monotone along every execution, per transfer *)
Lemma done_monotone_step s e s' t c c' :
  step s e = Some s' -> find_coord t (coords s) = Some c -> find_coord t (coords s') = Some c' ->
  is_done (c_status c) = true -> is_done (c_status c') = true.
Proof.
  intros H Hc Hc' Hd. apply step_coords_step in H as [Hold _].
  destruct (Hold t c Hc) as (c'' & Hc'' & Hcs). rewrite Hc' in Hc''. injection Hc'' as <-.
  eapply done_monotone_cstep; eauto.
Qed.

Lemma coord_persists_step s e s' t c :
  step s e = Some s' -> find_coord t (coords s) = Some c ->
  exists c', find_coord t (coords s') = Some c' /\ cstep c c'.
Proof. intros H Hc. apply step_coords_step in H as [Hold _]. now apply Hold. Qed.

Theorem done_monotone_run tr : forall s s' t c c',
  run s tr = Some s' -> find_coord t (coords s) = Some c -> find_coord t (coords s') = Some c' ->
  is_done (c_status c) = true -> is_done (c_status c') = true.
Proof.
  induction tr as [|e r IH]; intros s s' t c c' Hr Hc Hc' Hd; cbn [run] in Hr.
  - injection Hr as <-. congruence.
  - destruct (step s e) as [s1|] eqn:E; [|discriminate].
    destruct (coord_persists_step _ _ _ _ _ E Hc) as (c1 & Hc1 & Hcs).
    eapply IH; [exact Hr|exact Hc1|exact Hc'|].
    eapply done_monotone_cstep; eauto.
Qed.
