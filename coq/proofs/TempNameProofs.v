From Coq Require Import List Arith Lia.
From S3V Require Import model.TempName.
Import ListNotations.

Section Proofs.
  Context {A : Type}.
  Implicit Types name suffix : list A.

  Lemma temp_name_length L name suffix :
    length suffix <= L -> length (temp_name L name suffix) <= L.
  Proof.
    intros Hs. unfold temp_name. rewrite app_length, firstn_length. lia.
  Qed.

  Lemma temp_name_shape L name suffix :
    exists p, temp_name L name suffix = p ++ suffix /\ p = firstn (L - length suffix) name.
  Proof. eexists; split; reflexivity. Qed.

  Lemma firstn_short n (l : list A) : length l <= n -> firstn n l = l.
  Proof. intros H. apply firstn_all2. exact H. Qed.

  (** The temporary name coincides with the destination name only in one
      corner: the name is exactly [L] long and already ends with the suffix. *)
  Lemma temp_name_eq_name L name suffix :
    suffix <> [] -> length suffix <= L ->
    temp_name L name suffix = name ->
    length name = L /\ exists p, name = p ++ suffix.
  Proof.
    intros Hne Hs Heq. unfold temp_name in Heq.
    assert (Hlen : length (firstn (L - length suffix) name ++ suffix) = length name) by (rewrite Heq; reflexivity).
    rewrite app_length, firstn_length in Hlen.
    assert (Hpos : 0 < length suffix) by (destruct suffix; [contradiction | simpl; lia]).
    split.
    - lia.
    - exists (firstn (L - length suffix) name). symmetry. exact Heq.
  Qed.

  (** Hence: distinct whenever the destination name is shorter than the limit, or
      does not end with the (random) suffix. *)
  Lemma temp_name_distinct_short L name suffix :
    suffix <> [] -> length suffix <= L -> length name <> L -> temp_name L name suffix <> name.
  Proof.
    intros Hne Hs Hl Heq. destruct (temp_name_eq_name L name suffix Hne Hs Heq) as [H _]. contradiction.
  Qed.

  Lemma temp_name_distinct_suffix L name suffix :
    suffix <> [] -> length suffix <= L -> (forall p, name <> p ++ suffix) -> temp_name L name suffix <> name.
  Proof.
    intros Hne Hs Hno Heq. destruct (temp_name_eq_name L name suffix Hne Hs Heq) as [_ [p Hp]].
    exact (Hno p Hp).
  Qed.

  (** The destination's name is kept as far as the limit allows. *)
  Lemma temp_name_prefix L name suffix :
    length name + length suffix <= L -> temp_name L name suffix = name ++ suffix.
  Proof.
    intros H. unfold temp_name. rewrite firstn_short by lia. reflexivity.
  Qed.
End Proofs.

(** What a cut "after" the concatenation would do (the shape [(name ++ suffix)[:L]]):
    for a name of exactly [L] characters it returns the name itself. *)
Definition cut_after {A} (L : nat) (name suffix : list A) : list A := firstn L (name ++ suffix).

Lemma cut_after_collides : exists (L : nat) (name suffix : list nat),
  suffix <> [] /\ length suffix <= L /\ (forall p, name <> p ++ suffix) /\ cut_after L name suffix = name.
Proof.
  exists 3, [1; 2; 3], [9]. repeat split; try discriminate; try (simpl; lia).
  intros p H. destruct p as [|a [|b [|c [|d p]]]]; simpl in H; try discriminate.
Qed.

Lemma temp_name_example :
  temp_name 5 [1; 2; 3; 4; 5] [8; 9] = [1; 2; 3; 8; 9] /\ length (temp_name 5 [1; 2; 3; 4; 5] [8; 9]) <= 5.
Proof. split; [reflexivity | simpl; lia]. Qed.
