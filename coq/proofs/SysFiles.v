(** The temporary file of a download to a path (C06) and the counting view of
    the in-memory bounds (C11), for every reachable state of [model/Sys.v].

    Part A: the [files] store: event-indexed per-file step relation [fstepE],
            guard inversion of [EFs], frame, per-file invariant [finv].
    Part B: F1 (only the rename publishes, once); who renamed ([renamer_inv]);
            every KIOFinal task is final ([iofinal_final], from the kind guard
            of ESubmit); F2/F5 (no writer after publication, writes frozen);
            F3 (success: renamed before set_result; what is provable about
            temp files at done on failure); F4 (no publication once an
            announce began: [done_file_frozen]).
    Part C: C11: permits of IO tasks, tag semaphores, one pending child per
            submitter.
    Part D: F2/F5 strong form (every IO write task of a published download
            completed its main), with SysStage's single-IO-worker FIFO lemma. *)
From Coq Require Import ZArith List Bool Lia.
From S3V Require Import model.Sys proofs.SysBase proofs.SysCoord proofs.SysCoordInv proofs.SysTask proofs.SysQuiesce.
From S3V Require proofs.SysStage.
Import ListNotations.
Open Scope Z_scope.

(* ================================================================== *)
(** * Part A.  The file store *)

Lemma find_file_upd t t' g l :
  (forall x, f_t (g x) = f_t x) ->
  find_file t (upd_file t' g l) = if t =? t' then option_map g (find_file t l) else find_file t l.
Proof.
  intros Hid. induction l as [|x r IH]; cbn [upd_file map find_file].
  - now destruct (t =? t').
  - change (map _ r) with (upd_file t' g r).
    destruct (f_t x =? t') eqn:E1.
    + rewrite Hid. destruct (f_t x =? t) eqn:E2.
      * assert (E3 : t =? t' = true) by lia. now rewrite E3.
      * exact IH.
    + destruct (f_t x =? t) eqn:E2.
      * assert (E3 : t =? t' = false) by lia. now rewrite E3.
      * exact IH.
Qed.

Lemma find_file_app t l x :
  find_file t (l ++ [x]) =
  match find_file t l with Some f => Some f | None => if f_t x =? t then Some x else None end.
Proof.
  induction l as [|y r IH]; cbn [app find_file]; [reflexivity|].
  destruct (f_t y =? t); [reflexivity|exact IH].
Qed.

Lemma find_file_some_id t l f : find_file t l = Some f -> f_t f = t.
Proof.
  induction l as [|y r IH]; cbn [find_file]; [discriminate|].
  destruct (f_t y =? t) eqn:E; [intros [= <-]; lia|exact IH].
Qed.

(** the roles an actor can have towards the file of transfer [t] *)
Definition io_writer (s : state) (a t : Z) : Prop :=
  exists x, find_task a (tasks s) = Some x /\ k_t x = t /\ k_st x = TMain /\ k_kind x = KIOWrite.
Definition io_finalizer (s : state) (a t : Z) : Prop :=
  exists x, find_task a (tasks s) = Some x /\ k_t x = t /\ k_st x = TMain /\ k_kind x = KIOFinal.
Definition cleaner (s : state) (a t : Z) : Prop :=
  exists c, find_coord t (coords s) = Some c /\ c_cl_runner c = Some a.

(** the five effects *)
Definition f_new (t : Z) : filest := mkFile t true true false false 0 false 0.
Definition f_write (x : filest) : filest :=
  mkFile (f_t x) (f_exists x) (f_open x) (f_renamed x) (f_removed x) (f_writes x + 1)
         (f_write_after_close x) (f_renames x).
Definition f_close (x : filest) : filest :=
  mkFile (f_t x) (f_exists x) false (f_renamed x) (f_removed x) (f_writes x)
         (f_write_after_close x) (f_renames x).
Definition f_rename (x : filest) : filest :=
  mkFile (f_t x) false false true (f_removed x) (f_writes x) (f_write_after_close x) (f_renames x + 1).
Definition f_remove (x : filest) : filest :=
  mkFile (f_t x) false (f_open x) (f_renamed x) (f_exists x || f_removed x) (f_writes x)
         (f_write_after_close x) (f_renames x).

(** guard inversion of the file-system event *)
Lemma efs_inv s a t op s' :
  step s (EFs a t op) = Some s' ->
  busy s a = false /\ tasks s' = tasks s /\ coords s' = coords s /\
  match op, find_file t (files s) with
  | FOpen, None => io_writer s a t /\ files s' = files s ++ [f_new t]
  | FOpen, Some _ => False
  | FWrite, Some f => io_writer s a t /\ f_open f = true /\ files s' = upd_file t f_write (files s)
  | FClose, Some f => (io_finalizer s a t \/ cleaner s a t) /\ files s' = upd_file t f_close (files s)
  | FRename, Some f => io_finalizer s a t /\ f_open f = false /\ f_exists f = true /\
                       files s' = upd_file t f_rename (files s)
  | FRemove, Some f => cleaner s a t /\ files s' = upd_file t f_remove (files s)
  | FRemove, None => cleaner s a t /\ files s' = files s
  | _, None => False
  end.
Proof.
  intros H. cbn [step] in H. apply busy_false_of_if in H as [Hb H]. split; [exact Hb|].
  assert (W : forall kd,
    match find_task a (tasks s) with
    | Some x => (k_t x =? t) && tst_eqb (k_st x) TMain && (k_kind x =? kd)
    | None => false
    end = true ->
    exists x, find_task a (tasks s) = Some x /\ k_t x = t /\ k_st x = TMain /\ k_kind x = kd).
  { intros kd Hw. destruct (find_task a (tasks s)) as [x|]; [|discriminate]. split_ands.
    exists x. repeat split; try lia. now apply tst_eqb_true. }
  assert (C :
    match find_coord t (coords s) with
    | Some c => match c_cl_runner c with Some b => b =? a | None => false end
    | None => false
    end = true -> cleaner s a t).
  { intros Hc. destruct (find_coord t (coords s)) as [c|] eqn:Ec; [|discriminate].
    destruct (c_cl_runner c) as [b|] eqn:Eb; [|discriminate]. exists c. split; [exact Ec|].
    assert (b = a) by lia. now subst b. }
  destruct op; destruct (find_file t (files s)) as [f|] eqn:Ef; try discriminate H.
  - (* open *)
    destruct (match find_task a (tasks s) with Some _ => _ | None => _ end) eqn:Ew in H; [|discriminate].
    injection H as <-. cbn [tasks coords files set_files]. rewrite bump_tasks, bump_coords.
    repeat split; auto. apply (W KIOWrite Ew).
  - (* write *)
    destruct (_ && f_open f) eqn:Eg in H; [|discriminate]. apply andb_prop in Eg as [Ew Eo].
    injection H as <-. cbn [tasks coords files set_files]. rewrite bump_tasks, bump_coords.
    repeat split; auto. apply (W KIOWrite Ew).
  - (* close *)
    destruct (_ || _) eqn:Eg in H; [|discriminate].
    injection H as <-. cbn [tasks coords files set_files]. rewrite bump_tasks, bump_coords.
    repeat split; auto. apply orb_prop in Eg as [Eg|Eg]; [left; apply (W KIOFinal Eg)|right; apply (C Eg)].
  - (* rename *)
    destruct (_ && f_exists f) eqn:Eg in H; [|discriminate]. apply andb_prop in Eg as [Eg Ee].
    apply andb_prop in Eg as [Ew Eo]. apply negb_true_iff in Eo.
    injection H as <-. cbn [tasks coords files set_files]. rewrite bump_tasks, bump_coords.
    repeat split; auto. apply (W KIOFinal Ew).
  - (* remove, record *)
    destruct (match find_coord t (coords s) with Some _ => _ | None => _ end) eqn:Ec in H; [|discriminate].
    injection H as <-. cbn [tasks coords files set_files]. rewrite bump_tasks, bump_coords.
    repeat split; auto.
  - (* remove, no record *)
    destruct (match find_coord t (coords s) with Some _ => _ | None => _ end) eqn:Ec in H; [|discriminate].
    injection H as <-. rewrite bump_tasks, bump_coords, bump_files. repeat split; auto.
Qed.

(** every other event leaves the file store alone *)
Lemma step_files_frame s e s' :
  step s e = Some s' -> match e with EFs _ _ _ => True | _ => files s' = files s end.
Proof.
  intros H. destruct e; try exact I; frame_tac H;
    cbn [files set_coords set_tasks set_sems set_shutdown set_reqs set_uploads];
    rewrite ?set_stage_files, ?bump_files;
    cbn [files set_coords set_tasks set_sems set_shutdown set_reqs set_uploads];
    rewrite ?bump_files; try reflexivity.
Qed.

(** ** the per-file step relation *)
Inductive fstepE (s : state) (t : Z) : event -> filest -> filest -> Prop :=
  | fe_refl e f : fstepE s t e f f
  | fe_write a f : busy s a = false -> io_writer s a t -> f_open f = true ->
      fstepE s t (EFs a t FWrite) f (f_write f)
  | fe_close a f : busy s a = false -> io_finalizer s a t \/ cleaner s a t ->
      fstepE s t (EFs a t FClose) f (f_close f)
  | fe_rename a f : busy s a = false -> io_finalizer s a t -> f_open f = false -> f_exists f = true ->
      fstepE s t (EFs a t FRename) f (f_rename f)
  | fe_remove a f : busy s a = false -> cleaner s a t ->
      fstepE s t (EFs a t FRemove) f (f_remove f).

Lemma file_origin s e s' t f' :
  step s e = Some s' -> find_file t (files s') = Some f' ->
  (exists f, find_file t (files s) = Some f /\ fstepE s t e f f') \/
  (find_file t (files s) = None /\
   exists a, e = EFs a t FOpen /\ io_writer s a t /\ busy s a = false /\ f' = f_new t).
Proof.
  intros H Hf'. pose proof (step_files_frame _ _ _ H) as Hfr.
  destruct e; try (rewrite Hfr in Hf'; left; exists f'; split; [exact Hf'|constructor]).
  clear Hfr. destruct (efs_inv _ _ _ _ _ H) as (Hb & _ & _ & Hm).
  destruct (Z.eq_dec t0 t) as [->|Hne].
  - destruct op; destruct (find_file t (files s)) as [f|] eqn:Ef; try contradiction.
    + destruct Hm as [Hw Hfs]. right. split; [reflexivity|]. exists a.
      rewrite Hfs, find_file_app, Ef in Hf'. cbn [f_t f_new] in Hf'. rewrite Z.eqb_refl in Hf'.
      injection Hf' as <-. auto.
    + destruct Hm as (Hw & Ho & Hfs). left. exists f. split; [reflexivity|].
      rewrite Hfs, find_file_upd, Z.eqb_refl, Ef in Hf' by reflexivity. injection Hf' as <-. now constructor.
    + destruct Hm as (Hw & Hfs). left. exists f. split; [reflexivity|].
      rewrite Hfs, find_file_upd, Z.eqb_refl, Ef in Hf' by reflexivity. injection Hf' as <-. now constructor.
    + destruct Hm as (Hw & Ho & He & Hfs). left. exists f. split; [reflexivity|].
      rewrite Hfs, find_file_upd, Z.eqb_refl, Ef in Hf' by reflexivity. injection Hf' as <-. now constructor.
    + destruct Hm as (Hw & Hfs). left. exists f. split; [reflexivity|].
      rewrite Hfs, find_file_upd, Z.eqb_refl, Ef in Hf' by reflexivity. injection Hf' as <-. now constructor.
    + destruct Hm as (Hw & Hfs). rewrite Hfs, Ef in Hf'. discriminate.
  - (* an event on the file of another transfer *)
    left. exists f'. split; [|constructor].
    assert (E : t =? t0 = false) by lia.
    destruct op; destruct (find_file t0 (files s)) as [f0|] eqn:Ef0; try contradiction.
    + destruct Hm as [_ Hfs]. rewrite Hfs, find_file_app in Hf'.
      destruct (find_file t (files s)) as [f|]; [exact Hf'|].
      cbn [f_t f_new] in Hf'. assert (E2 : t0 =? t = false) by lia. rewrite E2 in Hf'. discriminate.
    + destruct Hm as (_ & _ & Hfs). now rewrite Hfs, find_file_upd, E in Hf' by reflexivity.
    + destruct Hm as (_ & Hfs). now rewrite Hfs, find_file_upd, E in Hf' by reflexivity.
    + destruct Hm as (_ & _ & _ & Hfs). now rewrite Hfs, find_file_upd, E in Hf' by reflexivity.
    + destruct Hm as (_ & Hfs). now rewrite Hfs, find_file_upd, E in Hf' by reflexivity.
    + destruct Hm as (_ & Hfs). now rewrite Hfs in Hf'.
Qed.

Lemma file_persists s e s' t f :
  step s e = Some s' -> find_file t (files s) = Some f ->
  exists f', find_file t (files s') = Some f' /\ fstepE s t e f f'.
Proof.
  intros H Hf. pose proof (step_files_frame _ _ _ H) as Hfr.
  destruct e; try (rewrite Hfr; exists f; split; [exact Hf|constructor]).
  clear Hfr. destruct (efs_inv _ _ _ _ _ H) as (Hb & _ & _ & Hm).
  destruct (Z.eq_dec t0 t) as [->|Hne].
  - rewrite Hf in Hm. destruct op; try contradiction.
    + destruct Hm as (Hw & Ho & Hfs). exists (f_write f).
      rewrite Hfs, find_file_upd, Z.eqb_refl, Hf by reflexivity. split; [reflexivity|now constructor].
    + destruct Hm as (Hw & Hfs). exists (f_close f).
      rewrite Hfs, find_file_upd, Z.eqb_refl, Hf by reflexivity. split; [reflexivity|now constructor].
    + destruct Hm as (Hw & Ho & He & Hfs). exists (f_rename f).
      rewrite Hfs, find_file_upd, Z.eqb_refl, Hf by reflexivity. split; [reflexivity|now constructor].
    + destruct Hm as (Hw & Hfs). exists (f_remove f).
      rewrite Hfs, find_file_upd, Z.eqb_refl, Hf by reflexivity. split; [reflexivity|now constructor].
  - exists f. split; [|constructor]. assert (E : t =? t0 = false) by lia.
    destruct op; destruct (find_file t0 (files s)) as [f0|] eqn:Ef0; try contradiction.
    + destruct Hm as [_ Hfs]. now rewrite Hfs, find_file_app, Hf.
    + destruct Hm as (_ & _ & Hfs). now rewrite Hfs, find_file_upd, E by reflexivity.
    + destruct Hm as (_ & Hfs). now rewrite Hfs, find_file_upd, E by reflexivity.
    + destruct Hm as (_ & _ & _ & Hfs). now rewrite Hfs, find_file_upd, E by reflexivity.
    + destruct Hm as (_ & Hfs). now rewrite Hfs, find_file_upd, E by reflexivity.
    + destruct Hm as (_ & Hfs). now rewrite Hfs.
Qed.

(** a record never disappears; a missing record stays missing unless an IO
    write task opens the file *)
Lemma file_none_back s e s' t :
  step s e = Some s' -> find_file t (files s') = None -> find_file t (files s) = None.
Proof.
  intros H Hn. destruct (find_file t (files s)) as [f|] eqn:Ef; [|reflexivity].
  destruct (file_persists _ _ _ _ _ H Ef) as (f' & Hf' & _). congruence.
Qed.

(** ** the invariant of one file record *)
Record finv (t : Z) (f : filest) : Prop := {
  fi_t : f_t f = t;
  fi_ex : f_exists f = true -> f_renamed f = false /\ f_removed f = false;
  fi_ren_open : f_renamed f = true -> f_open f = false;
  fi_renames : f_renames f = if f_renamed f then 1 else 0;
  fi_rm : f_removed f = true -> f_exists f = false;
  fi_wac : f_write_after_close f = false
}.

Lemma finv_new t : finv t (f_new t).
Proof. constructor; cbn; auto; discriminate. Qed.

Lemma finv_step s t e f f' : finv t f -> fstepE s t e f f' -> finv t f'.
Proof.
  intros [I1 I2 I3 I4 I6 I5] H. destruct H; constructor; cbn; auto; try discriminate.
  match goal with He : f_exists f = true |- _ => destruct (I2 He) as [Hr _]; rewrite Hr in I4; lia end.
Qed.

Definition files_inv (s : state) : Prop :=
  forall t f, find_file t (files s) = Some f -> finv t f.

Lemma files_inv_step s e s' : files_inv s -> step s e = Some s' -> files_inv s'.
Proof.
  intros I H t f' Hf'.
  destruct (file_origin _ _ _ _ _ H Hf') as [(f & Hf & Hfs)|(_ & a & _ & _ & _ & ->)].
  - eapply finv_step; [eapply I; exact Hf|exact Hfs].
  - apply finv_new.
Qed.

Lemma files_inv_reachable a b c d e f g h s : reachable (init a b c d e f g h) s -> files_inv s.
Proof.
  apply invariant_reachable; [intros t x Hx; discriminate|].
  intros s0 ev s1 I H. eapply files_inv_step; eauto.
Qed.

(** ** monotone facts about one record *)
Lemma renamed_mono s t e f f' : fstepE s t e f f' -> f_renamed f = true -> f_renamed f' = true.
Proof. intros H Hr. destruct H; cbn; auto. Qed.

Lemma not_exists_mono s t e f f' : fstepE s t e f f' -> f_exists f = false -> f_exists f' = false.
Proof. intros H Hr. destruct H; cbn; auto. Qed.

Lemma removed_mono s t e f f' : fstepE s t e f f' -> f_removed f = true -> f_removed f' = true.
Proof. intros H Hr. destruct H; cbn; auto. rewrite Hr. apply orb_true_r. Qed.

(** the view used by the statements *)
Definition published (s : state) (t : Z) : bool :=
  match find_file t (files s) with Some f => f_renamed f | None => false end.
Definition temp_exists (s : state) (t : Z) : bool :=
  match find_file t (files s) with Some f => f_exists f | None => false end.
Definition writes_of (s : state) (t : Z) : Z :=
  match find_file t (files s) with Some f => f_writes f | None => 0 end.

Lemma published_step s e s' t : step s e = Some s' -> published s t = true -> published s' t = true.
Proof.
  unfold published. intros H. destruct (find_file t (files s)) as [f|] eqn:Ef; [|discriminate].
  destruct (file_persists _ _ _ _ _ H Ef) as (f' & -> & Hfs). eapply renamed_mono; eauto.
Qed.

Lemma published_run tr : forall s s2 t, run s tr = Some s2 -> published s t = true -> published s2 t = true.
Proof.
  induction tr as [|e tr IH]; intros s s2 t Hr Hp; cbn [run] in Hr.
  - now injection Hr as <-.
  - destruct (step s e) as [s1|] eqn:Es; [|discriminate]. eapply IH; [exact Hr|]. eapply published_step; eauto.
Qed.

(* ================================================================== *)
(** * Part B.  Publication, writers, temp files *)

(** an invariant along a run, with a side condition known at every prefix *)
Lemma run_invariant_under (Q P : state -> Prop) s :
  (forall tr1 s1, run s tr1 = Some s1 -> Q s1) -> P s ->
  (forall s1 e s1', Q s1 -> P s1 -> step s1 e = Some s1' -> P s1') ->
  forall tr s2, run s tr = Some s2 -> P s2.
Proof.
  intros HQ HP Hstep tr. revert s HQ HP.
  induction tr as [|e tr IH]; intros s HQ HP s2 Hr; cbn [run] in Hr.
  - now injection Hr as <-.
  - destruct (step s e) as [s1|] eqn:Es; [|discriminate].
    apply (IH s1); [| |exact Hr].
    + intros tr1 s1' Hr1. apply (HQ (e :: tr1)). cbn [run]. now rewrite Es.
    + eapply Hstep; [apply (HQ []); reflexivity|exact HP|exact Es].
Qed.

Lemma reachable_run s0 s tr s2 : reachable s0 s -> run s tr = Some s2 -> reachable s0 s2.
Proof. intros [tr0 H0] Hr. exists (tr0 ++ tr). now rewrite run_app, H0. Qed.

(** ** F1: only the rename publishes *)
Lemma publish_only_by_rename s e s' t :
  step s e = Some s' -> published s t = false -> published s' t = true ->
  exists a F, e = EFs a t FRename /\ busy s a = false /\
    find_task a (tasks s) = Some F /\ k_t F = t /\ k_st F = TMain /\ k_kind F = KIOFinal.
Proof.
  unfold published. intros H Hp Hp'.
  destruct (find_file t (files s')) as [f'|] eqn:Ef'; [|discriminate].
  destruct (file_origin _ _ _ _ _ H Ef') as [(f & Hf & Hfs)|(_ & a & _ & _ & _ & ->)]; [|discriminate].
  rewrite Hf in Hp. destruct Hfs; cbn in Hp'; try congruence.
  match goal with Hfin : io_finalizer _ _ _ |- _ => destruct Hfin as (F & HF & Ht & Hst & Hk) end.
  exists a, F. auto 10.
Qed.

Theorem renames_at_most_one a b c d e0 f0 g h s t f :
  reachable (init a b c d e0 f0 g h) s -> find_file t (files s) = Some f ->
  f_renames f = (if f_renamed f then 1 else 0) /\ f_renames f <= 1 /\
  (f_renamed f = true -> f_exists f = false /\ f_open f = false).
Proof.
  intros R Hf. destruct (files_inv_reachable _ _ _ _ _ _ _ _ _ R t f Hf) as [_ I2 I3 I4 _ _].
  split; [exact I4|]. split; [rewrite I4; destruct (f_renamed f); lia|].
  intros Hr. split; [|auto]. destruct (f_exists f) eqn:Ee; [|reflexivity].
  destruct (I2 eq_refl). congruence.
Qed.

Lemma final_inv_reachable a b c d e0 f0 g h s : reachable (init a b c d e0 f0 g h) s -> final_inv s.
Proof.
  apply invariant_reachable; [intros kf f k x Hf; discriminate|].
  intros s1 ev s2 I H. eapply final_inv_step; eauto.
Qed.

(** a transfer has at most one final task (from the [no_final_yet] guard) *)
Theorem final_task_unique a b c d e0 f0 g h s k1 x1 k2 x2 :
  reachable (init a b c d e0 f0 g h) s ->
  find_task k1 (tasks s) = Some x1 -> find_task k2 (tasks s) = Some x2 ->
  k_final x1 = true -> k_final x2 = true -> k_t x1 = k_t x2 -> k1 = k2.
Proof.
  intros R H1 H2 F1 F2 Ht. destruct (Z.eq_dec k1 k2) as [E|Hne]; [exact E|exfalso].
  destruct (final_inv_reachable _ _ _ _ _ _ _ _ _ R k2 x2 k1 x1 H2 H1 F2 Ht Hne) as [Hn _]. congruence.
Qed.

(** ** who renamed: a task of kind KIOFinal that has reached its main *)
Definition at_or_after_main (v : tst) : bool :=
  match v with TMain | TFailed | TPost | TAnn | TAnnDone | TEnded => true | _ => false end.

Lemma at_or_after_main_step s e x x' :
  tstepE s e x x' -> at_or_after_main (k_st x) = true -> at_or_after_main (k_st x') = true.
Proof.
  intros H Hs. destruct H; cbn; auto;
    try (match goal with Hq : k_st _ = _ |- _ => rewrite Hq in Hs; discriminate end).
Qed.

(** a task in its main (or whose main raised) has [k_ran_main]; the flag stays *)
Definition ran_inv (s : state) : Prop :=
  forall k x, find_task k (tasks s) = Some x -> k_st x = TMain \/ k_st x = TFailed -> k_ran_main x = true.

Lemma ran_inv_step s e s' : ran_inv s -> step s e = Some s' -> ran_inv s'.
Proof.
  intros I H k x' Hx' Hst.
  destruct (task_origin _ _ _ _ _ H Hx') as [(x & Hx & Hts)|(_ & t & g & a & fin & deps & kind & _ & ->)].
  2:{ cbn in Hst. destruct (stage_eqb g SInline); destruct Hst; discriminate. }
  pose proof (I k x Hx) as Hold.
  destruct Hts; cbn [k_st k_ran_main with_st with_flags with_phase with_permit with_assoc with_released] in *;
    auto; try (destruct Hst; discriminate).
Qed.

Lemma ran_inv_reachable a b c d e0 f0 g h s : reachable (init a b c d e0 f0 g h) s -> ran_inv s.
Proof.
  apply invariant_reachable; [intros k x Hx; discriminate|].
  intros s1 ev s2 I H. eapply ran_inv_step; eauto.
Qed.

Lemma ran_main_keeps s e x x' :
  tstepE s e x x' -> at_or_after_main (k_st x) = true -> k_ran_main x = true -> k_ran_main x' = true.
Proof.
  intros H Hs Hr. destruct H; cbn; auto;
    try (match goal with Hq : k_st _ = _ |- _ => rewrite Hq in Hs; discriminate end).
Qed.

Definition renamer_inv (s : state) : Prop :=
  forall t f, find_file t (files s) = Some f -> f_renamed f = true ->
  exists kf F, find_task kf (tasks s) = Some F /\ k_t F = t /\ k_kind F = KIOFinal /\
               at_or_after_main (k_st F) = true /\ k_ran_main F = true.

Lemma renamer_inv_step s e s' : ran_inv s -> renamer_inv s -> step s e = Some s' -> renamer_inv s'.
Proof.
  intros RI I H t f' Hf' Hr.
  assert (Keep : forall kf F, find_task kf (tasks s) = Some F -> k_t F = t -> k_kind F = KIOFinal ->
            at_or_after_main (k_st F) = true -> k_ran_main F = true ->
            exists kf' F', find_task kf' (tasks s') = Some F' /\ k_t F' = t /\ k_kind F' = KIOFinal /\
                           at_or_after_main (k_st F') = true /\ k_ran_main F' = true).
  { intros kf F HF Ht Hk Hs Hran. destruct (task_persists _ _ _ _ _ H HF) as (F' & HF' & Hts). statics Hts.
    exists kf, F'. repeat split; try congruence; [eapply at_or_after_main_step|eapply ran_main_keeps]; eauto. }
  destruct (file_origin _ _ _ _ _ H Hf') as [(f & Hf & Hfs)|(_ & a & _ & _ & _ & ->)]; [|discriminate Hr].
  destruct (f_renamed f) eqn:Er.
  - destruct (I t f Hf Er) as (kf & F & HF & Ht & Hk & Hs & Hran). eapply Keep; eauto.
  - destruct Hfs; cbn in Hr; try congruence.
    match goal with Hfin : io_finalizer _ _ _ |- _ => destruct Hfin as (F & HF & Ht & Hst & Hk) end.
    apply (Keep a F HF Ht Hk); [now rewrite Hst|apply (RI a F HF); now left].
Qed.

Lemma renamer_inv_reachable a b c d e0 f0 g h s : reachable (init a b c d e0 f0 g h) s -> renamer_inv s.
Proof.
  apply (invariant_reachable2 ran_inv); [apply ran_inv_reachable|intros t x Hx; discriminate|].
  intros s1 ev s2 Q I H. eapply renamer_inv_step; eauto.
Qed.

(** ** guard inversions for the kind guards of [ESubmit] / [ESetResult] *)
Lemma submit_kind_inv s a k t g final deps kind s' :
  step s (ESubmit a k t g final deps kind) = Some s' ->
  (kind = KIOFinal -> final = true) /\
  (kind = KIOWrite -> exists p, find_task a (tasks s) = Some p /\ k_st p = TMain /\ k_kind p = KGet).
Proof.
  intros H. cbn [step] in H. inv H. clear H. split_ands.
  match goal with Hk : negb (kind =? KIOFinal) || final = true |- _ => rename Hk into HK1 end.
  match goal with Hk : negb (kind =? KIOWrite) || _ = true |- _ => rename Hk into HK2 end.
  split.
  - intros ->. exact HK1.
  - intros ->. cbn [negb Z.eqb KIOWrite Pos.eqb orb] in HK2.
    destruct (find_task a (tasks s)) as [p|]; [|discriminate]. apply andb_prop in HK2 as [Hst Hk].
    exists p. split; [reflexivity|]. split; [now apply tst_eqb_true|lia].
Qed.

Lemma setresult_inv s k s' :
  step s (ESetResult k) = Some s' ->
  exists x, find_task k (tasks s) = Some x /\ k_st x = TMain /\ k_final x = true /\
    files s' = files s /\ tasks s' = tasks s /\
    (k_kind x = KIOFinal -> forall f, find_file (k_t x) (files s) = Some f -> f_renamed f = true).
Proof.
  intros H. pose proof (step_files_frame _ _ _ H) as Hfr. cbn in Hfr.
  cbn [step] in H. apply busy_false_of_if in H as [_ H].
  destruct (find_task k (tasks s)) as [x|]; [|discriminate].
  destruct (_ && _) eqn:Eg in H; [|discriminate].
  apply andb_prop in Eg as [Eg G2]. apply andb_prop in Eg as [Hst Hfin].
  exists x. split; [reflexivity|]. split; [now apply tst_eqb_true|]. split; [exact Hfin|].
  split; [exact Hfr|]. split; [eapply on_coord_tasks; eauto|].
  intros Hk f Hf. rewrite Hk, Hf in G2. exact G2.
Qed.

(** ** every task of kind KIOFinal is a final task (download.py:
    get_final_io_task of every output manager passes is_final=True) *)
Definition iofinal_final (s : state) : Prop :=
  forall k x, find_task k (tasks s) = Some x -> k_kind x = KIOFinal -> k_final x = true.

Lemma iofinal_final_step s e s' : iofinal_final s -> step s e = Some s' -> iofinal_final s'.
Proof.
  intros I H k x' Hx' Hk.
  destruct (task_origin _ _ _ _ _ H Hx') as [(x & Hx & Hts)|(_ & t & g & a & fin & deps & kind & -> & ->)].
  - statics Hts. rewrite Sfin. apply (I k x Hx). congruence.
  - cbn [k_kind k_final fresh_task] in *. now apply (submit_kind_inv _ _ _ _ _ _ _ _ _ H).
Qed.

Lemma iofinal_final_reachable a b c d e0 f0 g h s : reachable (init a b c d e0 f0 g h) s -> iofinal_final s.
Proof.
  apply invariant_reachable; [intros k x Hx; discriminate|].
  intros s1 ev s2 I H. eapply iofinal_final_step; eauto.
Qed.

(** IO write tasks are created by a GetObject task inside its main *)
Theorem iowrite_parent a b c d e0 f0 g h s k x :
  reachable (init a b c d e0 f0 g h) s -> find_task k (tasks s) = Some x -> k_kind x = KIOWrite ->
  exists p, find_task (k_parent x) (tasks s) = Some p /\ k_kind p = KGet /\ k_t p = k_t x.
Proof.
  intros R. revert k x. revert s R.
  apply (invariant_reachable (fun s => forall k x, find_task k (tasks s) = Some x -> k_kind x = KIOWrite ->
           exists p, find_task (k_parent x) (tasks s) = Some p /\ k_kind p = KGet /\ k_t p = k_t x)).
  - intros k x Hx. discriminate.
  - intros s e s' I H k x' Hx' Hk.
    assert (Keep : forall a0 p, find_task a0 (tasks s) = Some p -> k_kind p = KGet ->
              exists p', find_task a0 (tasks s') = Some p' /\ k_kind p' = KGet /\ k_t p' = k_t p).
    { intros a0 p Hp Hpk. destruct (task_persists _ _ _ _ _ H Hp) as (p' & Hp' & Hts). statics Hts.
      exists p'. repeat split; congruence. }
    destruct (task_origin _ _ _ _ _ H Hx') as [(x & Hx & Hts)|(_ & t & g1 & a1 & fin & deps & kind & -> & ->)].
    + statics Hts. rewrite Spar, St. destruct (I k x Hx) as (p & Hp & Hpk & Hpt); [congruence|].
      destruct (Keep _ p Hp Hpk) as (p' & Hp' & Hpk' & Hpt'). exists p'. repeat split; congruence.
    + cbn [k_kind k_parent k_t fresh_task] in *.
      destruct (proj2 (submit_kind_inv _ _ _ _ _ _ _ _ _ H) Hk) as (p & Hp & _ & Hpk).
      destruct (Keep _ p Hp Hpk) as (p' & Hp' & Hpk' & Hpt'). exists p'. repeat split; auto.
      rewrite Hpt'. assert (Hns : KIOWrite <> KSubmission) by discriminate. rewrite <- Hk in Hns.
      destruct (submit_inv _ _ _ _ _ _ _ _ _ H) as [_ _ Hnsub _ _ _ _ _ _ _ _].
      destruct (Hnsub Hns) as (_ & p0 & Hp0 & Hp0t & _). congruence.
Qed.

(** ** after publication the write count is frozen and writes are rejected *)
Lemma published_rejects_writes s t :
  files_inv s -> published s t = true ->
  (forall a, step s (EFs a t FWrite) = None) /\ (forall a, step s (EFs a t FOpen) = None).
Proof.
  unfold published. intros I Hp. destruct (find_file t (files s)) as [f|] eqn:Ef; [|discriminate].
  destruct (I t f Ef) as [_ _ I3 _ _ _]. split; intros a.
  - destruct (step s (EFs a t FWrite)) as [s'|] eqn:H; [exfalso|reflexivity].
    destruct (efs_inv _ _ _ _ _ H) as (_ & _ & _ & Hm). rewrite Ef in Hm. destruct Hm as (_ & Ho & _).
    rewrite (I3 Hp) in Ho. discriminate.
  - destruct (step s (EFs a t FOpen)) as [s'|] eqn:H; [exfalso|reflexivity].
    destruct (efs_inv _ _ _ _ _ H) as (_ & _ & _ & Hm). now rewrite Ef in Hm.
Qed.

Lemma published_writes_step s e s' t :
  files_inv s -> published s t = true -> step s e = Some s' -> writes_of s' t = writes_of s t.
Proof.
  unfold published, writes_of. intros I Hp H. destruct (find_file t (files s)) as [f|] eqn:Ef; [|discriminate].
  destruct (file_persists _ _ _ _ _ H Ef) as (f' & -> & Hfs).
  destruct (I t f Ef) as [_ _ I3 _ _ _]. destruct Hfs; cbn; try reflexivity.
  match goal with Ho : f_open f = true |- _ => rewrite (I3 Hp) in Ho; discriminate end.
Qed.

Lemma published_writes_run tr : forall s s2 t,
  files_inv s -> published s t = true -> run s tr = Some s2 -> writes_of s2 t = writes_of s t.
Proof.
  induction tr as [|e tr IH]; intros s s2 t I Hp Hr; cbn [run] in Hr.
  - now injection Hr as <-.
  - destruct (step s e) as [s1|] eqn:Es; [|discriminate].
    rewrite (IH s1 s2 t); [eapply published_writes_step; eauto|eapply files_inv_step; eauto
                          |eapply published_step; eauto|exact Hr].
Qed.

(** ** when no task of [t] other than the submission task is in its main, only
    the thread running the failure cleanups can touch the file of [t] *)
Definition no_main (s : state) (t : Z) : Prop :=
  forall k x, find_task k (tasks s) = Some x -> k_t x = t -> k_kind x <> KSubmission ->
              k_st x <> TReady /\ k_st x <> TMain.

Lemma no_main_no_writer s a t : no_main s t -> io_writer s a t -> False.
Proof.
  intros Q (x & Hx & Ht & Hst & Hk). destruct (Q a x Hx Ht) as [_ Hn]; [|contradiction].
  rewrite Hk. discriminate.
Qed.

Lemma no_main_no_finalizer s a t : no_main s t -> io_finalizer s a t -> False.
Proof.
  intros Q (x & Hx & Ht & Hst & Hk). destruct (Q a x Hx Ht) as [_ Hn]; [|contradiction].
  rewrite Hk. discriminate.
Qed.

Lemma quiet_file_step s e s' t :
  no_main s t -> step s e = Some s' ->
  match find_file t (files s), find_file t (files s') with
  | Some f, Some f' => f' = f \/ exists a, cleaner s a t /\ (f' = f_close f \/ f' = f_remove f)
  | None, None => True
  | _, _ => False
  end.
Proof.
  intros Q H. destruct (find_file t (files s)) as [f|] eqn:Ef.
  - destruct (file_persists _ _ _ _ _ H Ef) as (f' & -> & Hfs).
    destruct Hfs; auto.
    + exfalso. eapply no_main_no_writer; eauto.
    + match goal with Hor : _ \/ _ |- _ => destruct Hor as [Hfin|Hcl] end;
        [exfalso; eapply no_main_no_finalizer; eauto|right; eauto].
    + exfalso. eapply no_main_no_finalizer; eauto.
    + right; eauto.
  - destruct (find_file t (files s')) as [f'|] eqn:Ef'; [|exact I].
    destruct (file_origin _ _ _ _ _ H Ef') as [(f & Hf & _)|(_ & a & _ & Hw & _)]; [congruence|].
    eapply no_main_no_writer; eauto.
Qed.

(** what stays fixed once only cleaners can act *)
Definition frozen (f f2 : filest) : Prop :=
  f_renamed f2 = f_renamed f /\ f_writes f2 = f_writes f /\ f_renames f2 = f_renames f /\
  (f_exists f = false -> f_exists f2 = false) /\ (f_removed f = true -> f_removed f2 = true).

Definition file_frozen (s s2 : state) (t : Z) : Prop :=
  match find_file t (files s), find_file t (files s2) with
  | Some f, Some f2 => frozen f f2
  | None, None => True
  | _, _ => False
  end.

Lemma frozen_refl f : frozen f f.
Proof. unfold frozen. auto. Qed.

Lemma file_frozen_refl s t : file_frozen s s t.
Proof. unfold file_frozen. destruct (find_file t (files s)); [apply frozen_refl|exact I]. Qed.

Lemma file_frozen_step s s1 e s1' t :
  file_frozen s s1 t -> no_main s1 t -> step s1 e = Some s1' -> file_frozen s s1' t.
Proof.
  unfold file_frozen. intros Fz Q H. pose proof (quiet_file_step _ _ _ _ Q H) as Hq.
  destruct (find_file t (files s)) as [f|]; destruct (find_file t (files s1)) as [f1|]; try contradiction;
    destruct (find_file t (files s1')) as [f1'|]; try contradiction; auto.
  destruct Fz as (F1 & F2 & F3 & F4 & F5).
  destruct Hq as [->|(a & _ & [-> | ->])]; unfold frozen; cbn; auto 10.
  repeat split; auto. intros Hr. rewrite (F5 Hr). apply orb_true_r.
Qed.

Lemma quiet_temp_step s e s' t :
  no_main s t -> step s e = Some s' -> temp_exists s t = false -> temp_exists s' t = false.
Proof.
  unfold temp_exists. intros Q H Hn. pose proof (quiet_file_step _ _ _ _ Q H) as Hq.
  destruct (find_file t (files s)) as [f|]; destruct (find_file t (files s')) as [f'|]; try contradiction; auto.
  destruct Hq as [->|(a & _ & [-> | ->])]; cbn; auto.
Qed.

(* ------------------------------------------------------------------ *)
Section ReachF.
Variables w_sub w_req q_sub q_req q_io up down : Z.
(** single IO worker, as in SysQuiesce's Reach3 *)
Let s0 := init w_sub w_req 1 q_sub q_req q_io up down.

(** ** F2 / F5: a published file has received every write *)

(** once a final task has reached its main, every other task of the transfer
    (the submission task excepted) is neither in nor about to enter its main *)
Lemma final_started_cold s t kf F :
  reachable s0 s -> find_task kf (tasks s) = Some F -> k_t F = t -> k_final F = true ->
  at_or_after_main (k_st F) = true ->
  forall k x, find_task k (tasks s) = Some x -> k_t x = t -> k_kind x <> KSubmission -> k <> kf ->
    hot (k_st x) = false.
Proof.
  intros R HF HFt HFfin HFs k x Hx Ht Hns Hne.
  destruct (past_main (k_st F)) eqn:Epm.
  - assert (Hc : ann_cause s t) by (left; exists kf, F; auto).
    exact (calm_inv_reachable _ _ _ _ _ _ _ s R t Hc k x Hx Ht Hns).
  - assert (Hst : k_st F = TDeps \/ k_st F = TMain \/ k_st F = TFailed).
    { destruct (k_st F); cbn in HFs, Epm; auto; discriminate. }
    apply (final_running_calm s kf F (base_inv_reachable _ _ _ _ _ _ _ s R) HF HFfin Hst k x Hx);
      [congruence|exact Hns|exact Hne].
Qed.

(** at the rename, every other task of the transfer (but the submission task)
    is either not yet picked by a worker or past its main *)
Theorem settled_at_rename s a t s' :
  reachable s0 s -> step s (EFs a t FRename) = Some s' ->
  forall k x, find_task k (tasks s) = Some x -> k_t x = t -> k_kind x <> KSubmission -> k <> a ->
    k_st x = TSubmitting \/ k_st x = TQueued \/ past_main (k_st x) = true.
Proof.
  intros R H k x Hx Ht Hk Hne.
  destruct (efs_inv _ _ _ _ _ H) as (_ & _ & _ & Hm).
  destruct (find_file t (files s)) as [f|]; [|contradiction].
  destruct Hm as ((F & HF & HFt & HFst & HFk) & _).
  pose proof (iofinal_final_reachable _ _ _ _ _ _ _ _ s R a F HF HFk) as HFfin.
  destruct (base_inv_reachable _ _ _ _ _ _ _ s R) as [_ _ _ BF BD BIO BW _].
  destruct (BF a F k x HF Hx HFfin) as [_ [Ho|[Ho|[Ho|[Ho1 Ho2]]]]]; [congruence|exact Hne|contradiction| | |].
  - assert (Ha : after_deps (k_st F) = true) by (rewrite HFst; reflexivity).
    destruct (BD a F k HF Ha Ho) as (y & Hy & Hye). rewrite Hx in Hy. injection Hy as <-.
    right; right. now rewrite Hye.
  - auto.
  - assert (Haf : io_active F = true) by (unfold io_active; rewrite Ho2, HFst; reflexivity).
    assert (Eax : io_active x = false).
    { destruct (io_active x) eqn:Eax; [exfalso|reflexivity].
      destruct (BIO BW) as [[_ Hno]|[_ (k0 & Hk0)]].
      - rewrite (Hno a F HF) in Haf. discriminate.
      - pose proof (Hk0 a F HF Haf). pose proof (Hk0 k x Hx Eax). congruence. }
    unfold io_active in Eax. rewrite Ho1 in Eax. cbn in Eax.
    destruct (k_st x); cbn in Eax; auto; discriminate.
Qed.

(** once published: no IO write task of the transfer is in (or about to enter) its main *)
Theorem published_writers_cold s t :
  reachable s0 s -> published s t = true ->
  forall k x, find_task k (tasks s) = Some x -> k_t x = t -> k_kind x = KIOWrite ->
    k_st x <> TReady /\ k_st x <> TMain.
Proof.
  intros R Hp k x Hx Ht Hk. unfold published in Hp.
  destruct (find_file t (files s)) as [f|] eqn:Ef; [|discriminate].
  destruct (renamer_inv_reachable _ _ _ _ _ _ _ _ s R t f Ef Hp) as (kf & F & HF & HFt & HFk & HFs & _).
  pose proof (iofinal_final_reachable _ _ _ _ _ _ _ _ s R kf F HF HFk) as HFfin.
  assert (Hns : k_kind x <> KSubmission) by (rewrite Hk; discriminate).
  assert (Hhot : hot (k_st x) = false).
  { apply (final_started_cold s t kf F R HF HFt HFfin HFs k x Hx Ht Hns).
    intros ->. rewrite HF in Hx. injection Hx as <-. rewrite HFk in Hk. discriminate. }
  split; intros E; rewrite E in Hhot; discriminate.
Qed.

Theorem rename_after_all_writes s t :
  reachable s0 s -> published s t = true ->
  (forall k x, find_task k (tasks s) = Some x -> k_t x = t -> k_kind x = KIOWrite ->
     k_st x <> TReady /\ k_st x <> TMain) /\
  (forall a, step s (EFs a t FWrite) = None) /\ (forall a, step s (EFs a t FOpen) = None) /\
  forall tr s2, run s tr = Some s2 ->
    published s2 t = true /\ writes_of s2 t = writes_of s t /\
    (forall k x, find_task k (tasks s2) = Some x -> k_t x = t -> k_kind x = KIOWrite ->
       k_st x <> TReady /\ k_st x <> TMain) /\
    (forall a, step s2 (EFs a t FWrite) = None) /\ (forall a, step s2 (EFs a t FOpen) = None).
Proof.
  intros R Hp. pose proof (files_inv_reachable _ _ _ _ _ _ _ _ s R) as FI.
  split; [now apply published_writers_cold|].
  destruct (published_rejects_writes s t FI Hp) as [W1 W2]. split; [exact W1|]. split; [exact W2|].
  intros tr s2 Hr.
  assert (R2 : reachable s0 s2) by (eapply reachable_run; eauto).
  assert (Hp2 : published s2 t = true) by (eapply published_run; eauto).
  split; [exact Hp2|]. split; [eapply published_writes_run; eauto|].
  split; [now apply published_writers_cold|].
  apply published_rejects_writes; [|exact Hp2]. apply (files_inv_reachable _ _ _ _ _ _ _ _ s2 R2).
Qed.

(** ** F3, success: the final task renamed before it set the result *)

(** a successful transfer has a final task that reached its main *)
Definition success_final (s : state) : Prop :=
  forall t c, find_coord t (coords s) = Some c -> c_status c = Success ->
  exists kf F, find_task kf (tasks s) = Some F /\ k_t F = t /\ k_final F = true /\
               at_or_after_main (k_st F) = true.

Lemma success_final_step s e s' : success_final s -> step s e = Some s' -> success_final s'.
Proof.
  intros I H t c' Hc' Hs.
  assert (Keep : forall kf F, find_task kf (tasks s) = Some F -> k_t F = t -> k_final F = true ->
            at_or_after_main (k_st F) = true ->
            exists kf' F', find_task kf' (tasks s') = Some F' /\ k_t F' = t /\ k_final F' = true /\
                           at_or_after_main (k_st F') = true).
  { intros kf F HF Ht Hfin Hst. destruct (task_persists _ _ _ _ _ H HF) as (F' & HF' & Hts). statics Hts.
    exists kf, F'. repeat split; try congruence. eapply at_or_after_main_step; eauto. }
  destruct (coord_origin _ _ _ _ _ H Hc') as [(c & Hc & Hcs)|(_ & ->)]; [|discriminate Hs].
  destruct (status_eqb (c_status c) Success) eqn:Es.
  - apply status_eqb_eq in Es. destruct (I t c Hc Es) as (kf & F & HF & Ht & Hfin & Hst). eapply Keep; eauto.
  - destruct Hcs; cbn in Hs; try (rewrite Hs in Es; discriminate); try discriminate.
    + eapply Keep; eauto. match goal with Hq : k_st _ = TMain |- _ => now rewrite Hq end.
    + destruct tr; discriminate.
Qed.

Lemma success_final_reachable s : reachable s0 s -> success_final s.
Proof.
  apply invariant_reachable; [intros t c Hc; discriminate|].
  intros s1 ev s2 I H. eapply success_final_step; eauto.
Qed.

(** the hypothesis of the success statement: the final task of the transfer is
    the IO final task (for a download: IORenameFileTask, submitted by the
    count-down callback, download.py:531-536).  No guard of [ESubmit] ties the
    kind of the final task to the kinds of the other tasks of the transfer. *)
Definition final_is_iofinal (s : state) (t : Z) : Prop :=
  forall k x, find_task k (tasks s) = Some x -> k_t x = t -> k_final x = true -> k_kind x = KIOFinal.

Lemma final_is_iofinal_back s e s' t : step s e = Some s' -> final_is_iofinal s' t -> final_is_iofinal s t.
Proof.
  intros H K k x Hx Ht Hfin. destruct (task_persists _ _ _ _ _ H Hx) as (x' & Hx' & Hts). statics Hts.
  rewrite <- Skind. apply (K k x' Hx'); congruence.
Qed.

Definition success_renamed (s : state) (t : Z) : Prop :=
  forall c f, find_coord t (coords s) = Some c -> c_status c = Success ->
              find_file t (files s) = Some f -> f_renamed f = true.

Lemma success_renamed_step s e s' t :
  reachable s0 s -> final_is_iofinal s t -> success_renamed s t -> step s e = Some s' -> success_renamed s' t.
Proof.
  intros R K P H c' f' Hc' Hs Hf'.
  destruct (file_origin _ _ _ _ _ H Hf') as [(f & Hf & Hfs)|(Hnone & a & -> & Hw & Hb & ->)].
  - destruct (coord_origin _ _ _ _ _ H Hc') as [(c & Hc & Hcs)|(_ & ->)]; [|discriminate Hs].
    destruct (status_eqb (c_status c) Success) eqn:Es.
    + apply status_eqb_eq in Es. eapply renamed_mono; [exact Hfs|]. eapply P; eauto.
    + destruct Hcs; cbn in Hs; try (rewrite Hs in Es; discriminate); try discriminate.
      * (* set_result *)
        destruct (setresult_inv _ _ _ H) as (x0 & Hx0 & _ & _ & Hfiles & _ & Hren).
        match goal with Hx : find_task k (tasks s) = Some ?y |- _ =>
          rewrite Hx in Hx0; injection Hx0 as <-;
          assert (Hk : k_kind y = KIOFinal) by (eapply K; eauto) end.
        rewrite Hfiles, Hf in Hf'. injection Hf' as <-.
        match goal with Hkt : k_t _ = t |- _ => rewrite <- Hkt in Hf end. eapply Hren; eauto.
      * destruct tr; discriminate.
  - (* the temp file is created although the transfer is successful: impossible *)
    exfalso. destruct (efs_inv _ _ _ _ _ H) as (_ & _ & Hco & _). rewrite Hco in Hc'.
    destruct (success_final_reachable s R t c' Hc' Hs) as (kf & F & HF & HFt & HFfin & HFs).
    destruct Hw as (w & Hwx & Hwt & Hwst & Hwk).
    assert (Hhot : hot (k_st w) = false).
    { apply (final_started_cold s t kf F R HF HFt HFfin HFs a w Hwx Hwt); [rewrite Hwk; discriminate|].
      intros ->. rewrite HF in Hwx. injection Hwx as <-. rewrite (K kf F HF HFt HFfin) in Hwk. discriminate. }
    rewrite Hwst in Hhot. discriminate.
Qed.

Theorem success_renamed_run tr : forall s t, run s0 tr = Some s -> final_is_iofinal s t -> success_renamed s t.
Proof.
  induction tr as [|e tr IH] using rev_ind; intros s t Hrun K.
  - injection Hrun as <-. intros c f Hc. discriminate.
  - rewrite run_app in Hrun. destruct (run s0 tr) as [s1|] eqn:E1; [|discriminate].
    cbn [run] in Hrun. destruct (step s1 e) as [s2|] eqn:Es; [|discriminate]. injection Hrun as ->.
    pose proof (final_is_iofinal_back _ _ _ _ Es K) as K1.
    eapply success_renamed_step; [exists tr; exact E1|exact K1|apply IH; auto|exact Es].
Qed.

(** a successful path download whose final task is the IO final task has
    published its file and left no temp file *)
Theorem no_temp_on_success s t c :
  reachable s0 s -> find_coord t (coords s) = Some c -> c_status c = Success -> final_is_iofinal s t ->
  temp_exists s t = false /\
  (forall f, find_file t (files s) = Some f -> f_renamed f = true /\ f_exists f = false /\ f_open f = false).
Proof.
  intros R Hc Hs K. destruct R as [tr Hrun].
  pose proof (success_renamed_run tr s t Hrun K c) as P.
  assert (R : reachable s0 s) by (exists tr; exact Hrun).
  assert (G : forall f, find_file t (files s) = Some f -> f_renamed f = true /\ f_exists f = false /\ f_open f = false).
  { intros f Hf. pose proof (P f Hc Hs Hf) as Hr. split; [exact Hr|].
    destruct (renames_at_most_one _ _ _ _ _ _ _ _ s t f R Hf) as (_ & _ & G). now apply G. }
  split; [|exact G]. unfold temp_exists. destruct (find_file t (files s)) as [f|] eqn:Ef; [|reflexivity].
  now destruct (G f eq_refl) as (_ & He & _).
Qed.

(** ** F4 and F3: after an announce has begun *)
Lemma ann_trigger s t c :
  reachable s0 s -> find_coord t (coords s) = Some c ->
  c_ann_started c = true \/ c_owing c <> [] \/ c_event c = true \/ c_cl_runner c <> None ->
  c_ann_started c = true \/ c_owing c <> [].
Proof.
  intros R Hc [Ht|[Ht|[Ht|Ht]]]; auto; left;
    destruct (T1_inv_reachable _ _ _ _ _ _ _ _ s R) as (_ & _ & IL & _);
    destruct (IL t c Hc) as [_ L2 _ _ L5 _]; auto.
Qed.

(** once an announce has begun, the file of the transfer is frozen: no write,
    no rename, no re-creation; only the cleanup thread's close/remove *)
Theorem done_file_frozen s t c :
  reachable s0 s -> find_coord t (coords s) = Some c ->
  c_ann_started c = true \/ c_owing c <> [] \/ c_event c = true \/ c_cl_runner c <> None ->
  forall tr s2, run s tr = Some s2 -> file_frozen s s2 t.
Proof.
  intros R Hc Htr. pose proof (ann_trigger s t c R Hc Htr) as Htr2.
  destruct (announce_quiescent _ _ _ _ _ _ _ s t c R Hc Htr2) as (_ & _ & Q).
  apply (run_invariant_under (fun s1 => no_main s1 t) (fun s1 => file_frozen s s1 t)).
  - intros tr1 s1 Hr1. exact (proj2 (Q tr1 s1 Hr1)).
  - apply file_frozen_refl.
  - intros s1 e s1' Q1 P1 Hs. eapply file_frozen_step; eauto.
Qed.

(** F4: a transfer whose announce began unpublished is never published *)
Theorem failure_keeps_dest s t c :
  reachable s0 s -> find_coord t (coords s) = Some c ->
  c_ann_started c = true \/ c_owing c <> [] \/ c_event c = true \/ c_cl_runner c <> None ->
  published s t = false ->
  forall tr s2, run s tr = Some s2 -> published s2 t = false.
Proof.
  intros R Hc Htr Hp tr s2 Hr. pose proof (done_file_frozen s t c R Hc Htr tr s2 Hr) as Fz.
  unfold file_frozen, published in *.
  destruct (find_file t (files s)) as [f|]; destruct (find_file t (files s2)) as [f2|]; try contradiction; auto.
  destruct Fz as (F1 & _). congruence.
Qed.

(** F3, the part the model supports: at done (event set) a leftover temp file
    was never renamed nor removed; a renamed or removed temp does not exist;
    from then on the file is frozen, in particular an absent temp stays absent *)
Theorem no_temp_when_done_partial s t c :
  reachable s0 s -> find_coord t (coords s) = Some c -> c_event c = true ->
  (forall f, find_file t (files s) = Some f -> f_exists f = true ->
     f_renamed f = false /\ f_removed f = false /\ f_renames f = 0) /\
  (forall f, find_file t (files s) = Some f -> f_renamed f = true \/ f_removed f = true ->
     f_exists f = false) /\
  (forall tr s2, run s tr = Some s2 ->
     file_frozen s s2 t /\ (temp_exists s t = false -> temp_exists s2 t = false)).
Proof.
  intros R Hc Hev. pose proof (files_inv_reachable _ _ _ _ _ _ _ _ s R) as FI.
  split; [|split].
  - intros f Hf He. destruct (FI t f Hf) as [_ I2 _ I4 _ _]. destruct (I2 He) as [Hr Hm].
    rewrite Hr in I4. auto.
  - intros f Hf Hor. destruct (FI t f Hf) as [_ I2 _ _ I6 _].
    destruct Hor as [Hr|Hm]; [|auto]. destruct (f_exists f) eqn:Ee; [|reflexivity].
    destruct (I2 eq_refl). congruence.
  - intros tr s2 Hr.
    assert (Fz : file_frozen s s2 t) by (eapply done_file_frozen; eauto).
    split; [exact Fz|]. unfold file_frozen, temp_exists in *.
    destruct (find_file t (files s)) as [f|]; destruct (find_file t (files s2)) as [f2|]; try contradiction; auto.
    destruct Fz as (_ & _ & _ & F4 & _). exact F4.
Qed.

(** if the cleanup thread performed the remove, no temp file exists from then on *)
Theorem remove_cleanup_no_temp tr : forall s, run s0 tr = Some s ->
  forall a t, In (EFs a t FRemove) tr ->
  temp_exists s t = false /\ exists c, find_coord t (coords s) = Some c /\ c_ann_started c = true.
Proof.
  induction tr as [|e tr IH] using rev_ind; intros s Hrun a t Hin; [contradiction|].
  rewrite run_app in Hrun. destruct (run s0 tr) as [s1|] eqn:E1; [|discriminate].
  cbn [run] in Hrun. destruct (step s1 e) as [s2|] eqn:Es; [|discriminate]. injection Hrun as ->.
  assert (R1 : reachable s0 s1) by (exists tr; exact E1).
  apply in_app_or in Hin as [Hin|[->|[]]].
  - destruct (IH s1 eq_refl a t Hin) as (Hte & c & Hc & Hst).
    destruct (announce_quiescent _ _ _ _ _ _ _ s1 t c R1 Hc (or_introl Hst)) as (_ & Q1 & _).
    split; [eapply quiet_temp_step; eauto|].
    destruct (coord_persistsE _ _ _ _ _ Es Hc) as (c' & Hc' & Hcs).
    exists c'. split; [exact Hc'|]. eapply started_mono; [eapply cstepE_cstep; exact Hcs|exact Hst].
  - destruct (efs_inv _ _ _ _ _ Es) as (_ & _ & Hco & Hm).
    assert (Hcl : cleaner s1 a t /\ temp_exists s t = false).
    { unfold temp_exists. destruct (find_file t (files s1)) as [f|] eqn:Ef; destruct Hm as (Hcl & Hfs).
      - split; [exact Hcl|]. rewrite Hfs, find_file_upd, Z.eqb_refl, Ef by reflexivity. reflexivity.
      - split; [exact Hcl|]. now rewrite Hfs, Ef. }
    destruct Hcl as ((c & Hc & Hrun) & Hte). split; [exact Hte|].
    exists c. rewrite Hco. split; [exact Hc|].
    destruct (T1_inv_reachable _ _ _ _ _ _ _ _ s1 R1) as (_ & _ & IL & _).
    destruct (IL t c Hc) as [_ _ _ _ L5 _]. apply L5. congruence.
Qed.

(** F3 on failure: the cleanup phase ended before the event was set; if it
    contained the remove, no temp file exists at the event and ever after *)
Theorem no_temp_on_failure_partial tr s a t s' c :
  run s0 tr = Some s -> step s (EEventSet a t) = Some s' ->
  find_coord t (coords s) = Some c -> c_status c <> Success ->
  In (ECleanupsEnd a t) tr /\
  ((exists b, In (EFs b t FRemove) tr) ->
   forall tr2 s2, run s' tr2 = Some s2 -> temp_exists s2 t = false).
Proof.
  intros Hrun H Hc Hns.
  split; [eapply (cleanups_before_event_on_failure w_sub w_req 1 q_sub q_req q_io up down); eauto|].
  intros (b & Hin) tr2 s2 Hr2.
  assert (Hall : run s0 (tr ++ EEventSet a t :: tr2) = Some s2).
  { rewrite run_app. fold s0. rewrite Hrun. cbn [run]. now rewrite H. }
  apply (proj1 (remove_cleanup_no_temp _ s2 Hall b t (in_or_app _ _ _ (or_introl Hin)))).
Qed.
End ReachF.

(* ================================================================== *)
(** * Part C.  C11: the counting view of the in-memory bounds *)

(** ** which semaphore a task may hold: its executor's own, or -- request
    executor only -- a tag semaphore *)
Lemma acquire_inv s a k sem s' :
  step s (EAcquire a k sem) = Some s' ->
  exists x, find_task k (tasks s) = Some x /\
    (sem = sem_of_stage (k_stage x) \/ ((sem = SEM_UP \/ sem = SEM_DOWN) /\ k_stage x = SReq)).
Proof.
  cbn [step]. intros H. destruct (find_task k (tasks s)) as [x|]; [|discriminate].
  destruct (find_sem sem (sems s)); [|discriminate]. inv H. split_ands. exists x. split; [reflexivity|].
  match goal with Ho : (sem =? sem_of_stage _) || _ = true |- _ => rename Ho into HO end.
  apply orb_prop in HO as [HO|HO].
  - left. lia.
  - right. apply andb_prop in HO as [HO Hs]. apply stage_eqb_eq in Hs. split; [|exact Hs].
    apply orb_prop in HO as [HO|HO]; [left|right]; lia.
Qed.

Definition permit_ok (x : task) : Prop :=
  k_permit x = -1 \/ k_permit x = sem_of_stage (k_stage x) \/
  ((k_permit x = SEM_UP \/ k_permit x = SEM_DOWN) /\ k_stage x = SReq).

Definition permits_inv (s : state) : Prop := forall k x, find_task k (tasks s) = Some x -> permit_ok x.

Lemma permits_inv_step s e s' : permits_inv s -> step s e = Some s' -> permits_inv s'.
Proof.
  intros I H k x' Hx'.
  destruct (task_origin _ _ _ _ _ H Hx') as [(x & Hx & Hts)|(_ & t & g & a & fin & deps & kind & _ & ->)].
  2:{ left. reflexivity. }
  pose proof (I k x Hx) as Hok. unfold permit_ok in *.
  destruct Hts; cbn [k_permit k_stage with_st with_flags with_phase with_permit with_assoc with_released]; auto.
  (* acquire *)
  destruct (acquire_inv _ _ _ _ _ H) as (x0 & Hx0 & Hor).
  assert (E : k0 = k) by (pose proof (find_task_some_id _ _ _ Hx); congruence).
  rewrite E, Hx in Hx0. injection Hx0 as <-. tauto.
Qed.

Lemma permits_inv_reachable a b c d e f g h s : reachable (init a b c d e f g h) s -> permits_inv s.
Proof.
  apply invariant_reachable; [intros k x Hx; discriminate|].
  intros s1 ev s2 I H. eapply permits_inv_step; eauto.
Qed.

(** ** counting *)
Lemma NoDup_map_inj {A B} (g : A -> B) (L : list A) :
  NoDup L -> (forall x y, In x L -> In y L -> g x = g y -> x = y) -> NoDup (map g L).
Proof.
  induction L as [|x r IH]; intros Hnd Hinj; cbn [map]; [constructor|].
  inversion Hnd as [|? ? Hx Hr]; subst. constructor.
  - intros Hin. apply in_map_iff in Hin as (y & Hy & Hyr).
    assert (y = x) by (apply Hinj; [now right|now left|exact Hy]). subst y. contradiction.
  - apply IH; [exact Hr|]. intros y z Hy Hz. apply Hinj; now right.
Qed.

Lemma NoDup_of_map {A B} (g : A -> B) (L : list A) : NoDup (map g L) -> NoDup L.
Proof.
  induction L as [|x r IH]; cbn [map]; intros H; [constructor|].
  inversion H as [|? ? Hx Hr]; subst. constructor; [|auto].
  intros Hin. apply Hx. now apply in_map.
Qed.

(** an injection from the [p]-tasks into the ids of the [q]-tasks *)
Lemma count_inj_le (p q : task -> bool) (g : task -> Z) l :
  NoDup (map k_id l) ->
  (forall x, In x l -> p x = true -> exists y, In y l /\ q y = true /\ k_id y = g x) ->
  (forall x1 x2, In x1 l -> In x2 l -> p x1 = true -> p x2 = true -> g x1 = g x2 -> x1 = x2) ->
  SysStage.count p l <= SysStage.count q l.
Proof.
  intros Hnd Hex Hinj. rewrite !SysStage.count_length. apply Nat2Z.inj_le.
  rewrite <- (map_length g (filter p l)), <- (map_length k_id (filter q l)).
  apply NoDup_incl_length.
  - apply NoDup_map_inj; [apply NoDup_filter; eapply NoDup_of_map; exact Hnd|].
    intros x y Hx Hy. apply filter_In in Hx as [Hx Hpx]. apply filter_In in Hy as [Hy Hpy]. now apply Hinj.
  - intros z Hz. apply in_map_iff in Hz as (x & <- & Hx). apply filter_In in Hx as [Hx Hpx].
    destruct (Hex x Hx Hpx) as (y & Hy & Hqy & Hid). apply in_map_iff. exists y. split; [exact Hid|].
    apply filter_In. auto.
Qed.

(** ** B2: pending IO *)
Definition io_pending (x : task) : bool := stage_eqb (k_stage x) SIO && SysStage.occupying (k_st x).

Lemma caps_le a b c d e f g h s i cap :
  1 <= d -> 1 <= e -> 1 <= f -> 1 <= g -> 1 <= h ->
  reachable (init a b c d e f g h) s -> 0 <= i -> SysStage.caps d e f g h i = Some cap ->
  SysStage.count (SysStage.holds i) (tasks s) <= cap.
Proof.
  intros Hd He Hf Hg Hh R Hi Hc.
  destruct (SysStage.permit_conservation a b c d e f g h s i cap Hd He Hf Hg Hh R Hi Hc) as (v & _ & Hv & Hs). lia.
Qed.

Theorem io_pending_bounded a b c d e f g h s :
  1 <= d -> 1 <= e -> 1 <= f -> 1 <= g -> 1 <= h ->
  reachable (init a b c d e f g h) s ->
  (* every queued or running IO task holds an unreleased permit of the IO executor's semaphore *)
  (forall k x, find_task k (tasks s) = Some x -> io_pending x = true -> SysStage.holds SEM_IO x = true) /\
  (* hence they are within max_io_queue_size *)
  SysStage.count io_pending (tasks s) <= f.
Proof.
  intros Hd He Hf Hg Hh R.
  assert (A : forall k x, find_task k (tasks s) = Some x -> io_pending x = true -> SysStage.holds SEM_IO x = true).
  { intros k x Hx Hp. unfold io_pending in Hp. apply andb_prop in Hp as [Hs Ho]. apply stage_eqb_eq in Hs.
    destruct (SysStage.occupying_holds_permit _ _ _ _ _ _ _ _ s k x R Hx) as [Hp0 Hrel];
      [rewrite Hs; discriminate|exact Ho|].
    pose proof (permits_inv_reachable _ _ _ _ _ _ _ _ s R k x Hx) as Hok. unfold permit_ok in Hok.
    rewrite Hs in Hok. cbn [sem_of_stage] in Hok. unfold SysStage.holds. rewrite Hrel. cbn [negb].
    destruct Hok as [E|[E|[_ E]]]; [lia| |discriminate]. rewrite E. reflexivity. }
  split; [exact A|].
  etransitivity; [|apply (caps_le a b c d e f g h s SEM_IO f Hd He Hf Hg Hh R); [unfold SEM_IO; lia|reflexivity]].
  apply SysStage.count_le. intros x Hin Hp. apply (A (k_id x) x); [|exact Hp].
  apply SysStage.in_find_task; [apply (SysStage.ids_inv_reachable _ _ _ _ _ _ _ _ s R)|exact Hin].
Qed.

(** ** B1 / B3: the tag semaphores (counting view) *)
Theorem download_window_permits a b c d e f g h s :
  1 <= d -> 1 <= e -> 1 <= f -> 1 <= g -> 1 <= h ->
  reachable (init a b c d e f g h) s ->
  exists free, find_sem SEM_DOWN (sems s) = Some free /\ 0 <= free /\
    free + SysStage.count (SysStage.holds SEM_DOWN) (tasks s) = h.
Proof.
  intros Hd He Hf Hg Hh R.
  apply (SysStage.permit_conservation a b c d e f g h s SEM_DOWN h Hd He Hf Hg Hh R); [unfold SEM_DOWN; lia|reflexivity].
Qed.

Theorem upload_permits a b c d e f g h s :
  1 <= d -> 1 <= e -> 1 <= f -> 1 <= g -> 1 <= h ->
  reachable (init a b c d e f g h) s ->
  (exists free, find_sem SEM_UP (sems s) = Some free /\ 0 <= free /\
     free + SysStage.count (SysStage.holds SEM_UP) (tasks s) = g) /\
  SysStage.count (SysStage.holds SEM_UP) (tasks s) <= g.
Proof.
  intros Hd He Hf Hg Hh R.
  destruct (SysStage.permit_conservation a b c d e f g h s SEM_UP g Hd He Hf Hg Hh R) as (v & Hv & Hv0 & Hs);
    [unfold SEM_UP; lia|reflexivity|].
  split; [exists v; auto|lia].
Qed.

(** ** B3: one pending child per submitter *)
Definition one_child_inv (s : state) : Prop :=
  forall k1 x1 k2 x2, find_task k1 (tasks s) = Some x1 -> find_task k2 (tasks s) = Some x2 ->
    k_parent x1 = k_parent x2 -> k_stage x1 <> SInline -> k_stage x2 <> SInline ->
    holds_parent x1 = true -> holds_parent x2 = true -> k1 = k2.

Lemma holds_parent_fresh k t g a fin deps kind :
  g <> SInline -> holds_parent (fresh_task k t g a fin deps kind) = true -> kind <> KSubmission.
Proof.
  unfold holds_parent, fresh_task, KSubmission. cbn. intros Hg.
  destruct g; try contradiction; cbn; intros H; apply andb_prop in H as [H _]; apply negb_true_iff in H; lia.
Qed.

Lemma one_child_inv_step s e s' : one_child_inv s -> step s e = Some s' -> one_child_inv s'.
Proof.
  intros I H k1 x1' k2 x2' H1 H2 Hp N1 N2 A1 A2.
  assert (Old : forall x x', tstepE s e x x' -> k_stage x' <> SInline -> holds_parent x' = true ->
            holds_parent x = true /\ k_stage x <> SInline /\ k_parent x = k_parent x').
  { intros x x' Hts N A. statics Hts.
    destruct (holds_parent_begins _ _ _ _ Hts A) as [Hh|(Hs & _)]; [|congruence]. repeat split; congruence. }
  assert (New : forall ko xo xo' kn t g a fin deps kind,
            find_task ko (tasks s) = Some xo -> tstepE s e xo xo' ->
            k_stage xo' <> SInline -> holds_parent xo' = true ->
            e = ESubmit a kn t g fin deps kind -> g <> SInline ->
            holds_parent (fresh_task kn t g a fin deps kind) = true -> k_parent xo' = a -> False).
  { intros ko xo xo' kn t g a fin deps kind Hxo Hts N A -> Hg Hh Hpa.
    destruct (Old _ _ Hts N A) as (Ho & _ & Hpo).
    pose proof (holds_parent_fresh _ _ _ _ _ _ _ Hg Hh) as Hk.
    destruct (submit_inv _ _ _ _ _ _ _ _ _ H) as [_ _ Hns _ _ _ _ _ _ _ _]. destruct (Hns Hk) as (Hnb & _).
    pose proof (holds_parent_busy _ _ _ Hxo Ho) as Hb. rewrite Hpo, Hpa in Hb. congruence. }
  destruct (task_origin _ _ _ _ _ H H1) as [(x1 & Hx1 & Hts1)|(Hn1 & t1 & g1 & a1 & f1 & d1 & kd1 & E1 & ->)];
  destruct (task_origin _ _ _ _ _ H H2) as [(x2 & Hx2 & Hts2)|(Hn2 & t2 & g2 & a2 & f2 & d2 & kd2 & E2 & ->)].
  - destruct (Old _ _ Hts1 N1 A1) as (O1 & S1 & P1). destruct (Old _ _ Hts2 N2 A2) as (O2 & S2 & P2).
    apply (I k1 x1 k2 x2); auto. congruence.
  - exfalso. cbn [k_parent k_stage fresh_task] in *. eapply (New k1 x1 x1'); eauto.
  - exfalso. cbn [k_parent k_stage fresh_task] in *. eapply (New k2 x2 x2'); eauto.
  - rewrite E1 in E2. now injection E2.
Qed.

Lemma one_child_inv_reachable a b c d e f g h s : reachable (init a b c d e f g h) s -> one_child_inv s.
Proof.
  apply invariant_reachable; [intros k1 x1 k2 x2 Hx; discriminate|].
  intros s1 ev s2 I H. eapply one_child_inv_step; eauto.
Qed.

Lemma window_inv_reachable a b c d e f g h s : reachable (init a b c d e f g h) s -> window_inv s.
Proof.
  apply invariant_reachable; [intros k x Hx; discriminate|].
  intros s1 ev s2 I H. eapply window_inv_step; eauto.
Qed.

(** a task inside coordinator.submit() (permit not yet taken or not yet
    queued) whose submitter is a submission task *)
Definition sub_child (s : state) (x : task) : bool :=
  tst_eqb (k_st x) TSubmitting &&
  match find_task (k_parent x) (tasks s) with Some p => k_kind p =? KSubmission | None => false end.

(** at most one such task per submitter *)
Theorem one_submitting_child a b c d e f g h s k1 x1 k2 x2 :
  reachable (init a b c d e f g h) s ->
  find_task k1 (tasks s) = Some x1 -> find_task k2 (tasks s) = Some x2 ->
  k_parent x1 = k_parent x2 -> k_kind x1 <> KSubmission -> k_kind x2 <> KSubmission ->
  k_st x1 = TSubmitting -> k_st x2 = TSubmitting -> k1 = k2.
Proof.
  intros R H1 H2 Hp K1 K2 S1 S2.
  destruct (tb_inv_reachable _ _ _ _ _ _ _ _ s R) as [TB _].
  assert (N : forall k x, find_task k (tasks s) = Some x -> k_st x = TSubmitting -> k_stage x <> SInline).
  { intros k x Hx Hs Hi. destruct (TB k x Hx) as [_ _ _ _ _ _ B7 _]. destruct (B7 Hi). contradiction. }
  apply (one_child_inv_reachable _ _ _ _ _ _ _ _ s R k1 x1 k2 x2 H1 H2 Hp); eauto;
    apply holds_parent_spec; right; eauto.
Qed.

(** hence: tasks being submitted by submission tasks <= running submission workers *)
Theorem submitting_children_le_workers a b c d e f g h s :
  1 <= a -> 1 <= b -> 1 <= c -> reachable (init a b c d e f g h) s ->
  SysStage.count (sub_child s) (tasks s) <= g_running (st_sub s) /\ g_running (st_sub s) <= a.
Proof.
  intros Ha Hb Hc R.
  destruct (SysStage.running_le_workers a b c d e f g h s SSub Ha Hb Hc R ltac:(discriminate)) as (Hrun & [_ Hle] & Hw).
  cbn [get_stage SysStage.wk] in *. split; [|lia]. rewrite Hrun.
  pose proof (SysStage.ids_inv_reachable _ _ _ _ _ _ _ _ s R) as Ids.
  destruct (tb_inv_reachable _ _ _ _ _ _ _ _ s R) as [TB _].
  pose proof (window_inv_reachable _ _ _ _ _ _ _ _ s R) as W.
  assert (Facts : forall x, In x (tasks s) -> sub_child s x = true ->
            find_task (k_id x) (tasks s) = Some x /\ k_st x = TSubmitting /\ k_kind x <> KSubmission /\
            exists p, find_task (k_parent x) (tasks s) = Some p /\ k_kind p = KSubmission).
  { intros x Hin Hsc. unfold sub_child in Hsc. apply andb_prop in Hsc as [Hst Hpk]. apply tst_eqb_true in Hst.
    pose proof (SysStage.in_find_task _ _ Ids Hin) as Hx. split; [exact Hx|]. split; [exact Hst|].
    destruct (find_task (k_parent x) (tasks s)) as [p|] eqn:Ep; [|discriminate].
    split; [|exists p; split; [reflexivity|unfold KSubmission in *; lia]].
    intros Hk. destruct (TB _ x Hx) as [B1 _ _ _ _ _ _ _]. destruct (B1 Hk) as (_ & _ & Hu).
    destruct (TB _ p Ep) as [_ _ _ P4 _ _ _ _]. rewrite (find_task_some_id _ _ _ Ep) in P4.
    unfold is_user in Hu. lia. }
  apply (count_inj_le (sub_child s) (SysStage.runs_in SSub) k_parent); [exact Ids| |].
  - intros x Hin Hsc. destruct (Facts x Hin Hsc) as (Hx & Hst & Hk & p & Hp & Hpk).
    assert (Hns : k_stage x <> SInline).
    { intros Hi. destruct (TB _ x Hx) as [_ _ _ _ _ _ B7 _]. destruct (B7 Hi). contradiction. }
    assert (Hh : holds_parent x = true) by (apply holds_parent_spec; right; auto).
    destruct (W _ x Hx Hh) as (p' & Hp' & _ & Hact). rewrite Hp in Hp'. injection Hp' as <-.
    exists p. split; [eapply SysQuiesce.find_task_in; eauto|]. split; [|eapply find_task_some_id; eauto].
    destruct (TB _ p Hp) as [P1 _ _ _ _ _ _ _]. destruct (P1 Hpk) as (_ & Hs & _).
    unfold SysStage.runs_in. rewrite Hs. cbn. destruct Hact as [-> | ->]; reflexivity.
  - intros x1 x2 In1 In2 S1 S2 Hpar.
    destruct (Facts x1 In1 S1) as (Hx1 & Hst1 & Hk1 & _). destruct (Facts x2 In2 S2) as (Hx2 & Hst2 & Hk2 & _).
    assert (E : k_id x1 = k_id x2) by (eapply (one_submitting_child a b c d e f g h s); eauto).
    rewrite E in Hx1. congruence.
Qed.

Lemma count_or_le (p q : task -> bool) l :
  SysStage.count (fun x => p x || q x) l <= SysStage.count p l + SysStage.count q l.
Proof.
  induction l as [|x r IH]; cbn [SysStage.count]; [lia|].
  unfold SysStage.b2z. destruct (p x); destruct (q x); cbn [orb]; lia.
Qed.

(** stream uploads, counting view: tasks that hold an in-memory-upload-chunk
    permit, or are still inside submit() called by a submission task (their
    chunk has been read, the permit not yet taken), are at most
    max_in_memory_upload_chunks + max_submission_concurrency *)
Theorem upload_buffers_bounded a b c d e f g h s :
  1 <= a -> 1 <= b -> 1 <= c -> 1 <= d -> 1 <= e -> 1 <= f -> 1 <= g -> 1 <= h ->
  reachable (init a b c d e f g h) s ->
  SysStage.count (fun x => SysStage.holds SEM_UP x || sub_child s x) (tasks s) <= g + a.
Proof.
  intros Ha Hb Hc Hd He Hf Hg Hh R.
  pose proof (count_or_le (SysStage.holds SEM_UP) (sub_child s) (tasks s)) as H1.
  destruct (upload_permits a b c d e f g h s Hd He Hf Hg Hh R) as [_ H2].
  destruct (submitting_children_le_workers a b c d e f g h s Ha Hb Hc R) as [H3 H4]. lia.
Qed.

(* ================================================================== *)
(** * Part D.  F2 / F5, strong form (with the single-IO-worker FIFO lemma of
    SysStage): every IO write task of a published download ran its main to
    normal completion *)
Section ReachD.
Variables w_sub w_req q_sub q_req q_io up down : Z.
Hypothesis Hsub : 0 <= w_sub.
Hypothesis Hreq : 0 <= w_req.
Let s0 := init w_sub w_req 1 q_sub q_req q_io up down.

Lemma writes_done_of_final s t kf F :
  reachable s0 s -> find_task kf (tasks s) = Some F -> k_t F = t -> k_kind F = KIOFinal ->
  k_ran_main F = true ->
  forall k x, find_task k (tasks s) = Some x -> k_t x = t -> k_kind x = KIOWrite ->
    past_main (k_st x) = true /\ k_main_ok x = true /\ k_skipped x = false /\ k_ran_main x = true.
Proof.
  intros R HF HFt HFk Hran k x Hx Ht Hk.
  pose proof (iofinal_final_reachable _ _ _ _ _ _ _ _ s R kf F HF HFk) as HFfin.
  assert (Hne : k <> kf).
  { intros ->. rewrite HF in Hx. injection Hx as <-. rewrite HFk in Hk. discriminate. }
  assert (Hns : k_kind x <> KSubmission) by (rewrite Hk; discriminate).
  apply (SysStage.good_inv_reachable w_sub w_req 1 q_sub q_req q_io up down s Hsub Hreq ltac:(lia) R
           kf F k x HF Hx HFfin); [congruence|exact Hne|right; exact Hran|].
  split; [exact Hns|]. right; right. reflexivity.
Qed.

(** at the rename *)
Theorem all_writes_done_at_rename s a t s' :
  reachable s0 s -> step s (EFs a t FRename) = Some s' ->
  forall k x, find_task k (tasks s) = Some x -> k_t x = t -> k_kind x = KIOWrite ->
    past_main (k_st x) = true /\ k_main_ok x = true /\ k_skipped x = false /\ k_ran_main x = true.
Proof.
  intros R H. destruct (efs_inv _ _ _ _ _ H) as (_ & _ & _ & Hm).
  destruct (find_file t (files s)) as [f|]; [|contradiction].
  destruct Hm as ((F & HF & HFt & HFst & HFk) & _).
  apply (writes_done_of_final s t a F R HF HFt HFk).
  apply (ran_inv_reachable _ _ _ _ _ _ _ _ s R a F HF). now left.
Qed.

(** and in every state in which the file is published, whatever the status *)
Theorem published_all_writes_done s t :
  reachable s0 s -> published s t = true ->
  forall k x, find_task k (tasks s) = Some x -> k_t x = t -> k_kind x = KIOWrite ->
    past_main (k_st x) = true /\ k_main_ok x = true /\ k_skipped x = false /\ k_ran_main x = true.
Proof.
  intros R Hp. unfold published in Hp.
  destruct (find_file t (files s)) as [f|] eqn:Ef; [|discriminate].
  destruct (renamer_inv_reachable _ _ _ _ _ _ _ _ s R t f Ef Hp) as (kf & F & HF & HFt & HFk & _ & Hran).
  exact (writes_done_of_final s t kf F R HF HFt HFk Hran).
Qed.

(** F5: at every moment the destination is either unpublished (previous
    content) or published with every write performed -- whatever the status
    (a cancel that raced the final rename included) *)
Theorem cancel_old_or_complete s t :
  reachable s0 s ->
  published s t = false \/
  (published s t = true /\
   forall k x, find_task k (tasks s) = Some x -> k_t x = t -> k_kind x = KIOWrite ->
     past_main (k_st x) = true /\ k_main_ok x = true /\ k_skipped x = false /\ k_ran_main x = true).
Proof.
  intros R. destruct (published s t) eqn:Ep; [right|left; reflexivity].
  split; [reflexivity|]. now apply published_all_writes_done.
Qed.
End ReachD.
