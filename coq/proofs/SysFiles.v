(** The temporary file of a download to a path (C06) and the counting view of
    the in-memory bounds (C11), for every reachable state of [model/Sys.v].

    Part A: the [files] store: event-indexed per-file step relation [fstepE],
            guard inversion of [EFs], frame, per-file invariant [finv].
    Part B: who renamed ([renamer_inv]); the plan fact [iofinal_final];
            F1, F2/F5 (rename after every write), F4 (no publication after an
            announce began), F3 (what is provable about temp files at done).
    Part C: C11: permits of IO tasks, one pending child per submitter. *)
From Coq Require Import ZArith List Bool Lia.
From S3V Require Import model.Sys proofs.SysBase proofs.SysCoord proofs.SysCoordInv proofs.SysTask proofs.SysQuiesce.
From S3V Require proofs.SysStage.
Import ListNotations.
Open Scope Z_scope.

(* ================================================================== *)
(** * Part A.  The file store *)

Lemma find_file_upd t t' g l :
  (forall x, f_t (g x) = f_t x) ->
  find_file t (upd_file t' g l) = if t =? t' then option_map g (find_file t l) else find_file t l.
Proof.
  intros Hid. induction l as [|x r IH]; cbn [upd_file map find_file].
  - now destruct (t =? t').
  - change (map _ r) with (upd_file t' g r).
    destruct (f_t x =? t') eqn:E1.
    + rewrite Hid. destruct (f_t x =? t) eqn:E2.
      * assert (E3 : t =? t' = true) by lia. now rewrite E3.
      * exact IH.
    + destruct (f_t x =? t) eqn:E2.
      * assert (E3 : t =? t' = false) by lia. now rewrite E3.
      * exact IH.
Qed.

Lemma find_file_app t l x :
  find_file t (l ++ [x]) =
  match find_file t l with Some f => Some f | None => if f_t x =? t then Some x else None end.
Proof.
  induction l as [|y r IH]; cbn [app find_file]; [reflexivity|].
  destruct (f_t y =? t); [reflexivity|exact IH].
Qed.

Lemma find_file_some_id t l f : find_file t l = Some f -> f_t f = t.
Proof.
  induction l as [|y r IH]; cbn [find_file]; [discriminate|].
  destruct (f_t y =? t) eqn:E; [intros [= <-]; lia|exact IH].
Qed.

(** the roles an actor can have towards the file of transfer [t] *)
Definition io_writer (s : state) (a t : Z) : Prop :=
  exists x, find_task a (tasks s) = Some x /\ k_t x = t /\ k_st x = TMain /\ k_kind x = KIOWrite.
Definition io_finalizer (s : state) (a t : Z) : Prop :=
  exists x, find_task a (tasks s) = Some x /\ k_t x = t /\ k_st x = TMain /\ k_kind x = KIOFinal.
Definition cleaner (s : state) (a t : Z) : Prop :=
  exists c, find_coord t (coords s) = Some c /\ c_cl_runner c = Some a.

(** the five effects *)
Definition f_new (t : Z) : filest := mkFile t true true false false 0 false 0.
Definition f_write (x : filest) : filest :=
  mkFile (f_t x) (f_exists x) (f_open x) (f_renamed x) (f_removed x) (f_writes x + 1)
         (f_write_after_close x) (f_renames x).
Definition f_close (x : filest) : filest :=
  mkFile (f_t x) (f_exists x) false (f_renamed x) (f_removed x) (f_writes x)
         (f_write_after_close x) (f_renames x).
Definition f_rename (x : filest) : filest :=
  mkFile (f_t x) false false true (f_removed x) (f_writes x) (f_write_after_close x) (f_renames x + 1).
Definition f_remove (x : filest) : filest :=
  mkFile (f_t x) false (f_open x) (f_renamed x) (f_exists x || f_removed x) (f_writes x)
         (f_write_after_close x) (f_renames x).

(** guard inversion of the file-system event *)
Lemma efs_inv s a t op s' :
  step s (EFs a t op) = Some s' ->
  busy s a = false /\ tasks s' = tasks s /\ coords s' = coords s /\
  match op, find_file t (files s) with
  | FOpen, None => io_writer s a t /\ files s' = files s ++ [f_new t]
  | FOpen, Some _ => False
  | FWrite, Some f => io_writer s a t /\ f_open f = true /\ files s' = upd_file t f_write (files s)
  | FClose, Some f => (io_finalizer s a t \/ cleaner s a t) /\ files s' = upd_file t f_close (files s)
  | FRename, Some f => io_finalizer s a t /\ f_open f = false /\ f_exists f = true /\
                       files s' = upd_file t f_rename (files s)
  | FRemove, Some f => cleaner s a t /\ files s' = upd_file t f_remove (files s)
  | FRemove, None => cleaner s a t /\ files s' = files s
  | _, None => False
  end.
Proof.
  intros H. cbn [step] in H. apply busy_false_of_if in H as [Hb H]. split; [exact Hb|].
  assert (W : forall kd,
    match find_task a (tasks s) with
    | Some x => (k_t x =? t) && tst_eqb (k_st x) TMain && (k_kind x =? kd)
    | None => false
    end = true ->
    exists x, find_task a (tasks s) = Some x /\ k_t x = t /\ k_st x = TMain /\ k_kind x = kd).
  { intros kd Hw. destruct (find_task a (tasks s)) as [x|]; [|discriminate]. split_ands.
    exists x. repeat split; try lia. now apply tst_eqb_true. }
  assert (C :
    match find_coord t (coords s) with
    | Some c => match c_cl_runner c with Some b => b =? a | None => false end
    | None => false
    end = true -> cleaner s a t).
  { intros Hc. destruct (find_coord t (coords s)) as [c|] eqn:Ec; [|discriminate].
    destruct (c_cl_runner c) as [b|] eqn:Eb; [|discriminate]. exists c. split; [reflexivity|].
    rewrite Eb. f_equal. lia. }
  destruct op; destruct (find_file t (files s)) as [f|] eqn:Ef; try discriminate H.
  - (* open *)
    destruct (match find_task a (tasks s) with Some _ => _ | None => _ end) eqn:Ew in H; [|discriminate].
    injection H as <-. cbn [tasks coords files set_files]. rewrite bump_tasks, bump_coords.
    repeat split; auto. apply (W KIOWrite Ew).
  - (* write *)
    destruct (_ && f_open f) eqn:Eg in H; [|discriminate]. apply andb_prop in Eg as [Ew Eo].
    injection H as <-. cbn [tasks coords files set_files]. rewrite bump_tasks, bump_coords.
    repeat split; auto. apply (W KIOWrite Ew).
  - (* close *)
    destruct (_ || _) eqn:Eg in H; [|discriminate].
    injection H as <-. cbn [tasks coords files set_files]. rewrite bump_tasks, bump_coords.
    repeat split; auto. apply orb_prop in Eg as [Eg|Eg]; [left; apply (W KIOFinal Eg)|right; apply (C Eg)].
  - (* rename *)
    destruct (_ && f_exists f) eqn:Eg in H; [|discriminate]. apply andb_prop in Eg as [Eg Ee].
    apply andb_prop in Eg as [Ew Eo]. apply negb_true_iff in Eo.
    injection H as <-. cbn [tasks coords files set_files]. rewrite bump_tasks, bump_coords.
    repeat split; auto. apply (W KIOFinal Ew).
  - (* remove, record *)
    destruct (match find_coord t (coords s) with Some _ => _ | None => _ end) eqn:Ec in H; [|discriminate].
    injection H as <-. cbn [tasks coords files set_files]. rewrite bump_tasks, bump_coords.
    repeat split; auto.
  - (* remove, no record *)
    destruct (match find_coord t (coords s) with Some _ => _ | None => _ end) eqn:Ec in H; [|discriminate].
    injection H as <-. rewrite bump_tasks, bump_coords, bump_files. repeat split; auto.
Qed.

(** every other event leaves the file store alone *)
Lemma step_files_frame s e s' :
  step s e = Some s' -> match e with EFs _ _ _ => True | _ => files s' = files s end.
Proof.
  intros H. destruct e; try exact I; frame_tac H;
    cbn [files set_coords set_tasks set_sems set_shutdown set_reqs set_uploads];
    rewrite ?set_stage_files, ?bump_files;
    cbn [files set_coords set_tasks set_sems set_shutdown set_reqs set_uploads];
    rewrite ?bump_files; try reflexivity.
Qed.
