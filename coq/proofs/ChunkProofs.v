From Coq Require Import ZArith List Bool Lia ZifyBool Arith.
From S3V Require Import gen.Tables model.Chunk model.Progress.
Import ListNotations.
Open Scope Z_scope.

(** * Well-formed chunks *)

(** The window lies inside the file, the chunk position is non-negative and
    the file's own position is the chunk position shifted by the start. *)
Definition wf (c : chunk) : Prop :=
  0 <= start_byte c /\ 0 <= size c /\
  start_byte c + size c <= Z.of_nat (length (file c)) /\
  0 <= amount_read c /\ fpos c = start_byte c + amount_read c.

Lemma mk_chunk_wf f start requested full en :
  0 <= start -> 0 <= requested -> start <= full -> full <= Z.of_nat (length f) ->
  wf (mk_chunk f start requested full en).
Proof. intros; unfold wf, mk_chunk; cbn; lia. Qed.

Definition step_state (c : chunk) (o : op) : chunk := fst (fst (step c o)).
Definition step_events (c : chunk) (o : op) : list ev := snd (step c o).

Lemma raw_sum_app a b : raw_sum (a ++ b) = raw_sum a + raw_sum b.
Proof. induction a as [|[n|] a IH]; cbn [raw_sum app]; lia. Qed.

Lemma raw_sum_emit n : raw_sum (emit n) = n.
Proof. unfold emit. destruct (n =? 0) eqn:E; cbn [raw_sum]; lia. Qed.

Lemma file_read_length f pos n :
  0 <= pos -> 0 <= n -> (0 < n -> pos + n <= Z.of_nat (length f)) ->
  Z.of_nat (length (file_read f pos n)) = n.
Proof.
  intros Hp Hn Hle. unfold file_read.
  destruct (n <? 0) eqn:E; [lia|].
  rewrite firstn_length, skipn_length. lia.
Qed.

(** What a read asks the file for. *)
Definition to_read (c : chunk) (amt : option Z) : Z :=
  let amount_left := Z.max (size c - amount_read c) 0 in
  match amt with None => amount_left | Some a => Z.min amount_left a end.

Lemma to_read_bounds c amt : wf c -> valid_read amt = true ->
  0 <= to_read c amt /\ amount_read c + to_read c amt <= Z.max (amount_read c) (size c).
Proof.
  intros (H1 & H2 & H3 & H4 & H5) Hv. unfold to_read.
  destruct amt as [a|]; cbn [valid_read] in Hv; lia.
Qed.

Lemma do_read_open c amt : closed c = false ->
  do_read c amt =
  (set_pos c (fpos c + Z.of_nat (length (file_read (file c) (fpos c) (to_read c amt))))
             (amount_read c + Z.of_nat (length (file_read (file c) (fpos c) (to_read c amt)))),
   RData (file_read (file c) (fpos c) (to_read c amt)),
   if enabled c then emit (Z.of_nat (length (file_read (file c) (fpos c) (to_read c amt)))) else []).
Proof. intros Hc. unfold do_read, to_read. rewrite Hc. reflexivity. Qed.

Lemma read_length c amt : wf c -> valid_read amt = true ->
  Z.of_nat (length (file_read (file c) (fpos c) (to_read c amt))) = to_read c amt.
Proof.
  intros Hwf Hv. pose proof (to_read_bounds c amt Hwf Hv) as Hb.
  destruct Hwf as (H1 & H2 & H3 & H4 & H5).
  apply file_read_length; [lia|lia|].
  intros Hpos. unfold to_read in *. destruct amt as [a|]; cbn [valid_read] in Hv; lia.
Qed.

(** * Every operation preserves well-formedness *)

Lemma step_wf c o : wf c -> wf (step_state c o).
Proof.
  intros Hwf. pose proof Hwf as (H1 & H2 & H3 & H4 & H5).
  unfold step_state. destruct o as [amt|w wh| | | |]; cbn [step].
  - unfold do_read. destruct (closed c); [exact Hwf|].
    cbn [fst]. unfold wf, set_pos; cbn [file fpos start_byte size amount_read]. lia.
  - unfold do_seek.
    destruct (negb _); [exact Hwf|]. destruct (closed c); [exact Hwf|].
    cbn [fst]. unfold wf, set_pos; cbn [file fpos start_byte size amount_read].
    destruct (wh =? 1), (wh =? 2); lia.
  - cbn [fst]. unfold wf, set_enabled; cbn. lia.
  - cbn [fst]. unfold wf, set_enabled; cbn. lia.
  - exact Hwf.
  - unfold do_close. cbn [fst]. unfold wf, set_closed; cbn. lia.
Qed.

Lemma step_static c o :
  file (step_state c o) = file c /\ start_byte (step_state c o) = start_byte c /\
  size (step_state c o) = size c.
Proof.
  unfold step_state. destruct o as [amt|w wh| | | |]; cbn [step].
  - unfold do_read. destruct (closed c); cbn; auto.
  - unfold do_seek. destruct (negb _); [cbn; auto|]. destruct (closed c); cbn; auto.
  - cbn; auto.
  - cbn; auto.
  - cbn; auto.
  - cbn; auto.
Qed.

Lemma run_cons c o rest :
  run c (o :: rest) =
  (fst (fst (run (step_state c o) rest)),
   snd (fst (step c o)) :: snd (fst (run (step_state c o) rest)),
   step_events c o ++ snd (run (step_state c o) rest)).
Proof.
  cbn [run]. unfold step_state, step_events.
  destruct (step c o) as [[c1 r] e]. cbn [fst snd].
  destruct (run c1 rest) as [[c2 rs] es]. reflexivity.
Qed.

Lemma run_state_cons c o rest : run_state c (o :: rest) = run_state (step_state c o) rest.
Proof. unfold run_state. rewrite run_cons. reflexivity. Qed.

Lemma run_events_cons c o rest :
  run_events c (o :: rest) = step_events c o ++ run_events (step_state c o) rest.
Proof. unfold run_events. rewrite run_cons. reflexivity. Qed.

Lemma run_state_app c p q : run_state c (p ++ q) = run_state (run_state c p) q.
Proof.
  revert c; induction p as [|o p IH]; intros c; [reflexivity|].
  rewrite <- app_comm_cons, !run_state_cons. apply IH.
Qed.

Lemma run_events_app c p q :
  run_events c (p ++ q) = run_events c p ++ run_events (run_state c p) q.
Proof.
  revert c; induction p as [|o p IH]; intros c; [reflexivity|].
  rewrite <- app_comm_cons, !run_events_cons, run_state_cons, IH. now rewrite app_assoc.
Qed.

Lemma run_wf c ops : wf c -> wf (run_state c ops).
Proof.
  revert c; induction ops as [|o ops IH]; intros c Hwf; [exact Hwf|].
  rewrite run_state_cons. apply IH, step_wf, Hwf.
Qed.

Lemma run_static c ops :
  file (run_state c ops) = file c /\ start_byte (run_state c ops) = start_byte c /\
  size (run_state c ops) = size c.
Proof.
  revert c; induction ops as [|o ops IH]; intros c; [auto|].
  rewrite run_state_cons. destruct (IH (step_state c o)) as (A & B & C).
  destruct (step_static c o) as (A' & B' & C'). repeat split; congruence.
Qed.

(** * The reporting invariant *)

(** While reporting is enabled the sum of everything emitted so far is the
    bounded position; while it is suppressed the sum is frozen at the bounded
    position reporting was switched off at ([anchor]). *)
Definition inv (c : chunk) (anchor sum : Z) : Prop :=
  (if enabled c then sum = bounded_pos c else sum = anchor) /\ 0 <= anchor <= size c.

Definition step_anchor (c : chunk) (a : Z) (o : op) : Z :=
  match o with
  | Disable => if enabled c then bounded_pos c else a
  | _ => a
  end.

Fixpoint anchor_after (c : chunk) (a : Z) (ops : list op) : Z :=
  match ops with
  | [] => a
  | o :: rest => anchor_after (step_state c o) (step_anchor c a o) rest
  end.

Lemma suppressed_cons c a o rest :
  suppressed_returns c a (o :: rest) <->
  (o = Enable -> enabled c = false -> bounded_pos c = a) /\
  suppressed_returns (step_state c o) (step_anchor c a o) rest.
Proof.
  unfold step_state, step_anchor. destruct o; cbn [suppressed_returns]; split; intros H;
    try (split; [intros; discriminate|exact H]); try (exact (proj2 H)).
  - destruct H as [H1 H2]. split; [intros _; exact H1|exact H2].
  - destruct H as [H1 H2]. split; [apply H1; reflexivity|exact H2].
Qed.

Lemma suppressed_app c a p q :
  suppressed_returns c a (p ++ q) <->
  suppressed_returns c a p /\ suppressed_returns (run_state c p) (anchor_after c a p) q.
Proof.
  revert c a; induction p as [|o p IH]; intros c a.
  - cbn [app anchor_after]. unfold run_state; cbn. tauto.
  - rewrite <- app_comm_cons, !suppressed_cons, run_state_cons, IH. cbn [anchor_after]. tauto.
Qed.

Lemma anchor_after_app c a p q :
  anchor_after c a (p ++ q) = anchor_after (run_state c p) (anchor_after c a p) q.
Proof.
  revert c a; induction p as [|o p IH]; intros c a; [reflexivity|].
  rewrite <- app_comm_cons, run_state_cons. cbn [anchor_after]. apply IH.
Qed.

Lemma step_inv c a s o :
  wf c -> valid_op o = true -> inv c a s ->
  (o = Enable -> enabled c = false -> bounded_pos c = a) ->
  inv (step_state c o) (step_anchor c a o) (s + raw_sum (step_events c o)).
Proof.
  intros Hwf Hv [Hs Ha] Hen. pose proof Hwf as (H1 & H2 & H3 & H4 & H5).
  unfold inv, step_state, step_events, step_anchor.
  destruct o as [amt|w wh| | | |]; cbn [step].
  - (* read *)
    destruct (closed c) eqn:Ecl.
    + unfold do_read; rewrite Ecl; cbn [fst snd raw_sum]. rewrite Z.add_0_r. split; assumption.
    + rewrite (do_read_open c amt Ecl). cbn [fst snd]. unfold set_pos. cbn [enabled size amount_read].
      cbn [valid_op] in Hv. rewrite (read_length c amt Hwf Hv).
      pose proof (to_read_bounds c amt Hwf Hv) as Hb.
      unfold bounded_pos in *; cbn [amount_read size].
      destruct (enabled c).
      * rewrite raw_sum_emit. split; [|exact Ha]. subst s. unfold to_read in *.
        destruct amt as [x|]; cbn [valid_read] in Hv; lia.
      * cbn [raw_sum]. split; [lia|exact Ha].
  - (* seek *)
    unfold do_seek.
    destruct (negb _); [cbn [fst snd raw_sum]; rewrite Z.add_0_r; split; assumption|].
    destruct (closed c); [cbn [fst snd raw_sum]; rewrite Z.add_0_r; split; assumption|].
    cbn [fst snd]. unfold set_pos. cbn [enabled size amount_read]. unfold bounded_pos in *; cbn [amount_read size].
    destruct (enabled c).
    + rewrite raw_sum_emit. split; [|exact Ha]. subst s. lia.
    + cbn [raw_sum]. split; [lia|exact Ha].
  - (* enable *)
    cbn [fst snd raw_sum]. unfold set_enabled. cbn [enabled size]. rewrite Z.add_0_r.
    split; [|exact Ha]. unfold bounded_pos in *; cbn [amount_read size].
    destruct (enabled c) eqn:E; [exact Hs|]. subst s. symmetry. now apply Hen.
  - (* disable *)
    cbn [fst snd raw_sum]. unfold set_enabled. cbn [enabled size]. rewrite Z.add_0_r.
    destruct (enabled c) eqn:E.
    + split; [exact Hs|]. unfold bounded_pos. lia.
    + split; [exact Hs|exact Ha].
  - (* tell *)
    cbn [fst snd raw_sum]. rewrite Z.add_0_r. split; assumption.
  - (* close *)
    unfold do_close. cbn [fst snd]. unfold set_closed. cbn [enabled size].
    destruct (enabled c) eqn:E; cbn [raw_sum]; rewrite Z.add_0_r; (split; [|exact Ha]).
    + unfold bounded_pos in *; cbn [amount_read size]. exact Hs.
    + exact Hs.
Qed.

Lemma run_inv ops : forall c a s,
  wf c -> forallb valid_op ops = true -> suppressed_returns c a ops -> inv c a s ->
  inv (run_state c ops) (anchor_after c a ops) (s + raw_sum (run_events c ops)).
Proof.
  induction ops as [|o ops IH]; intros c a s Hwf Hv Hsr Hinv.
  - unfold run_state, run_events; cbn. now rewrite Z.add_0_r.
  - cbn [forallb] in Hv. apply andb_prop in Hv as [Hvo Hvr].
    apply suppressed_cons in Hsr as [Hen Hsr].
    rewrite run_state_cons, run_events_cons, raw_sum_app, Z.add_assoc. cbn [anchor_after].
    apply IH; [now apply step_wf|exact Hvr|exact Hsr|].
    now apply step_inv.
Qed.

Lemma forallb_firstn {A} (p : A -> bool) n l : forallb p l = true -> forallb p (firstn n l) = true.
Proof.
  revert n; induction l as [|x l IH]; intros n H; [now rewrite firstn_nil|].
  destruct n; [reflexivity|]. cbn [firstn forallb] in *. apply andb_prop in H as [H1 H2].
  rewrite H1. cbn. now apply IH.
Qed.

Lemma suppressed_firstn c a ops n :
  suppressed_returns c a ops -> suppressed_returns c a (firstn n ops).
Proof.
  intros H. rewrite <- (firstn_skipn n ops) in H. now apply suppressed_app in H as [H _].
Qed.

(** The invariant at every point of a script: for every prefix. *)
Theorem reported_eq_bounded_pos_general c a ops n :
  wf c -> forallb valid_op ops = true -> suppressed_returns c a ops -> inv c a 0 ->
  let c' := run_state c (firstn n ops) in
  let sum := raw_sum (run_events c (firstn n ops)) in
  (enabled c' = true -> sum = bounded_pos c') /\ 0 <= sum <= size c.
Proof.
  intros Hwf Hv Hsr Hinv c' sum.
  pose proof (run_inv (firstn n ops) c a 0 Hwf (forallb_firstn _ _ _ Hv)
                      (suppressed_firstn _ _ _ n Hsr) Hinv) as [Hs Ha].
  fold c' in Hs, Ha. rewrite Z.add_0_l in Hs. fold sum in Hs.
  destruct (run_static c (firstn n ops)) as (_ & _ & Hsz). fold c' in Hsz.
  pose proof (run_wf c (firstn n ops) Hwf) as (W1 & W2 & W3 & W4 & W5). fold c' in W1, W2, W3, W4, W5.
  split.
  - intros E. rewrite E in Hs. exact Hs.
  - destruct (enabled c'); [unfold bounded_pos in Hs|]; lia.
Qed.

(** * Request scripts satisfy the hypothesis *)

Lemma valid_body_is_valid o : valid_body_op o = true -> valid_op o = true.
Proof. destruct o; cbn; intros; try discriminate; auto. Qed.

Lemma forallb_impl {A} (p q : A -> bool) l :
  (forall x, p x = true -> q x = true) -> forallb p l = true -> forallb q l = true.
Proof.
  intros H; induction l as [|x l IH]; [reflexivity|]. cbn. intros E.
  apply andb_prop in E as [E1 E2]. rewrite (H _ E1), (IH E2). reflexivity.
Qed.

Lemma body_op_flags c o : valid_body_op o = true ->
  enabled (step_state c o) = enabled c /\ closed (step_state c o) = closed c /\
  step_anchor c 0 o = 0 /\ forall a, step_anchor c a o = a.
Proof.
  unfold step_state. destruct o as [amt|w wh| | | |]; cbn [valid_body_op step step_anchor];
    intros Hv; try discriminate.
  - unfold do_read. destruct (closed c) eqn:E; cbn; auto.
  - unfold do_seek. destruct (negb _); [cbn; auto|]. destruct (closed c) eqn:E; cbn; auto.
  - cbn; auto.
Qed.

(** A suppressed segment: flags and anchor are untouched, no Enable occurs. *)
Lemma body_ok body : forall c a, forallb valid_body_op body = true ->
  suppressed_returns c a body /\ anchor_after c a body = a /\
  enabled (run_state c body) = enabled c /\ closed (run_state c body) = closed c.
Proof.
  induction body as [|o body IH]; intros c a Hv.
  - unfold run_state; cbn. auto.
  - cbn [forallb] in Hv. apply andb_prop in Hv as [Hvo Hvr].
    destruct (body_op_flags c o Hvo) as (F1 & F2 & _ & F4).
    destruct (IH (step_state c o) a Hvr) as (I1 & I2 & I3 & I4).
    rewrite suppressed_cons, run_state_cons. cbn [anchor_after]. rewrite F4.
    repeat split; try congruence.
    intros ->. discriminate Hvo.
Qed.

Lemma read_is_body_op reads : forallb valid_read reads = true ->
  forallb valid_body_op (send_ops reads) = true.
Proof.
  unfold send_ops. induction reads as [|r reads IH]; [reflexivity|].
  cbn. intros E. apply andb_prop in E as [E1 E2]. rewrite E1, (IH E2). reflexivity.
Qed.

Lemma seek0_state c : closed c = false ->
  step_state c (Seek 0 0) = set_pos c (start_byte c) 0.
Proof.
  intros Hc. unfold step_state; cbn [step]. unfold do_seek. rewrite Hc. cbn [negb orb Z.eqb fst].
  f_equal; lia.
Qed.

(** The start-of-chunk condition a Sign segment needs. *)
Definition at_start (c : chunk) (a : Z) : Prop :=
  closed c = false /\ if enabled c then bounded_pos c = 0 else a = 0.

Lemma sign_tail_ok c :
  closed c = false -> enabled c = false -> 0 <= size c ->
  suppressed_returns c 0 [Seek 0 0; Enable] /\
  anchor_after c 0 [Seek 0 0; Enable] = 0 /\
  enabled (run_state c [Seek 0 0; Enable]) = true /\
  closed (run_state c [Seek 0 0; Enable]) = false /\
  amount_read (run_state c [Seek 0 0; Enable]) = 0.
Proof.
  intros Hc He Hs.
  rewrite !suppressed_cons, !run_state_cons. cbn [anchor_after step_anchor].
  rewrite (seek0_state c Hc).
  split; [|split; [reflexivity|split; [reflexivity|split; [exact Hc|reflexivity]]]].
  split; [intros; discriminate|]. split; [|exact I].
  intros _ _. unfold bounded_pos, set_pos; cbn [amount_read size]. lia.
Qed.

Lemma sign_ok body c a :
  0 <= size c -> forallb valid_body_op body = true -> at_start c a ->
  suppressed_returns c a (sign_ops body) /\
  anchor_after c a (sign_ops body) = 0 /\
  enabled (run_state c (sign_ops body)) = true /\
  closed (run_state c (sign_ops body)) = false /\
  amount_read (run_state c (sign_ops body)) = 0.
Proof.
  intros Hsz Hv [Hcl Hst]. unfold sign_ops.
  set (c1 := step_state c Disable).
  assert (Ha1 : step_anchor c a Disable = 0).
  { cbn [step_anchor]. destruct (enabled c); assumption. }
  assert (E1 : enabled c1 = false) by reflexivity.
  assert (C1 : closed c1 = false) by exact Hcl.
  destruct (body_ok body c1 0 Hv) as (B1 & B2 & B3 & B4).
  assert (E2 : enabled (run_state c1 body) = false) by congruence.
  assert (C2 : closed (run_state c1 body) = false) by congruence.
  assert (Z2 : 0 <= size (run_state c1 body)).
  { destruct (run_static c1 body) as (_ & _ & ->). exact Hsz. }
  destruct (sign_tail_ok _ C2 E2 Z2) as (T1 & T2 & T3 & T4 & T5).
  rewrite suppressed_cons, run_state_cons. cbn [anchor_after]. fold c1. rewrite Ha1.
  rewrite suppressed_app, anchor_after_app, run_state_app, B2.
  split. { split; [intros; discriminate|]. split; [exact B1|exact T1]. }
  split; [exact T2|]. split; [exact T3|]. split; [exact T4|exact T5].
Qed.

Lemma attempt_ok att c a :
  0 <= size c -> valid_attempt att = true -> at_start c a ->
  suppressed_returns c a (attempt_ops att) /\
  anchor_after c a (attempt_ops att) = 0 /\
  enabled (run_state c (attempt_ops att)) = true /\
  closed (run_state c (attempt_ops att)) = false.
Proof.
  intros Hsz Hv Hst. unfold valid_attempt in Hv. apply andb_prop in Hv as [Hb Hr].
  destruct (sign_ok (sign_body att) c a Hsz Hb Hst) as (S1 & S2 & S3 & S4 & S5).
  destruct (body_ok (send_ops (send_reads att)) (run_state c (sign_ops (sign_body att))) 0
                    (read_is_body_op _ Hr)) as (B1 & B2 & B3 & B4).
  unfold attempt_ops. rewrite suppressed_app, anchor_after_app, run_state_app, S2.
  split; [split; assumption|]. split; [exact B2|]. split; congruence.
Qed.

Lemma resends_ok rs : forall c a,
  0 <= size c -> forallb valid_attempt rs = true -> enabled c = true -> closed c = false ->
  let ops := flat_map (fun x => Seek 0 0 :: attempt_ops x) rs in
  suppressed_returns c a ops /\
  enabled (run_state c ops) = true /\ closed (run_state c ops) = false.
Proof.
  induction rs as [|r rs IH]; intros c a Hsz Hv He Hc; cbn [flat_map].
  - unfold run_state; cbn. auto.
  - cbn [forallb] in Hv. apply andb_prop in Hv as [Hvr Hvs].
    set (c1 := step_state c (Seek 0 0)).
    assert (S1 : c1 = set_pos c (start_byte c) 0) by (apply seek0_state; exact Hc).
    assert (Hsz1 : 0 <= size c1) by (rewrite S1; exact Hsz).
    assert (Hst1 : at_start c1 a).
    { rewrite S1. split; [exact Hc|]. unfold set_pos; cbn [enabled]. rewrite He.
      unfold bounded_pos; cbn [amount_read size]. lia. }
    destruct (attempt_ok r c1 a Hsz1 Hvr Hst1) as (A1 & A2 & A3 & A4).
    assert (Hsz2 : 0 <= size (run_state c1 (attempt_ops r))).
    { destruct (run_static c1 (attempt_ops r)) as (_ & _ & ->). exact Hsz1. }
    destruct (IH (run_state c1 (attempt_ops r)) 0 Hsz2 Hvs A3 A4) as (I1 & I2 & I3).
    rewrite <- app_comm_cons, suppressed_cons, run_state_cons. fold c1.
    cbn [step_anchor]. rewrite suppressed_app, run_state_app, A2.
    split; [|split; assumption].
    split; [intros; discriminate|]. split; assumption.
Qed.

Lemma request_ok first rs c a :
  0 <= size c -> valid_attempt first = true -> forallb valid_attempt rs = true ->
  at_start c a ->
  suppressed_returns c a (request_ops first rs) /\
  enabled (run_state c (request_ops first rs)) = true /\
  closed (run_state c (request_ops first rs)) = false.
Proof.
  intros Hsz Hvf Hvs Hst. unfold request_ops.
  destruct (attempt_ok first c a Hsz Hvf Hst) as (A1 & A2 & A3 & A4).
  assert (Hsz2 : 0 <= size (run_state c (attempt_ops first))).
  { destruct (run_static c (attempt_ops first)) as (_ & _ & ->). exact Hsz. }
  destruct (resends_ok rs (run_state c (attempt_ops first)) 0 Hsz2 Hvs A3 A4) as (R1 & R2 & R3).
  rewrite suppressed_app, run_state_app, A2. split; [split; assumption|]. split; assumption.
Qed.

Lemma valid_attempt_ops att : valid_attempt att = true -> forallb valid_op (attempt_ops att) = true.
Proof.
  intros Hv. unfold valid_attempt in Hv. apply andb_prop in Hv as [Hb Hr].
  unfold attempt_ops, sign_ops. rewrite forallb_app. cbn [forallb valid_op andb].
  rewrite forallb_app. cbn [forallb valid_op andb].
  rewrite (forallb_impl _ _ _ valid_body_is_valid Hb).
  rewrite (forallb_impl _ _ _ valid_body_is_valid (read_is_body_op _ Hr)). reflexivity.
Qed.

Lemma valid_request_ops first rs :
  valid_attempt first = true -> forallb valid_attempt rs = true ->
  forallb valid_op (request_ops first rs) = true.
Proof.
  intros Hf Hrs. unfold request_ops. rewrite forallb_app, (valid_attempt_ops _ Hf). cbn [andb].
  induction rs as [|r rs IH]; [reflexivity|].
  cbn [forallb] in Hrs. apply andb_prop in Hrs as [H1 H2].
  cbn [flat_map]. rewrite <- app_comm_cons. cbn [forallb valid_op andb].
  rewrite forallb_app, (valid_attempt_ops _ H1), (IH H2). reflexivity.
Qed.

(** A chunk ready for its first request: open, and if reporting is already
    on nothing has been read yet. *)
Definition fresh (c : chunk) : Prop :=
  wf c /\ closed c = false /\ (enabled c = true -> bounded_pos c = 0).

Lemma fresh_mk_chunk f start requested full en :
  0 <= start -> 0 <= requested -> start <= full -> full <= Z.of_nat (length f) ->
  fresh (mk_chunk f start requested full en).
Proof.
  intros. split; [now apply mk_chunk_wf|]. split; [reflexivity|].
  intros _. unfold bounded_pos, mk_chunk; cbn. lia.
Qed.

Lemma fresh_inv c : fresh c -> inv c 0 0 /\ at_start c 0.
Proof.
  intros ((H1 & H2 & H3 & H4 & H5) & Hc & He). unfold inv, at_start.
  destruct (enabled c).
  - rewrite (He eq_refl). repeat split; auto; lia.
  - repeat split; auto; lia.
Qed.

(** The whole life of an upload body: request script then close. *)
Lemma body_life_ok first rs c :
  fresh c -> valid_attempt first = true -> forallb valid_attempt rs = true ->
  forallb valid_op (body_life first rs) = true /\
  suppressed_returns c 0 (body_life first rs).
Proof.
  intros Hf Hvf Hvs. destruct (fresh_inv c Hf) as [_ Hst].
  destruct Hf as ((H1 & H2 & H3 & H4 & H5) & Hc & He).
  destruct (request_ok first rs c 0 H2 Hvf Hvs Hst) as (R1 & R2 & R3).
  unfold body_life. split.
  - rewrite forallb_app, (valid_request_ops _ _ Hvf Hvs). reflexivity.
  - rewrite suppressed_app. split; [exact R1|]. cbn. exact I.
Qed.

Theorem request_reported_eq_bounded_pos first rs c n :
  fresh c -> valid_attempt first = true -> forallb valid_attempt rs = true ->
  let pre := firstn n (body_life first rs) in
  (enabled (run_state c pre) = true ->
     raw_sum (run_events c pre) = bounded_pos (run_state c pre)) /\
  0 <= raw_sum (run_events c pre) <= size c.
Proof.
  intros Hf Hvf Hvs. destruct (body_life_ok first rs c Hf Hvf Hvs) as [Hv Hsr].
  destruct (fresh_inv c Hf) as [Hinv _]. destruct Hf as (Hwf & _).
  exact (reported_eq_bounded_pos_general c 0 (body_life first rs) n Hwf Hv Hsr Hinv).
Qed.

(** After a complete send (the chunk position reached the chunk size) the
    request has reported exactly the chunk size. *)
Theorem request_complete_sum first rs c :
  fresh c -> valid_attempt first = true -> forallb valid_attempt rs = true ->
  size c <= amount_read (run_state c (request_ops first rs)) ->
  raw_sum (run_events c (request_ops first rs)) = size c /\
  run_events c (body_life first rs) = run_events c (request_ops first rs) ++ [EvClose].
Proof.
  intros Hf Hvf Hvs Hfull.
  destruct (fresh_inv c Hf) as [Hinv Hst]. pose proof Hf as (Hwf & _).
  pose proof Hwf as (H1 & H2 & H3 & H4 & H5).
  destruct (request_ok first rs c 0 H2 Hvf Hvs Hst) as (R1 & R2 & R3).
  pose proof (run_inv (request_ops first rs) c 0 0 Hwf (valid_request_ops _ _ Hvf Hvs) R1 Hinv)
    as [Hs _].
  rewrite R2, Z.add_0_l in Hs. split.
  - rewrite Hs. unfold bounded_pos.
    destruct (run_static c (request_ops first rs)) as (_ & _ & ->). lia.
  - unfold body_life. rewrite run_events_app. f_equal.
    unfold run_events; cbn [run step do_close snd]. rewrite R2. reflexivity.
Qed.

(** * The hypothesis is necessary *)

(** Reporting is switched off at position 4 and on again at position 0: the
    second send is reported on top of the first. *)
Theorem suppressed_rewind_overreports_witness :
  let c := mk_chunk [1; 2; 3; 4] 0 4 4 true in
  let ops := [Read (Some 4); Disable; Seek 0 0; Enable; Read (Some 4)] in
  fresh c /\ forallb valid_op ops = true /\ ~ suppressed_returns c 0 ops /\
  raw_sum (run_events c ops) = 8 /\ size c = 4.
Proof.
  cbv zeta. split; [apply fresh_mk_chunk; cbn; lia|].
  split; [reflexivity|]. split; [|split; reflexivity].
  cbn. intros [H _]. specialize (H eq_refl). discriminate H.
Qed.

(** * A send attempt returns exactly the chunk's bytes *)

Lemma chunk_bytes_length c : wf c -> length (chunk_bytes c) = Z.to_nat (size c).
Proof.
  intros (H1 & H2 & H3 & H4 & H5). unfold chunk_bytes. rewrite firstn_length, skipn_length. lia.
Qed.

Lemma firstn_add {A} (n m : nat) (l : list A) :
  firstn (n + m) l = firstn n l ++ firstn m (skipn n l).
Proof.
  revert l; induction n as [|n IH]; intros l; [reflexivity|].
  destruct l as [|x l]; cbn [firstn skipn Nat.add app].
  - now rewrite firstn_nil.
  - now rewrite IH.
Qed.

Lemma skipn_twice {A} (n m : nat) (l : list A) : skipn n (skipn m l) = skipn (m + n) l.
Proof.
  revert l; induction m as [|m IH]; intros l; [reflexivity|].
  destruct l as [|x l]; cbn [skipn Nat.add]; [now rewrite skipn_nil|apply IH].
Qed.

Lemma read_slice c n : wf c -> 0 <= n -> amount_read c <= size c ->
  file_read (file c) (fpos c) (Z.min (size c - amount_read c) n) =
  firstn (Z.to_nat (Z.min (size c - amount_read c) n))
         (skipn (Z.to_nat (amount_read c)) (chunk_bytes c)).
Proof.
  intros (H1 & H2 & H3 & H4 & H5) Hn Hle. unfold file_read, chunk_bytes.
  destruct (Z.min (size c - amount_read c) n <? 0) eqn:E; [lia|].
  rewrite H5.
  rewrite skipn_firstn_comm, firstn_firstn, skipn_twice.
  f_equal; [|f_equal]; lia.
Qed.

Lemma send_loop_exact sizes : forall c acc c' out e,
  wf c -> closed c = false -> Forall (fun n => 0 < n) sizes ->
  amount_read c <= size c ->
  acc = firstn (Z.to_nat (amount_read c)) (chunk_bytes c) ->
  send_loop c sizes acc = Some (c', out, e) ->
  out = chunk_bytes c /\ amount_read c' = size c.
Proof.
  induction sizes as [|n sizes IH]; intros c acc c' out e Hwf Hcl Hpos Hle Hacc Hrun;
    [discriminate|].
  cbn [send_loop] in Hrun. rewrite (do_read_open c (Some n) Hcl) in Hrun.
  inversion Hpos as [|? ? Hn Hrest]; subst.
  assert (Hv : valid_read (Some n) = true) by (cbn; lia).
  pose proof (read_length c (Some n) Hwf Hv) as Hlen.
  assert (Htr : to_read c (Some n) = Z.min (size c - amount_read c) n) by (unfold to_read; lia).
  rewrite Htr in *.
  pose proof (read_slice c n Hwf ltac:(lia) Hle) as Hsl.
  set (d := file_read (file c) (fpos c) (Z.min (size c - amount_read c) n)) in *.
  destruct d as [|x d'] eqn:Ed.
  - injection Hrun as <- <- <-. cbn [length] in Hlen.
    assert (amount_read c = size c) by lia.
    split.
    + rewrite H. apply firstn_all2. rewrite chunk_bytes_length by exact Hwf. lia.
    + unfold set_pos; cbn [amount_read]. lia.
  - rewrite <- Ed in *.
    set (c1 := set_pos c (fpos c + Z.of_nat (length d)) (amount_read c + Z.of_nat (length d))) in *.
    destruct (send_loop c1 sizes (firstn (Z.to_nat (amount_read c)) (chunk_bytes c) ++ d))
      as [[[c2 out2] e2]|] eqn:Erec; [|discriminate].
    injection Hrun as <- <- <-.
    assert (Hwf1 : wf c1).
    { pose proof (step_wf c (Read (Some n)) Hwf) as W. unfold step_state in W. cbn [step] in W.
      rewrite (do_read_open c (Some n) Hcl) in W. cbn [fst] in W. rewrite Htr in W. exact W. }
    assert (Hcb : chunk_bytes c1 = chunk_bytes c) by reflexivity.
    assert (out2 = chunk_bytes c1 /\ amount_read c2 = size c1) as [I1 I2].
    { apply (IH c1 (firstn (Z.to_nat (amount_read c)) (chunk_bytes c) ++ d) c2 out2 e2 Hwf1 Hcl Hrest);
        [| |exact Erec].
      - unfold c1, set_pos; cbn [amount_read size]. lia.
      - rewrite Hcb. unfold c1 at 1, set_pos; cbn [amount_read].
        rewrite Z2Nat.inj_add by (destruct Hwf as (?&?&?&?&?); lia).
        rewrite firstn_add. f_equal. rewrite Nat2Z.id. rewrite Hsl at 1.
        f_equal. lia. }
    split; [congruence|exact I2].
Qed.

Lemma send_loop_total sizes : forall c acc,
  wf c -> closed c = false -> Forall (fun n => 0 < n) sizes ->
  amount_read c <= size c -> size c - amount_read c < Z.of_nat (length sizes) ->
  exists r, send_loop c sizes acc = Some r.
Proof.
  induction sizes as [|n sizes IH]; intros c acc Hwf Hcl Hpos Hle Hlen; [cbn in Hlen; lia|].
  cbn [send_loop]. rewrite (do_read_open c (Some n) Hcl).
  inversion Hpos as [|? ? Hn Hrest]; subst.
  assert (Hv : valid_read (Some n) = true) by (cbn; lia).
  pose proof (read_length c (Some n) Hwf Hv) as Hl.
  assert (Htr : to_read c (Some n) = Z.min (size c - amount_read c) n) by (unfold to_read; lia).
  rewrite Htr in *.
  set (d := file_read (file c) (fpos c) (Z.min (size c - amount_read c) n)) in *.
  destruct d as [|x d'] eqn:Ed; [eauto|]. rewrite <- Ed in *.
  set (c1 := set_pos c (fpos c + Z.of_nat (length d)) (amount_read c + Z.of_nat (length d))).
  assert (Hwf1 : wf c1).
  { pose proof (step_wf c (Read (Some n)) Hwf) as W. unfold step_state in W. cbn [step] in W.
    rewrite (do_read_open c (Some n) Hcl) in W. cbn [fst] in W. rewrite Htr in W. exact W. }
  assert (Hd : 1 <= Z.of_nat (length d)) by (rewrite Ed; cbn [length]; lia).
  destruct (IH c1 (acc ++ d) Hwf1 Hcl Hrest) as [[[c2 o2] e2] Hr].
  - unfold c1, set_pos; cbn [amount_read size]. lia.
  - unfold c1, set_pos; cbn [amount_read size]. cbn [length] in Hlen. lia.
  - rewrite Hr. eauto.
Qed.

(** A send loop is a run of reads (so the reporting invariant applies to it). *)
Lemma send_loop_is_run sizes : forall c acc c' out e,
  send_loop c sizes acc = Some (c', out, e) ->
  exists k, c' = run_state c (send_ops (map Some (firstn k sizes))) /\
            e = run_events c (send_ops (map Some (firstn k sizes))).
Proof.
  induction sizes as [|n sizes IH]; intros c acc c' out e Hrun; [discriminate|].
  cbn [send_loop] in Hrun.
  destruct (do_read c (Some n)) as [[c1 r] e1] eqn:Er.
  destruct r as [d| | |]; try discriminate.
  destruct d as [|x d'].
  - injection Hrun as <- <- <-. exists 1%nat. cbn [firstn map send_ops].
    unfold run_state, run_events. cbn [run step]. rewrite Er. cbn. now rewrite app_nil_r.
  - destruct (send_loop c1 sizes (acc ++ x :: d')) as [[[c2 o2] e2]|] eqn:Erec; [|discriminate].
    injection Hrun as <- <- <-. destruct (IH _ _ _ _ _ Erec) as (k & K1 & K2).
    exists (S k). cbn [firstn map send_ops]. fold (send_ops (map Some (firstn k sizes))).
    rewrite run_state_cons, run_events_cons. unfold step_state, step_events. cbn [step].
    rewrite Er. cbn [fst snd]. split; congruence.
Qed.

Theorem send_exact c0 history sizes c' out e :
  wf c0 -> closed (run_state c0 history) = false -> Forall (fun n => 0 < n) sizes ->
  send_loop (step_state (run_state c0 history) (Seek 0 0)) sizes [] = Some (c', out, e) ->
  out = chunk_bytes c0 /\ amount_read c' = size c0.
Proof.
  intros Hwf Hcl Hpos Hrun.
  set (c := run_state c0 history) in *.
  assert (Hwfc : wf c) by (apply run_wf; exact Hwf).
  rewrite (seek0_state c Hcl) in Hrun.
  set (c1 := set_pos c (start_byte c) 0) in *.
  assert (Hwf1 : wf c1).
  { pose proof (step_wf c (Seek 0 0) Hwfc) as W. rewrite (seek0_state c Hcl) in W. exact W. }
  destruct (run_static c0 history) as (F1 & F2 & F3). fold c in F1, F2, F3.
  assert (Hcb : chunk_bytes c1 = chunk_bytes c0).
  { unfold chunk_bytes, c1, set_pos; cbn [file start_byte size]. now rewrite F1, F2, F3. }
  destruct (send_loop_exact sizes c1 [] c' out e Hwf1 Hcl Hpos) as [E1 E2]; try exact Hrun.
  - unfold c1, set_pos; cbn [amount_read size]. destruct Hwfc as (?&?&?&?&?). lia.
  - reflexivity.
  - split; [congruence|]. rewrite E2. unfold c1, set_pos; cbn [size]. exact F3.
Qed.

(** * The decision procedure for the hypotheses is sound *)

Lemma suppressed_ok_sound ops : forall c a,
  suppressed_ok c a ops = true -> suppressed_returns c a ops.
Proof.
  induction ops as [|o ops IH]; intros c a H; [exact I|].
  destruct o; cbn [suppressed_ok suppressed_returns] in *; try (apply IH; exact H).
  apply andb_prop in H as [H1 H2]. split; [|apply IH; exact H2].
  intros E. rewrite E in H1. cbn [orb] in H1. lia.
Qed.

Theorem checked_script_reports_bounded_pos c ops n :
  hyp_ok c ops = true ->
  let c' := run_state c (firstn n ops) in
  let sum := raw_sum (run_events c (firstn n ops)) in
  (enabled c' = true -> sum = bounded_pos c') /\ 0 <= sum <= size c.
Proof.
  intros H. unfold hyp_ok in H.
  repeat (apply andb_prop in H as [H ?]).
  assert (Hwf : wf c) by (unfold wf; lia).
  assert (Hf : fresh c).
  { split; [exact Hwf|]. split; [destruct (closed c); [discriminate|reflexivity]|].
    intros E. rewrite E in *. cbn in *. lia. }
  destruct (fresh_inv c Hf) as [Hinv _].
  apply (reported_eq_bounded_pos_general c 0 ops n Hwf); try assumption.
  now apply suppressed_ok_sound.
Qed.
