From Coq Require Import ZArith List Bool Lia ZifyBool Arith.
From S3V Require Import gen.Tables model.Plan.
Import ListNotations.
Open Scope Z_scope.
Ltac Zify.zify_post_hook ::= Z.to_euclidean_division_equations.

(** * Ceiling division *)

Lemma ceil_div_spec a b : 0 <= a -> 0 < b ->
  (ceil_div a b - 1) * b < a <= ceil_div a b * b.
Proof. unfold ceil_div; intros; nia. Qed.

Lemma ceil_div_nonneg a b : 0 <= a -> 0 < b -> 0 <= ceil_div a b.
Proof. unfold ceil_div; intros; nia. Qed.

Lemma ceil_div_least a b n : 0 <= a -> 0 < b -> a <= n * b -> ceil_div a b <= n.
Proof. unfold ceil_div; intros; nia. Qed.

Lemma ceil_div_zero_iff a b : 0 <= a -> 0 < b -> (ceil_div a b = 0 <-> a = 0).
Proof. unfold ceil_div; intros; split; intros; nia. Qed.

Lemma ceil_div_pos a b : 0 < a -> 0 < b -> 1 <= ceil_div a b.
Proof. unfold ceil_div; intros; nia. Qed.

Lemma ceil_div_antimono a b c : 0 <= a -> 0 < b -> b <= c ->
  ceil_div a c <= ceil_div a b.
Proof.
  intros Ha Hb Hbc. apply ceil_div_least; try lia.
  pose proof (ceil_div_spec a b Ha Hb). pose proof (ceil_div_nonneg a b Ha Hb). nia.
Qed.

Lemma ceil_div_le_one a b : 0 <= a -> 0 < b -> a <= b -> ceil_div a b <= 1.
Proof. intros; apply ceil_div_least; lia. Qed.

(** * Ranges *)

Definition part_interval (size ps n i : Z) : Z * Z :=
  range_interval size (range_param ps i n None).

Lemma part_interval_eq size ps i :
  0 <= size -> 0 < ps -> 0 <= i < num_parts size ps ->
  part_interval size ps (num_parts size ps) i = (i * ps, Z.min ((i + 1) * ps) size).
Proof.
  intros Hs Hp Hi. unfold part_interval, range_param, range_interval, num_parts in *.
  pose proof (ceil_div_spec size ps Hs Hp) as Hc.
  destruct (i =? ceil_div size ps - 1) eqn:E; cbn [fst snd].
  - f_equal. assert (i = ceil_div size ps - 1) by lia. subst i. nia.
  - f_equal. lia.
Qed.

(** closed-interval form used for copies (total size known) denotes the same bytes *)
Lemma range_total_same size ps i :
  0 <= size -> 0 < ps -> 0 <= i < num_parts size ps ->
  range_interval size (range_param ps i (num_parts size ps) (Some size)) =
  range_interval size (range_param ps i (num_parts size ps) None).
Proof.
  intros Hs Hp Hi. unfold range_param, range_interval.
  destruct (i =? num_parts size ps - 1); [f_equal; lia|reflexivity].
Qed.

Lemma part_interval_nonempty size ps i :
  0 <= size -> 0 < ps -> 0 <= i < num_parts size ps ->
  i * ps < Z.min ((i + 1) * ps) size.
Proof.
  intros Hs Hp Hi. unfold num_parts in *.
  pose proof (ceil_div_spec size ps Hs Hp). nia.
Qed.

Lemma last_interval_ends_at_size size ps :
  0 < size -> 0 < ps ->
  Z.min ((num_parts size ps - 1 + 1) * ps) size = size.
Proof.
  intros Hs Hp. unfold num_parts.
  pose proof (ceil_div_spec size ps (Z.lt_le_incl _ _ Hs) Hp). nia.
Qed.

Lemma copy_part_size_is_interval_length size ps i :
  0 <= size -> 0 < ps -> 0 <= i < num_parts size ps ->
  copy_part_size ps i (num_parts size ps) size =
  Z.min ((i + 1) * ps) size - i * ps.
Proof.
  intros Hs Hp Hi. unfold copy_part_size, num_parts in *.
  pose proof (ceil_div_spec size ps Hs Hp).
  destruct (i =? ceil_div size ps - 1) eqn:E; nia.
Qed.

(** * Slices of a byte string *)

Section Slices.
  Context {A : Type}.

  Definition slice (l : list A) (a b : nat) : list A := firstn (b - a) (skipn a l).

  Lemma firstn_plus (n m : nat) (l : list A) :
    firstn (n + m) l = firstn n l ++ firstn m (skipn n l).
  Proof.
    revert l; induction n as [|n IH]; intros l; [reflexivity|].
    destruct l as [|x l]; cbn [firstn skipn Nat.add app].
    - now rewrite firstn_nil.
    - now rewrite IH.
  Qed.

  Lemma skipn_add (n m : nat) (l : list A) : skipn n (skipn m l) = skipn (m + n) l.
  Proof.
    revert l; induction m as [|m IH]; intros l; [reflexivity|].
    destruct l as [|x l]; cbn [skipn Nat.add]; [now rewrite skipn_nil|apply IH].
  Qed.

  Lemma slice_app (l : list A) (a b c : nat) :
    (a <= b <= c)%nat -> slice l a b ++ slice l b c = slice l a c.
  Proof.
    intros H. unfold slice.
    replace (c - a)%nat with ((b - a) + (c - b))%nat by lia.
    rewrite firstn_plus. f_equal.
    rewrite skipn_add. do 2 f_equal. lia.
  Qed.

  Lemma slice_all (l : list A) : slice l 0 (length l) = l.
  Proof. unfold slice. cbn [skipn]. rewrite Nat.sub_0_r. apply firstn_all. Qed.

  Lemma slice_empty (l : list A) a : slice l a a = [].
  Proof. unfold slice. now rewrite Nat.sub_diag. Qed.

  Lemma slice_length (l : list A) a b : (a <= b <= length l)%nat ->
    length (slice l a b) = (b - a)%nat.
  Proof. intros H. unfold slice. rewrite firstn_length, skipn_length. lia. Qed.

  (** Consecutive cut points: the slices between them concatenate to the
      slice from the first to the last. *)
  Fixpoint cuts_slices (l : list A) (a : nat) (cuts : list nat) : list (list A) :=
    match cuts with
    | [] => []
    | b :: rest => slice l a b :: cuts_slices l b rest
    end.

  Fixpoint ascending (a : nat) (cuts : list nat) : Prop :=
    match cuts with
    | [] => True
    | b :: rest => (a <= b)%nat /\ ascending b rest
    end.

  Lemma last_cons_default (rest : list nat) : forall b a, last (b :: rest) a = last rest b.
  Proof.
    induction rest as [|c r IH]; intros b a; [reflexivity|].
    change (last (b :: c :: r) a) with (last (c :: r) a).
    now rewrite !IH.
  Qed.

  Lemma ascending_le_last cuts : forall a, ascending a cuts -> (a <= last cuts a)%nat.
  Proof.
    induction cuts as [|b rest IH]; intros a H; [cbn; lia|].
    destruct H as [Hab Hrest]. rewrite last_cons_default.
    specialize (IH b Hrest). lia.
  Qed.

  Lemma cuts_concat (l : list A) cuts : forall a,
    ascending a cuts ->
    concat (cuts_slices l a cuts) = slice l a (last cuts a).
  Proof.
    induction cuts as [|b rest IH]; intros a Hasc.
    - cbn [cuts_slices concat last]. now rewrite slice_empty.
    - destruct Hasc as [Hab Hrest]. cbn [cuts_slices concat].
      rewrite (IH b Hrest), last_cons_default.
      apply slice_app. pose proof (ascending_le_last rest b Hrest). lia.
  Qed.
End Slices.

(** The cut points of a plan with [n] parts of size [ps] over [len] bytes:
    min(ps,len), min(2ps,len), ..., min(n ps, len). *)
Fixpoint plan_cuts (ps len : nat) (k n : nat) : list nat :=
  match n with
  | O => []
  | S m => Nat.min (k * ps) len :: plan_cuts ps len (S k) m
  end.

Lemma plan_cuts_ascending ps len : forall n k a,
  (a <= Nat.min (k * ps) len)%nat -> ascending a (plan_cuts ps len k n).
Proof.
  induction n as [|n IH]; intros k a Ha; cbn [plan_cuts ascending]; [exact I|].
  split; [exact Ha|]. apply IH. cbn [Nat.mul]. lia.
Qed.

Lemma plan_cuts_last ps len : forall n k a,
  last (plan_cuts ps len k (S n)) a = Nat.min ((k + n) * ps) len.
Proof.
  induction n as [|n IH]; intros k a.
  - cbn [plan_cuts last]. now rewrite Nat.add_0_r.
  - change (plan_cuts ps len k (S (S n))) with (Nat.min (k * ps) len :: plan_cuts ps len (S k) (S n)).
    cbn [last]. remember (plan_cuts ps len (S k) (S n)) as r eqn:Er.
    destruct r as [|x r']; [discriminate Er|].
    rewrite Er. rewrite (IH (S k) a). f_equal. lia.
Qed.

(** Tiling, on byte strings: for every byte string, cutting it at the plan's
    boundaries and concatenating the pieces in part order gives it back. *)
Theorem plan_tiles_bytes {A} (l : list A) (ps n : nat) :
  (0 < ps)%nat -> (length l <= n * ps)%nat ->
  concat (cuts_slices l 0 (plan_cuts ps (length l) 1 n)) = l.
Proof.
  intros Hp Hn. rewrite cuts_concat by (apply plan_cuts_ascending; lia).
  destruct n as [|n].
  - cbn. assert (length l = 0%nat) by lia. destruct l; [reflexivity|discriminate].
  - rewrite plan_cuts_last. replace (Nat.min ((1 + n) * ps) (length l)) with (length l) by lia.
    apply slice_all.
Qed.

(** * Chunk size adjustment *)

Lemma adjust_limits_in_range c mn mx : mn <= mx -> mn <= adjust_limits c mn mx <= mx.
Proof. unfold adjust_limits; intros; destruct (c >? mx) eqn:?, (c <? mn) eqn:?; lia. Qed.

Lemma adjust_limits_id c mn mx : mn <= c <= mx -> adjust_limits c mn mx = c.
Proof. unfold adjust_limits; intros; destruct (c >? mx) eqn:?, (c <? mn) eqn:?; lia. Qed.

Lemma loop_total size maxparts : 0 <= size -> 1 <= maxparts ->
  forall fuel c, 0 < c -> size <= c * 2 ^ Z.of_nat fuel ->
  exists c', adjust_parts_loop fuel c size maxparts = Some c'.
Proof.
  intros Hs Hm. induction fuel as [|f IH]; intros c Hc Hle; cbn [adjust_parts_loop].
  - destruct (num_parts size c <=? maxparts) eqn:E; [eauto|].
    exfalso. unfold num_parts in E. pose proof (ceil_div_le_one size c Hs Hc). cbn in Hle. lia.
  - destruct (num_parts size c <=? maxparts) eqn:E; [eauto|].
    apply IH; [lia|]. rewrite Nat2Z.inj_succ, Z.pow_succ_r in Hle by lia. lia.
Qed.

Lemma pow2_log2_up_ge a : 1 <= a -> a <= 2 ^ Z.log2_up a.
Proof.
  intros H. destruct (Z.eq_dec a 1) as [->|Hne]; [cbn; lia|].
  apply Z.log2_up_spec. lia.
Qed.

Lemma adjust_fuel_suffices size maxparts c :
  0 <= size -> 1 <= maxparts -> 0 < c ->
  exists c', adjust_parts_loop (adjust_fuel size) c size maxparts = Some c'.
Proof.
  intros Hs Hm Hc. apply loop_total; try assumption.
  unfold adjust_fuel. rewrite Z2Nat.id by (pose proof (Z.log2_up_nonneg (Z.max size 1)); lia).
  pose proof (pow2_log2_up_ge (Z.max size 1) ltac:(lia)) as H.
  pose proof (Z.log2_up_nonneg (Z.max size 1)) as Hn.
  rewrite Z.pow_add_r by lia. change (2 ^ 2) with 4. nia.
Qed.

(** What the loop returns: c * 2^k for the least k that fits. *)
Lemma loop_spec size maxparts : forall fuel c c',
  0 < c ->
  adjust_parts_loop fuel c size maxparts = Some c' ->
  exists k : nat, c' = c * 2 ^ Z.of_nat k /\
    num_parts size c' <= maxparts /\
    forall j : nat, (j < k)%nat -> maxparts < num_parts size (c * 2 ^ Z.of_nat j).
Proof.
  induction fuel as [|f IH]; intros c c' Hc H; cbn [adjust_parts_loop] in H.
  - destruct (num_parts size c <=? maxparts) eqn:E; [|discriminate].
    injection H as <-. exists 0%nat. cbn. split; [lia|]. split; [lia|]. intros j Hj; lia.
  - destruct (num_parts size c <=? maxparts) eqn:E.
    + injection H as <-. exists 0%nat. cbn. split; [lia|]. split; [lia|]. intros j Hj; lia.
    + apply IH in H; [|lia]. destruct H as (k & Hk & Hfit & Hmin).
      exists (S k). rewrite Nat2Z.inj_succ, Z.pow_succ_r by lia.
      split; [lia|]. split; [exact Hfit|].
      intros j Hj. destruct j as [|j].
      { change (Z.of_nat 0) with 0. rewrite Z.pow_0_r, Z.mul_1_r. lia. }
      rewrite Nat2Z.inj_succ, Z.pow_succ_r by lia.
      replace (c * (2 * 2 ^ Z.of_nat j)) with (2 * c * 2 ^ Z.of_nat j) by lia.
      apply Hmin. lia.
Qed.

Lemma loop_id fuel c size maxparts :
  num_parts size c <= maxparts -> adjust_parts_loop fuel c size maxparts = Some c.
Proof.
  intros H. destruct fuel; cbn [adjust_parts_loop];
    destruct (num_parts size c <=? maxparts) eqn:E; try reflexivity; lia.
Qed.

Section Adjust.
  Variables mn mx maxparts : Z.
  Hypothesis Hmn : 0 < mn.
  Hypothesis Hmx : mn <= mx.
  Hypothesis Hmp : 1 <= maxparts.

  Lemma adjust_with_total c size : 0 < c -> 0 <= size ->
    exists c', adjust_chunksize_with mn mx maxparts c (Some size) = Some c'.
  Proof.
    intros Hc Hs. unfold adjust_chunksize_with.
    destruct (adjust_fuel_suffices size maxparts c Hs Hmp Hc) as [c' ->]. eauto.
  Qed.

  Lemma adjust_with_in_limits c size c' :
    adjust_chunksize_with mn mx maxparts c size = Some c' -> mn <= c' <= mx.
  Proof.
    unfold adjust_chunksize_with. destruct size as [sz|].
    - destruct (adjust_parts_loop _ _ _ _); [|discriminate]. intros [= <-].
      now apply adjust_limits_in_range.
    - intros [= <-]. now apply adjust_limits_in_range.
  Qed.

  Lemma adjust_with_parts_le_max c size c' :
    0 < c -> 0 <= size -> size <= mx * maxparts ->
    adjust_chunksize_with mn mx maxparts c (Some size) = Some c' ->
    num_parts size c' <= maxparts.
  Proof.
    intros Hc Hs Hsz. unfold adjust_chunksize_with.
    destruct (adjust_parts_loop _ _ _ _) as [c1|] eqn:E; [|discriminate]. intros [= <-].
    apply loop_spec in E; [|exact Hc]. destruct E as (k & Hk & Hfit & _).
    assert (Hc1 : 0 < c1) by (subst c1; pose proof (Z.pow_pos_nonneg 2 (Z.of_nat k)); nia).
    unfold adjust_limits. destruct (c1 >? mx) eqn:E1.
    - unfold num_parts. apply ceil_div_least; lia.
    - destruct (c1 <? mn) eqn:E2; [|exact Hfit].
      unfold num_parts in *. pose proof (ceil_div_antimono size c1 mn Hs Hc1 ltac:(lia)). lia.
  Qed.

  Lemma adjust_with_identity c size :
    mn <= c <= mx -> num_parts size c <= maxparts ->
    adjust_chunksize_with mn mx maxparts c (Some size) = Some c.
  Proof.
    intros Hc Hfit. unfold adjust_chunksize_with.
    rewrite loop_id by exact Hfit. now rewrite adjust_limits_id.
  Qed.

  Lemma adjust_with_identity_nosize c :
    mn <= c <= mx -> adjust_chunksize_with mn mx maxparts c None = Some c.
  Proof. intros Hc. unfold adjust_chunksize_with. now rewrite adjust_limits_id. Qed.

  Lemma adjust_with_minimal c size c' : 0 < c ->
    adjust_chunksize_with mn mx maxparts c (Some size) = Some c' ->
    exists k : nat, c' = adjust_limits (c * 2 ^ Z.of_nat k) mn mx /\
      num_parts size (c * 2 ^ Z.of_nat k) <= maxparts /\
      forall j : nat, (j < k)%nat -> maxparts < num_parts size (c * 2 ^ Z.of_nat j).
  Proof.
    intros Hc. unfold adjust_chunksize_with.
    destruct (adjust_parts_loop _ _ _ _) as [c1|] eqn:E; [|discriminate]. intros [= <-].
    apply loop_spec in E; [|exact Hc]. destruct E as (k & -> & Hfit & Hmin).
    exists k. auto.
  Qed.
End Adjust.

Lemma default_limits_ok :
  0 < ADJ_DEFAULT_MIN_SIZE /\ ADJ_DEFAULT_MIN_SIZE <= ADJ_DEFAULT_MAX_SIZE /\
  1 <= ADJ_DEFAULT_MAX_PARTS.
Proof. vm_compute. repeat split; discriminate. Qed.

(** * zseq / plans *)

Lemma zseq_length s n : length (zseq s n) = n.
Proof. revert s; induction n; intros; cbn; [reflexivity|now rewrite IHn]. Qed.

Lemma zseq_nth s n k : (k < n)%nat -> nth k (zseq s n) 0 = s + Z.of_nat k.
Proof.
  revert s k; induction n as [|n IH]; intros s k Hk; [lia|].
  destruct k; cbn [zseq nth]; [lia|]. rewrite IH by lia. lia.
Qed.

Lemma zseq_In s n x : In x (zseq s n) <-> s <= x < s + Z.of_nat n.
Proof.
  revert s; induction n as [|n IH]; intros s; cbn [zseq In].
  - split; [tauto|lia].
  - rewrite IH. lia.
Qed.
