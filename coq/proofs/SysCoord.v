(** Every step of the system is, for each coordinator, a [cstep] (or leaves it
    alone); coordinator-level invariants follow by case analysis on [cstep]. *)
From Coq Require Import ZArith List Bool Lia.
From S3V Require Import model.Sys proofs.SysBase.
Import ListNotations.
Open Scope Z_scope.

Ltac coords_same :=
  match goal with
  | |- coords_step (coords ?s) (coords ?s') =>
      let H := fresh in
      assert (H : coords s' = coords s)
        by (repeat first [ rewrite set_stage_coords | rewrite bump_coords | reflexivity
                         | progress cbn [coords set_tasks set_sems set_reqs set_uploads set_shutdown set_coords set_files] ]);
      rewrite H; apply coords_step_refl
  end.

Ltac sub_on_task H :=
  let x := fresh "x" in let y := fresh "y" in
  let H1 := fresh "Hft" in let H2 := fresh "Hf" in
  apply on_task_inv in H; destruct H as (x & y & H1 & H2 & ->).

Ltac sub_on_coord H :=
  let c := fresh "c" in let y := fresh "y" in
  let H1 := fresh "Hfc" in let H2 := fresh "Hf" in
  apply on_coord_inv in H; destruct H as (c & y & H1 & H2 & ->).

Lemma upd_by_cstep s t c y :
  find_coord t (coords s) = Some c -> cstep c y -> c_id y = c_id c ->
  coords_step (coords s) (coords (set_coords s (upd_coord t (fun _ => y) (coords s)))).
Proof. intros. cbn [coords set_coords]. eapply coords_step_upd; eauto. Qed.

Lemma step_coords_step s e s' : step s e = Some s' -> coords_step (coords s) (coords s').
Proof.
  intros H. destruct e; cbn [step] in H.
  - (* ENewTransfer *)
    inv H. injection H as <-. cbn [coords set_coords].
    apply andb_prop in Heqb as [_ Hnone]. destruct (find_coord t (coords s)) eqn:E; [discriminate|].
    split.
    + intros t0 c0 H0. rewrite find_coord_app, H0. exists c0. split; [reflexivity|constructor].
    + intros t0 c' H1 H2. rewrite find_coord_app, H2 in H1. cbn [c_id] in H1.
      destruct (t =? t0) eqn:E2; [|discriminate]. injection H1 as <-.
      assert (t = t0) by lia. subst. reflexivity.
  - (* EAddCallback *)
    inv H. sub_on_coord H. inv_guard Hf. injection Hf as <-.
    match goal with Hor : _ || _ || _ = false |- _ =>
      apply orb_false_elim in Hor as [Hm12 _]; apply orb_false_elim in Hm12 as [Hm1 Hm2] end.
    eapply upd_by_cstep; [exact Hfc| |reflexivity]. now constructor.
  - (* EAddCleanup *)
    inv H. sub_on_coord H. destruct (c_cl_runner c0); [discriminate|]. injection Hf as <-.
    eapply upd_by_cstep; [exact Hfc|constructor|reflexivity].
  - (* ESubmit *) inv H. injection H as <-. coords_same.
  - (* EAcquire *)
    destruct (find_task k (tasks s)); [|discriminate]. destruct (find_sem sem (sems s)); [|discriminate].
    inv H. injection H as <-. coords_same.
  - (* EEnqueue *)
    destruct (find_task k (tasks s)); [|discriminate]. inv H. injection H as <-. coords_same.
  - (* EAssoc *) inv H. sub_on_task H. coords_same.
  - (* ETaskStart *)
    destruct (find_task k (tasks s)); [|discriminate].
    destruct (stage_eqb (k_stage t) SInline).
    + inv H. injection H as <-. coords_same.
    + destruct (g_queue (get_stage s (k_stage t))); [discriminate|].
      inv H. injection H as <-. coords_same.
  - (* EDepsDone *) sub_on_task H. coords_same.
  - (* EDoneCheck *)
    destruct (find_task k (tasks s)); [|discriminate].
    destruct (find_coord (k_t t) (coords s)); [|discriminate].
    inv H. injection H as <-. coords_same.
  - (* EMainBegin *) sub_on_task H. coords_same.
  - (* EMainEnd *)
    inv H. destruct (find_task k (tasks s)); [|discriminate].
    destruct (find_coord (k_t t) (coords s)); [|discriminate].
    inv H. injection H as <-. coords_same.
  - (* ESetResult *)
    inv H. destruct (find_task k (tasks s)); [|discriminate]. inv H.
    sub_on_coord H. injection Hf as <-.
    eapply upd_by_cstep; [exact Hfc|constructor|reflexivity].
  - (* ESetException *)
    inv H.
    assert (Happly : forall s1 s2,
      on_coord s1 t (fun c => if negb (is_done (c_status c)) || override
                              then Some (c_with c Failed (Some e)) else Some c) = Some s2 ->
      coords_step (coords s1) (coords s2)).
    { intros s1 s2 Ha. sub_on_coord Ha. destruct (negb (is_done (c_status c)) || override) eqn:Eg.
      - injection Hf as <-. eapply upd_by_cstep; [exact Hfc| |reflexivity].
        apply cs_exc with (ov := override). apply orb_prop in Eg as [Eg|Eg]; [left|right; exact Eg].
        now destruct (is_done (c_status c)).
      - injection Hf as <-. eapply upd_by_cstep; [exact Hfc|constructor|reflexivity]. }
    destruct (is_user a).
    + destruct (find_coord t (coords s)) eqn:Efc; [|discriminate]. clean_but H. inv H. now apply Happly.
    + destruct (find_task a (tasks s)) eqn:Eft; [|discriminate].
      destruct (negb (k_t t0 =? t)); [discriminate|].
      destruct override.
      * destruct (find_coord t (coords s)) eqn:Efc; [|discriminate]. clean_but H. inv H. now apply Happly.
      * destruct (tst_eqb (k_st t0) TFailed).
        { unfold bind in H. destruct (on_coord s t _) as [s1|] eqn:E1; [|discriminate].
          apply Happly in E1. pose proof (on_task_coords _ _ _ _ H) as Hc. now rewrite Hc. }
        destruct (tst_eqb (k_st t0) TMain && (k_kind t0 =? KSubmission) && (k_phase t0 <? 3)); [|discriminate].
        unfold bind in H. destruct (on_coord s t _) as [s1|] eqn:E1; [|discriminate].
        apply Happly in E1. pose proof (on_task_coords _ _ _ _ H) as Hc. now rewrite Hc.
  - (* ECancel *)
    inv H. sub_on_coord H.
    destruct (is_done (c_status c)) eqn:Ed.
    + injection Hf as <-. eapply upd_by_cstep; [exact Hfc|constructor|reflexivity].
    + destruct (status_eqb (c_status c) NotStarted) eqn:En; injection Hf as <-.
      * eapply upd_by_cstep; [exact Hfc| |reflexivity].
        apply status_eqb_eq in En. now apply cs_cancel_ns.
      * eapply upd_by_cstep; [exact Hfc| |reflexivity]. now apply cs_cancel.
  - (* EStatus *)
    inv H. destruct (find_task k (tasks s)); [|discriminate].
    destruct (find_coord (k_t t) (coords s)) eqn:Efc; [|discriminate]. clean_but H. inv H.
    clean_somes. destruct ok.
    + unfold bind in H. destruct (on_coord s (k_t t) _) as [s1|] eqn:E1; [|discriminate].
      pose proof (on_task_coords _ _ _ _ H) as Hc. rewrite Hc. sub_on_coord E1. injection Hf as <-.
      eapply upd_by_cstep; [exact Hfc| |reflexivity].
      repeat (apply andb_prop in Heqb0 as [Heqb0 ?]).
      rewrite Efc in Hfc. injection Hfc as <-.
      apply cs_status; [|destruct to_running; auto].
      match goal with Hx : eqb true (negb (is_done (c_status ?cc))) = true |- _ =>
        apply eqb_prop in Hx; now destruct (is_done (c_status cc)) end.
    + injection H as <-. apply coords_step_refl.
  - (* EOnQueued *)
    inv H. destruct (find_task k (tasks s)); [|discriminate]. inv H.
    sub_on_coord H. injection Hf as <-. eapply upd_by_cstep; [exact Hfc|constructor|reflexivity].
  - (* EOnProgress *)
    inv H. sub_on_coord H. injection Hf as <-. rewrite bump_coords in *.
    cbn [coords set_coords]. rewrite ?bump_coords.
    eapply coords_step_upd; [exact Hfc|constructor|reflexivity].
  - (* EWaitAll *)
    inv H. destruct (find_task k (tasks s)); [|discriminate]. inv H.
    sub_on_task H. coords_same.
  - (* EAnnBegin *)
    inv H. destruct (find_coord t (coords s)) eqn:Efc; [|discriminate]. clean_but H.
    destruct (ann_phase a (c_announcers c)) eqn:Eap; [discriminate|]. clean_but H.
    destruct (mem_z a (c_owing c)) eqn:Eow.
    + sub_on_coord H. injection Hf as <-. rewrite Efc in Hfc. injection Hfc as <-.
      eapply upd_by_cstep; [exact Efc| |reflexivity]. now apply cs_ann_owing.
    + destruct (find_task a (tasks s)); [|discriminate].
      destruct (negb (k_t t0 =? t)); [discriminate|].
      destruct (k_kind t0 =? KSubmission).
      * inv H. sub_on_coord H. injection Hf as <-. rewrite Efc in Hfc. injection Hfc as <-.
        eapply upd_by_cstep; [exact Efc| |reflexivity]. now apply cs_ann_begin.
      * inv H. unfold bind in H. destruct (on_coord s t _) as [s1|] eqn:E1; [|discriminate].
        pose proof (on_task_coords _ _ _ _ H) as Hc. rewrite Hc. sub_on_coord E1. injection Hf as <-.
        rewrite Efc in Hfc. injection Hfc as <-.
        eapply upd_by_cstep; [exact Efc| |reflexivity]. now apply cs_ann_begin.
  - (* ECleanupsBegin *)
    inv H. sub_on_coord H. destruct (ann_phase a (c_announcers c)) as [p|] eqn:Eap; [|discriminate]. clean_but H.
    destruct p as [|p|p]; try discriminate. destruct (c_cl_runner c) eqn:Ecl; [discriminate|].
    inv_guard Hf. injection Hf as <-.
    eapply upd_by_cstep; [exact Hfc| |reflexivity]. apply cs_cl_begin; auto.
    now destruct (status_eqb (c_status c) Success).
  - (* ECleanup *)
    inv H. sub_on_coord H. rewrite bump_coords in Hfc.
    destruct (c_cl_runner c0) eqn:Ecl; [|discriminate]. destruct (c_cleanups c0) eqn:Ecs; [discriminate|].
    inv_guard Hf. injection Hf as <-. apply andb_prop in Heqb0 as [E1 E2].
    assert (a0 = a) by lia. assert (z = c) by lia. subst.
    cbn [coords set_coords]. rewrite ?bump_coords.
    eapply coords_step_upd; [exact Hfc| |reflexivity]. eapply cs_cleanup; eauto.
  - (* ECleanupsEnd *)
    inv H. sub_on_coord H.
    destruct (c_cl_runner c) eqn:Ecl; [|discriminate].
    destruct (ann_phase a (c_announcers c)) as [p|] eqn:Eap; [|discriminate]. clean_but H.
    destruct p as [|p|p]; try discriminate. destruct p; try discriminate.
    inv_guard Hf. injection Hf as <-.
    match goal with Hg : _ && _ = true |- _ => apply andb_prop in Hg as [Hg1 Hg2] end.
    assert (a0 = a) by lia. subst.
    assert (Hnil : c_cleanups c = []) by (destruct (c_cleanups c); [reflexivity|discriminate]).
    eapply upd_by_cstep; [exact Hfc| |reflexivity].
    exact (cs_cl_end c a Ecl Eap Hnil).
  - (* EEventSet *)
    inv H. sub_on_coord H. destruct (ann_phase a (c_announcers c)) as [p|] eqn:Eap; [|discriminate]. clean_but H.
    inv_guard Hf. injection Hf as <-.
    eapply upd_by_cstep; [exact Hfc| |reflexivity]. eapply cs_event; [exact Eap|].
    match goal with Hor : _ || _ = true |- _ => apply orb_prop in Hor as [E|E] end; [left; lia|right].
    apply andb_prop in E as [E1 E2]. apply status_eqb_eq in E2. split; [lia|exact E2].
  - (* ECallbacksBegin *)
    inv H. sub_on_coord H. destruct (ann_phase a (c_announcers c)) as [p|] eqn:Eap; [|discriminate]. clean_but H.
    destruct p as [|p|p]; try discriminate. destruct p as [p|p|]; try discriminate.
    destruct p; try discriminate.
    destruct (c_cb_runner c) eqn:Ecb; [discriminate|]. injection Hf as <-.
    eapply upd_by_cstep; [exact Hfc| |reflexivity]. now apply cs_cb_begin.
  - (* ECallback *)
    inv H. sub_on_coord H. rewrite bump_coords in Hfc.
    destruct (c_cb_runner c0) eqn:Ecb; [|discriminate]. destruct (c_callbacks c0) eqn:Ecs; [discriminate|].
    inv_guard Hf. injection Hf as <-. apply andb_prop in Heqb0 as [E1 E2].
    assert (a0 = a) by lia. assert (z = c) by lia. subst.
    cbn [coords set_coords]. rewrite ?bump_coords.
    eapply coords_step_upd; [exact Hfc| |reflexivity]. eapply cs_callback; eauto.
  - (* ECallbacksEnd *)
    inv H. sub_on_coord H.
    destruct (c_cb_runner c) eqn:Ecb; [|discriminate].
    destruct (ann_phase a (c_announcers c)) as [p|] eqn:Eap; [|discriminate]. clean_but H.
    destruct p as [|p|p]; try discriminate. destruct p as [p|p|]; try discriminate.
    destruct p as [p|p|]; try discriminate. destruct p; try discriminate.
    destruct (c_callbacks c) eqn:Ecs; [|discriminate].
    inv_guard Hf. injection Hf as <-. assert (a0 = a) by lia. subst.
    eapply upd_by_cstep; [exact Hfc| |reflexivity]. now apply cs_cb_end.
  - (* EAnnEnd *)
    destruct (busy s a); [discriminate|].
    destruct (find_coord t (coords s)) eqn:Efc; [|discriminate]. clean_but H.
    destruct (ann_phase a (c_announcers c)) as [p|] eqn:Eap; [|discriminate]. clean_but H.
    destruct p as [|p|p]; try discriminate. destruct p as [p|p|]; try discriminate.
    destruct p as [p|p|]; try discriminate. destruct p; try discriminate.
    assert (G : coords_step (coords s)
                  (coords (set_coords s (upd_coord t (fun c0 => c_with_ann c0 (c_owing c0) (ann_del a (c_announcers c0))) (coords s))))).
    { cbn [coords set_coords]. eapply coords_step_upd_f; [exact Efc| |reflexivity].
      now apply cs_ann_end. }
    destruct (find_task a (tasks s)).
    + destruct (is_user a); [injection H as <-; exact G|].
      destruct (tst_eqb (k_st t0) TAnn).
      { pose proof (on_task_coords _ _ _ _ H) as Hc. now rewrite Hc. }
      destruct ((k_kind t0 =? KSubmission) && (k_phase t0 =? 4)).
      { pose proof (on_task_coords _ _ _ _ H) as Hc. now rewrite Hc. }
      injection H as <-; exact G.
    + injection H as <-; exact G.
  - (* ETaskEnd *)
    inv H. destruct (find_task k (tasks s)); [|discriminate]. inv H.
    destruct (stage_eqb (k_stage t) SInline); injection H as <-; coords_same.
  - (* ERelease *)
    destruct (find_task k (tasks s)); [|discriminate]. inv H. injection H as <-. coords_same.
  - (* EDissoc *) sub_on_task H. coords_same.
  - (* ECount *)
    inv H. sub_on_coord H.
    destruct (op =? 0).
    + inv_guard Hf. injection Hf as <-. eapply upd_by_cstep; [exact Hfc|constructor|reflexivity].
    + destruct (op =? 1).
      * inv_guard Hf. injection Hf as <-. eapply upd_by_cstep; [exact Hfc|constructor|reflexivity].
      * injection Hf as <-. eapply upd_by_cstep; [exact Hfc|constructor|reflexivity].
  - (* ES3Begin *)
    inv H.
    destruct op; try (injection H as <-; cbn [coords set_reqs]; rewrite bump_coords; apply coords_step_refl).
    + destruct (find_upload uid _); [|discriminate]. inv H. injection H as <-.
      cbn [coords set_uploads set_reqs]. rewrite bump_coords. apply coords_step_refl.
    + destruct (find_upload uid _); [|discriminate]. inv H. injection H as <-.
      cbn [coords set_uploads set_reqs]. rewrite bump_coords. apply coords_step_refl.
    + destruct (find_upload uid _); [|discriminate]. inv H. injection H as <-.
      cbn [coords set_uploads set_reqs]. rewrite bump_coords. apply coords_step_refl.
  - (* ES3Effect *)
    destruct (find_req r (reqs s)); [|discriminate]. inv H.
    destruct (s3op_eqb (r_op r0) OpCreate).
    + destruct (find_upload uid _); [discriminate|]. injection H as <-. coords_same.
    + injection H as <-. coords_same.
  - (* ES3End *)
    destruct (find_req r (reqs s)); [|discriminate]. inv H.
    destruct (r_op r0); injection H as <-; coords_same.
  - (* EResult *)
    destruct (find_coord t (coords s)); [|discriminate]. inv H. injection H as <-. apply coords_step_refl.
  - (* EFs *)
    inv H. destruct op; destruct (find_file t (files s)); try discriminate;
      inv H; injection H as <-; coords_same.
  - (* EShutdownBegin *) inv H. injection H as <-. coords_same.
  - (* EStageShutdown *) inv H. injection H as <-. coords_same.
  - (* EStageJoined *) inv H. injection H as <-. coords_same.
  - (* EShutdownReturn *) inv H. injection H as <-. coords_same.
Qed.
