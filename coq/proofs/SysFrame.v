(** Isolation of the transfers that share a manager (C18, second half) for the
    protocol model [Sys.v].

    Part 1: ownership of events ([event_transfer]) and its well-definedness.
    Part 2: the view a transfer has of the state ([same_transfer_view]) and the
            frame theorem: a step owned by [t] leaves the view of every other
            transfer unchanged; the four global shutdown events leave every
            view unchanged.
    (Part 3, the simulation / non-interference theorem, is in SysFrame2.v.) *)
From Coq Require Import ZArith List Bool Lia.
From S3V Require Import model.Sys proofs.SysBase proofs.SysCoord proofs.SysCoordInv proofs.SysTask.
From S3V Require proofs.SysQuiesce.
From S3V Require Import proofs.SysStage.
Import ListNotations.
Open Scope Z_scope.

(* ================================================================== *)
(** * Part 0.  List lemmas: filtering keyed stores *)

Section UpdMap.
  Context {A : Type} (key : A -> Z).

  Definition updmap (k : Z) (f : A -> A) (l : list A) : list A :=
    map (fun x => if key x =? k then f x else x) l.

  Lemma filter_updmap_comm p k f l :
    (forall z, In z l -> key z = k -> p (f z) = p z) ->
    filter p (updmap k f l) = updmap k f (filter p l).
  Proof.
    unfold updmap. induction l as [|y r IH]; intros Hp; cbn [map filter]; [reflexivity|].
    assert (IH' := IH (fun z Hz => Hp z (or_intror Hz))).
    destruct (key y =? k) eqn:E.
    - rewrite (Hp y (or_introl eq_refl)) by lia.
      destruct (p y); cbn [map]; rewrite ?E, IH'; reflexivity.
    - destruct (p y); cbn [map]; rewrite ?E, IH'; reflexivity.
  Qed.

  Lemma filter_updmap_other p k f l :
    (forall z, In z l -> key z = k -> p z = false /\ p (f z) = false) ->
    filter p (updmap k f l) = filter p l.
  Proof.
    unfold updmap. induction l as [|y r IH]; intros Hp; cbn [map filter]; [reflexivity|].
    assert (IH' := IH (fun z Hz => Hp z (or_intror Hz))).
    destruct (key y =? k) eqn:E.
    - destruct (Hp y (or_introl eq_refl)) as [E1 E2]; [lia|]. now rewrite E1, E2.
    - now rewrite IH'.
  Qed.
End UpdMap.

Lemma filter_idem {A} (p : A -> bool) l : filter p (filter p l) = filter p l.
Proof.
  induction l as [|x r IH]; cbn [filter]; [reflexivity|].
  destruct (p x) eqn:E; cbn [filter]; rewrite ?E, IH; reflexivity.
Qed.

Lemma filter_snoc {A} (p : A -> bool) l x :
  filter p (l ++ [x]) = if p x then filter p l ++ [x] else filter p l.
Proof. rewrite filter_app. cbn [filter]. destruct (p x); [reflexivity|apply app_nil_r]. Qed.

Lemma existsb_filter_false {A} (p q : A -> bool) l : existsb q l = false -> existsb q (filter p l) = false.
Proof.
  induction l as [|x r IH]; cbn [existsb filter]; [reflexivity|].
  intros H. apply orb_false_elim in H as [H1 H2].
  destruct (p x); cbn [existsb]; rewrite ?H1; cbn [orb]; auto.
Qed.

Lemma existsb_filter_restrict {A} (p q : A -> bool) l :
  (forall x, p x = false -> q x = false) -> existsb q (filter p l) = existsb q l.
Proof.
  intros Hq. induction l as [|x r IH]; cbn [existsb filter]; [reflexivity|].
  destruct (p x) eqn:E; cbn [existsb]; rewrite IH; [reflexivity|]. now rewrite (Hq x E).
Qed.

Lemma forallb_filter_true {A} (p q : A -> bool) l : forallb q l = true -> forallb q (filter p l) = true.
Proof.
  induction l as [|x r IH]; cbn [forallb filter]; [reflexivity|].
  intros H. apply andb_prop in H as [H1 H2].
  destruct (p x); cbn [forallb]; rewrite ?H1; cbn [andb]; auto.
Qed.

Lemma forallb_filter_restrict {A} (p q : A -> bool) l :
  (forall x, p x = false -> q x = true) -> forallb q (filter p l) = forallb q l.
Proof.
  intros Hq. induction l as [|x r IH]; cbn [forallb filter]; [reflexivity|].
  destruct (p x) eqn:E; cbn [forallb]; rewrite IH; [reflexivity|]. now rewrite (Hq x E).
Qed.

(** ** tasks *)
Definition tk_of (t : Z) (x : task) : bool := k_t x =? t.
Definition rq_of (t : Z) (q : req) : bool := r_t q =? t.
Definition up_of (t : Z) (u : upload) : bool := u_t u =? t.

Lemma filter_upd_task_comm p k f l :
  (forall z, In z l -> k_id z = k -> p (f z) = p z) ->
  filter p (upd_task k f l) = upd_task k f (filter p l).
Proof. exact (filter_updmap_comm k_id p k f l). Qed.

Lemma filter_upd_task_other p k f l :
  (forall z, In z l -> k_id z = k -> p z = false /\ p (f z) = false) ->
  filter p (upd_task k f l) = filter p l.
Proof. exact (filter_updmap_other k_id p k f l). Qed.

Lemma filter_upd_req_comm p k f l :
  (forall z, In z l -> r_id z = k -> p (f z) = p z) ->
  filter p (upd_req k f l) = upd_req k f (filter p l).
Proof. exact (filter_updmap_comm r_id p k f l). Qed.

Lemma filter_upd_req_other p k f l :
  (forall z, In z l -> r_id z = k -> p z = false /\ p (f z) = false) ->
  filter p (upd_req k f l) = filter p l.
Proof. exact (filter_updmap_other r_id p k f l). Qed.

Lemma filter_upd_upload_comm p k f l :
  (forall z, In z l -> u_id z = k -> p (f z) = p z) ->
  filter p (upd_upload k f l) = upd_upload k f (filter p l).
Proof. exact (filter_updmap_comm u_id p k f l). Qed.

Lemma filter_upd_upload_other p k f l :
  (forall z, In z l -> u_id z = k -> p z = false /\ p (f z) = false) ->
  filter p (upd_upload k f l) = filter p l.
Proof. exact (filter_updmap_other u_id p k f l). Qed.

Lemma ids_unique l k x z :
  NoDup (map k_id l) -> find_task k l = Some x -> In z l -> k_id z = k -> z = x.
Proof.
  intros Hnd Hf Hin Hk. pose proof (in_find_task l z Hnd Hin) as Hz. rewrite Hk, Hf in Hz. congruence.
Qed.

Lemma rids_unique l r q z :
  NoDup (map r_id l) -> find_req r l = Some q -> In z l -> r_id z = r -> z = q.
Proof.
  intros Hnd Hf Hin Hk. pose proof (SysQuiesce.find_req_of_nodup l z Hnd Hin) as Hz. rewrite Hk, Hf in Hz. congruence.
Qed.

Lemma uids_unique l i u z :
  (forall v, In v l -> find_upload (u_id v) l = Some v) ->
  find_upload i l = Some u -> In z l -> u_id z = i -> z = u.
Proof. intros Hu Hf Hin Hk. pose proof (Hu z Hin) as Hz. rewrite Hk, Hf in Hz. congruence. Qed.

Lemma find_task_filter_some p k l x :
  find_task k l = Some x -> p x = true -> find_task k (filter p l) = Some x.
Proof.
  induction l as [|y r IH]; cbn [find_task filter]; [discriminate|].
  destruct (k_id y =? k) eqn:E.
  - intros [= ->] Hp. rewrite Hp. cbn [find_task]. now rewrite E.
  - intros Hf Hp. destruct (p y); cbn [find_task]; rewrite ?E; auto.
Qed.

Lemma find_task_filter_none p k l : find_task k l = None -> find_task k (filter p l) = None.
Proof.
  induction l as [|y r IH]; cbn [find_task filter]; [reflexivity|].
  destruct (k_id y =? k) eqn:E; [discriminate|].
  intros Hf. destruct (p y); cbn [find_task]; rewrite ?E; auto.
Qed.

Lemma find_task_filter p k l :
  NoDup (map k_id l) ->
  find_task k (filter p l) =
  match find_task k l with Some x => if p x then Some x else None | None => None end.
Proof.
  induction l as [|y r IH]; cbn [find_task filter map]; [reflexivity|].
  intros Hnd. inversion Hnd as [|? ? Hy Hr]; subst.
  destruct (k_id y =? k) eqn:E.
  - destruct (p y) eqn:Ep; cbn [find_task]; rewrite ?E; [reflexivity|].
    apply find_task_filter_none. apply find_task_none_notin. assert (k_id y = k) by lia. now subst k.
  - destruct (p y); cbn [find_task]; rewrite ?E; now apply IH.
Qed.

Lemma find_req_filter_some p k l x :
  find_req k l = Some x -> p x = true -> find_req k (filter p l) = Some x.
Proof.
  induction l as [|y r IH]; cbn [find_req filter]; [discriminate|].
  destruct (r_id y =? k) eqn:E.
  - intros [= ->] Hp. rewrite Hp. cbn [find_req]. now rewrite E.
  - intros Hf Hp. destruct (p y); cbn [find_req]; rewrite ?E; auto.
Qed.

Lemma find_req_filter_none p k l : find_req k l = None -> find_req k (filter p l) = None.
Proof.
  induction l as [|y r IH]; cbn [find_req filter]; [reflexivity|].
  destruct (r_id y =? k) eqn:E; [discriminate|].
  intros Hf. destruct (p y); cbn [find_req]; rewrite ?E; auto.
Qed.

Lemma find_upload_filter_some p k l x :
  find_upload k l = Some x -> p x = true -> find_upload k (filter p l) = Some x.
Proof.
  induction l as [|y r IH]; cbn [find_upload filter]; [discriminate|].
  destruct (u_id y =? k) eqn:E.
  - intros [= ->] Hp. rewrite Hp. cbn [find_upload]. now rewrite E.
  - intros Hf Hp. destruct (p y); cbn [find_upload]; rewrite ?E; auto.
Qed.

Lemma find_upload_filter_none p k l : find_upload k l = None -> find_upload k (filter p l) = None.
Proof.
  induction l as [|y r IH]; cbn [find_upload filter]; [reflexivity|].
  destruct (u_id y =? k) eqn:E; [discriminate|].
  intros Hf. destruct (p y); cbn [find_upload]; rewrite ?E; auto.
Qed.

(** ** coordinators and files, keyed by the transfer *)
Lemma find_coord_upd_other t t' f l :
  t' <> t -> (forall x, c_id x = t -> c_id (f x) = t) ->
  find_coord t' (upd_coord t f l) = find_coord t' l.
Proof.
  intros Hne Hid. induction l as [|x r IH]; cbn [upd_coord map find_coord]; [reflexivity|].
  fold (upd_coord t f r). destruct (c_id x =? t) eqn:E.
  - assert (E1 : c_id (f x) =? t' = false) by (rewrite Hid by lia; lia). rewrite E1.
    assert (E2 : c_id x =? t' = false) by lia. rewrite E2. exact IH.
  - destruct (c_id x =? t'); [reflexivity|exact IH].
Qed.

Lemma find_coord_app_other t t' l c :
  t' <> t -> c_id c = t -> find_coord t' (l ++ [c]) = find_coord t' l.
Proof.
  intros Hne Hc. rewrite find_coord_app. destruct (find_coord t' l); [reflexivity|].
  destruct (c_id c =? t') eqn:E; [lia|reflexivity].
Qed.

Lemma find_file_app t l x :
  find_file t (l ++ [x]) =
  match find_file t l with Some c => Some c | None => if f_t x =? t then Some x else None end.
Proof.
  induction l as [|y r IH]; cbn [app find_file]; [reflexivity|].
  destruct (f_t y =? t); [reflexivity|exact IH].
Qed.

Lemma find_file_upd t t' f l :
  (forall x, f_t (f x) = f_t x) ->
  find_file t' (upd_file t f l) = if t' =? t then option_map f (find_file t' l) else find_file t' l.
Proof.
  intros Hid. induction l as [|x r IH]; cbn [upd_file map find_file].
  - now destruct (t' =? t).
  - fold (upd_file t f r). destruct (f_t x =? t) eqn:E1.
    + rewrite Hid. destruct (f_t x =? t') eqn:E2.
      * assert (E3 : t' =? t = true) by lia. now rewrite E3.
      * exact IH.
    + destruct (f_t x =? t') eqn:E2.
      * assert (E3 : t' =? t = false) by lia. now rewrite E3.
      * exact IH.
Qed.

Lemma set_stage_files s g x : files (set_stage s g x) = files s.
Proof. now destruct g. Qed.
Lemma set_stage_reqs' s g x : reqs (set_stage s g x) = reqs s.
Proof. now destruct g. Qed.
Lemma set_stage_phase s g x : shutdown_phase (set_stage s g x) = shutdown_phase s.
Proof. now destruct g. Qed.
Lemma bump_phase s : shutdown_phase (bump_after_shutdown s) = shutdown_phase s.
Proof. unfold bump_after_shutdown. now destruct (shutdown_phase s =? 2). Qed.

(** projections of an updated state *)
Ltac simp_proj :=
  repeat first
    [ progress cbn [tasks coords reqs uploads files sems shutdown_phase st_sub st_req st_io
                    set_tasks set_coords set_sems set_reqs set_uploads set_shutdown set_files]
    | rewrite bump_tasks | rewrite bump_coords | rewrite bump_reqs | rewrite bump_uploads
    | rewrite bump_files | rewrite bump_sems | rewrite bump_phase
    | rewrite set_stage_tasks | rewrite set_stage_coords | rewrite set_stage_reqs'
    | rewrite set_stage_uploads | rewrite set_stage_files | rewrite set_stage_sems
    | rewrite set_stage_phase ].

Ltac simp_proj_in H :=
  repeat first
    [ progress cbn [tasks coords reqs uploads files sems shutdown_phase st_sub st_req st_io
                    set_tasks set_coords set_sems set_reqs set_uploads set_shutdown set_files] in H
    | rewrite bump_tasks in H | rewrite bump_coords in H | rewrite bump_reqs in H | rewrite bump_uploads in H
    | rewrite bump_files in H | rewrite bump_sems in H | rewrite bump_phase in H
    | rewrite set_stage_tasks in H | rewrite set_stage_coords in H | rewrite set_stage_reqs' in H
    | rewrite set_stage_uploads in H | rewrite set_stage_files in H | rewrite set_stage_sems in H
    | rewrite set_stage_phase in H ].

(* ================================================================== *)
(** * Part 1.  Ownership of events *)

Definition task_transfer (s : state) (k : Z) : option Z :=
  match find_task k (tasks s) with Some x => Some (k_t x) | None => None end.
Definition req_transfer (s : state) (r : Z) : option Z :=
  match find_req r (reqs s) with Some q => Some (r_t q) | None => None end.

(** the transfer an event belongs to: the [t] it carries; the transfer of the
    task it moves; the transfer of the request it continues; none for the four
    events of the manager's shutdown *)
Definition event_transfer (s : state) (e : event) : option Z :=
  match e with
  | ENewTransfer _ t | EAddCallback _ t _ | EAddCleanup _ t _ | ESubmit _ _ t _ _ _ _
  | ESetException _ t _ _ | ECancel _ t _ | EOnProgress _ t
  | EAnnBegin _ t | ECleanupsBegin _ t | ECleanup _ t _ | ECleanupsEnd _ t | EEventSet _ t
  | ECallbacksBegin _ t | ECallback _ t _ | ECallbacksEnd _ t | EAnnEnd _ t
  | ECount _ t _ | ES3Begin _ _ _ t _ | EResult _ t _ | EFs _ t _ => Some t
  | EAcquire _ k _ | EEnqueue _ k | EAssoc _ k | ETaskStart k | EDepsDone k | EDoneCheck k _
  | EMainBegin k | EMainEnd k _ | ESetResult k | EStatus k _ _ | EOnQueued k | EWaitAll k
  | ETaskEnd k | ERelease k | EDissoc k => task_transfer s k
  | ES3Effect r _ | ES3End r _ => req_transfer s r
  | EShutdownBegin | EStageShutdown _ | EStageJoined _ | EShutdownReturn => None
  end.

Definition is_global (e : event) : bool :=
  match e with
  | EShutdownBegin | EStageShutdown _ | EStageJoined _ | EShutdownReturn => true
  | _ => false
  end.

Lemma global_no_transfer s e : is_global e = true -> event_transfer s e = None.
Proof. destruct e; cbn; intros H; try discriminate; reflexivity. Qed.

Ltac kill_guards H :=
  repeat match type of H with
         | None = Some _ => discriminate H
         | (if ?b then _ else _) = Some _ => destruct b
         | (match ?x with _ => _ end) = Some _ => destruct x
         end.

(** every enabled event other than the four shutdown events has an owner *)
Lemma event_transfer_defined s e s' :
  step s e = Some s' -> is_global e = false -> exists t, event_transfer s e = Some t.
Proof.
  intros H Hg. destruct e; cbn [is_global] in Hg; try discriminate Hg;
    cbn [event_transfer]; try (eexists; reflexivity);
    unfold task_transfer, req_transfer; cbn [step] in H; unfold on_task in H.
  all: try (destruct (find_task k (tasks s)) as [x|] eqn:E; [eexists; reflexivity|exfalso; kill_guards H]).
  all: try (destruct (find_req r (reqs s)) as [q|] eqn:E; [eexists; reflexivity|discriminate H]).
Qed.

(* ================================================================== *)
(** * Part 2.  The view of a transfer and the frame theorem *)

(** Everything the model stores for transfer [t]: its coordinator (status,
    exception, cleanups / callbacks registered and run, event flag, announce
    bookkeeping, count-down invoker, ghosts), its tasks (the sub-list of the
    task store, in order, with every field), its temporary file, its multipart
    uploads and its requests. *)
Definition same_transfer_view (t : Z) (s s' : state) : Prop :=
  find_coord t (coords s') = find_coord t (coords s) /\
  filter (tk_of t) (tasks s') = filter (tk_of t) (tasks s) /\
  find_file t (files s') = find_file t (files s) /\
  filter (up_of t) (uploads s') = filter (up_of t) (uploads s) /\
  filter (rq_of t) (reqs s') = filter (rq_of t) (reqs s).

Lemma view_refl t s : same_transfer_view t s s.
Proof. repeat split. Qed.

Lemma view_sym t s s' : same_transfer_view t s s' -> same_transfer_view t s' s.
Proof. intros (H1 & H2 & H3 & H4 & H5). repeat split; symmetry; assumption. Qed.

Lemma view_trans t s1 s2 s3 :
  same_transfer_view t s1 s2 -> same_transfer_view t s2 s3 -> same_transfer_view t s1 s3.
Proof.
  intros (A1 & A2 & A3 & A4 & A5) (B1 & B2 & B3 & B4 & B5).
  repeat split; etransitivity; eassumption.
Qed.

(** the same task records are found under the same ids *)
Lemma view_find_task t s s' k x :
  ids_inv s -> ids_inv s' -> same_transfer_view t s s' -> k_t x = t ->
  (find_task k (tasks s') = Some x <-> find_task k (tasks s) = Some x).
Proof.
  intros I I' (_ & Hv & _) Ht.
  assert (G : forall l, NoDup (map k_id l) ->
            (find_task k l = Some x <-> find_task k (filter (tk_of t) l) = Some x)).
  { intros l Hnd. rewrite find_task_filter by exact Hnd. split.
    - intros ->. unfold tk_of. rewrite Ht, Z.eqb_refl. reflexivity.
    - destruct (find_task k l) as [y|]; [|discriminate]. destruct (tk_of t y); [auto|discriminate]. }
  rewrite (G _ I), (G _ I'), Hv. reflexivity.
Qed.

(** ** the facts about reachable states that make ownership meaningful *)
Definition ann_ok (s : state) : Prop :=
  forall t c a x, find_coord t (coords s) = Some c -> ann_phase a (c_announcers c) <> None ->
    is_user a = false -> find_task a (tasks s) = Some x -> k_t x = t.

Record finv (s : state) : Prop := {
  fi_ids : ids_inv s;                       (* task ids are unique *)
  fi_reqs : SysQuiesce.reqs_nodup s;        (* request ids are unique *)
  fi_upl : SysQuiesce.uploads_uniq s;       (* upload ids are unique *)
  fi_pc : SysQuiesce.pc_ref_inv s;          (* a part / complete request names an upload of its own transfer *)
  fi_ann : ann_ok s                         (* a worker announcing for [t] is a task of [t] *)
}.

Lemma finv_reachable a b c d e f g h s : reachable (init a b c d e f g h) s -> finv s.
Proof.
  intros Hr. constructor.
  - eapply ids_inv_reachable; eauto.
  - revert s Hr. apply invariant_reachable; [constructor|].
    intros s0 ev s1 I H. eapply SysQuiesce.reqs_nodup_step; eauto.
  - revert s Hr. apply invariant_reachable; [intros u []|].
    intros s0 ev s1 I H. eapply SysQuiesce.uploads_uniq_step; eauto.
  - revert s Hr. apply invariant_reachable; [intros q []|].
    intros s0 ev s1 I H. eapply SysQuiesce.pc_ref_step; eauto.
  - intros t co a0 x Hc Hph Hu Hx.
    destruct (ann_inv_reachable _ _ _ _ _ _ _ _ _ Hr t co a0 Hc Hu (or_intror Hph)) as (_ & y & Hy & Hyt & _).
    congruence.
Qed.

(** ** inversion of a step down to the explicit next state *)
Ltac inv_deep H :=
  repeat (cbv beta in H;
    match type of H with
    | None = Some _ => discriminate H
    | bind _ _ = Some _ => unfold bind in H
    | on_coord _ _ _ = Some _ => unfold on_coord in H
    | on_task _ _ _ = Some _ => unfold on_task in H
    | (if ?b then _ else _) = Some _ => destruct b eqn:?
    | (match ?x with _ => _ end) = Some _ =>
        let E := fresh "E" in destruct x eqn:E; try inv_deep E
    end).

Ltac subst_somes :=
  repeat match goal with
         | Hs : Some ?a = Some ?b |- _ => first [ is_var b; injection Hs as <- | is_var a; injection Hs as -> ]
         end.

Ltac fr_side :=
  first [ assumption | reflexivity
        | eapply find_coord_some_id; eassumption
        | lia ].

Ltac fr_split_ifs :=
  repeat match goal with |- context [if ?b then _ else _] => destruct b end.

Ltac fr_task_other F :=
  match goal with
  | Hf : find_task ?k (tasks ?s) = Some ?x |- filter _ (upd_task ?k _ (tasks ?s)) = _ =>
      apply filter_upd_task_other;
      let z := fresh "z" in let Hz := fresh "Hz" in let Hk := fresh "Hk" in
      intros z Hz Hk; rewrite (ids_unique _ _ _ _ (fi_ids _ F) Hf Hz Hk);
      unfold tk_of; cbn; fr_split_ifs; cbn; split; lia
  end.

Ltac fr_upload_other F :=
  match goal with
  | Hf : find_upload ?k (uploads ?s) = Some ?x |- filter _ (upd_upload ?k _ (uploads ?s)) = _ =>
      apply filter_upd_upload_other;
      let z := fresh "z" in let Hz := fresh "Hz" in let Hk := fresh "Hk" in
      intros z Hz Hk; rewrite (uids_unique _ _ _ _ (fi_upl _ F) Hf Hz Hk);
      unfold up_of; cbn; split; lia
  end.

Ltac fr_req_other F :=
  match goal with
  | Hf : find_req ?k (reqs ?s) = Some ?x |- filter _ (upd_req ?k _ (reqs ?s)) = _ =>
      apply filter_upd_req_other;
      let z := fresh "z" in let Hz := fresh "Hz" in let Hk := fresh "Hk" in
      intros z Hz Hk; rewrite (rids_unique _ _ _ _ (fi_reqs _ F) Hf Hz Hk);
      unfold rq_of; cbn; split; lia
  end.

Ltac fr_solve F Hne :=
  first
    [ reflexivity
    | apply find_coord_upd_other; [exact Hne|intros ? ?; cbn; fr_side]
    | eapply find_coord_app_other; [exact Hne|reflexivity]
    | fr_task_other F
    | fr_upload_other F
    | fr_req_other F
    | rewrite filter_snoc; unfold tk_of, up_of, rq_of; cbn;
      match goal with |- (if ?b then _ else _) = _ => destruct b eqn:?; [lia|reflexivity] end
    | rewrite find_file_app;
      match goal with |- match ?o with _ => _ end = _ => destruct o; [reflexivity|] end; cbn;
      match goal with |- (if ?b then _ else _) = _ => destruct b eqn:?; [lia|reflexivity] end
    | rewrite find_file_upd by reflexivity;
      match goal with |- (if ?b then _ else _) = _ => destruct b eqn:?; [lia|reflexivity] end
    ].

Ltac fr_norm :=
  repeat match goal with
         | H : negb _ = false |- _ => apply negb_false_iff in H
         | H : negb _ = true |- _ => apply negb_true_iff in H
         | H : _ && _ = true |- _ => apply andb_prop in H; destruct H
         end.

Ltac simp_hyps :=
  repeat match goal with
         | H : context [tasks (set_coords _ _)] |- _ => progress simp_proj_in H
         | H : context [tasks (bump_after_shutdown _)] |- _ => progress simp_proj_in H
         | H : context [coords (bump_after_shutdown _)] |- _ => progress simp_proj_in H
         | H : context [uploads (set_reqs _ _)] |- _ => progress simp_proj_in H
         end.

Ltac dedupe :=
  repeat match goal with
         | H1 : find_task ?k ?l = Some ?x, H2 : find_task ?k ?l = Some ?y |- _ =>
             rewrite H1 in H2; injection H2 as <-
         | H1 : find_coord ?k ?l = Some ?x, H2 : find_coord ?k ?l = Some ?y |- _ =>
             rewrite H1 in H2; injection H2 as <-
         end.

(** the invariant facts that tie an announcer / a request's upload to the owner *)
Ltac fr_facts F :=
  try match goal with
      | Hc : find_coord ?t (coords ?s) = Some ?c, Hp : ann_phase ?a (c_announcers ?c) = Some _,
        Hu : is_user ?a = false, Hx : find_task ?a (tasks ?s) = Some ?x |- _ =>
          assert (k_t x = t)
            by (eapply (fi_ann _ F); [exact Hc|rewrite Hp; discriminate|exact Hu|exact Hx])
      end;
  try match goal with
      | Hq : find_req ?r (reqs ?s) = Some ?q, Hop : r_op ?q = _
        |- context [upd_upload (r_uid ?q) _ (uploads ?s)] =>
          let u := fresh "u" in let Hu := fresh "Hu" in let Hut := fresh "Hut" in
          destruct (fi_pc _ F q (SysQuiesce.find_req_in _ _ _ Hq)) as (u & Hu & Hut);
          [rewrite Hop; reflexivity|]
      end.

Ltac fr_own_task H Hown :=
  unfold task_transfer in Hown;
  match type of Hown with
  | match find_task ?k ?l with _ => _ end = _ =>
      let x := fresh "x" in let E := fresh "Ex" in
      destruct (find_task k l) as [x|] eqn:E; [injection Hown as <-|discriminate Hown];
      unfold on_task in H; try rewrite E in H
  end.

Ltac fr_own_req H Hown :=
  unfold req_transfer in Hown;
  match type of Hown with
  | match find_req ?k ?l with _ => _ end = _ =>
      let x := fresh "q" in let E := fresh "Eq" in
      destruct (find_req k l) as [x|] eqn:E; [injection Hown as <-|discriminate Hown];
      try rewrite E in H
  end.

Ltac fr_go F H Hne :=
  inv_deep H; subst_somes; simp_hyps; dedupe; fr_norm; fr_facts F;
  unfold same_transfer_view; simp_proj; repeat split; fr_solve F Hne.

(** The frame theorem for one step. *)
Lemma frame_step s e s' t t' :
  finv s -> step s e = Some s' -> event_transfer s e = Some t -> t' <> t ->
  same_transfer_view t' s s'.
Proof.
  intros F H Hown Hne. destruct e; cbn [step event_transfer] in H, Hown;
    try discriminate Hown; try (injection Hown as <-).
  all: try fr_own_task H Hown.
  all: try fr_own_req H Hown.
  all: try (timeout 20 (fr_go F H Hne)).
Qed.

(** The four events of the manager's shutdown touch no per-transfer store at
    all: only the shut / joined flags of the executors and the shutdown phase. *)
Lemma global_step_stores s e s' :
  step s e = Some s' -> is_global e = true ->
  tasks s' = tasks s /\ coords s' = coords s /\ reqs s' = reqs s /\ uploads s' = uploads s /\
  files s' = files s /\ sems s' = sems s /\
  (forall g, g_queue (get_stage s' g) = g_queue (get_stage s g) /\
             g_running (get_stage s' g) = g_running (get_stage s g) /\
             g_workers (get_stage s' g) = g_workers (get_stage s g) /\
             g_history (get_stage s' g) = g_history (get_stage s g)).
Proof.
  intros H Hg. destruct e; cbn [is_global] in Hg; try discriminate Hg; cbn [step] in H;
    inv_deep H; subst_somes; simp_proj;
    (do 6 (split; [reflexivity|])); intros g1.
  all: try (repeat split; reflexivity).
  all: match goal with |- context [set_stage _ ?g0 _] => destruct g0; destruct g1; repeat split; try reflexivity; try discriminate end.
Qed.

Lemma global_step_view s e s' t :
  step s e = Some s' -> is_global e = true -> same_transfer_view t s s'.
Proof.
  intros H Hg. destruct (global_step_stores _ _ _ H Hg) as (H1 & H2 & H3 & H4 & H5 & _).
  unfold same_transfer_view. now rewrite H1, H2, H3, H4, H5.
Qed.

(** ** (2) for reachable states *)
Theorem frame_reachable a b c d e0 f g h s e s' t t' :
  reachable (init a b c d e0 f g h) s -> step s e = Some s' ->
  event_transfer s e = Some t -> t' <> t -> same_transfer_view t' s s'.
Proof. intros Hr. apply frame_step. eapply finv_reachable; eauto. Qed.

(** any step: the view of [t'] can only change by an event owned by [t'] *)
Corollary view_changes_only_by_owner a b c d e0 f g h s e s' t' :
  reachable (init a b c d e0 f g h) s -> step s e = Some s' ->
  event_transfer s e <> Some t' -> same_transfer_view t' s s'.
Proof.
  intros Hr H Hown. destruct (is_global e) eqn:Eg.
  - now apply (global_step_view _ _ _ t' H).
  - destruct (event_transfer_defined _ _ _ H Eg) as (t & Ht).
    eapply frame_reachable; eauto. congruence.
Qed.
